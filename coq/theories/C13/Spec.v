(* C13/Spec.v — what a coordination-graph maximiser has to return, stated without reference to
   any algorithm: the total payoff of a joint action under a set of local payoff rules, range,
   optimality, and brute-force boolean checkers used by the oracle. *)
From Coq Require Import List Arith QArith Bool.
From AIT Require Import C13.Model.
Import ListNotations.
Local Open Scope nat_scope.

(* a rule (keys, vals, value) applies to joint action a iff a[keys_i] = vals_i for all i *)
Fixpoint compat (keys vals a : list nat) : bool :=
  match keys, vals with
  | k :: ks, x :: xs => (nth k a 0 =? x) && compat ks xs a
  | [], [] => true
  | _, _ => false
  end.

(* payoff rules a = sum of the values of all rules applying to a (entries with no rule count 0) *)
Fixpoint payoff (rs : list rule) (a : list nat) : Q :=
  match rs with
  | [] => 0%Q
  | r :: t => ((if compat (r_keys r) (r_vals r) a then r_val r else 0) + payoff t a)%Q
  end.

(* joint action in range *)
Definition inr (A a : list nat) : Prop :=
  length a = length A /\ forall i, i < length A -> nth i a 0 < nth i A 0.

Fixpoint inrb (A a : list nat) : bool :=
  match A, a with
  | [], [] => true
  | n :: A', x :: a' => (x <? n) && inrb A' a'
  | _, _ => false
  end.

Fixpoint sorted_from (lo : nat) (l : list nat) : Prop :=
  match l with [] => True | x :: t => lo <= x /\ sorted_from (S x) t end.

(* well-formed rule: PartialAction invariants of the C++ (non-empty strictly increasing keys
   naming existing agents, one in-range value per key) *)
Definition wf_rule (A : list nat) (r : rule) : Prop :=
  r_keys r <> [] /\ sorted_from 0 (r_keys r) /\
  Forall2 (fun k x => k < length A /\ x < nth k A 0) (r_keys r) (r_vals r).

Definition is_perm_seq (n : nat) (order : list nat) : Prop :=
  NoDup order /\ forall i, In i order <-> i < n.

(* the VE contract *)
Definition ve_spec (A : list nat) (rs : list rule) (res : list nat * Q) : Prop :=
  inr A (fst res) /\ (snd res == payoff rs (fst res))%Q /\
  forall a', inr A a' -> (payoff rs a' <= snd res)%Q.

(* ---------- brute force (oracle) ---------- *)

Fixpoint all_actions (A : list nat) : list (list nat) :=
  match A with
  | [] => [[]]
  | n :: t => flat_map (fun x => map (cons x) (all_actions t)) (seq 0 n)
  end.

Definition is_upper (rs : list rule) (A : list nat) (v : Q) : bool :=
  forallb (fun a => Qle_bool (payoff rs a) v) (all_actions A).

(* exact maximisers: in range, reports its own payoff, nothing is better *)
Definition exact_check (A : list nat) (rs : list rule) (res : list nat * Q) : bool :=
  inrb A (fst res) && Qeq_bool (snd res) (payoff rs (fst res)) && is_upper rs A (snd res).

(* approximate maximisers: in range and reports exactly its own payoff (<= opt follows) *)
Definition approx_spec (A : list nat) (rs : list rule) (res : list nat * Q) : Prop :=
  inr A (fst res) /\ (snd res == payoff rs (fst res))%Q.

Definition approx_check (A : list nat) (rs : list rule) (res : list nat * Q) : bool :=
  inrb A (fst res) && Qeq_bool (snd res) (payoff rs (fst res)).

Fixpoint qmax_list (d : Q) (l : list Q) : Q :=
  match l with [] => d | x :: t => let m := qmax_list d t in if Qle_bool m x then x else m end.

(* opt = max over all joint actions (0 when the action space is empty) *)
Definition opt (A : list nat) (rs : list rule) : Q :=
  match map (payoff rs) (all_actions A) with
  | [] => 0%Q
  | x :: t => qmax_list x t
  end.

(* ---------- multi-objective payoffs (MOVE) ---------- *)
Fixpoint mo_payoff (zero : list Q) (rs : list mo_rule) (a : list nat) : list Q :=
  match rs with
  | [] => zero
  | r :: t => if compat (fst (fst r)) (snd (fst r)) a then vplus (snd r) (mo_payoff zero t a) else mo_payoff zero t a
  end.

(* u is at least v everywhere and differs somewhere (exact arithmetic) *)
Definition strictly_dominates (u v : list Q) : bool := vle v u && negb (veqb v u).

