(* C13/ProofsMO2.v — MOVE: sorted rule lists (lower_bound insertion, cursor merge with skipped
   invalid factors). *)
From Coq Require Import List Arith QArith Bool Lia Lqa.
From AIT Require Import C13.Model C13.Spec C13.ProofsBase C13.ProofsMO1.
Import ListNotations.
Local Open Scope nat_scope.

Fixpoint msrt (lo : nat) (rs : mo_rules) : Prop :=
  match rs with [] => True | (i, _) :: t => lo <= i /\ msrt (S i) t end.

Lemma msrt_weaken : forall rs lo lo', lo' <= lo -> msrt lo rs -> msrt lo' rs.
Proof. intros [|[i f] t] lo lo' H; cbn [msrt]; auto. intros [H1 H2]; split; [lia | auto]. Qed.

Lemma mfind_below : forall rs lo j, msrt lo rs -> j < lo -> mo_lb_find j rs = None.
Proof.
  intros [|[i f] t] lo j; cbn [msrt mo_lb_find]; auto. intros [H1 _] H2.
  destruct (i <? j) eqn:E1; [apply Nat.ltb_lt in E1; lia|].
  destruct (i =? j) eqn:E2; [apply Nat.eqb_eq in E2; lia | auto].
Qed.

Lemma mfind_app_ge : forall sk t jv j, (forall p, In p sk -> fst p < jv) -> jv <= j ->
  mo_lb_find j (sk ++ t) = mo_lb_find j t.
Proof.
  induction sk as [|[i f] sk IH]; intros t jv j H Hj; cbn [app mo_lb_find]; auto.
  assert (Hi : i < jv) by (apply (H (i, f)); left; auto).
  destruct (i <? j) eqn:E; [|apply Nat.ltb_ge in E; lia].
  apply (IH t jv); auto. intros; apply H; right; auto.
Qed.

Lemma mfind_app_lt : forall sk t jv j, msrt jv t -> j < jv ->
  mo_lb_find j (sk ++ t) = mo_lb_find j sk.
Proof.
  induction sk as [|[i f] sk IH]; intros t jv j Ht Hj; cbn [app mo_lb_find].
  - apply (mfind_below t jv); auto.
  - destruct (i <? j); [apply (IH t jv); auto|]. reflexivity.
Qed.

Lemma msrt_app : forall sk t lo jv, msrt lo sk -> (forall p, In p sk -> fst p < jv) -> lo <= jv -> msrt jv t ->
  msrt lo (sk ++ t).
Proof.
  induction sk as [|[i f] sk IH]; intros t lo jv Hs Hlt Hlo Ht; cbn [app].
  - apply (msrt_weaken t jv); auto.
  - cbn [msrt] in *. destruct Hs as [H1 H2]. split; auto.
    assert (Hi : i < jv) by (apply (Hlt (i, f)); left; auto).
    apply (IH t (S i) jv); auto. intros; apply Hlt; right; auto.
Qed.

Lemma mo_span_spec : forall old lo jv, msrt lo old ->
  old = fst (mo_span_lt jv old) ++ snd (mo_span_lt jv old) /\
  (forall p, In p (fst (mo_span_lt jv old)) -> fst p < jv) /\
  msrt lo (fst (mo_span_lt jv old)) /\ msrt jv (snd (mo_span_lt jv old)).
Proof.
  induction old as [|[i f] old IH]; intros lo jv Hs; cbn [mo_span_lt].
  - cbn [fst snd app msrt]. split; [auto | split; [intros p [] | auto]].
  - cbn [msrt] in Hs. destruct Hs as [H1 H2]. destruct (i <? jv) eqn:E.
    + apply Nat.ltb_lt in E. destruct (IH (S i) jv H2) as [I1 [I2 [I3 I4]]].
      destruct (mo_span_lt jv old) as [a b]. cbn [fst snd app msrt] in *. split; [f_equal; auto | split; [|split]]; auto.
      intros p [<-|Hp]; [cbn [fst]; auto | apply I2; auto].
    + apply Nat.ltb_ge in E. cbn [fst snd app msrt]. split; [auto | split; [intros p [] | split; auto]].
Qed.

(* the cursor merge of removeFactor on a sorted rule list: exactly the ids jv .. jv+|news|-1 are
   touched, and the rule at jv+i becomes the cross-sum of the old one with news[i]
   (an empty = invalid news[i] changes nothing) *)
Lemma mo_merge_walk_spec : forall news jv old lo, msrt lo old -> lo <= jv ->
  msrt lo (mo_merge_walk news jv old) /\
  forall j, mfind_den (mo_merge_walk news jv old) j =
            if in_win jv (length news) j then mo_cross (mfind_den old j) (nth (j - jv) news []) else mfind_den old j.
Proof.
  induction news as [|nf news IH]; intros jv old lo Hs Hlo.
  - cbn [mo_merge_walk length]. split; auto. intro j.
    assert (E : in_win jv 0 j = false).
    { unfold in_win. destruct (jv <=? j) eqn:E1; auto. apply Nat.leb_le in E1.
      destruct (j <? jv + 0) eqn:E2; auto. apply Nat.ltb_lt in E2. lia. }
    rewrite E. reflexivity.
  - assert (Hwin : forall j, in_win jv (S (length news)) j =
                             if jv =? j then true else in_win (S jv) (length news) j).
    { intro j. unfold in_win. replace (jv + S (length news)) with (S jv + length news) by lia.
      destruct (jv =? j) eqn:E.
      - apply Nat.eqb_eq in E. subst j. rewrite Nat.leb_refl. cbn [andb]. apply Nat.ltb_lt. lia.
      - apply Nat.eqb_neq in E. destruct (jv <=? j) eqn:A1; destruct (S jv <=? j) eqn:A2; auto;
          [apply Nat.leb_le in A1; apply Nat.leb_gt in A2; lia | apply Nat.leb_gt in A1; apply Nat.leb_le in A2; lia]. }
    destruct nf as [|n0 nf'].
    + (* invalid new factor: nothing stored *)
      cbn [mo_merge_walk length]. destruct (IH (S jv) old lo Hs ltac:(lia)) as [I1 I2]. split; auto.
      intro j. rewrite I2, Hwin. destruct (jv =? j) eqn:E.
      * apply Nat.eqb_eq in E. subst j.
        assert (Ew : in_win (S jv) (length news) jv = false).
        { unfold in_win. destruct (S jv <=? jv) eqn:A; auto. apply Nat.leb_le in A. lia. }
        rewrite Ew, Nat.sub_diag. cbn [nth]. rewrite mo_cross_nil_r. reflexivity.
      * apply Nat.eqb_neq in E. destruct (in_win (S jv) (length news) j) eqn:Ew; auto.
        assert (jv < j).
        { unfold in_win in Ew. apply andb_true_iff in Ew. destruct Ew as [A _]. apply Nat.leb_le in A. lia. }
        replace (j - jv) with (S (j - S jv)) by lia. reflexivity.
    + set (nf := n0 :: nf') in *.
      change (mo_merge_walk (nf :: news) jv old) with
        (let (skipped, rest) := mo_span_lt jv old in
         match rest with
         | (i, f) :: rest' =>
           if i =? jv then skipped ++ (i, mo_cross f nf) :: mo_merge_walk news (S jv) rest'
           else skipped ++ (jv, nf) :: mo_merge_walk news (S jv) rest
         | [] => skipped ++ (jv, nf) :: mo_merge_walk news (S jv) []
         end).
      destruct (mo_span_spec old lo jv Hs) as [Sp1 [Sp2 [Sp3 Sp4]]].
      destruct (mo_span_lt jv old) as [sk rest]. cbn [fst snd] in *. cbn [length].
      (* common shape: sk ++ (jv, X) :: merge_walk news (S jv) rest'' *)
      assert (Hgen : forall X rest'', msrt (S jv) rest'' ->
                (forall j, jv < j -> mfind_den rest'' j = mfind_den old j) ->
                X = mo_cross (mfind_den old jv) nf ->
                msrt lo (sk ++ (jv, X) :: mo_merge_walk news (S jv) rest'') /\
                forall j, mfind_den (sk ++ (jv, X) :: mo_merge_walk news (S jv) rest'') j =
                          if in_win jv (S (length news)) j then mo_cross (mfind_den old j) (nth (j - jv) (nf :: news) [])
                          else mfind_den old j).
      { intros X rest'' Hr Hsame HX. destruct (IH (S jv) rest'' (S jv) Hr (le_n _)) as [I1 I2]. split.
        - apply (msrt_app sk _ lo jv); auto. cbn [msrt]. split; [lia | auto].
        - intro j. rewrite Hwin. unfold mfind_den at 1. destruct (Nat.lt_ge_cases j jv) as [Hlt|Hge].
          + rewrite (mfind_app_lt sk _ jv j); [| cbn [msrt]; split; [lia | auto] | auto].
            destruct (jv =? j) eqn:E; [apply Nat.eqb_eq in E; lia|].
            assert (Ew : in_win (S jv) (length news) j = false).
            { unfold in_win. destruct (S jv <=? j) eqn:A; auto. apply Nat.leb_le in A. lia. }
            rewrite Ew. unfold mfind_den. rewrite Sp1. rewrite (mfind_app_lt sk rest jv j); auto.
          + rewrite (mfind_app_ge sk _ jv j); auto. cbn [mo_lb_find].
            destruct (jv =? j) eqn:E.
            * apply Nat.eqb_eq in E. subst j. rewrite Nat.ltb_irrefl. rewrite Nat.sub_diag. cbn [nth]. auto.
            * apply Nat.eqb_neq in E. assert (Hlt : jv < j) by lia. apply Nat.ltb_lt in Hlt. rewrite Hlt.
              apply Nat.ltb_lt in Hlt. fold (mfind_den (mo_merge_walk news (S jv) rest'') j).
              rewrite I2, (Hsame j Hlt). replace (j - jv) with (S (j - S jv)) by lia. reflexivity. }
      assert (Hold_ge : forall j, jv <= j -> mfind_den old j = mfind_den rest j).
      { intros j Hj. unfold mfind_den. rewrite Sp1. rewrite (mfind_app_ge sk rest jv j); auto. }
      destruct rest as [|[i f] rest'].
      * apply Hgen; [exact I | intros j Hj; rewrite (Hold_ge j) by lia; reflexivity |].
        rewrite (Hold_ge jv) by lia. reflexivity.
      * cbn [msrt] in Sp4. destruct Sp4 as [S1 S2]. destruct (i =? jv) eqn:E.
        -- apply Nat.eqb_eq in E. subst i. apply Hgen; auto.
           ++ intros j Hj. rewrite (Hold_ge j) by lia. unfold mfind_den. cbn [mo_lb_find].
              apply Nat.ltb_lt in Hj. rewrite Hj. reflexivity.
           ++ rewrite (Hold_ge jv) by lia. unfold mfind_den. cbn [mo_lb_find]. rewrite Nat.ltb_irrefl, Nat.eqb_refl. reflexivity.
        -- apply Nat.eqb_neq in E. apply Hgen.
           ++ cbn [msrt]. split; [lia | auto].
           ++ intros j Hj. rewrite (Hold_ge j) by lia. reflexivity.
           ++ rewrite (Hold_ge jv) by lia. unfold mfind_den.
              rewrite (mfind_below ((i, f) :: rest') (S jv) jv); [reflexivity | cbn [msrt]; split; [lia | auto] | lia].
Qed.

(* ---------- lower_bound insertion of the input rules ---------- *)
(* every factor of the initial graph is a single untagged entry *)
Definition single (f : mo_factor) : Prop := exists vec, f = [(vec, ([], []))].
Definition rules_single (rs : mo_rules) : Prop := forall i f, In (i, f) rs -> single f.

Definition hd_cmp (k : nat) (f : mo_factor) : Q := match f with [] => 0%Q | e :: _ => cmp k (fst e) end.

Lemma mfind_single : forall rs j, rules_single rs -> mfind_den rs j = [] \/ single (mfind_den rs j).
Proof.
  unfold mfind_den. induction rs as [|[i f] rs IH]; intros j H; cbn [mo_lb_find]; auto.
  destruct (i <? j).
  - apply IH. intros i' f' H'. apply (H i' f'). right; auto.
  - destruct (i =? j); auto. right. apply (H i f). left; auto.
Qed.

Lemma mo_lb_insert_spec : forall rs id v lo, msrt lo rs -> lo <= id -> rules_single rs ->
  msrt lo (mo_lb_insert id v rs) /\ rules_single (mo_lb_insert id v rs) /\
  forall j k, (hd_cmp k (mfind_den (mo_lb_insert id v rs) j) ==
               hd_cmp k (mfind_den rs j) + (if j =? id then cmp k v else 0))%Q.
Proof.
  induction rs as [|[i f] rs IH]; intros id v lo Hs Hlo Hsg.
  - cbn [mo_lb_insert]. split; [cbn [msrt]; auto | split].
    + intros i f [H|[]]. injection H as <- <-. exists v. reflexivity.
    + intros j k. unfold mfind_den. cbn [mo_lb_find].
      destruct (id <? j) eqn:E1; [apply Nat.ltb_lt in E1|apply Nat.ltb_ge in E1].
      * destruct (j =? id) eqn:E; [apply Nat.eqb_eq in E; lia|]. cbn [hd_cmp]. lra.
      * destruct (id =? j) eqn:E2.
        -- apply Nat.eqb_eq in E2. subst. rewrite Nat.eqb_refl. cbn [hd_cmp fst]. lra.
        -- apply Nat.eqb_neq in E2. destruct (j =? id) eqn:E; [apply Nat.eqb_eq in E; lia|]. cbn [hd_cmp]. lra.
  - cbn [msrt] in Hs. destruct Hs as [H1 H2].
    assert (Hsg' : rules_single rs) by (intros i' f' H'; apply (Hsg i' f'); right; auto).
    assert (Hf : single f) by (apply (Hsg i f); left; auto).
    cbn [mo_lb_insert]. destruct (i <? id) eqn:E1; [apply Nat.ltb_lt in E1|apply Nat.ltb_ge in E1].
    + destruct (IH id v (S i) H2 ltac:(lia) Hsg') as [I1 [I2 I3]]. split; [cbn [msrt]; auto | split].
      * intros i' f' [H|H]; [injection H as <- <-; auto | apply (I2 i' f'); auto].
      * intros j k. unfold mfind_den. cbn [mo_lb_find]. destruct (i <? j) eqn:E3; [apply I3|].
        apply Nat.ltb_ge in E3. destruct (j =? id) eqn:E; [apply Nat.eqb_eq in E; lia|]. lra.
    + destruct (i =? id) eqn:E2.
      * apply Nat.eqb_eq in E2. subst i. destruct Hf as [vec ->]. split; [cbn [msrt]; auto | split].
        -- intros i' f' [H|H]; [injection H as <- <-; eexists; reflexivity | apply (Hsg i' f'); right; auto].
        -- intros j k. unfold mfind_den. cbn [mo_lb_find]. destruct (id <? j) eqn:E3.
           ++ apply Nat.ltb_lt in E3. destruct (j =? id) eqn:E; [apply Nat.eqb_eq in E; lia|]. lra.
           ++ destruct (id =? j) eqn:E4.
              ** apply Nat.eqb_eq in E4. subst. rewrite Nat.eqb_refl. cbn [hd_cmp fst]. rewrite cmp_vplus. lra.
              ** apply Nat.eqb_neq in E4. destruct (j =? id) eqn:E; [apply Nat.eqb_eq in E; lia|]. lra.
      * apply Nat.eqb_neq in E2. split; [cbn [msrt]; split; [auto | split; [lia | auto]] | split].
        -- intros i' f' [H|H]; [injection H as <- <-; exists v; reflexivity | apply (Hsg i' f'); auto].
        -- intros j k. unfold mfind_den. cbn [mo_lb_find]. destruct (id <? j) eqn:E3.
           ++ apply Nat.ltb_lt in E3. destruct (j =? id) eqn:E; [apply Nat.eqb_eq in E; lia|]. lra.
           ++ apply Nat.ltb_ge in E3. destruct (id =? j) eqn:E4.
              ** apply Nat.eqb_eq in E4. subst j. rewrite Nat.eqb_refl.
                 destruct (i <? id) eqn:E5; [apply Nat.ltb_lt in E5; lia|].
                 destruct (i =? id) eqn:E6; [apply Nat.eqb_eq in E6; lia|]. cbn [hd_cmp fst]. lra.
              ** apply Nat.eqb_neq in E4. destruct (j =? id) eqn:E; [apply Nat.eqb_eq in E; lia|].
                 destruct (i <? j) eqn:E5; [apply Nat.ltb_lt in E5; lia|].
                 destruct (i =? j) eqn:E6; [apply Nat.eqb_eq in E6; lia|]. cbn [hd_cmp]. lra.
Qed.
