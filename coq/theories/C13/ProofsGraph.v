(* C13/ProofsGraph.v — denotation of factor graphs; rule insertion; cross-sum and max. *)
From Coq Require Import List Arith QArith Bool Lia Lqa.
From AIT Require Import C13.Model C13.Spec C13.ProofsBase.
Import ListNotations.
Local Open Scope nat_scope.

(* value / tags a factor node contributes under joint action a (missing entry = (0, [])) *)
Definition fden (A : list nat) (nd : fnode) (a : list nat) : factor := rden (snd nd) (pidx (fst nd) A a).
Definition gval (A : list nat) (g : graph) (a : list nat) : Q := qsum (map (fun nd => fst (fden A nd a)) g).
Definition gtags (A : list nat) (g : graph) (a : list nat) : list (nat * nat) := flat_map (fun nd => snd (fden A nd a)) g.
Definition fin_val (fin : list factor) : Q := qsum (map fst fin).
Definition fin_tags (fin : list factor) : list (nat * nat) := flat_map snd fin.

Lemma fden_agree : forall A nd a b,
  (forall k, In k (fst nd) -> nth k a 0 = nth k b 0) -> fden A nd a = fden A nd b.
Proof. intros. unfold fden. rewrite (pidx_agree (fst nd) A a b); auto. Qed.

Lemma gval_ext : forall A g a b, (forall nd, In nd g -> fden A nd a = fden A nd b) -> gval A g a = gval A g b.
Proof. intros A g a b H. unfold gval. f_equal. apply map_ext_in. intros nd Hn. rewrite (H nd Hn). reflexivity. Qed.

Lemma gtags_ext : forall A g a b, (forall nd, In nd g -> fden A nd a = fden A nd b) -> gtags A g a = gtags A g b.
Proof.
  intros A g a b H. unfold gtags. induction g as [|nd g IH]; cbn [flat_map]; auto.
  rewrite (H nd (or_introl eq_refl)). f_equal. apply IH. intros; apply H; right; auto.
Qed.

(* ---------- upd_node ---------- *)
Lemma upd_node_den : forall (P : rules_t -> Prop) A N f g a (d : Q) (dt : list (nat * nat)),
  P [] -> (forall nd, In nd g -> P (snd nd)) ->
  (forall rs, P rs -> (fst (rden (f rs) (pidx N A a)) == fst (rden rs (pidx N A a)) + d)%Q) ->
  (forall rs t, P rs -> In t (snd (rden (f rs) (pidx N A a))) <-> In t (snd (rden rs (pidx N A a))) \/ In t dt) ->
  (gval A (upd_node N f g) a == gval A g a + d)%Q /\
  (forall t, In t (gtags A (upd_node N f g) a) <-> In t (gtags A g a) \/ In t dt).
Proof.
  intros P A N f g a d dt P0 Pg Hv Ht. induction g as [|[vs rs] g IH].
  - cbn [upd_node]. unfold gval, gtags, fden. cbn [map flat_map qsum fst snd]. split.
    + rewrite (Hv [] P0). unfold rden. cbn [lb_find fst]. lra.
    + intro t. rewrite app_nil_r. rewrite (Ht [] t P0). unfold rden. cbn [lb_find snd]. tauto.
  - cbn [upd_node]. destruct (list_eqb vs N) eqn:E.
    + apply list_eqb_eq in E. subst vs. unfold gval, gtags, fden. cbn [map flat_map qsum fst snd].
      assert (Prs : P rs) by (apply (Pg (N, rs)); left; reflexivity). split.
      * rewrite (Hv rs Prs). lra.
      * intro t. rewrite !in_app_iff. rewrite (Ht rs t Prs). tauto.
    + assert (Pg' : forall nd, In nd g -> P (snd nd)) by (intros; apply Pg; right; auto).
      destruct (IH Pg') as [IH1 IH2]. unfold gval, gtags in *. cbn [map flat_map qsum]. split.
      * rewrite IH1. lra.
      * intro t. rewrite !in_app_iff. rewrite IH2. tauto.
Qed.

Lemma upd_node_in : forall N f g nd, In nd (upd_node N f g) ->
  (exists nd0, In nd0 g /\ fst nd = fst nd0 /\ (snd nd = snd nd0 \/ snd nd = f (snd nd0))) \/ nd = (N, f []).
Proof.
  intros N f g. induction g as [|[vs rs] g IH]; intros nd H; cbn [upd_node] in H.
  - destruct H as [H|[]]. right; auto.
  - destruct (list_eqb vs N) eqn:E.
    + destruct H as [H|H].
      * left. exists (vs, rs). subst nd. cbn [fst snd]. split; [left; auto | split; auto].
      * left. exists nd. split; [right; auto | auto].
    + destruct H as [H|H].
      * left. exists (vs, rs). subst nd. split; [left; auto | auto].
      * destruct (IH nd H) as [[nd0 [H0 H1]]|H1]; [left; exists nd0; split; [right; auto | auto] | right; auto].
Qed.

(* ---------- rule insertion: the graph built from the rules denotes [payoff] ---------- *)
Definition node_ok (A rem : list nat) (nd : fnode) : Prop :=
  fst nd <> [] /\ (forall k, In k (fst nd) -> In k rem) /\ srt 0 (snd nd).

Definition gwf (A rem : list nat) (g : graph) : Prop :=
  (forall u, In u rem -> u < length A) /\ forall nd, In nd g -> node_ok A rem nd.

Lemma forall2_keys : forall A keys vals k,
  Forall2 (fun k x => k < length A /\ x < nth k A 0) keys vals -> In k keys -> k < length A.
Proof. intros A keys vals k HF. induction HF as [|k0 x ks xs [H1 _] HF IH]; intro H; [destruct H|]. destruct H as [H|H]; subst; auto. Qed.

Lemma insert_rule_spec : forall A rem g r a,
  (forall i, i < length A -> In i rem) ->
  gwf A rem g -> wf_rule A r -> inr A a ->
  gwf A rem (insert_rule A g r) /\
  (gval A (insert_rule A g r) a == gval A g a + (if compat (r_keys r) (r_vals r) a then r_val r else 0))%Q /\
  (gtags A g a = [] -> gtags A (insert_rule A g r) a = []).
Proof.
  intros A rem g r a Hrem [Hw0 Hw] [Hne [_ HF]] [Hl Hr]. unfold insert_rule.
  set (id := pidx_pf (r_keys r) (r_vals r) A).
  assert (Hin : forall k, In k (r_keys r) -> nth k a 0 < nth k A 0).
  { intros k Hk. apply Hr. apply (forall2_keys A _ _ k HF Hk). }
  assert (Hc : (pidx (r_keys r) A a =? id) = compat (r_keys r) (r_vals r) a) by (apply pidx_pf_compat; auto).
  destruct (upd_node_den (fun _ => True) A (r_keys r) (lb_insert id (r_val r)) g a
              (if compat (r_keys r) (r_vals r) a then r_val r else 0%Q) []) as [D1 D2]; auto.
  - intros rs _. destruct (lb_insert_den rs id (r_val r) (pidx (r_keys r) A a)) as [H1 _].
    rewrite H1, Hc. lra.
  - intros rs t _. destruct (lb_insert_den rs id (r_val r) (pidx (r_keys r) A a)) as [_ H2].
    rewrite H2. cbn [In]. tauto.
  - split; [|split].
    + split; [exact Hw0|]. intros nd Hnd. destruct (upd_node_in _ _ _ _ Hnd) as [[nd0 [H0 [H1 H2]]]|H1].
      * destruct (Hw nd0 H0) as [Q1 [Q2 Q3]]. unfold node_ok. rewrite H1. split; [auto | split; [auto|]].
        destruct H2 as [H2|H2]; rewrite H2; [auto | apply lb_insert_srt; [auto | lia]].
      * subst nd. unfold node_ok. cbn [fst snd]. split; [auto | split].
        -- intros k Hk. apply Hrem. apply (forall2_keys A _ _ k HF Hk).
        -- cbn [lb_insert srt]. split; [lia | auto].
    + exact D1.
    + intro H0. destruct (gtags A (upd_node (r_keys r) (lb_insert id (r_val r)) g) a) as [|t l] eqn:E; auto.
      exfalso. destruct (proj1 (D2 t) (or_introl eq_refl)) as [Ht|[]]. rewrite H0 in Ht. destruct Ht.
Qed.

Lemma make_graph_spec : forall A rem rs a,
  (forall i, i < length A -> In i rem) -> (forall u, In u rem -> u < length A) ->
  Forall (wf_rule A) rs -> inr A a ->
  gwf A rem (make_graph A rs) /\ (gval A (make_graph A rs) a == payoff rs a)%Q /\ gtags A (make_graph A rs) a = [].
Proof.
  intros A rem rs a Hrem Hrem' Hwf Ha. unfold make_graph.
  assert (G : forall g, gwf A rem g -> gtags A g a = [] ->
            gwf A rem (fold_left (insert_rule A) rs g) /\
            (gval A (fold_left (insert_rule A) rs g) a == gval A g a + payoff rs a)%Q /\
            gtags A (fold_left (insert_rule A) rs g) a = []).
  { induction Hwf as [|r rs Hr Hwf IH]; intros g Hg Ht; cbn [fold_left payoff].
    - split; [auto | split; [lra | auto]].
    - destruct (insert_rule_spec A rem g r a Hrem Hg Hr Ha) as [S1 [S2 S3]].
      destruct (IH (insert_rule A g r) S1 (S3 Ht)) as [I1 [I2 I3]].
      split; [auto | split; [rewrite I2, S2; lra | auto]]. }
  destruct (G []) as [G1 [G2 G3]].
  - split; [auto | intros nd []].
  - reflexivity.
  - split; [auto | split; [rewrite G2; unfold gval; cbn [map qsum]; lra | auto]].
Qed.

(* ---------- cross_sum ---------- *)
Lemma cross_sum_spec : forall A Fv v x jv,
  (fst (cross_sum A Fv v x jv) == gval A Fv jv)%Q /\
  (forall t, In t (snd (cross_sum A Fv v x jv)) <-> t = (v, x) \/ In t (gtags A Fv jv)).
Proof.
  intros A Fv v x jv. unfold cross_sum.
  set (body := fun (acc : factor) (nd : fnode) =>
                 match lb_find (pidx (fst nd) A jv) (snd nd) with
                 | Some f => ((fst acc + fst f)%Q, snd acc ++ snd f)
                 | None => acc
                 end).
  assert (G : forall acc, (fst (fold_left body Fv acc) == fst acc + gval A Fv jv)%Q /\
                          (forall t, In t (snd (fold_left body Fv acc)) <-> In t (snd acc) \/ In t (gtags A Fv jv))).
  { induction Fv as [|nd Fv IH]; intro acc; cbn [fold_left].
    - unfold gval, gtags. cbn [map flat_map qsum]. split; [lra | intro; cbn [In]; tauto].
    - destruct (IH (body acc nd)) as [I1 I2]. unfold gval, gtags in *. cbn [map flat_map qsum].
      assert (B : (fst (body acc nd) == fst acc + fst (fden A nd jv))%Q /\
                  (forall t, In t (snd (body acc nd)) <-> In t (snd acc) \/ In t (snd (fden A nd jv)))).
      { unfold body, fden, rden. destruct (lb_find (pidx (fst nd) A jv) (snd nd)); cbn [fst snd].
        - split; [lra | intro; rewrite in_app_iff; tauto].
        - split; [lra | intro; cbn [In]; tauto]. }
      destruct B as [B1 B2]. split.
      + rewrite I1, B1. lra.
      + intro t. rewrite I2, B2, in_app_iff. tauto. }
  destruct (G (0%Q, [(v, x)])) as [G1 G2]. cbn [fst snd] in G1, G2. split.
  - exact (Qeq_trans _ _ _ G1 (Qplus_0_l _)).
  - intro t. split; intro H.
    + apply (proj1 (G2 t)) in H. cbn [In] in H. intuition.
    + apply (proj2 (G2 t)). cbn [In]. intuition.
Qed.

(* ---------- max over the eliminated variable's actions ---------- *)
Lemma best_spec : forall (c : nat -> factor) l init,
  match fold_left (fun acc x => end_cross acc (c x)) l init with
  | None => init = None /\ l = []
  | Some r => (init = Some r \/ exists x, In x l /\ r = c x) /\
              (forall x, In x l -> (fst (c x) <= fst r)%Q) /\
              (forall b, init = Some b -> (fst b <= fst r)%Q)
  end.
Proof.
  intros c l. induction l as [|x l IH]; intro init; cbn [fold_left].
  - destruct init as [b|]; [|auto]. split; [left; auto|]. split; [intros x []|].
    intros b' H. injection H as <-. lra.
  - specialize (IH (end_cross init (c x))).
    destruct (fold_left (fun acc x0 => end_cross acc (c x0)) l (end_cross init (c x))) as [r|].
    + destruct IH as [I1 [I2 I3]]. unfold end_cross in I1, I3.
      destruct init as [b|].
      * destruct (Qle_bool (fst (c x)) (fst b)) eqn:E.
        -- apply Qle_bool_iff in E. split; [|split].
           ++ destruct I1 as [I1|[y [Hy1 Hy2]]]; [left; auto | right; exists y; split; [right; auto | auto]].
           ++ intros y [Hy|Hy]; [subst y; apply (Qle_trans _ (fst b)); [auto | apply I3; auto] | apply I2; auto].
           ++ intros b' H. injection H as <-. apply I3; auto.
        -- assert (E' : (fst b < fst (c x))%Q).
           { apply Qnot_le_lt. intro H. apply Qle_bool_iff in H. rewrite H in E. discriminate. }
           split; [|split].
           ++ destruct I1 as [I1|[y [Hy1 Hy2]]].
              ** injection I1 as <-. right. exists x. split; [left; auto | auto].
              ** right; exists y; split; [right; auto | auto].
           ++ intros y [Hy|Hy]; [subst y; apply I3; auto | apply I2; auto].
           ++ intros b' H. injection H as <-. apply (Qle_trans _ (fst (c x))); [apply Qlt_le_weak; auto | apply I3; auto].
      * split; [|split].
        -- destruct I1 as [I1|[y [Hy1 Hy2]]].
           ++ injection I1 as <-. right. exists x. split; [left; auto | auto].
           ++ right; exists y; split; [right; auto | auto].
        -- intros y [Hy|Hy]; [subst y; apply I3; auto | apply I2; auto].
        -- intros b' H; discriminate H.
    + destruct IH as [I1 _]. unfold end_cross in I1. destruct init as [b|]; [destruct (Qle_bool (fst (c x)) (fst b))|]; discriminate I1.
Qed.

Lemma new_factor_spec : forall A Fv N v j, 0 < nth v A 0 ->
  let base := scatter N (pdec N A j) (length A) in
  exists x, x < nth v A 0 /\
    new_factor A Fv N v j = cross_sum A Fv v x (upd v x base) /\
    forall y, y < nth v A 0 ->
      (fst (cross_sum A Fv v y (upd v y base)) <= fst (cross_sum A Fv v x (upd v x base)))%Q.
Proof.
  intros A Fv N v j Hpos base. unfold new_factor, new_factor_opt. fold base.
  assert (S := best_spec (fun x => cross_sum A Fv v x (upd v x base)) (seq 0 (nth v A 0)) None).
  cbv beta in S.
  destruct (fold_left (fun acc x => end_cross acc (cross_sum A Fv v x (upd v x base))) (seq 0 (nth v A 0)) None) as [r|].
  - destruct S as [[S1|[x [Hx1 Hx2]]] [S2 _]]; [discriminate S1|].
    apply in_seq in Hx1. exists x. split; [lia|]. split; [auto|].
    intros y Hy. rewrite <- Hx2. apply S2. apply in_seq. lia.
  - destruct S as [_ S]. destruct (nth v A 0); [lia | discriminate S].
Qed.
