(* C13/ProofsMO3.v — MOVE: selections over graphs (partition, node update), initial graph. *)
From Coq Require Import List Arith QArith Bool Lia Lqa.
From AIT Require Import C13.Model C13.Spec C13.ProofsBase C13.ProofsMO1 C13.ProofsMO2.
Import ListNotations.
Local Open Scope nat_scope.

Lemma Sel_cons : forall L Ls sel,
  Sel (L :: Ls) sel <-> (L = [] /\ Sel Ls sel) \/ (L <> [] /\ exists e sel', sel = e :: sel' /\ In e L /\ Sel Ls sel').
Proof.
  intros [|e0 L] Ls sel; cbn [Sel].
  - split; [intro H; left; auto | intros [[_ H]|[H _]]; [auto | contradiction]].
  - split; [intro H; right; split; [discriminate | auto] | intros [[H _]|[_ H]]; [discriminate | auto]].
Qed.

Lemma csum_cons : forall k e s, (csum k (e :: s) == cmp k (fst e) + csum k s)%Q.
Proof. intros. unfold csum. cbn [map qsum]. lra. Qed.

Lemma csum_nil : forall k, (csum k [] == 0)%Q.
Proof. intros. unfold csum. cbn [map qsum]. lra. Qed.

(* ---------- partition of a graph's factor list ---------- *)
Lemma Sel_partition_fwd : forall (X : Type) (f : X -> mo_factor) (p : X -> bool) (g : list X) sel,
  Sel (map f g) sel ->
  exists s1 s2, Sel (map f (filter p g)) s1 /\ Sel (map f (filter (fun x => negb (p x)) g)) s2 /\
                (forall e, In e sel <-> In e s1 \/ In e s2) /\
                (forall k, (csum k sel == csum k s1 + csum k s2)%Q).
Proof.
  intros X f p g. induction g as [|x g IH]; intros sel HS; cbn [map filter] in *.
  - cbn [Sel] in HS. subst sel. exists [], []. cbn [Sel]. split; [auto | split; [auto | split]].
    + intro e. cbn [In]. tauto.
    + intro k. rewrite csum_nil. lra.
  - apply Sel_cons in HS. destruct HS as [[Hn HS]|[Hn [e [sel' [-> [He HS]]]]]].
    + destruct (IH sel HS) as [s1 [s2 [H1 [H2 [H3 H4]]]]]. exists s1, s2.
      destruct (p x); cbn [negb map]; (split; [|split; [|split; auto]]); auto; apply Sel_cons; left; auto.
    + destruct (IH sel' HS) as [s1 [s2 [H1 [H2 [H3 H4]]]]].
      destruct (p x) eqn:E; cbn [negb map].
      * exists (e :: s1), s2. split; [apply Sel_cons; right; split; [auto | exists e, s1; auto] | split; [auto | split]].
        -- intro e'. cbn [In]. rewrite H3. tauto.
        -- intro k. rewrite !csum_cons, H4. lra.
      * exists s1, (e :: s2). split; [auto | split; [apply Sel_cons; right; split; [auto | exists e, s2; auto] | split]].
        -- intro e'. cbn [In]. rewrite H3. tauto.
        -- intro k. rewrite !csum_cons, H4. lra.
Qed.

Lemma Sel_partition_bwd : forall (X : Type) (f : X -> mo_factor) (p : X -> bool) (g : list X) s1 s2,
  Sel (map f (filter p g)) s1 -> Sel (map f (filter (fun x => negb (p x)) g)) s2 ->
  exists sel, Sel (map f g) sel /\ (forall e, In e sel <-> In e s1 \/ In e s2) /\
              (forall k, (csum k sel == csum k s1 + csum k s2)%Q).
Proof.
  intros X f p g. induction g as [|x g IH]; intros s1 s2 H1 H2; cbn [map filter] in *.
  - cbn [Sel] in H1, H2. subst. exists []. cbn [Sel]. split; [auto | split].
    + intro e. cbn [In]. tauto.
    + intro k. rewrite csum_nil. lra.
  - destruct (p x) eqn:E; cbn [negb map] in *.
    + apply Sel_cons in H1. destruct H1 as [[Hn H1]|[Hn [e [s1' [-> [He H1]]]]]].
      * destruct (IH s1 s2 H1 H2) as [sel [I1 [I2 I3]]]. exists sel. split; [apply Sel_cons; left; auto | auto].
      * destruct (IH s1' s2 H1 H2) as [sel [I1 [I2 I3]]]. exists (e :: sel).
        split; [apply Sel_cons; right; split; [auto | exists e, sel; auto] | split].
        -- intro e'. cbn [In]. rewrite I2. tauto.
        -- intro k. rewrite !csum_cons, I3. lra.
    + apply Sel_cons in H2. destruct H2 as [[Hn H2]|[Hn [e [s2' [-> [He H2]]]]]].
      * destruct (IH s1 s2 H1 H2) as [sel [I1 [I2 I3]]]. exists sel. split; [apply Sel_cons; left; auto | auto].
      * destruct (IH s1 s2' H1 H2) as [sel [I1 [I2 I3]]]. exists (e :: sel).
        split; [apply Sel_cons; right; split; [auto | exists e, sel; auto] | split].
        -- intro e'. cbn [In]. rewrite I2. tauto.
        -- intro k. rewrite !csum_cons, I3. lra.
Qed.

(* ---------- a single cross-sum, in terms of selections ---------- *)
Lemma cross_sel_fwd : forall L H s, Sel [mo_cross L H] s ->
  exists sL sH, Sel [L] sL /\ Sel [H] sH /\ (forall k, (csum k s == csum k sL + csum k sH)%Q) /\
                (forall b, sel_ok b sL -> sel_ok b sH -> sel_ok b s).
Proof.
  intros L H s HS. destruct L as [|l0 L'].
  - cbn [mo_cross] in HS. exists [], s. split; [cbn [Sel]; auto | split; [auto | split]].
    + intro k. rewrite csum_nil. lra.
    + intros b _ Hb. auto.
  - destruct H as [|h0 H'].
    + cbn [mo_cross] in HS. exists s, []. split; [auto | split; [cbn [Sel]; auto | split]].
      * intro k. rewrite csum_nil. lra.
      * intros b Hb _. auto.
    + apply Sel_cons in HS. destruct HS as [[Hn _]|[_ [e [s' [-> [He HS]]]]]].
      * exfalso. apply (mo_cross_nonnil (l0 :: L') (h0 :: H')); [left; discriminate | auto].
      * cbn [Sel] in HS. subst s'.
        assert (He' := proj1 (mo_cross_in (l0 :: L') (h0 :: H') e ltac:(discriminate) ltac:(discriminate)) He).
        destruct He' as [le [re [Hle [Hre ->]]]].
        exists [le], [re]. split; [cbn [Sel]; exists le, []; auto | split; [cbn [Sel]; exists re, []; auto | split]].
        -- intro k. rewrite !csum_cons, !csum_nil. cbn [fst]. rewrite cmp_vplus. lra.
        -- intros b HbL HbH e' [<-|[]]. cbn [snd]. apply merge_tag_ok; [apply HbL | apply HbH]; left; auto.
Qed.

Lemma cross_sel_bwd : forall L H sL sH, Sel [L] sL -> Sel [H] sH ->
  exists s, Sel [mo_cross L H] s /\ forall k, (csum k s == csum k sL + csum k sH)%Q.
Proof.
  intros L H sL sH HL HH. destruct L as [|l0 L'].
  - cbn [Sel] in HL. subst sL. cbn [mo_cross]. exists sH. split; [auto | intro k; rewrite csum_nil; lra].
  - destruct H as [|h0 H'].
    + cbn [Sel] in HH. subst sH. cbn [mo_cross]. exists sL. split; [auto | intro k; rewrite csum_nil; lra].
    + cbn [Sel] in HL, HH. destruct HL as [le [s1 [-> [Hle ->]]]]. destruct HH as [re [s2 [-> [Hre ->]]]].
      exists [(vplus (fst le) (fst re), merge_tag (snd le) (snd re))]. split.
      * apply Sel_cons. right. split; [apply mo_cross_nonnil; left; discriminate|].
        eexists; exists []. split; [reflexivity | split; [|reflexivity]].
        apply mo_cross_in; try discriminate. exists le, re. auto.
      * intro k. rewrite !csum_cons, !csum_nil. cbn [fst]. rewrite cmp_vplus. lra.
Qed.

(* ---------- updating the node over N ---------- *)
Definition gLs (A : list nat) (g : list mo_node) (a : list nat) : list mo_factor := map (fun nd => mden A nd a) g.

Section UpdNode.
  Variables (A N : list nat) (fu : mo_rules -> mo_rules) (H : mo_factor) (a : list nat).
  Hypothesis Hfu : forall rs, msrt 0 rs ->
    mfind_den (fu rs) (pidx N A a) = mo_cross (mfind_den rs (pidx N A a)) H.

  Lemma Sel_upd_node_fwd : forall g sel, (forall nd, In nd g -> msrt 0 (snd nd)) ->
    Sel (gLs A (mo_upd_node N fu g) a) sel ->
    exists sG sH, Sel (gLs A g a) sG /\ Sel [H] sH /\ (forall k, (csum k sel == csum k sG + csum k sH)%Q) /\
                  (forall b, sel_ok b sG -> sel_ok b sH -> sel_ok b sel).
  Proof.
    induction g as [|[vs rs] g IH]; intros sel Hs HS.
    - cbn [mo_upd_node gLs map] in HS. unfold mden in HS. cbn [fst snd] in HS.
      rewrite (Hfu [] I) in HS. unfold mfind_den in HS. cbn [mo_lb_find mo_cross] in HS.
      exists [], sel. split; [reflexivity | split; [auto | split]].
      + intro k. rewrite csum_nil. lra.
      + intros b _ Hb. auto.
    - cbn [mo_upd_node] in HS. destruct (list_eqb vs N) eqn:E.
      + apply list_eqb_eq in E. subst vs. cbn [gLs map] in *. unfold mden at 1 in HS. cbn [fst snd] in HS.
        rewrite (Hfu rs (Hs (N, rs) (or_introl eq_refl))) in HS.
        change (mo_cross (mfind_den rs (pidx N A a)) H :: map (fun nd => mden A nd a) g)
          with ([mo_cross (mfind_den rs (pidx N A a)) H] ++ map (fun nd => mden A nd a) g) in HS.
        apply Sel_app in HS. destruct HS as [s1 [s2 [-> [H1 H2]]]].
        destruct (cross_sel_fwd _ _ _ H1) as [sL [sH [C1 [C2 [C3 C4]]]]].
        exists (sL ++ s2), sH. split; [|split; [auto | split]].
        * change (mden A (N, rs) a :: map (fun nd => mden A nd a) g) with ([mden A (N, rs) a] ++ map (fun nd => mden A nd a) g).
          apply Sel_app. exists sL, s2. auto.
        * intro k. rewrite !csum_app, C3. lra.
        * intros b Hb1 Hb2 e He. apply in_app_iff in He. destruct He as [He|He].
          -- apply (C4 b); auto. intros e' He'. apply Hb1. apply in_app_iff. left; auto.
          -- apply Hb1. apply in_app_iff. right; auto.
      + cbn [gLs map] in *.
        change (mden A (vs, rs) a :: map (fun nd => mden A nd a) (mo_upd_node N fu g))
          with ([mden A (vs, rs) a] ++ gLs A (mo_upd_node N fu g) a) in HS.
        apply Sel_app in HS. destruct HS as [s1 [s2 [-> [H1 H2]]]].
        destruct (IH s2 (fun nd Hnd => Hs nd (or_intror Hnd)) H2) as [sG [sH [I1 [I2 [I3 I4]]]]].
        exists (s1 ++ sG), sH. split; [|split; [auto | split]].
        * change (mden A (vs, rs) a :: map (fun nd => mden A nd a) g) with ([mden A (vs, rs) a] ++ gLs A g a).
          apply Sel_app. exists s1, sG. auto.
        * intro k. rewrite !csum_app, I3. lra.
        * intros b Hb1 Hb2 e He. apply in_app_iff in He. destruct He as [He|He].
          -- apply Hb1. apply in_app_iff. left; auto.
          -- apply (I4 b); auto. intros e' He'. apply Hb1. apply in_app_iff. right; auto.
  Qed.

  Lemma Sel_upd_node_bwd : forall g sG sH, (forall nd, In nd g -> msrt 0 (snd nd)) ->
    Sel (gLs A g a) sG -> Sel [H] sH ->
    exists sel, Sel (gLs A (mo_upd_node N fu g) a) sel /\ forall k, (csum k sel == csum k sG + csum k sH)%Q.
  Proof.
    induction g as [|[vs rs] g IH]; intros sG sH Hs HG HH.
    - cbn [gLs map Sel] in HG. subst sG. cbn [mo_upd_node gLs map]. unfold mden. cbn [fst snd].
      rewrite (Hfu [] I). unfold mfind_den. cbn [mo_lb_find mo_cross].
      exists sH. split; [auto | intro k; rewrite csum_nil; lra].
    - cbn [mo_upd_node]. cbn [gLs map] in HG.
      change (mden A (vs, rs) a :: map (fun nd => mden A nd a) g) with ([mden A (vs, rs) a] ++ gLs A g a) in HG.
      apply Sel_app in HG. destruct HG as [s1 [s2 [-> [H1 H2]]]].
      destruct (list_eqb vs N) eqn:E.
      + apply list_eqb_eq in E. subst vs. cbn [gLs map]. unfold mden at 1. cbn [fst snd].
        rewrite (Hfu rs (Hs (N, rs) (or_introl eq_refl))).
        destruct (cross_sel_bwd _ _ _ _ H1 HH) as [s [C1 C2]]. exists (s ++ s2). split.
        * change (mo_cross (mfind_den rs (pidx N A a)) H :: map (fun nd => mden A nd a) g)
            with ([mo_cross (mfind_den rs (pidx N A a)) H] ++ gLs A g a).
          apply Sel_app. exists s, s2. auto.
        * intro k. rewrite !csum_app, C2. lra.
      + destruct (IH s2 sH (fun nd Hnd => Hs nd (or_intror Hnd)) H2 HH) as [sel [I1 I2]].
        exists (s1 ++ sel). cbn [gLs map]. split.
        * change (mden A (vs, rs) a :: map (fun nd => mden A nd a) (mo_upd_node N fu g))
            with ([mden A (vs, rs) a] ++ gLs A (mo_upd_node N fu g) a).
          apply Sel_app. exists s1, sel. auto.
        * intro k. rewrite !csum_app, I2. lra.
  Qed.
End UpdNode.

Lemma mo_upd_node_in : forall N f g nd, In nd (mo_upd_node N f g) ->
  (exists nd0, In nd0 g /\ fst nd = fst nd0 /\ (snd nd = snd nd0 \/ snd nd = f (snd nd0))) \/ nd = (N, f []).
Proof.
  intros N f g. induction g as [|[vs rs] g IH]; intros nd H; cbn [mo_upd_node] in H.
  - destruct H as [H|[]]. right; auto.
  - destruct (list_eqb vs N) eqn:E.
    + destruct H as [H|H].
      * left. exists (vs, rs). subst nd. cbn [fst snd]. split; [left; auto | split; auto].
      * left. exists nd. split; [right; auto | auto].
    + destruct H as [H|H].
      * left. exists (vs, rs). subst nd. split; [left; auto | auto].
      * destruct (IH nd H) as [[nd0 [H0 H1]]|H1]; [left; exists nd0; split; [right; auto | auto] | right; auto].
Qed.

(* ---------- well-formed graphs; the initial graph ---------- *)
Definition mnode_ok (rem : list nat) (nd : mo_node) : Prop :=
  fst nd <> [] /\ (forall k, In k (fst nd) -> In k rem) /\ msrt 0 (snd nd).
Definition mgwf (A rem : list nat) (g : list mo_node) : Prop :=
  (forall u, In u rem -> u < length A) /\ forall nd, In nd g -> mnode_ok rem nd.

Definition wf_mo_rule (A : list nat) (r : mo_rule) : Prop :=
  fst (fst r) <> [] /\ Forall2 (fun k x => k < length A /\ x < nth k A 0) (fst (fst r)) (snd (fst r)).

Definition pay (z : list Q) (rs : list mo_rule) (k : nat) (a : list nat) : Q := cmp k (mo_payoff z rs a).

Lemma pay_cons : forall z r rs k a,
  (pay z (r :: rs) k a == (if compat (fst (fst r)) (snd (fst r)) a then cmp k (snd r) else 0) + pay z rs k a)%Q.
Proof.
  intros. unfold pay. cbn [mo_payoff]. destruct (compat (fst (fst r)) (snd (fst r)) a); [rewrite cmp_vplus; lra | lra].
Qed.

Lemma pay_agree : forall A z rs k a b, Forall (wf_mo_rule A) rs ->
  (forall i, i < length A -> nth i a 0 = nth i b 0) -> pay z rs k a = pay z rs k b.
Proof.
  intros A z rs k a b Hwf Hag. unfold pay. f_equal.
  induction Hwf as [|r rs [_ HF] Hwf IH]; cbn [mo_payoff]; auto.
  rewrite IH. rewrite (compat_agree (fst (fst r)) (snd (fst r)) a b); auto.
  intros i Hi. apply Hag.
  clear -HF Hi. induction HF as [|k0 x ks xs [H1 _] HF IH]; [destruct Hi|]. destruct Hi as [<-|Hi]; auto.
Qed.

Definition ghd (A : list nat) (k : nat) (g : list mo_node) (a : list nat) : Q :=
  qsum (map (fun nd => hd_cmp k (mden A nd a)) g).
Definition g_single (g : list mo_node) : Prop := forall nd, In nd g -> rules_single (snd nd).

Lemma Sel_single : forall Ls, (forall L, In L Ls -> L = [] \/ single L) ->
  forall sel, Sel Ls sel ->
    (forall k, (csum k sel == qsum (map (hd_cmp k) Ls))%Q) /\ (forall b, sel_ok b sel).
Proof.
  induction Ls as [|L Ls IH]; intros Hs sel HS.
  - cbn [Sel] in HS. subst. split; [intro k; rewrite csum_nil; cbn [map qsum]; lra | intros b e []].
  - assert (Hs' : forall L', In L' Ls -> L' = [] \/ single L') by (intros; apply Hs; right; auto).
    apply Sel_cons in HS. destruct HS as [[-> HS]|[Hn [e [sel' [-> [He HS]]]]]].
    + destruct (IH Hs' sel HS) as [I1 I2]. split; [|auto]. intro k. cbn [map qsum hd_cmp]. rewrite I1. lra.
    + destruct (IH Hs' sel' HS) as [I1 I2]. destruct (Hs L (or_introl eq_refl)) as [->|[vec ->]]; [contradiction|].
      destruct He as [<-|[]]. split.
      * intro k. rewrite csum_cons. cbn [map qsum hd_cmp fst]. rewrite I1. lra.
      * intros b e [<-|He]; [reflexivity | apply I2; auto].
Qed.

Lemma mo_insert_spec : forall A rem g (r : mo_rule) a k,
  (forall i, i < length A -> In i rem) ->
  mgwf A rem g -> g_single g -> wf_mo_rule A r -> inr A a ->
  let g' := mo_upd_node (fst (fst r)) (mo_lb_insert (pidx_pf (fst (fst r)) (snd (fst r)) A) (snd r)) g in
  mgwf A rem g' /\ g_single g' /\
  (ghd A k g' a == ghd A k g a + (if compat (fst (fst r)) (snd (fst r)) a then cmp k (snd r) else 0))%Q.
Proof.
  intros A rem g [[keys vals] v] a k Hrem [Hw0 Hw] Hsg [Hne HF] [Hl Hr]. cbn [fst snd] in *.
  set (id := pidx_pf keys vals A).
  assert (Hkeys : forall i, In i keys -> i < length A).
  { clear -HF. induction HF as [|k0 x ks xs [H1 _] HF IH]; intros i Hi; [destruct Hi|]. destruct Hi as [<-|Hi]; auto. }
  assert (Hc : (pidx keys A a =? id) = compat keys vals a).
  { apply pidx_pf_compat; auto. }
  cbv zeta.
  assert (G : forall g0, (forall nd, In nd g0 -> mnode_ok rem nd) -> g_single g0 ->
            (forall nd, In nd (mo_upd_node keys (mo_lb_insert id v) g0) -> mnode_ok rem nd) /\
            g_single (mo_upd_node keys (mo_lb_insert id v) g0) /\
            (ghd A k (mo_upd_node keys (mo_lb_insert id v) g0) a ==
             ghd A k g0 a + (if compat keys vals a then cmp k v else 0))%Q).
  { induction g0 as [|[vs rs] g0 IH]; intros Hok Hsg0.
    - cbn [mo_upd_node]. destruct (mo_lb_insert_spec [] id v 0 I (Nat.le_0_l _)) as [S1 [S2 S3]]; [intros i f []|].
      split; [|split].
      + intros nd [<-|[]]. split; [auto | split; [intros i Hi; apply Hrem; auto | exact S1]].
      + intros nd [<-|[]]. exact S2.
      + unfold ghd, mden. cbn [map qsum fst snd]. rewrite (S3 (pidx keys A a) k), Hc.
        unfold mfind_den. cbn [mo_lb_find hd_cmp]. lra.
    - cbn [mo_upd_node]. destruct (list_eqb vs keys) eqn:E.
      + apply list_eqb_eq in E. subst vs.
        destruct (Hok (keys, rs) (or_introl eq_refl)) as [Q1 [Q2 Q3]]. cbn [fst snd] in *.
        destruct (mo_lb_insert_spec rs id v 0 Q3 (Nat.le_0_l _) (Hsg0 (keys, rs) (or_introl eq_refl))) as [S1 [S2 S3]].
        split; [|split].
        * intros nd [<-|Hnd]; [split; [auto | split; auto] | apply Hok; right; auto].
        * intros nd [<-|Hnd]; [exact S2 | apply Hsg0; right; auto].
        * unfold ghd, mden. cbn [map qsum fst snd]. rewrite (S3 (pidx keys A a) k), Hc. lra.
      + destruct (IH (fun nd Hnd => Hok nd (or_intror Hnd)) (fun nd Hnd => Hsg0 nd (or_intror Hnd))) as [I1 [I2 I3]].
        split; [|split].
        * intros nd [<-|Hnd]; [apply Hok; left; auto | apply I1; auto].
        * intros nd [<-|Hnd]; [apply Hsg0; left; auto | apply I2; auto].
        * unfold ghd in *. cbn [map qsum]. rewrite I3. lra. }
  destruct (G g Hw Hsg) as [G1 [G2 G3]]. split; [split; auto | split; auto].
Qed.

Lemma mo_make_graph_spec : forall A rem rs a k z,
  (forall i, i < length A -> In i rem) -> (forall u, In u rem -> u < length A) ->
  Forall (wf_mo_rule A) rs -> inr A a -> (forall k', cmp k' z == 0)%Q ->
  mgwf A rem (mo_make_graph A rs) /\ g_single (mo_make_graph A rs) /\
  (ghd A k (mo_make_graph A rs) a == pay z rs k a)%Q.
Proof.
  intros A rem rs a k z Hrem Hrem' Hwf Ha Hz. unfold mo_make_graph.
  assert (G : forall g, mgwf A rem g -> g_single g ->
     mgwf A rem (fold_left (fun g (r : mo_rule) =>
        mo_upd_node (fst (fst r)) (mo_lb_insert (pidx_pf (fst (fst r)) (snd (fst r)) A) (snd r)) g) rs g) /\
     g_single (fold_left (fun g (r : mo_rule) =>
        mo_upd_node (fst (fst r)) (mo_lb_insert (pidx_pf (fst (fst r)) (snd (fst r)) A) (snd r)) g) rs g) /\
     (ghd A k (fold_left (fun g (r : mo_rule) =>
        mo_upd_node (fst (fst r)) (mo_lb_insert (pidx_pf (fst (fst r)) (snd (fst r)) A) (snd r)) g) rs g) a
      == ghd A k g a + pay z rs k a)%Q).
  { induction Hwf as [|r rs Hr Hwf IH]; intros g Hg Hsg; cbn [fold_left].
    - split; [auto | split; [auto|]]. unfold pay. cbn [mo_payoff]. rewrite Hz. lra.
    - destruct (mo_insert_spec A rem g r a k Hrem Hg Hsg Hr Ha) as [S1 [S2 S3]].
      destruct (IH _ S1 S2) as [I1 [I2 I3]]. split; [auto | split; [auto|]].
      rewrite I3, S3, pay_cons. lra. }
  destruct (G []) as [G1 [G2 G3]].
  - split; [auto | intros nd []].
  - intros nd [].
  - split; [auto | split; [auto|]]. rewrite G3. unfold ghd. cbn [map qsum]. lra.
Qed.
