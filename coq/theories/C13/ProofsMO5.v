(* C13/ProofsMO5.v — MOVE (repaired code) returns exactly the Pareto front, for every rule set and
   every elimination order. *)
From Coq Require Import List Arith QArith Bool Lia Lqa.
From AIT Require Import C13.Model C13.Spec C13.ProofsBase C13.ProofsMO1 C13.ProofsMO2 C13.ProofsMO3 C13.ProofsMO4.
Import ListNotations.
Local Open Scope nat_scope.

(* ---------- componentwise comparisons ---------- *)
Lemma cmp_overflow : forall k (v : list Q), length v <= k -> cmp k v = 0%Q.
Proof. intros. unfold cmp. apply nth_overflow. auto. Qed.

Lemma vle_spec : forall u v, vle u v = true <-> forall k, (cmp k u <= cmp k v)%Q.
Proof.
  intros u v. unfold vle. rewrite forallb_forall. split.
  - intros H k. destruct (Nat.lt_ge_cases k (Nat.max (length u) (length v))) as [Hk|Hk].
    + apply Qle_bool_iff. apply H. apply in_seq. lia.
    + rewrite !cmp_overflow by lia. apply Qle_refl.
  - intros H k _. apply Qle_bool_iff. apply H.
Qed.

Lemma veqb_spec : forall u v, veqb u v = true <-> forall k, (cmp k u == cmp k v)%Q.
Proof.
  intros u v. unfold veqb. rewrite forallb_forall. split.
  - intros H k. destruct (Nat.lt_ge_cases k (Nat.max (length u) (length v))) as [Hk|Hk].
    + apply Qeq_bool_iff. apply H. apply in_seq. lia.
    + rewrite !cmp_overflow by lia. apply Qeq_refl.
  - intros H k _. apply Qeq_bool_iff. apply H.
Qed.

Lemma sd_congr : forall u v u' v', (forall k, (cmp k u == cmp k u')%Q) -> (forall k, (cmp k v == cmp k v')%Q) ->
  strictly_dominates u v = true -> strictly_dominates u' v' = true.
Proof.
  intros u v u' v' Hu Hv H. unfold strictly_dominates in *. apply andb_true_iff in H. destruct H as [H1 H2].
  apply andb_true_iff. split.
  - apply vle_spec. intro k. rewrite <- (Hu k), <- (Hv k). apply (proj1 (vle_spec v u) H1).
  - apply negb_true_iff in H2. apply negb_true_iff. destruct (veqb v' u') eqn:E; [|reflexivity].
    assert (E' : veqb v u = true).
    { apply veqb_spec. intro k. rewrite (Hu k), (Hv k). apply (proj1 (veqb_spec v' u') E). }
    congruence.
Qed.

(* ---------- the final Pareto filter ---------- *)
Definition dom (e o : mo_entry) : bool := vle (fst e) (fst o) && negb (veqb (fst e) (fst o)).

Lemma prune_kept : forall all l kept e, In e kept -> In e (mo_prune_go all kept l).
Proof.
  intros all. induction l as [|x l IH]; intros kept e He; cbn [mo_prune_go]; auto.
  destruct (existsb _ all || existsb _ kept); apply IH; auto. apply in_app_iff. left; auto.
Qed.

Lemma prune_sound : forall all l kept e, In e (mo_prune_go all kept l) ->
  In e kept \/ (In e l /\ forall o, In o all -> dom e o = false).
Proof.
  intros all. induction l as [|x l IH]; intros kept e He; cbn [mo_prune_go] in He; auto.
  destruct (existsb (fun o : mo_entry => vle (fst x) (fst o) && negb (veqb (fst x) (fst o))) all) eqn:E1; cbn [orb] in He.
  - destruct (IH _ _ He) as [H|[H1 H2]]; [left; auto | right; split; [right; auto | auto]].
  - destruct (existsb (fun o : mo_entry => veqb (fst x) (fst o)) kept) eqn:E2.
    + destruct (IH _ _ He) as [H|[H1 H2]]; [left; auto | right; split; [right; auto | auto]].
    + destruct (IH _ _ He) as [H|[H1 H2]].
      * apply in_app_iff in H. destruct H as [H|[<-|[]]]; [left; auto | right]. split; [left; auto|].
        intros o Ho. unfold dom. destruct (vle (fst x) (fst o) && negb (veqb (fst x) (fst o))) eqn:E; auto.
        assert (existsb (fun o : mo_entry => vle (fst x) (fst o) && negb (veqb (fst x) (fst o))) all = true).
        { apply existsb_exists. exists o. auto. }
        congruence.
      * right; split; [right; auto | auto].
Qed.

Lemma prune_complete : forall all l kept e, In e l -> (forall o, In o all -> dom e o = false) ->
  exists e', In e' (mo_prune_go all kept l) /\ veqb (fst e) (fst e') = true.
Proof.
  intros all. induction l as [|x l IH]; intros kept e He Hd; [destruct He|]. cbn [mo_prune_go].
  destruct He as [<-|He].
  - assert (E1 : existsb (fun o : mo_entry => vle (fst x) (fst o) && negb (veqb (fst x) (fst o))) all = false).
    { destruct (existsb _ all) eqn:E; auto. apply existsb_exists in E. destruct E as [o [Ho E]].
      specialize (Hd o Ho). unfold dom in Hd. congruence. }
    rewrite E1. cbn [orb]. destruct (existsb (fun o : mo_entry => veqb (fst x) (fst o)) kept) eqn:E2.
    + apply existsb_exists in E2. destruct E2 as [o [Ho E2]]. exists o. split; [apply prune_kept; auto | auto].
    + exists x. split; [apply prune_kept; apply in_app_iff; right; left; auto|].
      apply veqb_spec. intro k. apply Qeq_refl.
  - destruct (existsb _ all || existsb _ kept); apply IH; auto.
Qed.

Lemma mo_make_result_eq : forall fin,
  mo_make_result fin = mo_prune_go (fold_left mo_cross fin []) [] (fold_left mo_cross fin []).
Proof. intros [|f fin]; reflexivity. Qed.

(* ---------- main theorem ---------- *)
Theorem move_pareto_lemma : forall (A : list nat) (rs : list mo_rule) (order : list nat) (d : nat),
  (forall i, i < length A -> 0 < nth i A 0) ->
  Forall (wf_mo_rule A) rs -> is_perm_seq (length A) order ->
  let z := repeat 0%Q d in
  let res := move A rs order in
  (forall e, In e res ->
     exists b, inr A b /\ tag_ok (snd e) b /\ (forall k, (cmp k (fst e) == cmp k (mo_payoff z rs b))%Q) /\
               forall b', inr A b' -> strictly_dominates (mo_payoff z rs b') (fst e) = false) /\
  (forall b, inr A b ->
     (forall b', inr A b' -> strictly_dominates (mo_payoff z rs b') (mo_payoff z rs b) = false) ->
     (exists e, In e res /\ forall k, (cmp k (fst e) == cmp k (mo_payoff z rs b))%Q) \/
     (res = [] /\ forall a k, inr A a -> (cmp k (mo_payoff z rs a) == 0)%Q)).
Proof.
  intros A rs order d HposA Hwf [Hnd Hperm] z res.
  set (n := length A). set (a0 := repeat 0 n).
  assert (Hz : forall k, (cmp k z == 0)%Q) by (intro k; unfold z; rewrite cmp_repeat0; apply Qeq_refl).
  assert (Ha0 : inr A a0).
  { split; [unfold a0; apply repeat_length|]. intros i Hi. unfold a0. rewrite nth_repeat0. apply HposA; auto. }
  set (st0 := (mo_make_graph A rs, @nil mo_factor)).
  assert (Hr1 : forall i, i < length A -> In i order) by (intros; apply Hperm; auto).
  assert (Hr2 : forall u, In u order -> u < length A) by (intros; apply Hperm; auto).
  assert (I0 : MInv A z rs order st0).
  { assert (MG := fun a k Ha => mo_make_graph_spec A order rs a k z Hr1 Hr2 Hwf Ha Hz).
    destruct (MG a0 0 Ha0) as [W0 [Sg0 _]].
    assert (Hsel : forall a sel, inr A a -> Sel (MLs A st0 a) sel ->
              (forall k, (csum k sel == pay z rs k a)%Q) /\ forall b, sel_ok b sel).
    { intros a sel Ha HS. unfold MLs, st0 in HS. cbn [fst snd] in HS. rewrite app_nil_r in HS.
      destruct (Sel_single (gLs A (mo_make_graph A rs) a)) with (sel := sel) as [T1 T2]; auto.
      - intros L HL. unfold gLs in HL. apply in_map_iff in HL. destruct HL as [nd [<- Hnd0]].
        unfold mden. apply mfind_single. apply Sg0; auto.
      - split; [|auto]. intro k. rewrite T1. destruct (MG a k Ha) as [_ [_ M3]]. rewrite <- M3.
        unfold ghd, gLs. rewrite map_map. apply Qeq_refl. }
    split; [exact W0 | split].
    - intros a sel Ha HS. destruct (Hsel a sel Ha HS) as [T1 T2]. exists a. auto.
    - intros b Hb. destruct (Sel_exists (MLs A st0 b)) as [sel HS]. exists sel. split; [auto|].
      apply (Hsel b sel Hb HS). }
  assert (IE := MInv_fold A z rs a0 order st0 Ha0 Hnd I0).
  set (stE := fold_left (mo_remove_factor A) order st0) in *.
  destruct IE as [[_ WE] [SE CE]].
  assert (HgE : fst stE = []).
  { destruct (fst stE) as [|nd g] eqn:E; auto. exfalso.
    destruct (WE nd (or_introl eq_refl)) as [Q1 [Q2 _]].
    destruct (fst nd) as [|k ks]; [apply Q1; reflexivity | apply (Q2 k); left; reflexivity]. }
  assert (HLs : forall a, MLs A stE a = snd stE) by (intro a; unfold MLs; rewrite HgE; reflexivity).
  set (fin := snd stE) in *. set (r := fold_left mo_cross fin []).
  assert (Hres : res = mo_prune_go r [] r).
  { unfold res, move. fold st0. fold stE. fold fin. apply mo_make_result_eq. }
  (* entries of r are payoffs of actions; payoffs of actions are entries of r (if any) *)
  assert (Hr_sound : forall o, In o r -> exists b, inr A b /\ tag_ok (snd o) b /\
                                                  forall k, (cmp k (fst o) == pay z rs k b)%Q).
  { intros o Ho. destruct (fc_fwd _ _ _ Ho) as [sel [F1 [F2 F3]]]. cbn [Sel] in F1.
    destruct (SE a0 sel Ha0) as [b [B1 [_ [B3 B4]]]]; [rewrite HLs; exact F1|].
    exists b. split; [auto | split; [apply F3; auto|]]. intro k. rewrite (F2 k). apply B4. }
  assert (Hr_complete : forall b, inr A b ->
            (exists o, In o r /\ forall k, (cmp k (fst o) == pay z rs k b)%Q) \/
            ((forall L, In L fin -> L = []) /\ forall k, (pay z rs k b == 0)%Q)).
  { intros b Hb. destruct (CE b Hb) as [sel [C1 C2]]. rewrite HLs in C1.
    destruct sel as [|s0 sel'].
    - right. split; [apply Sel_all_nil; auto|]. intro k. rewrite <- (C2 k), csum_nil. apply Qeq_refl.
    - left. destruct (fc_bwd fin [] (s0 :: sel')) as [o [O1 O2]]; [exact C1 | discriminate|].
      exists o. split; [exact O1|]. intro k. rewrite (O2 k). apply C2. }
  split.
  - intros e He. rewrite Hres in He. destruct (prune_sound _ _ _ _ He) as [[]|[He1 He2]].
    destruct (Hr_sound e He1) as [b [B1 [B2 B3]]].
    exists b. split; [auto | split; [auto | split; [exact B3|]]].
    intros b' Hb'. destruct (strictly_dominates (mo_payoff z rs b') (fst e)) eqn:E; [|reflexivity]. exfalso.
    destruct (Hr_complete b' Hb') as [[o [O1 O2]]|[Hnil _]].
    + assert (Hd : dom e o = true).
      { change (dom e o) with (strictly_dominates (fst o) (fst e)).
        apply (sd_congr (mo_payoff z rs b') (fst e)); auto.
        - intro k. rewrite (O2 k). apply Qeq_refl.
        - intro k. apply Qeq_refl. }
      rewrite (He2 o O1) in Hd. discriminate Hd.
    + unfold r in He1. rewrite (fc_nil fin Hnil) in He1. destruct He1.
  - intros b Hb Hnd'. destruct (Hr_complete b Hb) as [[o [O1 O2]]|[Hnil Hzero]].
    + left. destruct (prune_complete r r [] o O1) as [e' [E1 E2]].
      * intros o' Ho'. destruct (dom o o') eqn:E; [|reflexivity]. exfalso.
        destruct (Hr_sound o' Ho') as [b' [B1 [_ B3]]].
        assert (Hd : strictly_dominates (mo_payoff z rs b') (mo_payoff z rs b) = true).
        { apply (sd_congr (fst o') (fst o)); auto. }
        rewrite (Hnd' b' B1) in Hd. discriminate Hd.
      * exists e'. rewrite Hres. split; [exact E1|]. intro k.
        rewrite <- (proj1 (veqb_spec _ _) E2 k). apply O2.
    + right. split.
      * rewrite Hres. unfold r. rewrite (fc_nil fin Hnil). reflexivity.
      * intros a k Ha. destruct (Hr_complete a Ha) as [[o [O1 _]]|[_ Hz']].
        -- unfold r in O1. rewrite (fc_nil fin Hnil) in O1. destruct O1.
        -- apply Hz'.
Qed.
