(* Properties_C18.v — property C18: Cassandra-format files parse to the model they define, or are
   rejected.  Only statements, each closed by [exact <lemma>] and followed by Print Assumptions. *)
From Coq Require Import String.
From Coq Require Import List Arith Ascii NArith ZArith QArith Bool Lia.
From AIT Require Import C18.Model C18.Spec C18.Proofs C18.ProofsSafe C18.ProofsSem C18.ProofsPrint C18.ProofsPrint2 C18.ProofsReject C18.ProofsCheck C18.ProofsReuse C18.ProofsForms C18.ProofsLex3 C18.ProofsWhole C18.ProofsSigned.
Import ListNotations.
Local Close Scope Q_scope.
Local Close Scope string_scope.

(* Repaired parser (fixes/C18-missing-throw.patch): a row statement "T: a : s v1 … vk" whose number
   of tokens is neither 3 (vector on the next line) nor 3 + D3 is rejected. *)
Theorem wrong_length_row_rejected : forall M D1 D2 D3 ma d1m d3m l rest,
  l_colons l = 2 -> length (l_toks l) <> 3 + D3 -> length (l_toks l) <> 3 ->
  exists e, processMatrix true M D1 D2 D3 ma d1m d3m l rest = Throw e.
Proof. exact wrong_length_row_rejected_lemma. Qed.
Print Assumptions wrong_length_row_rejected.

Theorem missing_sizes_rejected : forall fixed pomdp ls p body,
  parseModelInfo ls pre0 = Ok (p, body) ->
  (pS p = 0%N \/ pA p = 0%N \/ (pomdp = true /\ pO p = 0%N)) ->
  parse_lines fixed pomdp ls = Throw E_incomplete.
Proof. exact missing_sizes_rejected_lemma. Qed.
Print Assumptions missing_sizes_rejected.

(* No input whatsoever — no text, and not even an arbitrary list of lexed lines — makes the repaired
   parser perform an out-of-bounds access (every unchecked M[d1][a][d3] of the C++ is a checked
   access in the model), and the line loop never runs out of lines. *)
Theorem parser_total_no_UB : forall pomdp text,
  parse_text true pomdp text <> UB /\ parse_text true pomdp text <> NoFuel.
Proof. exact parser_total_no_UB_lemma. Qed.
Print Assumptions parser_total_no_UB.

Theorem parser_total_no_UB_lines : forall pomdp ls,
  parse_lines true pomdp ls <> UB /\ parse_lines true pomdp ls <> NoFuel.
Proof. exact parser_total_no_UB_lines_lemma. Qed.
Print Assumptions parser_total_no_UB_lines.

(* Today's code (fixed = false): the wrong-length row is accepted and ignored ... *)
Theorem wrong_length_row_refuted :
  exists text m, parse_text false false text = Ok m /\ mT m = new_tab 2 1 2 /\
                 parse_text true false text = Throw E_row_args.
Proof. exact wrong_length_row_refuted_lemma. Qed.
Print Assumptions wrong_length_row_refuted.

(* ... and sizes whose table size wraps around lead to out-of-bounds writes. *)
Theorem size_overflow_refuted :
  exists text, parse_text false false text = UB /\ parse_text true false text = Throw E_too_large.
Proof. exact size_overflow_refuted_lemma. Qed.
Print Assumptions size_overflow_refuted.

(* parse_print.  [print fmt prog] is the character text obtained by printing statement i with the
   format [fmt i] (spacing before/after every colon, between tokens, at both ends of every line, the
   word that starts a T/O/R line, the spelling of every number, extra ignored tokens); [fmts_ok] says
   the format is admissible (tokens are non-empty and contain no white space or colon, a spelled number
   reads back as the number, a number is not shadowed by a declared name, value tokens and ignored lines
   do not start like a keyword).  For every well-formed program and every admissible format the repaired
   parser, run on the CHARACTERS, returns exactly the denotation. *)
Theorem parse_print : forall pomdp prog fmt,
  wf pomdp prog -> fmts_ok (hdr_of prog) fmt 0 prog ->
  parse_text true pomdp (print fmt prog) = Ok (denote pomdp prog).
Proof. exact parse_print_full_lemma. Qed.
Print Assumptions parse_print.

(* the lexer lemma behind it: lexing the printed text gives lines that render the program *)
Theorem print_renders : forall fmt prog,
  fmts_ok (hdr_of prog) fmt 0 prog -> renders prog (lex_text (print fmt prog)).
Proof. exact print_renders_lemma. Qed.
Print Assumptions print_renders.

(* The relational form is more general than any one printer: EVERY list of lexed lines that renders
   the program (declarations anywhere, any interleaving of ignored lines, any spelling) is parsed to
   the denotation: line dispatch, `*` / name / number expansion, later-overrides-earlier. *)
Theorem parse_print_lines : forall pomdp prog ls,
  wf pomdp prog -> renders prog ls -> parse_lines true pomdp ls = Ok (denote pomdp prog).
Proof. exact parse_print_lemma. Qed.
Print Assumptions parse_print_lines.

Theorem parse_print_text : forall pomdp prog text,
  wf pomdp prog -> renders prog (lex_text text) -> parse_text true pomdp text = Ok (denote pomdp prog).
Proof. exact parse_print_text_lemma. Qed.
Print Assumptions parse_print_text.

(* hypotheses of parse_print on a printed text with irregular spacing, a name, a "+0" / "01" spelling,
   an ignored token and a next-line vector:
      " states: 2" / " actions: go" / " T: go : +0  : * 0.5 junk" / "Trans:*:01  " / " 0.25  .75  "      *)
Definition ex_s (x : string) : str := list_ascii_of_string x.
Definition ex_fA : sfmt :=
  mkSfmt (fun _ => 1) (fun _ => 0) (fun k => (k, 1)) (fun _ c => c) (ex_s "T")
         (fun k => match k with 0 => ex_s "2" | _ => ex_s "+0" end) (fun _ _ => ex_s "0.5") (ex_s "reward") [ex_s "junk"].
Definition ex_fB : sfmt :=
  mkSfmt (fun k => k) (fun _ => 2) (fun _ => (0, 0)) (fun _ _ => 1) (ex_s "Trans") (fun _ => ex_s "01")
         (fun _ c => match c with 0 => ex_s "0.25" | _ => ex_s ".75" end) (ex_s "x") [].
Definition ex_fmt (i : nat) : sfmt := match i with 3 => ex_fB | _ => ex_fA end.
Definition ex_prog : list stmt :=
  [SStates (DNum 2); SActions (DNames [ex_s "go"]); SEntry TT (IName (ex_s "go")) (INum 0) IStar (VQ (1 # 2)%Q);
   SRowNext TT IStar (INum 1) [VQ (1 # 4)%Q; VQ (3 # 4)%Q]].
Ltac cl := split; [discriminate| reflexivity].
Ltac fcl := repeat (constructor; [cl|]); constructor.
Example ex_parse_print_full :
  wf false ex_prog /\ fmts_ok (hdr_of ex_prog) ex_fmt 0 ex_prog /\
  print ex_fmt ex_prog = txt [" states: 2"; " actions: go"; " T: go : +0  : * 0.5 junk"; "Trans:*:01  "; " 0.25  .75  "]%string.
Proof.
  split; [| split].
  - apply wfb_sound_lemma. vm_compute. reflexivity.
  - change (hdr_of ex_prog) with (mkHdr 2 1 0 [] [ex_s "go"] [] (VQ 1%Q)).
    cbn [fmts_ok ex_prog]. split; [| split; [| split; [| split; [| exact I]]]].
    + split; [fcl| split; [cl| reflexivity]].
    + split; [fcl| split; [discriminate| split; [fcl| intros t E n; inversion E; subst; vm_compute; discriminate]]].
    + split; [fcl|]. split; [eexists; split; reflexivity|]. split; [cl|].
      split; [split; [cl| split; [reflexivity| split; [discriminate| intros []]]]|].
      split; [exact I|]. split; [cl| split; vm_compute; reflexivity].
    + split; [fcl|]. split; [eexists; split; reflexivity|]. split; [exact I|].
      split; [split; [cl| split; [reflexivity| split; [discriminate| intros []]]]|].
      split; [discriminate|].
      intros c v E; destruct c as [|[|c]]; cbn in E; [| | destruct c; discriminate]; inversion E; subst;
        (split; [cl| split; vm_compute; reflexivity]).
  - vm_compute. reflexivity.
Qed.

(* the hypotheses of parse_print are satisfiable: "states: 2 / actions: 1 / T: 0 : * : 1 0.5 / T: 0 : 0 0.25 0.75",
   lexed from characters, renders a well-formed program whose second statement overrides the first *)
Example ex_parse_print :
  let prog := [SStates (DNum 2); SActions (DNum 1); SEntry TT (INum 0) IStar (INum 1) (VQ (1 # 2)%Q);
               SRowIn TT (INum 0) (INum 0) [VQ (1 # 4)%Q; VQ (3 # 4)%Q]] in
  let text := txt ["states: 2"; "actions: 1"; "T: 0 : * : 1 0.5"; "T: 0 : 0 0.25 0.75"]%string in
  wf false prog /\ renders prog (lex_text text) /\
  mT (denote false prog) = [[[VQ (1 # 4)%Q; VQ (3 # 4)%Q]]; [[VQ 0%Q; VQ (1 # 2)%Q]]].
Proof.
  cbv zeta. split; [| split].
  - unfold wf. change (hdr_of _) with (mkHdr 2 1 0 [] [] [] (VQ 1%Q)). cbn [hS hA hO nmS nmA nmO].
    split; [lia|]. split; [lia|]. split; [discriminate|]. split; [vm_compute; discriminate|].
    split; [discriminate|]. split; [constructor|]. split; [constructor|]. split; [constructor|].
    constructor; [exact I|]. constructor; [exact I|].
    constructor; [intros _; cbn; repeat split; lia|].
    constructor; [intros _; cbn; repeat split; lia| constructor].
  - unfold renders. change (hdr_of _) with (mkHdr 2 1 0 [] [] [] (VQ 1%Q)).
    exists (map (fun l => [l]) (lex_text (txt ["states: 2"; "actions: 1"; "T: 0 : * : 1 0.5"; "T: 0 : 0 0.25 0.75"]%string))).
    split; [| vm_compute; reflexivity].
    vm_compute map. constructor; [| constructor; [| constructor; [| constructor; [| constructor]]]].
    + eexists. split; [reflexivity|]. split; [reflexivity|]. split; [discriminate|]. eexists. split; reflexivity.
    + eexists. split; [reflexivity|]. split; [reflexivity|]. split; [discriminate|]. eexists. split; reflexivity.
    + do 7 eexists. split; [reflexivity|]. split; [reflexivity|]. split; [reflexivity|]. split; [reflexivity|].
      cbn [idx_tok val_tok nmA nmS d3n]. repeat split; try reflexivity; try discriminate; intros [].
    + do 5 eexists. split; [reflexivity|]. split; [reflexivity|]. split; [reflexivity|]. split; [reflexivity|].
      cbn [idx_tok nmA nmS]. repeat split; try reflexivity; try discriminate; try (intros []).
      constructor; [reflexivity|]. constructor; [reflexivity| constructor].
  - vm_compute. reflexivity.
Qed.

(* hypotheses of wrong_length_row_rejected on a lexed line: "T: 0 : 0 0.5 0.5 0.5" with D3 = 2 *)
Example ex_wrong_length_row :
  let l := hd (mkLine KOther 0 [] None [] []) (lex_text (txt ["T: 0 : 0 0.5 0.5 0.5"]%string)) in
  l_kind l = KT /\ l_colons l = 2 /\ length (l_toks l) <> 3 + 2 /\ length (l_toks l) <> 3.
Proof. vm_compute. repeat split; discriminate. Qed.

(* hypotheses of missing_sizes_rejected: a file without a "states" line *)
Example ex_missing_sizes :
  exists p body, parseModelInfo (lex_text (txt ["actions: 2"; "T: 0 : 0 : 0 1"]%string)) pre0 = Ok (p, body)
                 /\ pS p = 0%N /\ length body = 1.
Proof. eexists. eexists. vm_compute. repeat split. Qed.

(* The driver's boolean checkers are sound, so every generated well-formed case on which
   [wfb] and [rendersb] hold is an instance of parse_print. *)
Theorem wfb_sound : forall pomdp prog, wfb pomdp prog = true -> wf pomdp prog.
Proof. exact wfb_sound_lemma. Qed.
Print Assumptions wfb_sound.

Theorem rendersb_sound : forall prog ls, rendersb prog ls = true -> renders prog ls.
Proof. exact rendersb_sound_lemma. Qed.
Print Assumptions rendersb_sound.

Example ex_checkers :
  let prog := [SStates (DNames [["a"%char]; ["b"%char]]); SActions (DNum 1);
               SMat TT IStar [[VQ 1%Q; VQ 0%Q]; [VQ (1 # 2)%Q; VQ (1 # 2)%Q]]; SRew IStar (IName ["b"%char]) IStar (VQ 2%Q)] in
  let text := txt ["actions: 1"; "T: *"; "1 0"; "0.5 0.5"; "R: * : b : * : * 2"; "states: a b"]%string in
  wfb false prog = true /\
  rendersb [SActions (DNum 1); SMat TT IStar [[VQ 1%Q; VQ 0%Q]; [VQ (1 # 2)%Q; VQ (1 # 2)%Q]];
            SRew IStar (IName ["b"%char]) IStar (VQ 2%Q); SStates (DNames [["a"%char]; ["b"%char]])] (lex_text text) = true.
Proof. vm_compute. split; reflexivity. Qed.

(* incomplete_rejected, clause by clause *)
Theorem bad_index_rejected : forall t m max,
  str_eqb t star = false -> lookup m t = None ->
  (stoul t = Throw E_stoul \/ exists v, stoul t = Ok v /\ (N.of_nat max <= v)%N) ->
  exists e, parseIndeces t m max = Throw e.
Proof. exact bad_index_rejected_lemma. Qed.
Print Assumptions bad_index_rejected.

Example ex_bad_index :  (* "3" with 3 states declared by number; "nowhere" is no name and no number *)
  (exists v, stoul ["3"%char] = Ok v /\ (N.of_nat 3 <= v)%N) /\ stoul ["n"%char; "o"%char] = Throw E_stoul.
Proof. split; [exists 3%N; split; [reflexivity| vm_compute; discriminate]| reflexivity]. Qed.

Theorem wrong_count_vector_rejected : forall ts n, length ts <> n -> parseVector ts n = Throw E_vec_count.
Proof. exact wrong_count_vector_rejected_lemma. Qed.
Print Assumptions wrong_count_vector_rejected.

Theorem wrong_colons_rejected : forall fixed M D1 D2 D3 ma d1m d3m l rest,
  l_colons l = 0 \/ 3 < l_colons l -> processMatrix fixed M D1 D2 D3 ma d1m d3m l rest = Throw E_colons.
Proof. exact wrong_colons_rejected_lemma. Qed.
Print Assumptions wrong_colons_rejected.

Theorem reward_colons_rejected : forall R nS nA ma ms l,
  l_colons l <> 4 -> processReward R nS nA ma ms l = Throw E_colons.
Proof. exact reward_colons_rejected_lemma. Qed.
Print Assumptions reward_colons_rejected.

Theorem missing_rows_rejected : forall n d1 av D3 M, 0 < n -> read_rows n d1 av D3 M [] = Throw E_at.
Proof. exact missing_rows_rejected_lemma. Qed.
Print Assumptions missing_rows_rejected.

(* repaired parser (fixes/C18-size-overflow.patch): sizes whose tables do not fit in size_t are rejected *)
Theorem oversize_rejected : forall pomdp ls p body,
  parseModelInfo ls pre0 = Ok (p, body) -> pS p <> 0%N -> pA p <> 0%N -> (pomdp = true -> pO p <> 0%N) ->
  (max_elems < pS p * pA p * pS p)%N ->
  parse_lines true pomdp ls = Throw E_too_large.
Proof. exact oversize_rejected_lemma. Qed.
Print Assumptions oversize_rejected.

(* forms_equivalent: inside any program, a row written on the next line, on the same line, or as single
   entries, and a matrix written as a matrix or as rows, denote the same model (hence, by parse_print,
   the parser returns the same tables for their printings). *)
Theorem forms_equivalent : forall pomdp before after t a s vs rows,
  denote pomdp (before ++ [SRowNext t a s vs] ++ after) = denote pomdp (before ++ [SRowIn t a s vs] ++ after) /\
  denote pomdp (before ++ entries_of_row t a s vs ++ after) = denote pomdp (before ++ [SRowIn t a s vs] ++ after) /\
  denote pomdp (before ++ rows_of_mat t a rows ++ after) = denote pomdp (before ++ [SMat t a rows] ++ after).
Proof. exact forms_equivalent_lemma. Qed.
Print Assumptions forms_equivalent.

Theorem forms_equivalent_parser : forall pomdp p1 p2 f1 f2,
  wf pomdp p1 -> wf pomdp p2 -> fmts_ok (hdr_of p1) f1 0 p1 -> fmts_ok (hdr_of p2) f2 0 p2 ->
  denote pomdp p1 = denote pomdp p2 ->
  parse_text true pomdp (print f1 p1) = parse_text true pomdp (print f2 p2).
Proof.
  intros pomdp p1 p2 f1 f2 W1 W2 F1 F2 E.
  rewrite (parse_print_full_lemma pomdp p1 f1 W1 F1), (parse_print_full_lemma pomdp p2 f2 W2 F2), E. reflexivity.
Qed.
Print Assumptions forms_equivalent_parser.

Example ex_forms :   (* a 2x2 matrix for action 0 = two rows = four entries *)
  let m := [[VQ 1%Q; VQ 0%Q]; [VQ (1 # 2)%Q; VQ (1 # 2)%Q]] in
  rows_of_mat TT (INum 0) m = [SRowIn TT (INum 0) (INum 0) [VQ 1%Q; VQ 0%Q]; SRowIn TT (INum 0) (INum 1) [VQ (1 # 2)%Q; VQ (1 # 2)%Q]] /\
  entries_of_row TT (INum 0) (INum 1) [VQ (1 # 2)%Q; VQ (1 # 2)%Q]
    = [SEntry TT (INum 0) (INum 1) (INum 0) (VQ (1 # 2)%Q); SEntry TT (INum 0) (INum 1) (INum 1) (VQ (1 # 2)%Q)].
Proof. split; reflexivity. Qed.

(* One CassandraParser object may be used for several files: whatever id maps an earlier call left in
   the object (it returned, or was aborted by an exception anywhere), the next call answers as a
   fresh parser does. *)
Theorem reuse_independent : forall fixed pomdp st ls,
  parse_lines_st fixed pomdp st ls = parse_lines fixed pomdp ls.
Proof. exact reuse_independent_lemma. Qed.
Print Assumptions reuse_independent.

Theorem reuse_two_files : forall fixed pomdp2 st0 text1 text2,
  parse_text_st fixed pomdp2 (state_after st0 (lex_text text1)) text2 = parse_text fixed pomdp2 text2.
Proof. exact reuse_two_files_lemma. Qed.
Print Assumptions reuse_two_files.

Example ex_reuse :   (* file 1 leaves names behind; file 2 declares by number and uses the stale name "b": rejected either way *)
  let st := state_after (mkPstate [] [] []) (lex_text (txt ["states: a b"; "actions: 1"]%string)) in
  stS st <> [] /\
  parse_text_st true false st (txt ["states: 2"; "actions: 1"; "T: 0 : b : 0 1"]%string) = Throw E_stoul.
Proof. split; [vm_compute; discriminate| vm_compute; reflexivity]. Qed.

(* ---------------------------------------------------------------- the loader: parser + Model constructor
   load_model = MDP::parseCassandra / POMDP::parseCassandra: the tuples returned by the parser go through
   setDiscount and isProbability (every row of T, and of W for a POMDP). *)
Theorem isProbability_iff : forall r, isProbability1 r = true <-> row_dist r.
Proof. exact isProbability1_iff. Qed.
Print Assumptions isProbability_iff.

(* a well-formed text of a valid model is loaded as exactly that model *)
Theorem load_print : forall pomdp prog ls,
  wf pomdp prog -> renders prog ls -> model_ok pomdp (denote pomdp prog) ->
  load_lines true pomdp ls = Ok (denote pomdp prog).
Proof. exact load_print_lemma. Qed.
Print Assumptions load_print.

(* incomplete_rejected, whole file: a text that lacks a size declaration, or has - after well-formed
   statements - a statement with an unknown name, an index at or beyond the bound, a wrong element
   count or a wrong number of colons, or that is well-formed but defines tables that are not
   probability distributions (or a discount outside (0,1]), is rejected with an exception. *)
Theorem incomplete_rejected : forall pomdp ls,
  incomplete pomdp ls -> exists e, load_lines true pomdp ls = Throw e.
Proof. exact incomplete_rejected_lemma. Qed.
Print Assumptions incomplete_rejected.

Theorem incomplete_rejected_text : forall pomdp text,
  incomplete pomdp (lex_text text) -> exists e, load_model true pomdp text = Throw e.
Proof. exact incomplete_rejected_text_lemma. Qed.
Print Assumptions incomplete_rejected_text.

(* the parser alone already rejects the first two kinds *)
Theorem defect_rejected : forall pomdp pre_prog post_prog lss_pre lss_post bad,
  let H := hdr_of (pre_prog ++ post_prog) in
  wf pomdp (pre_prog ++ post_prog) ->
  Forall2 (renders_stmt H) pre_prog lss_pre -> Forall2 (renders_stmt H) post_prog lss_post ->
  defect pomdp H bad -> Forall nonpre bad ->
  exists e, parse_lines true pomdp (concat lss_pre ++ bad ++ concat lss_post) = Throw e.
Proof. exact defect_rejected_lemma. Qed.
Print Assumptions defect_rejected.

Theorem missing_declaration_rejected : forall pomdp prog lss,
  Forall2 (renders_stmt (hdr_of prog)) prog lss ->
  (hS (hdr_of prog) = 0 \/ hA (hdr_of prog) = 0 \/ (pomdp = true /\ hO (hdr_of prog) = 0)) ->
  parse_lines true pomdp (concat lss) = Throw E_incomplete.
Proof. exact missing_declaration_lemma. Qed.
Print Assumptions missing_declaration_rejected.

(* an unknown name after two declarations: "states: 2" / "actions: 1" / "T: 0 : nowhere : 0 1" *)
Example ex_incomplete_defect :
  incomplete false (lex_text (txt ["states: 2"; "actions: 1"; "T: 0 : nowhere : 0 1"]%string)).
Proof.
  set (ls := lex_text _).
  apply (Inc_defect false ls [SStates (DNum 2); SActions (DNum 1)] []
           [[nth 0 ls (mkLine KOther 0 [] None [] [])]; [nth 1 ls (mkLine KOther 0 [] None [] [])]] []
           [nth 2 ls (mkLine KOther 0 [] None [] [])]).
  - apply wfb_sound_lemma. vm_compute. reflexivity.
  - cbn [app]. change (hdr_of _) with (mkHdr 2 1 0 [] [] [] (VQ 1%Q)).
    constructor; [| constructor; [| constructor]].
    + eexists. split; [reflexivity|]. split; [reflexivity|]. split; [vm_compute; discriminate|]. eexists. split; vm_compute; reflexivity.
    + eexists. split; [reflexivity|]. split; [reflexivity|]. split; [vm_compute; discriminate|]. eexists. split; vm_compute; reflexivity.
  - constructor.
  - cbn [app]. change (hdr_of _) with (mkHdr 2 1 0 [] [] [] (VQ 1%Q)).
    apply (D_index false _ _ TT 2 (list_ascii_of_string "nowhere") []); try (vm_compute; reflexivity); try (vm_compute; lia).
    split; [vm_compute; discriminate|]. split; [intros []|]. left. vm_compute. reflexivity.
  - constructor; [vm_compute; exact I| constructor].
  - vm_compute. reflexivity.
Qed.

(* a row that is not a distribution: "T: 0 : 0 0.5 0.25" *)
Example ex_incomplete_invalid :
  incomplete false (lex_text (txt ["states: 2"; "actions: 1"; "T: 0 : 0 0.5 0.25"; "T: 0 : 1 0 1"]%string)).
Proof.
  apply (Inc_invalid false _ [SStates (DNum 2); SActions (DNum 1); SRowIn TT (INum 0) (INum 0) [VQ (1 # 2)%Q; VQ (1 # 4)%Q];
                              SRowIn TT (INum 0) (INum 1) [VQ 0%Q; VQ 1%Q]]).
  - apply wfb_sound_lemma. vm_compute. reflexivity.
  - apply rendersb_sound_lemma. vm_compute. reflexivity.
  - intros Hok. apply validate_ok in Hok. vm_compute in Hok. discriminate.
Qed.

(* ---------------------------------------------------------------- signed index tokens
   std::stoul accepts a leading '+' or '-' and negates in unsigned arithmetic.  The index-token grammar of
   the code is therefore: digits = the number; "+" digits = the number; "-" digits = 2^64 - number
   (0 for "-0"); 2^64 and above: exception. *)
Theorem stoul_signed : forall ds, digits ds ->
  stoul ds = (if (two64 <=? dec_value ds)%N then Throw E_stoul else Ok (dec_value ds)) /\
  stoul (plus :: ds) = (if (two64 <=? dec_value ds)%N then Throw E_stoul else Ok (dec_value ds)) /\
  stoul (minus :: ds) = (if (two64 <=? dec_value ds)%N then Throw E_stoul else Ok ((two64 - dec_value ds) mod two64)%N).
Proof. intros ds H. split; [apply stoul_plain; exact H| split; [apply stoul_plus; exact H| apply stoul_minus; exact H]]. Qed.
Print Assumptions stoul_signed.

(* a NEGATIVE index (any "-k" with 0 < k <= 2^64 - max) is rejected by the range check in every position *)
Theorem negative_index_rejected : forall names max ds,
  digits ds -> 0 < max -> (0 < dec_value ds)%N -> (dec_value ds + N.of_nat max <= two64)%N -> ~ In (minus :: ds) names ->
  parseIndeces (minus :: ds) (index_pairs names 0) max = Throw E_index_high.
Proof. exact negative_index_rejected_lemma. Qed.
Print Assumptions negative_index_rejected.

(* ... it is a [bad_tok], so [incomplete_rejected] (D_index, D_index_reward: every slot of T, O and R lines in
   entry, row and matrix form) covers files with negative indices *)
Theorem negative_bad_tok : forall names size ds,
  digits ds -> 0 < size -> (0 < dec_value ds)%N -> (dec_value ds + N.of_nat size <= two64)%N -> ~ In (minus :: ds) names ->
  bad_tok names size (minus :: ds).
Proof. exact negative_bad_tok_lemma. Qed.
Print Assumptions negative_bad_tok.

Theorem minus_zero_index : forall ds m max, digits ds -> dec_value ds = 0%N -> 0 < max ->
  lookup m (minus :: ds) = None -> parseIndeces (minus :: ds) m max = Ok [0].
Proof. exact minus_zero_index_lemma. Qed.
Print Assumptions minus_zero_index.

Example ex_signed_indices :   (* with 2 states: "-1" "-2" rejected; "-0" "+1" "01" accepted; "-18446744073709551615" wraps to 1 *)
  parseIndeces (ex_s "-1") [] 2 = Throw E_index_high /\ parseIndeces (ex_s "-2") [] 2 = Throw E_index_high /\
  parseIndeces (ex_s "-0") [] 2 = Ok [0] /\ parseIndeces (ex_s "+1") [] 2 = Ok [1] /\ parseIndeces (ex_s "01") [] 2 = Ok [1] /\
  parseIndeces (ex_s "-99999999999999999999") [] 2 = Throw E_stoul /\
  parseIndeces (ex_s "-18446744073709551615") [] 2 = Ok [1] /\
  digits (ex_s "1") /\ dec_value (ex_s "1") = 1%N.
Proof. repeat split; try (vm_compute; reflexivity). discriminate. Qed.

(* a whole file with a negative end-state index is [incomplete] *)
Example ex_incomplete_negative :
  incomplete false (lex_text (txt ["states: 2"; "actions: 1"; "T: 0 : 1 : -1 0.25"]%string)).
Proof.
  set (ls := lex_text _).
  apply (Inc_defect false ls [SStates (DNum 2); SActions (DNum 1)] []
           [[nth 0 ls (mkLine KOther 0 [] None [] [])]; [nth 1 ls (mkLine KOther 0 [] None [] [])]] []
           [nth 2 ls (mkLine KOther 0 [] None [] [])]).
  - apply wfb_sound_lemma. vm_compute. reflexivity.
  - cbn [app]. change (hdr_of _) with (mkHdr 2 1 0 [] [] [] (VQ 1%Q)).
    constructor; [| constructor; [| constructor]].
    + eexists. split; [reflexivity|]. split; [reflexivity|]. split; [vm_compute; discriminate|]. eexists. split; vm_compute; reflexivity.
    + eexists. split; [reflexivity|]. split; [reflexivity|]. split; [vm_compute; discriminate|]. eexists. split; vm_compute; reflexivity.
  - constructor.
  - cbn [app]. change (hdr_of _) with (mkHdr 2 1 0 [] [] [] (VQ 1%Q)).
    apply (D_index false _ _ TT 3 (ex_s "-1") []); try (vm_compute; reflexivity); try (vm_compute; lia).
    apply (negative_bad_tok_lemma [] 2 (ex_s "1")).
    + split; [discriminate| reflexivity].
    + lia.
    + vm_compute. reflexivity.
    + vm_compute. discriminate.
    + intros [].
  - constructor; [vm_compute; exact I| constructor].
  - vm_compute. reflexivity.
Qed.
