(* Properties_C18.v — property C18: Cassandra-format files parse to the model they define, or are
   rejected.  Only statements, each closed by [exact <lemma>] and followed by Print Assumptions. *)
From Coq Require Import String.
From Coq Require Import List Arith Ascii NArith ZArith QArith Bool Lia.
From AIT Require Import C18.Model C18.Spec C18.Proofs C18.ProofsSafe C18.ProofsSem C18.ProofsPrint C18.ProofsPrint2 C18.ProofsReject C18.ProofsCheck.
Import ListNotations.
Local Close Scope Q_scope.
Local Close Scope string_scope.

(* Repaired parser (fixes/C18-missing-throw.patch): a row statement "T: a : s v1 … vk" whose number
   of tokens is neither 3 (vector on the next line) nor 3 + D3 is rejected. *)
Theorem wrong_length_row_rejected : forall M D1 D2 D3 ma d1m d3m l rest,
  l_colons l = 2 -> length (l_toks l) <> 3 + D3 -> length (l_toks l) <> 3 ->
  exists e, processMatrix true M D1 D2 D3 ma d1m d3m l rest = Throw e.
Proof. exact wrong_length_row_rejected_lemma. Qed.
Print Assumptions wrong_length_row_rejected.

Theorem missing_sizes_rejected : forall fixed pomdp ls p body,
  parseModelInfo ls pre0 = Ok (p, body) ->
  (pS p = 0%N \/ pA p = 0%N \/ (pomdp = true /\ pO p = 0%N)) ->
  parse_lines fixed pomdp ls = Throw E_incomplete.
Proof. exact missing_sizes_rejected_lemma. Qed.
Print Assumptions missing_sizes_rejected.

(* No input whatsoever — no text, and not even an arbitrary list of lexed lines — makes the repaired
   parser perform an out-of-bounds access (every unchecked M[d1][a][d3] of the C++ is a checked
   access in the model), and the line loop never runs out of lines. *)
Theorem parser_total_no_UB : forall pomdp text,
  parse_text true pomdp text <> UB /\ parse_text true pomdp text <> NoFuel.
Proof. exact parser_total_no_UB_lemma. Qed.
Print Assumptions parser_total_no_UB.

Theorem parser_total_no_UB_lines : forall pomdp ls,
  parse_lines true pomdp ls <> UB /\ parse_lines true pomdp ls <> NoFuel.
Proof. exact parser_total_no_UB_lines_lemma. Qed.
Print Assumptions parser_total_no_UB_lines.

(* Today's code (fixed = false): the wrong-length row is accepted and ignored ... *)
Theorem wrong_length_row_refuted :
  exists text m, parse_text false false text = Ok m /\ mT m = new_tab 2 1 2 /\
                 parse_text true false text = Throw E_row_args.
Proof. exact wrong_length_row_refuted_lemma. Qed.
Print Assumptions wrong_length_row_refuted.

(* ... and sizes whose table size wraps around lead to out-of-bounds writes. *)
Theorem size_overflow_refuted :
  exists text, parse_text false false text = UB /\ parse_text true false text = Throw E_too_large.
Proof. exact size_overflow_refuted_lemma. Qed.
Print Assumptions size_overflow_refuted.

(* parse_print at the token/line level.  Full statement (character level, DESIGN.md 4 C18):
     forall prog fmt, wf prog -> parse (print fmt prog) = Ok (denote prog)
   with [print fmt prog : text].  Proved here: for EVERY list of lexed lines that renders the program
   (any spacing, any name-vs-number choice, any spelling of the numbers, extra ignored tokens, ignored
   lines, declarations anywhere in the file) the repaired parser returns exactly the denotation:
   line dispatch, `*` / name / number index expansion, later-overrides-earlier, matrix = rows =
   entries.  Missing for the full statement: the proof that the character-level lexer [lex_text]
   maps a printed text to such lines (the driver checks [rendersb prog (lex_text text)] on every
   generated well-formed case instead). *)
Theorem parse_print_tokens_partial : forall pomdp prog ls,
  wf pomdp prog -> renders prog ls -> parse_lines true pomdp ls = Ok (denote pomdp prog).
Proof. exact parse_print_lemma. Qed.
Print Assumptions parse_print_tokens_partial.

Theorem parse_print_text_tokens_partial : forall pomdp prog text,
  wf pomdp prog -> renders prog (lex_text text) -> parse_text true pomdp text = Ok (denote pomdp prog).
Proof. exact parse_print_text_lemma. Qed.
Print Assumptions parse_print_text_tokens_partial.

(* the hypotheses of parse_print are satisfiable: "states: 2 / actions: 1 / T: 0 : * : 1 0.5 / T: 0 : 0 0.25 0.75",
   lexed from characters, renders a well-formed program whose second statement overrides the first *)
Example ex_parse_print :
  let prog := [SStates (DNum 2); SActions (DNum 1); SEntry TT (INum 0) IStar (INum 1) (VQ (1 # 2)%Q);
               SRowIn TT (INum 0) (INum 0) [VQ (1 # 4)%Q; VQ (3 # 4)%Q]] in
  let text := txt ["states: 2"; "actions: 1"; "T: 0 : * : 1 0.5"; "T: 0 : 0 0.25 0.75"]%string in
  wf false prog /\ renders prog (lex_text text) /\
  mT (denote false prog) = [[[VQ (1 # 4)%Q; VQ (3 # 4)%Q]]; [[VQ 0%Q; VQ (1 # 2)%Q]]].
Proof.
  cbv zeta. split; [| split].
  - unfold wf. change (hdr_of _) with (mkHdr 2 1 0 [] [] [] (VQ 1%Q)). cbn [hS hA hO nmS nmA nmO].
    split; [lia|]. split; [lia|]. split; [discriminate|]. split; [vm_compute; discriminate|].
    split; [discriminate|]. split; [constructor|]. split; [constructor|]. split; [constructor|].
    constructor; [exact I|]. constructor; [exact I|].
    constructor; [intros _; cbn; repeat split; lia|].
    constructor; [intros _; cbn; repeat split; lia| constructor].
  - unfold renders. change (hdr_of _) with (mkHdr 2 1 0 [] [] [] (VQ 1%Q)).
    exists (map (fun l => [l]) (lex_text (txt ["states: 2"; "actions: 1"; "T: 0 : * : 1 0.5"; "T: 0 : 0 0.25 0.75"]%string))).
    split; [| vm_compute; reflexivity].
    vm_compute map. constructor; [| constructor; [| constructor; [| constructor; [| constructor]]]].
    + eexists. split; [reflexivity|]. split; [reflexivity|]. split; [discriminate|]. eexists. split; reflexivity.
    + eexists. split; [reflexivity|]. split; [reflexivity|]. split; [discriminate|]. eexists. split; reflexivity.
    + do 7 eexists. split; [reflexivity|]. split; [reflexivity|]. split; [reflexivity|]. split; [reflexivity|].
      cbn [idx_tok val_tok nmA nmS d3n]. repeat split; try reflexivity; try discriminate; intros [].
    + do 5 eexists. split; [reflexivity|]. split; [reflexivity|]. split; [reflexivity|]. split; [reflexivity|].
      cbn [idx_tok nmA nmS]. repeat split; try reflexivity; try discriminate; try (intros []).
      constructor; [reflexivity|]. constructor; [reflexivity| constructor].
  - vm_compute. reflexivity.
Qed.

(* hypotheses of wrong_length_row_rejected on a lexed line: "T: 0 : 0 0.5 0.5 0.5" with D3 = 2 *)
Example ex_wrong_length_row :
  let l := hd (mkLine KOther 0 [] None [] []) (lex_text (txt ["T: 0 : 0 0.5 0.5 0.5"]%string)) in
  l_kind l = KT /\ l_colons l = 2 /\ length (l_toks l) <> 3 + 2 /\ length (l_toks l) <> 3.
Proof. vm_compute. repeat split; discriminate. Qed.

(* hypotheses of missing_sizes_rejected: a file without a "states" line *)
Example ex_missing_sizes :
  exists p body, parseModelInfo (lex_text (txt ["actions: 2"; "T: 0 : 0 : 0 1"]%string)) pre0 = Ok (p, body)
                 /\ pS p = 0%N /\ length body = 1.
Proof. eexists. eexists. vm_compute. repeat split. Qed.

(* The driver's boolean checkers are sound, so every generated well-formed case on which
   [wfb] and [rendersb] hold is an instance of parse_print. *)
Theorem wfb_sound : forall pomdp prog, wfb pomdp prog = true -> wf pomdp prog.
Proof. exact wfb_sound_lemma. Qed.
Print Assumptions wfb_sound.

Theorem rendersb_sound : forall prog ls, rendersb prog ls = true -> renders prog ls.
Proof. exact rendersb_sound_lemma. Qed.
Print Assumptions rendersb_sound.

Example ex_checkers :
  let prog := [SStates (DNames [["a"%char]; ["b"%char]]); SActions (DNum 1);
               SMat TT IStar [[VQ 1%Q; VQ 0%Q]; [VQ (1 # 2)%Q; VQ (1 # 2)%Q]]; SRew IStar (IName ["b"%char]) IStar (VQ 2%Q)] in
  let text := txt ["actions: 1"; "T: *"; "1 0"; "0.5 0.5"; "R: * : b : * : * 2"; "states: a b"]%string in
  wfb false prog = true /\
  rendersb [SActions (DNum 1); SMat TT IStar [[VQ 1%Q; VQ 0%Q]; [VQ (1 # 2)%Q; VQ (1 # 2)%Q]];
            SRew IStar (IName ["b"%char]) IStar (VQ 2%Q); SStates (DNames [["a"%char]; ["b"%char]])] (lex_text text) = true.
Proof. vm_compute. split; reflexivity. Qed.

(* incomplete_rejected, clause by clause *)
Theorem bad_index_rejected : forall t m max,
  str_eqb t star = false -> lookup m t = None ->
  (stoul t = Throw E_stoul \/ exists v, stoul t = Ok v /\ (N.of_nat max <= v)%N) ->
  exists e, parseIndeces t m max = Throw e.
Proof. exact bad_index_rejected_lemma. Qed.
Print Assumptions bad_index_rejected.

Example ex_bad_index :  (* "3" with 3 states declared by number; "nowhere" is no name and no number *)
  (exists v, stoul ["3"%char] = Ok v /\ (N.of_nat 3 <= v)%N) /\ stoul ["n"%char; "o"%char] = Throw E_stoul.
Proof. split; [exists 3%N; split; [reflexivity| vm_compute; discriminate]| reflexivity]. Qed.

Theorem wrong_count_vector_rejected : forall ts n, length ts <> n -> parseVector ts n = Throw E_vec_count.
Proof. exact wrong_count_vector_rejected_lemma. Qed.
Print Assumptions wrong_count_vector_rejected.

Theorem wrong_colons_rejected : forall fixed M D1 D2 D3 ma d1m d3m l rest,
  l_colons l = 0 \/ 3 < l_colons l -> processMatrix fixed M D1 D2 D3 ma d1m d3m l rest = Throw E_colons.
Proof. exact wrong_colons_rejected_lemma. Qed.
Print Assumptions wrong_colons_rejected.

Theorem reward_colons_rejected : forall R nS nA ma ms l,
  l_colons l <> 4 -> processReward R nS nA ma ms l = Throw E_colons.
Proof. exact reward_colons_rejected_lemma. Qed.
Print Assumptions reward_colons_rejected.

Theorem missing_rows_rejected : forall n d1 av D3 M, 0 < n -> read_rows n d1 av D3 M [] = Throw E_at.
Proof. exact missing_rows_rejected_lemma. Qed.
Print Assumptions missing_rows_rejected.

(* repaired parser (fixes/C18-size-overflow.patch): sizes whose tables do not fit in size_t are rejected *)
Theorem oversize_rejected : forall pomdp ls p body,
  parseModelInfo ls pre0 = Ok (p, body) -> pS p <> 0%N -> pA p <> 0%N -> (pomdp = true -> pO p <> 0%N) ->
  (max_elems < pS p * pA p * pS p)%N ->
  parse_lines true pomdp ls = Throw E_too_large.
Proof. exact oversize_rejected_lemma. Qed.
Print Assumptions oversize_rejected.
