(* C19/SpecR.v — what "a consistent tree" means for rPOMCP (independent of the simulate recursion). *)
From Coq Require Import QArith List Arith Bool.
From AIT Require Import C19.Model C19.Spec C19.ModelR.
Import ListNotations.
Local Open Scope nat_scope.

Inductive rtree_all (P : rnode -> Prop) : rnode -> Prop :=
| RTreeAll : forall n, P n ->
    (forall a k c, In a (racts n) -> In (k, c) (rkids a) -> rtree_all P c) -> rtree_all P n.

(* visits of the observation children of an action / particles held by a tracking belief *)
Definition sumk (l : list (nat * rnode)) : nat := sumn (map (fun p => rN (snd p)) l).
Definition tcount (t : track) : nat := sumn (map (fun p => fst (snd p)) t).

(* rPOMCP's counting rule, exactly as the code has it:
   - a belief node is visited either by simulate (b.N++ and exactly one aNode.N += 1) or as a leaf
     (ot->second.N += 1, no action involved):      N = sum of the actions' N + (visits as a leaf);
   - every aNode.N += 1 goes with exactly one visit of one observation child:
                                                    action N = sum of its children's N. *)
Definition rcounts_local (n : rnode) : Prop :=
  rN n = sumn (map raN (racts n)) + rleaf n /\
  Forall (fun a => raN a = sumk (rkids a)) (racts n).
Definition rcounts_ok : rnode -> Prop := rtree_all rcounts_local.

(* every action estimate is the mean of the data points averaged into it *)
Definition rmean_act (a : ract) : Prop :=
  raN a = length (rrets a) /\ (raV a * qnat (raN a) == sumq (rrets a))%Q.
Definition rmean_local (n : rnode) : Prop := Forall rmean_act (racts n).
Definition rmean_ok : rnode -> Prop := rtree_all rmean_local.

Definition rshape_local (A : nat) (n : rnode) : Prop := racts n = [] \/ length (racts n) = A.
Definition rshape_ok (A : nat) : rnode -> Prop := rtree_all (rshape_local A).

(* every non-root node holds exactly one particle per visit *)
Definition rpart_local (n : rnode) : Prop :=
  forall a k c, In a (racts n) -> In (k, c) (rkids a) -> tcount (rtrack c) = rN c.
Definition rpart_ok : rnode -> Prop := rtree_all rpart_local.

(* particles: every state with a positive count in the tracking belief of the node reached by
   (action i, observation o) was the next state of a logged call with that action and observation *)
Definition rsampled_local (pool : trace) (n : rnode) : Prop :=
  forall i o c s cnt e, In (o, c) (rkids (nth i (racts n) ract0)) -> In (s, (cnt, e)) (rtrack c) -> 0 < cnt ->
                        sampled_by pool i o s.
Definition rsampled_ok (pool : trace) : rnode -> Prop := rtree_all (rsampled_local pool).

(* ---------------- particles, full statement for rPOMCP (same shape as Spec.particles_full).
   [B] is the belief the node's simulations start from: the positive part of the sampling belief for
   the root, of the tracking belief for every other node. ------------------------------------- *)
Definition tpos (t : track) (s : nat) : Prop := exists cnt e, In (s, (cnt, e)) t /\ 0 < cnt.
Definition sbpos (sb : sbelief) (s : nat) : Prop := exists cnt, In (s, cnt) sb /\ 0 < cnt.
Definition rpred_by (pool : trace) (B : nat -> Prop) (i o p : nat) : Prop :=
  exists e, In e (ev0 :: pool) /\ B (es e) /\ ea e = i /\ eo e = o /\ es1 e = p.

Inductive rfull (pool : trace) : (nat -> Prop) -> rnode -> Prop :=
| RFull : forall (B : nat -> Prop) n,
    (forall i o c p, In (o, c) (rkids (nth i (racts n) ract0)) -> tpos (rtrack c) p -> rpred_by pool B i o p) ->
    (forall a k c, In a (racts n) -> In (k, c) (rkids a) -> rfull pool (tpos (rtrack c)) c) ->
    rfull pool B n.

(* coherent log: every in-tree call was logged with the state the planner was carrying, and every
   simulation starts from a state with a positive count in the root's sampling belief *)
Definition sbmem (x : nat) (sb : sbelief) : bool := existsb (fun p => Nat.eqb (fst p) x && (0 <? snd p)) sb.

Fixpoint r_coh A (term : nat -> bool) entropy plogp (fuel h d : nat) (b : rnode) (s : nat) (tr : trace) : bool :=
  match fuel with
  | 0 => true
  | S fuel' =>
    let (e, tr1) := next tr in
    Nat.eqb (es e) s &&
    match rfind_kid (eo e) (rkids (nth (ea e) (racts b) ract0)) with
    | None => true
    | Some c =>
      if (d + 1 <? h) && negb (term (es1 e))
      then r_coh A term entropy plogp fuel' h (d + 1) (r_allocate A (r_update entropy plogp c (es1 e))) (es1 e) tr1
      else true
    end
  end.

Fixpoint r_coh_loop A term disc k entropy plogp (iters h : nat) (sb : sbelief) (g : rnode) (tr : trace) : bool :=
  match iters with
  | 0 => true
  | S i' =>
    sbmem (root_particle tr) sb && r_coh A term entropy plogp h h 0 g (root_particle tr) tr &&
    let '(g1, _, tr1, _) := r_simulate A term disc k entropy plogp h h 0 g (root_particle tr) tr in
    r_coh_loop A term disc k entropy plogp i' h sb g1 tr1
  end.

Definition r_coh_run A term disc k entropy plogp (iters h : nat) (sb : sbelief) (g : rnode) (tr : trace) : bool :=
  if Nat.eqb h 0 then true else r_coh_loop A term disc k entropy plogp iters h sb g tr.

Definition r_coh_op A term disc k entropy plogp iters (g : rnode) (op : rop) (tr : trace) : bool :=
  match op with
  | RFresh sb h => r_coh_run A term disc k entropy plogp iters h sb (r_allocate A rnode0) tr
  | RAdvance a o h sb =>
    match rfind_kid o (rkids (nth a (racts g) ract0)) with
    | None => r_coh_run A term disc k entropy plogp iters h sb (r_allocate A rnode0) tr
    | Some c =>
      match fst (r_promote A c) with
      | [] => r_coh_run A term disc k entropy plogp iters h sb (r_allocate A rnode0) tr
      | _ :: _ => r_coh_run A term disc k entropy plogp iters h (fst (r_promote A c)) (snd (r_promote A c)) tr
      end
    end
  end.

(* ---------------- bestAction / actionsV consistency (what maxBeliefNodeUpdate maintains) ---------- *)
Definition maxcons (n : rnode) : Prop :=
  rbest n < length (racts n) /\
  rAV n = raV (nth (rbest n) (racts n) ract0) /\
  Forall (fun a => (raV a <= rAV n)%Q) (racts n).
