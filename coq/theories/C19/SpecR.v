(* C19/SpecR.v — what "a consistent tree" means for rPOMCP (independent of the simulate recursion). *)
From Coq Require Import QArith List Arith Bool.
From AIT Require Import C19.Model C19.Spec C19.ModelR.
Import ListNotations.
Local Open Scope nat_scope.

Inductive rtree_all (P : rnode -> Prop) : rnode -> Prop :=
| RTreeAll : forall n, P n ->
    (forall a k c, In a (racts n) -> In (k, c) (rkids a) -> rtree_all P c) -> rtree_all P n.

(* visits of the observation children of an action / particles held by a tracking belief *)
Definition sumk (l : list (nat * rnode)) : nat := sumn (map (fun p => rN (snd p)) l).
Definition tcount (t : track) : nat := sumn (map (fun p => fst (snd p)) t).

(* rPOMCP's counting rule, exactly as the code has it:
   - a belief node is visited either by simulate (b.N++ and exactly one aNode.N += 1) or as a leaf
     (ot->second.N += 1, no action involved):      N = sum of the actions' N + (visits as a leaf);
   - every aNode.N += 1 goes with exactly one visit of one observation child:
                                                    action N = sum of its children's N. *)
Definition rcounts_local (n : rnode) : Prop :=
  rN n = sumn (map raN (racts n)) + rleaf n /\
  Forall (fun a => raN a = sumk (rkids a)) (racts n).
Definition rcounts_ok : rnode -> Prop := rtree_all rcounts_local.

(* every action estimate is the mean of the data points averaged into it *)
Definition rmean_act (a : ract) : Prop :=
  raN a = length (rrets a) /\ (raV a * qnat (raN a) == sumq (rrets a))%Q.
Definition rmean_local (n : rnode) : Prop := Forall rmean_act (racts n).
Definition rmean_ok : rnode -> Prop := rtree_all rmean_local.

Definition rshape_local (A : nat) (n : rnode) : Prop := racts n = [] \/ length (racts n) = A.
Definition rshape_ok (A : nat) : rnode -> Prop := rtree_all (rshape_local A).

(* every non-root node holds exactly one particle per visit *)
Definition rpart_local (n : rnode) : Prop :=
  forall a k c, In a (racts n) -> In (k, c) (rkids a) -> tcount (rtrack c) = rN c.
Definition rpart_ok : rnode -> Prop := rtree_all rpart_local.

(* particles: every state with a positive count in the tracking belief of the node reached by
   (action i, observation o) was the next state of a logged call with that action and observation *)
Definition rsampled_local (pool : trace) (n : rnode) : Prop :=
  forall i o c s cnt e, In (o, c) (rkids (nth i (racts n) ract0)) -> In (s, (cnt, e)) (rtrack c) -> 0 < cnt ->
                        sampled_by pool i o s.
Definition rsampled_ok (pool : trace) : rnode -> Prop := rtree_all (rsampled_local pool).
