From Coq Require Extraction.
From Coq Require Import ExtrOcamlBasic.
From AIT Require Import Base.Vio C19.Model C19.Spec.
Extraction "model.ml" vio_kit mcts_op pomcp_op rl_orig rl_fixed node0 counts_okb steps_okb geom disc_sum
  nN bel acts aN aV kids.
