From Coq Require Extraction.
From Coq Require Import ExtrOcamlBasic.
From AIT Require Import Base.Vio C19.Model C19.Spec C19.ModelR C19.SpecR.
Extraction "model.ml" vio_kit mcts_op pomcp_op rl_orig rl_fixed node0 counts_okb steps_okb geom disc_sum
  nN bel acts aN aV kids
  pomcp_coh_op r_coh_op r_op rnode0 rN rV rAV rbest rtrack rmaxS rkm racts raN raV rkids.
