(* C19/Proofs.v — list/tree helpers and the invariant-preservation lemma shared by MCTS and POMCP. *)
From Coq Require Import QArith List Arith Bool Lia Lqa.
From AIT Require Import C19.Model C19.Spec.
Import ListNotations.
Local Open Scope nat_scope.

(* ------------------------------------------------------------------ lists ---------------- *)

Lemma length_upd : forall X (f : X -> X) l i, length (upd i f l) = length l.
Proof. induction l as [|x t IH]; intros [|i]; cbn [upd length]; auto. Qed.

Lemma In_upd : forall X (f : X -> X) (d : X) l i x,
  In x (upd i f l) -> In x l \/ (i < length l /\ x = f (nth i l d)).
Proof.
  induction l as [|y t IH]; intros [|i] x H; cbn [upd] in H; cbn [length nth In].
  - destruct H.
  - destruct H.
  - destruct H as [H|H]; [right; split; [lia|auto] | left; right; exact H].
  - destruct H as [H|H]; [left; left; exact H|].
    apply IH in H. destruct H as [H|[H1 H2]]; [left; right; exact H | right; split; [lia|exact H2]].
Qed.

Lemma nth_upd_same : forall X (f : X -> X) (d : X) l i, i < length l -> nth i (upd i f l) d = f (nth i l d).
Proof.
  induction l as [|y t IH]; intros [|i] H; cbn [length] in H; cbn [upd nth]; try lia; auto.
  apply IH; lia.
Qed.

Lemma sumn_upd : forall l i (a' : act), i < length l ->
  sumn (map aN (upd i (fun _ => a') l)) + aN (nth i l act0) = sumn (map aN l) + aN a'.
Proof.
  induction l as [|y t IH]; intros [|i] a' H; cbn [length] in H; try lia.
  - cbn [upd map sumn fold_right nth]. lia.
  - cbn [upd map nth]. change (sumn (?x :: ?r)) with (x + sumn r).
    specialize (IH i a' ltac:(lia)). lia.
Qed.

Lemma length_resize : forall n l, length (resize n l) = n.
Proof. induction n as [|n IH]; intros [|x t]; cbn [resize length]; auto. Qed.

Lemma resize_id : forall l, resize (length l) l = l.
Proof. induction l as [|x t IH]; cbn [length resize]; congruence. Qed.

Lemma resize_nil_all0 : forall n a, In a (resize n []) -> a = act0.
Proof. induction n as [|n IH]; intros a H; cbn [resize In] in H; [destruct H|]. destruct H; auto. Qed.

Lemma resize_nil_sum : forall n, sumn (map aN (resize n [])) = 0.
Proof. induction n as [|n IH]; cbn [resize map sumn fold_right]; auto. Qed.

Lemma find_kid_In : forall k l c, find_kid k l = Some c -> In (k, c) l.
Proof.
  induction l as [|[k' c'] t IH]; intros c H; cbn [find_kid] in H; [discriminate|].
  destruct (Nat.eqb k k') eqn:E.
  - apply Nat.eqb_eq in E. inversion H; subst. left; reflexivity.
  - right; auto.
Qed.

Lemma In_set_kid : forall k0 c0 l k c,
  In (k, c) (set_kid k0 c0 l) -> (k = k0 /\ c = c0) \/ In (k, c) l.
Proof.
  induction l as [|[k' c'] t IH]; intros k c H; cbn [set_kid] in H.
  - destruct H as [H|[]]. inversion H; auto.
  - destruct (Nat.eqb k0 k').
    + destruct H as [H|H]; [inversion H; auto | right; right; exact H].
    + destruct H as [H|H]; [right; left; exact H|].
      apply IH in H. destruct H; [left|right; right]; auto.
Qed.

Lemma next_trace_ok : forall A tr e tr', 0 < A -> trace_ok A tr -> next tr = (e, tr') ->
  ea e < A /\ trace_ok A tr'.
Proof.
  intros A [|x t] e tr' HA H E; cbn [next] in E; inversion E; subst.
  - split; [exact HA | constructor].
  - inversion H; subst; auto.
Qed.

(* ------------------------------------------------------------------ rollout -------------- *)

Lemma rollout_steps_le : forall term disc L s g t tr r tr' n,
  rollout term disc L s g t tr = (r, tr', n) -> n <= L.
Proof.
  induction L as [|L IH]; intros s g t tr r tr' n H; cbn [rollout] in H.
  - inversion H; lia.
  - destruct (next tr) as [e tr1]. destruct (term (es1 e)).
    + inversion H; lia.
    + destruct (rollout term disc L (es1 e) (g * disc)%Q (t + g * er e)%Q tr1) as [[r2 tr2] n2] eqn:E.
      inversion H; subst. apply IH in E. lia.
Qed.

Lemma rollout_trace_ok : forall A term disc L s g t tr r tr' n, 0 < A -> trace_ok A tr ->
  rollout term disc L s g t tr = (r, tr', n) -> trace_ok A tr'.
Proof.
  induction L as [|L IH]; intros s g t tr r tr' n HA Htr H; cbn [rollout] in H.
  - inversion H; subst; auto.
  - destruct (next tr) as [e tr1] eqn:En. destruct (next_trace_ok _ _ _ _ HA Htr En) as [_ Htr1].
    destruct (term (es1 e)).
    + inversion H; subst; auto.
    + destruct (rollout term disc L (es1 e) (g * disc)%Q (t + g * er e)%Q tr1) as [[r2 tr2] n2] eqn:E.
      inversion H; subst. eapply IH; eauto.
Qed.

(* the rollout returns  totalRew + gamma * (discounted sum of the rewards it sampled) *)
Lemma rollout_spec : forall term disc L s g t tr r tr' n,
  rollout term disc L s g t tr = (r, tr', n) -> n <= length tr ->
  (r == t + g * disc_sum disc (map er (firstn n tr)))%Q /\ tr' = skipn n tr.
Proof.
  induction L as [|L IH]; intros s g t tr r tr' n H Hn; cbn [rollout] in H.
  - inversion H; subst. cbn [firstn map disc_sum skipn]. split; [lra|reflexivity].
  - destruct tr as [|e tr1]; cbn [next] in H.
    + (* exhausted trace: at least one step is counted, contradiction *)
      destruct (term (es1 ev0)).
      * inversion H; subst. cbn [length] in Hn. lia.
      * destruct (rollout term disc L (es1 ev0) (g * disc)%Q (t + g * er ev0)%Q []) as [[r2 tr2] n2].
        inversion H; subst. cbn [length] in Hn. lia.
    + destruct (term (es1 e)).
      * inversion H; subst. cbn [firstn map disc_sum skipn]. split; [lra|reflexivity].
      * destruct (rollout term disc L (es1 e) (g * disc)%Q (t + g * er e)%Q tr1) as [[r2 tr2] n2] eqn:E.
        inversion H; subst. cbn [length] in Hn.
        destruct (IH _ _ _ _ _ _ _ E ltac:(lia)) as [Hr Ht].
        cbn [firstn map disc_sum skipn]. split; [|exact Ht].
        rewrite Hr. ring.
Qed.

(* ------------------------------------------------------------------ the invariant -------- *)

Definition good (A : nat) (n : node) : Prop := counts_local n /\ mean_local n /\ shape_local A n.

Lemma tree_all_inv : forall P n, tree_all P n ->
  P n /\ (forall a k c, In a (acts n) -> In (k, c) (kids a) -> tree_all P c).
Proof. intros P n H; inversion H; subst; auto. Qed.

Lemma tree_all_and : forall P Q n, tree_all P n -> tree_all Q n -> tree_all (fun x => P x /\ Q x) n.
Proof.
  intros P Q n H; induction H as [n Hp Hk IH]; intros HQ.
  apply tree_all_inv in HQ. destruct HQ as [Hq Hqk].
  constructor; [auto|]. intros a k c Ha Hc. eapply IH; eauto.
Qed.

Lemma tree_all_impl : forall (P Q : node -> Prop) n, (forall x, P x -> Q x) -> tree_all P n -> tree_all Q n.
Proof.
  intros P Q n HPQ H; induction H as [n Hp Hk IH]. constructor; [auto|]. intros; eapply IH; eauto.
Qed.

Lemma good_node0 : forall A, tree_all (good A) node0.
Proof.
  intros A. constructor.
  - repeat split; [constructor | left; reflexivity].
  - intros a k c [].
Qed.

(* changing the particle list does not affect the invariant *)
Lemma good_set_bel : forall A c b, tree_all (good A) c -> tree_all (good A) (Node (nN c) b (acts c)).
Proof.
  intros A c b H. apply tree_all_inv in H. destruct H as [[Hc [Hm Hs]] Hk].
  constructor; [repeat split; auto | exact Hk].
Qed.

Lemma good_leaf : forall A b, tree_all (good A) (Node 0 b []).
Proof.
  intros. constructor; [repeat split; [constructor | left; reflexivity] | intros a k c []].
Qed.

Lemma allocate_good : forall A n, tree_all (good A) n ->
  tree_all (good A) (allocate A n) /\ length (acts (allocate A n)) = A.
Proof.
  intros A n H. apply tree_all_inv in H. destruct H as [[Hc [Hm Hs]] Hk].
  unfold allocate. cbn [acts]. split; [|apply length_resize].
  destruct Hs as [Hnil|Hlen].
  - rewrite Hnil in *. constructor.
    + repeat split.
      * unfold counts_local in *. rewrite Hnil in Hc. cbn [nN acts map sumn fold_right] in *. rewrite resize_nil_sum. exact Hc.
      * unfold mean_local. cbn [acts]. apply Forall_forall. intros a Ha.
        apply resize_nil_all0 in Ha. subst. split; [reflexivity|]. cbn. reflexivity.
      * right. cbn [acts]. apply length_resize.
    + cbn [acts]. intros a k c Ha Hc'. apply resize_nil_all0 in Ha. subst. destruct Hc'.
  - assert (E : resize A (acts n) = acts n) by (rewrite <- Hlen; apply resize_id).
    rewrite E. constructor.
    + repeat split; auto. right; exact Hlen.
    + exact Hk.
Qed.

(* V += (rew - V)/N keeps "V * N == sum of the returns" *)
Lemma mean_update : forall a rew ks, mean_act a -> mean_act (act_update a rew ks).
Proof.
  intros [n v rs ks0] rew ks [Hn Hv]. unfold act_update, mean_act in *. cbn [aN aV rets] in *.
  split.
  - rewrite app_length. cbn [length]. lia.
  - rewrite Qred_correct.
    assert (Hs : (sumq (rs ++ [rew]) == sumq rs + rew)%Q).
    { clear. induction rs as [|x t IH]; cbn [app sumq fold_right]; [ring|].
      change (fold_right Qplus 0%Q (t ++ [rew])) with (sumq (t ++ [rew])). rewrite IH.
      change (fold_right Qplus 0%Q t) with (sumq t). ring. }
    rewrite Hs, <- Hv.
    unfold qn. rewrite Nat2Z.inj_succ. unfold Z.succ. rewrite inject_Z_plus.
    assert (Hpos : ~ (inject_Z (Z.of_nat n) + inject_Z 1 == 0)%Q).
    { assert (0 <= inject_Z (Z.of_nat n))%Q by (change 0%Q with (inject_Z 0); rewrite <- Zle_Qle; lia).
      change (inject_Z 1) with 1%Q. lra. }
    field. exact Hpos.
Qed.

(* the node rebuilt at the end of simulate is good when the written-back children are *)
Lemma rebuild_good : forall A sn a rew ks',
  tree_all (good A) sn -> length (acts sn) = A -> a < A ->
  (forall k c, In (k, c) ks' -> tree_all (good A) c) ->
  tree_all (good A)
    (Node (S (nN sn)) (bel sn) (upd a (fun _ => act_update (nth a (acts sn) act0) rew ks') (acts sn))).
Proof.
  intros A sn a rew ks' H Hlen Ha Hks.
  apply tree_all_inv in H. destruct H as [[Hc [Hm Hs]] Hk].
  constructor.
  - repeat split.
    + unfold counts_local in *. cbn [nN acts].
      pose proof (sumn_upd (acts sn) a (act_update (nth a (acts sn) act0) rew ks') ltac:(lia)) as E.
      unfold act_update in E at 2. cbn [aN] in E. lia.
    + unfold mean_local in *. cbn [acts]. apply Forall_forall. intros x Hx.
      apply (In_upd _ _ act0) in Hx. destruct Hx as [Hx|[_ Hx]].
      * rewrite Forall_forall in Hm. auto.
      * subst x. apply mean_update. rewrite Forall_forall in Hm. apply Hm. apply nth_In. lia.
    + right. cbn [acts]. rewrite length_upd. exact Hlen.
  - cbn [acts]. intros x k c Hx Hc'.
    apply (In_upd _ _ act0) in Hx. destruct Hx as [Hx|[_ Hx]].
    + eapply Hk; eauto.
    + subst x. unfold act_update in Hc'. cbn [kids] in Hc'. eauto.
Qed.

Lemma rebuild_length : forall sn a f, length (upd a f (acts sn)) = length (acts sn).
Proof. intros. apply length_upd. Qed.

(* children written back with set_kid *)
Lemma set_kid_good : forall A sn a k0 c0,
  tree_all (good A) sn -> a < length (acts sn) -> tree_all (good A) c0 ->
  forall k c, In (k, c) (set_kid k0 c0 (kids (nth a (acts sn) act0))) -> tree_all (good A) c.
Proof.
  intros A sn a k0 c0 H Ha Hc0 k c Hin.
  apply In_set_kid in Hin. destruct Hin as [[_ ->]|Hin]; [exact Hc0|].
  apply tree_all_inv in H. destruct H as [_ Hk]. eapply Hk; [apply nth_In; exact Ha | exact Hin].
Qed.

Lemma old_kid_good : forall A sn a,
  tree_all (good A) sn -> a < length (acts sn) ->
  forall k c, In (k, c) (kids (nth a (acts sn) act0)) -> tree_all (good A) c.
Proof.
  intros A sn a H Ha k c Hin.
  apply tree_all_inv in H. destruct H as [_ Hk]. eapply Hk; [apply nth_In; exact Ha | exact Hin].
Qed.

(* ------------------------------------------------------------------ findBestA ------------ *)

Lemma findBestA_from_lt : forall l best v i, best < i -> findBestA_from best v i l < i + length l.
Proof.
  induction l as [|x t IH]; intros best v i H; cbn [findBestA_from length].
  - lia.
  - destruct (Qlt_le_dec v (aV x)).
    + specialize (IH i (aV x) (S i) ltac:(lia)). lia.
    + specialize (IH best v (S i) ltac:(lia)). lia.
Qed.

Lemma findBestA_lt : forall l, l <> [] -> findBestA l < length l.
Proof.
  intros [|x t] H; [congruence|]. cbn [findBestA length].
  pose proof (findBestA_from_lt t 0 (aV x) 1 ltac:(lia)). lia.
Qed.

(* ------------------------------------------------------------------ checkers are sound ---- *)

(* induction over the nested tree type *)
Lemma node_ind2 : forall (P : node -> Prop),
  (forall N b l, (forall a k c, In a l -> In (k, c) (kids a) -> P c) -> P (Node N b l)) ->
  forall n, P n.
Proof.
  intros P H. fix IH 1. intros [N b l]. apply H.
  induction l as [|x t IHl]; intros a k c Ha Hk.
  - destruct Ha.
  - destruct Ha as [E|Ha].
    + rewrite <- E in Hk. clear E a. destruct x as [n v r ks]. cbn [kids] in Hk.
      induction ks as [|[k' c'] ks IHk].
      * destruct Hk.
      * destruct Hk as [E|Hk].
        -- injection E as _ Ec. rewrite <- Ec. apply IH.
        -- apply IHk; exact Hk.
    + eapply IHl; eauto.
Qed.

Lemma counts_okb_sound : forall n, counts_okb n = true -> counts_ok n.
Proof.
  apply (node_ind2 (fun n => counts_okb n = true -> counts_ok n)).
  intros N b l IH H. cbn [counts_okb] in H. apply andb_prop in H. destruct H as [H1 H2].
  constructor.
  - unfold counts_local. cbn [nN acts]. apply Nat.eqb_eq. exact H1.
  - cbn [acts]. intros a k c Ha Hk. eapply IH; eauto.
    rewrite forallb_forall in H2. specialize (H2 a Ha). destruct a as [n v r ks]. cbn [kids] in Hk.
    rewrite forallb_forall in H2. specialize (H2 (k, c) Hk). exact H2.
Qed.

Lemma steps_okb_sound : forall h sts, steps_okb h sts = true -> Forall (fun st => st <= h) sts.
Proof.
  intros h sts H. unfold steps_okb in H. rewrite forallb_forall in H.
  apply Forall_forall. intros x Hx. apply Nat.leb_le. auto.
Qed.
