(* C19/ProofsR4.v — rPOMCP: particles of every non-root node (and hence of a promoted root's
   sampling belief) were sampled under exactly the action and observation leading to it. *)
From Coq Require Import QArith List Arith Bool Lia.
From AIT Require Import C19.Model C19.Spec C19.Proofs C19.ProofsParticles C19.ModelR C19.SpecR C19.ProofsR C19.ProofsR2.
Import ListNotations.
Local Open Scope nat_scope.

#[local] Opaque Qred.

Lemma In_tset : forall s v t x, In x (tset s v t) -> x = (s, v) \/ In x t.
Proof.
  induction t as [|[s' w] r IH]; intros x H; cbn [tset] in H.
  - destruct H as [H|[]]; auto.
  - destruct (Nat.eqb s s').
    + destruct H as [H|H]; [left; auto | right; right; exact H].
    + destruct H as [H|H]; [right; left; exact H|]. apply IH in H. destruct H; [left|right; right]; auto.
Qed.

Lemma In_ttouch : forall s t x, In x (ttouch s t) -> In x t \/ x = (s, (0, 0%Q)).
Proof.
  intros s t x H. unfold ttouch in H. destruct (tfind s t); [left; exact H|].
  apply in_app_or in H. destruct H as [H|[H|[]]]; [left|right]; auto.
Qed.

Definition pos_in (t : track) (s : nat) : Prop := exists cnt e, In (s, (cnt, e)) t /\ 0 < cnt.

Lemma r_update_track : forall entropy plogp n s1 s,
  pos_in (rtrack (r_update entropy plogp n s1)) s -> s = s1 \/ pos_in (rtrack n) s.
Proof.
  intros entropy plogp n s1 s [cnt [e [Hin Hpos]]]. unfold r_update in Hin. destruct entropy.
  - destruct (tget s1 (ttouch s1 (rtrack n))) as [c ne]. cbn [rtrack] in Hin.
    apply In_tset in Hin. destruct Hin as [Hin|Hin]; [inversion Hin; auto|].
    apply In_ttouch in Hin. destruct Hin as [Hin|Hin]; [right; exists cnt, e; auto | inversion Hin; subst; lia].
  - cbn [rtrack] in Hin.
    apply In_ttouch in Hin. destruct Hin as [Hin|Hin]; [|inversion Hin; subst; lia].
    apply In_tset in Hin. destruct Hin as [Hin|Hin]; [inversion Hin; auto|].
    apply In_ttouch in Hin. destruct Hin as [Hin|Hin]; [right; exists cnt, e; auto | inversion Hin; subst; lia].
Qed.

Lemma rsampled_mono : forall pool pool' n, incl pool pool' -> rsampled_ok pool n -> rsampled_ok pool' n.
Proof.
  intros pool pool' n H Hn. eapply rtree_all_impl; [|exact Hn].
  intros x Hx i o c s cnt e Hin Ht Hp. eapply sampled_mono; [exact H|]. eapply Hx; eauto.
Qed.

Lemma rsampled_same : forall pool n m, racts m = racts n -> rsampled_ok pool n -> rsampled_ok pool m.
Proof.
  intros pool n m HA H. apply rtree_all_inv in H. destruct H as [X K].
  constructor; [unfold rsampled_local in *; rewrite HA; exact X | rewrite HA; exact K].
Qed.

Lemma nth_rresize_nil : forall n i, nth i (rresize n []) ract0 = ract0.
Proof. induction n as [|n IH]; intros [|i]; cbn [rresize nth]; try reflexivity. apply IH. Qed.

Lemma rsampled_node0 : forall pool, rsampled_ok pool rnode0.
Proof.
  intros. constructor.
  - intros i o c s cnt e Hin. cbn [racts rnode0] in Hin. destruct i; cbn in Hin; destruct Hin.
  - intros a k c [].
Qed.

Section RParticles.
  Variable A : nat.
  Variable term : nat -> bool.
  Variable disc : Q.
  Variable k : nat.
  Variable entropy : bool.
  Variable plogp : nat -> nat -> Q.
  Hypothesis HA : 0 < A.
  Variable pool : trace.

  Notation upd_node := (r_update entropy plogp).
  Notation sim := (r_simulate A term disc k entropy plogp).

  Lemma rsampled_allocate : forall n, rshape_local A n -> rsampled_ok pool n -> rsampled_ok pool (r_allocate A n).
  Proof.
    intros n Hs H. destruct Hs as [Hnil|Hlen].
    - apply rtree_all_inv in H. destruct H as [X K]. unfold r_allocate. rewrite Hnil. constructor.
      + intros i o c s cnt e Hin. cbn [racts] in Hin. rewrite nth_rresize_nil in Hin. destruct Hin.
      + cbn [racts]. intros a k0 c Ha Hc. apply rresize_nil_all0 in Ha. subst a. destruct Hc.
    - eapply rsampled_same; [|exact H]. unfold r_allocate. cbn [racts]. rewrite <- Hlen. apply rresize_id.
  Qed.

  Lemma rsampled_rebuild : forall b b' a x o ot2,
    rsampled_ok pool b -> a < length (racts b) ->
    rsampled_ok pool ot2 -> (forall s, pos_in (rtrack ot2) s -> sampled_by pool a o s) ->
    racts b' = upd a (fun _ => ract_update (nth a (racts b) ract0) x (rset_kid o ot2 (rkids (nth a (racts b) ract0)))) (racts b) ->
    rsampled_ok pool b'.
  Proof.
    intros b b' a x o ot2 H Ha Hot Hpos Hacts.
    apply rtree_all_inv in H. destruct H as [X K].
    constructor.
    - intros i o' c s cnt e Hin Ht Hp. rewrite Hacts in Hin.
      destruct (Nat.eq_dec a i) as [E|E].
      + subst i. rewrite (nth_upd_same _ _ ract0) in Hin by exact Ha.
        unfold ract_update in Hin. cbn [rkids] in Hin.
        apply In_rset_kid in Hin. destruct Hin as [[-> ->]|Hin].
        * apply Hpos. exists cnt, e. auto.
        * eapply X; eauto.
      + rewrite nth_upd_other in Hin by exact E. eapply X; eauto.
    - intros y k0 c Hy Hc. rewrite Hacts in Hy.
      apply (In_upd _ _ ract0) in Hy. destruct Hy as [Hy|[_ Hy]].
      + eapply K; eauto.
      + subst y. unfold ract_update in Hc. cbn [rkids] in Hc.
        apply In_rset_kid in Hc. destruct Hc as [[_ ->]|Hc]; [exact Hot|].
        eapply K; [apply nth_In; exact Ha | exact Hc].
  Qed.

  Lemma r_simulate_particles : forall fuel h d b s tr b' ret tr' st,
    d < h -> h - d <= fuel -> trace_ok A tr -> incl tr pool ->
    rtree_all (rgood A) b -> length (racts b) = A -> rsampled_ok pool b ->
    sim fuel h d b s tr = (b', ret, tr', st) ->
    rsampled_ok pool b' /\ incl tr' pool.
  Proof.
    induction fuel as [|fuel IH]; intros h d b s tr b' ret tr' st Hd Hf Htr Hin Hg Hlen Hp H; [lia|].
    pose proof (r_simulate_step A term disc k entropy plogp _ _ _ _ _ _ _ _ _ _ H) as Hs.
    cbv zeta in Hs. destruct Hs as [ot2 [x [st0 [E [Hst [HN [HL [HT Hacts]]]]]]]].
    destruct (next tr) as [e tr1] eqn:En. cbn [fst snd] in *.
    destruct (next_trace_ok _ _ _ _ HA Htr En) as [Hea Htr1].
    destruct (next_incl _ _ _ _ En Hin) as [He Hin1].
    assert (Hea' : ea e < length (racts b)) by lia.
    assert (Hwit : sampled_by pool (ea e) (eo e) (es1 e)) by (exists e; auto).
    set (aNode := nth (ea e) (racts b) ract0) in *.
    assert (Hot : rtree_all (rgood A) (found_or0 (eo e) (rkids aNode)) /\
                  rsampled_ok pool (found_or0 (eo e) (rkids aNode)) /\
                  (forall s0, pos_in (rtrack (found_or0 (eo e) (rkids aNode))) s0 -> sampled_by pool (ea e) (eo e) s0)).
    { unfold found_or0. destruct (rfind_kid (eo e) (rkids aNode)) as [c|] eqn:Ef.
      - apply rfind_kid_In in Ef.
        apply rtree_all_inv in Hg. destruct Hg as [_ K].
        apply rtree_all_inv in Hp. destruct Hp as [X KP].
        split; [eapply K; eauto; apply nth_In; exact Hea'|].
        split; [eapply KP; eauto; apply nth_In; exact Hea'|].
        intros s0 [cnt [e0 [I P]]]. eapply X; eauto.
      - split; [apply rgood_node0|]. split; [apply rsampled_node0|].
        intros s0 [cnt [e0 [[] _]]]. }
    destruct Hot as [Hotg [Hotp Hots]].
    set (ot := found_or0 (eo e) (rkids aNode)) in *.
    destruct (r_update_fields entropy plogp ot (es1 e)) as [U1 [U2 [U3 U4]]].
    assert (Hot1g : rtree_all (rgood A) (upd_node ot (es1 e))) by (eapply rgood_same; eauto).
    assert (Hot1p : rsampled_ok pool (upd_node ot (es1 e))) by (eapply rsampled_same; eauto).
    assert (Hot1s : forall s0, pos_in (rtrack (upd_node ot (es1 e))) s0 -> sampled_by pool (ea e) (eo e) s0).
    { intros s0 Hs0. apply r_update_track in Hs0. destruct Hs0 as [->|Hs0]; [exact Hwit|auto]. }
    assert (Hchild : rsampled_ok pool ot2 /\ rtrack ot2 = rtrack (upd_node ot (es1 e)) /\ incl tr' pool).
    { match type of E with (if ?c then _ else _) = _ => destruct c eqn:C end.
      - apply andb_prop in C. destruct C as [C _]. apply andb_prop in C. destruct C as [C _].
        apply Nat.ltb_lt in C.
        destruct (r_allocate_good A _ Hot1g) as [Hga Hla].
        assert (Hsh : rshape_local A (upd_node ot (es1 e))).
        { apply rtree_all_inv in Hot1g. destruct Hot1g as [[_ [_ [Z _]]] _]. exact Z. }
        pose proof (rsampled_allocate _ Hsh Hot1p) as Hpa.
        assert (Hf' : h - (d + 1) <= fuel) by lia.
        destruct (IH _ _ _ _ _ _ _ _ _ C Hf' Htr1 Hin1 Hga Hla Hpa E) as [P2 I2].
        destruct (r_simulate_good A term disc k entropy plogp HA _ _ _ _ _ _ _ _ _ _ C Hf' Htr1 Hga Hla E) as [_ [_ [_ [_ [_ [T2 _]]]]]].
        split; [exact P2|]. split; [rewrite T2; reflexivity|exact I2].
      - inversion E; subst ot2 x tr' st0.
        split; [eapply rsampled_same; [|exact Hot1p]; reflexivity|]. split; [reflexivity|exact Hin1]. }
    destruct Hchild as [P2 [T2 I2]].
    split; [|exact I2].
    eapply (rsampled_rebuild b b' (ea e) x (eo e) ot2); eauto.
    intros s0 Hs0. rewrite T2 in Hs0. auto.
  Qed.

  Lemma r_loop_particles : forall iters h g tr g' tr' sts,
    0 < h -> trace_ok A tr -> incl tr pool -> rtree_all (rgood A) g -> length (racts g) = A ->
    rsampled_ok pool g ->
    r_loop A term disc k entropy plogp iters h g tr = (g', tr', sts) -> rsampled_ok pool g'.
  Proof.
    induction iters as [|i IH]; intros h g tr g' tr' sts Hh Htr Hin Hg Hlen Hp H; cbn [r_loop] in H.
    - inversion H; subst g' tr' sts; auto.
    - destruct (sim h h 0 g (root_particle tr) tr) as [[[g1 r1] tr1] st1] eqn:E1.
      destruct (r_loop A term disc k entropy plogp i h g1 tr1) as [[g2 tr2] sts2] eqn:E2.
      inversion H; subst g' tr' sts; clear H.
      assert (Hf : h - 0 <= h) by lia.
      destruct (r_simulate_good A term disc k entropy plogp HA _ _ _ _ _ _ _ _ _ _ Hh Hf Htr Hg Hlen E1) as [G1 [L1 [T1 _]]].
      destruct (r_simulate_particles _ _ _ _ _ _ _ _ _ _ Hh Hf Htr Hin Hg Hlen Hp E1) as [P1 I1].
      eapply IH; eauto.
  Qed.

  Lemma r_run_particles : forall iters h g tr g' a tr' sts,
    trace_ok A tr -> incl tr pool -> rtree_all (rgood A) g -> length (racts g) = A ->
    rsampled_ok pool g ->
    r_runSimulation A term disc k entropy plogp iters h g tr = (g', a, tr', sts) -> rsampled_ok pool g'.
  Proof.
    intros iters h g tr g' a tr' sts Htr Hin Hg Hlen Hp H. unfold r_runSimulation in H.
    destruct (Nat.eqb h 0) eqn:Eh.
    - inversion H; subst g' a tr' sts. auto.
    - apply Nat.eqb_neq in Eh.
      destruct (r_loop A term disc k entropy plogp iters h g tr) as [[g2 tr2] sts2] eqn:E2.
      destruct (find_best (map raV (racts g2))) as [bestA bestV].
      inversion H; subst g' a tr' sts; clear H.
      assert (Hh : 0 < h) by lia.
      eapply rsampled_same; [|eapply r_loop_particles; eauto]. reflexivity.
  Qed.

  (* one call: the tree stays consistent, and the sampling belief handed to the new root on an advance
     into a simulated node only has positive counts on states sampled under (a, o) *)
  Lemma r_op_particles : forall iters g op tr sb' g' a tr' sts,
    trace_ok A tr -> incl tr pool -> rtree_all (rgood A) g -> rsampled_ok pool g ->
    r_op A term disc k entropy plogp iters g op tr = (sb', (g', a, tr', sts)) ->
    rsampled_ok pool g' /\
    match op with
    | RFresh sb _ => sb' = sb
    | RAdvance a0 o _ sb =>
      sb' = sb \/ (forall s cnt, In (s, cnt) sb' -> 0 < cnt -> sampled_by pool a0 o s)
    end.
  Proof.
    intros iters g op tr sb' g' a tr' sts Htr Hin Hg Hp H.
    assert (Hfresh : forall sb h, r_fresh A term disc k entropy plogp iters sb h tr = (sb', (g', a, tr', sts)) ->
                                  rsampled_ok pool g' /\ sb' = sb).
    { intros sb h E. unfold r_fresh in E. inversion E as [[E1 E2]]; clear E.
      destruct (r_allocate_good A rnode0 (rgood_node0 A)) as [G L].
      split; [|reflexivity].
      eapply r_run_particles; try exact E2; auto.
      apply rsampled_allocate; [left; reflexivity | apply rsampled_node0]. }
    destruct op as [sb h|a0 o h sb]; cbn [r_op] in H.
    - eapply Hfresh; eauto.
    - unfold r_advance in H.
      destruct (rfind_kid o (rkids (nth a0 (racts g) ract0))) as [c|] eqn:Ef;
        [|destruct (Hfresh _ _ H); split; auto].
      unfold r_promote in H.
      destruct (map (fun p => (fst p, fst (snd p))) (rtrack c)) as [|p0 pt] eqn:Em;
        [destruct (Hfresh _ _ H); split; auto|].
      inversion H as [[E1 E2]]; clear H.
      apply rfind_kid_In in Ef.
      destruct (Nat.lt_ge_cases a0 (length (racts g))) as [Hlt|Hge];
        [|rewrite nth_overflow in Ef by exact Hge; destruct Ef].
      assert (Hc : rtree_all (rgood A) c).
      { apply rtree_all_inv in Hg. destruct Hg as [_ K]. eapply K; [apply nth_In; exact Hlt | exact Ef]. }
      assert (Hcp : rsampled_ok pool c).
      { apply rtree_all_inv in Hp. destruct Hp as [_ K]. eapply K; [apply nth_In; exact Hlt | exact Ef]. }
      destruct (r_allocate_good A _ Hc) as [G L].
      assert (Hsh : rshape_local A c).
      { apply rtree_all_inv in Hc. destruct Hc as [[_ [_ [Z _]]] _]. exact Z. }
      split.
      + eapply r_run_particles; try exact E2; auto.
        * eapply rgood_same; [| | |exact G]; reflexivity.
        * eapply rsampled_same; [|apply (rsampled_allocate c Hsh Hcp)]. reflexivity.
      + right. intros s cnt Hs Hpos. rewrite <- Em in Hs.
        apply in_map_iff in Hs. destruct Hs as [[s0 [c0 e0]] [Eq Hs]]. cbn [fst snd] in Eq. inversion Eq; subst s0 c0.
        apply rtree_all_inv in Hp. destruct Hp as [X _]. eapply X; eauto.
  Qed.
End RParticles.

Lemma r_session_particles_gen : forall A term disc k entropy plogp iters ops g pool,
  0 < A -> rtree_all (rgood A) g -> rsampled_ok pool g ->
  Forall (fun p => trace_ok A (snd p)) ops ->
  rsampled_ok (pool ++ concat (map snd ops)) (r_session A term disc k entropy plogp iters g ops).
Proof.
  intros A term disc k entropy plogp iters. induction ops as [|[op tr] t IH]; intros g pool HA Hg Hp Hops; cbn [r_session map concat].
  - rewrite app_nil_r. exact Hp.
  - inversion Hops as [|? ? Hx Ht]; subst. cbn [snd] in *.
    destruct (r_op A term disc k entropy plogp iters g op tr) as [sb' [[[g1 a1] tr1] sts1]] eqn:E.
    assert (Hg1 : rtree_all (rgood A) g1).
    { destruct (r_op_good A term disc k entropy plogp HA _ _ _ _ _ _ _ _ _ Hx Hg E) as [X _]. exact X. }
    assert (Hp1 : rsampled_ok (pool ++ tr) g1).
    { eapply (r_op_particles A term disc k entropy plogp HA (pool ++ tr)); try exact E; auto.
      - apply incl_appr. apply incl_refl.
      - eapply rsampled_mono; [|exact Hp]. apply incl_appl. apply incl_refl. }
    rewrite app_assoc. apply IH; auto.
Qed.

Lemma r_particles_lemma : forall A term disc k entropy plogp iters sb0 h0 tr0 ops,
  0 < A -> trace_ok A tr0 -> Forall (fun p => trace_ok A (snd p)) ops ->
  rsampled_ok (tr0 ++ concat (map snd ops))
              (r_session A term disc k entropy plogp iters rnode0 ((RFresh sb0 h0, tr0) :: ops)).
Proof.
  intros A term disc k entropy plogp iters sb0 h0 tr0 ops HA H0 Hops.
  pose proof (r_session_particles_gen A term disc k entropy plogp iters ((RFresh sb0 h0, tr0) :: ops) rnode0 [] HA
                (rgood_node0 A) (rsampled_node0 [])) as X.
  cbn [app map concat snd] in X. apply X. constructor; [exact H0|exact Hops].
Qed.

Lemma r_promoted_belief_lemma : forall A term disc k entropy plogp pool iters g op tr sb' g' a tr' sts,
  0 < A -> trace_ok A tr -> incl tr pool ->
  rcounts_ok g /\ rmean_ok g /\ rshape_ok A g /\ rpart_ok g -> rsampled_ok pool g ->
  r_op A term disc k entropy plogp iters g op tr = (sb', (g', a, tr', sts)) ->
  rsampled_ok pool g' /\
  match op with
  | RFresh sb _ => sb' = sb
  | RAdvance a0 o _ sb => sb' = sb \/ (forall s cnt, In (s, cnt) sb' -> 0 < cnt -> sampled_by pool a0 o s)
  end.
Proof.
  intros A term disc k entropy plogp pool iters g op tr sb' g' a tr' sts HA Htr Hin [X [Y [Z W]]] Hp H.
  assert (Hg : rtree_all (rgood A) g).
  { pose proof (rtree_all_and _ _ _ X (rtree_all_and _ _ _ Y (rtree_all_and _ _ _ Z W))) as HH.
    eapply rtree_all_impl; [|exact HH]. intros x [p [q [r t]]]. split; [|split; [|split]]; assumption. }
  eapply r_op_particles; eauto.
Qed.
