(* C19/ProofsParticles.v — POMCP: particles of every non-root node were sampled under exactly the
   action and observation leading to it. *)
From Coq Require Import QArith List Arith Bool Lia.
From AIT Require Import C19.Model C19.Spec C19.Proofs C19.ProofsPOMCP.
Import ListNotations.
Local Open Scope nat_scope.

#[local] Opaque Qred.

Lemma nth_upd_other : forall X (f : X -> X) (d : X) l i j, i <> j -> nth j (upd i f l) d = nth j l d.
Proof.
  induction l as [|y t IH]; intros [|i] [|j] H; cbn [upd nth]; try reflexivity; try lia.
  apply IH; lia.
Qed.

Lemma nth_upd_oob : forall X (f : X -> X) l i, length l <= i -> upd i f l = l.
Proof.
  induction l as [|y t IH]; intros [|i] H; cbn [upd length] in *; try reflexivity; try lia.
  f_equal. apply IH. lia.
Qed.

Lemma sampled_mono : forall pool pool' i o p, incl pool pool' -> sampled_by pool i o p -> sampled_by pool' i o p.
Proof.
  intros pool pool' i o p H [e [He X]]. exists e. split; [|exact X].
  destruct He as [He|He]; [left; exact He | right; apply H; exact He].
Qed.

Lemma particles_mono : forall pool pool' n, incl pool pool' -> particles_ok pool n -> particles_ok pool' n.
Proof.
  intros pool pool' n H Hn. eapply tree_all_impl; [|exact Hn].
  intros x Hx i o c Hin. eapply Forall_impl; [|apply Hx; exact Hin].
  intros p Hp. eapply sampled_mono; eauto.
Qed.

Lemma next_incl : forall tr e tr' pool, next tr = (e, tr') -> incl tr pool ->
  In e (ev0 :: pool) /\ incl tr' pool.
Proof.
  intros [|x t] e tr' pool E H; cbn [next] in E; inversion E; subst.
  - split; [left; reflexivity | intros y []].
  - split; [right; apply H; left; reflexivity | intros y Hy; apply H; right; exact Hy].
Qed.

Lemma rollout_incl : forall term disc L s g t tr r tr' n pool, incl tr pool ->
  rollout term disc L s g t tr = (r, tr', n) -> incl tr' pool.
Proof.
  induction L as [|L IH]; intros s g t tr r tr' n pool Hin H; cbn [rollout] in H.
  - inversion H; subst; auto.
  - destruct (next tr) as [e tr1] eqn:En. destruct (next_incl _ _ _ _ En Hin) as [_ Hin1].
    destruct (term (es1 e)).
    + inversion H; subst; auto.
    + destruct (rollout term disc L (es1 e) (g * disc)%Q (t + g * er e)%Q tr1) as [[r2 tr2] n2] eqn:E.
      inversion H; subst. eapply IH; eauto.
Qed.

Lemma pok_leaf : forall pool N b, particles_ok pool (Node N b []).
Proof.
  intros. constructor.
  - intros i o c Hin. cbn [acts] in Hin. destruct i; cbn in Hin; destruct Hin.
  - intros a k c [].
Qed.

Lemma pok_set_bel : forall pool c b, particles_ok pool c -> particles_ok pool (Node (nN c) b (acts c)).
Proof. intros pool c b H. apply tree_all_inv in H. destruct H as [X Y]. constructor; auto. Qed.

Lemma nth_resize : forall l i, nth i (resize (length l) l) act0 = nth i l act0.
Proof. intros. rewrite resize_id. reflexivity. Qed.

Lemma nth_resize_nil : forall n i, nth i (resize n []) act0 = act0.
Proof.
  induction n as [|n IH]; intros [|i]; cbn [resize nth]; try reflexivity. apply IH.
Qed.

Section Particles.
  Variable A : nat.
  Variable term : nat -> bool.
  Variable disc : Q.
  Variable rl : nat -> nat -> nat.
  Hypothesis HA : 0 < A.
  Variable pool : trace.

  Lemma pok_allocate : forall n, shape_local A n -> particles_ok pool n -> particles_ok pool (allocate A n).
  Proof.
    intros n Hs H. apply tree_all_inv in H. destruct H as [X Y]. unfold allocate.
    destruct Hs as [Hnil|Hlen].
    - rewrite Hnil in *. constructor.
      + intros i o c Hin. cbn [acts] in Hin. rewrite nth_resize_nil in Hin. destruct Hin.
      + cbn [acts]. intros a k c Ha Hc. apply resize_nil_all0 in Ha. subst a. destruct Hc.
    - rewrite <- Hlen. rewrite resize_id. constructor; auto.
  Qed.

  Lemma pomcp_simulate_bel : forall fuel h d b s tr b' ret tr' st,
    pomcp_simulate A term disc rl fuel h d b s tr = (b', ret, tr', st) -> bel b' = bel b.
  Proof.
    clear HA. destruct fuel as [|fuel]; intros h d b s tr b' ret tr' st H; cbn [pomcp_simulate] in H.
    - inversion H; reflexivity.
    - destruct (next tr) as [e tr1].
      destruct (find_kid (eo e) (kids (nth (ea e) (acts b) act0))) as [c|].
      + destruct ((d + 1 <? h) && negb (term (es1 e))).
        * match type of H with context [pomcp_simulate ?a ?b ?c ?d ?e ?f ?g ?h ?i ?j] =>
            destruct (pomcp_simulate a b c d e f g h i j) as [[[c' fr] tr2] st0] end.
          inversion H; reflexivity.
        * inversion H; reflexivity.
      + destruct (rollout term disc (rl h d) (es1 e) 1 0 tr1) as [[fr tr2] st0].
        inversion H; reflexivity.
  Qed.

  (* the rebuilt node keeps the invariant when the written-back child under key o0 carries only
     particles sampled under (a, o0) *)
  Lemma pok_rebuild : forall b N' a rew o0 c0,
    particles_ok pool b -> a < length (acts b) ->
    particles_ok pool c0 -> Forall (sampled_by pool a o0) (bel c0) ->
    particles_ok pool (Node N' (bel b)
      (upd a (fun _ => act_update (nth a (acts b) act0) rew (set_kid o0 c0 (kids (nth a (acts b) act0)))) (acts b))).
  Proof.
    intros b N' a rew o0 c0 H Ha Hc0 Hb0.
    apply tree_all_inv in H. destruct H as [X Y].
    constructor.
    - intros i o c Hin. cbn [acts] in Hin.
      destruct (Nat.eq_dec a i) as [E|E].
      + subst i. rewrite (nth_upd_same _ _ act0) in Hin by exact Ha.
        unfold act_update in Hin. cbn [kids] in Hin.
        apply In_set_kid in Hin. destruct Hin as [[-> ->]|Hin]; [exact Hb0|].
        apply X. exact Hin.
      + rewrite nth_upd_other in Hin by exact E. apply X. exact Hin.
    - cbn [acts]. intros x k c Hx Hc.
      apply (In_upd _ _ act0) in Hx. destruct Hx as [Hx|[_ Hx]].
      + eapply Y; eauto.
      + subst x. unfold act_update in Hc. cbn [kids] in Hc.
        apply In_set_kid in Hc. destruct Hc as [[_ ->]|Hc]; [exact Hc0|].
        eapply Y; [apply nth_In; exact Ha | exact Hc].
  Qed.

  Lemma pomcp_simulate_particles : forall fuel h d b s tr b' ret tr' st,
    trace_ok A tr -> incl tr pool -> tree_all (good A) b -> length (acts b) = A ->
    particles_ok pool b ->
    pomcp_simulate A term disc rl fuel h d b s tr = (b', ret, tr', st) ->
    particles_ok pool b' /\ incl tr' pool.
  Proof.
    induction fuel as [|fuel IH]; intros h d b s tr b' ret tr' st Htr Hin Hg Hlen Hp H; cbn [pomcp_simulate] in H.
    - inversion H; subst b' ret tr' st; auto.
    - destruct (next tr) as [e tr1] eqn:En.
      destruct (next_trace_ok _ _ _ _ HA Htr En) as [Hea Htr1].
      destruct (next_incl _ _ _ _ En Hin) as [He Hin1].
      assert (Hea' : ea e < length (acts b)) by (rewrite Hlen; exact Hea).
      assert (Hwit : sampled_by pool (ea e) (eo e) (es1 e)) by (exists e; auto).
      destruct (find_kid (eo e) (kids (nth (ea e) (acts b) act0))) as [c|] eqn:Ef.
      + apply find_kid_In in Ef.
        assert (Hcg : tree_all (good A) c) by (eapply old_kid_good; eauto).
        assert (Hcp : particles_ok pool c).
        { apply tree_all_inv in Hp. destruct Hp as [_ Y]. eapply Y; [apply nth_In; exact Hea'|exact Ef]. }
        assert (Hcb : Forall (sampled_by pool (ea e) (eo e)) (bel c)).
        { apply tree_all_inv in Hp. destruct Hp as [X _]. apply X. exact Ef. }
        fold (pushed c (es1 e)) in H.
        assert (Hpb : Forall (sampled_by pool (ea e) (eo e)) (bel (pushed c (es1 e)))).
        { unfold pushed. cbn [bel]. apply Forall_app. split; [exact Hcb|constructor; [exact Hwit|constructor]]. }
        assert (Hpp : particles_ok pool (pushed c (es1 e))) by (apply pok_set_bel; exact Hcp).
        destruct ((d + 1 <? h) && negb (term (es1 e))) eqn:Eif.
        * destruct (pomcp_simulate A term disc rl fuel h (d + 1) (allocate A (pushed c (es1 e))) (es1 e) tr1) as [[[c' fr] tr2] st0] eqn:Er.
          inversion H; subst b' ret tr' st; clear H.
          assert (Hg1 : tree_all (good A) (pushed c (es1 e))) by (apply good_set_bel; exact Hcg).
          destruct (allocate_good A _ Hg1) as [Hga Hla].
          assert (Hsh : shape_local A (pushed c (es1 e))).
          { apply tree_all_inv in Hg1. destruct Hg1 as [[_ [_ Z]] _]. exact Z. }
          pose proof (pok_allocate _ Hsh Hpp) as Hpa.
          destruct (IH _ _ _ _ _ _ _ _ _ Htr1 Hin1 Hga Hla Hpa Er) as [Pc' Hin2].
          split; [|exact Hin2].
          apply pok_rebuild; auto.
          rewrite (pomcp_simulate_bel _ _ _ _ _ _ _ _ _ _ Er). unfold allocate. cbn [bel]. exact Hpb.
        * inversion H; subst b' ret tr' st; clear H.
          split; [|exact Hin1]. apply pok_rebuild; auto.
      + destruct (rollout term disc (rl h d) (es1 e) 1 0 tr1) as [[fr tr2] st0] eqn:Er.
        inversion H; subst b' ret tr' st; clear H.
        split; [|eapply rollout_incl; eauto].
        apply pok_rebuild; auto; [apply pok_leaf|].
        cbn [bel]. constructor; [exact Hwit|constructor].
  Qed.

  Lemma pomcp_loop_particles : forall iters h g tr g' tr' sts,
    0 < h -> trace_ok A tr -> incl tr pool -> tree_all (good A) g -> length (acts g) = A ->
    particles_ok pool g ->
    pomcp_loop A term disc rl iters h g tr = (g', tr', sts) -> particles_ok pool g'.
  Proof.
    induction iters as [|i IH]; intros h g tr g' tr' sts Hh Htr Hin Hg Hlen Hp H; cbn [pomcp_loop] in H.
    - inversion H; subst g' tr' sts; auto.
    - destruct (pomcp_simulate A term disc rl h h 0 g (root_particle tr) tr) as [[[g1 r1] tr1] st1] eqn:E1.
      destruct (pomcp_loop A term disc rl i h g1 tr1) as [[g2 tr2] sts2] eqn:E2.
      inversion H; subst g' tr' sts; clear H.
      destruct (pomcp_simulate_good A term disc rl HA _ _ _ _ _ _ _ _ _ _ Htr Hg Hlen E1) as [Hg1 [Hl1 Ht1]].
      destruct (pomcp_simulate_particles _ _ _ _ _ _ _ _ _ _ Htr Hin Hg Hlen Hp E1) as [Hp1 Hin1].
      eapply IH; eauto.
  Qed.

  Lemma pomcp_run_particles : forall iters h g tr g' a tr' sts,
    trace_ok A tr -> incl tr pool -> tree_all (good A) g -> length (acts g) = A ->
    particles_ok pool g ->
    pomcp_runSimulation A term disc rl iters h g tr = (g', a, tr', sts) -> particles_ok pool g'.
  Proof.
    intros iters h g tr g' a tr' sts Htr Hin Hg Hlen Hp H. unfold pomcp_runSimulation in H.
    destruct (Nat.eqb h 0) eqn:Eh.
    - inversion H; subst g' a tr' sts. auto.
    - apply Nat.eqb_neq in Eh.
      destruct (pomcp_loop A term disc rl iters h g tr) as [[g2 tr2] sts2] eqn:E2.
      inversion H; subst g' a tr' sts; clear H.
      assert (Hh : 0 < h) by lia. eapply pomcp_loop_particles; eauto.
  Qed.

  Lemma pomcp_op_particles : forall iters g op tr g' a tr' sts,
    trace_ok A tr -> incl tr pool -> tree_all (good A) g -> particles_ok pool g ->
    pomcp_op A term disc rl iters g op tr = (g', a, tr', sts) -> particles_ok pool g'.
  Proof.
    intros iters g op tr g' a tr' sts Htr Hin Hg Hp H.
    assert (Hfresh : forall ps h, pomcp_fresh A term disc rl iters ps h tr = (g', a, tr', sts) ->
                                  particles_ok pool g').
    { intros ps h E. unfold pomcp_fresh in E.
      destruct (good_fresh_root A ps) as [G L].
      eapply pomcp_run_particles; try exact E; auto.
      pose proof (pok_allocate (Node 0 ps []) (or_introl eq_refl) (pok_leaf pool 0 ps)) as X.
      unfold allocate in X. cbn [nN bel acts] in X. exact X. }
    destruct op as [ps h|a0 o h ps]; cbn [pomcp_op] in H.
    - eapply Hfresh; eauto.
    - unfold pomcp_advance in H.
      destruct (find_kid o (kids (nth a0 (acts g) act0))) as [c|] eqn:Ef.
      + apply find_kid_In in Ef.
        destruct (Nat.lt_ge_cases a0 (length (acts g))) as [Hlt|Hge];
          [|rewrite nth_overflow in Ef by exact Hge; destruct Ef].
        assert (Hcg : tree_all (good A) c) by (eapply old_kid_good; eauto).
        assert (Hcp : particles_ok pool c).
        { apply tree_all_inv in Hp. destruct Hp as [_ Y]. eapply Y; [apply nth_In; exact Hlt|exact Ef]. }
        destruct (bel c) as [|p0 pt] eqn:Eb.
        * eapply Hfresh; eauto.
        * destruct (allocate_good A c Hcg) as [G L].
          assert (Hsh : shape_local A c).
          { apply tree_all_inv in Hcg. destruct Hcg as [[_ [_ Z]] _]. exact Z. }
          eapply pomcp_run_particles; try exact H; auto.
          apply pok_allocate; auto.
      + eapply Hfresh; eauto.
  Qed.
End Particles.

(* history level: pool = all events observed during the history *)
Lemma pomcp_session_particles_gen : forall A term disc rl iters ops g pool,
  0 < A -> tree_all (good A) g -> particles_ok pool g ->
  Forall (fun p => trace_ok A (snd p)) ops ->
  particles_ok (pool ++ concat (map snd ops)) (pomcp_session A term disc rl iters g ops).
Proof.
  intros A term disc rl iters. induction ops as [|[op tr] t IH]; intros g pool HA Hg Hp Hops; cbn [pomcp_session map concat].
  - rewrite app_nil_r. exact Hp.
  - inversion Hops as [|? ? Hx Ht]; subst. cbn [snd] in *.
    destruct (pomcp_op A term disc rl iters g op tr) as [[[g1 a1] tr1] sts1] eqn:E.
    assert (Hg1 : tree_all (good A) g1).
    { destruct (pomcp_op_good A term disc rl HA _ _ _ _ _ _ _ _ Hx Hg E) as [X _]. exact X. }
    assert (Hp1 : particles_ok (pool ++ tr) g1).
    { eapply (pomcp_op_particles A term disc rl HA (pool ++ tr)); try exact E; auto.
      - apply incl_appr. apply incl_refl.
      - eapply particles_mono; [|exact Hp]. apply incl_appl. apply incl_refl. }
    rewrite app_assoc. apply IH; auto.
Qed.

Lemma pomcp_particles_lemma : forall A term disc rl iters ps0 h0 tr0 ops,
  0 < A -> trace_ok A tr0 -> Forall (fun p => trace_ok A (snd p)) ops ->
  particles_ok (tr0 ++ concat (map snd ops))
               (pomcp_session A term disc rl iters node0 ((PFresh ps0 h0, tr0) :: ops)).
Proof.
  intros A term disc rl iters ps0 h0 tr0 ops HA H0 Hops.
  pose proof (pomcp_session_particles_gen A term disc rl iters ((PFresh ps0 h0, tr0) :: ops) node0 [] HA
                (good_node0 A) (pok_leaf [] 0 [])) as X.
  cbn [app map concat snd] in X. apply X. constructor; [exact H0|exact Hops].
Qed.
