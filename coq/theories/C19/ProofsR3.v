(* C19/ProofsR3.v — rPOMCP: horizon without any invariant, and the statements exported by
   Properties_C19.v. *)
From Coq Require Import QArith List Arith Bool Lia.
From AIT Require Import C19.Model C19.Spec C19.Proofs C19.ModelR C19.SpecR C19.ProofsR C19.ProofsR2.
Import ListNotations.
Local Open Scope nat_scope.

#[local] Opaque Qred.

Lemma r_simulate_steps : forall A term disc k entropy plogp fuel h d b s tr b' ret tr' st,
  d < h -> r_simulate A term disc k entropy plogp fuel h d b s tr = (b', ret, tr', st) -> st <= h - d.
Proof.
  intros A term disc k entropy plogp. induction fuel as [|fuel IH]; intros h d b s tr b' ret tr' st Hd H.
  - cbn [r_simulate] in H. inversion H; lia.
  - pose proof (r_simulate_step A term disc k entropy plogp _ _ _ _ _ _ _ _ _ _ H) as Hs.
    cbv zeta in Hs. destruct Hs as [ot2 [x [st0 [E [Hst _]]]]].
    match type of E with (if ?c then _ else _) = _ => destruct c eqn:C end.
    + apply andb_prop in C. destruct C as [C _]. apply andb_prop in C. destruct C as [C _].
      apply Nat.ltb_lt in C. apply IH in E; [lia|exact C].
    + inversion E. lia.
Qed.

Lemma r_loop_steps : forall A term disc k entropy plogp iters h g tr g' tr' sts,
  0 < h -> r_loop A term disc k entropy plogp iters h g tr = (g', tr', sts) ->
  Forall (fun st => st <= h) sts.
Proof.
  intros A term disc k entropy plogp. induction iters as [|i IH]; intros h g tr g' tr' sts Hh H; cbn [r_loop] in H.
  - inversion H; constructor.
  - destruct (r_simulate A term disc k entropy plogp h h 0 g (root_particle tr) tr) as [[[g1 r1] tr1] st1] eqn:E1.
    destruct (r_loop A term disc k entropy plogp i h g1 tr1) as [[g2 tr2] sts2] eqn:E2.
    inversion H; subst g' tr' sts. apply r_simulate_steps in E1; [|exact Hh].
    constructor; [lia | eapply IH; eauto].
Qed.

Lemma r_run_steps : forall A term disc k entropy plogp iters h g tr g' a tr' sts,
  r_runSimulation A term disc k entropy plogp iters h g tr = (g', a, tr', sts) ->
  Forall (fun st => st <= h) sts.
Proof.
  intros A term disc k entropy plogp iters h g tr g' a tr' sts H. unfold r_runSimulation in H.
  destruct (Nat.eqb h 0) eqn:Eh.
  - inversion H; constructor.
  - apply Nat.eqb_neq in Eh.
    destruct (r_loop A term disc k entropy plogp iters h g tr) as [[g2 tr2] sts2] eqn:E2.
    destruct (find_best (map raV (racts g2))) as [bestA bestV].
    inversion H; subst sts. eapply r_loop_steps; eauto. lia.
Qed.

Definition rop_h (op : rop) : nat := match op with RFresh _ h => h | RAdvance _ _ h _ => h end.

Lemma r_depth_lemma : forall A term disc k entropy plogp iters g op tr sb' g' a tr' sts,
  r_op A term disc k entropy plogp iters g op tr = (sb', (g', a, tr', sts)) ->
  Forall (fun st => st <= rop_h op) sts.
Proof.
  intros A term disc k entropy plogp iters g op tr sb' g' a tr' sts H.
  destruct op as [sb h|a0 o h sb]; cbn [r_op rop_h] in *.
  - unfold r_fresh in H. inversion H as [[E1 E2]]. eapply r_run_steps; eauto.
  - unfold r_advance, r_fresh in H.
    destruct (rfind_kid o (rkids (nth a0 (racts g) ract0))) as [c|].
    + destruct (r_promote A c) as [sbp root]. destruct sbp as [|p0 pt];
        inversion H as [[E1 E2]]; eapply r_run_steps; eauto.
    + inversion H as [[E1 E2]]. eapply r_run_steps; eauto.
Qed.

Lemma rgood_split : forall A g, rtree_all (rgood A) g ->
  rcounts_ok g /\ rmean_ok g /\ rshape_ok A g /\ rpart_ok g.
Proof.
  intros A g H. split; [|split; [|split]]; eapply rtree_all_impl; try exact H; intros x [X [Y [Z W]]]; assumption.
Qed.

Lemma rgood_join : forall A g, rcounts_ok g /\ rmean_ok g /\ rshape_ok A g /\ rpart_ok g -> rtree_all (rgood A) g.
Proof.
  intros A g [X [Y [Z W]]].
  pose proof (rtree_all_and _ _ _ X (rtree_all_and _ _ _ Y (rtree_all_and _ _ _ Z W))) as H.
  eapply rtree_all_impl; [|exact H]. intros x [a [b [c d]]]. split; [|split; [|split]]; assumption.
Qed.

Lemma r_session_lemma : forall A term disc k entropy plogp iters sb0 h0 tr0 ops,
  0 < A -> trace_ok A tr0 -> Forall (fun p => trace_ok A (snd p)) ops ->
  let g := r_session A term disc k entropy plogp iters rnode0 ((RFresh sb0 h0, tr0) :: ops) in
  rcounts_ok g /\ rmean_ok g /\ rshape_ok A g /\ rpart_ok g.
Proof.
  intros. apply (rgood_split A). apply r_session_good; auto. apply rgood_node0.
Qed.

Lemma r_action_lemma : forall A term disc k entropy plogp iters g op tr sb' g' a tr' sts,
  0 < A -> trace_ok A tr -> rcounts_ok g /\ rmean_ok g /\ rshape_ok A g /\ rpart_ok g ->
  r_op A term disc k entropy plogp iters g op tr = (sb', (g', a, tr', sts)) ->
  a < A /\ length (racts g') = A /\ (rcounts_ok g' /\ rmean_ok g' /\ rshape_ok A g' /\ rpart_ok g').
Proof.
  intros A term disc k entropy plogp iters g op tr sb' g' a tr' sts HA Htr Hg H.
  apply rgood_join in Hg.
  destruct (r_op_good A term disc k entropy plogp HA _ _ _ _ _ _ _ _ _ Htr Hg H) as [G [L [X _]]].
  split; [exact X|]. split; [exact L|]. apply (rgood_split A). exact G.
Qed.

(* the root rule: a call from scratch leaves a root that was never a leaf: N = sum of the actions' N *)
Lemma r_fresh_root_lemma : forall A term disc k entropy plogp iters sb h tr sb' g' a tr' sts,
  0 < A -> trace_ok A tr ->
  r_fresh A term disc k entropy plogp iters sb h tr = (sb', (g', a, tr', sts)) ->
  rN g' = sumn (map raN (racts g')) /\ sb' = sb.
Proof.
  intros A term disc k entropy plogp iters sb h tr sb' g' a tr' sts HA Htr H.
  unfold r_fresh in H. inversion H as [[E1 E2]].
  destruct (r_allocate_good A rnode0 (rgood_node0 A)) as [G L].
  destruct (r_run_good A term disc k entropy plogp HA _ _ _ _ _ _ _ _ Htr G L E2) as [G' [_ [_ [F _]]]].
  apply rtree_all_inv in G'. destruct G' as [[[C1 _] _] _].
  split; [|reflexivity]. unfold r_allocate in F. cbn [rleaf rnode0] in F. rewrite C1, F. lia.
Qed.

Lemma r_promotion_lemma : forall A term disc k entropy plogp iters g a o h sb tr,
  (forall c, rfind_kid o (rkids (nth a (racts g) ract0)) = Some c -> rtrack c <> [] ->
     In (o, c) (rkids (nth a (racts g) ract0)) /\
     r_advance A term disc k entropy plogp iters g a o h sb tr =
       (map (fun p => (fst p, fst (snd p))) (rtrack c),
        r_runSimulation A term disc k entropy plogp iters h (snd (r_promote A c)) tr) /\
     rN (snd (r_promote A c)) = rN c /\ rtrack (snd (r_promote A c)) = [] /\
     racts (snd (r_promote A c)) = rresize A (racts c)) /\
  (rfind_kid o (rkids (nth a (racts g) ract0)) = None ->
     r_advance A term disc k entropy plogp iters g a o h sb tr = r_fresh A term disc k entropy plogp iters sb h tr).
Proof.
  intros. split.
  - intros c E Hb. split; [apply rfind_kid_In; exact E|]. unfold r_advance. rewrite E.
    unfold r_promote. cbn [snd rN rtrack racts].
    destruct (rtrack c) as [|p t] eqn:Eb; [congruence|]. cbn [map]. repeat split; reflexivity.
  - intros E. unfold r_advance. rewrite E. reflexivity.
Qed.
