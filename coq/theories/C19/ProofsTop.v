(* C19/ProofsTop.v — the statements exported by Properties_C19.v, assembled from the lemmas. *)
From Coq Require Import QArith List Arith Bool Lia.
From AIT Require Import C19.Model C19.Spec C19.Proofs C19.ProofsMCTS C19.ProofsPOMCP.
Import ListNotations.
Local Open Scope nat_scope.

Lemma good_split : forall A g, tree_all (good A) g -> counts_ok g /\ mean_ok g /\ shape_ok A g.
Proof.
  intros A g H. split; [|split]; eapply tree_all_impl; try exact H; intros x [X [Y Z]]; assumption.
Qed.

Lemma good_join : forall A g, counts_ok g /\ mean_ok g /\ shape_ok A g -> tree_all (good A) g.
Proof.
  intros A g [X [Y Z]].
  pose proof (tree_all_and _ _ _ X (tree_all_and _ _ _ Y Z)) as H.
  eapply tree_all_impl; [|exact H]. intros x [a [b c]]. split; [|split]; assumption.
Qed.

Lemma rl_fixed_le : forall h d, rl_fixed h d <= h - d - 1.
Proof. intros; unfold rl_fixed; lia. Qed.

(* ------------------------------------------------------------------ MCTS ------------------ *)

Lemma mcts_session_good0 : forall A term disc rl iters s0 h0 tr0 ops,
  0 < A -> trace_ok A tr0 -> Forall (fun p => trace_ok A (snd p)) ops ->
  tree_all (good A) (mcts_session (fun _ => A) term disc rl iters node0 ((MFresh s0 h0, tr0) :: ops)).
Proof.
  intros. apply mcts_session_good; auto. apply good_node0.
Qed.

Lemma mcts_counts_lemma : forall A term disc rl iters s0 h0 tr0 ops,
  0 < A -> trace_ok A tr0 -> Forall (fun p => trace_ok A (snd p)) ops ->
  counts_ok (mcts_session (fun _ => A) term disc rl iters node0 ((MFresh s0 h0, tr0) :: ops)).
Proof. intros. eapply good_split. apply mcts_session_good0; auto. Qed.

Lemma mcts_mean_lemma : forall A term disc rl iters s0 h0 tr0 ops,
  0 < A -> trace_ok A tr0 -> Forall (fun p => trace_ok A (snd p)) ops ->
  mean_ok (mcts_session (fun _ => A) term disc rl iters node0 ((MFresh s0 h0, tr0) :: ops)).
Proof. intros. eapply good_split. apply mcts_session_good0; auto. Qed.

Lemma mcts_return_lemma : forall gA term disc rl fuel h d sn s tr sn' ret tr' st,
  mcts_simulate gA term disc rl (S fuel) h d sn s tr = (sn', ret, tr', st) ->
  st <= length tr -> ea (fst (next tr)) < length (acts sn) ->
  (ret == disc_sum disc (map er (firstn st tr)))%Q /\ tr' = skipn st tr /\
  rets (nth (ea (fst (next tr))) (acts sn') act0) = rets (nth (ea (fst (next tr))) (acts sn) act0) ++ [ret].
Proof.
  intros gA term disc rl fuel h d sn s tr sn' ret tr' st H Hst Ha.
  destruct (mcts_simulate_return _ _ _ _ _ _ _ _ _ _ _ _ _ _ H Hst) as [X Y].
  destruct (mcts_simulate_records _ _ _ _ _ _ _ _ _ _ _ _ _ _ H Ha) as [_ [Z _]].
  auto.
Qed.

Lemma mcts_depth_lemma : forall gA term disc iters g op tr g' a tr' sts,
  mcts_op gA term disc rl_fixed iters g op tr = (g', a, tr', sts) ->
  Forall (fun st => st <= match op with MFresh _ h => h | MAdvance _ _ h => h end) sts.
Proof. intros. eapply mcts_op_steps; eauto. apply rl_fixed_le. Qed.

Lemma mcts_depth_refuted_lemma : exists A term disc iters s h tr g' a tr' sts,
  0 < A /\ trace_ok A tr /\
  mcts_op (fun _ => A) term disc rl_orig iters node0 (MFresh s h) tr = (g', a, tr', sts) /\
  ~ Forall (fun st => st <= h) sts.
Proof.
  exists 1, (fun _ => false), 1%Q, 1, 0, 2.
  exists [Ev 0 0 0 0 1%Q; Ev 0 0 0 0 1%Q; Ev 0 0 0 0 1%Q; Ev 0 0 0 0 1%Q].
  eexists. eexists. eexists. exists [4].
  split; [lia|]. split; [repeat constructor|]. split; [vm_compute; reflexivity|].
  intro H. inversion H; subst. lia.
Qed.

Lemma mcts_action_lemma : forall A term disc rl iters g op tr g' a tr' sts,
  0 < A -> trace_ok A tr -> counts_ok g /\ mean_ok g /\ shape_ok A g ->
  mcts_op (fun _ => A) term disc rl iters g op tr = (g', a, tr', sts) ->
  a < A /\ length (acts g') = A.
Proof.
  intros A term disc rl iters g op tr g' a tr' sts HA Htr Hg H.
  apply good_join in Hg.
  destruct (mcts_op_good A term disc rl HA _ _ _ _ _ _ _ _ Htr Hg H) as [_ [L X]]. auto.
Qed.

Lemma mcts_promotion_lemma : forall A term disc rl iters g a s1 h tr,
  (forall c, find_kid s1 (kids (nth a (acts g) act0)) = Some c ->
     In (s1, c) (kids (nth a (acts g) act0)) /\
     mcts_advance (fun _ => A) term disc rl iters g a s1 h tr = mcts_runSimulation (fun _ => A) term disc rl iters h (allocate A c) s1 tr /\
     fst (fst (fst (mcts_advance (fun _ => A) term disc rl 0 g a s1 h tr))) = allocate A c) /\
  (find_kid s1 (kids (nth a (acts g) act0)) = None ->
     mcts_advance (fun _ => A) term disc rl iters g a s1 h tr = mcts_fresh (fun _ => A) term disc rl iters s1 h tr).
Proof.
  intros. split.
  - intros c E. split; [apply find_kid_In; exact E|]. unfold mcts_advance. rewrite E.
    split; [reflexivity|]. unfold mcts_runSimulation. destruct (Nat.eqb h 0); reflexivity.
  - intros E. unfold mcts_advance. rewrite E. reflexivity.
Qed.

(* ------------------------------------------------------------------ POMCP ----------------- *)

Lemma pomcp_session_good0 : forall A term disc rl iters ps0 h0 tr0 ops,
  0 < A -> trace_ok A tr0 -> Forall (fun p => trace_ok A (snd p)) ops ->
  tree_all (good A) (pomcp_session A term disc rl iters node0 ((PFresh ps0 h0, tr0) :: ops)).
Proof.
  intros. apply pomcp_session_good; auto. apply good_node0.
Qed.

Lemma pomcp_counts_lemma : forall A term disc rl iters ps0 h0 tr0 ops,
  0 < A -> trace_ok A tr0 -> Forall (fun p => trace_ok A (snd p)) ops ->
  counts_ok (pomcp_session A term disc rl iters node0 ((PFresh ps0 h0, tr0) :: ops)).
Proof. intros. eapply good_split. apply pomcp_session_good0; auto. Qed.

Lemma pomcp_mean_lemma : forall A term disc rl iters ps0 h0 tr0 ops,
  0 < A -> trace_ok A tr0 -> Forall (fun p => trace_ok A (snd p)) ops ->
  mean_ok (pomcp_session A term disc rl iters node0 ((PFresh ps0 h0, tr0) :: ops)).
Proof. intros. eapply good_split. apply pomcp_session_good0; auto. Qed.

Lemma pomcp_return_lemma : forall A term disc rl fuel h d b s tr b' ret tr' st,
  pomcp_simulate A term disc rl (S fuel) h d b s tr = (b', ret, tr', st) ->
  st <= length tr -> ea (fst (next tr)) < length (acts b) ->
  (ret == disc_sum disc (map er (firstn st tr)))%Q /\ tr' = skipn st tr /\
  rets (nth (ea (fst (next tr))) (acts b') act0) = rets (nth (ea (fst (next tr))) (acts b) act0) ++ [ret].
Proof.
  intros A term disc rl fuel h d b s tr b' ret tr' st H Hst Ha.
  destruct (pomcp_simulate_return _ _ _ _ _ _ _ _ _ _ _ _ _ _ H Hst) as [X Y].
  destruct (pomcp_simulate_records _ _ _ _ _ _ _ _ _ _ _ _ _ _ H Ha) as [_ [_ [Z _]]].
  auto.
Qed.

Lemma pomcp_depth_lemma : forall A term disc iters g op tr g' a tr' sts,
  pomcp_op A term disc rl_fixed iters g op tr = (g', a, tr', sts) ->
  Forall (fun st => st <= match op with PFresh _ h => h | PAdvance _ _ h _ => h end) sts.
Proof. intros. eapply pomcp_op_steps; eauto. apply rl_fixed_le. Qed.

Lemma pomcp_depth_refuted_lemma : exists A term disc iters ps h tr g' a tr' sts,
  0 < A /\ trace_ok A tr /\
  pomcp_op A term disc rl_orig iters node0 (PFresh ps h) tr = (g', a, tr', sts) /\
  ~ Forall (fun st => st <= h) sts.
Proof.
  exists 1, (fun _ => false), 1%Q, 1, [0], 1.
  exists [Ev 0 0 0 0 1%Q; Ev 0 0 0 0 1%Q; Ev 0 0 0 0 1%Q].
  eexists. eexists. eexists. exists [3].
  split; [lia|]. split; [repeat constructor|]. split; [vm_compute; reflexivity|].
  intro H. inversion H; subst. lia.
Qed.

Lemma pomcp_action_lemma : forall A term disc rl iters g op tr g' a tr' sts,
  0 < A -> trace_ok A tr -> counts_ok g /\ mean_ok g /\ shape_ok A g ->
  pomcp_op A term disc rl iters g op tr = (g', a, tr', sts) ->
  a < A /\ length (acts g') = A.
Proof.
  intros A term disc rl iters g op tr g' a tr' sts HA Htr Hg H.
  apply good_join in Hg.
  destruct (pomcp_op_good A term disc rl HA _ _ _ _ _ _ _ _ Htr Hg H) as [_ [L X]]. auto.
Qed.

Lemma pomcp_promotion_lemma : forall A term disc rl iters g a o h ps tr,
  (forall c, find_kid o (kids (nth a (acts g) act0)) = Some c -> bel c <> [] ->
     In (o, c) (kids (nth a (acts g) act0)) /\
     pomcp_advance A term disc rl iters g a o h ps tr = pomcp_runSimulation A term disc rl iters h (allocate A c) tr /\
     fst (fst (fst (pomcp_advance A term disc rl 0 g a o h ps tr))) = allocate A c) /\
  (find_kid o (kids (nth a (acts g) act0)) = None ->
     pomcp_advance A term disc rl iters g a o h ps tr = pomcp_fresh A term disc rl iters ps h tr).
Proof.
  intros. split.
  - intros c E Hb. split; [apply find_kid_In; exact E|]. unfold pomcp_advance. rewrite E.
    destruct (bel c) as [|p t] eqn:Eb; [congruence|].
    split; [reflexivity|]. unfold pomcp_runSimulation. destruct (Nat.eqb h 0); reflexivity.
  - intros E. unfold pomcp_advance. rewrite E. reflexivity.
Qed.
