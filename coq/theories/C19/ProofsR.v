(* C19/ProofsR.v — rPOMCP machine: the step lemma and the tree invariant. *)
From Coq Require Import QArith List Arith Bool Lia Lqa.
From AIT Require Import C19.Model C19.Spec C19.Proofs C19.ModelR C19.SpecR.
Import ListNotations.
Local Open Scope nat_scope.

#[local] Opaque Qred.

(* ------------------------------------------------------------------ lists ---------------- *)

Lemma sumn_upd_gen : forall X (f : X -> nat) (d : X) l i x', i < length l ->
  sumn (map f (upd i (fun _ => x') l)) + f (nth i l d) = sumn (map f l) + f x'.
Proof.
  induction l as [|y t IH]; intros [|i] x' H; cbn [length] in H; try lia.
  - cbn [upd map sumn fold_right nth]. lia.
  - cbn [upd map nth]. change (sumn (?x :: ?r)) with (x + sumn r).
    specialize (IH i x' ltac:(lia)). lia.
Qed.

Lemma length_rresize : forall n l, length (rresize n l) = n.
Proof. induction n as [|n IH]; intros [|x t]; cbn [rresize length]; auto. Qed.

Lemma rresize_id : forall l, rresize (length l) l = l.
Proof. induction l as [|x t IH]; cbn [length rresize]; congruence. Qed.

Lemma rresize_nil_all0 : forall n a, In a (rresize n []) -> a = ract0.
Proof. induction n as [|n IH]; intros a H; cbn [rresize In] in H; [destruct H|]. destruct H; auto. Qed.

Lemma rresize_nil_sum : forall n, sumn (map raN (rresize n [])) = 0.
Proof. induction n as [|n IH]; cbn [rresize map sumn fold_right]; auto. Qed.

Lemma rfind_kid_In : forall k l c, rfind_kid k l = Some c -> In (k, c) l.
Proof.
  induction l as [|[k' c'] t IH]; intros c H; cbn [rfind_kid] in H; [discriminate|].
  destruct (Nat.eqb k k') eqn:E.
  - apply Nat.eqb_eq in E. inversion H; subst. left; reflexivity.
  - right; auto.
Qed.

Lemma In_rset_kid : forall k0 c0 l k c,
  In (k, c) (rset_kid k0 c0 l) -> (k = k0 /\ c = c0) \/ In (k, c) l.
Proof.
  induction l as [|[k' c'] t IH]; intros k c H; cbn [rset_kid] in H.
  - destruct H as [H|[]]. inversion H; auto.
  - destruct (Nat.eqb k0 k').
    + destruct H as [H|H]; [inversion H; auto | right; right; exact H].
    + destruct H as [H|H]; [right; left; exact H|].
      apply IH in H. destruct H; [left|right; right]; auto.
Qed.

Definition found_or0 (o : nat) (l : list (nat * rnode)) : rnode :=
  match rfind_kid o l with Some c => c | None => rnode0 end.

Lemma sumk_set : forall o c' l, sumk (rset_kid o c' l) + rN (found_or0 o l) = sumk l + rN c'.
Proof.
  unfold found_or0, sumk. induction l as [|[k' c0] t IH]; cbn [rset_kid rfind_kid].
  - cbn. lia.
  - destruct (Nat.eqb o k').
    + cbn [map snd]. change (sumn (?x :: ?r)) with (x + sumn r). lia.
    + cbn [map snd]. change (sumn (?x :: ?r)) with (x + sumn r). lia.
Qed.

(* ------------------------------------------------------------------ tracking belief ------- *)

Lemma tcount_app0 : forall t s, tcount (t ++ [(s, (0, 0%Q))]) = tcount t.
Proof.
  unfold tcount. induction t as [|x r IH]; intros s; cbn [app map fst snd]; [reflexivity|].
  change (sumn (?a :: ?b)) with (a + sumn b). rewrite IH. reflexivity.
Qed.

Lemma tcount_touch : forall s t, tcount (ttouch s t) = tcount t.
Proof. intros. unfold ttouch. destruct (tfind s t); [reflexivity | apply tcount_app0]. Qed.

Lemma tfind_app_miss : forall s t, tfind s t = None -> tfind s (t ++ [(s, (0, 0%Q))]) = Some (0, 0%Q).
Proof.
  induction t as [|[s' v] r IH]; intros H; cbn [app tfind] in *.
  - rewrite Nat.eqb_refl. reflexivity.
  - destruct (Nat.eqb s s'); [discriminate | auto].
Qed.

Lemma tfind_touch : forall s t, exists v, tfind s (ttouch s t) = Some v.
Proof.
  intros. unfold ttouch. destruct (tfind s t) eqn:E; [eauto|].
  exists (0, 0%Q). apply tfind_app_miss. exact E.
Qed.

Lemma tcount_set : forall s v v' t, tfind s t = Some v ->
  tcount (tset s v' t) + fst v = tcount t + fst v'.
Proof.
  unfold tcount. induction t as [|[s' w] r IH]; intros H; cbn [tfind tset] in *; [discriminate|].
  destruct (Nat.eqb s s').
  - inversion H; subst. cbn [map fst snd]. change (sumn (?a :: ?b)) with (a + sumn b). lia.
  - cbn [map fst snd]. change (sumn (?a :: ?b)) with (a + sumn b). specialize (IH H). lia.
Qed.

Section RProofs.
  Variable A : nat.
  Variable term : nat -> bool.
  Variable disc : Q.
  Variable k : nat.
  Variable entropy : bool.
  Variable plogp : nat -> nat -> Q.
  Hypothesis HA : 0 < A.

  Notation upd_node := (r_update entropy plogp).
  Notation sim := (r_simulate A term disc k entropy plogp).

  (* updateBeliefAndKnowledge adds exactly one particle and touches nothing else the invariants see *)
  Lemma r_update_fields : forall n s,
    rN (upd_node n s) = rN n /\ rleaf (upd_node n s) = rleaf n /\ racts (upd_node n s) = racts n /\
    tcount (rtrack (upd_node n s)) = S (tcount (rtrack n)).
  Proof.
    clear HA. intros n s. unfold r_update. destruct entropy.
    - destruct (tget s (ttouch s (rtrack n))) as [c ne] eqn:E. cbn [rN rleaf racts rtrack].
      repeat split.
      destruct (tfind_touch s (rtrack n)) as [v Hv].
      pose proof (tcount_set s v (S c, plogp (S c) (S (rN n))) _ Hv) as X.
      unfold tget in E. rewrite Hv in E. subst v. cbn [fst] in X.
      rewrite tcount_touch in X. lia.
    - cbn [rN rleaf racts rtrack]. repeat split.
      rewrite tcount_touch.
      destruct (tfind_touch s (rtrack n)) as [v Hv].
      pose proof (tcount_set s v (S (fst (tget s (ttouch s (rtrack n)))), 0%Q) _ Hv) as X.
      unfold tget in X. unfold tget. rewrite Hv in *. cbn [fst] in X.
      rewrite tcount_touch in X. lia.
  Qed.

  (* one unfolding of simulate, exposing only what the invariants need *)
  Lemma r_simulate_step : forall fuel h d b s tr b' ret tr' st,
    sim (S fuel) h d b s tr = (b', ret, tr', st) ->
    let e := fst (next tr) in let tr1 := snd (next tr) in
    let aNode := nth (ea e) (racts b) ract0 in
    let ot := found_or0 (eo e) (rkids aNode) in
    let newNode := match rfind_kid (eo e) (rkids aNode) with Some _ => false | None => true end in
    let ot1 := upd_node ot (es1 e) in
    exists ot2 x st0,
      (if (d + 1 <? h) && negb (term (es1 e)) && negb newNode
       then sim fuel h (d + 1) (r_allocate A ot1) (es1 e) tr1
       else (r_leaf_visit ot1, (if h <=? d + 1 then rkm (r_leaf_visit ot1) else 0%Q), tr1, 0))
      = (ot2, x, tr', st0) /\
      st = S st0 /\ rN b' = S (rN b) /\ rleaf b' = rleaf b /\ rtrack b' = rtrack b /\
      racts b' = upd (ea e) (fun _ => ract_update aNode x (rset_kid (eo e) ot2 (rkids aNode))) (racts b).
  Proof.
    clear HA. intros fuel h d b s tr b' ret tr' st H. cbn [r_simulate] in H.
    destruct (next tr) as [e tr1]. cbn [fst snd]. unfold found_or0.
    destruct (rfind_kid (eo e) (rkids (nth (ea e) (racts b) ract0))) as [c|].
    - destruct ((d + 1 <? h) && negb (term (es1 e)) && negb false) eqn:C.
      + destruct (sim fuel h (d + 1) (r_allocate A (upd_node c (es1 e))) (es1 e) tr1) as [[[ot2 x] tr2] st0] eqn:E.
        destruct (Nat.eqb d 0).
        * inversion H; subst b' ret tr' st. exists ot2, x, st0. repeat split; reflexivity.
        * match type of H with context [let '(_, _) := ?X in _] => destruct X as [av' best'] end.
          inversion H; subst b' ret tr' st. exists ot2, x, st0. repeat split; reflexivity.
      + destruct (Nat.eqb d 0).
        * inversion H; subst b' ret tr' st. eexists; eexists; eexists. repeat split; reflexivity.
        * match type of H with context [let '(_, _) := ?X in _] => destruct X as [av' best'] end.
          inversion H; subst b' ret tr' st. eexists; eexists; eexists. repeat split; reflexivity.
    - destruct ((d + 1 <? h) && negb (term (es1 e)) && negb true) eqn:C.
      + destruct (sim fuel h (d + 1) (r_allocate A (upd_node rnode0 (es1 e))) (es1 e) tr1) as [[[ot2 x] tr2] st0] eqn:E.
        destruct (Nat.eqb d 0).
        * inversion H; subst b' ret tr' st. exists ot2, x, st0. repeat split; reflexivity.
        * match type of H with context [let '(_, _) := ?X in _] => destruct X as [av' best'] end.
          inversion H; subst b' ret tr' st. exists ot2, x, st0. repeat split; reflexivity.
      + destruct (Nat.eqb d 0).
        * inversion H; subst b' ret tr' st. eexists; eexists; eexists. repeat split; reflexivity.
        * match type of H with context [let '(_, _) := ?X in _] => destruct X as [av' best'] end.
          inversion H; subst b' ret tr' st. eexists; eexists; eexists. repeat split; reflexivity.
  Qed.
End RProofs.
