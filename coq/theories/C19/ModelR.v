(* C19/ModelR.v — rPOMCP (both UseEntropy variants) as a bookkeeping machine driven by a trace.
   NO proofs here.  Same conventions as C19/Model.v: one trace event per sampleSOR call; [ea] = the
   action chosen by findBestBonusA (UCB, not modelled), [es1]/[eo] = the model's outcome (the reward
   is ignored by rPOMCP), [es] of the first event of a simulation = graph_.sampleBelief().

   The knowledge measure is the only numeric ingredient:
     max-of-belief (UseEntropy = false): trackBelief_[maxS_].N / (N+1)      — rational, modelled exactly
     entropy       (UseEntropy = true) : sum of p*log(p) terms               — [plogp num den] is an
       external function (Section variable, DESIGN §2.4); the driver instantiates it with the same
       double computation as the C++.  No theorem depends on any property of [plogp].

   Ghost fields (not in the C++, never compared): [rrets] = the data points averaged into an action;
   [rleaf] = how many times a belief node was visited as a leaf (N += 1 without descending). *)
From Coq Require Import QArith List Arith Bool.
From AIT Require Import C19.Model.
Import ListNotations.
Local Open Scope nat_scope.

(* src: rPOMCPGraph.hpp:TrackBelief = unordered_map<size_t, BeliefParticle>: state -> (N, negativeEntropy) *)
Definition track := list (nat * (nat * Q)).

Fixpoint tfind (s : nat) (t : track) : option (nat * Q) :=
  match t with
  | [] => None
  | (s', v) :: r => if Nat.eqb s s' then Some v else tfind s r
  end.
Definition tget (s : nat) (t : track) : nat * Q :=
  match tfind s t with Some v => v | None => (0, 0%Q) end.
Fixpoint tset (s : nat) (v : nat * Q) (t : track) : track :=
  match t with
  | [] => [(s, v)]
  | (s', v') :: r => if Nat.eqb s s' then (s, v) :: r else (s', v') :: tset s v r
  end.
(* unordered_map::operator[] value-initialises a missing entry: BeliefParticle{N = 0, negativeEntropy = 0} *)
Definition ttouch (s : nat) (t : track) : track :=
  match tfind s t with Some _ => t | None => t ++ [(s, (0, 0%Q))] end.

(* src: rPOMCPGraph.hpp:BeliefNode / ActionNode *)
Inductive rnode :=
  RNode (rN : nat) (rV rAV : Q) (rbest : nat) (rleaf : nat) (rtrack : track) (rmaxS : nat) (rkm : Q)
        (racts : list ract)
with ract := RAct (raN : nat) (raV : Q) (rrets : list Q) (rkids : list (nat * rnode)).

Definition rN (n : rnode) := match n with RNode x _ _ _ _ _ _ _ _ => x end.
Definition rV (n : rnode) := match n with RNode _ x _ _ _ _ _ _ _ => x end.
Definition rAV (n : rnode) := match n with RNode _ _ x _ _ _ _ _ _ => x end.
Definition rbest (n : rnode) := match n with RNode _ _ _ x _ _ _ _ _ => x end.
Definition rleaf (n : rnode) := match n with RNode _ _ _ _ x _ _ _ _ => x end.
Definition rtrack (n : rnode) := match n with RNode _ _ _ _ _ x _ _ _ => x end.
Definition rmaxS (n : rnode) := match n with RNode _ _ _ _ _ _ x _ _ => x end.
Definition rkm (n : rnode) := match n with RNode _ _ _ _ _ _ _ x _ => x end.
Definition racts (n : rnode) := match n with RNode _ _ _ _ _ _ _ _ x => x end.
Definition raN (a : ract) := match a with RAct x _ _ _ => x end.
Definition raV (a : ract) := match a with RAct _ x _ _ => x end.
Definition rrets (a : ract) := match a with RAct _ _ x _ => x end.
Definition rkids (a : ract) := match a with RAct _ _ _ x => x end.

Definition ract0 : ract := RAct 0 0%Q [] [].
(* BeliefNode(): N(0), V(0.0), actionsV(0.0), bestAction(0), knowledgeMeasure_(0.0), maxS_ = 0 *)
Definition rnode0 : rnode := RNode 0 0%Q 0%Q 0 0 [] 0 0%Q [].

Fixpoint rresize (n : nat) (l : list ract) : list ract :=
  match n with
  | 0 => []
  | S n' => match l with [] => ract0 :: rresize n' [] | x :: t => x :: rresize n' t end
  end.

Fixpoint rfind_kid (k : nat) (l : list (nat * rnode)) : option rnode :=
  match l with
  | [] => None
  | (k', c) :: t => if Nat.eqb k k' then Some c else rfind_kid k t
  end.
Fixpoint rset_kid (k : nat) (c : rnode) (l : list (nat * rnode)) : list (nat * rnode) :=
  match l with
  | [] => [(k, c)]
  | (k', c') :: t => if Nat.eqb k k' then (k, c) :: t else (k', c') :: rset_kid k c t
  end.

Definition qnat (n : nat) : Q := inject_Z (Z.of_nat n).

(* findBestA = std::max_element with (lhs.V < rhs.V) over the action values: the first maximum *)
Fixpoint best_from (best : nat) (bestV : Q) (i : nat) (l : list Q) : nat * Q :=
  match l with
  | [] => (best, bestV)
  | x :: t => if Qlt_le_dec bestV x then best_from i x (S i) t else best_from best bestV (S i) t
  end.
Definition find_best (l : list Q) : nat * Q :=
  match l with [] => (0, 0%Q) | x :: t => best_from 0 x 1 t end.

(* the sampling belief of the head node: (state, count) pairs *)
Definition sbelief := list (nat * nat).

Section RMachine.
  Variable A : nat.                       (* model_.getA() *)
  Variable term : nat -> bool.            (* model_.isTerminal *)
  Variable disc : Q.                      (* model_.getDiscount() *)
  Variable k : nat.                       (* k_ : visits before a node switches to MAX *)
  Variable entropy : bool.                (* UseEntropy *)
  Variable plogp : nat -> nat -> Q.       (* p * log(p) for p = num/den (entropy variant only) *)

  (* src: rPOMCPGraph.hpp:BeliefNode<UseEntropy>::updateBeliefAndKnowledge(s) *)
  Definition r_update (n : rnode) (s : nat) : rnode :=
    if entropy then
      let t0 := ttouch s (rtrack n) in                    (* trackBelief_[s] *)
      let '(c, ne) := tget s t0 in
      let km1 := (rkm n - ne)%Q in                        (* knowledgeMeasure_ -= negativeEntropy *)
      let c' := S c in                                    (* trackBelief_[s].N += 1 *)
      let newE := plogp c' (S (rN n)) in                  (* p = N_s / (N+1); p * log(p) *)
      RNode (rN n) (rV n) (rAV n) (rbest n) (rleaf n) (tset s (c', newE) t0) (rmaxS n)
            (Qred (km1 + newE)) (racts n)
    else
      let t0 := ttouch s (rtrack n) in
      let c' := S (fst (tget s t0)) in                    (* trackBelief_[s].N += 1 *)
      let t1 := tset s (c', 0%Q) t0 in
      let t2 := ttouch (rmaxS n) t1 in                    (* trackBelief_[maxS_] (may insert a 0 entry) *)
      let maxS' := if fst (tget (rmaxS n) t2) <? c' then s else rmaxS n in
      RNode (rN n) (rV n) (rAV n) (rbest n) (rleaf n) t2 maxS'
            (Qred (qnat (fst (tget maxS' t2)) / qnat (S (rN n)))) (racts n).

  (* aNode.N += 1; aNode.V += (x - aNode.V) / N *)
  Definition ract_update (aNode : ract) (x : Q) (kids' : list (nat * rnode)) : ract :=
    let an' := S (raN aNode) in
    RAct an' (Qred (raV aNode + (x - raV aNode) / qnat an'))%Q (rrets aNode ++ [x]) kids'.

  (* ot->second.children.resize(A) *)
  Definition r_allocate (n : rnode) : rnode :=
    RNode (rN n) (rV n) (rAV n) (rbest n) (rleaf n) (rtrack n) (rmaxS n) (rkm n) (rresize A (racts n)).

  (* ot->second.N += 1  (a leaf visit) *)
  Definition r_leaf_visit (n : rnode) : rnode :=
    RNode (S (rN n)) (rV n) (rAV n) (rbest n) (S (rleaf n)) (rtrack n) (rmaxS n) (rkm n) (racts n).

  (* src: rPOMCP.hpp:maxBeliefNodeUpdate.  [av = None] stands for HUGE_VAL: `aNode.V >= HUGE_VAL` is
     false for every finite aNode.V, and HUGE_VAL is only ever stored together with bestAction = a. *)
  Definition r_maxUpdate (av : option Q) (best : nat) (aV : Q) (a : nat) (acts : list ract) : Q * nat :=
    let ge := match av with Some x => if Qlt_le_dec aV x then false else true | None => false end in
    if ge then (aV, a)
    else if Nat.eqb a best then
      let '(i, v) := find_best (map raV acts) in (v, i)
    else (match av with Some x => x | None => aV end, best).

  (* src: rPOMCP.hpp:simulate.  Returns (node, value handed to the caller, rest of trace, #sampleSOR calls) *)
  Fixpoint r_simulate (fuel maxDepth depth : nat) (b : rnode) (s : nat) (tr : trace)
    : rnode * Q * trace * nat :=
    match fuel with
    | 0 => (b, 0%Q, tr, 0)
    | S fuel' =>
      let n1 := S (rN b) in                                    (* b.N++ *)
      let (e, tr1) := next tr in
      let a := ea e in                                         (* findBestBonusA(...) *)
      let s1 := es1 e in let o := eo e in                      (* model_.sampleSOR(s, a), reward ignored *)
      let aNode := nth a (racts b) ract0 in
      let '(ot, newNode) :=
        match rfind_kid o (rkids aNode) with
        | None => (rnode0, true)                               (* insert(make_pair(o, BNode())) *)
        | Some c => (c, false)
        end in
      let ot1 := r_update ot s1 in                             (* updateBeliefAndKnowledge(s1) *)
      let '(ot2, x, tr2, st) :=
        if (depth + 1 <? maxDepth) && negb (term s1) && negb newNode then
          r_simulate fuel' maxDepth (depth + 1) (r_allocate ot1) s1 tr1
        else
          let ot2 := r_leaf_visit ot1 in
          (ot2, if maxDepth <=? depth + 1 then rkm ot2 else 0%Q, tr1, 0) in
      let aNode' := ract_update aNode x (rset_kid o ot2 (rkids aNode)) in
      let acts' := upd a (fun _ => aNode') (racts b) in
      if Nat.eqb depth 0 then
        (RNode n1 (rV b) (rAV b) (rbest b) (rleaf b) (rtrack b) (rmaxS b) (rkm b) acts', 0%Q, tr2, S st)
      else
        let '(av', best') :=
          if k <=? n1 then
            let '(av0, best0) := if Nat.eqb n1 k then (None, a) else (Some (rAV b), rbest b) in
            r_maxUpdate av0 best0 (raV aNode') a acts'
          else (Qred (rAV b + (x - rAV b) / qnat n1)%Q, rbest b) in
        let v' := Qred (disc * av' + rkm b)%Q in
        let ret := Qred (qnat (n1 - 1) * (v' - rV b) + v')%Q in
        (RNode n1 v' av' best' (rleaf b) (rtrack b) (rmaxS b) (rkm b) acts', ret, tr2, S st)
    end.

  (* src: rPOMCP.hpp:runSimulation *)
  Fixpoint r_loop (iters h : nat) (g : rnode) (tr : trace) : rnode * trace * list nat :=
    match iters with
    | 0 => (g, tr, [])
    | S i' =>
      let '(g1, _, tr1, st) := r_simulate h h 0 g (root_particle tr) tr in
      let '(g2, tr2, sts) := r_loop i' h g1 tr1 in
      (g2, tr2, st :: sts)
    end.

  Definition r_runSimulation (iters h : nat) (g : rnode) (tr : trace) : rnode * nat * trace * list nat :=
    if Nat.eqb h 0 then (g, 0, tr, [])
    else let '(g', tr', sts) := r_loop iters h g tr in
         let '(bestA, bestV) := find_best (map raV (racts g')) in
         (* graph_.V = graph_.children[bestA].V *)
         (RNode (rN g') bestV (rAV g') (rbest g') (rleaf g') (rtrack g') (rmaxS g') (rkm g') (racts g'),
          bestA, tr', sts).

  (* src: rPOMCPGraph.hpp:HeadBeliefNode(A, beliefSize, b, rand) + rPOMCP.hpp:sampleAction(b, horizon).
     [sb] = the sampled particle counts, an input. *)
  Definition r_fresh (iters : nat) (sb : sbelief) (h : nat) (tr : trace) : sbelief * (rnode * nat * trace * list nat) :=
    (sb, r_runSimulation iters h (r_allocate rnode0) tr).

  (* src: HeadBeliefNode(A, BeliefNode&&, rand): the tracking belief becomes the sampling belief
     (every entry, also those with count 0), and is cleared. *)
  Definition r_promote (c : rnode) : sbelief * rnode :=
    (map (fun p => (fst p, fst (snd p))) (rtrack c),
     RNode (rN c) (rV c) (rAV c) (rbest c) (rleaf c) [] (rmaxS c) (rkm c) (rresize A (racts c))).

  (* src: rPOMCP.hpp:sampleAction(a, o, horizon).  [sb] is only used on a restart. *)
  Definition r_advance (iters : nat) (g : rnode) (a o h : nat) (sb : sbelief) (tr : trace) :=
    match rfind_kid o (rkids (nth a (racts g) ract0)) with
    | None => r_fresh iters sb h tr
    | Some c =>
      let '(sb', root) := r_promote c in
      match sb' with
      | [] => r_fresh iters sb h tr                             (* isSampleBeliefEmpty() *)
      | _ :: _ => (sb', r_runSimulation iters h root tr)
      end
    end.
End RMachine.

Inductive rop := RFresh (sb : sbelief) (h : nat) | RAdvance (a o h : nat) (sb : sbelief).

Definition r_op A term disc k entropy plogp iters (g : rnode) (op : rop) (tr : trace) :=
  match op with
  | RFresh sb h => r_fresh A term disc k entropy plogp iters sb h tr
  | RAdvance a o h sb => r_advance A term disc k entropy plogp iters g a o h sb tr
  end.

Fixpoint r_session A term disc k entropy plogp iters (g : rnode) (ops : list (rop * trace)) : rnode :=
  match ops with
  | [] => g
  | (op, tr) :: t =>
    let '(_, (g', _, _, _)) := r_op A term disc k entropy plogp iters g op tr in
    r_session A term disc k entropy plogp iters g' t
  end.
