(* C19/ProofsR8.v — round-3 statements exported by Properties_C19.v. *)
From Coq Require Import QArith List Arith Bool Lia.
From AIT Require Import C19.Model C19.Spec C19.ModelR C19.SpecR C19.ProofsR C19.ProofsR2 C19.ProofsR3 C19.ProofsR6.
Import ListNotations.
Local Open Scope nat_scope.

Lemma r_particles_full_lemma : forall A term disc k entropy plogp pool iters sb0 g op tr sb' g' a tr' sts,
  0 < A -> r_coh_op A term disc k entropy plogp iters g op tr = true ->
  trace_ok A tr -> incl tr pool ->
  rcounts_ok g /\ rmean_ok g /\ rshape_ok A g /\ rpart_ok g -> rfull pool (sbpos sb0) g ->
  r_op A term disc k entropy plogp iters g op tr = (sb', (g', a, tr', sts)) ->
  rfull pool (sbpos sb') g'.
Proof.
  intros A term disc k entropy plogp pool iters sb0 g op tr sb' g' a tr' sts HA Hc Htr Hin Hg Hp H.
  apply rgood_join in Hg. eapply r_op_full; eauto.
Qed.
