(* C19/ProofsPOMCP.v — POMCP: invariant preservation, returns, horizon, fuel, sessions. *)
From Coq Require Import QArith List Arith Bool Lia Lqa.
From AIT Require Import C19.Model C19.Spec C19.Proofs.
Import ListNotations.
Local Open Scope nat_scope.

#[local] Opaque Qred.

Section POMCP.
  Variable A : nat.
  Variable term : nat -> bool.
  Variable disc : Q.
  Variable rl : nat -> nat -> nat.
  Hypothesis HA : 0 < A.

  Definition pushed (c : node) (s1 : nat) : node := Node (nN c) (bel c ++ [s1]) (acts c).

  Lemma pomcp_simulate_good : forall fuel h d b s tr b' ret tr' st,
    trace_ok A tr -> tree_all (good A) b -> length (acts b) = A ->
    pomcp_simulate A term disc rl fuel h d b s tr = (b', ret, tr', st) ->
    tree_all (good A) b' /\ length (acts b') = A /\ trace_ok A tr'.
  Proof.
    induction fuel as [|fuel IH]; intros h d b s tr b' ret tr' st Htr Hg Hlen H; cbn [pomcp_simulate] in H.
    - inversion H; subst b' ret tr' st; auto.
    - destruct (next tr) as [e tr1] eqn:En.
      destruct (next_trace_ok _ _ _ _ HA Htr En) as [Hea Htr1].
      destruct (find_kid (eo e) (kids (nth (ea e) (acts b) act0))) as [c|] eqn:Ef.
      + assert (Hc : tree_all (good A) c).
        { eapply old_kid_good; [exact Hg | rewrite Hlen; exact Hea | apply find_kid_In; exact Ef]. }
        assert (Hc1 : tree_all (good A) (pushed c (es1 e))) by (apply good_set_bel; exact Hc).
        fold (pushed c (es1 e)) in H.
        destruct ((d + 1 <? h) && negb (term (es1 e))) eqn:Eif.
        * destruct (pomcp_simulate A term disc rl fuel h (d + 1) (allocate A (pushed c (es1 e))) (es1 e) tr1) as [[[c' fr] tr2] st0] eqn:Er.
          inversion H; subst b' ret tr' st; clear H.
          destruct (allocate_good A _ Hc1) as [Hgc Hlc].
          destruct (IH _ _ _ _ _ _ _ _ _ Htr1 Hgc Hlc Er) as [Hgc' [_ Htr2]].
          split; [|split; [cbn [acts]; rewrite length_upd; exact Hlen | exact Htr2]].
          apply rebuild_good; auto.
          apply set_kid_good; auto. rewrite Hlen; exact Hea.
        * inversion H; subst b' ret tr' st; clear H.
          split; [|split; [cbn [acts]; rewrite length_upd; exact Hlen | exact Htr1]].
          apply rebuild_good; auto.
          apply set_kid_good; auto. rewrite Hlen; exact Hea.
      + destruct (rollout term disc (rl h d) (es1 e) 1 0 tr1) as [[fr tr2] st0] eqn:Er.
        inversion H; subst b' ret tr' st; clear H.
        split; [|split; [cbn [acts]; rewrite length_upd; exact Hlen | eapply rollout_trace_ok; eauto]].
        apply rebuild_good; auto.
        apply set_kid_good; auto; [rewrite Hlen; exact Hea | apply good_leaf].
  Qed.

  (* --- horizon --- *)
  Lemma pomcp_simulate_steps : forall fuel h d b s tr b' ret tr' st,
    (forall h d, rl h d <= h - d - 1) -> d < h ->
    pomcp_simulate A term disc rl fuel h d b s tr = (b', ret, tr', st) -> st <= h - d.
  Proof.
    clear HA.
    induction fuel as [|fuel IH]; intros h d b s tr b' ret tr' st Hrl Hd H; cbn [pomcp_simulate] in H.
    - inversion H; lia.
    - destruct (next tr) as [e tr1] eqn:En.
      destruct (find_kid (eo e) (kids (nth (ea e) (acts b) act0))) as [c|] eqn:Ef.
      + fold (pushed c (es1 e)) in H.
        destruct ((d + 1 <? h) && negb (term (es1 e))) eqn:Eif.
        * apply andb_prop in Eif. destruct Eif as [Elt _]. apply Nat.ltb_lt in Elt.
          destruct (pomcp_simulate A term disc rl fuel h (d + 1) (allocate A (pushed c (es1 e))) (es1 e) tr1) as [[[c' fr] tr2] st0] eqn:Er.
          inversion H; subst st. apply IH in Er; auto. lia.
        * inversion H; lia.
      + destruct (rollout term disc (rl h d) (es1 e) 1 0 tr1) as [[fr tr2] st0] eqn:Er.
        inversion H; subst st. apply rollout_steps_le in Er. specialize (Hrl h d). lia.
  Qed.

  (* --- returns --- *)
  Lemma pomcp_simulate_return : forall fuel h d b s tr b' ret tr' st,
    pomcp_simulate A term disc rl fuel h d b s tr = (b', ret, tr', st) -> st <= length tr ->
    (ret == disc_sum disc (map er (firstn st tr)))%Q /\ tr' = skipn st tr.
  Proof.
    clear HA.
    induction fuel as [|fuel IH]; intros h d b s tr b' ret tr' st H Hst; cbn [pomcp_simulate] in H.
    - inversion H; subst. cbn [firstn map disc_sum skipn]. split; reflexivity.
    - destruct tr as [|e tr1].
      { cbn [next] in H.
        destruct (find_kid (eo ev0) (kids (nth (ea ev0) (acts b) act0))) as [c|].
        - destruct ((d + 1 <? h) && negb (term (es1 ev0))).
          + match type of H with context [pomcp_simulate ?a ?b ?c ?d ?e ?f ?g ?h ?i ?j] =>
              destruct (pomcp_simulate a b c d e f g h i j) as [[[c' fr] tr2] st0] end.
            inversion H; subst st. cbn [length] in Hst; lia.
          + inversion H; subst st. cbn [length] in Hst; lia.
        - destruct (rollout term disc (rl h d) (es1 ev0) 1 0 []) as [[fr tr2] st0].
          inversion H; subst st. cbn [length] in Hst; lia. }
      cbn [next] in H. cbn [length] in Hst.
      destruct (find_kid (eo e) (kids (nth (ea e) (acts b) act0))) as [c|] eqn:Ef.
      + fold (pushed c (es1 e)) in H.
        destruct ((d + 1 <? h) && negb (term (es1 e))) eqn:Eif.
        * destruct (pomcp_simulate A term disc rl fuel h (d + 1) (allocate A (pushed c (es1 e))) (es1 e) tr1) as [[[c' fr] tr2] st0] eqn:Er.
          inversion H; subst ret tr' st; clear H.
          destruct (IH _ _ _ _ _ _ _ _ _ Er ltac:(lia)) as [Hr Ht].
          cbn [firstn map disc_sum skipn]. split; [|exact Ht].
          rewrite Qred_correct, Hr. reflexivity.
        * inversion H; subst ret tr' st; clear H.
          cbn [firstn map disc_sum skipn]. split; [|reflexivity].
          rewrite Qred_correct. ring.
      + destruct (rollout term disc (rl h d) (es1 e) 1 0 tr1) as [[fr tr2] st0] eqn:Er.
        inversion H; subst ret tr' st; clear H.
        destruct (rollout_spec _ _ _ _ _ _ _ _ _ _ Er ltac:(lia)) as [Hr Ht].
        cbn [firstn map disc_sum skipn]. split; [|exact Ht].
        rewrite Qred_correct, Hr. ring.
  Qed.

  Lemma pomcp_simulate_records : forall fuel h d b s tr b' ret tr' st,
    pomcp_simulate A term disc rl (S fuel) h d b s tr = (b', ret, tr', st) ->
    let a := ea (fst (next tr)) in
    a < length (acts b) ->
    nN b' = S (nN b) /\ bel b' = bel b /\
    rets (nth a (acts b') act0) = rets (nth a (acts b) act0) ++ [ret] /\
    aN (nth a (acts b') act0) = S (aN (nth a (acts b) act0)).
  Proof.
    clear HA.
    intros fuel h d b s tr b' ret tr' st H a Ha. subst a. cbn [pomcp_simulate] in H.
    destruct (next tr) as [e tr1] eqn:En. cbn [fst] in *.
    destruct (find_kid (eo e) (kids (nth (ea e) (acts b) act0))) as [c|].
    - fold (pushed c (es1 e)) in H.
      destruct ((d + 1 <? h) && negb (term (es1 e))).
      + destruct (pomcp_simulate A term disc rl fuel h (d + 1) (allocate A (pushed c (es1 e))) (es1 e) tr1) as [[[c' fr] tr2] st0].
        inversion H; subst b' ret tr' st; clear H. cbn [nN acts bel].
        rewrite (nth_upd_same _ _ act0) by exact Ha. cbn [act_update rets aN]. auto.
      + inversion H; subst b' ret tr' st; clear H. cbn [nN acts bel].
        rewrite (nth_upd_same _ _ act0) by exact Ha. cbn [act_update rets aN]. auto.
    - destruct (rollout term disc (rl h d) (es1 e) 1 0 tr1) as [[fr tr2] st0].
      inversion H; subst b' ret tr' st; clear H. cbn [nN acts bel].
      rewrite (nth_upd_same _ _ act0) by exact Ha. cbn [act_update rets aN]. auto.
  Qed.

  Lemma pomcp_fuel_irrelevant : forall f1 f2 h d b s tr,
    d < h -> h - d <= f1 -> h - d <= f2 ->
    pomcp_simulate A term disc rl f1 h d b s tr = pomcp_simulate A term disc rl f2 h d b s tr.
  Proof.
    clear HA.
    induction f1 as [|f1 IH]; intros f2 h d b s tr Hd H1 H2; [lia|].
    destruct f2 as [|f2]; [lia|]. cbn [pomcp_simulate].
    destruct (next tr) as [e tr1].
    destruct (find_kid (eo e) (kids (nth (ea e) (acts b) act0))) as [c|]; [|reflexivity].
    destruct ((d + 1 <? h) && negb (term (es1 e))) eqn:Eif; [|reflexivity].
    apply andb_prop in Eif. destruct Eif as [Elt _]. apply Nat.ltb_lt in Elt.
    rewrite (IH f2 h (d + 1)) by lia. reflexivity.
  Qed.

  (* --- loop, runSimulation, sampleAction --- *)
  Lemma pomcp_loop_good : forall iters h g tr g' tr' sts,
    0 < h -> trace_ok A tr -> tree_all (good A) g -> length (acts g) = A ->
    pomcp_loop A term disc rl iters h g tr = (g', tr', sts) ->
    tree_all (good A) g' /\ length (acts g') = A /\ trace_ok A tr' /\ bel g' = bel g.
  Proof.
    induction iters as [|i IH]; intros h g tr g' tr' sts Hh Htr Hg Hlen H; cbn [pomcp_loop] in H.
    - inversion H; subst g' tr' sts; auto.
    - destruct (pomcp_simulate A term disc rl h h 0 g (root_particle tr) tr) as [[[g1 r1] tr1] st1] eqn:E1.
      destruct (pomcp_loop A term disc rl i h g1 tr1) as [[g2 tr2] sts2] eqn:E2.
      inversion H; subst g' tr' sts; clear H.
      destruct (pomcp_simulate_good _ _ _ _ _ _ _ _ _ _ Htr Hg Hlen E1) as [Hg1 [Hl1 Ht1]].
      destruct (IH _ _ _ _ _ _ Hh Ht1 Hg1 Hl1 E2) as [G [L [T B]]].
      split; [exact G|split; [exact L|split; [exact T|]]]. rewrite B.
      destruct h as [|h']; [lia|].
      assert (Ha : ea (fst (next tr)) < length (acts g)).
      { rewrite Hlen. destruct (next tr) as [e0 t0] eqn:En. cbn [fst].
        destruct (next_trace_ok _ _ _ _ HA Htr En) as [X _]. exact X. }
      destruct (pomcp_simulate_records _ _ _ _ _ _ _ _ _ _ E1 Ha) as [_ [Hb _]]. exact Hb.
  Qed.

  Lemma pomcp_loop_steps : forall iters h g tr g' tr' sts,
    (forall h d, rl h d <= h - d - 1) -> 0 < h ->
    pomcp_loop A term disc rl iters h g tr = (g', tr', sts) ->
    Forall (fun st => st <= h) sts /\ length sts = iters.
  Proof.
    clear HA.
    induction iters as [|i IH]; intros h g tr g' tr' sts Hrl Hh H; cbn [pomcp_loop] in H.
    - inversion H; subst; split; [constructor|reflexivity].
    - destruct (pomcp_simulate A term disc rl h h 0 g (root_particle tr) tr) as [[[g1 r1] tr1] st1] eqn:E1.
      destruct (pomcp_loop A term disc rl i h g1 tr1) as [[g2 tr2] sts2] eqn:E2.
      inversion H; subst g' tr' sts; clear H.
      apply pomcp_simulate_steps in E1; auto. destruct (IH _ _ _ _ _ _ Hrl Hh E2) as [F L].
      split; [constructor; [lia|exact F] | cbn [length]; lia].
  Qed.

  Lemma pomcp_run_good : forall iters h g tr g' a tr' sts,
    trace_ok A tr -> tree_all (good A) g -> length (acts g) = A ->
    pomcp_runSimulation A term disc rl iters h g tr = (g', a, tr', sts) ->
    tree_all (good A) g' /\ length (acts g') = A /\ a < A /\ bel g' = bel g.
  Proof.
    intros iters h g tr g' a tr' sts Htr Hg Hlen H. unfold pomcp_runSimulation in H.
    destruct (Nat.eqb h 0) eqn:Eh.
    - inversion H; subst g' a tr' sts. auto.
    - apply Nat.eqb_neq in Eh.
      destruct (pomcp_loop A term disc rl iters h g tr) as [[g2 tr2] sts2] eqn:E2.
      inversion H; subst g' a tr' sts; clear H.
      assert (Hh : 0 < h) by lia.
      destruct (pomcp_loop_good _ _ _ _ _ _ _ Hh Htr Hg Hlen E2) as [Hg2 [Hl2 [_ Hb]]].
      split; [exact Hg2|split; [exact Hl2|split; [|exact Hb]]].
      rewrite <- Hl2. apply findBestA_lt. intro E. rewrite E in Hl2. cbn [length] in Hl2. lia.
  Qed.

  Lemma pomcp_run_steps : forall iters h g tr g' a tr' sts,
    (forall h d, rl h d <= h - d - 1) ->
    pomcp_runSimulation A term disc rl iters h g tr = (g', a, tr', sts) ->
    Forall (fun st => st <= h) sts.
  Proof.
    clear HA.
    intros iters h g tr g' a tr' sts Hrl H. unfold pomcp_runSimulation in H.
    destruct (Nat.eqb h 0) eqn:Eh.
    - inversion H; constructor.
    - apply Nat.eqb_neq in Eh.
      destruct (pomcp_loop A term disc rl iters h g tr) as [[g2 tr2] sts2] eqn:E2.
      inversion H; subst g' a tr' sts; clear H.
      eapply pomcp_loop_steps; eauto. lia.
  Qed.

  Lemma good_fresh_root : forall ps, tree_all (good A) (Node 0 ps (resize A [])) /\ length (acts (Node 0 ps (resize A []))) = A.
  Proof.
    intros ps. pose proof (allocate_good A (Node 0 ps []) (good_leaf A ps)) as H.
    unfold allocate in H. cbn [nN bel acts] in H. exact H.
  Qed.

  Lemma pomcp_op_good : forall iters g op tr g' a tr' sts,
    trace_ok A tr -> tree_all (good A) g ->
    pomcp_op A term disc rl iters g op tr = (g', a, tr', sts) ->
    tree_all (good A) g' /\ length (acts g') = A /\ a < A.
  Proof.
    intros iters g op tr g' a tr' sts Htr Hg H.
    assert (Hfresh : forall ps h, pomcp_fresh A term disc rl iters ps h tr = (g', a, tr', sts) ->
                                  tree_all (good A) g' /\ length (acts g') = A /\ a < A).
    { intros ps h E. unfold pomcp_fresh in E.
      destruct (good_fresh_root ps) as [G L].
      destruct (pomcp_run_good _ _ _ _ _ _ _ _ Htr G L E) as [X [Y [Z _]]]. auto. }
    destruct op as [ps h|a0 o h ps]; cbn [pomcp_op] in H.
    - eapply Hfresh; eauto.
    - unfold pomcp_advance in H.
      destruct (find_kid o (kids (nth a0 (acts g) act0))) as [c|] eqn:Ef.
      + assert (Hc : tree_all (good A) c).
        { apply find_kid_In in Ef. apply tree_all_inv in Hg. destruct Hg as [_ Hk].
          destruct (Nat.lt_ge_cases a0 (length (acts g))) as [Hlt|Hge].
          - eapply Hk; [apply nth_In; exact Hlt | exact Ef].
          - rewrite nth_overflow in Ef by exact Hge. destruct Ef. }
        destruct (bel c) as [|p ps'] eqn:Eb.
        * eapply Hfresh; eauto.
        * destruct (allocate_good A c Hc) as [G L].
          destruct (pomcp_run_good _ _ _ _ _ _ _ _ Htr G L H) as [X [Y [Z _]]]. auto.
      + eapply Hfresh; eauto.
  Qed.

  Lemma pomcp_op_steps : forall iters g op tr g' a tr' sts,
    (forall h d, rl h d <= h - d - 1) ->
    pomcp_op A term disc rl iters g op tr = (g', a, tr', sts) ->
    Forall (fun st => st <= match op with PFresh _ h => h | PAdvance _ _ h _ => h end) sts.
  Proof.
    clear HA.
    intros iters g op tr g' a tr' sts Hrl H.
    destruct op as [ps h|a0 o h ps]; cbn [pomcp_op] in H.
    - unfold pomcp_fresh in H. eapply pomcp_run_steps; eauto.
    - unfold pomcp_advance, pomcp_fresh in H.
      destruct (find_kid o (kids (nth a0 (acts g) act0))) as [c|]; [destruct (bel c)|]; eapply pomcp_run_steps; eauto.
  Qed.

  Lemma pomcp_session_good : forall iters ops g,
    tree_all (good A) g -> Forall (fun p => trace_ok A (snd p)) ops ->
    tree_all (good A) (pomcp_session A term disc rl iters g ops).
  Proof.
    induction ops as [|[op tr] t IH]; intros g Hg Hops; cbn [pomcp_session]; [exact Hg|].
    inversion Hops as [|? ? Hp Ht]; subst. cbn [snd] in Hp.
    destruct (pomcp_op A term disc rl iters g op tr) as [[[g1 a1] tr1] sts1] eqn:E.
    apply IH; [|exact Ht].
    eapply pomcp_op_good in E; eauto. tauto.
  Qed.
End POMCP.
