(* C19/Model.v — MCTS and POMCP as bookkeeping machines driven by a trace.  NO proofs here.

   The planners are templates over a generative model.  Everything the planner cannot decide by
   itself is an *input* of the machine, read from a trace of events, one event per
   sampleSR / sampleSOR call, in call order:
     - the action chosen by findBestBonusA (UCB: log / sqrt, not modelled) or by the rollout's
       uniform distribution                                                    -> [ea]
     - the outcome returned by the user's generative model                     -> [es1], [eo], [er]
     - for POMCP, the root particle drawn for the simulation                   -> [es] of the first
       event of the simulation
   The deterministic bookkeeping is modelled literally: the simulate recursion and its depth test,
   the rollout loop and its length expression, N++, V += (r - V)/N, child creation, particle
   push_back, allocateActionNodes / resize(A), subtree promotion or clean restart, findBestA.

   Action nodes carry one ghost field, [rets]: the list of returns sampled through the action
   (it does not exist in the C++ and is never compared with it; the spec "V is the mean of the
   returns sampled through the action" is stated with it). *)
From Coq Require Import QArith List Arith Bool.
Import ListNotations.
Local Open Scope nat_scope.

(* ---------------------------------------------------------------- trace ------------------- *)

Record ev := Ev { es : nat; ea : nat; es1 : nat; eo : nat; er : Q }.
Definition trace := list ev.
Definition ev0 : ev := Ev 0 0 0 0 0%Q.

(* An exhausted trace behaves as if padded with [ev0]; the driver checks that it never is. *)
Definition next (tr : trace) : ev * trace :=
  match tr with [] => (ev0, []) | e :: t => (e, t) end.

(* ---------------------------------------------------------------- tree -------------------- *)

(* src: MCTS.hpp:StateNode/ActionNode, POMCP.hpp:BeliefNode/ActionNode.
   [bel] is the particle belief (always [] for MCTS); children maps are association lists
   (unordered_map: order irrelevant, keys unique). *)
Inductive node := Node (nN : nat) (bel : list nat) (acts : list act)
with act := Act (aN : nat) (aV : Q) (rets : list Q) (kids : list (nat * node)).

Definition nN (n : node) := match n with Node x _ _ => x end.
Definition bel (n : node) := match n with Node _ x _ => x end.
Definition acts (n : node) := match n with Node _ _ x => x end.
Definition aN (a : act) := match a with Act x _ _ _ => x end.
Definition aV (a : act) := match a with Act _ x _ _ => x end.
Definition rets (a : act) := match a with Act _ _ x _ => x end.
Definition kids (a : act) := match a with Act _ _ _ x => x end.

Definition act0 : act := Act 0 0%Q [] [].          (* ActionNode(): V = 0.0, N = 0, no children *)
Definition node0 : node := Node 0 [] [].         (* StateNode() / BeliefNode() *)

(* std::vector::resize(n): keep the first n, pad with value-initialised ActionNodes *)
Fixpoint resize (n : nat) (l : list act) : list act :=
  match n with
  | 0 => []
  | S n' => match l with [] => act0 :: resize n' [] | x :: t => x :: resize n' t end
  end.

(* v[i] = f(v[i]) for i in range; out of range is left to the theorems' hypotheses *)
Fixpoint upd {X : Type} (i : nat) (f : X -> X) (l : list X) : list X :=
  match l with
  | [] => []
  | x :: t => match i with 0 => f x :: t | S i' => x :: upd i' f t end
  end.

(* unordered_map::find *)
Fixpoint find_kid (k : nat) (l : list (nat * node)) : option node :=
  match l with
  | [] => None
  | (k', c) :: t => if Nat.eqb k k' then Some c else find_kid k t
  end.

(* write back the (possibly new) child under key k *)
Fixpoint set_kid (k : nat) (c : node) (l : list (nat * node)) : list (nat * node) :=
  match l with
  | [] => [(k, c)]
  | (k', c') :: t => if Nat.eqb k k' then (k, c) :: t else (k', c') :: set_kid k c t
  end.

(* the rollout length expression, as a function of (maxDepth_, depth) *)
Definition rl_orig (maxDepth depth : nat) : nat := maxDepth - depth + 1.   (* /repo as it is *)
Definition rl_fixed (maxDepth depth : nat) : nat := maxDepth - depth - 1.  (* fixes/C19-rollout-depth.patch *)

(* allocateActionNodes(n.children, s) / n.children.resize(A) *)
Definition allocate (A : nat) (n : node) : node := Node (nN n) (bel n) (resize A (acts n)).

Section Machine.
  Variable A : nat.                   (* model_.getA()  (POMCP: fixed action space) *)
  Variable gA : nat -> nat.           (* MCTS: model_.getA(s); [fun _ => A] for a fixed action space *)
  Variable term : nat -> bool.        (* model_.isTerminal *)
  Variable disc : Q.                  (* model_.getDiscount() *)
  Variable rl : nat -> nat -> nat.    (* rollout length expression *)

  (* src: MDP/Algorithms/Utils/Rollout.hpp:rollout (fixed action space branch).
     Returns (totalRew, rest of the trace, number of sampleSR calls). *)
  Fixpoint rollout (L : nat) (s : nat) (gamma totalRew : Q) (tr : trace) : Q * trace * nat :=
    match L with
    | 0 => (totalRew, tr, 0)
    | S L' =>
      let (e, tr') := next tr in                         (* m.sampleSR(s, dist(rnd)) *)
      let totalRew' := (totalRew + gamma * er e)%Q in
      if term (es1 e) then (totalRew', tr', 1)
      else let '(r, tr'', n) := rollout L' (es1 e) (gamma * disc)%Q totalRew' tr' in
           (r, tr'', S n)
    end.

  (* the action update shared by both planners:  aNode.N++; aNode.V += (rew - aNode.V) / N *)
  Definition act_update (aNode : act) (rew : Q) (kids' : list (nat * node)) : act :=
    let an' := S (aN aNode) in
    Act an' (Qred (aV aNode + (rew - aV aNode) / inject_Z (Z.of_nat an'))%Q)
        (rets aNode ++ [rew]) kids'.


  (* src: MDP/Algorithms/MCTS.hpp:simulate.  [fuel] only makes the recursion structural; it is
     never exhausted when fuel >= maxDepth - depth (Proofs: mcts_fuel_irrelevant).
     Returns (updated node, return of this simulation from here, rest of trace, #sampleSR calls). *)
  Fixpoint mcts_simulate (fuel maxDepth depth : nat) (sn : node) (s : nat) (tr : trace)
    : node * Q * trace * nat :=
    match fuel with
    | 0 => (sn, 0%Q, tr, 0)
    | S fuel' =>
      let n1 := S (nN sn) in                                  (* sn.N++ *)
      let (e, tr1) := next tr in
      let a := ea e in                                        (* findBestBonusA(...) *)
      let s1 := es1 e in let rew := er e in                   (* model_.sampleSR(s, a) *)
      let aNode := nth a (acts sn) act0 in
      let '(kids', rew', tr2, st) :=
        if (depth + 1 <? maxDepth) && negb (term s1) then
          match find_kid s1 (kids aNode) with
          | None =>                                           (* touch node to create it; rollout *)
            let '(fr, tr2, st) := rollout (rl maxDepth depth) s1 1%Q 0%Q tr1 in
            (set_kid s1 node0 (kids aNode), Qred (rew + disc * fr)%Q, tr2, st)
          | Some c =>
            let '(c', fr, tr2, st) := mcts_simulate fuel' maxDepth (depth + 1) (allocate (gA s1) c) s1 tr1 in
            (set_kid s1 c' (kids aNode), Qred (rew + disc * fr)%Q, tr2, st)
          end
        else (kids aNode, rew, tr1, 0) in
      (Node n1 (bel sn) (upd a (fun _ => act_update aNode rew' kids') (acts sn)), rew', tr2, S st)
    end.

  (* src: POMDP/Algorithms/POMCP.hpp:simulate *)
  Fixpoint pomcp_simulate (fuel maxDepth depth : nat) (b : node) (s : nat) (tr : trace)
    : node * Q * trace * nat :=
    match fuel with
    | 0 => (b, 0%Q, tr, 0)
    | S fuel' =>
      let n1 := S (nN b) in                                   (* b.N++ *)
      let (e, tr1) := next tr in
      let a := ea e in                                        (* findBestBonusA(...) *)
      let s1 := es1 e in let o := eo e in let rew := er e in  (* model_.sampleSOR(s, a) *)
      let aNode := nth a (acts b) act0 in
      let '(kids', futureRew, tr2, st) :=
        match find_kid o (kids aNode) with
        | None =>                                             (* emplace BeliefNode(s1); rollout *)
          let '(fr, tr2, st) := rollout (rl maxDepth depth) s1 1%Q 0%Q tr1 in
          (set_kid o (Node 0 [s1] []) (kids aNode), fr, tr2, st)
        | Some c =>
          let c1 := Node (nN c) (bel c ++ [s1]) (acts c) in   (* ot->second.belief.push_back(s1) *)
          if (depth + 1 <? maxDepth) && negb (term s1) then
            let '(c', fr, tr2, st) := pomcp_simulate fuel' maxDepth (depth + 1) (allocate A c1) s1 tr1 in
            (set_kid o c' (kids aNode), fr, tr2, st)
          else (set_kid o c1 (kids aNode), 0%Q, tr1, 0)
        end in
      let rew' := Qred (rew + disc * futureRew)%Q in
      (Node n1 (bel b) (upd a (fun _ => act_update aNode rew' kids') (acts b)), rew', tr2, S st)
    end.

  (* src: findBestA = std::max_element with (lhs.V < rhs.V): the first maximal element *)
  Fixpoint findBestA_from (best : nat) (bestV : Q) (i : nat) (l : list act) : nat :=
    match l with
    | [] => best
    | x :: t => if Qlt_le_dec bestV (aV x) then findBestA_from i (aV x) (S i) t
                else findBestA_from best bestV (S i) t
    end.
  Definition findBestA (l : list act) : nat :=
    match l with [] => 0 | x :: t => findBestA_from 0 (aV x) 1 t end.

  (* src: MCTS.hpp:runSimulation — the loop `for i < iterations_: simulate(graph_, s, 0)`.
     [steps] collects the number of model calls of every simulation (oldest first). *)
  Fixpoint mcts_loop (iters h : nat) (g : node) (s : nat) (tr : trace) : node * trace * list nat :=
    match iters with
    | 0 => (g, tr, [])
    | S i' =>
      let '(g1, _, tr1, st) := mcts_simulate h h 0 g s tr in
      let '(g2, tr2, sts) := mcts_loop i' h g1 s tr1 in
      (g2, tr2, st :: sts)
    end.

  Definition mcts_runSimulation (iters h : nat) (g : node) (s : nat) (tr : trace)
    : node * nat * trace * list nat :=
    if Nat.eqb h 0 then (g, 0, tr, [])
    else let '(g', tr', sts) := mcts_loop iters h g s tr in
         (g', findBestA (acts g'), tr', sts).

  (* src: MCTS.hpp:sampleAction(s, horizon) *)
  Definition mcts_fresh (iters s h : nat) (tr : trace) :=
    mcts_runSimulation iters h (allocate (gA s) node0) s tr.

  (* src: MCTS.hpp:sampleAction(a, s1, horizon).  Precondition of the C++: a < graph_.children.size() *)
  Definition mcts_advance (iters : nat) (g : node) (a s1 h : nat) (tr : trace) :=
    match find_kid s1 (kids (nth a (acts g) act0)) with
    | None => mcts_fresh iters s1 h tr
    | Some c => mcts_runSimulation iters h (allocate (gA s1) c) s1 tr
    end.

  (* src: POMCP.hpp:runSimulation — the root particle graph_.belief.at(generator(rand_)) is read
     from the first event of the simulation ([es]). *)
  Definition root_particle (tr : trace) : nat := es (fst (next tr)).

  Fixpoint pomcp_loop (iters h : nat) (g : node) (tr : trace) : node * trace * list nat :=
    match iters with
    | 0 => (g, tr, [])
    | S i' =>
      let '(g1, _, tr1, st) := pomcp_simulate h h 0 g (root_particle tr) tr in
      let '(g2, tr2, sts) := pomcp_loop i' h g1 tr1 in
      (g2, tr2, st :: sts)
    end.

  Definition pomcp_runSimulation (iters h : nat) (g : node) (tr : trace)
    : node * nat * trace * list nat :=
    if Nat.eqb h 0 then (g, 0, tr, [])
    else let '(g', tr', sts) := pomcp_loop iters h g tr in
         (g', findBestA (acts g'), tr', sts).

  (* src: POMCP.hpp:sampleAction(b, horizon).  [particles] = makeSampledBelief(b), an input. *)
  Definition pomcp_fresh (iters : nat) (particles : list nat) (h : nat) (tr : trace) :=
    pomcp_runSimulation iters h (Node 0 particles (resize A [])) tr.

  (* src: POMCP.hpp:sampleAction(a, o, horizon).  [particles] is only used on a restart. *)
  Definition pomcp_advance (iters : nat) (g : node) (a o h : nat) (particles : list nat) (tr : trace) :=
    match find_kid o (kids (nth a (acts g) act0)) with
    | None => pomcp_fresh iters particles h tr
    | Some c =>
      match bel c with
      | [] => pomcp_fresh iters particles h tr               (* lost track of the belief *)
      | _ :: _ => pomcp_runSimulation iters h (allocate A c) tr
      end
    end.
End Machine.

(* ---------------------------------------------------------------- sessions ---------------- *)

Inductive mop := MFresh (s h : nat) | MAdvance (a s1 h : nat).
Inductive pop := PFresh (particles : list nat) (h : nat) | PAdvance (a o h : nat) (particles : list nat).

Definition mcts_op gA term disc rl iters (g : node) (op : mop) (tr : trace) :=
  match op with
  | MFresh s h => mcts_fresh gA term disc rl iters s h tr
  | MAdvance a s1 h => mcts_advance gA term disc rl iters g a s1 h tr
  end.

Definition pomcp_op A term disc rl iters (g : node) (op : pop) (tr : trace) :=
  match op with
  | PFresh ps h => pomcp_fresh A term disc rl iters ps h tr
  | PAdvance a o h ps => pomcp_advance A term disc rl iters g a o h ps tr
  end.

(* a history of calls, each with the trace observed during it; returns the final tree *)
Fixpoint mcts_session gA term disc rl iters (g : node) (ops : list (mop * trace)) : node :=
  match ops with
  | [] => g
  | (op, tr) :: t =>
    let '(g', _, _, _) := mcts_op gA term disc rl iters g op tr in
    mcts_session gA term disc rl iters g' t
  end.

Fixpoint pomcp_session A term disc rl iters (g : node) (ops : list (pop * trace)) : node :=
  match ops with
  | [] => g
  | (op, tr) :: t =>
    let '(g', _, _, _) := pomcp_op A term disc rl iters g op tr in
    pomcp_session A term disc rl iters g' t
  end.
