(* C19/Spec.v — what "a consistent tree" and "respects the horizon" mean, independently of the
   simulate recursion, plus the boolean checkers the driver evaluates on the implementation's
   dumped tree and call log. *)
From Coq Require Import QArith List Arith Bool.
From AIT Require Import C19.Model.
Import ListNotations.
Local Open Scope nat_scope.

Definition sumn (l : list nat) : nat := fold_right plus 0 l.
Definition sumq (l : list Q) : Q := fold_right Qplus 0%Q l.
Definition qn (n : nat) : Q := inject_Z (Z.of_nat n).

(* a property of every node of a tree *)
Inductive tree_all (P : node -> Prop) : node -> Prop :=
| TreeAll : forall n, P n ->
    (forall a k c, In a (acts n) -> In (k, c) (kids a) -> tree_all P c) -> tree_all P n.

(* "a node's visit count is the sum over its actions" — MCTS.hpp / POMCP.hpp increment sn.N and
   exactly one aNode.N per simulate call, the root included, so the rule has no exception. *)
Definition counts_local (n : node) : Prop := nN n = sumn (map aN (acts n)).
Definition counts_ok : node -> Prop := tree_all counts_local.

(* "each action estimate is the mean of the returns sampled through it" *)
Definition mean_act (a : act) : Prop :=
  aN a = length (rets a) /\ (aV a * qn (aN a) == sumq (rets a))%Q.
Definition mean_local (n : node) : Prop := Forall mean_act (acts n).
Definition mean_ok : node -> Prop := tree_all mean_local.

(* the return of a simulation: discounted sum of the rewards it sampled, first reward undiscounted *)
Fixpoint disc_sum (g : Q) (rs : list Q) : Q :=
  match rs with [] => 0%Q | r :: t => (r + g * disc_sum g t)%Q end.

(* a trace only proposes existing actions (what findBestBonusA / the rollout distribution return) *)
Definition trace_ok (A : nat) (tr : trace) : Prop := Forall (fun e => ea e < A) tr.

(* every node is either untouched (no action nodes yet) or has exactly A action nodes *)
Definition shape_local (A : nat) (n : node) : Prop := acts n = [] \/ length (acts n) = A.
Definition shape_ok (A : nat) : node -> Prop := tree_all (shape_local A).

(* sum_{i<k} g^i : the largest return achievable in k steps with unit rewards *)
Fixpoint geom (g : Q) (k : nat) : Q :=
  match k with 0 => 0%Q | S k' => (1 + g * geom g k')%Q end.

(* ---------------- boolean checkers (run by the driver on the implementation's outputs) ------ *)

Fixpoint counts_okb (n : node) : bool :=
  match n with
  | Node N _ acts =>
    Nat.eqb N (sumn (map aN acts)) &&
    forallb (fun a => match a with
                      | Act _ _ _ ks => forallb (fun kc => match kc with (_, c) => counts_okb c end) ks
                      end) acts
  end.

(* all simulations of a call stayed within the horizon *)
Definition steps_okb (h : nat) (steps : list nat) : bool := forallb (fun st => st <=? h) steps.

(* ---------------- value range ("within the range of achievable returns for the remaining
   horizon"): with rewards in [-R, R] and 0 <= disc, a return collected over at most k steps lies in
   [-R * geom disc k, R * geom disc k]; an action of a node at depth d has k = h - d. -------------- *)

Definition vbound (R disc : Q) (h d : nat) : Q := (R * geom disc (h - d))%Q.

(* a property of every node of a tree, indexed by the node's depth *)
Inductive tree_all_d (P : nat -> node -> Prop) : nat -> node -> Prop :=
| TreeAllD : forall d n, P d n ->
    (forall a k c, In a (acts n) -> In (k, c) (kids a) -> tree_all_d P (S d) c) -> tree_all_d P d n.

Definition in_pm (B x : Q) : Prop := (- B <= x)%Q /\ (x <= B)%Q.

Definition rets_in (R disc : Q) (h d : nat) (n : node) : Prop :=
  Forall (fun a => Forall (in_pm (vbound R disc h d)) (rets a)) (acts n).
Definition value_in (R disc : Q) (h d : nat) (n : node) : Prop :=
  Forall (fun a => 0 < aN a -> in_pm (vbound R disc h d) (aV a)) (acts n).
Definition rewards_in (R : Q) (tr : trace) : Prop := Forall (fun e => in_pm R (er e)) tr.

(* ---------------- particles: every particle stored in the child reached by (action i, observation
   o) was sampled by some event of the observed traces with exactly that action and observation
   (pool = all events observed so far; ev0 is the padding event of an exhausted trace). ---------- *)
Definition sampled_by (pool : trace) (i o p : nat) : Prop :=
  exists e, In e (ev0 :: pool) /\ ea e = i /\ eo e = o /\ es1 e = p.
Definition particles_local (pool : trace) (n : node) : Prop :=
  forall i o c, In (o, c) (kids (nth i (acts n) act0)) -> Forall (sampled_by pool i o) (bel c).
Definition particles_ok (pool : trace) : node -> Prop := tree_all (particles_local pool).

(* ---------------- particles, full statement: "particle beliefs contain only states consistent with
   the history".  Every particle p of the node reached from its parent by (action i, observation o)
   is the next state of a logged call sampleSOR(q, i) = (p, o, _) whose state argument q is a particle
   of the PARENT's belief — so, by induction along the path, every particle is reachable from a root
   particle under exactly the node's action/observation history. ------------------------------- *)
Definition pred_by (pool : trace) (parent_bel : list nat) (i o p : nat) : Prop :=
  exists e, In e (ev0 :: pool) /\ In (es e) parent_bel /\ ea e = i /\ eo e = o /\ es1 e = p.
Definition particles_full_local (pool : trace) (n : node) : Prop :=
  forall i o c, In (o, c) (kids (nth i (acts n) act0)) -> Forall (pred_by pool (bel n) i o) (bel c).
Definition particles_full (pool : trace) : node -> Prop := tree_all (particles_full_local pool).

(* The machine takes the state it simulates from by threading (root particle, then each sampled s1);
   the logged state argument [es] of a call is only read at the root.  A log is COHERENT when every
   call made inside the tree was logged with the state the planner was carrying, and every simulation
   starts from a particle of the root belief.  This is a decidable property of (tree, log); the driver
   evaluates this very function on every real log. *)
Definition memb (x : nat) (l : list nat) : bool := existsb (Nat.eqb x) l.

Fixpoint pomcp_coh (A : nat) (term : nat -> bool) (fuel h d : nat) (b : node) (s : nat) (tr : trace) : bool :=
  match fuel with
  | 0 => true
  | S fuel' =>
    let (e, tr1) := next tr in
    Nat.eqb (es e) s &&
    match find_kid (eo e) (kids (nth (ea e) (acts b) act0)) with
    | None => true
    | Some c =>
      if (d + 1 <? h) && negb (term (es1 e))
      then pomcp_coh A term fuel' h (d + 1)
                     (allocate A (Node (nN c) (bel c ++ [es1 e]) (acts c))) (es1 e) tr1
      else true
    end
  end.

Fixpoint pomcp_coh_loop A term disc rl (iters h : nat) (g : node) (tr : trace) : bool :=
  match iters with
  | 0 => true
  | S i' =>
    memb (root_particle tr) (bel g) && pomcp_coh A term h h 0 g (root_particle tr) tr &&
    let '(g1, _, tr1, _) := pomcp_simulate A term disc rl h h 0 g (root_particle tr) tr in
    pomcp_coh_loop A term disc rl i' h g1 tr1
  end.

Definition pomcp_coh_run A term disc rl (iters h : nat) (g : node) (tr : trace) : bool :=
  if Nat.eqb h 0 then true else pomcp_coh_loop A term disc rl iters h g tr.

Definition pomcp_coh_op A term disc rl iters (g : node) (op : pop) (tr : trace) : bool :=
  match op with
  | PFresh ps h => pomcp_coh_run A term disc rl iters h (Node 0 ps (resize A [])) tr
  | PAdvance a o h ps =>
    match find_kid o (kids (nth a (acts g) act0)) with
    | None => pomcp_coh_run A term disc rl iters h (Node 0 ps (resize A [])) tr
    | Some c =>
      match bel c with
      | [] => pomcp_coh_run A term disc rl iters h (Node 0 ps (resize A [])) tr
      | _ :: _ => pomcp_coh_run A term disc rl iters h (allocate A c) tr
      end
    end
  end.

Fixpoint pomcp_coh_session A term disc rl iters (g : node) (ops : list (pop * trace)) : bool :=
  match ops with
  | [] => true
  | (op, tr) :: t =>
    pomcp_coh_op A term disc rl iters g op tr &&
    let '(g', _, _, _) := pomcp_op A term disc rl iters g op tr in
    pomcp_coh_session A term disc rl iters g' t
  end.
