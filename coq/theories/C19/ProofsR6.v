(* C19/ProofsR6.v — rPOMCP, full particle consistency on a coherent log: every particle of a node has a
   predecessor in the belief its parent simulates from, under exactly the (action, observation) leading
   to the node. *)
From Coq Require Import QArith List Arith Bool Lia.
From AIT Require Import C19.Model C19.Spec C19.Proofs C19.ProofsParticles C19.ModelR C19.SpecR
  C19.ProofsR C19.ProofsR2 C19.ProofsR4.
Import ListNotations.
Local Open Scope nat_scope.

#[local] Opaque Qred.

Lemma tpos_pos_in : forall t s, tpos t s <-> pos_in t s.
Proof. intros; unfold tpos, pos_in; tauto. Qed.

Lemma In_ttouch_keep : forall s t x, In x t -> In x (ttouch s t).
Proof. intros s t x H. unfold ttouch. destruct (tfind s t); [exact H | apply in_or_app; left; exact H]. Qed.

Lemma In_tset_other : forall s v t q w, q <> s -> In (q, w) t -> In (q, w) (tset s v t).
Proof.
  induction t as [|[s' v'] r IH]; intros q w Hq H; cbn [tset]; [destruct H|].
  destruct (Nat.eqb s s') eqn:E.
  - apply Nat.eqb_eq in E. subst s'. destruct H as [H|H]; [inversion H; congruence | right; exact H].
  - destruct H as [H|H]; [left; exact H | right; apply IH; auto].
Qed.

Lemma In_tset_same : forall s v v' t, tfind s t = Some v -> In (s, v') (tset s v' t).
Proof.
  induction t as [|[s' w] r IH]; intros H; cbn [tfind tset] in *; [discriminate|].
  destruct (Nat.eqb s s'); [left; reflexivity | right; auto].
Qed.

(* updateBeliefAndKnowledge(s1) keeps every particle and adds s1 *)
Lemma r_update_pos : forall entropy plogp n s1,
  tpos (rtrack (r_update entropy plogp n s1)) s1 /\
  (forall q, tpos (rtrack n) q -> tpos (rtrack (r_update entropy plogp n s1)) q).
Proof.
  intros entropy plogp n s1.
  destruct (tfind_touch s1 (rtrack n)) as [v Hv].
  unfold r_update. destruct entropy.
  - destruct (tget s1 (ttouch s1 (rtrack n))) as [c ne]. cbn [rtrack]. split.
    + exists (S c), (plogp (S c) (S (rN n))). split; [eapply In_tset_same; eauto | lia].
    + intros q [cnt [e [Hin Hp]]]. destruct (Nat.eq_dec q s1) as [->|Hq].
      * exists (S c), (plogp (S c) (S (rN n))). split; [eapply In_tset_same; eauto | lia].
      * exists cnt, e. split; [|exact Hp]. apply In_tset_other; [exact Hq|]. apply In_ttouch_keep. exact Hin.
  - cbn [rtrack]. split.
    + eexists; eexists. split; [apply In_ttouch_keep; eapply In_tset_same; eauto | lia].
    + intros q [cnt [e [Hin Hp]]]. destruct (Nat.eq_dec q s1) as [->|Hq].
      * eexists; eexists. split; [apply In_ttouch_keep; eapply In_tset_same; eauto | lia].
      * exists cnt, e. split; [|exact Hp]. apply In_ttouch_keep. apply In_tset_other; [exact Hq|].
        apply In_ttouch_keep. exact Hin.
Qed.

Lemma rfull_inv : forall pool B n, rfull pool B n ->
  (forall i o c p, In (o, c) (rkids (nth i (racts n) ract0)) -> tpos (rtrack c) p -> rpred_by pool B i o p) /\
  (forall a k c, In a (racts n) -> In (k, c) (rkids a) -> rfull pool (tpos (rtrack c)) c).
Proof. intros pool B n H; inversion H; subst; auto. Qed.

Lemma rpred_mono : forall pool pool' (B B' : nat -> Prop) i o p,
  incl pool pool' -> (forall q, B q -> B' q) -> rpred_by pool B i o p -> rpred_by pool' B' i o p.
Proof.
  intros pool pool' B B' i o p H1 H2 [e [He [Hb X]]]. exists e.
  split; [destruct He as [He|He]; [left; exact He | right; apply H1; exact He]|]. split; auto.
Qed.

(* the statement only looks at the actions of the node; it is monotone in B and in the pool *)
Lemma rfull_same : forall pool pool' (B B' : nat -> Prop) n m, racts m = racts n ->
  incl pool pool' -> (forall q, B q -> B' q) -> rfull pool B n -> rfull pool' B' m.
Proof.
  intros pool pool' B B' n m HA Hi HB H. revert B' m HA HB.
  induction H as [B n X K IH]; intros B' m HA HB.
  constructor.
  - rewrite HA. intros i o c p Hin Hp. eapply rpred_mono; eauto.
  - rewrite HA. intros a k c Ha Hc. eapply IH; eauto.
Qed.

Lemma rfull_node0 : forall pool B, rfull pool B rnode0.
Proof.
  intros. constructor.
  - intros i o c p Hin. cbn [racts rnode0] in Hin. destruct i; cbn in Hin; destruct Hin.
  - intros a k c [].
Qed.

Lemma sbmem_pos : forall x sb, sbmem x sb = true -> sbpos sb x.
Proof.
  intros x sb H. unfold sbmem in H. apply existsb_exists in H. destruct H as [[s c] [Hin E]].
  cbn [fst snd] in E. apply andb_prop in E. destruct E as [E1 E2].
  apply Nat.eqb_eq in E1. apply Nat.ltb_lt in E2. subst s. exists c. auto.
Qed.

Section RFull.
  Variable A : nat.
  Variable term : nat -> bool.
  Variable disc : Q.
  Variable k : nat.
  Variable entropy : bool.
  Variable plogp : nat -> nat -> Q.
  Hypothesis HA : 0 < A.
  Variable pool : trace.

  Notation upd_node := (r_update entropy plogp).
  Notation sim := (r_simulate A term disc k entropy plogp).

  Lemma rfull_allocate : forall B n, rshape_local A n -> rfull pool B n -> rfull pool B (r_allocate A n).
  Proof.
    intros B n Hs H. destruct Hs as [Hnil|Hlen].
    - unfold r_allocate. rewrite Hnil. constructor.
      + intros i o c p Hin. cbn [racts] in Hin. rewrite nth_rresize_nil in Hin. destruct Hin.
      + cbn [racts]. intros a k0 c Ha Hc. apply rresize_nil_all0 in Ha. subst a. destruct Hc.
    - eapply rfull_same; [| apply incl_refl | | exact H]; [|auto].
      unfold r_allocate. cbn [racts]. rewrite <- Hlen. apply rresize_id.
  Qed.

  Lemma rfull_rebuild : forall (B : nat -> Prop) b b' a x o ot2,
    rfull pool B b -> a < length (racts b) ->
    rfull pool (tpos (rtrack ot2)) ot2 -> (forall p, tpos (rtrack ot2) p -> rpred_by pool B a o p) ->
    racts b' = upd a (fun _ => ract_update (nth a (racts b) ract0) x (rset_kid o ot2 (rkids (nth a (racts b) ract0)))) (racts b) ->
    rfull pool B b'.
  Proof.
    intros B b b' a x o ot2 H Ha Hot Hpos Hacts.
    apply rfull_inv in H. destruct H as [X K].
    constructor.
    - intros i o' c p Hin Hp. rewrite Hacts in Hin.
      destruct (Nat.eq_dec a i) as [E|E].
      + subst i. rewrite (nth_upd_same _ _ ract0) in Hin by exact Ha.
        unfold ract_update in Hin. cbn [rkids] in Hin.
        apply In_rset_kid in Hin. destruct Hin as [[-> ->]|Hin]; [auto | eapply X; eauto].
      + rewrite nth_upd_other in Hin by exact E. eapply X; eauto.
    - intros y k0 c Hy Hc. rewrite Hacts in Hy.
      apply (In_upd _ _ ract0) in Hy. destruct Hy as [Hy|[_ Hy]].
      + eapply K; eauto.
      + subst y. unfold ract_update in Hc. cbn [rkids] in Hc.
        apply In_rset_kid in Hc. destruct Hc as [[_ ->]|Hc]; [exact Hot|].
        eapply K; [apply nth_In; exact Ha | exact Hc].
  Qed.

  Lemma r_simulate_full : forall fuel h d (B : nat -> Prop) b s tr b' ret tr' st,
    d < h -> h - d <= fuel -> r_coh A term entropy plogp fuel h d b s tr = true -> B s ->
    trace_ok A tr -> incl tr pool -> rtree_all (rgood A) b -> length (racts b) = A -> rfull pool B b ->
    sim fuel h d b s tr = (b', ret, tr', st) ->
    rfull pool B b' /\ incl tr' pool.
  Proof.
    induction fuel as [|fuel IH]; intros h d B b s tr b' ret tr' st Hd Hf Hc HB Htr Hin Hg Hlen Hp H; [lia|].
    pose proof (r_simulate_step A term disc k entropy plogp _ _ _ _ _ _ _ _ _ _ H) as Hs.
    cbv zeta in Hs. destruct Hs as [ot2 [x [st0 [E [Hst [HN [HL [HT Hacts]]]]]]]].
    cbn [r_coh] in Hc.
    destruct (next tr) as [e tr1] eqn:En. cbn [fst snd] in *.
    destruct (next_trace_ok _ _ _ _ HA Htr En) as [Hea Htr1].
    destruct (next_incl _ _ _ _ En Hin) as [He Hin1].
    apply andb_prop in Hc. destruct Hc as [Hes Hc]. apply Nat.eqb_eq in Hes.
    assert (Hea' : ea e < length (racts b)) by lia.
    assert (Hwit : rpred_by pool B (ea e) (eo e) (es1 e)).
    { exists e. split; [exact He|]. split; [rewrite Hes; exact HB|auto]. }
    set (aNode := nth (ea e) (racts b) ract0) in *.
    assert (Hot : rtree_all (rgood A) (found_or0 (eo e) (rkids aNode)) /\
                  rfull pool (tpos (rtrack (found_or0 (eo e) (rkids aNode)))) (found_or0 (eo e) (rkids aNode)) /\
                  (forall p, tpos (rtrack (found_or0 (eo e) (rkids aNode))) p -> rpred_by pool B (ea e) (eo e) p)).
    { unfold found_or0. destruct (rfind_kid (eo e) (rkids aNode)) as [c|] eqn:Ef.
      - apply rfind_kid_In in Ef.
        apply rtree_all_inv in Hg. destruct Hg as [_ K].
        apply rfull_inv in Hp. destruct Hp as [X KP].
        split; [eapply K; eauto; apply nth_In; exact Hea'|].
        split; [eapply KP; eauto; apply nth_In; exact Hea'|].
        intros p Hpp. eapply X; eauto.
      - split; [apply rgood_node0|]. split; [apply rfull_node0|].
        intros p [cnt [e0 [[] _]]]. }
    destruct Hot as [Hotg [Hotp Hots]].
    set (ot := found_or0 (eo e) (rkids aNode)) in *.
    destruct (r_update_fields entropy plogp ot (es1 e)) as [U1 [U2 [U3 U4]]].
    destruct (r_update_pos entropy plogp ot (es1 e)) as [P1 P2].
    assert (Hot1g : rtree_all (rgood A) (upd_node ot (es1 e))) by (eapply rgood_same; eauto).
    assert (Hot1p : rfull pool (tpos (rtrack (upd_node ot (es1 e)))) (upd_node ot (es1 e))).
    { eapply rfull_same; [exact U3 | apply incl_refl | exact P2 | exact Hotp]. }
    assert (Hot1s : forall p, tpos (rtrack (upd_node ot (es1 e))) p -> rpred_by pool B (ea e) (eo e) p).
    { intros p Hpp. apply tpos_pos_in in Hpp. apply r_update_track in Hpp.
      destruct Hpp as [->|Hpp]; [exact Hwit | apply Hots; apply tpos_pos_in; exact Hpp]. }
    assert (Hchild : rfull pool (tpos (rtrack ot2)) ot2 /\ rtrack ot2 = rtrack (upd_node ot (es1 e)) /\ incl tr' pool).
    { unfold found_or0 in *. subst ot.
      destruct (rfind_kid (eo e) (rkids aNode)) as [c|] eqn:Ef.
      - destruct ((d + 1 <? h) && negb (term (es1 e))) eqn:C.
        + replace ((d + 1 <? h) && negb (term (es1 e)) && negb false) with true in E
            by (rewrite C; reflexivity).
          apply andb_prop in C. destruct C as [C _]. apply Nat.ltb_lt in C.
          destruct (r_allocate_good A _ Hot1g) as [Hga Hla].
          assert (Hsh : rshape_local A (upd_node c (es1 e))).
          { apply rtree_all_inv in Hot1g. destruct Hot1g as [[_ [_ [Z _]]] _]. exact Z. }
          pose proof (rfull_allocate _ _ Hsh Hot1p) as Hpa.
          assert (Hf' : h - (d + 1) <= fuel) by lia.
          assert (HB' : tpos (rtrack (upd_node c (es1 e))) (es1 e)) by exact P1.
          destruct (IH _ _ _ _ _ _ _ _ _ _ C Hf' Hc HB' Htr1 Hin1 Hga Hla Hpa E) as [P2' I2].
          destruct (r_simulate_good A term disc k entropy plogp HA _ _ _ _ _ _ _ _ _ _ C Hf' Htr1 Hga Hla E) as [_ [_ [_ [_ [_ [T2 _]]]]]].
          unfold r_allocate in T2. cbn [rtrack] in T2.
          split; [rewrite T2; exact P2'|]. split; [exact T2|exact I2].
        + replace ((d + 1 <? h) && negb (term (es1 e)) && negb false) with false in E
            by (rewrite C; reflexivity).
          inversion E; subst ot2 x tr' st0.
          split; [eapply rfull_same; [| apply incl_refl | | exact Hot1p]; [reflexivity|auto]|].
          split; [reflexivity|exact Hin1].
      - replace ((d + 1 <? h) && negb (term (es1 e)) && negb true) with false in E
          by (rewrite andb_false_r; reflexivity).
        inversion E; subst ot2 x tr' st0.
        split; [eapply rfull_same; [| apply incl_refl | | exact Hot1p]; [reflexivity|auto]|].
        split; [reflexivity|exact Hin1]. }
    destruct Hchild as [P2' [T2 I2]].
    split; [|exact I2].
    eapply (rfull_rebuild B b b' (ea e) x (eo e) ot2); eauto.
    intros p Hpp. rewrite T2 in Hpp. auto.
  Qed.

  Lemma r_loop_full : forall iters h sb g tr g' tr' sts,
    r_coh_loop A term disc k entropy plogp iters h sb g tr = true ->
    0 < h -> trace_ok A tr -> incl tr pool -> rtree_all (rgood A) g -> length (racts g) = A ->
    rfull pool (sbpos sb) g ->
    r_loop A term disc k entropy plogp iters h g tr = (g', tr', sts) -> rfull pool (sbpos sb) g'.
  Proof.
    induction iters as [|i IH]; intros h sb g tr g' tr' sts Hc Hh Htr Hin Hg Hlen Hp H;
      cbn [r_loop] in H; cbn [r_coh_loop] in Hc.
    - inversion H; subst g' tr' sts; auto.
    - destruct (sim h h 0 g (root_particle tr) tr) as [[[g1 r1] tr1] st1] eqn:E1.
      destruct (r_loop A term disc k entropy plogp i h g1 tr1) as [[g2 tr2] sts2] eqn:E2.
      inversion H; subst g' tr' sts; clear H.
      apply andb_prop in Hc. destruct Hc as [Hc Hc2]. apply andb_prop in Hc. destruct Hc as [Hm Hc1].
      apply sbmem_pos in Hm.
      assert (Hf : h - 0 <= h) by lia.
      destruct (r_simulate_good A term disc k entropy plogp HA _ _ _ _ _ _ _ _ _ _ Hh Hf Htr Hg Hlen E1) as [G1 [L1 [T1 _]]].
      destruct (r_simulate_full _ _ _ _ _ _ _ _ _ _ _ Hh Hf Hc1 Hm Htr Hin Hg Hlen Hp E1) as [P1 I1].
      eapply IH; eauto.
  Qed.

  Lemma r_run_full : forall iters h sb g tr g' a tr' sts,
    r_coh_run A term disc k entropy plogp iters h sb g tr = true ->
    trace_ok A tr -> incl tr pool -> rtree_all (rgood A) g -> length (racts g) = A ->
    rfull pool (sbpos sb) g ->
    r_runSimulation A term disc k entropy plogp iters h g tr = (g', a, tr', sts) -> rfull pool (sbpos sb) g'.
  Proof.
    intros iters h sb g tr g' a tr' sts Hc Htr Hin Hg Hlen Hp H.
    unfold r_runSimulation in H. unfold r_coh_run in Hc.
    destruct (Nat.eqb h 0) eqn:Eh.
    - inversion H; subst g' a tr' sts. auto.
    - apply Nat.eqb_neq in Eh.
      destruct (r_loop A term disc k entropy plogp iters h g tr) as [[g2 tr2] sts2] eqn:E2.
      destruct (find_best (map raV (racts g2))) as [bestA bestV].
      inversion H; subst g' a tr' sts; clear H.
      assert (Hh : 0 < h) by lia.
      eapply rfull_same; [| apply incl_refl | | eapply r_loop_full; eauto]; [reflexivity|auto].
  Qed.

  (* one call, from a consistent state (sampling belief sb0, tree g) *)
  Lemma r_op_full : forall iters sb0 g op tr sb' g' a tr' sts,
    r_coh_op A term disc k entropy plogp iters g op tr = true ->
    trace_ok A tr -> incl tr pool -> rtree_all (rgood A) g -> rfull pool (sbpos sb0) g ->
    r_op A term disc k entropy plogp iters g op tr = (sb', (g', a, tr', sts)) ->
    rfull pool (sbpos sb') g'.
  Proof.
    intros iters sb0 g op tr sb' g' a tr' sts Hc Htr Hin Hg Hp H.
    assert (Hfresh : forall sb h, r_coh_run A term disc k entropy plogp iters h sb (r_allocate A rnode0) tr = true ->
                                  r_fresh A term disc k entropy plogp iters sb h tr = (sb', (g', a, tr', sts)) ->
                                  rfull pool (sbpos sb') g').
    { intros sb h C E. unfold r_fresh in E. inversion E as [[E1 E2]]; clear E. subst sb'.
      destruct (r_allocate_good A rnode0 (rgood_node0 A)) as [G L].
      eapply r_run_full; try exact E2; auto.
      apply rfull_allocate; [left; reflexivity | apply rfull_node0]. }
    destruct op as [sb h|a0 o h sb]; cbn [r_op] in H; cbn [r_coh_op] in Hc.
    - eapply Hfresh; eauto.
    - unfold r_advance in H.
      destruct (rfind_kid o (rkids (nth a0 (racts g) ract0))) as [c|] eqn:Ef; [|eapply Hfresh; eauto].
      destruct (r_promote A c) as [sbp root] eqn:Epr. cbn [fst snd] in Hc.
      destruct sbp as [|p0 pt]; [eapply Hfresh; eauto|].
      inversion H as [[E1 E2]]; clear H. subst sb'.
      apply rfind_kid_In in Ef.
      destruct (Nat.lt_ge_cases a0 (length (racts g))) as [Hlt|Hge];
        [|rewrite nth_overflow in Ef by exact Hge; destruct Ef].
      assert (Hcg : rtree_all (rgood A) c).
      { apply rtree_all_inv in Hg. destruct Hg as [_ K]. eapply K; [apply nth_In; exact Hlt | exact Ef]. }
      assert (Hcp : rfull pool (tpos (rtrack c)) c).
      { apply rfull_inv in Hp. destruct Hp as [_ K]. eapply K; [apply nth_In; exact Hlt | exact Ef]. }
      destruct (r_allocate_good A _ Hcg) as [G L].
      assert (Hsh : rshape_local A c).
      { apply rtree_all_inv in Hcg. destruct Hcg as [[_ [_ [Z _]]] _]. exact Z. }
      unfold r_promote in Epr. inversion Epr as [[Es Er]]; clear Epr.
      assert (HB : forall q, tpos (rtrack c) q -> sbpos (p0 :: pt) q).
      { intros q [cnt [e0 [Hq Hpos]]]. exists cnt. split; [|exact Hpos]. rewrite <- Es.
        apply in_map_iff. exists (q, (cnt, e0)). split; [reflexivity|exact Hq]. }
      rewrite ?Es.
      eapply r_run_full; try exact E2; try exact Hc; auto.
      + subst root. eapply rgood_same; [| | |exact G]; reflexivity.
      + subst root. cbn [racts]. apply length_rresize.
      + subst root. eapply rfull_same; [| apply incl_refl | exact HB | apply (rfull_allocate _ c Hsh Hcp)]. reflexivity.
  Qed.
End RFull.
