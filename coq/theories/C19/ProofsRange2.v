(* C19/ProofsRange2.v — value_in_range for MCTS and POMCP (repaired rollout length). *)
From Coq Require Import QArith List Arith Bool Lia Lqa.
From AIT Require Import C19.Model C19.Spec C19.Proofs C19.ProofsMCTS C19.ProofsPOMCP C19.ProofsRange.
Import ListNotations.
Local Open Scope nat_scope.

#[local] Opaque Qred.

Section RangeSim.
  Variable A : nat.
  Variable term : nat -> bool.
  Variable R disc : Q.
  Variable h : nat.
  Hypothesis HA : 0 < A.
  Hypothesis HR : (0 <= R)%Q.
  Hypothesis Hdisc : (0 <= disc)%Q.

  Notation RI := (rets_in R disc h).

  Lemma zero_in : forall k, in_pm (R * geom disc k) 0%Q.
  Proof.
    intros k. pose proof (geom_nonneg disc k Hdisc).
    assert (0 <= R * geom disc k)%Q by (apply Qmult_le_0_compat; assumption).
    unfold in_pm; split; lra.
  Qed.

  Lemma mcts_simulate_range : forall fuel d sn s tr sn' ret tr' st,
    d < h -> trace_ok A tr -> rewards_in R tr -> length (acts sn) = A -> tree_all_d RI d sn ->
    mcts_simulate (fun _ => A) term disc rl_fixed fuel h d sn s tr = (sn', ret, tr', st) ->
    tree_all_d RI d sn' /\ in_pm (vbound R disc h d) ret /\ rewards_in R tr' /\ trace_ok A tr' /\
    length (acts sn') = A.
  Proof.
    induction fuel as [|fuel IH]; intros d sn s tr sn' ret tr' st Hd Htr Hrw Hlen Hg H; cbn [mcts_simulate] in H.
    - inversion H; subst sn' ret tr' st.
      split; [exact Hg|split; [apply zero_in|split; [exact Hrw|split; [exact Htr|exact Hlen]]]].
    - destruct (next tr) as [e tr1] eqn:En.
      destruct (next_trace_ok _ _ _ _ HA Htr En) as [Hea Htr1].
      destruct (next_rewards_in _ _ _ _ HR Hrw En) as [Her Hrw1].
      assert (Hea' : ea e < length (acts sn)) by (rewrite Hlen; exact Hea).
      destruct ((d + 1 <? h) && negb (term (es1 e))) eqn:Eif.
      + apply andb_prop in Eif. destruct Eif as [Elt _]. apply Nat.ltb_lt in Elt.
        destruct (find_kid (es1 e) (kids (nth (ea e) (acts sn) act0))) as [c|] eqn:Ef.
        * destruct (mcts_simulate (fun _ => A) term disc rl_fixed fuel h (d + 1) (allocate A c) (es1 e) tr1) as [[[c' fr] tr2] st0] eqn:Er.
          inversion H; subst sn' ret tr' st; clear H.
          assert (Hc : tree_all_d RI (S d) c).
          { eapply rin_old_kid; [exact Hg | exact Hea' | apply find_kid_In; exact Ef]. }
          apply (rin_allocate A) in Hc. replace (S d) with (d + 1) in Hc by lia.
          assert (Hlc : length (acts (allocate A c)) = A) by (unfold allocate; cbn [acts]; apply length_resize).
          destruct (IH _ _ _ _ _ _ _ _ Elt Htr1 Hrw1 Hlc Hc Er) as [G [Bf [Rw [Tk _]]]].
          assert (Bret : in_pm (vbound R disc h d) (Qred (er e + disc * fr))).
          { apply deeper_in; auto. unfold vbound in Bf. replace (h - d - 1) with (h - (d + 1)) by lia. exact Bf. }
          split; [|split; [exact Bret|split; [exact Rw|split; [exact Tk|cbn [acts]; rewrite length_upd; exact Hlen]]]].
          apply rin_rebuild; auto.
          apply rin_set_kid; auto. replace (S d) with (d + 1) by lia. exact G.
        * destruct (rollout term disc (rl_fixed h d) (es1 e) 1 0 tr1) as [[fr tr2] st0] eqn:Er.
          inversion H; subst sn' ret tr' st; clear H.
          assert (HL : rl_fixed h d <= h - d - 1) by (unfold rl_fixed; lia).
          destruct (rollout_in_pm term disc R _ _ _ _ _ _ (h - d - 1) Hdisc HR Hrw1 HL Er) as [Bf Rw].
          assert (Bret : in_pm (vbound R disc h d) (Qred (er e + disc * fr))) by (apply deeper_in; auto).
          split; [|split; [exact Bret|split; [exact Rw|split; [eapply rollout_trace_ok; eauto|cbn [acts]; rewrite length_upd; exact Hlen]]]].
          apply rin_rebuild; auto.
          apply rin_set_kid; auto. apply rin_leaf.
      + inversion H; subst sn' ret tr' st; clear H.
        split; [|split; [apply one_step_in; auto|split; [exact Hrw1|split; [exact Htr1|cbn [acts]; rewrite length_upd; exact Hlen]]]].
        apply rin_rebuild; auto; [apply one_step_in; auto|].
        apply rin_old_kid; auto.
  Qed.

  Lemma mcts_loop_range : forall iters g s tr g' tr' sts,
    0 < h -> trace_ok A tr -> rewards_in R tr -> length (acts g) = A -> tree_all_d RI 0 g ->
    mcts_loop (fun _ => A) term disc rl_fixed iters h g s tr = (g', tr', sts) -> tree_all_d RI 0 g'.
  Proof.
    induction iters as [|i IH]; intros g s tr g' tr' sts Hh Htr Hrw Hlen Hg H; cbn [mcts_loop] in H.
    - inversion H; subst g' tr' sts; auto.
    - destruct (mcts_simulate (fun _ => A) term disc rl_fixed h h 0 g s tr) as [[[g1 r1] tr1] st1] eqn:E1.
      destruct (mcts_loop (fun _ => A) term disc rl_fixed i h g1 s tr1) as [[g2 tr2] sts2] eqn:E2.
      inversion H; subst g' tr' sts; clear H.
      destruct (mcts_simulate_range _ _ _ _ _ _ _ _ _ Hh Htr Hrw Hlen Hg E1) as [G [_ [Rw [Tk L]]]].
      eapply IH; eauto.
  Qed.

  Lemma mcts_run_range : forall iters g s tr g' a tr' sts,
    trace_ok A tr -> rewards_in R tr -> length (acts g) = A -> tree_all_d RI 0 g ->
    mcts_runSimulation (fun _ => A) term disc rl_fixed iters h g s tr = (g', a, tr', sts) -> tree_all_d RI 0 g'.
  Proof.
    intros iters g s tr g' a tr' sts Htr Hrw Hlen Hg H. unfold mcts_runSimulation in H.
    destruct (Nat.eqb h 0) eqn:Eh.
    - inversion H; subst g' a tr' sts. auto.
    - apply Nat.eqb_neq in Eh.
      destruct (mcts_loop (fun _ => A) term disc rl_fixed iters h g s tr) as [[g2 tr2] sts2] eqn:E2.
      inversion H; subst g' a tr' sts; clear H.
      assert (Hh : 0 < h) by lia. eapply mcts_loop_range; eauto.
  Qed.

  Lemma pomcp_simulate_range : forall fuel d b s tr b' ret tr' st,
    d < h -> trace_ok A tr -> rewards_in R tr -> length (acts b) = A -> tree_all_d RI d b ->
    pomcp_simulate A term disc rl_fixed fuel h d b s tr = (b', ret, tr', st) ->
    tree_all_d RI d b' /\ in_pm (vbound R disc h d) ret /\ rewards_in R tr' /\ trace_ok A tr' /\
    length (acts b') = A.
  Proof.
    induction fuel as [|fuel IH]; intros d b s tr b' ret tr' st Hd Htr Hrw Hlen Hg H; cbn [pomcp_simulate] in H.
    - inversion H; subst b' ret tr' st.
      split; [exact Hg|split; [apply zero_in|split; [exact Hrw|split; [exact Htr|exact Hlen]]]].
    - destruct (next tr) as [e tr1] eqn:En.
      destruct (next_trace_ok _ _ _ _ HA Htr En) as [Hea Htr1].
      destruct (next_rewards_in _ _ _ _ HR Hrw En) as [Her Hrw1].
      assert (Hea' : ea e < length (acts b)) by (rewrite Hlen; exact Hea).
      destruct (find_kid (eo e) (kids (nth (ea e) (acts b) act0))) as [c|] eqn:Ef.
      + assert (Hc : tree_all_d RI (S d) c).
        { eapply rin_old_kid; [exact Hg | exact Hea' | apply find_kid_In; exact Ef]. }
        fold (pushed c (es1 e)) in H.
        assert (Hc1 : tree_all_d RI (S d) (pushed c (es1 e))) by (apply rin_set_bel; exact Hc).
        destruct ((d + 1 <? h) && negb (term (es1 e))) eqn:Eif.
        * apply andb_prop in Eif. destruct Eif as [Elt _]. apply Nat.ltb_lt in Elt.
          destruct (pomcp_simulate A term disc rl_fixed fuel h (d + 1) (allocate A (pushed c (es1 e))) (es1 e) tr1) as [[[c' fr] tr2] st0] eqn:Er.
          inversion H; subst b' ret tr' st; clear H.
          apply (rin_allocate A) in Hc1. replace (S d) with (d + 1) in Hc1 by lia.
          assert (Hlc : length (acts (allocate A (pushed c (es1 e)))) = A) by (unfold allocate; cbn [acts]; apply length_resize).
          destruct (IH _ _ _ _ _ _ _ _ Elt Htr1 Hrw1 Hlc Hc1 Er) as [G [Bf [Rw [Tk _]]]].
          assert (Bret : in_pm (vbound R disc h d) (Qred (er e + disc * fr))).
          { apply deeper_in; auto. unfold vbound in Bf. replace (h - d - 1) with (h - (d + 1)) by lia. exact Bf. }
          split; [|split; [exact Bret|split; [exact Rw|split; [exact Tk|cbn [acts]; rewrite length_upd; exact Hlen]]]].
          apply rin_rebuild; auto.
          apply rin_set_kid; auto. replace (S d) with (d + 1) by lia. exact G.
        * inversion H; subst b' ret tr' st; clear H.
          assert (Bret : in_pm (vbound R disc h d) (Qred (er e + disc * 0))) by (apply deeper_in; auto; apply zero_in).
          split; [|split; [exact Bret|split; [exact Hrw1|split; [exact Htr1|cbn [acts]; rewrite length_upd; exact Hlen]]]].
          apply rin_rebuild; auto.
          apply rin_set_kid; auto.
      + destruct (rollout term disc (rl_fixed h d) (es1 e) 1 0 tr1) as [[fr tr2] st0] eqn:Er.
        inversion H; subst b' ret tr' st; clear H.
        assert (HL : rl_fixed h d <= h - d - 1) by (unfold rl_fixed; lia).
          destruct (rollout_in_pm term disc R _ _ _ _ _ _ (h - d - 1) Hdisc HR Hrw1 HL Er) as [Bf Rw].
        assert (Bret : in_pm (vbound R disc h d) (Qred (er e + disc * fr))) by (apply deeper_in; auto).
        split; [|split; [exact Bret|split; [exact Rw|split; [eapply rollout_trace_ok; eauto|cbn [acts]; rewrite length_upd; exact Hlen]]]].
        apply rin_rebuild; auto.
        apply rin_set_kid; auto. apply rin_leaf.
  Qed.

  Lemma pomcp_loop_range : forall iters g tr g' tr' sts,
    0 < h -> trace_ok A tr -> rewards_in R tr -> length (acts g) = A -> tree_all_d RI 0 g ->
    pomcp_loop A term disc rl_fixed iters h g tr = (g', tr', sts) -> tree_all_d RI 0 g'.
  Proof.
    induction iters as [|i IH]; intros g tr g' tr' sts Hh Htr Hrw Hlen Hg H; cbn [pomcp_loop] in H.
    - inversion H; subst g' tr' sts; auto.
    - destruct (pomcp_simulate A term disc rl_fixed h h 0 g (root_particle tr) tr) as [[[g1 r1] tr1] st1] eqn:E1.
      destruct (pomcp_loop A term disc rl_fixed i h g1 tr1) as [[g2 tr2] sts2] eqn:E2.
      inversion H; subst g' tr' sts; clear H.
      destruct (pomcp_simulate_range _ _ _ _ _ _ _ _ _ Hh Htr Hrw Hlen Hg E1) as [G [_ [Rw [Tk L]]]].
      eapply IH; eauto.
  Qed.

  Lemma pomcp_run_range : forall iters g tr g' a tr' sts,
    trace_ok A tr -> rewards_in R tr -> length (acts g) = A -> tree_all_d RI 0 g ->
    pomcp_runSimulation A term disc rl_fixed iters h g tr = (g', a, tr', sts) -> tree_all_d RI 0 g'.
  Proof.
    intros iters g tr g' a tr' sts Htr Hrw Hlen Hg H. unfold pomcp_runSimulation in H.
    destruct (Nat.eqb h 0) eqn:Eh.
    - inversion H; subst g' a tr' sts. auto.
    - apply Nat.eqb_neq in Eh.
      destruct (pomcp_loop A term disc rl_fixed iters h g tr) as [[g2 tr2] sts2] eqn:E2.
      inversion H; subst g' a tr' sts; clear H.
      assert (Hh : 0 < h) by lia. eapply pomcp_loop_range; eauto.
  Qed.

  (* re-rooting a subtree computed for the horizon hp <= h + 1 *)
  Lemma reroot : forall hp d c, hp <= h + 1 ->
    tree_all_d (rets_in R disc hp) (S d) c -> tree_all_d RI d c.
  Proof.
    intros hp d c Hhp H. eapply tree_all_d_shift; [|exact H].
    intros d0 x Hx. unfold rets_in in *. eapply Forall_impl; [|exact Hx].
    intros a Ha. eapply Forall_impl; [|exact Ha].
    intros r Hr. eapply in_pm_mono; [|exact Hr]. apply vbound_mono; auto. lia.
  Qed.
End RangeSim.

(* ------------------------------------------------------------------ op-level statements ---- *)

Definition mop_h' (op : mop) : nat := match op with MFresh _ h => h | MAdvance _ _ h => h end.
Definition pop_h' (op : pop) : nat := match op with PFresh _ h => h | PAdvance _ _ h _ => h end.

(* One call of sampleAction: if the tree it starts from is consistent and in range for the previous
   horizon hp <= h + 1 (vacuous for a call from scratch), the resulting tree is in range for h. *)
Lemma mcts_range_lemma : forall A term disc R iters g hp op tr g' a tr' sts,
  0 < A -> (0 <= R)%Q -> (0 <= disc)%Q -> trace_ok A tr -> rewards_in R tr ->
  counts_ok g /\ mean_ok g /\ shape_ok A g ->
  tree_all_d (rets_in R disc hp) 0 g -> hp <= mop_h' op + 1 ->
  mcts_op (fun _ => A) term disc rl_fixed iters g op tr = (g', a, tr', sts) ->
  tree_all_d (rets_in R disc (mop_h' op)) 0 g' /\ tree_all_d (value_in R disc (mop_h' op)) 0 g'.
Proof.
  intros A term disc R iters g hp op tr g' a tr' sts HA HR Hd Htr Hrw Hgood Hri Hhp H.
  assert (Hg : tree_all (good A) g).
  { destruct Hgood as [X [Y Z]].
    pose proof (tree_all_and _ _ _ X (tree_all_and _ _ _ Y Z)) as HH.
    eapply tree_all_impl; [|exact HH]. intros x [p [q r]]. split; [|split]; assumption. }
  assert (Hg' : tree_all (good A) g').
  { destruct (mcts_op_good A term disc rl_fixed HA _ _ _ _ _ _ _ _ Htr Hg H) as [X _]. exact X. }
  assert (Hr' : tree_all_d (rets_in R disc (mop_h' op)) 0 g').
  { assert (Hfresh : forall s h, mcts_fresh (fun _ => A) term disc rl_fixed iters s h tr = (g', a, tr', sts) ->
                                 tree_all_d (rets_in R disc h) 0 g').
    { intros s h E. unfold mcts_fresh in E.
      eapply (mcts_run_range A term R disc h HA HR Hd); try exact E; auto.
      - unfold allocate; cbn [acts]; apply length_resize.
      - apply rin_allocate. apply rin_leaf. }
    destruct op as [s h|a0 s1 h]; cbn [mcts_op mop_h'] in *.
    - eapply Hfresh; eauto.
    - unfold mcts_advance in H.
      destruct (find_kid s1 (kids (nth a0 (acts g) act0))) as [c|] eqn:Ef.
      + apply find_kid_In in Ef.
        destruct (Nat.lt_ge_cases a0 (length (acts g))) as [Hlt|Hge];
          [|rewrite nth_overflow in Ef by exact Hge; destruct Ef].
        assert (Hc : tree_all_d (rets_in R disc hp) 1 c).
        { apply tree_all_d_inv in Hri. destruct Hri as [_ Hk]. eapply Hk; [apply nth_In; exact Hlt|exact Ef]. }
        assert (Hc0 : tree_all_d (rets_in R disc h) 0 c) by (eapply reroot; eauto).
        clear Hc; rename Hc0 into Hc.
        eapply (mcts_run_range A term R disc h HA HR Hd); try exact H; auto.
        * unfold allocate; cbn [acts]; apply length_resize.
        * apply rin_allocate. exact Hc.
      + eapply Hfresh; eauto. }
  split; [exact Hr'|]. eapply good_rets_value; eauto.
Qed.

Lemma pomcp_range_lemma : forall A term disc R iters g hp op tr g' a tr' sts,
  0 < A -> (0 <= R)%Q -> (0 <= disc)%Q -> trace_ok A tr -> rewards_in R tr ->
  counts_ok g /\ mean_ok g /\ shape_ok A g ->
  tree_all_d (rets_in R disc hp) 0 g -> hp <= pop_h' op + 1 ->
  pomcp_op A term disc rl_fixed iters g op tr = (g', a, tr', sts) ->
  tree_all_d (rets_in R disc (pop_h' op)) 0 g' /\ tree_all_d (value_in R disc (pop_h' op)) 0 g'.
Proof.
  intros A term disc R iters g hp op tr g' a tr' sts HA HR Hd Htr Hrw Hgood Hri Hhp H.
  assert (Hg : tree_all (good A) g).
  { destruct Hgood as [X [Y Z]].
    pose proof (tree_all_and _ _ _ X (tree_all_and _ _ _ Y Z)) as HH.
    eapply tree_all_impl; [|exact HH]. intros x [p [q r]]. split; [|split]; assumption. }
  assert (Hg' : tree_all (good A) g').
  { destruct (pomcp_op_good A term disc rl_fixed HA _ _ _ _ _ _ _ _ Htr Hg H) as [X _]. exact X. }
  assert (Hr' : tree_all_d (rets_in R disc (pop_h' op)) 0 g').
  { assert (Hfresh : forall ps h, pomcp_fresh A term disc rl_fixed iters ps h tr = (g', a, tr', sts) ->
                                  tree_all_d (rets_in R disc h) 0 g').
    { intros ps h E. unfold pomcp_fresh in E.
      eapply (pomcp_run_range A term R disc h HA HR Hd); try exact E; auto.
      - cbn [acts]; apply length_resize.
      - pose proof (rin_allocate A R disc h 0 (Node 0 ps []) (rin_leaf R disc h 0 0 ps)) as X.
        unfold allocate in X. cbn [nN bel acts] in X. exact X. }
    destruct op as [ps h|a0 o h ps]; cbn [pomcp_op pop_h'] in *.
    - eapply Hfresh; eauto.
    - unfold pomcp_advance in H.
      destruct (find_kid o (kids (nth a0 (acts g) act0))) as [c|] eqn:Ef.
      + apply find_kid_In in Ef.
        destruct (Nat.lt_ge_cases a0 (length (acts g))) as [Hlt|Hge];
          [|rewrite nth_overflow in Ef by exact Hge; destruct Ef].
        assert (Hc : tree_all_d (rets_in R disc hp) 1 c).
        { apply tree_all_d_inv in Hri. destruct Hri as [_ Hk]. eapply Hk; [apply nth_In; exact Hlt|exact Ef]. }
        assert (Hc0 : tree_all_d (rets_in R disc h) 0 c) by (eapply reroot; eauto).
        clear Hc; rename Hc0 into Hc.
        destruct (bel c) as [|p0 pt] eqn:Eb.
        * eapply Hfresh; eauto.
        * eapply (pomcp_run_range A term R disc h HA HR Hd); try exact H; auto.
          -- unfold allocate; cbn [acts]; apply length_resize.
          -- apply rin_allocate. exact Hc.
      + eapply Hfresh; eauto. }
  split; [exact Hr'|]. eapply good_rets_value; eauto.
Qed.

(* /repo today (rl_orig): horizon 2, unit rewards, no discount: the root estimate is 4 > 2 *)
Lemma mcts_range_refuted_lemma : exists A term disc R iters s h tr g' a tr' sts,
  0 < A /\ (0 <= R)%Q /\ (0 <= disc)%Q /\ trace_ok A tr /\ rewards_in R tr /\
  mcts_op (fun _ => A) term disc rl_orig iters node0 (MFresh s h) tr = (g', a, tr', sts) /\
  ~ tree_all_d (value_in R disc h) 0 g'.
Proof.
  exists 1, (fun _ => false), 1%Q, 1%Q, 1, 0, 2.
  exists [Ev 0 0 0 0 1%Q; Ev 0 0 0 0 1%Q; Ev 0 0 0 0 1%Q; Ev 0 0 0 0 1%Q].
  eexists. eexists. eexists. eexists.
  split; [lia|]. split; [lra|]. split; [lra|]. split; [repeat constructor|].
  split; [repeat constructor; cbn; lra|].
  split; [vm_compute; reflexivity|].
  intro H. apply tree_all_d_inv in H. destruct H as [H _].
  unfold value_in in H. cbn [acts] in H. inversion H as [|x l Hx Hl]; subst.
  cbn [aN aV] in Hx. specialize (Hx ltac:(lia)). destruct Hx as [_ Hx].
  vm_compute in Hx. apply Hx. reflexivity.
Qed.

Lemma pomcp_range_refuted_lemma : exists A term disc R iters ps h tr g' a tr' sts,
  0 < A /\ (0 <= R)%Q /\ (0 <= disc)%Q /\ trace_ok A tr /\ rewards_in R tr /\
  pomcp_op A term disc rl_orig iters node0 (PFresh ps h) tr = (g', a, tr', sts) /\
  ~ tree_all_d (value_in R disc h) 0 g'.
Proof.
  exists 1, (fun _ => false), 1%Q, 1%Q, 1, [0], 1.
  exists [Ev 0 0 0 0 1%Q; Ev 0 0 0 0 1%Q; Ev 0 0 0 0 1%Q].
  eexists. eexists. eexists. eexists.
  split; [lia|]. split; [lra|]. split; [lra|]. split; [repeat constructor|].
  split; [repeat constructor; cbn; lra|].
  split; [vm_compute; reflexivity|].
  intro H. apply tree_all_d_inv in H. destruct H as [H _].
  unfold value_in in H. cbn [acts] in H. inversion H as [|x l Hx Hl]; subst.
  cbn [aN aV] in Hx. specialize (Hx ltac:(lia)). destruct Hx as [_ Hx].
  vm_compute in Hx. apply Hx. reflexivity.
Qed.
