(* C19/ProofsR2.v — rPOMCP: invariant preservation, horizon, action range, histories. *)
From Coq Require Import QArith List Arith Bool Lia Lqa.
From AIT Require Import C19.Model C19.Spec C19.Proofs C19.ModelR C19.SpecR C19.ProofsR.
Import ListNotations.
Local Open Scope nat_scope.

#[local] Opaque Qred.

Definition rgood (A : nat) (n : rnode) : Prop :=
  rcounts_local n /\ rmean_local n /\ rshape_local A n /\ rpart_local n.

Lemma rtree_all_inv : forall P n, rtree_all P n ->
  P n /\ (forall a k c, In a (racts n) -> In (k, c) (rkids a) -> rtree_all P c).
Proof. intros P n H; inversion H; subst; auto. Qed.

Lemma rtree_all_impl : forall (P Q : rnode -> Prop) n, (forall x, P x -> Q x) -> rtree_all P n -> rtree_all Q n.
Proof.
  intros P Q n HPQ H; induction H as [n Hp Hk IH]. constructor; [auto|]. intros; eapply IH; eauto.
Qed.

Lemma rtree_all_and : forall P Q n, rtree_all P n -> rtree_all Q n -> rtree_all (fun x => P x /\ Q x) n.
Proof.
  intros P Q n H; induction H as [n Hp Hk IH]; intros HQ.
  apply rtree_all_inv in HQ. destruct HQ as [Hq Hqk].
  constructor; [auto|]. intros a k c Ha Hc. eapply IH; eauto.
Qed.

Lemma rgood_node0 : forall A, rtree_all (rgood A) rnode0.
Proof.
  intros A. constructor.
  - split; [split; [reflexivity|constructor]|]. split; [constructor|]. split; [left; reflexivity|].
    intros a k c [].
  - intros a k c [].
Qed.

(* the invariant only looks at N, leaf, the actions (and the children's particles) *)
Lemma rgood_same : forall A n m, rN m = rN n -> rleaf m = rleaf n -> racts m = racts n ->
  rtree_all (rgood A) n -> rtree_all (rgood A) m.
Proof.
  intros A n m HN HL HA H. apply rtree_all_inv in H. destruct H as [[[C1 C2] [M [S P]]] K].
  constructor.
  - unfold rgood, rcounts_local, rmean_local, rshape_local, rpart_local in *. rewrite HN, HL, HA.
    split; [split; assumption|]. split; [assumption|]. split; assumption.
  - rewrite HA. exact K.
Qed.

Lemma rmean_update : forall a x ks, rmean_act a -> rmean_act (ract_update a x ks).
Proof.
  intros [n v rs ks0] x ks [Hn Hv]. unfold ract_update, rmean_act in *. cbn [raN raV rrets] in *.
  split.
  - rewrite app_length. cbn [length]. lia.
  - rewrite Qred_correct.
    assert (Hs : (sumq (rs ++ [x]) == sumq rs + x)%Q).
    { clear. induction rs as [|y t IH]; cbn [app sumq fold_right]; [ring|].
      change (fold_right Qplus 0%Q (t ++ [x])) with (sumq (t ++ [x])). rewrite IH.
      change (fold_right Qplus 0%Q t) with (sumq t). ring. }
    rewrite Hs, <- Hv.
    unfold qnat. rewrite Nat2Z.inj_succ. unfold Z.succ. rewrite inject_Z_plus.
    assert (Hpos : ~ (inject_Z (Z.of_nat n) + inject_Z 1 == 0)%Q).
    { assert (0 <= inject_Z (Z.of_nat n))%Q by (change 0%Q with (inject_Z 0); rewrite <- Zle_Qle; lia).
      change (inject_Z 1) with 1%Q. lra. }
    field. exact Hpos.
Qed.

Section RInv.
  Variable A : nat.
  Variable term : nat -> bool.
  Variable disc : Q.
  Variable k : nat.
  Variable entropy : bool.
  Variable plogp : nat -> nat -> Q.
  Hypothesis HA : 0 < A.

  Notation upd_node := (r_update entropy plogp).
  Notation sim := (r_simulate A term disc k entropy plogp).

  Lemma r_allocate_good : forall n, rtree_all (rgood A) n ->
    rtree_all (rgood A) (r_allocate A n) /\ length (racts (r_allocate A n)) = A.
  Proof.
    intros n H. split; [|unfold r_allocate; cbn [racts]; apply length_rresize].
    pose proof H as H0. apply rtree_all_inv in H. destruct H as [[[C1 C2] [M [S P]]] K].
    destruct S as [Hnil|Hlen].
    - unfold r_allocate. rewrite Hnil in *. constructor.
      + unfold rgood, rcounts_local, rmean_local, rshape_local, rpart_local. cbn [rN rleaf racts].
        split; [split|split; [|split]].
        * cbn [map sumn fold_right] in C1. rewrite rresize_nil_sum. exact C1.
        * apply Forall_forall. intros a Ha. apply rresize_nil_all0 in Ha. subst a. reflexivity.
        * apply Forall_forall. intros a Ha.
          apply rresize_nil_all0 in Ha. subst. split; [reflexivity|]. cbn. reflexivity.
        * right. apply length_rresize.
        * intros a k0 c Ha Hc. apply rresize_nil_all0 in Ha. subst a. destruct Hc.
      + cbn [racts]. intros a k0 c Ha Hc. apply rresize_nil_all0 in Ha. subst a. destruct Hc.
    - eapply rgood_same; [| | |exact H0]; unfold r_allocate; cbn [rN rleaf racts]; try reflexivity.
      rewrite <- Hlen. apply rresize_id.
  Qed.

  (* the node rebuilt at the end of simulate *)
  Lemma r_rebuild_good : forall b b' a x o ot2,
    rtree_all (rgood A) b -> length (racts b) = A -> a < A ->
    rtree_all (rgood A) ot2 ->
    rN ot2 = S (rN (found_or0 o (rkids (nth a (racts b) ract0)))) -> tcount (rtrack ot2) = rN ot2 ->
    rN b' = S (rN b) -> rleaf b' = rleaf b ->
    racts b' = upd a (fun _ => ract_update (nth a (racts b) ract0) x (rset_kid o ot2 (rkids (nth a (racts b) ract0)))) (racts b) ->
    rtree_all (rgood A) b'.
  Proof.
    intros b b' a x o ot2 H Hlen Ha Hot HNot Htc HN HL Hacts.
    apply rtree_all_inv in H. destruct H as [[[C1 C2] [M [S P]]] K].
    assert (Ha' : a < length (racts b)) by lia.
    set (aNode := nth a (racts b) ract0) in *.
    assert (HaIn : In aNode (racts b)) by (apply nth_In; exact Ha').
    constructor.
    - split; [split|split; [|split]].
      + rewrite HN, HL, Hacts.
        pose proof (sumn_upd_gen _ raN ract0 (racts b) a (ract_update aNode x (rset_kid o ot2 (rkids aNode))) Ha') as E.
        fold aNode in E. unfold ract_update in E at 2. cbn [raN] in E. lia.
      + rewrite Hacts. apply Forall_forall. intros y Hy.
        apply (In_upd _ _ ract0) in Hy. destruct Hy as [Hy|[_ Hy]].
        * rewrite Forall_forall in C2. auto.
        * subst y. unfold ract_update. cbn [raN rkids].
          pose proof (sumk_set o ot2 (rkids aNode)) as E.
          rewrite Forall_forall in C2. specialize (C2 aNode HaIn). lia.
      + unfold rmean_local in *. rewrite Hacts. apply Forall_forall. intros y Hy.
        apply (In_upd _ _ ract0) in Hy. destruct Hy as [Hy|[_ Hy]].
        * rewrite Forall_forall in M. auto.
        * subst y. apply rmean_update. rewrite Forall_forall in M. auto.
      + right. rewrite Hacts, length_upd. exact Hlen.
      + intros y k0 c Hy Hc. rewrite Hacts in Hy.
        apply (In_upd _ _ ract0) in Hy. destruct Hy as [Hy|[_ Hy]].
        * eapply P; eauto.
        * subst y. unfold ract_update in Hc. cbn [rkids] in Hc.
          apply In_rset_kid in Hc. destruct Hc as [[_ ->]|Hc]; [exact Htc|].
          eapply P; eauto.
    - intros y k0 c Hy Hc. rewrite Hacts in Hy.
      apply (In_upd _ _ ract0) in Hy. destruct Hy as [Hy|[_ Hy]].
      + eapply K; eauto.
      + subst y. unfold ract_update in Hc. cbn [rkids] in Hc.
        apply In_rset_kid in Hc. destruct Hc as [[_ ->]|Hc]; [exact Hot|].
        eapply K; eauto.
  Qed.

  Lemma r_simulate_good : forall fuel h d b s tr b' ret tr' st,
    d < h -> h - d <= fuel -> trace_ok A tr -> rtree_all (rgood A) b -> length (racts b) = A ->
    sim fuel h d b s tr = (b', ret, tr', st) ->
    rtree_all (rgood A) b' /\ length (racts b') = A /\ trace_ok A tr' /\
    rN b' = S (rN b) /\ rleaf b' = rleaf b /\ rtrack b' = rtrack b /\ st <= h - d.
  Proof.
    induction fuel as [|fuel IH]; intros h d b s tr b' ret tr' st Hd Hf Htr Hg Hlen H; [lia|].
    pose proof (r_simulate_step A term disc k entropy plogp _ _ _ _ _ _ _ _ _ _ H) as Hs.
    cbv zeta in Hs. destruct Hs as [ot2 [x [st0 [E [Hst [HN [HL [HT Hacts]]]]]]]].
    destruct (next tr) as [e tr1] eqn:En. cbn [fst snd] in *.
    destruct (next_trace_ok _ _ _ _ HA Htr En) as [Hea Htr1].
    assert (Hea' : ea e < length (racts b)) by lia.
    set (aNode := nth (ea e) (racts b) ract0) in *.
    (* the child the step works on *)
    assert (Hot : rtree_all (rgood A) (found_or0 (eo e) (rkids aNode)) /\
                  tcount (rtrack (found_or0 (eo e) (rkids aNode))) = rN (found_or0 (eo e) (rkids aNode))).
    { unfold found_or0. destruct (rfind_kid (eo e) (rkids aNode)) as [c|] eqn:Ef.
      - apply rfind_kid_In in Ef. apply rtree_all_inv in Hg. destruct Hg as [[_ [_ [_ P]]] K].
        split; [eapply K | eapply P]; eauto; apply nth_In; exact Hea'.
      - split; [apply rgood_node0 | reflexivity]. }
    destruct Hot as [Hot Htc].
    set (ot := found_or0 (eo e) (rkids aNode)) in *.
    destruct (r_update_fields entropy plogp ot (es1 e)) as [U1 [U2 [U3 U4]]].
    assert (Hot1 : rtree_all (rgood A) (upd_node ot (es1 e))) by (eapply rgood_same; eauto).
    assert (Hchild : rtree_all (rgood A) ot2 /\ rN ot2 = S (rN ot) /\ tcount (rtrack ot2) = rN ot2 /\
                     trace_ok A tr' /\ st0 <= h - d - 1).
    { destruct ((d + 1 <? h) &&
                negb (term (es1 e)) &&
                negb match rfind_kid (eo e) (rkids aNode) with Some _ => false | None => true end) eqn:C.
      - apply andb_prop in C. destruct C as [C _]. apply andb_prop in C. destruct C as [C _].
        apply Nat.ltb_lt in C.
        destruct (r_allocate_good _ Hot1) as [Hga Hla].
        assert (Hf' : h - (d + 1) <= fuel) by lia.
        destruct (IH _ _ _ _ _ _ _ _ _ C Hf' Htr1 Hga Hla E) as [G [_ [T [N1 [_ [T1 S1]]]]]].
        split; [exact G|]. split; [rewrite N1; unfold r_allocate; cbn [rN]; lia|].
        split; [rewrite T1, N1; unfold r_allocate; cbn [rN rtrack]; lia|]. split; [exact T|lia].
      - inversion E; subst ot2 x tr' st0. unfold r_leaf_visit.
        split.
        + apply rtree_all_inv in Hot1. destruct Hot1 as [[[C1 C2] [M [Sh P]]] K].
          constructor; [|exact K].
          unfold rgood, rcounts_local, rmean_local, rshape_local, rpart_local in *. cbn [rN rleaf racts].
          split; [split; [lia|exact C2]|]. split; [exact M|]. split; [exact Sh|exact P].
        + cbn [rN rtrack]. split; [lia|]. split; [lia|]. split; [exact Htr1|lia]. }
    destruct Hchild as [G2 [N2 [T2 [Tr' S0]]]].
    split.
    - eapply (r_rebuild_good b b' (ea e) x (eo e) ot2); eauto.
    - split; [rewrite Hacts, length_upd; exact Hlen|]. split; [exact Tr'|].
      split; [exact HN|]. split; [exact HL|]. split; [exact HT|lia].
  Qed.

  Lemma r_loop_good : forall iters h g tr g' tr' sts,
    0 < h -> trace_ok A tr -> rtree_all (rgood A) g -> length (racts g) = A ->
    r_loop A term disc k entropy plogp iters h g tr = (g', tr', sts) ->
    rtree_all (rgood A) g' /\ length (racts g') = A /\ trace_ok A tr' /\
    rN g' = iters + rN g /\ rleaf g' = rleaf g /\ rtrack g' = rtrack g /\
    Forall (fun st => st <= h) sts /\ length sts = iters.
  Proof.
    induction iters as [|i IH]; intros h g tr g' tr' sts Hh Htr Hg Hlen H; cbn [r_loop] in H.
    - inversion H; subst g' tr' sts.
      split; [exact Hg|]. split; [exact Hlen|]. split; [exact Htr|]. split; [reflexivity|].
      split; [reflexivity|]. split; [reflexivity|]. split; [constructor|reflexivity].
    - destruct (sim h h 0 g (root_particle tr) tr) as [[[g1 r1] tr1] st1] eqn:E1.
      destruct (r_loop A term disc k entropy plogp i h g1 tr1) as [[g2 tr2] sts2] eqn:E2.
      inversion H; subst g' tr' sts; clear H.
      assert (Hf : h - 0 <= h) by lia.
      destruct (r_simulate_good _ _ _ _ _ _ _ _ _ _ Hh Hf Htr Hg Hlen E1) as [G1 [L1 [T1 [N1 [F1 [K1 S1]]]]]].
      destruct (IH _ _ _ _ _ _ Hh T1 G1 L1 E2) as [G2 [L2 [T2 [N2 [F2 [K2 [S2 S3]]]]]]].
      split; [exact G2|]. split; [exact L2|]. split; [exact T2|]. split; [lia|].
      split; [congruence|]. split; [congruence|]. split; [constructor; [lia|exact S2]|cbn [length]; lia].
  Qed.

  Lemma best_from_lt : forall l best v i, best < i -> fst (best_from best v i l) < i + length l.
  Proof.
    induction l as [|x t IH]; intros best v i H; cbn [best_from length fst].
    - lia.
    - destruct (Qlt_le_dec v x).
      + specialize (IH i x (S i) ltac:(lia)). lia.
      + specialize (IH best v (S i) ltac:(lia)). lia.
  Qed.

  Lemma find_best_lt : forall l, l <> [] -> fst (find_best l) < length l.
  Proof.
    intros [|x t] H; [congruence|]. cbn [find_best length].
    pose proof (best_from_lt t 0 x 1 ltac:(lia)). lia.
  Qed.

  Lemma r_run_good : forall iters h g tr g' a tr' sts,
    trace_ok A tr -> rtree_all (rgood A) g -> length (racts g) = A ->
    r_runSimulation A term disc k entropy plogp iters h g tr = (g', a, tr', sts) ->
    rtree_all (rgood A) g' /\ length (racts g') = A /\ a < A /\ rleaf g' = rleaf g /\
    Forall (fun st => st <= h) sts.
  Proof.
    intros iters h g tr g' a tr' sts Htr Hg Hlen H. unfold r_runSimulation in H.
    destruct (Nat.eqb h 0) eqn:Eh.
    - inversion H; subst g' a tr' sts.
      split; [exact Hg|]. split; [exact Hlen|]. split; [exact HA|]. split; [reflexivity|constructor].
    - apply Nat.eqb_neq in Eh.
      destruct (r_loop A term disc k entropy plogp iters h g tr) as [[g2 tr2] sts2] eqn:E2.
      destruct (find_best (map raV (racts g2))) as [bestA bestV] eqn:Eb.
      inversion H; subst g' a tr' sts; clear H.
      assert (Hh : 0 < h) by lia.
      destruct (r_loop_good _ _ _ _ _ _ _ Hh Htr Hg Hlen E2) as [G2 [L2 [_ [_ [F2 [_ [S2 _]]]]]]].
      split; [eapply rgood_same; [| | |exact G2]; reflexivity|].
      cbn [racts rleaf]. split; [exact L2|]. split; [|split; [exact F2|exact S2]].
      assert (X : fst (find_best (map raV (racts g2))) < length (map raV (racts g2))).
      { apply find_best_lt. intro E. apply (f_equal (@length Q)) in E. rewrite map_length, L2 in E. cbn in E. lia. }
      rewrite Eb, map_length, L2 in X. exact X.
  Qed.

  Lemma r_op_good : forall iters g op tr sb' g' a tr' sts,
    trace_ok A tr -> rtree_all (rgood A) g ->
    r_op A term disc k entropy plogp iters g op tr = (sb', (g', a, tr', sts)) ->
    rtree_all (rgood A) g' /\ length (racts g') = A /\ a < A /\
    Forall (fun st => st <= match op with RFresh _ h => h | RAdvance _ _ h _ => h end) sts.
  Proof.
    intros iters g op tr sb' g' a tr' sts Htr Hg H.
    assert (Hfresh : forall sb h, r_fresh A term disc k entropy plogp iters sb h tr = (sb', (g', a, tr', sts)) ->
                                  rtree_all (rgood A) g' /\ length (racts g') = A /\ a < A /\ Forall (fun st => st <= h) sts).
    { intros sb h E. unfold r_fresh in E. inversion E as [[E1 E2]]; clear E.
      destruct (r_allocate_good _ (rgood_node0 A)) as [G L].
      destruct (r_run_good _ _ _ _ _ _ _ _ Htr G L E2) as [X1 [X2 [X3 [_ X5]]]]. auto. }
    destruct op as [sb h|a0 o h sb]; cbn [r_op] in H.
    - eapply Hfresh; eauto.
    - unfold r_advance in H.
      destruct (rfind_kid o (rkids (nth a0 (racts g) ract0))) as [c|] eqn:Ef; [|eapply Hfresh; eauto].
      unfold r_promote in H.
      destruct (map (fun p => (fst p, fst (snd p))) (rtrack c)) as [|p0 pt] eqn:Em; [eapply Hfresh; eauto|].
      inversion H as [[E1 E2]]; clear H.
      assert (Hc : rtree_all (rgood A) c).
      { apply rfind_kid_In in Ef. apply rtree_all_inv in Hg. destruct Hg as [_ K].
        destruct (Nat.lt_ge_cases a0 (length (racts g))) as [Hlt|Hge].
        - eapply K; [apply nth_In; exact Hlt | exact Ef].
        - rewrite nth_overflow in Ef by exact Hge. destruct Ef. }
      destruct (r_allocate_good _ Hc) as [G L].
      assert (G' : rtree_all (rgood A) (RNode (rN c) (rV c) (rAV c) (rbest c) (rleaf c) [] (rmaxS c) (rkm c) (rresize A (racts c)))).
      { eapply rgood_same; [| | |exact G]; reflexivity. }
      destruct (r_run_good _ _ _ _ _ _ _ _ Htr G' L E2) as [X1 [X2 [X3 [_ X5]]]]. auto.
  Qed.

  Lemma r_session_good : forall iters ops g,
    rtree_all (rgood A) g -> Forall (fun p => trace_ok A (snd p)) ops ->
    rtree_all (rgood A) (r_session A term disc k entropy plogp iters g ops).
  Proof.
    induction ops as [|[op tr] t IH]; intros g Hg Hops; cbn [r_session]; [exact Hg|].
    inversion Hops as [|? ? Hp Ht]; subst. cbn [snd] in Hp.
    destruct (r_op A term disc k entropy plogp iters g op tr) as [sb' [[[g1 a1] tr1] sts1]] eqn:E.
    apply IH; [|exact Ht].
    eapply r_op_good in E; eauto. tauto.
  Qed.
End RInv.
