(* C19/ProofsR5.v — rPOMCP value range: what the leaf data points range over, and the refutation of
   "every action value lies within the range of the knowledge-measure rewards it averages". *)
From Coq Require Import QArith List Arith Bool Lia Lqa.
From AIT Require Import C19.Model C19.Spec C19.Proofs C19.ModelR C19.SpecR C19.ProofsR.
Import ListNotations.
Local Open Scope nat_scope.

#[local] Opaque Qred.

Lemma tget_le_tcount : forall s t, fst (tget s t) <= tcount t.
Proof.
  intros s t. unfold tget, tcount. induction t as [|[s' v] r IH]; cbn [tfind map fst snd].
  - cbn. lia.
  - change (sumn (?a :: ?b)) with (a + sumn b). destruct (Nat.eqb s s'); [lia|].
    destruct (tfind s r); cbn [fst] in *; lia.
Qed.

(* max-of-belief: the knowledge measure written by updateBeliefAndKnowledge is count/(N+1) in [0,1]
   whenever the node holds exactly one particle per visit (rpart_ok, proved for every history) *)
Lemma r_update_km_unit : forall plogp n s, tcount (rtrack n) = rN n ->
  (0 <= rkm (r_update false plogp n s))%Q /\ (rkm (r_update false plogp n s) <= 1)%Q.
Proof.
  intros plogp n s H.
  destruct (r_update_fields false plogp n s) as [_ [_ [_ U4]]].
  unfold r_update in *. cbn [rkm rtrack] in *.
  set (t2 := ttouch (rmaxS n) (tset s (S (fst (tget s (ttouch s (rtrack n)))), 0%Q) (ttouch s (rtrack n)))) in *.
  set (m := if fst (tget (rmaxS n) t2) <? S (fst (tget s (ttouch s (rtrack n)))) then s else rmaxS n).
  pose proof (tget_le_tcount m t2) as Hle. rewrite U4, H in Hle.
  rewrite Qred_correct. unfold qnat.
  assert (Hd : (0 < inject_Z (Z.of_nat (S (rN n))))%Q) by (change 0%Q with (inject_Z 0); rewrite <- Zlt_Qlt; lia).
  assert (Hn : (0 <= inject_Z (Z.of_nat (fst (tget m t2))))%Q) by (change 0%Q with (inject_Z 0); rewrite <- Zle_Qle; lia).
  assert (Hnd : (inject_Z (Z.of_nat (fst (tget m t2))) <= inject_Z (Z.of_nat (S (rN n))))%Q) by (rewrite <- Zle_Qle; lia).
  split.
  - apply Qle_shift_div_l; [exact Hd|]. lra.
  - apply Qle_shift_div_r; [exact Hd|]. lra.
Qed.

(* REFUTED: max-of-belief variant, every knowledge measure (the only "reward") lies in [0,1], yet after
   9 simulations with horizon 3 the root action's value is -13/48.  The value handed to the parent,
   (N-1)*(V - oldV) + V, presumes that the parent averaged N-1 earlier data points equal to oldV; visits
   of the node as a leaf (terminal s1) contributed 0 instead, and are counted in N. *)
Lemma r_range_refuted_lemma : exists A term disc k iters sb h tr sb' g' a tr' sts,
  0 < A /\ trace_ok A tr /\
  r_op A term disc k false (fun _ _ => 0%Q) iters rnode0 (RFresh sb h) tr = (sb', (g', a, tr', sts)) /\
  tr' = [] /\ exists x, In x (racts g') /\ 0 < raN x /\ (raV x < 0)%Q.
Proof.
  exists 1, (fun s => 2 <=? s), (1#4)%Q, 500, 9, [(0, 1)], 3.
  exists [Ev 0 0 1 0 0; Ev 0 0 1 0 0; Ev 1 0 1 0 0; Ev 0 0 2 0 0; Ev 0 0 3 0 0; Ev 0 0 4 0 0;
          Ev 0 0 2 0 0; Ev 0 0 3 0 0; Ev 0 0 4 0 0; Ev 0 0 1 0 0; Ev 1 0 1 0 0; Ev 1 0 1 0 0]%Q.
  eexists. eexists. eexists. eexists. eexists.
  split; [lia|]. split; [repeat (apply Forall_cons; [cbn; lia|]); apply Forall_nil|].
  split; [vm_compute; reflexivity|]. split; [reflexivity|].
  eexists. split; [left; reflexivity|]. split; [cbn; lia | vm_compute; reflexivity].
Qed.
