(* C19/ProofsDisc.v — round 6: the model's discount is read at use time (model_.getDiscount() in
   MCTS::simulate, POMCP::simulate, MDP::rollout, rPOMCP::simulate), never cached by the planner, and
   the planner holds the model by const reference: the discount may change between two sampleAction
   calls.  The machines of Model.v already take the discount as an argument of every call
   ([mcts_op], [pomcp_op], [r_op]); here a history carries its own discount PER CALL and the
   tree-consistency theorems are re-established for such histories (add-only: nothing in Model.v /
   Spec.v changes).  Within one call every backup and every rollout step uses that call's discount
   ([return_is_discounted_sum_*], stated per simulation for an arbitrary [disc]). *)
From Coq Require Import QArith List Arith Bool Lia.
From AIT Require Import C19.Model C19.Spec C19.Proofs C19.ProofsMCTS C19.ProofsPOMCP C19.ProofsTop.
Import ListNotations.
Local Open Scope nat_scope.

(* src: MCTS.hpp / POMCP.hpp: model_.getDiscount() evaluated inside simulate / rollout of each call *)
Fixpoint mcts_session_d gA term rl iters (g : node) (ops : list (Q * mop * trace)) : node :=
  match ops with
  | [] => g
  | (d, op, tr) :: t =>
    let '(g', _, _, _) := mcts_op gA term d rl iters g op tr in
    mcts_session_d gA term rl iters g' t
  end.

Fixpoint pomcp_session_d A term rl iters (g : node) (ops : list (Q * pop * trace)) : node :=
  match ops with
  | [] => g
  | (d, op, tr) :: t =>
    let '(g', _, _, _) := pomcp_op A term d rl iters g op tr in
    pomcp_session_d A term rl iters g' t
  end.

(* a constant discount gives back the sessions of Model.v *)
Lemma mcts_session_d_const : forall gA term disc rl iters ops g,
  mcts_session_d gA term rl iters g (map (fun p => (disc, fst p, snd p)) ops)
  = mcts_session gA term disc rl iters g ops.
Proof.
  induction ops as [|[op tr] t IH]; intros g; cbn [map mcts_session_d mcts_session fst snd]; [reflexivity|].
  destruct (mcts_op gA term disc rl iters g op tr) as [[[g1 a1] tr1] sts1]. apply IH.
Qed.

Lemma pomcp_session_d_const : forall A term disc rl iters ops g,
  pomcp_session_d A term rl iters g (map (fun p => (disc, fst p, snd p)) ops)
  = pomcp_session A term disc rl iters g ops.
Proof.
  induction ops as [|[op tr] t IH]; intros g; cbn [map pomcp_session_d pomcp_session fst snd]; [reflexivity|].
  destruct (pomcp_op A term disc rl iters g op tr) as [[[g1 a1] tr1] sts1]. apply IH.
Qed.

Lemma mcts_session_d_good : forall A term rl iters, 0 < A -> forall ops g,
  tree_all (good A) g -> Forall (fun p => trace_ok A (snd p)) ops ->
  tree_all (good A) (mcts_session_d (fun _ => A) term rl iters g ops).
Proof.
  intros A term rl iters HA.
  induction ops as [|[[d op] tr] t IH]; intros g Hg Hops; cbn [mcts_session_d]; [exact Hg|].
  inversion Hops as [|? ? Hp Ht]; subst. cbn [snd] in Hp.
  destruct (mcts_op (fun _ => A) term d rl iters g op tr) as [[[g1 a1] tr1] sts1] eqn:E.
  apply IH; [|exact Ht].
  eapply mcts_op_good in E; eauto. tauto.
Qed.

Lemma pomcp_session_d_good : forall A term rl iters, 0 < A -> forall ops g,
  tree_all (good A) g -> Forall (fun p => trace_ok A (snd p)) ops ->
  tree_all (good A) (pomcp_session_d A term rl iters g ops).
Proof.
  intros A term rl iters HA.
  induction ops as [|[[d op] tr] t IH]; intros g Hg Hops; cbn [pomcp_session_d]; [exact Hg|].
  inversion Hops as [|? ? Hp Ht]; subst. cbn [snd] in Hp.
  destruct (pomcp_op A term d rl iters g op tr) as [[[g1 a1] tr1] sts1] eqn:E.
  apply IH; [|exact Ht].
  eapply pomcp_op_good in E; eauto. tauto.
Qed.

Lemma mcts_anydisc_lemma : forall A term rl iters d0 s0 h0 tr0 ops,
  0 < A -> trace_ok A tr0 -> Forall (fun p => trace_ok A (snd p)) ops ->
  let g := mcts_session_d (fun _ => A) term rl iters node0 ((d0, MFresh s0 h0, tr0) :: ops) in
  counts_ok g /\ mean_ok g /\ shape_ok A g.
Proof.
  intros. apply good_split. apply mcts_session_d_good; auto. apply good_node0.
Qed.

Lemma pomcp_anydisc_lemma : forall A term rl iters d0 ps0 h0 tr0 ops,
  0 < A -> trace_ok A tr0 -> Forall (fun p => trace_ok A (snd p)) ops ->
  let g := pomcp_session_d A term rl iters node0 ((d0, PFresh ps0 h0, tr0) :: ops) in
  counts_ok g /\ mean_ok g /\ shape_ok A g.
Proof.
  intros. apply good_split. apply pomcp_session_d_good; auto. apply good_node0.
Qed.
