(* C19/ProofsMCTS.v — MCTS: invariant preservation, returns, horizon, fuel, sessions. *)
From Coq Require Import QArith List Arith Bool Lia Lqa.
From AIT Require Import C19.Model C19.Spec C19.Proofs.
Import ListNotations.
Local Open Scope nat_scope.

#[local] Opaque Qred.

Section MCTS.
  Variable A : nat.
  Variable gA : nat -> nat.           (* variable action space; the lemmas that mention gA hold for any *)
  Variable term : nat -> bool.
  Variable disc : Q.
  Variable rl : nat -> nat -> nat.
  Hypothesis HA : 0 < A.

  Lemma mcts_simulate_good : forall fuel h d sn s tr sn' ret tr' st,
    trace_ok A tr -> tree_all (good A) sn -> length (acts sn) = A ->
    mcts_simulate (fun _ => A) term disc rl fuel h d sn s tr = (sn', ret, tr', st) ->
    tree_all (good A) sn' /\ length (acts sn') = A /\ trace_ok A tr'.
  Proof.
    induction fuel as [|fuel IH]; intros h d sn s tr sn' ret tr' st Htr Hg Hlen H; cbn [mcts_simulate] in H.
    - inversion H; subst sn' ret tr' st; auto.
    - destruct (next tr) as [e tr1] eqn:En.
      destruct (next_trace_ok _ _ _ _ HA Htr En) as [Hea Htr1].
      destruct ((d + 1 <? h) && negb (term (es1 e))) eqn:Eif.
      + destruct (find_kid (es1 e) (kids (nth (ea e) (acts sn) act0))) as [c|] eqn:Ef.
        * destruct (mcts_simulate (fun _ => A) term disc rl fuel h (d + 1) (allocate A c) (es1 e) tr1) as [[[c' fr] tr2] st0] eqn:Er.
          inversion H; subst sn' ret tr' st; clear H.
          assert (Hc : tree_all (good A) c).
          { eapply old_kid_good; [exact Hg | rewrite Hlen; exact Hea | apply find_kid_In; exact Ef]. }
          destruct (allocate_good A c Hc) as [Hgc Hlc].
          destruct (IH _ _ _ _ _ _ _ _ _ Htr1 Hgc Hlc Er) as [Hgc' [_ Htr2]].
          split; [|split; [cbn [acts]; rewrite length_upd; exact Hlen | exact Htr2]].
          apply rebuild_good; auto.
          apply set_kid_good; auto. rewrite Hlen; exact Hea.
        * destruct (rollout term disc (rl h d) (es1 e) 1 0 tr1) as [[fr tr2] st0] eqn:Er.
          inversion H; subst sn' ret tr' st; clear H.
          split; [|split; [cbn [acts]; rewrite length_upd; exact Hlen | eapply rollout_trace_ok; eauto]].
          apply rebuild_good; auto.
          apply set_kid_good; auto; [rewrite Hlen; exact Hea | apply good_node0].
      + inversion H; subst sn' ret tr' st; clear H.
        split; [|split; [cbn [acts]; rewrite length_upd; exact Hlen | exact Htr1]].
        apply rebuild_good; auto.
        apply old_kid_good; auto. rewrite Hlen; exact Hea.
  Qed.

  (* --- horizon: a simulation entered at depth d makes at most h - d model calls --- *)
  Lemma mcts_simulate_steps : forall fuel h d sn s tr sn' ret tr' st,
    (forall h d, rl h d <= h - d - 1) -> d < h ->
    mcts_simulate gA term disc rl fuel h d sn s tr = (sn', ret, tr', st) -> st <= h - d.
  Proof.
    clear HA.
    induction fuel as [|fuel IH]; intros h d sn s tr sn' ret tr' st Hrl Hd H; cbn [mcts_simulate] in H.
    - inversion H; lia.
    - destruct (next tr) as [e tr1] eqn:En.
      destruct ((d + 1 <? h) && negb (term (es1 e))) eqn:Eif.
      + apply andb_prop in Eif. destruct Eif as [Elt _]. apply Nat.ltb_lt in Elt.
        destruct (find_kid (es1 e) (kids (nth (ea e) (acts sn) act0))) as [c|] eqn:Ef.
        * destruct (mcts_simulate gA term disc rl fuel h (d + 1) (allocate (gA (es1 e)) c) (es1 e) tr1) as [[[c' fr] tr2] st0] eqn:Er.
          inversion H; subst st. apply IH in Er; auto. lia.
        * destruct (rollout term disc (rl h d) (es1 e) 1 0 tr1) as [[fr tr2] st0] eqn:Er.
          inversion H; subst st. apply rollout_steps_le in Er. specialize (Hrl h d). lia.
      + inversion H; lia.
  Qed.

  (* --- the value returned (and recorded) is the discounted sum of the rewards sampled --- *)
  Lemma mcts_simulate_return : forall fuel h d sn s tr sn' ret tr' st,
    mcts_simulate gA term disc rl fuel h d sn s tr = (sn', ret, tr', st) -> st <= length tr ->
    (ret == disc_sum disc (map er (firstn st tr)))%Q /\ tr' = skipn st tr.
  Proof.
    clear HA.
    induction fuel as [|fuel IH]; intros h d sn s tr sn' ret tr' st H Hst; cbn [mcts_simulate] in H.
    - inversion H; subst. cbn [firstn map disc_sum skipn]. split; [reflexivity|reflexivity].
    - destruct tr as [|e tr1].
      { (* exhausted: at least one call is counted *)
        cbn [next] in H.
        destruct ((d + 1 <? h) && negb (term (es1 ev0))).
        - destruct (find_kid (es1 ev0) (kids (nth (ea ev0) (acts sn) act0))).
          + destruct (mcts_simulate gA term disc rl fuel h (d + 1) (allocate (gA (es1 ev0)) n) (es1 ev0) []) as [[[c' fr] tr2] st0].
            inversion H; subst st. cbn [length] in Hst; lia.
          + destruct (rollout term disc (rl h d) (es1 ev0) 1 0 []) as [[fr tr2] st0].
            inversion H; subst st. cbn [length] in Hst; lia.
        - inversion H; subst st. cbn [length] in Hst; lia. }
      cbn [next] in H. cbn [length] in Hst.
      destruct ((d + 1 <? h) && negb (term (es1 e))) eqn:Eif.
      + destruct (find_kid (es1 e) (kids (nth (ea e) (acts sn) act0))) as [c|] eqn:Ef.
        * destruct (mcts_simulate gA term disc rl fuel h (d + 1) (allocate (gA (es1 e)) c) (es1 e) tr1) as [[[c' fr] tr2] st0] eqn:Er.
          inversion H; subst ret tr' st; clear H.
          destruct (IH _ _ _ _ _ _ _ _ _ Er ltac:(lia)) as [Hr Ht].
          cbn [firstn map disc_sum skipn]. split; [|exact Ht].
          rewrite Qred_correct, Hr. reflexivity.
        * destruct (rollout term disc (rl h d) (es1 e) 1 0 tr1) as [[fr tr2] st0] eqn:Er.
          inversion H; subst ret tr' st; clear H.
          destruct (rollout_spec _ _ _ _ _ _ _ _ _ _ Er ltac:(lia)) as [Hr Ht].
          cbn [firstn map disc_sum skipn]. split; [|exact Ht].
          rewrite Qred_correct, Hr. ring.
      + inversion H; subst ret tr' st; clear H.
        cbn [firstn map disc_sum skipn]. split; [ring|reflexivity].
  Qed.

  (* the return is appended to the ghost list of the chosen action, whose N grows by one *)
  Lemma mcts_simulate_records : forall fuel h d sn s tr sn' ret tr' st,
    mcts_simulate gA term disc rl (S fuel) h d sn s tr = (sn', ret, tr', st) ->
    let a := ea (fst (next tr)) in
    a < length (acts sn) ->
    nN sn' = S (nN sn) /\
    rets (nth a (acts sn') act0) = rets (nth a (acts sn) act0) ++ [ret] /\
    aN (nth a (acts sn') act0) = S (aN (nth a (acts sn) act0)).
  Proof.
    clear HA.
    intros fuel h d sn s tr sn' ret tr' st H a Ha. subst a. cbn [mcts_simulate] in H.
    destruct (next tr) as [e tr1] eqn:En. cbn [fst] in *.
    destruct ((d + 1 <? h) && negb (term (es1 e))).
    - destruct (find_kid (es1 e) (kids (nth (ea e) (acts sn) act0))) as [c|].
      + destruct (mcts_simulate gA term disc rl fuel h (d + 1) (allocate (gA (es1 e)) c) (es1 e) tr1) as [[[c' fr] tr2] st0].
        inversion H; subst sn' ret tr' st; clear H. cbn [nN acts].
        rewrite (nth_upd_same _ _ act0) by exact Ha. cbn [act_update rets aN]. auto.
      + destruct (rollout term disc (rl h d) (es1 e) 1 0 tr1) as [[fr tr2] st0].
        inversion H; subst sn' ret tr' st; clear H. cbn [nN acts].
        rewrite (nth_upd_same _ _ act0) by exact Ha. cbn [act_update rets aN]. auto.
    - inversion H; subst sn' ret tr' st; clear H. cbn [nN acts].
      rewrite (nth_upd_same _ _ act0) by exact Ha. cbn [act_update rets aN]. auto.
  Qed.

  (* --- the fuel is never exhausted: any fuel >= h - d gives the same run --- *)
  Lemma mcts_fuel_irrelevant : forall f1 f2 h d sn s tr,
    d < h -> h - d <= f1 -> h - d <= f2 ->
    mcts_simulate gA term disc rl f1 h d sn s tr = mcts_simulate gA term disc rl f2 h d sn s tr.
  Proof.
    clear HA.
    induction f1 as [|f1 IH]; intros f2 h d sn s tr Hd H1 H2; [lia|].
    destruct f2 as [|f2]; [lia|]. cbn [mcts_simulate].
    destruct (next tr) as [e tr1].
    destruct ((d + 1 <? h) && negb (term (es1 e))) eqn:Eif; [|reflexivity].
    apply andb_prop in Eif. destruct Eif as [Elt _]. apply Nat.ltb_lt in Elt.
    destruct (find_kid (es1 e) (kids (nth (ea e) (acts sn) act0))) as [c|]; [|reflexivity].
    rewrite (IH f2 h (d + 1)) by lia. reflexivity.
  Qed.

  (* --- the simulation loop --- *)
  Lemma mcts_loop_good : forall iters h g s tr g' tr' sts,
    0 < h -> trace_ok A tr -> tree_all (good A) g -> length (acts g) = A ->
    mcts_loop (fun _ => A) term disc rl iters h g s tr = (g', tr', sts) ->
    tree_all (good A) g' /\ length (acts g') = A /\ trace_ok A tr'.
  Proof.
    induction iters as [|i IH]; intros h g s tr g' tr' sts Hh Htr Hg Hlen H; cbn [mcts_loop] in H.
    - inversion H; subst g' tr' sts; auto.
    - destruct (mcts_simulate (fun _ => A) term disc rl h h 0 g s tr) as [[[g1 r1] tr1] st1] eqn:E1.
      destruct (mcts_loop (fun _ => A) term disc rl i h g1 s tr1) as [[g2 tr2] sts2] eqn:E2.
      inversion H; subst g' tr' sts; clear H.
      destruct (mcts_simulate_good _ _ _ _ _ _ _ _ _ _ Htr Hg Hlen E1) as [Hg1 [Hl1 Ht1]].
      eapply IH; eauto.
  Qed.

  Lemma mcts_loop_steps : forall iters h g s tr g' tr' sts,
    (forall h d, rl h d <= h - d - 1) -> 0 < h ->
    mcts_loop gA term disc rl iters h g s tr = (g', tr', sts) ->
    Forall (fun st => st <= h) sts /\ length sts = iters.
  Proof.
    clear HA.
    induction iters as [|i IH]; intros h g s tr g' tr' sts Hrl Hh H; cbn [mcts_loop] in H.
    - inversion H; subst; split; [constructor|reflexivity].
    - destruct (mcts_simulate gA term disc rl h h 0 g s tr) as [[[g1 r1] tr1] st1] eqn:E1.
      destruct (mcts_loop gA term disc rl i h g1 s tr1) as [[g2 tr2] sts2] eqn:E2.
      inversion H; subst g' tr' sts; clear H.
      apply mcts_simulate_steps in E1; auto. destruct (IH _ _ _ _ _ _ _ Hrl Hh E2) as [F L].
      split; [constructor; [lia|exact F] | cbn [length]; lia].
  Qed.

  (* --- runSimulation / sampleAction --- *)
  Lemma mcts_run_good : forall iters h g s tr g' a tr' sts,
    trace_ok A tr -> tree_all (good A) g -> length (acts g) = A ->
    mcts_runSimulation (fun _ => A) term disc rl iters h g s tr = (g', a, tr', sts) ->
    tree_all (good A) g' /\ length (acts g') = A /\ a < A.
  Proof.
    intros iters h g s tr g' a tr' sts Htr Hg Hlen H. unfold mcts_runSimulation in H.
    destruct (Nat.eqb h 0) eqn:Eh.
    - inversion H; subst g' a tr' sts. auto.
    - apply Nat.eqb_neq in Eh.
      destruct (mcts_loop (fun _ => A) term disc rl iters h g s tr) as [[g2 tr2] sts2] eqn:E2.
      inversion H; subst g' a tr' sts; clear H.
      assert (Hh : 0 < h) by lia.
      destruct (mcts_loop_good _ _ _ _ _ _ _ _ Hh Htr Hg Hlen E2) as [Hg2 [Hl2 _]].
      split; [exact Hg2|split; [exact Hl2|]].
      rewrite <- Hl2. apply findBestA_lt. intro E. rewrite E in Hl2. cbn [length] in Hl2. lia.
  Qed.

  Lemma mcts_run_steps : forall iters h g s tr g' a tr' sts,
    (forall h d, rl h d <= h - d - 1) ->
    mcts_runSimulation gA term disc rl iters h g s tr = (g', a, tr', sts) ->
    Forall (fun st => st <= h) sts.
  Proof.
    clear HA.
    intros iters h g s tr g' a tr' sts Hrl H. unfold mcts_runSimulation in H.
    destruct (Nat.eqb h 0) eqn:Eh.
    - inversion H; constructor.
    - apply Nat.eqb_neq in Eh.
      destruct (mcts_loop gA term disc rl iters h g s tr) as [[g2 tr2] sts2] eqn:E2.
      inversion H; subst g' a tr' sts; clear H.
      eapply mcts_loop_steps; eauto. lia.
  Qed.

  Lemma mcts_op_good : forall iters g op tr g' a tr' sts,
    trace_ok A tr -> tree_all (good A) g ->
    mcts_op (fun _ => A) term disc rl iters g op tr = (g', a, tr', sts) ->
    tree_all (good A) g' /\ length (acts g') = A /\ a < A.
  Proof.
    intros iters g op tr g' a tr' sts Htr Hg H.
    assert (Hfresh : forall s h, mcts_fresh (fun _ => A) term disc rl iters s h tr = (g', a, tr', sts) ->
                                 tree_all (good A) g' /\ length (acts g') = A /\ a < A).
    { intros s h E. unfold mcts_fresh in E.
      destruct (allocate_good A node0 (good_node0 A)) as [G L].
      eapply mcts_run_good; eauto. }
    destruct op as [s h|a0 s1 h]; cbn [mcts_op] in H.
    - eapply Hfresh; eauto.
    - unfold mcts_advance in H.
      destruct (find_kid s1 (kids (nth a0 (acts g) act0))) as [c|] eqn:Ef.
      + assert (Hc : tree_all (good A) c).
        { apply find_kid_In in Ef. apply tree_all_inv in Hg. destruct Hg as [_ Hk].
          destruct (Nat.lt_ge_cases a0 (length (acts g))) as [Hlt|Hge].
          - eapply Hk; [apply nth_In; exact Hlt | exact Ef].
          - rewrite nth_overflow in Ef by exact Hge. destruct Ef. }
        destruct (allocate_good A c Hc) as [G L].
        eapply mcts_run_good; eauto.
      + eapply Hfresh; eauto.
  Qed.

  Lemma mcts_op_steps : forall iters g op tr g' a tr' sts,
    (forall h d, rl h d <= h - d - 1) ->
    mcts_op gA term disc rl iters g op tr = (g', a, tr', sts) ->
    Forall (fun st => st <= match op with MFresh _ h => h | MAdvance _ _ h => h end) sts.
  Proof.
    clear HA.
    intros iters g op tr g' a tr' sts Hrl H.
    destruct op as [s h|a0 s1 h]; cbn [mcts_op] in H.
    - unfold mcts_fresh in H. eapply mcts_run_steps; eauto.
    - unfold mcts_advance, mcts_fresh in H.
      destruct (find_kid s1 (kids (nth a0 (acts g) act0))); eapply mcts_run_steps; eauto.
  Qed.

  Lemma mcts_session_good : forall iters ops g,
    tree_all (good A) g -> Forall (fun p => trace_ok A (snd p)) ops ->
    tree_all (good A) (mcts_session (fun _ => A) term disc rl iters g ops).
  Proof.
    induction ops as [|[op tr] t IH]; intros g Hg Hops; cbn [mcts_session]; [exact Hg|].
    inversion Hops as [|? ? Hp Ht]; subst. cbn [snd] in Hp.
    destruct (mcts_op (fun _ => A) term disc rl iters g op tr) as [[[g1 a1] tr1] sts1] eqn:E.
    apply IH; [|exact Ht].
    eapply mcts_op_good in E; eauto. tauto.
  Qed.
End MCTS.
