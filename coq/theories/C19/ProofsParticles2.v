(* C19/ProofsParticles2.v — POMCP, the full particle-consistency statement: on a coherent log every
   particle has a predecessor in its parent's belief under exactly the (action, observation) leading
   to its node. *)
From Coq Require Import QArith List Arith Bool Lia.
From AIT Require Import C19.Model C19.Spec C19.Proofs C19.ProofsPOMCP C19.ProofsParticles.
Import ListNotations.
Local Open Scope nat_scope.

#[local] Opaque Qred.

Lemma memb_In : forall x l, memb x l = true -> In x l.
Proof.
  intros x l H. unfold memb in H. apply existsb_exists in H. destruct H as [y [Hy E]].
  apply Nat.eqb_eq in E. subst. exact Hy.
Qed.

Lemma pred_mono : forall pool pool' bl bl' i o p, incl pool pool' -> incl bl bl' ->
  pred_by pool bl i o p -> pred_by pool' bl' i o p.
Proof.
  intros pool pool' bl bl' i o p H1 H2 [e [He [Hb X]]]. exists e.
  split; [destruct He as [He|He]; [left; exact He | right; apply H1; exact He]|].
  split; [apply H2; exact Hb | exact X].
Qed.

Lemma pfull_mono : forall pool pool' n, incl pool pool' -> particles_full pool n -> particles_full pool' n.
Proof.
  intros pool pool' n H Hn. eapply tree_all_impl; [|exact Hn].
  intros x Hx i o c Hin. eapply Forall_impl; [|apply Hx; exact Hin].
  intros p Hp. eapply pred_mono; eauto. apply incl_refl.
Qed.

Lemma pfull_leaf : forall pool N b, particles_full pool (Node N b []).
Proof.
  intros. constructor.
  - intros i o c Hin. cbn [acts] in Hin. destruct i; cbn in Hin; destruct Hin.
  - intros a k c [].
Qed.

(* growing a node's own belief keeps the statement for its children *)
Lemma pfull_set_bel : forall pool c b, particles_full pool c -> incl (bel c) b ->
  particles_full pool (Node (nN c) b (acts c)).
Proof.
  intros pool c b H Hi. apply tree_all_inv in H. destruct H as [X Y]. constructor; [|exact Y].
  intros i o c0 Hin. cbn [acts bel] in *. eapply Forall_impl; [|apply X; exact Hin].
  intros p Hp. eapply pred_mono; eauto. apply incl_refl.
Qed.

Section Full.
  Variable A : nat.
  Variable term : nat -> bool.
  Variable disc : Q.
  Variable rl : nat -> nat -> nat.
  Hypothesis HA : 0 < A.
  Variable pool : trace.

  Lemma pfull_allocate : forall n, shape_local A n -> particles_full pool n -> particles_full pool (allocate A n).
  Proof.
    intros n Hs H. apply tree_all_inv in H. destruct H as [X Y]. unfold allocate.
    destruct Hs as [Hnil|Hlen].
    - rewrite Hnil in *. constructor.
      + intros i o c Hin. cbn [acts] in Hin. rewrite nth_resize_nil in Hin. destruct Hin.
      + cbn [acts]. intros a k c Ha Hc. apply resize_nil_all0 in Ha. subst a. destruct Hc.
    - rewrite <- Hlen. rewrite resize_id. constructor; auto.
  Qed.

  Lemma pfull_rebuild : forall b N' a rew o0 c0,
    particles_full pool b -> a < length (acts b) ->
    particles_full pool c0 -> Forall (pred_by pool (bel b) a o0) (bel c0) ->
    particles_full pool (Node N' (bel b)
      (upd a (fun _ => act_update (nth a (acts b) act0) rew (set_kid o0 c0 (kids (nth a (acts b) act0)))) (acts b))).
  Proof.
    intros b N' a rew o0 c0 H Ha Hc0 Hb0.
    apply tree_all_inv in H. destruct H as [X Y].
    constructor.
    - intros i o c Hin. cbn [acts bel] in *.
      destruct (Nat.eq_dec a i) as [E|E].
      + subst i. rewrite (nth_upd_same _ _ act0) in Hin by exact Ha.
        unfold act_update in Hin. cbn [kids] in Hin.
        apply In_set_kid in Hin. destruct Hin as [[-> ->]|Hin]; [exact Hb0|].
        apply X. exact Hin.
      + rewrite nth_upd_other in Hin by exact E. apply X. exact Hin.
    - cbn [acts]. intros x k c Hx Hc.
      apply (In_upd _ _ act0) in Hx. destruct Hx as [Hx|[_ Hx]].
      + eapply Y; eauto.
      + subst x. unfold act_update in Hc. cbn [kids] in Hc.
        apply In_set_kid in Hc. destruct Hc as [[_ ->]|Hc]; [exact Hc0|].
        eapply Y; [apply nth_In; exact Ha | exact Hc].
  Qed.

  Lemma pomcp_simulate_pfull : forall fuel h d b s tr b' ret tr' st,
    pomcp_coh A term fuel h d b s tr = true -> In s (bel b) ->
    trace_ok A tr -> incl tr pool -> tree_all (good A) b -> length (acts b) = A ->
    particles_full pool b ->
    pomcp_simulate A term disc rl fuel h d b s tr = (b', ret, tr', st) ->
    particles_full pool b' /\ incl tr' pool.
  Proof.
    induction fuel as [|fuel IH]; intros h d b s tr b' ret tr' st Hc Hs Htr Hin Hg Hlen Hp H;
      cbn [pomcp_simulate] in H; cbn [pomcp_coh] in Hc.
    - inversion H; subst b' ret tr' st; auto.
    - destruct (next tr) as [e tr1] eqn:En.
      destruct (next_trace_ok _ _ _ _ HA Htr En) as [Hea Htr1].
      destruct (next_incl _ _ _ _ En Hin) as [He Hin1].
      apply andb_prop in Hc. destruct Hc as [Hes Hc]. apply Nat.eqb_eq in Hes.
      assert (Hea' : ea e < length (acts b)) by (rewrite Hlen; exact Hea).
      assert (Hwit : pred_by pool (bel b) (ea e) (eo e) (es1 e)).
      { exists e. split; [exact He|]. split; [rewrite Hes; exact Hs|auto]. }
      destruct (find_kid (eo e) (kids (nth (ea e) (acts b) act0))) as [c|] eqn:Ef.
      + apply find_kid_In in Ef.
        assert (Hcg : tree_all (good A) c) by (eapply old_kid_good; eauto).
        assert (Hcp : particles_full pool c).
        { apply tree_all_inv in Hp. destruct Hp as [_ Y]. eapply Y; [apply nth_In; exact Hea'|exact Ef]. }
        assert (Hcb : Forall (pred_by pool (bel b) (ea e) (eo e)) (bel c)).
        { apply tree_all_inv in Hp. destruct Hp as [X _]. apply X. exact Ef. }
        fold (pushed c (es1 e)) in H. fold (pushed c (es1 e)) in Hc.
        assert (Hpb : Forall (pred_by pool (bel b) (ea e) (eo e)) (bel (pushed c (es1 e)))).
        { unfold pushed. cbn [bel]. apply Forall_app. split; [exact Hcb|constructor; [exact Hwit|constructor]]. }
        assert (Hpp : particles_full pool (pushed c (es1 e))).
        { apply pfull_set_bel; [exact Hcp|]. apply incl_appl. apply incl_refl. }
        destruct ((d + 1 <? h) && negb (term (es1 e))) eqn:Eif.
        * destruct (pomcp_simulate A term disc rl fuel h (d + 1) (allocate A (pushed c (es1 e))) (es1 e) tr1) as [[[c' fr] tr2] st0] eqn:Er.
          inversion H; subst b' ret tr' st; clear H.
          assert (Hg1 : tree_all (good A) (pushed c (es1 e))) by (apply good_set_bel; exact Hcg).
          destruct (allocate_good A _ Hg1) as [Hga Hla].
          assert (Hsh : shape_local A (pushed c (es1 e))).
          { apply tree_all_inv in Hg1. destruct Hg1 as [[_ [_ Z]] _]. exact Z. }
          pose proof (pfull_allocate _ Hsh Hpp) as Hpa.
          assert (Hs1 : In (es1 e) (bel (allocate A (pushed c (es1 e))))).
          { unfold allocate, pushed. cbn [bel]. apply in_or_app. right. left. reflexivity. }
          destruct (IH _ _ _ _ _ _ _ _ _ Hc Hs1 Htr1 Hin1 Hga Hla Hpa Er) as [Pc' Hin2].
          split; [|exact Hin2].
          apply pfull_rebuild; auto.
          rewrite (pomcp_simulate_bel _ _ _ _ _ _ _ _ _ _ _ _ _ _ Er). unfold allocate. cbn [bel]. exact Hpb.
        * inversion H; subst b' ret tr' st; clear H.
          split; [|exact Hin1]. apply pfull_rebuild; auto.
      + destruct (rollout term disc (rl h d) (es1 e) 1 0 tr1) as [[fr tr2] st0] eqn:Er.
        inversion H; subst b' ret tr' st; clear H.
        split; [|eapply rollout_incl; eauto].
        apply pfull_rebuild; auto; [apply pfull_leaf|].
        cbn [bel]. constructor; [exact Hwit|constructor].
  Qed.

  Lemma pomcp_loop_pfull : forall iters h g tr g' tr' sts,
    pomcp_coh_loop A term disc rl iters h g tr = true ->
    0 < h -> trace_ok A tr -> incl tr pool -> tree_all (good A) g -> length (acts g) = A ->
    particles_full pool g ->
    pomcp_loop A term disc rl iters h g tr = (g', tr', sts) -> particles_full pool g'.
  Proof.
    induction iters as [|i IH]; intros h g tr g' tr' sts Hc Hh Htr Hin Hg Hlen Hp H;
      cbn [pomcp_loop] in H; cbn [pomcp_coh_loop] in Hc.
    - inversion H; subst g' tr' sts; auto.
    - destruct (pomcp_simulate A term disc rl h h 0 g (root_particle tr) tr) as [[[g1 r1] tr1] st1] eqn:E1.
      destruct (pomcp_loop A term disc rl i h g1 tr1) as [[g2 tr2] sts2] eqn:E2.
      inversion H; subst g' tr' sts; clear H.
      apply andb_prop in Hc. destruct Hc as [Hc Hc2]. apply andb_prop in Hc. destruct Hc as [Hm Hc1].
      apply memb_In in Hm.
      destruct (pomcp_simulate_good A term disc rl HA _ _ _ _ _ _ _ _ _ _ Htr Hg Hlen E1) as [Hg1 [Hl1 Ht1]].
      destruct (pomcp_simulate_pfull _ _ _ _ _ _ _ _ _ _ Hc1 Hm Htr Hin Hg Hlen Hp E1) as [Hp1 Hin1].
      eapply IH; eauto.
  Qed.

  Lemma pomcp_run_pfull : forall iters h g tr g' a tr' sts,
    pomcp_coh_run A term disc rl iters h g tr = true ->
    trace_ok A tr -> incl tr pool -> tree_all (good A) g -> length (acts g) = A ->
    particles_full pool g ->
    pomcp_runSimulation A term disc rl iters h g tr = (g', a, tr', sts) -> particles_full pool g'.
  Proof.
    intros iters h g tr g' a tr' sts Hc Htr Hin Hg Hlen Hp H.
    unfold pomcp_runSimulation in H. unfold pomcp_coh_run in Hc.
    destruct (Nat.eqb h 0) eqn:Eh.
    - inversion H; subst g' a tr' sts. auto.
    - apply Nat.eqb_neq in Eh.
      destruct (pomcp_loop A term disc rl iters h g tr) as [[g2 tr2] sts2] eqn:E2.
      inversion H; subst g' a tr' sts; clear H.
      assert (Hh : 0 < h) by lia. eapply pomcp_loop_pfull; eauto.
  Qed.

  Lemma pomcp_op_pfull : forall iters g op tr g' a tr' sts,
    pomcp_coh_op A term disc rl iters g op tr = true ->
    trace_ok A tr -> incl tr pool -> tree_all (good A) g -> particles_full pool g ->
    pomcp_op A term disc rl iters g op tr = (g', a, tr', sts) -> particles_full pool g'.
  Proof.
    intros iters g op tr g' a tr' sts Hc Htr Hin Hg Hp H.
    assert (Hfresh : forall ps h, pomcp_coh_run A term disc rl iters h (Node 0 ps (resize A [])) tr = true ->
                                  pomcp_fresh A term disc rl iters ps h tr = (g', a, tr', sts) ->
                                  particles_full pool g').
    { intros ps h C E. unfold pomcp_fresh in E.
      destruct (good_fresh_root A ps) as [G L].
      eapply pomcp_run_pfull; try exact E; auto.
      pose proof (pfull_allocate (Node 0 ps []) (or_introl eq_refl) (pfull_leaf pool 0 ps)) as X.
      unfold allocate in X. cbn [nN bel acts] in X. exact X. }
    destruct op as [ps h|a0 o h ps]; cbn [pomcp_op] in H; cbn [pomcp_coh_op] in Hc.
    - eapply Hfresh; eauto.
    - unfold pomcp_advance in H.
      destruct (find_kid o (kids (nth a0 (acts g) act0))) as [c|] eqn:Ef.
      + apply find_kid_In in Ef.
        destruct (Nat.lt_ge_cases a0 (length (acts g))) as [Hlt|Hge];
          [|rewrite nth_overflow in Ef by exact Hge; destruct Ef].
        assert (Hcg : tree_all (good A) c) by (eapply old_kid_good; eauto).
        assert (Hcp : particles_full pool c).
        { apply tree_all_inv in Hp. destruct Hp as [_ Y]. eapply Y; [apply nth_In; exact Hlt|exact Ef]. }
        destruct (bel c) as [|p0 pt] eqn:Eb.
        * eapply Hfresh; eauto.
        * destruct (allocate_good A c Hcg) as [G L].
          assert (Hsh : shape_local A c).
          { apply tree_all_inv in Hcg. destruct Hcg as [[_ [_ Z]] _]. exact Z. }
          eapply pomcp_run_pfull; try exact H; auto.
          apply pfull_allocate; auto.
      + eapply Hfresh; eauto.
  Qed.
End Full.

Lemma pomcp_session_pfull_gen : forall A term disc rl iters ops g pool,
  0 < A -> pomcp_coh_session A term disc rl iters g ops = true ->
  tree_all (good A) g -> particles_full pool g ->
  Forall (fun p => trace_ok A (snd p)) ops ->
  particles_full (pool ++ concat (map snd ops)) (pomcp_session A term disc rl iters g ops).
Proof.
  intros A term disc rl iters. induction ops as [|[op tr] t IH]; intros g pool HA Hc Hg Hp Hops;
    cbn [pomcp_session map concat]; cbn [pomcp_coh_session] in Hc.
  - rewrite app_nil_r. exact Hp.
  - inversion Hops as [|? ? Hx Ht]; subst. cbn [snd] in *.
    destruct (pomcp_op A term disc rl iters g op tr) as [[[g1 a1] tr1] sts1] eqn:E.
    apply andb_prop in Hc. destruct Hc as [Hc1 Hc2].
    assert (Hg1 : tree_all (good A) g1).
    { destruct (pomcp_op_good A term disc rl HA _ _ _ _ _ _ _ _ Hx Hg E) as [X _]. exact X. }
    assert (Hp1 : particles_full (pool ++ tr) g1).
    { eapply (pomcp_op_pfull A term disc rl HA (pool ++ tr)); try exact E; auto.
      - apply incl_appr. apply incl_refl.
      - eapply pfull_mono; [|exact Hp]. apply incl_appl. apply incl_refl. }
    rewrite app_assoc. apply IH; auto.
Qed.

Lemma pomcp_particles_full_lemma : forall A term disc rl iters ps0 h0 tr0 ops,
  0 < A -> trace_ok A tr0 -> Forall (fun p => trace_ok A (snd p)) ops ->
  pomcp_coh_session A term disc rl iters node0 ((PFresh ps0 h0, tr0) :: ops) = true ->
  particles_full (tr0 ++ concat (map snd ops))
                 (pomcp_session A term disc rl iters node0 ((PFresh ps0 h0, tr0) :: ops)).
Proof.
  intros A term disc rl iters ps0 h0 tr0 ops HA H0 Hops Hc.
  pose proof (pomcp_session_pfull_gen A term disc rl iters ((PFresh ps0 h0, tr0) :: ops) node0 [] HA Hc
                (good_node0 A) (pfull_leaf [] 0 [])) as X.
  cbn [app map concat snd] in X. apply X. constructor; [exact H0|exact Hops].
Qed.
