(* C19/ProofsRange.v — value_in_range: with the repaired rollout length every recorded return, hence
   every action estimate, lies within R * sum_{k < h - d} disc^k at node depth d. *)
From Coq Require Import QArith List Arith Bool Lia Lqa.
From AIT Require Import C19.Model C19.Spec C19.Proofs.
Import ListNotations.
Local Open Scope nat_scope.

#[local] Opaque Qred.

(* ------------------------------------------------------------------ geom ------------------ *)

Lemma geom_nonneg : forall disc k, (0 <= disc)%Q -> (0 <= geom disc k)%Q.
Proof.
  intros disc k Hd. induction k as [|k IH]; cbn [geom]; [lra|].
  assert (0 <= disc * geom disc k)%Q by (apply Qmult_le_0_compat; assumption). lra.
Qed.

Lemma geom_step_le : forall disc k, (0 <= disc)%Q -> (geom disc k <= geom disc (S k))%Q.
Proof.
  intros disc k Hd. induction k as [|k IH].
  - cbn [geom]. lra.
  - change (geom disc (S (S k))) with (1 + disc * geom disc (S k))%Q.
    change (geom disc (S k)) with (1 + disc * geom disc k)%Q at 1.
    assert (disc * geom disc k <= disc * geom disc (S k))%Q.
    { rewrite (Qmult_comm disc (geom disc k)), (Qmult_comm disc (geom disc (S k))).
      apply Qmult_le_compat_r; assumption. }
    lra.
Qed.

Lemma geom_mono : forall disc k k', (0 <= disc)%Q -> k <= k' -> (geom disc k <= geom disc k')%Q.
Proof.
  intros disc k k' Hd H. induction H as [|m H IH]; [lra|].
  eapply Qle_trans; [exact IH | apply geom_step_le; exact Hd].
Qed.

Lemma vbound_nonneg : forall R disc h d, (0 <= R)%Q -> (0 <= disc)%Q -> (0 <= vbound R disc h d)%Q.
Proof. intros. unfold vbound. apply Qmult_le_0_compat; [assumption | apply geom_nonneg; assumption]. Qed.

Lemma vbound_mono : forall R disc h d h' d', (0 <= R)%Q -> (0 <= disc)%Q -> h - d <= h' - d' ->
  (vbound R disc h d <= vbound R disc h' d')%Q.
Proof.
  intros R disc h d h' d' HR Hd H. unfold vbound.
  rewrite (Qmult_comm R (geom disc (h - d))), (Qmult_comm R (geom disc (h' - d'))).
  apply Qmult_le_compat_r; [apply geom_mono; assumption | assumption].
Qed.

Lemma in_pm_mono : forall B B' x, (B <= B')%Q -> in_pm B x -> in_pm B' x.
Proof. intros B B' x H [X Y]. unfold in_pm. split; lra. Qed.

(* r + disc * f  with |r| <= R and |f| <= R * geom k  is within R * geom (S k) *)
Lemma step_bound : forall R disc k r f, (0 <= disc)%Q ->
  in_pm R r -> in_pm (R * geom disc k) f -> in_pm (R * geom disc (S k)) (r + disc * f).
Proof.
  intros R disc k r f Hd [R1 R2] [F1 F2]. unfold in_pm. cbn [geom].
  assert (disc * f <= disc * (R * geom disc k))%Q.
  { rewrite (Qmult_comm disc f), (Qmult_comm disc (R * geom disc k)). apply Qmult_le_compat_r; assumption. }
  assert (disc * (- (R * geom disc k)) <= disc * f)%Q.
  { rewrite (Qmult_comm disc f), (Qmult_comm disc (- (R * geom disc k))). apply Qmult_le_compat_r; assumption. }
  split; lra.
Qed.

Lemma next_rewards_in : forall R tr e tr', (0 <= R)%Q -> rewards_in R tr -> next tr = (e, tr') ->
  in_pm R (er e) /\ rewards_in R tr'.
Proof.
  intros R [|x t] e tr' HR H E; cbn [next] in E; inversion E; subst.
  - split; [unfold in_pm; cbn; lra | constructor].
  - inversion H; subst; auto.
Qed.

(* ------------------------------------------------------------------ rollout --------------- *)

Lemma rollout_bound : forall term disc R, (0 <= disc)%Q -> (0 <= R)%Q ->
  forall L s g t tr r tr' n, (0 <= g)%Q -> rewards_in R tr ->
  rollout term disc L s g t tr = (r, tr', n) ->
  (t - g * (R * geom disc L) <= r)%Q /\ (r <= t + g * (R * geom disc L))%Q /\ rewards_in R tr'.
Proof.
  intros term disc R Hd HR. induction L as [|L IH]; intros s g t tr r tr' n Hg Htr H; cbn [rollout] in H.
  - inversion H; subst. cbn [geom]. repeat split; try lra; auto.
  - destruct (next tr) as [e tr1] eqn:En.
    destruct (next_rewards_in _ _ _ _ HR Htr En) as [[E1 E2] Htr1].
    pose proof (geom_nonneg disc L Hd) as HG.
    assert (HX : (0 <= R * geom disc L)%Q) by (apply Qmult_le_0_compat; assumption).
    assert (P1 : (0 <= g * (er e + R))%Q) by (apply Qmult_le_0_compat; lra).
    assert (P2 : (0 <= g * (R - er e))%Q) by (apply Qmult_le_0_compat; lra).
    assert (P3 : (0 <= g * disc)%Q) by (apply Qmult_le_0_compat; lra).
    assert (P4 : (0 <= g * disc * (R * geom disc L))%Q) by (apply Qmult_le_0_compat; lra).
    cbn [geom].
    destruct (term (es1 e)).
    + inversion H; subst. repeat split; try lra; auto.
    + destruct (rollout term disc L (es1 e) (g * disc)%Q (t + g * er e)%Q tr1) as [[r2 tr2] n2] eqn:E.
      inversion H; subst r2 tr2 n.
      destruct (IH _ _ _ _ _ _ _ P3 Htr1 E) as [I1 [I2 I3]].
      repeat split; try lra; auto.
Qed.

Lemma rollout_in_pm : forall term disc R L s tr r tr' n k, (0 <= disc)%Q -> (0 <= R)%Q ->
  rewards_in R tr -> L <= k ->
  rollout term disc L s 1 0 tr = (r, tr', n) ->
  in_pm (R * geom disc k) r /\ rewards_in R tr'.
Proof.
  intros term disc R L s tr r tr' n k Hd HR Htr HL H.
  destruct (rollout_bound term disc R Hd HR L s 1%Q 0%Q tr r tr' n ltac:(lra) Htr H) as [X [Y Z]].
  split; [|exact Z].
  assert (M : (R * geom disc L <= R * geom disc k)%Q).
  { rewrite (Qmult_comm R (geom disc L)), (Qmult_comm R (geom disc k)).
    apply Qmult_le_compat_r; [apply geom_mono; assumption | assumption]. }
  unfold in_pm. split; lra.
Qed.

(* ------------------------------------------------------------------ depth-indexed invariant *)

Lemma tree_all_d_inv : forall P d n, tree_all_d P d n ->
  P d n /\ (forall a k c, In a (acts n) -> In (k, c) (kids a) -> tree_all_d P (S d) c).
Proof. intros P d n H; inversion H; subst; auto. Qed.

Lemma tree_all_d_impl : forall (P Q : nat -> node -> Prop) d n,
  (forall d x, P d x -> Q d x) -> tree_all_d P d n -> tree_all_d Q d n.
Proof.
  intros P Q d n HPQ H; induction H as [d n Hp Hk IH]. constructor; [auto|]. intros; eapply IH; eauto.
Qed.

(* re-rooting: a subtree found at depth S d becomes a tree at depth d *)
Lemma tree_all_d_shift : forall (P Q : nat -> node -> Prop) d n,
  (forall d x, P (S d) x -> Q d x) -> tree_all_d P (S d) n -> tree_all_d Q d n.
Proof.
  intros P Q d n HPQ H. remember (S d) as d1 eqn:E. revert d E.
  induction H as [d1 n Hp Hk IH]; intros d E; subst d1.
  constructor; [auto|]. intros a k c Ha Hc. eapply IH; eauto.
Qed.

Lemma tree_all_both : forall (P : node -> Prop) (Q : nat -> node -> Prop) d n,
  tree_all P n -> tree_all_d Q d n -> tree_all_d (fun d x => P x /\ Q d x) d n.
Proof.
  intros P Q d n HP HQ. revert HP. induction HQ as [d n Hq Hk IH]; intros HP.
  apply tree_all_inv in HP. destruct HP as [Hp Hpk].
  constructor; [auto|]. intros a k c Ha Hc. eapply IH; eauto.
Qed.

Section Range.
  Variable A : nat.
  Variable R disc : Q.
  Variable h : nat.
  Hypothesis HR : (0 <= R)%Q.
  Hypothesis Hdisc : (0 <= disc)%Q.

  Notation RI := (rets_in R disc h).

  Lemma rin_leaf : forall d N b, tree_all_d RI d (Node N b []).
  Proof. intros. constructor; [constructor | intros a k c []]. Qed.

  Lemma rin_set_bel : forall d c b, tree_all_d RI d c -> tree_all_d RI d (Node (nN c) b (acts c)).
  Proof. intros d c b H. apply tree_all_d_inv in H. destruct H as [X Y]. constructor; auto. Qed.

  Lemma In_resize : forall n l a, In a (resize n l) -> In a l \/ a = act0.
  Proof.
    induction n as [|n IH]; intros l a H; cbn [resize] in H; [destruct H|].
    destruct l as [|x t].
    - destruct H as [H|H]; [right; auto|]. apply IH in H. destruct H as [[]|H]; right; exact H.
    - destruct H as [H|H]; [left; left; exact H|]. apply IH in H. destruct H; [left; right|right]; auto.
  Qed.

  Lemma rin_allocate : forall d n, tree_all_d RI d n -> tree_all_d RI d (allocate A n).
  Proof.
    intros d n H. apply tree_all_d_inv in H. destruct H as [X Y]. unfold allocate.
    constructor.
    - unfold rets_in in *. cbn [acts]. apply Forall_forall. intros a Ha.
      apply In_resize in Ha. destruct Ha as [Ha|Ha].
      + rewrite Forall_forall in X. auto.
      + subst a. constructor.
    - cbn [acts]. intros a k c Ha Hc. apply In_resize in Ha. destruct Ha as [Ha|Ha].
      + eapply Y; eauto.
      + subst a. destruct Hc.
  Qed.

  Lemma rin_rebuild : forall d sn N' a rew ks',
    tree_all_d RI d sn -> a < length (acts sn) -> in_pm (vbound R disc h d) rew ->
    (forall k c, In (k, c) ks' -> tree_all_d RI (S d) c) ->
    tree_all_d RI d (Node N' (bel sn) (upd a (fun _ => act_update (nth a (acts sn) act0) rew ks') (acts sn))).
  Proof.
    intros d sn N' a rew ks' H Ha Hrew Hks.
    apply tree_all_d_inv in H. destruct H as [X Y].
    constructor.
    - unfold rets_in in *. cbn [acts]. apply Forall_forall. intros x Hx.
      apply (In_upd _ _ act0) in Hx. destruct Hx as [Hx|[_ Hx]].
      + rewrite Forall_forall in X. auto.
      + subst x. unfold act_update. cbn [rets]. apply Forall_app. split.
        * rewrite Forall_forall in X. apply X. apply nth_In. exact Ha.
        * constructor; [exact Hrew|constructor].
    - cbn [acts]. intros x k c Hx Hc.
      apply (In_upd _ _ act0) in Hx. destruct Hx as [Hx|[_ Hx]].
      + eapply Y; eauto.
      + subst x. unfold act_update in Hc. cbn [kids] in Hc. eauto.
  Qed.

  Lemma rin_set_kid : forall d sn a k0 c0,
    tree_all_d RI d sn -> a < length (acts sn) -> tree_all_d RI (S d) c0 ->
    forall k c, In (k, c) (set_kid k0 c0 (kids (nth a (acts sn) act0))) -> tree_all_d RI (S d) c.
  Proof.
    intros d sn a k0 c0 H Ha Hc0 k c Hin.
    apply In_set_kid in Hin. destruct Hin as [[_ ->]|Hin]; [exact Hc0|].
    apply tree_all_d_inv in H. destruct H as [_ Hk]. eapply Hk; [apply nth_In; exact Ha | exact Hin].
  Qed.

  Lemma rin_old_kid : forall d sn a,
    tree_all_d RI d sn -> a < length (acts sn) ->
    forall k c, In (k, c) (kids (nth a (acts sn) act0)) -> tree_all_d RI (S d) c.
  Proof.
    intros d sn a H Ha k c Hin.
    apply tree_all_d_inv in H. destruct H as [_ Hk]. eapply Hk; [apply nth_In; exact Ha | exact Hin].
  Qed.

  (* bound of a one-step return at depth d < h *)
  Lemma one_step_in : forall d r, d < h -> in_pm R r -> in_pm (vbound R disc h d) r.
  Proof.
    intros d r Hd Hr. unfold vbound. replace (h - d) with (S (h - d - 1)) by lia.
    pose proof (step_bound R disc (h - d - 1) r 0%Q Hdisc Hr) as SB.
    assert (Z : in_pm (R * geom disc (h - d - 1)) 0%Q).
    { pose proof (geom_nonneg disc (h - d - 1) Hdisc).
      assert (0 <= R * geom disc (h - d - 1))%Q by (apply Qmult_le_0_compat; assumption).
      unfold in_pm; split; lra. }
    specialize (SB Z). destruct SB as [S1 S2]. unfold in_pm. split; lra.
  Qed.

  Lemma deeper_in : forall d r f, d < h -> in_pm R r -> in_pm (R * geom disc (h - d - 1)) f ->
    in_pm (vbound R disc h d) (Qred (r + disc * f)).
  Proof.
    intros d r f Hd Hr Hf. unfold vbound. replace (h - d) with (S (h - d - 1)) by lia.
    destruct (step_bound R disc (h - d - 1) r f Hdisc Hr Hf) as [S1 S2].
    unfold in_pm. rewrite Qred_correct. split; assumption.
  Qed.
End Range.

(* mean of values in [-B, B] is in [-B, B] *)
Lemma sumq_bounds : forall B l, Forall (in_pm B) l ->
  (- (B * qn (length l)) <= sumq l)%Q /\ (sumq l <= B * qn (length l))%Q.
Proof.
  intros B l H. induction H as [|x t [X1 X2] Ht [I1 I2]].
  - unfold qn. cbn [length Z.of_nat sumq fold_right]. change (inject_Z 0) with 0%Q. split; lra.
  - cbn [length sumq fold_right]. change (fold_right Qplus 0%Q t) with (sumq t).
    unfold qn in *. rewrite Nat2Z.inj_succ. unfold Z.succ. rewrite inject_Z_plus.
    change (inject_Z 1) with 1%Q. split; lra.
Qed.

Lemma mean_in_range : forall B a, mean_act a -> Forall (in_pm B) (rets a) -> 0 < aN a -> in_pm B (aV a).
Proof.
  intros B a [Hn Hv] Hr Hpos.
  destruct (sumq_bounds B (rets a) Hr) as [S1 S2]. rewrite <- Hn in S1, S2. rewrite <- Hv in S1, S2.
  assert (Hq : (0 < qn (aN a))%Q).
  { unfold qn. change 0%Q with (inject_Z 0). rewrite <- Zlt_Qlt. lia. }
  unfold in_pm. split.
  - apply (Qmult_lt_0_le_reg_r _ _ (qn (aN a)) Hq). lra.
  - apply (Qmult_lt_0_le_reg_r _ _ (qn (aN a)) Hq). lra.
Qed.

Lemma good_rets_value : forall A R disc h d g,
  tree_all (good A) g -> tree_all_d (rets_in R disc h) d g -> tree_all_d (value_in R disc h) d g.
Proof.
  intros A R disc h d g Hg Hr.
  pose proof (tree_all_both _ _ _ _ Hg Hr) as H.
  eapply tree_all_d_impl; [|exact H].
  intros d0 x [[_ [Hm _]] Hx]. unfold value_in, rets_in, mean_local in *.
  apply Forall_forall. intros a Ha Hpos.
  rewrite Forall_forall in Hm, Hx. apply mean_in_range; auto.
Qed.
