(* C19/ProofsR7.v — rPOMCP: bestAction / actionsV consistency after maxBeliefNodeUpdate. *)
From Coq Require Import QArith List Arith Bool Lia Lqa.
From AIT Require Import C19.Model C19.Spec C19.Proofs C19.ProofsParticles C19.ModelR C19.SpecR C19.ProofsR.
Import ListNotations.
Local Open Scope nat_scope.

#[local] Opaque Qred.

(* findBestA returns the index and value of a maximal element *)
Lemma best_from_spec : forall l b bv i, b < i ->
  let '(j, v) := best_from b bv i l in
  ((j = b /\ v = bv) \/ (i <= j < i + length l /\ v = nth (j - i) l 0%Q)) /\
  (bv <= v)%Q /\ Forall (fun x => (x <= v)%Q) l.
Proof.
  induction l as [|x t IH]; intros b bv i Hb; cbn [best_from].
  - split; [left; auto|]. split; [apply Qle_refl|constructor].
  - destruct (Qlt_le_dec bv x) as [Hlt|Hle].
    + specialize (IH i x (S i) ltac:(lia)). destruct (best_from i x (S i) t) as [j v].
      destruct IH as [Hj [Hx Hall]]. cbn [length]. split; [|split].
      * right. destruct Hj as [[-> ->]|[Hr Hv]].
        -- split; [lia|]. replace (i - i) with 0 by lia. reflexivity.
        -- split; [lia|]. replace (j - i) with (S (j - S i)) by lia. cbn [nth]. exact Hv.
      * apply Qlt_le_weak in Hlt. eapply Qle_trans; eauto.
      * constructor; [exact Hx|exact Hall].
    + specialize (IH b bv (S i) ltac:(lia)). destruct (best_from b bv (S i) t) as [j v].
      destruct IH as [Hj [Hx Hall]]. cbn [length]. split; [|split].
      * destruct Hj as [[-> ->]|[Hr Hv]]; [left; auto|].
        right. split; [lia|]. replace (j - i) with (S (j - S i)) by lia. cbn [nth]. exact Hv.
      * exact Hx.
      * constructor; [eapply Qle_trans; eauto|exact Hall].
Qed.

Lemma find_best_spec : forall l, l <> [] ->
  let '(j, v) := find_best l in
  j < length l /\ v = nth j l 0%Q /\ Forall (fun x => (x <= v)%Q) l.
Proof.
  intros [|x t] H; [congruence|]. cbn [find_best].
  pose proof (best_from_spec t 0 x 1 ltac:(lia)) as S. destruct (best_from 0 x 1 t) as [j v].
  destruct S as [Hj [Hx Hall]]. cbn [length]. split; [|split].
  - destruct Hj as [[-> _]|[Hr _]]; lia.
  - destruct Hj as [[-> ->]|[Hr Hv]]; [reflexivity|].
    replace j with (S (j - 1)) at 1 by lia. cbn [nth]. exact Hv.
  - constructor; [exact Hx|exact Hall].
Qed.

Lemma nth_map_raV : forall l i, nth i (map raV l) 0%Q = raV (nth i l ract0).
Proof. induction l as [|x t IH]; intros [|i]; cbn [map nth]; auto. Qed.

(* maxBeliefNodeUpdate on the actions after the update of action a *)
Lemma r_maxUpdate_spec : forall av best (l : list ract) a na,
  a < length l ->
  (match av with
   | None => best = a
   | Some av0 => best < length l /\ av0 = raV (nth best l ract0) /\ Forall (fun x => (raV x <= av0)%Q) l
   end) ->
  let l' := upd a (fun _ => na) l in
  let '(av', best') := r_maxUpdate av best (raV na) a l' in
  best' < length l' /\ av' = raV (nth best' l' ract0) /\ Forall (fun x => (raV x <= av')%Q) l'.
Proof.
  intros av best l a na Ha Hold l'. unfold r_maxUpdate.
  assert (Hlen : length l' = length l) by (unfold l'; apply length_upd).
  assert (Hna : nth a l' ract0 = na) by (unfold l'; rewrite (nth_upd_same _ _ ract0) by exact Ha; reflexivity).
  assert (Hrescan : let '(i, v) := find_best (map raV l') in
                    i < length l' /\ v = raV (nth i l' ract0) /\ Forall (fun x => (raV x <= v)%Q) l').
  { assert (Hne : map raV l' <> []).
    { intro E. apply (f_equal (@length Q)) in E. rewrite map_length, Hlen in E. cbn in E. lia. }
    pose proof (find_best_spec _ Hne) as S. destruct (find_best (map raV l')) as [i v].
    destruct S as [S1 [S2 S3]]. rewrite map_length in S1. rewrite nth_map_raV in S2.
    split; [exact S1|]. split; [exact S2|]. rewrite Forall_map in S3. exact S3. }
  destruct av as [av0|].
  - destruct Hold as [Hb [Hav Hall]].
    destruct (Qlt_le_dec (raV na) av0) as [Hlt|Hle].
    + destruct (Nat.eqb a best) eqn:Eab.
      * destruct (find_best (map raV l')) as [i v]. exact Hrescan.
      * apply Nat.eqb_neq in Eab.
        split; [lia|]. split.
        -- unfold l'. rewrite nth_upd_other by exact Eab. exact Hav.
        -- apply Forall_forall. intros x Hx. apply (In_upd _ _ ract0) in Hx.
           destruct Hx as [Hx|[_ ->]]; [rewrite Forall_forall in Hall; auto | apply Qlt_le_weak; exact Hlt].
    + split; [lia|]. split; [rewrite Hna; reflexivity|].
      apply Forall_forall. intros x Hx. apply (In_upd _ _ ract0) in Hx.
      destruct Hx as [Hx|[_ ->]]; [|apply Qle_refl].
      rewrite Forall_forall in Hall. eapply Qle_trans; [apply Hall; exact Hx | exact Hle].
  - subst best. rewrite Nat.eqb_refl.
    destruct (find_best (map raV l')) as [i v]. exact Hrescan.
Qed.

Section RMax.
  Variable A : nat.
  Variable term : nat -> bool.
  Variable disc : Q.
  Variable k : nat.
  Variable entropy : bool.
  Variable plogp : nat -> nat -> Q.

  Notation sim := (r_simulate A term disc k entropy plogp).

  (* below the root and with N >= k after the increment, simulate ends with maxBeliefNodeUpdate *)
  Lemma r_simulate_step_av : forall fuel h d b s tr b' ret tr' st,
    sim (S fuel) h d b s tr = (b', ret, tr', st) -> d <> 0 -> k <= S (rN b) ->
    let a := ea (fst (next tr)) in
    exists na,
      racts b' = upd a (fun _ => na) (racts b) /\
      (rAV b', rbest b') =
        r_maxUpdate (if Nat.eqb (S (rN b)) k then None else Some (rAV b))
                    (if Nat.eqb (S (rN b)) k then a else rbest b)
                    (raV na) a (upd a (fun _ => na) (racts b)).
  Proof.
    intros fuel h d b s tr b' ret tr' st H Hd Hk. cbn [r_simulate] in H.
    destruct (next tr) as [e tr1]. cbn [fst].
    apply Nat.eqb_neq in Hd. apply Nat.leb_le in Hk.
    destruct (rfind_kid (eo e) (rkids (nth (ea e) (racts b) ract0))) as [c|].
    - match type of H with context [if ?c0 then sim _ _ _ _ _ _ else _] => destruct c0 end.
      + match type of H with context [sim fuel ?x1 ?x2 ?x3 ?x4 ?x5] =>
          destruct (sim fuel x1 x2 x3 x4 x5) as [[[ot2 x] tr2] st0] end.
        rewrite Hd, Hk in H. destruct (Nat.eqb (S (rN b)) k);
          match type of H with context [r_maxUpdate ?p1 ?p2 ?p3 ?p4 ?p5] =>
            destruct (r_maxUpdate p1 p2 p3 p4 p5) as [av' best'] eqn:EM end;
          inversion H; subst b'; cbn [racts rAV rbest]; eexists; (split; [reflexivity | symmetry; exact EM]).
      + rewrite Hd, Hk in H. destruct (Nat.eqb (S (rN b)) k);
          match type of H with context [r_maxUpdate ?p1 ?p2 ?p3 ?p4 ?p5] =>
            destruct (r_maxUpdate p1 p2 p3 p4 p5) as [av' best'] eqn:EM end;
          inversion H; subst b'; cbn [racts rAV rbest]; eexists; (split; [reflexivity | symmetry; exact EM]).
    - match type of H with context [if ?c0 then sim _ _ _ _ _ _ else _] => destruct c0 end.
      + match type of H with context [sim fuel ?x1 ?x2 ?x3 ?x4 ?x5] =>
          destruct (sim fuel x1 x2 x3 x4 x5) as [[[ot2 x] tr2] st0] end.
        rewrite Hd, Hk in H. destruct (Nat.eqb (S (rN b)) k);
          match type of H with context [r_maxUpdate ?p1 ?p2 ?p3 ?p4 ?p5] =>
            destruct (r_maxUpdate p1 p2 p3 p4 p5) as [av' best'] eqn:EM end;
          inversion H; subst b'; cbn [racts rAV rbest]; eexists; (split; [reflexivity | symmetry; exact EM]).
      + rewrite Hd, Hk in H. destruct (Nat.eqb (S (rN b)) k);
          match type of H with context [r_maxUpdate ?p1 ?p2 ?p3 ?p4 ?p5] =>
            destruct (r_maxUpdate p1 p2 p3 p4 p5) as [av' best'] eqn:EM end;
          inversion H; subst b'; cbn [racts rAV rbest]; eexists; (split; [reflexivity | symmetry; exact EM]).
  Qed.

  (* the visit that makes N == k ESTABLISHES the consistency (forced rescan), every later visit by
     simulate PRESERVES it *)
  Lemma r_simulate_maxcons : forall fuel h d b s tr b' ret tr' st,
    sim (S fuel) h d b s tr = (b', ret, tr', st) -> d <> 0 -> k <= S (rN b) ->
    ea (fst (next tr)) < length (racts b) ->
    S (rN b) = k \/ maxcons b ->
    maxcons b'.
  Proof.
    intros fuel h d b s tr b' ret tr' st H Hd Hk Ha Hcase.
    destruct (r_simulate_step_av _ _ _ _ _ _ _ _ _ _ H Hd Hk) as [na [Hacts Hav]].
    cbv zeta in *. set (a := ea (fst (next tr))) in *.
    destruct (Nat.eqb (S (rN b)) k) eqn:Ek.
    - pose proof (r_maxUpdate_spec None a (racts b) a na Ha eq_refl) as S.
      cbv zeta in S. rewrite <- Hav in S. unfold maxcons. rewrite Hacts. exact S.
    - apply Nat.eqb_neq in Ek. destruct Hcase as [E|[M1 [M2 M3]]]; [congruence|].
      pose proof (r_maxUpdate_spec (Some (rAV b)) (rbest b) (racts b) a na Ha (conj M1 (conj M2 M3))) as S.
      cbv zeta in S. rewrite <- Hav in S. unfold maxcons. rewrite Hacts. exact S.
  Qed.
End RMax.

(* REFUTED as an unconditional statement "every non-root node with N >= k is consistent": when the visit
   that makes N == k is a LEAF visit (terminal s1: N += 1 without simulate) the forced rescan never
   happens and the max mode runs on the stale mean-mode actionsV.  k = 3, entropy variant with
   plogp = -1: the node below (a=0,o=0) ends with N = 4, actionsV = -1/2, bestAction = 0, values (-1,-1). *)
Lemma r_maxcons_refuted_lemma : exists A term disc k entropy plogp iters sb h tr g' c,
  trace_ok A tr /\
  fst (fst (fst (snd (r_op A term disc k entropy plogp iters rnode0 (RFresh sb h) tr)))) = g' /\
  In (0, c) (rkids (nth 0 (racts g') ract0)) /\ k <= rN c /\ ~ maxcons c.
Proof.
  exists 2, (fun s => 2 <=? s), 1%Q, 3, true, (fun _ _ => (-1)%Q), 4, [(0, 1)], 2.
  exists [Ev 0 0 1 0 0; Ev 0 0 1 0 0; Ev 1 0 1 0 0; Ev 0 0 2 0 0; Ev 0 0 1 0 0; Ev 1 1 1 0 0]%Q.
  eexists. eexists.
  split; [repeat (apply Forall_cons; [cbn; lia|]); apply Forall_nil|].
  split; [vm_compute; reflexivity|].
  split; [left; reflexivity|]. split; [cbn; lia|].
  intros [_ [M _]]. vm_compute in M. discriminate M.
Qed.
