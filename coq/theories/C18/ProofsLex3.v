(* C18/ProofsLex3.v — the printed text of a program, lexed character by character, renders it:
   hence parse_print for texts. *)
From Coq Require Import List Arith Ascii NArith ZArith QArith Bool Lia.
From AIT Require Import C18.Model C18.Spec C18.ProofsSem C18.ProofsLex C18.ProofsLex2 C18.ProofsPrint2.
Import ListNotations.
Local Close Scope Q_scope.

Lemma clean_star : clean star.
Proof. split; [discriminate| reflexivity]. Qed.

Lemma idx_spelling_clean : forall names f k ix, idx_ok names f k ix -> clean (idx_spelling f k ix).
Proof. intros names f k [|n|nm] H; cbn in *; [apply clean_star| apply H| exact H]. Qed.

Lemma idx_spelling_tok : forall names f k ix, idx_ok names f k ix -> idx_tok names ix (idx_spelling f k ix).
Proof. intros names f k [|n|nm] H; cbn in *; [reflexivity| destruct H as (_ & H1 & H2 & H3); auto| reflexivity]. Qed.

Lemma all_blank_ncolons : forall rest, all_blank_seps rest -> ncolons rest = 0.
Proof.
  induction 1 as [|[s t] rest Hs _ IH]; [reflexivity|]. cbn [fst] in Hs. destruct s; [| contradiction]. cbn [ncolons]. exact IH.
Qed.

Lemma extra_clean : forall f, Forall clean (f_extra f) -> items_clean (extra_items f).
Proof. intros f H. unfold items_clean, extra_items. rewrite Forall_map. cbn [snd]. exact H. Qed.
Lemma extra_blank : forall f, all_blank_seps (extra_items f).
Proof. intros f. unfold all_blank_seps, extra_items. rewrite Forall_map. cbn [fst]. apply Forall_forall. intros; exact I. Qed.
Lemma extra_snd : forall f, map snd (extra_items f) = f_extra f.
Proof. intros f. unfold extra_items. rewrite map_map. cbn [snd]. apply map_id. Qed.

Lemma val_items_blank : forall f r s n, all_blank_seps (val_items f r s n).
Proof. intros. unfold all_blank_seps, val_items. rewrite Forall_map. cbn [fst]. apply Forall_forall. intros; exact I. Qed.
Lemma val_items_snd : forall f r s n, map snd (val_items f r s n) = map (f_val f r) (seq s n).
Proof. intros. unfold val_items. rewrite map_map. cbn [snd]. reflexivity. Qed.
Lemma val_items_clean : forall f r vs s n, vals_ok f r vs -> s + n <= length vs -> items_clean (val_items f r s n).
Proof.
  intros f r vs s n Hv Hl. unfold items_clean, val_items. rewrite Forall_map. cbn [snd]. apply Forall_forall.
  intros c Hc. apply in_seq in Hc. destruct (nth_error vs c) as [v|] eqn:E.
  - apply (Hv c v E).
  - apply nth_error_None in E. lia.
Qed.

Lemma Forall2_map_seq_from : forall A B (R : A -> B -> Prop) (g : nat -> B) (vs : list A) s,
  (forall c v, nth_error vs c = Some v -> R v (g (s + c))) -> Forall2 R vs (map g (seq s (length vs))).
Proof.
  induction vs as [|v vs IH]; intros s H; [constructor|]. cbn [length seq map]. constructor.
  - specialize (H 0 v eq_refl). rewrite Nat.add_0_r in H. exact H.
  - apply IH. intros c w Hc. specialize (H (S c) w Hc). rewrite Nat.add_succ_r in H. exact H.
Qed.

Lemma vals_tok : forall f r vs, vals_ok f r vs -> Forall2 val_tok vs (map (f_val f r) (seq 0 (length vs))).
Proof. intros f r vs H. apply Forall2_map_seq_from. intros c v Hc. apply (H c v Hc). Qed.

Lemma head_clean : forall f c, head_ok f c -> tokchar c = true -> clean (f_head f).
Proof. intros f c [more [E Hm]] Hc. rewrite E. split; [discriminate|]. cbn [forallb]. rewrite Hc, Hm. reflexivity. Qed.

Lemma head_kind : forall f t rest lead trail, head_ok f (letter_of t) ->
  l_kind (lexl (mkFline lead (f_head f) rest trail)) = kind_of_tbl t.
Proof. intros f t rest lead trail [more [E _]]. rewrite lexl_kind. unfold render_core. cbn [fl_head fl_rest]. rewrite E. destruct t; reflexivity. Qed.

Lemma tokchar_letter : forall t, tokchar (letter_of t) = true.
Proof. intros []; reflexivity. Qed.

(* a vector line *)
Lemma vec_fline_ok : forall f ln r vs, vs <> [] -> vals_ok f r vs ->
  line_ok (vec_fline f ln r (length vs)) /\ vec_line vs (lexl (vec_fline f ln r (length vs))).
Proof.
  intros f ln r vs Hne Hv. destruct vs as [|v0 vs']; [contradiction|].
  destruct (Hv 0 v0 eq_refl) as (C0 & S0 & _).
  assert (Hl : line_ok (vec_fline f ln r (length (v0 :: vs')))).
  { split; [exact C0|]. unfold vec_fline. cbn [fl_rest]. apply (val_items_clean f r (v0 :: vs')); [exact Hv| cbn [length]; lia]. }
  split; [exact Hl|]. split.
  - rewrite lexl_kind. unfold render_core, vec_fline. cbn [fl_head]. destruct (f_val f r 0) as [|c m]; [contradiction|].
    cbn [app]. apply kind_safe. exact S0.
  - rewrite (lexl_stoks _ Hl) by (apply val_items_blank). unfold vec_fline. cbn [fl_head fl_rest length].
    rewrite val_items_snd. replace (S (length vs') - 1) with (length vs') by lia.
    change (f_val f r 0 :: map (f_val f r) (seq 1 (length vs'))) with (map (f_val f r) (seq 0 (length (v0 :: vs')))).
    apply vals_tok. exact Hv.
Qed.

Lemma kw_clean : clean kw_states /\ clean kw_actions /\ clean kw_observations /\ clean kw_discount /\ clean kw_values.
Proof. repeat split; try discriminate; reflexivity. Qed.

Lemma decl_fline_ok : forall f kw t1 r, clean kw -> clean t1 -> Forall clean r -> line_ok (decl_fline f kw (t1 :: r)).
Proof.
  intros f kw t1 r Hk H1 Hr. split; [exact Hk|]. unfold decl_fline. cbn [fl_rest]. constructor; [exact H1|].
  apply (blank_items_clean r Hr).
Qed.

Lemma decl_renders : forall f kw k d, clean kw -> (forall r, kind_of (kw ++ r) = k) -> decl_ok f d ->
  line_ok (decl_fline f kw (decl_toks f d)) /\ decl_line k d (lexl (decl_fline f kw (decl_toks f d))).
Proof.
  intros f kw k d Hk Hkind Hd. destruct d as [n|names]; cbn [decl_ok decl_toks] in *.
  - destruct Hd as [Hc Hs]. split; [apply decl_fline_ok; [exact Hk| exact Hc| constructor]|].
    destruct (lex_decl f kw (f_num f 0) [] Hk Hc (Forall_nil _)) as [E1 E2].
    split; [rewrite lexl_kind; unfold render_core, decl_fline; cbn [fl_head]; apply Hkind|].
    split; [rewrite E1; discriminate|]. exists (f_num f 0). split; [exact E2| exact Hs].
  - destruct Hd as (Hne & Hcl & Hone). destruct names as [|t1 r]; [contradiction|].
    inversion Hcl as [|? ? H1 Hr]; subst. split; [apply decl_fline_ok; assumption|].
    destruct (lex_decl f kw t1 r Hk H1 Hr) as [E1 E2].
    split; [rewrite lexl_kind; unfold render_core, decl_fline; cbn [fl_head]; apply Hkind|].
    split; [rewrite E1; discriminate|]. split; [exact E2| exact Hone].
Qed.

(* ---------------------------------------------------------------- one statement *)
Lemma print_stmt_renders : forall H f st, fmt_ok H f st ->
  Forall line_ok (print_stmt f st) /\ renders_stmt H st (map lexl (print_stmt f st)).
Proof.
  intros H f st [Hex Hst]. destruct kw_clean as (K1 & K2 & K3 & K4 & K5).
  pose proof (extra_clean f Hex) as Xc. pose proof (extra_blank f) as Xb.
  destruct st; cbn [print_stmt renders_stmt map] in *.
  - destruct (decl_renders f kw_states KStates d K1 kind_states Hst) as [L D].
    split; [constructor; [exact L| constructor]|]. eexists. split; [reflexivity| exact D].
  - destruct (decl_renders f kw_actions KActions d K2 kind_actions Hst) as [L D].
    split; [constructor; [exact L| constructor]|]. eexists. split; [reflexivity| exact D].
  - destruct (decl_renders f kw_observations KObs d K3 kind_observations Hst) as [L D].
    split; [constructor; [exact L| constructor]|]. eexists. split; [reflexivity| exact D].
  - (* discount *)
    destruct Hst as [Hc Hs]. pose proof (decl_fline_ok f kw_discount (f_val f 0 0) [] K4 Hc (Forall_nil _)) as L.
    destruct (lex_decl f kw_discount (f_val f 0 0) [] K4 Hc (Forall_nil _)) as [E1 _].
    split; [constructor; [exact L| constructor]|]. eexists. exists (f_val f 0 0). split; [reflexivity|].
    split; [rewrite lexl_kind; apply kind_discount|]. split; [| exact Hs].
    rewrite E1. unfold body_of_toks. cbn [blank_items map flat_map]. rewrite app_nil_r. reflexivity.
  - (* values *)
    pose proof (decl_fline_ok f kw_values (f_word f) [] K5 Hst (Forall_nil _)) as L.
    split; [constructor; [exact L| constructor]|]. eexists. split; [reflexivity|]. rewrite lexl_kind. apply kind_values.
  - (* other *)
    destruct Hst as [Hc Hs]. assert (L : line_ok (mkFline (f_lead f 0) (f_head f) (extra_items f) (f_trail f 0))) by (split; assumption).
    split; [constructor; [exact L| constructor]|]. eexists. split; [reflexivity|].
    rewrite lexl_kind. unfold render_core. cbn [fl_head]. destruct (f_head f) as [|c m]; [contradiction|]. apply kind_safe. exact Hs.
  - (* entry *)
    destruct Hst as (Hh & Ia & Is & Ie & (Vc & _ & Vs)).
    set (l := mkFline _ _ _ _).
    assert (L : line_ok l).
    { split; [apply (head_clean f _ Hh (tokchar_letter t))|]. unfold l. cbn [fl_rest].
      repeat (constructor; [first [eapply idx_spelling_clean; eassumption | exact Vc]|]). exact Xc. }
    split; [constructor; [exact L| constructor]|].
    exists (lexl l), (f_head f), (idx_spelling f 0 a), (idx_spelling f 1 s), (idx_spelling f 2 e), (f_val f 0 0), (f_extra f).
    split; [reflexivity|]. split; [apply head_kind; exact Hh|].
    split; [rewrite (lexl_colons l L); unfold l; cbn [fl_rest ncolons sepc]; rewrite (all_blank_ncolons _ Xb); reflexivity|].
    split; [rewrite (lexl_toks l L); unfold l; cbn [fl_head fl_rest map snd]; rewrite extra_snd; reflexivity|].
    repeat split; try (eapply idx_spelling_tok; eassumption). exact Vs.
  - (* row, same line *)
    destruct Hst as (Hh & Ia & Is & Hv).
    set (l := mkFline _ _ _ _).
    assert (L : line_ok l).
    { split; [apply (head_clean f _ Hh (tokchar_letter t))|]. unfold l. cbn [fl_rest].
      repeat (constructor; [eapply idx_spelling_clean; eassumption|]). apply (val_items_clean f 0 vs); [exact Hv| lia]. }
    split; [constructor; [exact L| constructor]|].
    exists (lexl l), (f_head f), (idx_spelling f 0 a), (idx_spelling f 1 s), (map (f_val f 0) (seq 0 (length vs))).
    split; [reflexivity|]. split; [apply head_kind; exact Hh|].
    split; [rewrite (lexl_colons l L); unfold l; cbn [fl_rest ncolons sepc]; rewrite (all_blank_ncolons _ (val_items_blank f 0 0 (length vs))); reflexivity|].
    split; [rewrite (lexl_toks l L); unfold l; cbn [fl_head fl_rest map snd]; rewrite val_items_snd; reflexivity|].
    repeat split; try (eapply idx_spelling_tok; eassumption). apply vals_tok; exact Hv.
  - (* row, next line *)
    destruct Hst as (Hh & Ia & Is & Hne & Hv).
    set (l := mkFline (f_lead f 0) _ _ _).
    assert (L : line_ok l).
    { split; [apply (head_clean f _ Hh (tokchar_letter t))|]. unfold l. cbn [fl_rest].
      repeat (constructor; [eapply idx_spelling_clean; eassumption|]). constructor. }
    destruct (vec_fline_ok f 1 0 vs Hne Hv) as [L2 V2].
    split; [constructor; [exact L| constructor; [exact L2| constructor]]|].
    exists (lexl l), (lexl (vec_fline f 1 0 (length vs))), (f_head f), (idx_spelling f 0 a), (idx_spelling f 1 s).
    split; [reflexivity|]. split; [apply head_kind; exact Hh|].
    split; [rewrite (lexl_colons l L); reflexivity|].
    split; [rewrite (lexl_toks l L); reflexivity|].
    repeat split; try (eapply idx_spelling_tok; eassumption); apply V2.
  - (* matrix *)
    destruct Hst as (Hh & Ia & Hrows).
    set (l := mkFline (f_lead f 0) _ _ _).
    assert (L : line_ok l).
    { split; [apply (head_clean f _ Hh (tokchar_letter t))|]. unfold l. cbn [fl_rest].
      constructor; [eapply idx_spelling_clean; eassumption| exact Xc]. }
    assert (Hvec : forall r row, nth_error rows r = Some row ->
                   line_ok (vec_fline f (S r) r (length (nth r rows []))) /\
                   vec_line row (lexl (vec_fline f (S r) r (length (nth r rows []))))).
    { intros r row E. rewrite (nth_error_nth rows r [] E). destruct (Hrows r row E) as [Hne Hv]. apply vec_fline_ok; assumption. }
    split.
    + constructor; [exact L|]. apply Forall_forall. intros x Hx. apply in_map_iff in Hx. destruct Hx as [r [<- Hr]].
      apply in_seq in Hr. destruct (nth_error rows r) as [row|] eqn:E; [apply (Hvec r row E)| apply nth_error_None in E; lia].
    + exists (lexl l), (f_head f), (idx_spelling f 0 a), (f_extra f),
             (map lexl (map (fun r => vec_fline f (S r) r (length (nth r rows []))) (seq 0 (length rows)))).
      split; [reflexivity|]. split; [apply head_kind; exact Hh|].
      split; [rewrite (lexl_colons l L); unfold l; cbn [fl_rest ncolons sepc]; rewrite (all_blank_ncolons _ Xb); reflexivity|].
      split; [rewrite (lexl_toks l L); unfold l; cbn [fl_head fl_rest map snd]; rewrite extra_snd; reflexivity|].
      split; [eapply idx_spelling_tok; eassumption|]. rewrite map_map.
      apply Forall2_map_seq_from. intros c row E. cbn [Nat.add]. apply (Hvec c row E).
  - (* reward *)
    destruct Hst as (Hh & Ia & Is & Ie & Hw & (Vc & _ & Vs)).
    set (l := mkFline _ _ _ _).
    assert (L : line_ok l).
    { split; [apply (head_clean f _ Hh eq_refl)|]. unfold l. cbn [fl_rest].
      repeat (constructor; [first [eapply idx_spelling_clean; eassumption | exact Hw | exact Vc]|]). exact Xc. }
    split; [constructor; [exact L| constructor]|].
    exists (lexl l), (f_head f), (idx_spelling f 0 a), (idx_spelling f 1 s), (idx_spelling f 2 e), (f_word f), (f_val f 0 0), (f_extra f).
    split; [reflexivity|].
    split; [destruct Hh as [more [E _]]; rewrite lexl_kind; unfold render_core, l; cbn [fl_head]; rewrite E; reflexivity|].
    split; [rewrite (lexl_colons l L); unfold l; cbn [fl_rest ncolons sepc]; rewrite (all_blank_ncolons _ Xb); reflexivity|].
    split; [rewrite (lexl_toks l L); unfold l; cbn [fl_head fl_rest map snd]; rewrite extra_snd; reflexivity|].
    repeat split; try (eapply idx_spelling_tok; eassumption). exact Vs.
Qed.

(* ---------------------------------------------------------------- the whole program *)
Lemma print_lines_renders : forall H fmt prog i, fmts_ok H fmt i prog ->
  Forall line_ok (concat (print_lines fmt i prog)) /\
  Forall2 (renders_stmt H) prog (map (map lexl) (print_lines fmt i prog)).
Proof.
  intros H fmt. induction prog as [|st prog IH]; intros i Hf; cbn [print_lines concat map]; [split; constructor|].
  destruct Hf as [Hs Hr]. destruct (print_stmt_renders H (fmt i) st Hs) as [L R]. destruct (IH (S i) Hr) as [L' R'].
  split; [apply Forall_app; split; assumption| constructor; assumption].
Qed.

Lemma print_renders_lemma : forall fmt prog, fmts_ok (hdr_of prog) fmt 0 prog -> renders prog (lex_text (print fmt prog)).
Proof.
  intros fmt prog Hf. destruct (print_lines_renders (hdr_of prog) fmt prog 0 Hf) as [L R].
  unfold renders. exists (map (map lexl) (print_lines fmt 0 prog)). split; [exact R|].
  unfold print. rewrite (lex_render _ L). rewrite concat_map. reflexivity.
Qed.

(* parse_print, for texts *)
Lemma parse_print_full_lemma : forall pomdp prog fmt,
  wf pomdp prog -> fmts_ok (hdr_of prog) fmt 0 prog ->
  parse_text true pomdp (print fmt prog) = Ok (denote pomdp prog).
Proof. intros pomdp prog fmt Hwf Hf. apply parse_print_text_lemma; [exact Hwf| apply print_renders_lemma; exact Hf]. Qed.
