(* C18/ProofsCheck.v — the boolean checkers the driver runs ([wfb], [rendersb]) are sound. *)
From Coq Require Import List Arith Ascii NArith ZArith QArith Bool Lia.
From AIT Require Import C18.Model C18.Spec C18.Proofs C18.ProofsSem.
Import ListNotations.
Local Close Scope Q_scope.

Lemma mem_In : forall x l, mem x l = true <-> In x l.
Proof.
  induction l as [|y l IH]; cbn [mem In]; [split; [discriminate| intros []]|].
  rewrite orb_true_iff, IH, str_eqb_eq. tauto.
Qed.

Lemma nodupb_sound : forall l, nodupb l = true -> NoDup l.
Proof.
  induction l as [|x l IH]; intros H; [constructor|]. cbn [nodupb] in H. apply andb_true_iff in H.
  destruct H as [H1 H2]. constructor; [| apply IH; exact H2].
  intros Hin. apply mem_In in Hin. rewrite Hin in H1. discriminate.
Qed.

Lemma idx_wfb_sound : forall names size ix, idx_wfb names size ix = true -> idx_wf names size ix.
Proof.
  intros names size [|n|nm] H; cbn [idx_wfb idx_wf] in *; [exact I| apply Nat.ltb_lt; exact H|].
  apply andb_true_iff in H. destruct H as [H1 H2]. split; [apply mem_In; exact H1|].
  intros ->. rewrite str_eqb_refl in H2. discriminate.
Qed.

Lemma forallb_Forall : forall A (f : A -> bool) (P : A -> Prop) l,
  (forall x, f x = true -> P x) -> forallb f l = true -> Forall P l.
Proof.
  induction l as [|x l IH]; intros Hf H; [constructor|]. cbn [forallb] in H. apply andb_true_iff in H.
  destruct H as [H1 H2]. constructor; [apply Hf; exact H1| apply IH; assumption].
Qed.

Lemma stmt_wfb_sound : forall pomdp H st, stmt_wfb pomdp H st = true -> stmt_wf pomdp H st.
Proof.
  intros pomdp H st Hb. destruct st; cbn [stmt_wfb stmt_wf] in *; try exact I.
  - intros Hl. rewrite Hl in Hb. cbn [negb orb] in Hb. apply andb_true_iff in Hb. destruct Hb as [Hb H3].
    apply andb_true_iff in Hb. destruct Hb as [H1 H2]. repeat split; apply idx_wfb_sound; assumption.
  - intros Hl. rewrite Hl in Hb. cbn [negb orb] in Hb. apply andb_true_iff in Hb. destruct Hb as [Hb H3].
    apply andb_true_iff in Hb. destruct Hb as [H1 H2]. repeat split; try (apply idx_wfb_sound; assumption).
    apply Nat.eqb_eq; exact H3.
  - intros Hl. rewrite Hl in Hb. cbn [negb orb] in Hb. apply andb_true_iff in Hb. destruct Hb as [Hb H3].
    apply andb_true_iff in Hb. destruct Hb as [H1 H2]. repeat split; try (apply idx_wfb_sound; assumption).
    apply Nat.eqb_eq; exact H3.
  - intros Hl. rewrite Hl in Hb. cbn [negb orb] in Hb. apply andb_true_iff in Hb. destruct Hb as [Hb H3].
    apply andb_true_iff in Hb. destruct Hb as [H1 H2]. split; [apply idx_wfb_sound; exact H1|].
    split; [apply Nat.eqb_eq; exact H2|]. eapply forallb_Forall; [| exact H3]. intros r Hr. apply Nat.eqb_eq; exact Hr.
  - apply andb_true_iff in Hb. destruct Hb as [Hb H3]. apply andb_true_iff in Hb. destruct Hb as [H1 H2].
    repeat split; apply idx_wfb_sound; assumption.
Qed.

Lemma wfb_sound_lemma : forall pomdp prog, wfb pomdp prog = true -> wf pomdp prog.
Proof.
  intros pomdp prog Hb. unfold wfb in Hb. unfold wf.
  repeat (apply andb_true_iff in Hb; let H := fresh "B" in destruct Hb as [Hb H]).
  split; [apply Nat.ltb_lt; exact Hb|]. split; [apply Nat.ltb_lt; exact B6|].
  split; [intros ->; cbn in B5; apply Nat.ltb_lt; exact B5|].
  split; [unfold fits; apply N.leb_le; exact B4|].
  split; [intros ->; cbn in B3; unfold fits; apply N.leb_le; exact B3|].
  split; [apply nodupb_sound; exact B2|]. split; [apply nodupb_sound; exact B1|].
  split; [apply nodupb_sound; exact B0|].
  eapply forallb_Forall; [| exact B]. intros st. apply stmt_wfb_sound.
Qed.

(* ---------------------------------------------------------------- rendersb *)
Lemma val_eqb_eq : forall a b, val_eqb a b = true -> a = b.
Proof.
  intros [[an ad]|s|] [[bn bd]|t|] H; cbn in H; try discriminate; try reflexivity.
  - apply andb_true_iff in H. destruct H as [H1 H2]. cbn in H1, H2. apply Z.eqb_eq in H1. apply Pos.eqb_eq in H2.
    subst; reflexivity.
  - apply Bool.eqb_prop in H. subst; reflexivity.
Qed.

Lemma res_val_is_sound : forall r v, res_val_is r v = true -> r = Ok v.
Proof. intros [w|e| | |] v H; cbn in H; try discriminate. apply val_eqb_eq in H. subst; reflexivity. Qed.

Lemma res_N_is_sound : forall r n, res_N_is r n = true -> r = Ok (N.of_nat n).
Proof. intros [w|e| | |] n H; cbn in H; try discriminate. apply N.eqb_eq in H. subst; reflexivity. Qed.

Lemma idx_tokb_sound : forall names ix t, idx_tokb names ix t = true -> idx_tok names ix t.
Proof.
  intros names [|n|nm] t H; cbn [idx_tokb idx_tok] in *.
  - apply str_eqb_eq; exact H.
  - apply andb_true_iff in H. destruct H as [H H3]. apply andb_true_iff in H. destruct H as [H1 H2].
    split; [apply res_N_is_sound; exact H1|]. split.
    + intros ->. rewrite str_eqb_refl in H2. discriminate.
    + intros Hin. apply mem_In in Hin. rewrite Hin in H3. discriminate.
  - apply str_eqb_eq; exact H.
Qed.

Lemma vals_tokb_sound : forall vs ts, vals_tokb vs ts = true -> Forall2 val_tok vs ts.
Proof.
  induction vs as [|v vs IH]; intros [|t ts] H; cbn [vals_tokb] in H; try discriminate; [constructor|].
  apply andb_true_iff in H. destruct H as [H1 H2]. constructor; [apply res_val_is_sound; exact H1| apply IH; exact H2].
Qed.

Lemma kind_eqb_eq : forall a b, kind_eqb a b = true -> a = b.
Proof. intros [] [] H; cbn in H; try discriminate; reflexivity. Qed.

Lemma strs_eqb_eq : forall a b, strs_eqb a b = true -> a = b.
Proof.
  induction a as [|x a IH]; intros [|y b] H; cbn [strs_eqb] in H; try discriminate; [reflexivity|].
  apply andb_true_iff in H. destruct H as [H1 H2]. apply str_eqb_eq in H1. apply IH in H2. subst; reflexivity.
Qed.

Lemma decl_lineb_sound : forall k d l, decl_lineb k d l = true -> decl_line k d l.
Proof.
  intros k d l H. unfold decl_lineb in H. apply andb_true_iff in H. destruct H as [H H3].
  apply andb_true_iff in H. destruct H as [H1 H2]. split; [apply kind_eqb_eq; exact H1|].
  split; [destruct (l_seg1 l); [discriminate| discriminate H2]|]. destruct d as [n|names].
  - destruct (l_ids l) as [|t [|t' r]]; try discriminate. exists t. split; [reflexivity| apply res_N_is_sound; exact H3].
  - apply andb_true_iff in H3. destruct H3 as [H3 H4]. split; [apply strs_eqb_eq; exact H3|].
    intros t -> n Hn. rewrite Hn in H4. discriminate.
Qed.

Lemma vec_lineb_sound : forall vs l, vec_lineb vs l = true -> vec_line vs l.
Proof.
  intros vs l H. unfold vec_lineb in H. apply andb_true_iff in H. destruct H as [H1 H2].
  split; [apply kind_eqb_eq; exact H1| apply vals_tokb_sound; exact H2].
Qed.

Lemma vec_linesb_sound : forall rows ls, vec_linesb rows ls = true -> Forall2 vec_line rows ls.
Proof.
  induction rows as [|r rows IH]; intros [|l ls] H; cbn [vec_linesb] in H; try discriminate; [constructor|].
  apply andb_true_iff in H. destruct H as [H1 H2]. constructor; [apply vec_lineb_sound; exact H1| apply IH; exact H2].
Qed.

Ltac split_and H :=
  repeat match type of H with
         | (_ && _ = true) => let H' := fresh "B" in apply andb_true_iff in H; destruct H as [H H']
         end.

Lemma renders_stmtb_sound : forall H st ls, renders_stmtb H st ls = true -> renders_stmt H st ls.
Proof.
  intros H st ls Hb. destruct st; cbn [renders_stmtb renders_stmt] in *.
  - destruct ls as [|l [|? ?]]; try discriminate. exists l. split; [reflexivity| apply decl_lineb_sound; exact Hb].
  - destruct ls as [|l [|? ?]]; try discriminate. exists l. split; [reflexivity| apply decl_lineb_sound; exact Hb].
  - destruct ls as [|l [|? ?]]; try discriminate. exists l. split; [reflexivity| apply decl_lineb_sound; exact Hb].
  - destruct ls as [|l [|? ?]]; try discriminate. split_and Hb. destruct (l_seg1 l) as [t|] eqn:E; [| discriminate].
    exists l, t. split; [reflexivity|]. split; [apply kind_eqb_eq; exact Hb|]. split; [exact E| apply res_val_is_sound; exact B].
  - destruct ls as [|l [|? ?]]; try discriminate. exists l. split; [reflexivity| apply kind_eqb_eq; exact Hb].
  - destruct ls as [|l [|? ?]]; try discriminate. exists l. split; [reflexivity| apply kind_eqb_eq; exact Hb].
  - destruct ls as [|l [|? ?]]; try discriminate. split_and Hb.
    destruct (l_toks l) as [|t0 [|ta [|ts [|te [|tv more]]]]] eqn:E; try discriminate. split_and B.
    exists l, t0, ta, ts, te, tv, more. split; [reflexivity|]. split; [apply kind_eqb_eq; exact Hb|].
    split; [apply Nat.eqb_eq; exact B0|]. split; [exact E|].
    repeat split; try (apply idx_tokb_sound; assumption). apply res_val_is_sound; assumption.
  - destruct ls as [|l [|? ?]]; try discriminate. split_and Hb.
    destruct (l_toks l) as [|t0 [|ta [|ts tvs]]] eqn:E; try discriminate. split_and B.
    exists l, t0, ta, ts, tvs. split; [reflexivity|]. split; [apply kind_eqb_eq; exact Hb|].
    split; [apply Nat.eqb_eq; exact B0|]. split; [exact E|].
    repeat split; try (apply idx_tokb_sound; assumption). apply vals_tokb_sound; assumption.
  - destruct ls as [|l [|nl [|? ?]]]; try discriminate. split_and Hb.
    destruct (l_toks l) as [|t0 [|ta [|ts [|? ?]]]] eqn:E; try discriminate. split_and B.
    exists l, nl, t0, ta, ts. split; [reflexivity|]. split; [apply kind_eqb_eq; exact Hb|].
    split; [apply Nat.eqb_eq; exact B0|]. split; [exact E|].
    split; [apply idx_tokb_sound; assumption|]. split; [apply idx_tokb_sound; assumption| apply vec_lineb_sound; assumption].
  - destruct ls as [|l rls]; try discriminate. split_and Hb.
    destruct (l_toks l) as [|t0 [|ta more]] eqn:E; try discriminate. split_and B.
    exists l, t0, ta, more, rls. split; [reflexivity|]. split; [apply kind_eqb_eq; exact Hb|].
    split; [apply Nat.eqb_eq; exact B0|]. split; [exact E|].
    split; [apply idx_tokb_sound; assumption| apply vec_linesb_sound; assumption].
  - destruct ls as [|l [|? ?]]; try discriminate. split_and Hb.
    destruct (l_toks l) as [|t0 [|ta [|ts [|te [|tobs [|tv more]]]]]] eqn:E; try discriminate. split_and B.
    exists l, t0, ta, ts, te, tobs, tv, more. split; [reflexivity|]. split; [apply kind_eqb_eq; exact Hb|].
    split; [apply Nat.eqb_eq; exact B0|]. split; [exact E|].
    repeat split; try (apply idx_tokb_sound; assumption). apply res_val_is_sound; assumption.
Qed.

Lemma rendersb_go_sound : forall H prog ls, rendersb_go H prog ls = true ->
  exists lss, Forall2 (renders_stmt H) prog lss /\ ls = concat lss.
Proof.
  induction prog as [|st prog IH]; intros ls Hb; cbn [rendersb_go] in Hb.
  - destruct ls; [| discriminate]. exists []. split; [constructor| reflexivity].
  - apply andb_true_iff in Hb. destruct Hb as [H1 H2]. destruct (IH _ H2) as [lss [HF E]].
    exists (firstn (nlines st) ls :: lss). split; [constructor; [apply renders_stmtb_sound; exact H1| exact HF]|].
    cbn [concat]. rewrite <- E. symmetry. apply firstn_skipn.
Qed.

Lemma rendersb_sound_lemma : forall prog ls, rendersb prog ls = true -> renders prog ls.
Proof. intros prog ls H. apply rendersb_go_sound. exact H. Qed.
