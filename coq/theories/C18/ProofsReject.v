(* C18/ProofsReject.v — incomplete_rejected, clause by clause (local form: the construct that is
   wrong makes the function that reads it throw; the exception then propagates through [bind]). *)
From Coq Require Import List Arith Ascii NArith ZArith QArith Bool Lia.
From AIT Require Import C18.Model C18.Spec C18.Proofs.
Import ListNotations.
Local Close Scope Q_scope.

(* unknown name, or number at / beyond the bound *)
Lemma bad_index_rejected_lemma : forall t m max,
  str_eqb t star = false -> lookup m t = None ->
  (stoul t = Throw E_stoul \/ exists v, stoul t = Ok v /\ (N.of_nat max <= v)%N) ->
  exists e, parseIndeces t m max = Throw e.
Proof.
  intros t m max Hs Hl Hn. unfold parseIndeces. rewrite Hs, Hl. destruct Hn as [-> | [v [-> Hv]]]; cbn [bind].
  - eexists; reflexivity.
  - apply N.leb_le in Hv. rewrite Hv. eexists; reflexivity.
Qed.

(* wrong number of elements in a vector (next-line rows, matrix rows) *)
Lemma wrong_count_vector_rejected_lemma : forall ts n, length ts <> n -> parseVector ts n = Throw E_vec_count.
Proof. intros ts n H. unfold parseVector. apply Nat.eqb_neq in H. rewrite H. reflexivity. Qed.

(* a T / O line with 0 or more than 3 colons, an R line without exactly 4 *)
Lemma wrong_colons_rejected_lemma : forall fixed M D1 D2 D3 ma d1m d3m l rest,
  l_colons l = 0 \/ 3 < l_colons l -> processMatrix fixed M D1 D2 D3 ma d1m d3m l rest = Throw E_colons.
Proof.
  intros fixed M D1 D2 D3 ma d1m d3m l rest H. unfold processMatrix.
  destruct (l_colons l) as [|[|[|[|c]]]]; try reflexivity; lia.
Qed.

Lemma reward_colons_rejected_lemma : forall R nS nA ma ms l,
  l_colons l <> 4 -> processReward R nS nA ma ms l = Throw E_colons.
Proof.
  intros R nS nA ma ms l H. unfold processReward.
  destruct (l_colons l) as [|[|[|[|[|c]]]]]; try reflexivity. contradiction.
Qed.

(* a matrix statement followed by too few lines *)
Lemma missing_rows_rejected_lemma : forall n d1 av D3 M, 0 < n -> read_rows n d1 av D3 M [] = Throw E_at.
Proof. intros n d1 av D3 M H. destruct n; [lia| reflexivity]. Qed.

(* sizes whose tables do not fit in size_t *)
Lemma oversize_rejected_lemma : forall pomdp ls p body,
  parseModelInfo ls pre0 = Ok (p, body) -> pS p <> 0%N -> pA p <> 0%N -> (pomdp = true -> pO p <> 0%N) ->
  (max_elems < pS p * pA p * pS p)%N ->
  parse_lines true pomdp ls = Throw E_too_large.
Proof.
  intros pomdp ls p body Hp HS HA HO Hbig. unfold parse_lines, parse_lines_from. rewrite Hp. cbn [bind fst snd].
  apply N.eqb_neq in HS. apply N.eqb_neq in HA. rewrite HS, HA. cbn [orb].
  assert (E : (pomdp && (pO p =? 0)%N) = false).
  { destruct pomdp; [| reflexivity]. cbn [andb]. apply N.eqb_neq. apply HO. reflexivity. }
  rewrite E. apply N.ltb_lt in Hbig. rewrite Hbig. reflexivity.
Qed.
