(* C18/ProofsPrint2.v — parse_print: the preamble pass computes the header, the line loop computes
   the cell semantics, and the two together give [denote]. *)
From Coq Require Import List Arith Ascii NArith ZArith QArith Bool Lia.
From AIT Require Import C18.Model C18.Spec C18.Proofs C18.ProofsSafe C18.ProofsSem C18.ProofsPrint.
Import ListNotations.
Local Close Scope Q_scope.

(* ================================================================ phase 1: parseModelInfo *)
Definition is_pre (st : stmt) : bool :=
  match st with SStates _ | SActions _ | SObs _ | SDiscount _ | SValues => true | _ => false end.

Fixpoint body_of (prog : list stmt) (lss : list (list lline)) : list lline :=
  match prog, lss with
  | st :: pr, ls :: lr => if is_pre st then body_of pr lr else ls ++ body_of pr lr
  | _, _ => []
  end.

Definition pre_upd (p : pre) (st : stmt) : pre :=
  match st with
  | SStates d => mkPre (N.of_nat (decl_size (Some d))) (pA p) (pO p) (pD p) (ip (decl_names (Some d))) (mA p) (mO p)
  | SActions d => mkPre (pS p) (N.of_nat (decl_size (Some d))) (pO p) (pD p) (mS p) (ip (decl_names (Some d))) (mO p)
  | SObs d => mkPre (pS p) (pA p) (N.of_nat (decl_size (Some d))) (pD p) (mS p) (mA p) (ip (decl_names (Some d)))
  | SDiscount v => mkPre (pS p) (pA p) (pO p) v (mS p) (mA p) (mO p)
  | _ => p
  end.

Fixpoint pre_after (p : pre) (prog : list stmt) : pre :=
  match prog with [] => p | st :: r => pre_after (pre_upd p st) r end.

Lemma extractIDs_decl : forall k d l, decl_line k d l ->
  extractIDs l = Ok (N.of_nat (decl_size (Some d)), ip (decl_names (Some d))).
Proof.
  intros k d l (_ & Hseg & Hd). unfold extractIDs. destruct (l_seg1 l); [| contradiction]. destruct d as [n|names].
  - destruct Hd as [t [-> Hs]]. rewrite Hs. reflexivity.
  - destruct Hd as [-> Hone]. destruct names as [|t [|t' r]]; try reflexivity.
    specialize (Hone t eq_refl). destruct (stoul t) as [n| | | |] eqn:E; try reflexivity.
    exfalso. exact (Hone n eq_refl).
Qed.

Definition nonpre (l : lline) : Prop :=
  match l_kind l with KT | KO | KR | KOther => True | _ => False end.

Lemma parseModelInfo_app : forall ls rest p, Forall nonpre ls ->
  parseModelInfo (ls ++ rest) p = (q <- parseModelInfo rest p ;; Ok (fst q, ls ++ snd q)).
Proof.
  induction ls as [|l ls IH]; intros rest p HF; cbn [app].
  - destruct (parseModelInfo rest p) as [[a b]| | | |]; reflexivity.
  - inversion HF as [|? ? Hl HF']; subst. cbn [parseModelInfo].
    assert (E : pre_step p l = Ok (p, false)).
    { unfold pre_step. unfold nonpre in Hl. destruct (l_kind l); try contradiction; reflexivity. }
    rewrite E. cbn [bind fst snd]. rewrite (IH rest p HF').
    destruct (parseModelInfo rest p) as [[a b]| | | |]; reflexivity.
Qed.

Lemma kind_of_tbl_nonpre : forall l t, l_kind l = kind_of_tbl t -> nonpre l.
Proof. intros l t H. unfold nonpre. rewrite H. destruct t; exact I. Qed.

Lemma vec_lines_nonpre : forall rows rls, Forall2 vec_line rows rls -> Forall nonpre rls.
Proof. induction 1 as [|r l rows rls [Hk _] _ IH]; constructor; [unfold nonpre; rewrite Hk; exact I| exact IH]. Qed.

Lemma lines_nonpre : forall H st ls, is_pre st = false -> renders_stmt H st ls -> Forall nonpre ls.
Proof.
  intros H st ls Hp Hr. destruct st; cbn in Hp; try discriminate; cbn [renders_stmt] in Hr.
  - destruct Hr as (l & -> & Hk). constructor; [unfold nonpre; rewrite Hk; exact I| constructor].
  - destruct Hr as (l & t0 & ta & ts & te & tv & more & -> & Hk & _). constructor; [eapply kind_of_tbl_nonpre; eauto| constructor].
  - destruct Hr as (l & t0 & ta & ts & tvs & -> & Hk & _). constructor; [eapply kind_of_tbl_nonpre; eauto| constructor].
  - destruct Hr as (l & nl & t0 & ta & ts & -> & Hk & _ & _ & _ & _ & [Hv _]).
    constructor; [eapply kind_of_tbl_nonpre; eauto|]. constructor; [unfold nonpre; rewrite Hv; exact I| constructor].
  - destruct Hr as (l & t0 & ta & more & rls & -> & Hk & _ & _ & _ & Hrows).
    constructor; [eapply kind_of_tbl_nonpre; eauto| eapply vec_lines_nonpre; eauto].
  - destruct Hr as (l & t0 & ta & ts & te & tobs & tv & more & -> & Hk & _). constructor; [unfold nonpre; rewrite Hk; exact I| constructor].
Qed.

Lemma phase1 : forall H prog lss, Forall2 (renders_stmt H) prog lss ->
  forall p, parseModelInfo (concat lss) p = Ok (pre_after p prog, body_of prog lss).
Proof.
  intros H prog lss HF. induction HF as [|st ls prog lss Hr _ IH]; intros p; [reflexivity|].
  cbn [concat pre_after body_of]. destruct (is_pre st) eqn:Ep.
  - destruct st; cbn in Ep; try discriminate; cbn [renders_stmt] in Hr.
    + destruct Hr as (l & -> & Hd). cbn [app parseModelInfo]. unfold pre_step. destruct Hd as (Hk & Hd').
      rewrite Hk. rewrite (extractIDs_decl KStates d l (conj Hk Hd')). cbn [bind fst snd]. rewrite IH. reflexivity.
    + destruct Hr as (l & -> & Hd). cbn [app parseModelInfo]. unfold pre_step. destruct Hd as (Hk & Hd').
      rewrite Hk. rewrite (extractIDs_decl KActions d l (conj Hk Hd')). cbn [bind fst snd]. rewrite IH. reflexivity.
    + destruct Hr as (l & -> & Hd). cbn [app parseModelInfo]. unfold pre_step. destruct Hd as (Hk & Hd').
      rewrite Hk. rewrite (extractIDs_decl KObs d l (conj Hk Hd')). cbn [bind fst snd]. rewrite IH. reflexivity.
    + destruct Hr as (l & t & -> & Hk & Hs & Hv). cbn [app parseModelInfo]. unfold pre_step.
      rewrite Hk, Hs. unfold val_tok in Hv. rewrite Hv. cbn [bind fst snd]. rewrite IH. reflexivity.
    + destruct Hr as (l & -> & Hk). cbn [app parseModelInfo]. unfold pre_step. rewrite Hk. cbn [bind fst snd].
      rewrite IH. reflexivity.
  - rewrite (parseModelInfo_app ls (concat lss) p (lines_nonpre H st ls Ep Hr)). rewrite IH. cbn [bind fst snd].
    destruct st; cbn in Ep; try discriminate; reflexivity.
Qed.

(* the preamble state is the header of the program: the last declaration wins *)
Lemma pre_after_field : forall X (f : pre -> X) (g : stmt -> option X),
  (forall p st, f (pre_upd p st) = match g st with Some x => x | None => f p end) ->
  forall prog p, f (pre_after p prog) = match last_some (map g prog) with Some x => x | None => f p end.
Proof.
  intros X f g Hstep. induction prog as [|st prog IH]; intros p; cbn [pre_after map last_some]; [reflexivity|].
  rewrite IH. destruct (last_some (map g prog)); [reflexivity|]. apply Hstep.
Qed.

Lemma last_some_map_option : forall X Y (F : X -> Y) (sel : stmt -> option X) prog,
  last_some (map (fun st => option_map F (sel st)) prog) = option_map F (last_some (map sel prog)).
Proof.
  induction prog as [|st prog IH]; cbn [map last_some]; [reflexivity|]. rewrite IH.
  destruct (last_some (map sel prog)); reflexivity.
Qed.

Lemma pre_matches_hdr : forall prog, pre_matches (hdr_of prog) (pre_after pre0 prog).
Proof.
  intros prog. unfold pre_matches, hdr_of. cbn [hS hA hO hD nmS nmA nmO]. repeat split.
  - rewrite (pre_after_field _ pS (fun st => option_map (fun d => N.of_nat (decl_size (Some d))) (sel_states st)))
      by (intros p st; destruct st; reflexivity).
    rewrite last_some_map_option. destruct (last_some (map sel_states prog)); reflexivity.
  - rewrite (pre_after_field _ pA (fun st => option_map (fun d => N.of_nat (decl_size (Some d))) (sel_actions st)))
      by (intros p st; destruct st; reflexivity).
    rewrite last_some_map_option. destruct (last_some (map sel_actions prog)); reflexivity.
  - rewrite (pre_after_field _ pO (fun st => option_map (fun d => N.of_nat (decl_size (Some d))) (sel_obs st)))
      by (intros p st; destruct st; reflexivity).
    rewrite last_some_map_option. destruct (last_some (map sel_obs prog)); reflexivity.
  - rewrite (pre_after_field _ pD sel_disc) by (intros p st; destruct st; reflexivity).
    destruct (last_some (map sel_disc prog)); reflexivity.
  - rewrite (pre_after_field _ mS (fun st => option_map (fun d => ip (decl_names (Some d))) (sel_states st)))
      by (intros p st; destruct st; reflexivity).
    rewrite last_some_map_option. destruct (last_some (map sel_states prog)); reflexivity.
  - rewrite (pre_after_field _ mA (fun st => option_map (fun d => ip (decl_names (Some d))) (sel_actions st)))
      by (intros p st; destruct st; reflexivity).
    rewrite last_some_map_option. destruct (last_some (map sel_actions prog)); reflexivity.
  - rewrite (pre_after_field _ mO (fun st => option_map (fun d => ip (decl_names (Some d))) (sel_obs st)))
      by (intros p st; destruct st; reflexivity).
    rewrite last_some_map_option. destruct (last_some (map sel_obs prog)); reflexivity.
Qed.

Lemma decl_names_len : forall od, length (decl_names od) <= decl_size od.
Proof. intros [[n|l]|]; cbn; lia. Qed.

Lemma hdr_ok_of : forall pomdp prog, wf pomdp prog -> hdr_ok (hdr_of prog).
Proof.
  intros pomdp prog (_ & _ & _ & _ & _ & N1 & N2 & N3 & _). unfold hdr_ok. repeat split; try assumption;
    unfold hdr_of; cbn [hS hA hO nmS nmA nmO]; apply decl_names_len.
Qed.

(* ================================================================ phase 2: the line loop *)
Lemma if_false_eq : forall A (b : bool) (x y : A), b = false -> (if b then x else y) = y.
Proof. intros A b x y ->. reflexivity. Qed.
Lemma if_true_eq : forall A (b : bool) (x y : A), b = true -> (if b then x else y) = x.
Proof. intros A b x y ->. reflexivity. Qed.

Section Loop.
  Variable pomdp : bool.
  Variable H : hdr.
  Variable p : pre.
  Hypothesis HOK : hdr_ok H.
  Hypothesis HP : pre_matches H p.
  Hypothesis HposS : 0 < hS H.
  Hypothesis HposO : pomdp = true -> 0 < hO H.
  Let nO := if pomdp then hO H else 0.

  Definition shapes (t : tabs) : Prop :=
    shape (hS H) (hA H) (hS H) (tT t) /\ shape (hS H) (hA H) (hS H) (tR t) /\
    (pomdp = true -> shape (hS H) (hA H) (hO H) (tW t)).

  (* what one statement does to the three tables *)
  Definition effect (st : stmt) (t t1 : tabs) : Prop :=
    upd_by (stmt_cell H WT st) (tT t) (tT t1) /\ upd_by (stmt_cell H WR st) (tR t) (tR t1) /\
    (pomdp = true -> upd_by (stmt_cell H WW st) (tW t) (tW t1)) /\ (pomdp = false -> tW t1 = tW t).

  Definition loop fuel ls t := main_loop fuel true pomdp (hS H) (hA H) nO p ls t.

  Definition step_ok (st : stmt) (ls : list lline) : Prop :=
    forall t rest fuel, shapes t -> length (ls ++ rest) <= fuel ->
    exists t1 fuel', loop fuel (ls ++ rest) t = loop fuel' rest t1 /\ length rest <= fuel' /\
                     shapes t1 /\ effect st t t1.

  Lemma upd_by_none : forall M, upd_by (fun _ _ _ => None) M M.
  Proof. intros M x y z. reflexivity. Qed.

  Lemma upd_by_ext : forall f g M M', (forall x y z, f x y z = g x y z) -> upd_by f M M' -> upd_by g M M'.
  Proof. intros f g M M' E Hu x y z. rewrite <- E. apply Hu. Qed.

  (* a statement all of whose lines are skipped by the loop *)
  Lemma loop_skip : forall ls rest t fuel,
    Forall (fun l => match l_kind l with KOther => True | KO => pomdp = false | _ => False end) ls ->
    length (ls ++ rest) <= fuel ->
    exists fuel', loop fuel (ls ++ rest) t = loop fuel' rest t /\ length rest <= fuel'.
  Proof.
    induction ls as [|l ls IH]; intros rest t fuel HF Hlen; cbn [app] in *.
    - exists fuel. split; [reflexivity| exact Hlen].
    - inversion HF as [|? ? Hl HF']; subst. destruct fuel as [|f]; [cbn in Hlen; lia|]. cbn [length] in Hlen.
      destruct (IH rest t f HF') as [f' [E Hf']]; [lia|]. exists f'. split; [| exact Hf'].
      unfold loop in *. cbn [main_loop]. destruct (l_kind l); try contradiction.
      + rewrite (if_false_eq _ pomdp _ _ Hl). exact E.
      + exact E.
  Qed.

  Lemma effect_none : forall st t,
    (forall w x y z, (w = WW -> pomdp = true) -> stmt_cell H w st x y z = None) -> effect st t t.
  Proof.
    intros st t Hn. split; [| split; [| split]].
    - intros x y z. rewrite Hn by discriminate. reflexivity.
    - intros x y z. rewrite Hn by discriminate. reflexivity.
    - intros Hp x y z. rewrite Hn by (intros _; exact Hp). reflexivity.
    - intros _. reflexivity.
  Qed.

  Lemma step_skip : forall st ls,
    (forall w x y z, (w = WW -> pomdp = true) -> stmt_cell H w st x y z = None) ->
    Forall (fun l => match l_kind l with KOther => True | KO => pomdp = false | _ => False end) ls ->
    step_ok st ls.
  Proof.
    intros st ls Hn HF t rest fuel Hs Hlen. destruct (loop_skip ls rest t fuel HF Hlen) as [f' [E Hf']].
    exists t, f'. split; [exact E|]. split; [exact Hf'|]. split; [exact Hs| apply effect_none; exact Hn].
  Qed.

  Lemma vec_lines_other : forall rows rls, Forall2 vec_line rows rls ->
    Forall (fun l => match l_kind l with KOther => True | KO => pomdp = false | _ => False end) rls.
  Proof. induction 1 as [|r l rows rls [Hk _] _ IH]; constructor; [rewrite Hk; exact I| exact IH]. Qed.

  (* the T table or, for a POMDP, the W table, selected by the statement's letter *)
  Lemma step_matrix : forall st t0 l ls' (f : nat -> nat -> nat -> option val),
    live pomdp t0 = true -> l_kind l = kind_of_tbl t0 ->
    (forall w x y z, stmt_cell H w st x y z = if tbl_is w t0 then f x y z else None) ->
    (forall M rest, shape (hS H) (hA H) (d3s H t0) M ->
       exists M', processMatrix true M (hS H) (hA H) (d3s H t0) (ip (nmA H)) (ip (nmS H)) (ip (d3n H t0)) l (ls' ++ rest)
                  = Ok (M', rest) /\ shape (hS H) (hA H) (d3s H t0) M' /\ upd_by f M M') ->
    step_ok st (l :: ls').
  Proof.
    intros st t0 l ls' f Hlive Hk Hcell Hpm t rest fuel (ST & SR & SW) Hlen.
    destruct HP as (PS & PA & PO & PD & MS & MA & MO).
    destruct fuel as [|fu]; [cbn in Hlen; lia|]. cbn [app length] in Hlen.
    destruct t0; cbn [kind_of_tbl live d3s d3n] in *.
    - (* T *)
      destruct (Hpm (tT t) rest ST) as [M' [E [HM' Hu]]].
      exists (mkTabs M' (tR t) (tW t)), fu. split; [| split; [rewrite app_length in Hlen; lia| split]].
      + unfold loop. cbn [main_loop app]. rewrite Hk. rewrite MA, MS. rewrite E. cbn [bind fst snd]. reflexivity.
      + split; [| split]; cbn [tT tR tW]; assumption.
      + split; [| split; [| split]]; cbn [tT tR tW].
        * eapply upd_by_ext; [| exact Hu]. intros x y z. rewrite Hcell. reflexivity.
        * eapply upd_by_ext; [| apply upd_by_none]. intros x y z. rewrite Hcell. reflexivity.
        * intros _. eapply upd_by_ext; [| apply upd_by_none]. intros x y z. rewrite Hcell. reflexivity.
        * intros _. reflexivity.
    - (* O, read as a POMDP *)
      assert (HnO : nO = hO H) by (unfold nO; apply if_true_eq; exact Hlive).
      destruct (Hpm (tW t) rest (SW Hlive)) as [M' [E [HM' Hu]]].
      exists (mkTabs (tT t) (tR t) M'), fu. split; [| split; [rewrite app_length in Hlen; lia| split]].
      + unfold loop. rewrite HnO. cbn [main_loop app]. rewrite Hk. rewrite (if_true_eq _ pomdp _ _ Hlive).
        rewrite MA, MS, MO. rewrite E. cbn [bind fst snd]. reflexivity.
      + split; [| split]; cbn [tT tR tW]; try assumption. intros _. exact HM'.
      + split; [| split; [| split]]; cbn [tT tR tW].
        * eapply upd_by_ext; [| apply upd_by_none]. intros x y z. rewrite Hcell. reflexivity.
        * eapply upd_by_ext; [| apply upd_by_none]. intros x y z. rewrite Hcell. reflexivity.
        * intros _. eapply upd_by_ext; [| exact Hu]. intros x y z. rewrite Hcell. reflexivity.
        * intros Hf. rewrite Hf in Hlive. discriminate.
  Qed.

  Lemma d3s_pos : forall t0, live pomdp t0 = true -> 0 < d3s H t0.
  Proof. intros [|] Hl; cbn in *; auto. Qed.

  Lemma tbl_is_d3 : forall w t0, tbl_is w t0 = true -> d3names H w = d3n H t0 /\ d3size H w = d3s H t0.
  Proof. intros [| |] [|] E; cbn in *; try discriminate; auto. Qed.

  Lemma dead_cell_none : forall st t0, live pomdp t0 = false ->
    (forall w x y z, tbl_is w t0 = false -> stmt_cell H w st x y z = None) ->
    forall w x y z, (w = WW -> pomdp = true) -> stmt_cell H w st x y z = None.
  Proof.
    intros st t0 Hl Hc w x y z Hw. apply Hc. destruct t0; cbn in Hl; [discriminate|].
    destruct w; cbn; try reflexivity. rewrite (Hw eq_refl) in Hl. discriminate.
  Qed.

  Lemma stmt_step : forall st ls, is_pre st = false -> renders_stmt H st ls -> stmt_wf pomdp H st -> step_ok st ls.
  Proof.
    intros st ls Hpre Hr Hwf. destruct st; cbn in Hpre; try discriminate; cbn [renders_stmt stmt_wf] in *.
    - (* SOther *)
      destruct Hr as (l & -> & Hk). apply step_skip; [reflexivity|]. constructor; [rewrite Hk; exact I| constructor].
    - (* SEntry *)
      destruct Hr as (l & t0 & ta & ts & te & tv & more & -> & Hk & Hc & Ht & Ka & Ks & Ke & Kv).
      destruct (live pomdp t) eqn:Hlive.
      + destruct (Hwf eq_refl) as (Wa & Ws & We).
        apply (step_matrix _ t l [] (fun x y z => if cov (nmA H) (hA H) a y && cov (nmS H) (hS H) s x && cov (d3n H t) (d3s H t) e z then Some v else None)); try assumption.
        * intros w x y z. cbn [stmt_cell]. destruct (tbl_is w t) eqn:Et; cbn [andb]; [| reflexivity].
          destruct (tbl_is_d3 w t Et) as [-> ->]. reflexivity.
        * intros M rest HM. cbn [app]. eapply pm_entry; eauto.
      + apply step_skip.
        * apply (dead_cell_none _ t Hlive). intros w x y z Et. cbn [stmt_cell]. rewrite Et. reflexivity.
        * constructor; [| constructor]. rewrite Hk. destruct t; cbn in *; [discriminate| exact Hlive].
    - (* SRowIn *)
      destruct Hr as (l & t0 & ta & ts & tvs & -> & Hk & Hc & Ht & Ka & Ks & Kv).
      destruct (live pomdp t) eqn:Hlive.
      + destruct (Hwf eq_refl) as (Wa & Ws & Wl).
        apply (step_matrix _ t l [] (fun x y z => if cov (nmA H) (hA H) a y && cov (nmS H) (hS H) s x then nth_error vs z else None)); try assumption.
        * intros w x y z. cbn [stmt_cell]. destruct (tbl_is w t); cbn [andb]; reflexivity.
        * intros M rest HM. cbn [app]. eapply pm_row_in; eauto. apply d3s_pos; exact Hlive.
      + apply step_skip.
        * apply (dead_cell_none _ t Hlive). intros w x y z Et. cbn [stmt_cell]. rewrite Et. reflexivity.
        * constructor; [| constructor]. rewrite Hk. destruct t; cbn in *; [discriminate| exact Hlive].
    - (* SRowNext *)
      destruct Hr as (l & nl & t0 & ta & ts & -> & Hk & Hc & Ht & Ka & Ks & Kv).
      destruct (live pomdp t) eqn:Hlive.
      + destruct (Hwf eq_refl) as (Wa & Ws & Wl).
        apply (step_matrix _ t l [nl] (fun x y z => if cov (nmA H) (hA H) a y && cov (nmS H) (hS H) s x then nth_error vs z else None)); try assumption.
        * intros w x y z. cbn [stmt_cell]. destruct (tbl_is w t); cbn [andb]; reflexivity.
        * intros M rest HM. cbn [app]. eapply pm_row_next; eauto. apply d3s_pos; exact Hlive.
      + apply step_skip.
        * apply (dead_cell_none _ t Hlive). intros w x y z Et. cbn [stmt_cell]. rewrite Et. reflexivity.
        * constructor; [| constructor; [| constructor]].
          -- rewrite Hk. destruct t; cbn in *; [discriminate| exact Hlive].
          -- destruct Kv as [Hv _]. rewrite Hv. exact I.
    - (* SMat *)
      destruct Hr as (l & t0 & ta & more & rls & -> & Hk & Hc & Ht & Ka & Kr).
      destruct (live pomdp t) eqn:Hlive.
      + destruct (Hwf eq_refl) as (Wa & Wl & Wr).
        apply (step_matrix _ t l rls (fun x y z => if cov (nmA H) (hA H) a y then nth_error (nth x rows []) z else None)); try assumption.
        * intros w x y z. cbn [stmt_cell]. destruct (tbl_is w t); cbn [andb]; reflexivity.
        * intros M rest HM. eapply pm_mat; eauto.
      + apply step_skip.
        * apply (dead_cell_none _ t Hlive). intros w x y z Et. cbn [stmt_cell]. rewrite Et. reflexivity.
        * constructor; [| eapply vec_lines_other; eauto].
          rewrite Hk. destruct t; cbn in *; [discriminate| exact Hlive].
    - (* SRew *)
      destruct Hr as (l & t0 & ta & ts & te & tobs & tv & more & -> & Hk & Hc & Ht & Ka & Ks & Ke & Kv).
      destruct Hwf as (Wa & Ws & We).
      intros t rest fuel (ST & SR & SW) Hlen.
      destruct (pr_rew H (tR t) l a s e v t0 ta ts te tobs tv more HOK SR Hc Ht Wa Ws We Ka Ks Ke Kv) as [R' [E [HR' Hu]]].
      destruct HP as (PS & PA & PO & PD & MS & MA & MO).
      destruct fuel as [|fu]; [cbn in Hlen; lia|]. cbn [app length] in Hlen.
      exists (mkTabs (tT t) R' (tW t)), fu. split; [| split; [lia| split]].
      + unfold loop. cbn [main_loop app]. rewrite Hk. rewrite MA, MS. rewrite E. cbn [bind]. reflexivity.
      + split; [| split]; cbn [tT tR tW]; assumption.
      + split; [| split; [| split]]; cbn [tT tR tW].
        * apply upd_by_none.
        * exact Hu.
        * intros _. apply upd_by_none.
        * intros _. reflexivity.
  Qed.

  (* ---------------------------------------------------------------- the loop computes the cell semantics *)
  Definition cell_from (w : which) (prog : list stmt) (init : nat -> nat -> nat -> val) (x y z : nat) : val :=
    ov (last_some (map (fun st => stmt_cell H w st x y z) prog)) (init x y z).

  Lemma cell_from_cons : forall w st prog init x y z,
    cell_from w (st :: prog) init x y z = cell_from w prog (fun x y z => ov (stmt_cell H w st x y z) (init x y z)) x y z.
  Proof.
    intros. unfold cell_from. cbn [map last_some].
    destruct (last_some (map (fun st0 => stmt_cell H w st0 x y z) prog)); reflexivity.
  Qed.

  Lemma cell_from_ext : forall w prog i1 i2 x y z, i1 x y z = i2 x y z -> cell_from w prog i1 x y z = cell_from w prog i2 x y z.
  Proof. intros. unfold cell_from. rewrite H0. reflexivity. Qed.

  Lemma pre_cell_none : forall st, is_pre st = true -> forall w x y z, stmt_cell H w st x y z = None.
  Proof. intros st Hp w x y z. destruct st; cbn in Hp; try discriminate; reflexivity. Qed.

  Lemma main_loop_sem : forall prog lss, Forall2 (renders_stmt H) prog lss -> Forall (stmt_wf pomdp H) prog ->
    forall fuel t, length (body_of prog lss) <= fuel -> shapes t ->
    exists t', loop fuel (body_of prog lss) t = Ok t' /\ shapes t' /\
      (forall x y z, get3 (tT t') x y z = cell_from WT prog (get3 (tT t)) x y z) /\
      (forall x y z, get3 (tR t') x y z = cell_from WR prog (get3 (tR t)) x y z) /\
      (pomdp = true -> forall x y z, get3 (tW t') x y z = cell_from WW prog (get3 (tW t)) x y z) /\
      (pomdp = false -> tW t' = tW t).
  Proof.
    intros prog lss HF. induction HF as [|st ls prog lss Hr _ IH]; intros Hwf fuel t Hlen Hs.
    - exists t. cbn [body_of]. split; [unfold loop; destruct fuel; reflexivity|]. split; [exact Hs|].
      split; [| split; [| split]]; try (intros _); reflexivity.
    - inversion Hwf as [|? ? Hw Hwf']; subst. cbn [body_of] in *. destruct (is_pre st) eqn:Ep.
      + destruct (IH Hwf' fuel t Hlen Hs) as [t' [E [Hs' [GT [GR [GW GE]]]]]].
        exists t'. split; [exact E|]. split; [exact Hs'|].
        split; [| split; [| split]].
        * intros x y z. rewrite cell_from_cons, GT. apply cell_from_ext. rewrite (pre_cell_none st Ep). reflexivity.
        * intros x y z. rewrite cell_from_cons, GR. apply cell_from_ext. rewrite (pre_cell_none st Ep). reflexivity.
        * intros Hp x y z. rewrite cell_from_cons, (GW Hp). apply cell_from_ext. rewrite (pre_cell_none st Ep). reflexivity.
        * exact GE.
      + destruct (stmt_step st ls Ep Hr Hw t (body_of prog lss) fuel Hs Hlen)
          as [t1 [f' [E1 [Hf' [Hs1 (ET & ER & EW & EE)]]]]].
        destruct (IH Hwf' f' t1 Hf' Hs1) as [t' [E [Hs' [GT [GR [GW GE]]]]]].
        exists t'. split; [rewrite E1; exact E|]. split; [exact Hs'|]. split; [| split; [| split]].
        * intros x y z. rewrite cell_from_cons, GT. apply cell_from_ext. apply ET.
        * intros x y z. rewrite cell_from_cons, GR. apply cell_from_ext. apply ER.
        * intros Hp x y z. rewrite cell_from_cons, (GW Hp). apply cell_from_ext. apply (EW Hp).
        * intros Hp. rewrite (GE Hp). apply (EE Hp).
  Qed.
End Loop.

(* ================================================================ the theorem *)
Lemma N_of_nat_pos : forall n, 0 < n -> (N.of_nat n =? 0)%N = false.
Proof. intros n Hn. apply N.eqb_neq. lia. Qed.

Lemma cell_from_zero : forall H w prog d1 d2 d3 x y z,
  cell_from H w prog (get3 (new_tab d1 d2 d3)) x y z = cell_val H w prog x y z.
Proof. intros. unfold cell_from, cell_val, ov. rewrite get3_new_tab. reflexivity. Qed.

Lemma parse_print_lemma : forall pomdp prog ls,
  wf pomdp prog -> renders prog ls -> parse_lines true pomdp ls = Ok (denote pomdp prog).
Proof.
  intros pomdp prog ls Hwf [lss [HF ->]].
  pose proof (hdr_ok_of pomdp prog Hwf) as HOK.
  pose proof (pre_matches_hdr prog) as HP.
  destruct Hwf as (PosS & PosA & PosO & FitS & FitO & _ & _ & _ & Hst).
  set (H := hdr_of prog) in *.
  unfold parse_lines, parse_lines_from. rewrite (phase1 H prog lss HF pre0). cbn [bind fst snd].
  destruct HP as (PS & PA & PO & PD & MS & MA & MO). rewrite PS, PA, PO, PD.
  assert (C1 : ((N.of_nat (hS H) =? 0)%N || (N.of_nat (hA H) =? 0)%N || (pomdp && (N.of_nat (hO H) =? 0)%N)) = false).
  { rewrite (N_of_nat_pos _ PosS), (N_of_nat_pos _ PosA). cbn [orb].
    destruct pomdp; [| reflexivity]. cbn [andb]. apply N_of_nat_pos. apply PosO. reflexivity. }
  rewrite C1.
  assert (C2 : ((max_elems <? N.of_nat (hS H) * N.of_nat (hA H) * N.of_nat (hS H))%N
                || (pomdp && (max_elems <? N.of_nat (hS H) * N.of_nat (hA H) * N.of_nat (hO H))%N)) = false).
  { unfold fits in FitS, FitO.
    assert ((max_elems <? N.of_nat (hS H) * N.of_nat (hA H) * N.of_nat (hS H))%N = false) as -> by (apply N.ltb_ge; exact FitS).
    cbn [orb]. destruct pomdp; [| reflexivity]. cbn [andb]. apply N.ltb_ge. apply FitO. reflexivity. }
  rewrite C2. rewrite !Nnat.Nat2N.id.
  assert (HP' : pre_matches H (pre_after pre0 prog)) by (repeat split; assumption).
  set (t0 := mkTabs (new_tab (hS H) (hA H) (hS H)) (new_tab (hS H) (hA H) (hS H))
                    (if pomdp then new_tab (hS H) (hA H) (if pomdp then hO H else 0) else [])).
  assert (Hs0 : shapes pomdp H t0).
  { split; [apply new_tab_shape| split; [apply new_tab_shape|]]. intros ->. apply new_tab_shape. }
  destruct (main_loop_sem pomdp H (pre_after pre0 prog) HOK HP' PosS PosO prog lss HF Hst (length (body_of prog lss)) t0 (le_n _) Hs0)
    as [t' [E [(ST & SR & SW) [GT [GR [GW GE]]]]]].
  unfold loop in E. rewrite E. cbn [bind]. unfold denote. fold H. f_equal. f_equal.
  - apply tab_ext; [exact ST|]. intros x y z _ _ _. rewrite GT. apply cell_from_zero.
  - apply tab_ext; [exact SR|]. intros x y z _ _ _. rewrite GR. apply cell_from_zero.
  - destruct pomdp.
    + apply tab_ext; [exact (SW eq_refl)|]. intros x y z _ _ _. rewrite (GW eq_refl). apply cell_from_zero.
    + rewrite (GE eq_refl). reflexivity.
Qed.

(* for every text whose lexed lines render the program *)
Lemma parse_print_text_lemma : forall pomdp prog text,
  wf pomdp prog -> renders prog (lex_text text) -> parse_text true pomdp text = Ok (denote pomdp prog).
Proof. intros pomdp prog text Hwf Hr. apply parse_print_lemma; assumption. Qed.
