(* C18/ProofsLex.v — the character-level lexer on printed lines: getline splitting, trim,
   boost::tokenizer splitting, colon count, first-word dispatch. *)
From Coq Require Import List Arith Ascii NArith ZArith QArith Bool Lia.
From AIT Require Import C18.Model C18.Spec C18.ProofsSem.
Import ListNotations.
Local Close Scope Q_scope.

(* ---------------------------------------------------------------- split_on *)
Section Split.
  Variable sepf : ascii -> bool.
  Definition nonsep (t : str) : Prop := forallb (fun c => negb (sepf c)) t = true.
  Definition allsep (t : str) : Prop := forallb sepf t = true.

  Lemma split_tok : forall t s cur, nonsep t -> split_on sepf (t ++ s) cur = split_on sepf s (rev t ++ cur).
  Proof.
    induction t as [|c t IH]; intros s cur H; [reflexivity|]. cbn [forallb] in H. unfold nonsep in H. cbn [forallb] in H.
    apply andb_true_iff in H. destruct H as [Hc Ht]. apply negb_true_iff in Hc.
    cbn [app split_on rev]. rewrite Hc. rewrite (IH s (c :: cur) Ht). rewrite <- app_assoc. reflexivity.
  Qed.

  Lemma split_seps_nil : forall ss s, allsep ss -> split_on sepf (ss ++ s) [] = split_on sepf s [].
  Proof.
    induction ss as [|c ss IH]; intros s H; [reflexivity|]. unfold allsep in H. cbn [forallb] in H.
    apply andb_true_iff in H. destruct H as [Hc Hs]. cbn [app split_on]. rewrite Hc. apply IH. exact Hs.
  Qed.

  Lemma split_seps_cur : forall ss s c cur, allsep ss -> ss <> [] ->
    split_on sepf (ss ++ s) (c :: cur) = rev (c :: cur) :: split_on sepf s [].
  Proof.
    intros [|d ss] s c cur H Hne; [contradiction|]. unfold allsep in H. cbn [forallb] in H.
    apply andb_true_iff in H. destruct H as [Hd Hs]. cbn [app split_on]. rewrite Hd. f_equal.
    apply split_seps_nil. exact Hs.
  Qed.

  Lemma split_end : forall tail c cur, allsep tail -> split_on sepf tail (c :: cur) = [rev (c :: cur)].
  Proof.
    intros [|d tail] c cur H; [reflexivity|].
    rewrite <- (app_nil_r (d :: tail)). rewrite split_seps_cur; [reflexivity| exact H| discriminate].
  Qed.

  Variable X : Type.
  Variable sepstr tok : X -> str.

  Definition chunk_ok (p : X) : Prop :=
    allsep (sepstr p) /\ sepstr p <> [] /\ nonsep (tok p) /\ tok p <> [].

  Lemma split_chunks_cur : forall rest t tail, t <> [] -> Forall chunk_ok rest -> allsep tail ->
    split_on sepf (flat_map (fun p => sepstr p ++ tok p) rest ++ tail) (rev t) = t :: map tok rest.
  Proof.
    induction rest as [|p rest IH]; intros t tail Ht HF Htail.
    - cbn [flat_map app map]. destruct (rev t) as [|c cur] eqn:E.
      + exfalso. apply Ht. rewrite <- (rev_involutive t), E. reflexivity.
      + rewrite split_end by exact Htail. rewrite <- E, rev_involutive. reflexivity.
    - inversion HF as [|? ? (Hs & Hsn & Ht' & Htn) HF']; subst. cbn [flat_map map].
      rewrite <- !app_assoc. destruct (rev t) as [|c cur] eqn:E.
      + exfalso. apply Ht. rewrite <- (rev_involutive t), E. reflexivity.
      + rewrite split_seps_cur by assumption. rewrite <- E, rev_involutive. f_equal.
        rewrite split_tok by exact Ht'. rewrite app_nil_r. apply IH; assumption.
  Qed.

  Lemma split_chunks : forall t0 rest tail, t0 <> [] -> nonsep t0 -> Forall chunk_ok rest -> allsep tail ->
    split_on sepf (t0 ++ flat_map (fun p => sepstr p ++ tok p) rest ++ tail) [] = t0 :: map tok rest.
  Proof.
    intros t0 rest tail H0 Hn HF Ht. rewrite split_tok by exact Hn. rewrite app_nil_r.
    apply split_chunks_cur; assumption.
  Qed.
End Split.

(* ---------------------------------------------------------------- trim *)
Lemma is_space_blank : is_space blank = true.
Proof. reflexivity. Qed.

Lemma drop_space_sp : forall n s, drop_space (sp n ++ s) = drop_space s.
Proof. induction n as [|n IH]; intros s; [reflexivity|]. cbn [sp repeat app drop_space]. rewrite is_space_blank. apply IH. Qed.

Lemma rev_sp : forall n, rev (sp n) = sp n.
Proof.
  induction n as [|n IH]; [reflexivity|]. cbn [sp repeat rev]. fold (sp n). rewrite IH.
  clear IH. induction n as [|n IH]; [reflexivity|]. cbn [sp repeat app]. f_equal. exact IH.
Qed.

Definition starts_nonspace (s : str) : Prop := exists c m, s = c :: m /\ is_space c = false.
Definition ends_nonspace (s : str) : Prop := exists m c, s = m ++ [c] /\ is_space c = false.

Lemma trim_core : forall a b core, starts_nonspace core -> ends_nonspace core ->
  trim (sp a ++ core ++ sp b) = core.
Proof.
  intros a b core [c [m [E Hc]]] [m' [c' [E' Hc']]]. unfold trim. rewrite drop_space_sp.
  assert (D1 : drop_space (core ++ sp b) = core ++ sp b) by (rewrite E; cbn [app drop_space]; rewrite Hc; reflexivity).
  rewrite D1. rewrite rev_app_distr, rev_sp, drop_space_sp.
  assert (D2 : drop_space (rev core) = rev core).
  { rewrite E'. rewrite rev_app_distr. cbn [rev app drop_space]. rewrite Hc'. reflexivity. }
  rewrite D2. apply rev_involutive.
Qed.

Lemma tokchar_nonspace : forall c, tokchar c = true -> is_space c = false.
Proof. intros c H. unfold tokchar in H. apply andb_true_iff in H. destruct H as [H _]. apply negb_true_iff in H. exact H. Qed.
Lemma tokchar_noncolon : forall c, tokchar c = true -> is_colon c = false.
Proof. intros c H. unfold tokchar in H. apply andb_true_iff in H. destruct H as [_ H]. apply negb_true_iff in H. exact H. Qed.

Lemma clean_starts : forall t, clean t -> starts_nonspace t.
Proof.
  intros [|c m] [Hne H]; [contradiction|]. cbn [forallb] in H. apply andb_true_iff in H. destruct H as [Hc _].
  exists c, m. split; [reflexivity| apply tokchar_nonspace; exact Hc].
Qed.

Lemma clean_ends : forall t, clean t -> ends_nonspace t.
Proof.
  intros t [Hne H]. destruct (exists_last Hne) as [m [c E]]. exists m, c. split; [exact E|].
  rewrite E, forallb_app in H. apply andb_true_iff in H. destruct H as [_ H]. cbn in H.
  rewrite andb_true_r in H. apply tokchar_nonspace; exact H.
Qed.

Lemma ends_app : forall s t, ends_nonspace t -> ends_nonspace (s ++ t).
Proof. intros s t [m [c [E H]]]. exists (s ++ m), c. split; [rewrite E, app_assoc; reflexivity| exact H]. Qed.

Lemma starts_app : forall s t, starts_nonspace s -> starts_nonspace (s ++ t).
Proof. intros s t [c [m [E H]]]. exists c, (m ++ t). split; [rewrite E; reflexivity| exact H]. Qed.

Lemma trim_clean : forall t, clean t -> trim t = t.
Proof.
  intros t H. pose proof (trim_core 0 0 t (clean_starts t H) (clean_ends t H)) as E.
  cbn [sp repeat app] in E. rewrite app_nil_r in E. exact E.
Qed.

Lemma map_trim_clean : forall ts, Forall clean ts -> map trim ts = ts.
Proof. induction 1 as [|t ts Ht _ IH]; [reflexivity|]. cbn [map]. rewrite IH, (trim_clean t Ht). reflexivity. Qed.

(* ---------------------------------------------------------------- separators and tokens of a printed line *)
Lemma forallb_sp : forall (f : ascii -> bool) n, f blank = true -> forallb f (sp n) = true.
Proof. intros f n H. induction n as [|n IH]; [reflexivity|]. cbn [sp repeat forallb]. rewrite H. exact IH. Qed.

Lemma render_sep_allsep : forall s, allsep is_colon_or_blank (render_sep s) /\ render_sep s <> [].
Proof.
  intros [n|a b]; cbn [render_sep]; split.
  - apply forallb_sp. reflexivity.
  - discriminate.
  - unfold allsep. rewrite forallb_app. cbn [forallb]. rewrite !forallb_sp by reflexivity. reflexivity.
  - destruct a; discriminate.
Qed.

Lemma clean_nonsep_cb : forall t, clean t -> nonsep is_colon_or_blank t.
Proof.
  intros t [_ H]. unfold nonsep. rewrite forallb_forall in *. intros c Hc. specialize (H c Hc).
  unfold is_colon_or_blank. rewrite (tokchar_noncolon c H). cbn [orb].
  unfold is_blank. pose proof (tokchar_nonspace c H) as Hs. unfold is_space in Hs.
  apply orb_false_iff in Hs. destruct Hs as [_ Hs]. rewrite Hs. reflexivity.
Qed.

Lemma clean_nonsep_b : forall t, clean t -> nonsep is_blank t.
Proof.
  intros t [_ H]. unfold nonsep. rewrite forallb_forall in *. intros c Hc. specialize (H c Hc).
  unfold is_blank. pose proof (tokchar_nonspace c H) as Hs. unfold is_space in Hs.
  apply orb_false_iff in Hs. destruct Hs as [_ Hs]. rewrite Hs. reflexivity.
Qed.

Definition items_clean (rest : list (sep * str)) : Prop := Forall (fun p => clean (snd p)) rest.

(* tokenize(core, ": ") *)
Lemma toks_core : forall l, clean (fl_head l) -> items_clean (fl_rest l) ->
  tokenize (render_core l) is_colon_or_blank = fl_head l :: map snd (fl_rest l).
Proof.
  intros l Hh Hr. unfold tokenize, render_core.
  pose proof (split_chunks is_colon_or_blank _ (fun p : sep * str => render_sep (fst p)) snd (fl_head l) (fl_rest l) []) as E.
  rewrite app_nil_r in E. cbn beta in E. unfold str in *. rewrite E.
  - cbn [map]. rewrite (trim_clean _ Hh). f_equal. apply map_trim_clean.
    unfold items_clean in Hr. rewrite Forall_forall in *. intros t Ht. apply in_map_iff in Ht.
    destruct Ht as [p [<- Hp]]. apply Hr; exact Hp.
  - apply Hh.
  - apply clean_nonsep_cb; exact Hh.
  - unfold items_clean in Hr. rewrite Forall_forall in *. intros p Hp. unfold chunk_ok.
    destruct (render_sep_allsep (fst p)) as [A B]. repeat split; try assumption.
    + apply clean_nonsep_cb. apply Hr; exact Hp.
    + apply (Hr p Hp).
  - reflexivity.
Qed.

(* tokenize(core, " ") when every separator is a run of blanks *)
Definition all_blank_seps (rest : list (sep * str)) : Prop :=
  Forall (fun p => match fst p with SepB _ => True | SepC _ _ => False end) rest.

Lemma stoks_core_gen : forall t0 rest, clean t0 -> items_clean rest -> all_blank_seps rest ->
  tokenize (t0 ++ flat_map (fun p => render_sep (fst p) ++ snd p) rest) is_blank = t0 :: map snd rest.
Proof.
  intros t0 rest Hh Hr Hb. unfold tokenize.
  pose proof (split_chunks is_blank _ (fun p : sep * str => render_sep (fst p)) snd t0 rest []) as E.
  rewrite app_nil_r in E. cbn beta in E. unfold str in *. rewrite E.
  - cbn [map]. rewrite (trim_clean _ Hh). f_equal. apply map_trim_clean.
    unfold items_clean in Hr. rewrite Forall_forall in *. intros t Ht. apply in_map_iff in Ht.
    destruct Ht as [p [<- Hp]]. apply Hr; exact Hp.
  - apply Hh.
  - apply clean_nonsep_b; exact Hh.
  - unfold items_clean, all_blank_seps in *. rewrite Forall_forall in *. intros p Hp. unfold chunk_ok.
    specialize (Hb p Hp). specialize (Hr p Hp). destruct p as [[n|a b] t]; cbn [fst snd] in *; [| contradiction]. cbn [render_sep]. repeat split.
    + apply forallb_sp. reflexivity.
    + discriminate.
    + apply clean_nonsep_b. exact Hr.
    + apply Hr.
  - reflexivity.
Qed.

(* ---------------------------------------------------------------- colon count *)
Fixpoint ncolons (rest : list (sep * str)) : nat :=
  match rest with [] => 0 | (SepC _ _, _) :: r => S (ncolons r) | (SepB _, _) :: r => ncolons r end.

Lemma filter_colon_sp : forall n, filter is_colon (sp n) = [].
Proof. induction n as [|n IH]; [reflexivity|]. cbn [sp repeat filter]. exact IH. Qed.

Lemma filter_colon_clean : forall t, forallb tokchar t = true -> filter is_colon t = [].
Proof.
  induction t as [|c t IH]; intros H; [reflexivity|]. cbn [forallb] in H. apply andb_true_iff in H. destruct H as [Hc Ht].
  cbn [filter]. rewrite (tokchar_noncolon c Hc). apply IH; exact Ht.
Qed.

Lemma colons_core : forall l, clean (fl_head l) -> items_clean (fl_rest l) ->
  length (filter is_colon (render_core l)) = ncolons (fl_rest l).
Proof.
  intros l [_ Hh] Hr. unfold render_core. rewrite filter_app, (filter_colon_clean _ Hh). cbn [app].
  induction Hr as [|[s t] rest [_ Ht] _ IH]; [reflexivity|]. cbn [flat_map fst snd ncolons] in *.
  rewrite !filter_app, (filter_colon_clean _ Ht), app_nil_r, app_length, IH.
  destruct s as [n|a b]; cbn [render_sep].
  - rewrite (filter_colon_sp (S n)). reflexivity.
  - rewrite filter_app, filter_colon_sp. cbn [filter app]. change (is_colon colon) with true. cbn [length].
    rewrite filter_colon_sp. reflexivity.
Qed.

(* ---------------------------------------------------------------- first-word dispatch *)
Lemma kind_safe : forall c r, safe_char c = true -> kind_of (c :: r) = KOther.
Proof.
  intros c r H. unfold safe_char in H. apply negb_true_iff in H.
  repeat (apply orb_false_iff in H; let H' := fresh "E" in destruct H as [H H']).
  unfold kind_of. cbn [prefixb]. rewrite H, E5, E4, E3, E2, E1, E0, E. reflexivity.
Qed.

Lemma kind_T : forall r, kind_of ("T"%char :: r) = KT. Proof. reflexivity. Qed.
Lemma kind_O : forall r, kind_of ("O"%char :: r) = KO. Proof. reflexivity. Qed.
Lemma kind_R : forall r, kind_of ("R"%char :: r) = KR. Proof. reflexivity. Qed.
Lemma kind_states : forall r, kind_of (kw_states ++ r) = KStates. Proof. reflexivity. Qed.
Lemma kind_actions : forall r, kind_of (kw_actions ++ r) = KActions. Proof. reflexivity. Qed.
Lemma kind_observations : forall r, kind_of (kw_observations ++ r) = KObs. Proof. reflexivity. Qed.
Lemma kind_discount : forall r, kind_of (kw_discount ++ r) = KDiscount. Proof. reflexivity. Qed.
Lemma kind_values : forall r, kind_of (kw_values ++ r) = KValues. Proof. reflexivity. Qed.
