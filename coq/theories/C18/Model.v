(* C18/Model.v — executable Gallina model of src/Tools/CassandraParser.cpp.
   Two layers:
     (1) a character-level lexer (getline, boost::trim, boost::tokenizer<char_separator>,
         boost::starts_with, std::count of ':', std::stoul, std::stod) turning the text into a list
         of *lexed lines* [lline] carrying exactly the views of a line the parser looks at;
     (2) the token/line-level parser (parseModelInfo, extractIDs, parseIndeces, parseVector,
         processMatrix, processReward, parseMDP, parsePOMDP) over [list lline].
   Unchecked C++ accesses (M[d1][a][d3] on the boost::multi_array, asserts are off under NDEBUG)
   are checked here and yield [UB]; .at() and explicit throws yield [Throw].
   The flag [fixed] selects the repaired code (fixes/C18-missing-throw.patch and
   fixes/C18-size-overflow.patch applied, [fixed = true]) or the code as it is today ([false]).
   No proofs in this file. *)
From Coq Require Import List Arith Ascii NArith ZArith QArith Bool.
Import ListNotations.
Local Close Scope Q_scope.

Definition str := list ascii.

Fixpoint str_eqb (a b : str) : bool :=
  match a, b with
  | [], [] => true
  | x :: a', y :: b' => Ascii.eqb x y && str_eqb a' b'
  | _, _ => false
  end.

(* ---------------------------------------------------------------- results *)
Inductive exn :=
  | E_incomplete      (* runtime_error "MDP/POMDP definition is incomplete" *)
  | E_too_large       (* runtime_error of fixes/C18-size-overflow.patch *)
  | E_bad_alloc       (* std::bad_alloc / length_error from the allocator *)
  | E_at              (* std::out_of_range from vector::at *)
  | E_stod            (* invalid_argument / out_of_range from std::stod *)
  | E_stoul           (* invalid_argument / out_of_range from std::stoul *)
  | E_index_high      (* runtime_error "Input value too high" *)
  | E_vec_count       (* runtime_error "Wrong number of elements when parsing vector." *)
  | E_row_args        (* runtime_error "Parsing error: wrong number of arguments" (case 2) *)
  | E_colons          (* runtime_error "Parsing error: wrong number of ':'" *)
  | E_discount        (* invalid_argument from Model::setDiscount *)
  | E_probability.    (* invalid_argument from setTransitionFunction / setObservationFunction *)

Inductive res (A : Type) :=
  | Ok (a : A)
  | Throw (e : exn)
  | UB                (* an access the C++ performs unchecked would be out of bounds *)
  | Unsup             (* numeric token outside the modelled number syntax (hex float, >2 exponent digits, >100 digits) *)
  | NoFuel.
Arguments Ok {A} a. Arguments Throw {A} e. Arguments UB {A}. Arguments Unsup {A}. Arguments NoFuel {A}.

Definition bind {A B} (r : res A) (f : A -> res B) : res B :=
  match r with Ok a => f a | Throw e => Throw e | UB => UB | Unsup => Unsup | NoFuel => NoFuel end.
Notation "x <- r ;; k" := (bind r (fun x => k)) (at level 61, r at next level, right associativity).

(* ---------------------------------------------------------------- values *)
(* a double as stod produces it: finite (exact rational), +-inf, nan *)
Inductive val := VQ (q : Q) | VInf (neg : bool) | VNaN.
Definition vzero : val := VQ 0%Q.

(* ---------------------------------------------------------------- characters *)
Definition code (c : ascii) : N := N_of_ascii c.
(* std::isspace in the "C" locale: \t \n \v \f \r and space *)
Definition is_space (c : ascii) : bool := ((9 <=? code c) && (code c <=? 13))%N || (code c =? 32)%N.
Definition is_colon (c : ascii) : bool := (code c =? 58)%N.
Definition is_blank (c : ascii) : bool := (code c =? 32)%N.          (* the separator " " *)
Definition is_colon_or_blank (c : ascii) : bool := is_colon c || is_blank c.   (* the separator ": " *)
Definition is_newline (c : ascii) : bool := (code c =? 10)%N.

(* src: boost::trim *)
Fixpoint drop_space (s : str) : str :=
  match s with c :: t => if is_space c then drop_space t else s | [] => [] end.
Definition trim (s : str) : str := rev (drop_space (rev (drop_space s))).

(* src: boost::tokenizer<boost::char_separator<char>> — empty pieces are dropped *)
Fixpoint split_on (sep : ascii -> bool) (s : str) (cur : str) : list str :=
  match s with
  | [] => match cur with [] => [] | _ => [rev cur] end
  | c :: t => if sep c
              then match cur with [] => split_on sep t [] | _ => rev cur :: split_on sep t [] end
              else split_on sep t (c :: cur)
  end.

(* src: CassandraParser::tokenize *)
Definition tokenize (s : str) (sep : ascii -> bool) : list str := map trim (split_on sep s []).

(* src: std::getline loop *)
Fixpoint lines_of (s : str) (cur : str) : list str :=
  match s with
  | [] => [rev cur]
  | c :: t => if is_newline c then rev cur :: lines_of t [] else lines_of t (c :: cur)
  end.

(* src: boost::starts_with *)
Fixpoint prefixb (p s : str) : bool :=
  match p, s with
  | [], _ => true
  | x :: p', y :: s' => Ascii.eqb x y && prefixb p' s'
  | _ :: _, [] => false
  end.

(* ---------------------------------------------------------------- numbers *)
Definition digit_of (c : ascii) : option N :=
  if ((48 <=? code c) && (code c <=? 57))%N then Some (code c - 48)%N else None.

Fixpoint take_digits (s : str) (acc : N) (cnt : nat) : N * nat * str :=
  match s with
  | c :: t => match digit_of c with Some d => take_digits t (acc * 10 + d)%N (S cnt) | None => (acc, cnt, s) end
  | [] => (acc, cnt, [])
  end.

Definition take_sign (s : str) : bool * str :=
  match s with
  | c :: t => if (code c =? 45)%N then (true, t) else if (code c =? 43)%N then (false, t) else (false, s)
  | [] => (false, [])
  end.

Definition two64 : N := 18446744073709551616%N.

(* src: std::stoul (strtoul base 10: leading space, sign, digits; prefix conversion; wraps negatives) *)
Definition stoul (s : str) : res N :=
  let '(neg, s1) := take_sign (drop_space s) in
  let '(v, cnt, _) := take_digits s1 0%N 0 in
  match cnt with
  | O => Throw E_stoul
  | _ => if (two64 <=? v)%N then Throw E_stoul
         else Ok (if neg then ((two64 - v) mod two64)%N else v)
  end.

Definition lower (c : ascii) : N := if ((65 <=? code c) && (code c <=? 90))%N then (code c + 32)%N else code c.
Fixpoint ci_prefix (p : list N) (s : str) : bool :=
  match p, s with
  | [], _ => true
  | x :: p', c :: s' => (x =? lower c)%N && ci_prefix p' s'
  | _ :: _, [] => false
  end.
Definition is_hexdigit (c : ascii) : bool :=
  match digit_of c with Some _ => true | None => ((97 <=? lower c) && (lower c <=? 102))%N end.

Definition pow10 (k : nat) : positive := Pos.pow 10 (Pos.of_nat k).

(* src: std::stod (strtod: leading space, sign, inf/nan, decimal with optional exponent; prefix
   conversion).  Hex floats, exponents of more than two digits and mantissas of more than 100
   digits are not modelled ([Unsup]); inside this envelope strtod never reports ERANGE. *)
Definition stod (s : str) : res val :=
  let '(neg, s1) := take_sign (drop_space s) in
  if ci_prefix [105; 110; 102]%N s1 then Ok (VInf neg)
  else if ci_prefix [110; 97; 110]%N s1 then Ok VNaN
  else
    let hex := match s1 with
               | z :: x :: h :: rest =>
                   (code z =? 48)%N && (lower x =? 120)%N &&
                   (is_hexdigit h || ((code h =? 46)%N && match rest with h2 :: _ => is_hexdigit h2 | [] => false end))
               | _ => false end in
    if hex then Unsup else
    let '(m1, c1, s2) := take_digits s1 0%N 0 in
    let '(m, c2, s3) := match s2 with
                        | d :: t => if (code d =? 46)%N then take_digits t m1 0 else (m1, 0, s2)
                        | [] => (m1, 0, s2) end in
    match (c1 + c2)%nat with
    | O => Throw E_stod
    | _ =>
      let '(eneg, e, ce) := match s3 with
                            | x :: t => if (lower x =? 101)%N
                                        then let '(en, t1) := take_sign t in
                                             let '(ev, cnt, _) := take_digits t1 0%N 0 in
                                             match cnt with O => (false, 0%N, 0) | _ => (en, ev, cnt) end
                                        else (false, 0%N, 0)
                            | [] => (false, 0%N, 0) end in
      if (100 <? c1 + c2) || (2 <? ce) then Unsup else
      let mz : Z := if neg then Z.opp (Z.of_N m) else Z.of_N m in
      let k : Z := ((if eneg then Z.opp (Z.of_N e) else Z.of_N e) - Z.of_nat c2)%Z in
      Ok (VQ (match k with
              | Z0 => Qmake mz 1
              | Zpos p => Qmake (mz * Z.pow 10 (Zpos p)) 1
              | Zneg p => Qred (Qmake mz (Pos.pow 10 p))
              end))
    end.

(* ---------------------------------------------------------------- lexed lines *)
Inductive lkind := KValues | KStates | KActions | KObs | KDiscount | KT | KO | KR | KOther.

(* the views of one trimmed, non-empty line that the parser looks at *)
Record lline := mkLine {
  l_kind   : lkind;            (* starts_with: the preamble keywords (parseModelInfo), else first letter T / O / R *)
  l_colons : nat;              (* std::count(str, ':') *)
  l_toks   : list str;         (* tokenize(str, ": ") *)
  l_seg1   : option str;       (* tokenize(str, ":").at(1), None when .at(1) throws *)
  l_ids    : list str;         (* tokenize(tokenize(str, ":").at(1), " ") *)
  l_stoks  : list str          (* tokenize(str, " ") — a line read as a next-line vector *)
}.

Definition kind_of (s : str) : lkind :=
  if prefixb ["v"%char; "a"%char; "l"%char; "u"%char; "e"%char; "s"%char] s then KValues
  else if prefixb ["s"%char; "t"%char; "a"%char; "t"%char; "e"%char; "s"%char] s then KStates
  else if prefixb ["a"%char; "c"%char; "t"%char; "i"%char; "o"%char; "n"%char; "s"%char] s then KActions
  else if prefixb ["o"%char; "b"%char; "s"%char; "e"%char; "r"%char; "v"%char; "a"%char; "t"%char; "i"%char; "o"%char; "n"%char; "s"%char] s then KObs
  else if prefixb ["d"%char; "i"%char; "s"%char; "c"%char; "o"%char; "u"%char; "n"%char; "t"%char] s then KDiscount
  else if prefixb ["T"%char] s then KT
  else if prefixb ["O"%char] s then KO
  else if prefixb ["R"%char] s then KR
  else KOther.

Definition lex_line (s : str) : lline :=
  let seg1 := nth_error (tokenize s is_colon) 1 in
  {| l_kind := kind_of s;
     l_colons := length (filter is_colon s);
     l_toks := tokenize s is_colon_or_blank;
     l_seg1 := seg1;
     l_ids := match seg1 with Some x => tokenize x is_blank | None => [] end;
     l_stoks := tokenize s is_blank |}.

(* src: parseModelInfo — getline, trim, skip empty lines *)
Definition lex_text (text : str) : list lline :=
  map lex_line (filter (fun l => match l with [] => false | _ => true end) (map trim (lines_of text []))).

(* ---------------------------------------------------------------- id maps (std::unordered_map<string,size_t>) *)
Definition idmap := list (str * nat).          (* in insertion order; map[k] = i overwrites: last wins *)
Fixpoint lookup (m : idmap) (k : str) : option nat :=
  match m with
  | [] => None
  | (k', i) :: t => match lookup t k with
                    | Some j => Some j
                    | None => if str_eqb k' k then Some i else None
                    end
  end.
Fixpoint index_pairs (ids : list str) (i : nat) : idmap :=
  match ids with [] => [] | x :: t => (x, i) :: index_pairs t (S i) end.

(* ---------------------------------------------------------------- tables (DumbMatrix3D) *)
Definition tab := list (list (list val)).
Definition new_tab (d1 d2 d3 : nat) : tab := repeat (repeat (repeat vzero d3) d2) d1.

Fixpoint set_nth {A : Type} (l : list A) (i : nat) (x : A) : option (list A) :=
  match l, i with
  | [], _ => None
  | _ :: t, O => Some (x :: t)
  | y :: t, S i' => match set_nth t i' x with Some t' => Some (y :: t') | None => None end
  end.

(* M[d1][a][d3] = v, every index checked *)
Definition set3 (M : tab) (d1 a d3 : nat) (v : val) : option tab :=
  match nth_error M d1 with
  | None => None
  | Some P =>
    match nth_error P a with
    | None => None
    | Some R =>
      match set_nth R d3 v with
      | None => None
      | Some R' => match set_nth P a R' with
                   | None => None
                   | Some P' => set_nth M d1 P'
                   end
      end
    end
  end.

Definition cell := (nat * nat * nat * val)%type.
Fixpoint write_cells (M : tab) (cs : list cell) : res tab :=
  match cs with
  | [] => Ok M
  | (d1, a, d3, v) :: t => match set3 M d1 a d3 v with Some M' => write_cells M' t | None => UB end
  end.

(* for d1 in d1v: for a in av: for d3 in d3v: M[d1][a][d3] = val *)
Definition cells_entry (d1v av d3v : list nat) (v : val) : list cell :=
  flat_map (fun d1 => flat_map (fun a => map (fun d3 => (d1, a, d3, v)) d3v) av) d1v.
(* for d1 in d1v: for a in av: for i < v.size(): M[d1][a][i] = v[i] *)
Definition cells_row (d1v av : list nat) (vs : list val) : list cell :=
  flat_map (fun d1 => flat_map (fun a => map (fun iv => (d1, a, fst iv, snd iv)) (combine (seq 0 (length vs)) vs)) av) d1v.

(* ---------------------------------------------------------------- preamble *)
Record pre := mkPre { pS : N; pA : N; pO : N; pD : val; mS : idmap; mA : idmap; mO : idmap }.
Definition pre0 : pre := mkPre 0%N 0%N 0%N (VQ 1%Q) [] [] [].

(* src: CassandraParser::extractIDs  (ids are already trimmed by tokenize, so trim_copy is the identity) *)
Definition extractIDs (l : lline) : res (N * idmap) :=
  match l_seg1 l with
  | None => Throw E_at
  | Some _ =>
    match l_ids l with
    | [t] => match stoul t with
             | Ok n => Ok (n, [])
             | _ => Ok (1%N, [(t, O)])
             end
    | ids => Ok (N.of_nat (length ids), index_pairs ids O)
    end
  end.

(* one iteration of the getline loop of parseModelInfo; the boolean says "consumed by the preamble" *)
Definition pre_step (p : pre) (l : lline) : res (pre * bool) :=
  match l_kind l with
  | KValues => Ok (p, true)
  | KStates => r <- extractIDs l ;; Ok (mkPre (fst r) (pA p) (pO p) (pD p) (snd r) (mA p) (mO p), true)
  | KActions => r <- extractIDs l ;; Ok (mkPre (pS p) (fst r) (pO p) (pD p) (mS p) (snd r) (mO p), true)
  | KObs => r <- extractIDs l ;; Ok (mkPre (pS p) (pA p) (fst r) (pD p) (mS p) (mA p) (snd r), true)
  | KDiscount => match l_seg1 l with
                 | None => Throw E_at
                 | Some t => v <- stod t ;; Ok (mkPre (pS p) (pA p) (pO p) v (mS p) (mA p) (mO p), true)
                 end
  | _ => Ok (p, false)
  end.

(* src: CassandraParser::parseModelInfo — returns the preamble state and lines_ *)
Fixpoint parseModelInfo (ls : list lline) (p : pre) : res (pre * list lline) :=
  match ls with
  | [] => Ok (p, [])
  | l :: t => r <- pre_step p l ;;
              q <- parseModelInfo t (fst r) ;;
              Ok (fst q, if snd r then snd q else l :: snd q)
  end.

(* ---------------------------------------------------------------- body *)
Definition star : str := ["*"%char].

(* src: CassandraParser::parseIndeces *)
Definition parseIndeces (t : str) (m : idmap) (max : nat) : res (list nat) :=
  if str_eqb t star then Ok (seq 0 max)
  else match lookup m t with
       | Some i => Ok [i]
       | None => v <- stoul t ;;
                 if (N.of_nat max <=? v)%N then Throw E_index_high else Ok [N.to_nat v]
       end.

Fixpoint stod_all (ts : list str) : res (list val) :=
  match ts with
  | [] => Ok []
  | t :: r => v <- stod t ;; vs <- stod_all r ;; Ok (v :: vs)
  end.

(* src: CassandraParser::parseVector *)
Definition parseVector (ts : list str) (n : nat) : res (list val) :=
  if Nat.eqb (length ts) n then stod_all ts else Throw E_vec_count.

(* src: vector::at *)
Definition at_ (l : list str) (i : nat) : res str :=
  match nth_error l i with Some x => Ok x | None => Throw E_at end.

(* case 1 of processMatrix: for d1 < D1: v = parseVector(lines_.at(++i_), D3); write row d1 *)
Fixpoint read_rows (n d1 : nat) (av : list nat) (D3 : nat) (M : tab) (rest : list lline) : res (tab * list lline) :=
  match n with
  | O => Ok (M, rest)
  | S n' => match rest with
            | [] => Throw E_at
            | nl :: rest' =>
              v <- parseVector (l_stoks nl) D3 ;;
              M' <- write_cells M (cells_row [d1] av v) ;;
              read_rows n' (S d1) av D3 M' rest'
            end
  end.

(* src: CassandraParser::processMatrix; [rest] = the lines after lines_[i_]; returns the lines left *)
Definition processMatrix (fixed : bool) (M : tab) (D1 D2 D3 : nat) (ma d1map d3map : idmap)
           (l : lline) (rest : list lline) : res (tab * list lline) :=
  let toks := l_toks l in
  match l_colons l with
  | 3 =>
    t1 <- at_ toks 1 ;; av <- parseIndeces t1 ma D2 ;;
    t2 <- at_ toks 2 ;; d1v <- parseIndeces t2 d1map D1 ;;
    t3 <- at_ toks 3 ;; d3v <- parseIndeces t3 d3map D3 ;;
    t4 <- at_ toks 4 ;; v <- stod t4 ;;
    M' <- write_cells M (cells_entry d1v av d3v v) ;;
    Ok (M', rest)
  | 2 =>
    t1 <- at_ toks 1 ;; av <- parseIndeces t1 ma D2 ;;
    t2 <- at_ toks 2 ;; d1v <- parseIndeces t2 d1map D1 ;;
    if Nat.eqb (length toks) (3 + D3) then
      v <- parseVector (skipn 3 toks) D3 ;;
      M' <- write_cells M (cells_row d1v av v) ;; Ok (M', rest)
    else if Nat.eqb (length toks) 3 then
      match rest with
      | [] => Throw E_at
      | nl :: rest' =>
        v <- parseVector (l_stoks nl) D3 ;;
        M' <- write_cells M (cells_row d1v av v) ;; Ok (M', rest')
      end
    else if fixed then Throw E_row_args     (* today: exception constructed, not thrown; v stays empty *)
    else Ok (M, rest)
  | 1 =>
    t1 <- at_ toks 1 ;; av <- parseIndeces t1 ma D2 ;;
    read_rows D1 O av D3 M rest
  | _ => Throw E_colons
  end.

(* src: CassandraParser::processReward *)
Definition processReward (R : tab) (nS nA : nat) (ma ms : idmap) (l : lline) : res tab :=
  let toks := l_toks l in
  match l_colons l with
  | 4 =>
    t1 <- at_ toks 1 ;; av <- parseIndeces t1 ma nA ;;
    t2 <- at_ toks 2 ;; sv <- parseIndeces t2 ms nS ;;
    t3 <- at_ toks 3 ;; s1v <- parseIndeces t3 ms nS ;;
    t5 <- at_ toks 5 ;; v <- stod t5 ;;
    write_cells R (cells_entry sv av s1v v)
  | _ => Throw E_colons
  end.

(* the three tables: T, R, W *)
Record tabs := mkTabs { tT : tab; tR : tab; tW : tab }.

(* src: the for (i_ = 0; i_ < lines_.size(); ++i_) loops of parseMDP / parsePOMDP.
   Every iteration consumes at least one line, so [fuel = length lines] is enough. *)
Fixpoint main_loop (fuel : nat) (fixed pomdp : bool) (nS nA nO : nat) (p : pre) (ls : list lline) (t : tabs)
  : res tabs :=
  match fuel with
  | O => match ls with [] => Ok t | _ => NoFuel end
  | S f =>
    match ls with
    | [] => Ok t
    | l :: rest =>
      match l_kind l with
      | KT => r <- processMatrix fixed (tT t) nS nA nS (mA p) (mS p) (mS p) l rest ;;
              main_loop f fixed pomdp nS nA nO p (snd r) (mkTabs (fst r) (tR t) (tW t))
      | KO => if pomdp
              then r <- processMatrix fixed (tW t) nS nA nO (mA p) (mS p) (mO p) l rest ;;
                   main_loop f fixed pomdp nS nA nO p (snd r) (mkTabs (tT t) (tR t) (fst r))
              else main_loop f fixed pomdp nS nA nO p rest t
      | KR => R' <- processReward (tR t) nS nA (mA p) (mS p) l ;;
              main_loop f fixed pomdp nS nA nO p rest (mkTabs (tT t) R' (tW t))
      | _ => main_loop f fixed pomdp nS nA nO p rest t
      end
    end
  end.

(* what parseMDP / parsePOMDP return (for an MDP: mO = 0, mW = []) *)
Record model := mkModel { mSn : nat; mAn : nat; mOn : nat; mDisc : val; mT : tab; mR : tab; mW : tab }.

(* SIZE_MAX / sizeof(double): the largest table the repaired code accepts *)
Definition max_elems : N := 2305843009213693951%N.

(* src: CassandraParser::parseMDP ([pomdp = false]) / parsePOMDP ([pomdp = true]).
   Allocation of tables that fit in size_t is assumed to succeed (no bad_alloc).
   Today's code ([fixed = false]) computes S*A*S modulo 2^64: when that wraps, the tables are
   smaller than their shape and the accesses are out of bounds — modelled as [UB] at once. *)
Definition parse_lines_from (fixed pomdp : bool) (p0 : pre) (ls : list lline) : res model :=
  r <- parseModelInfo ls p0 ;;
  let p := fst r in let body := snd r in
  if (pS p =? 0)%N || (pA p =? 0)%N || (pomdp && (pO p =? 0)%N) then Throw E_incomplete
  else if (max_elems <? pS p * pA p * pS p)%N || (pomdp && (max_elems <? pS p * pA p * pO p)%N)
  then (if fixed then Throw E_too_large else UB)
  else
    let nS := N.to_nat (pS p) in let nA := N.to_nat (pA p) in
    let nO := if pomdp then N.to_nat (pO p) else 0%nat in
    let t0 := mkTabs (new_tab nS nA nS) (new_tab nS nA nS) (if pomdp then new_tab nS nA nO else []) in
    t <- main_loop (length body) fixed pomdp nS nA nO p body t0 ;;
    Ok (mkModel nS nA nO (pD p) (tT t) (tR t) (tW t)).

(* a freshly constructed parser: the three maps are empty *)
Definition parse_lines (fixed pomdp : bool) (ls : list lline) : res model := parse_lines_from fixed pomdp pre0 ls.

(* Re-use of one CassandraParser object: parseModelInfo resets lines_, S_, A_, O_ and discount_ but NOT
   stateMap_/actionMap_/observationMap_ (extractIDs clears a map only when its declaration line is
   met).  [pstate] is what an earlier call (finished or aborted by an exception) may have left. *)
Record pstate := mkPstate { stS : idmap; stA : idmap; stO : idmap }.
Definition pre_of (st : pstate) : pre := mkPre 0%N 0%N 0%N (VQ 1%Q) (stS st) (stA st) (stO st).
Definition parse_lines_st (fixed pomdp : bool) (st : pstate) (ls : list lline) : res model :=
  parse_lines_from fixed pomdp (pre_of st) ls.
Definition parse_text_st (fixed pomdp : bool) (st : pstate) (text : str) : res model :=
  parse_lines_st fixed pomdp st (lex_text text).
(* the maps after a call that returned normally *)
Definition state_after (st : pstate) (ls : list lline) : pstate :=
  match parseModelInfo ls (pre_of st) with
  | Ok r => mkPstate (mS (fst r)) (mA (fst r)) (mO (fst r))
  | _ => st
  end.

Definition parse_text (fixed pomdp : bool) (text : str) : res model :=
  parse_lines fixed pomdp (lex_text text).

(* sizes only (used by the driver to keep huge declarations away from the table-building code) *)
Definition parse_sizes (text : str) : res (N * N * N) :=
  r <- parseModelInfo (lex_text text) pre0 ;; Ok (pS (fst r), pA (fst r), pO (fst r)).

(* 0: small enough to tabulate; 1: fits in size_t but the allocation may fail (not modelled);
   2: S*A*S (or S*A*O) exceeds SIZE_MAX / sizeof(double) *)
Definition size_class (pomdp : bool) (text : str) : nat :=
  match parse_sizes text with
  | Ok (s, a, o) =>
      let m := N.max (s * a * s) (if pomdp then s * a * o else 0)%N in
      if (max_elems <? m)%N then 2 else if (20000 <? m)%N then 1 else 0
  | _ => 0
  end.

(* ================================================================ from the tuples to a Model object
   src: src/MDP/IO.cpp:parseCassandra  = parseMDP, then MDP::Model(S, A, T, R, discount)
        src/POMDP/IO.cpp:parseCassandra = parsePOMDP, then POMDP::Model<MDP::Model>(O, W, S, A, T, R, discount)
   The constructors validate: setDiscount, then isProbability on every T[s][a], then (POMDP) on every
   W[s'][a].  Doubles are [val] with IEEE comparisons (every comparison with NaN is false). *)
Definition vlt0 (v : val) : bool :=         (* v < 0.0 *)
  match v with VQ q => negb (Qle_bool 0 q) | VInf neg => neg | VNaN => false end.
Definition vadd (a b : val) : val :=        (* a + b, exact on finite values *)
  match a, b with
  | VNaN, _ | _, VNaN => VNaN
  | VQ x, VQ y => VQ (Qplus x y)
  | VInf s, VInf t => if Bool.eqb s t then VInf s else VNaN
  | VInf s, VQ _ | VQ _, VInf s => VInf s
  end.
Definition epsSmall : Q := (1 # 1000000)%Q.
(* src: Utils/Core.hpp:checkEqualSmall(p, 1.0) — fabs(p - 1.0) <= 1e-6 *)
Definition eq_small_1 (p : val) : bool :=
  match p with
  | VQ x => Qle_bool (Qminus x 1) epsSmall && Qle_bool (Qminus 1 x) epsSmall
  | _ => false
  end.
(* src: Utils/Probability.hpp:isProbability(size, in) — None = early "return false" *)
Fixpoint prob_loop (p : val) (l : list val) : option val :=
  match l with
  | [] => Some p
  | v :: t => if vlt0 v then None else prob_loop (vadd p v) t
  end.
Definition isProbability1 (l : list val) : bool :=
  match prob_loop (VQ 0%Q) l with None => false | Some p => eq_small_1 p end.
(* src: isProbability(S, A, S, t) / the double loop of setObservationFunction *)
Definition isProbability3 (t : tab) : bool := forallb (forallb isProbability1) t.
(* src: MDP/Model.cpp:setDiscount — if (!(d > 0.0 && d <= 1.0)) throw *)
Definition discount_ok (d : val) : bool :=
  match d with VQ q => negb (Qle_bool q 0) && Qle_bool q 1 | _ => false end.

Definition validate (pomdp : bool) (m : model) : res model :=
  if negb (discount_ok (mDisc m)) then Throw E_discount
  else if negb (isProbability3 (mT m)) then Throw E_probability
  else if pomdp && negb (isProbability3 (mW m)) then Throw E_probability
  else Ok m.

Definition load_lines (fixed pomdp : bool) (ls : list lline) : res model :=
  m <- parse_lines fixed pomdp ls ;; validate pomdp m.
Definition load_model (fixed pomdp : bool) (text : str) : res model := load_lines fixed pomdp (lex_text text).
