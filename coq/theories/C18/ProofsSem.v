(* C18/ProofsSem.v — semantic building blocks for parse_print: strings and id maps, reading and
   writing table cells, parseIndeces = cov, the effect of the cell lists. *)
From Coq Require Import List Arith Ascii NArith ZArith QArith Bool Lia.
From AIT Require Import C18.Model C18.Spec C18.Proofs C18.ProofsSafe.
Import ListNotations.
Local Close Scope Q_scope.

(* ---------------------------------------------------------------- strings *)
Lemma str_eqb_eq : forall a b, str_eqb a b = true <-> a = b.
Proof.
  induction a as [|x a IH]; intros [|y b]; cbn [str_eqb]; split; intros H; try discriminate; try reflexivity.
  - apply andb_true_iff in H. destruct H as [H1 H2]. apply Ascii.eqb_eq in H1. apply IH in H2. subst; reflexivity.
  - inversion H; subst. apply andb_true_iff. split; [apply Ascii.eqb_refl| apply IH; reflexivity].
Qed.

Lemma str_eqb_refl : forall a, str_eqb a a = true.
Proof. intros a. apply str_eqb_eq. reflexivity. Qed.

Lemma str_eqb_neq : forall a b, a <> b -> str_eqb a b = false.
Proof. intros a b H. destruct (str_eqb a b) eqn:E; [apply str_eqb_eq in E; contradiction| reflexivity]. Qed.

(* ---------------------------------------------------------------- names and id maps *)
Lemma index_of_None : forall nm names, ~ In nm names -> index_of nm names = None.
Proof.
  induction names as [|x t IH]; intros H; cbn [index_of]; [reflexivity|].
  rewrite str_eqb_neq; [| intros ->; apply H; left; reflexivity].
  rewrite IH; [reflexivity| intros Hi; apply H; right; exact Hi].
Qed.

Lemma index_of_In : forall nm names, In nm names -> exists k, index_of nm names = Some k /\ k < length names.
Proof.
  induction names as [|x t IH]; intros H; [destruct H|]. cbn [index_of length].
  destruct (str_eqb x nm) eqn:E; [exists 0; split; [reflexivity| lia]|].
  destruct H as [->|H]; [rewrite str_eqb_refl in E; discriminate|].
  destruct (IH H) as [k [-> Hk]]. exists (S k). split; [reflexivity| lia].
Qed.

(* with distinct names the map (last writer wins) agrees with the position of the name *)
Lemma lookup_index_pairs_NoDup : forall names s nm, NoDup names ->
  lookup (index_pairs names s) nm = match index_of nm names with Some k => Some (k + s) | None => None end.
Proof.
  induction names as [|x t IH]; intros s nm Hnd; cbn [index_pairs lookup index_of]; [reflexivity|].
  inversion Hnd as [|? ? Hx Hnd']; subst. rewrite (IH (S s) nm Hnd').
  destruct (str_eqb x nm) eqn:E.
  - apply str_eqb_eq in E. subst nm. rewrite (index_of_None x t Hx). reflexivity.
  - destruct (index_of nm t); [f_equal; lia| reflexivity].
Qed.

Lemma map_ok_index_pairs : forall names n, length names <= n -> map_ok (index_pairs names 0) n.
Proof. intros names n H k i Hl. apply lookup_index_pairs in Hl. lia. Qed.

(* ---------------------------------------------------------------- parseIndeces computes cov *)
Lemma parseIndeces_sem : forall names size ix t,
  NoDup names -> idx_wf names size ix -> idx_tok names ix t ->
  exists l, parseIndeces t (index_pairs names 0) size = Ok l /\ (forall n, In n l <-> cov names size ix n = true).
Proof.
  intros names size ix t Hnd Hwf Htok. unfold parseIndeces. destruct ix as [|k|nm]; cbn [idx_wf idx_tok cov] in *.
  - subst t. rewrite str_eqb_refl. eexists; split; [reflexivity|]. intros n. rewrite in_seq, Nat.ltb_lt. lia.
  - destruct Htok as (Hst & Hns & Hni). rewrite (str_eqb_neq _ _ Hns).
    rewrite (lookup_index_pairs_NoDup names 0 t Hnd), (index_of_None t names Hni). rewrite Hst. cbn [bind].
    assert ((N.of_nat size <=? N.of_nat k)%N = false) as -> by (apply N.leb_gt; lia).
    rewrite Nnat.Nat2N.id. eexists; split; [reflexivity|]. intros n. cbn [In]. rewrite Nat.eqb_eq. intuition.
  - subst t. destruct Hwf as [Hin Hns]. rewrite (str_eqb_neq _ _ Hns).
    rewrite (lookup_index_pairs_NoDup names 0 nm Hnd). destruct (index_of_In nm names Hin) as [k [-> Hk]].
    eexists; split; [reflexivity|]. intros n. cbn [In]. rewrite Nat.eqb_eq. rewrite Nat.add_0_r. intuition.
Qed.

(* ---------------------------------------------------------------- reading and writing cells *)
Definition get3 (M : tab) (x y z : nat) : val := nth z (nth y (nth x M []) []) vzero.

Lemma set_nth_nth : forall A (l : list A) i x l' d, set_nth l i x = Some l' ->
  forall j, nth j l' d = if Nat.eqb j i then x else nth j l d.
Proof.
  induction l as [|y l IH]; intros i x l' d H j; cbn [set_nth] in H; [discriminate|]. destruct i.
  - inversion H; subst. destruct j; reflexivity.
  - destruct (set_nth l i x) eqn:E; [|discriminate]. inversion H; subst. destruct j; [reflexivity|].
    cbn [nth Nat.eqb]. eapply IH; exact E.
Qed.

Lemma nth_error_nth' : forall A (l : list A) i x d, nth_error l i = Some x -> nth i l d = x.
Proof. intros A l i x d H. apply nth_error_nth. exact H. Qed.

Lemma set3_get3 : forall M x y z v M', set3 M x y z v = Some M' ->
  forall x' y' z', get3 M' x' y' z' =
    if Nat.eqb x' x && Nat.eqb y' y && Nat.eqb z' z then v else get3 M x' y' z'.
Proof.
  intros M x y z v M' H x' y' z'. unfold set3 in H.
  destruct (nth_error M x) as [P|] eqn:EP; [|discriminate].
  destruct (nth_error P y) as [R|] eqn:ER; [|discriminate].
  destruct (set_nth R z v) as [R'|] eqn:ER'; [|discriminate].
  destruct (set_nth P y R') as [P'|] eqn:EP'; [|discriminate].
  unfold get3. rewrite (set_nth_nth _ _ _ _ _ [] H x').
  destruct (Nat.eqb x' x) eqn:Ex; cbn [andb]; [|reflexivity]. apply Nat.eqb_eq in Ex. subst x'.
  rewrite (set_nth_nth _ _ _ _ _ [] EP' y').
  rewrite (nth_error_nth' _ _ _ _ [] EP).
  destruct (Nat.eqb y' y) eqn:Ey; cbn [andb]; [|reflexivity]. apply Nat.eqb_eq in Ey. subst y'.
  rewrite (set_nth_nth _ _ _ _ _ vzero ER' z').
  rewrite (nth_error_nth' _ _ _ _ [] ER). reflexivity.
Qed.

(* after writing a list of cells, a cell holds the value of one of the written cells with its index,
   or it was not written and is unchanged *)
Lemma write_cells_spec : forall cs M M', write_cells M cs = Ok M' ->
  forall x y z, (exists v, In (x, y, z, v) cs /\ get3 M' x y z = v) \/
                ((forall v, ~ In (x, y, z, v) cs) /\ get3 M' x y z = get3 M x y z).
Proof.
  induction cs as [|[[[cx cy] cz] cv] cs IH]; intros M M' H x y z; cbn [write_cells] in H.
  - inversion H; subst. right. split; [intros v Hv; exact Hv| reflexivity].
  - destruct (set3 M cx cy cz cv) as [M1|] eqn:E; [|discriminate].
    destruct (IH M1 M' H x y z) as [[v [Hin Hg]]|[Hn Hg]].
    + left. exists v. split; [right; exact Hin| exact Hg].
    + rewrite (set3_get3 _ _ _ _ _ _ E) in Hg.
      destruct (Nat.eqb x cx && Nat.eqb y cy && Nat.eqb z cz) eqn:Eq.
      * apply andb_true_iff in Eq. destruct Eq as [Eq Ez]. apply andb_true_iff in Eq. destruct Eq as [Ex Ey].
        apply Nat.eqb_eq in Ex, Ey, Ez. subst x y z. left. exists cv. split; [left; reflexivity| exact Hg].
      * right. split; [| exact Hg]. intros v [Hv|Hv]; [| exact (Hn v Hv)].
        inversion Hv; subst. rewrite !Nat.eqb_refl in Eq. discriminate.
Qed.

Lemma in_cells_entry : forall d1v av d3v v x y z w,
  In (x, y, z, w) (cells_entry d1v av d3v v) <-> In x d1v /\ In y av /\ In z d3v /\ w = v.
Proof.
  intros. unfold cells_entry. rewrite in_flat_map. split.
  - intros [a [Ha H]]. apply in_flat_map in H. destruct H as [b [Hb H]]. apply in_map_iff in H.
    destruct H as [c [Hc Hc']]. inversion Hc; subst. auto.
  - intros (H1 & H2 & H3 & ->). exists x. split; [exact H1|]. apply in_flat_map. exists y. split; [exact H2|].
    apply in_map_iff. exists z. auto.
Qed.

Lemma in_combine_seq : forall (vs : list val) s z w,
  In (z, w) (combine (seq s (length vs)) vs) <-> s <= z < s + length vs /\ nth_error vs (z - s) = Some w.
Proof.
  induction vs as [|v vs IH]; intros s z w; cbn [length seq combine In].
  - split; [intros []| intros [H _]; lia].
  - rewrite IH. split.
    + intros [H|[H1 H2]].
      * inversion H; subst. rewrite Nat.sub_diag. cbn. split; [lia| reflexivity].
      * split; [lia|]. replace (z - s) with (S (z - S s)) by lia. exact H2.
    + intros [H1 H2]. destruct (Nat.eq_dec z s) as [->|Hne].
      * left. rewrite Nat.sub_diag in H2. cbn in H2. inversion H2; reflexivity.
      * right. split; [lia|]. replace (z - s) with (S (z - S s)) in H2 by lia. exact H2.
Qed.

Lemma in_cells_row : forall d1v av vs x y z w,
  In (x, y, z, w) (cells_row d1v av vs) <-> In x d1v /\ In y av /\ nth_error vs z = Some w.
Proof.
  intros. unfold cells_row. rewrite in_flat_map. split.
  - intros [a [Ha H]]. apply in_flat_map in H. destruct H as [b [Hb H]]. apply in_map_iff in H.
    destruct H as [[i u] [Hc Hc']]. cbn [fst snd] in Hc. inversion Hc; subst.
    apply in_combine_seq in Hc'. rewrite Nat.sub_0_r in Hc'. tauto.
  - intros (H1 & H2 & H3). exists x. split; [exact H1|]. apply in_flat_map. exists y. split; [exact H2|].
    apply in_map_iff. exists (z, w). split; [reflexivity|]. apply in_combine_seq. rewrite Nat.sub_0_r.
    split; [| exact H3]. assert (z < length vs) by (apply nth_error_Some; congruence). lia.
Qed.

(* a table is determined by its shape and its cells *)
Lemma list_eq_map_seq : forall A (l : list A) n (g : nat -> A) d,
  length l = n -> (forall i, i < n -> nth i l d = g i) -> l = map g (seq 0 n).
Proof.
  intros A l n g d Hl H. apply (nth_ext _ _ d (g 0)).
  - rewrite map_length, seq_length. exact Hl.
  - intros i Hi. rewrite Hl in Hi. rewrite (H i Hi).
    rewrite (map_nth g (seq 0 n) 0 i). rewrite seq_nth by exact Hi. reflexivity.
Qed.

Lemma tab_ext : forall d1 d2 d3 M f, shape d1 d2 d3 M ->
  (forall x y z, x < d1 -> y < d2 -> z < d3 -> get3 M x y z = f x y z) -> M = tab3 d1 d2 d3 f.
Proof.
  intros d1 d2 d3 M f [HL HF] H. unfold tab3. apply (list_eq_map_seq _ M d1 _ []); [exact HL|].
  intros x Hx.
  assert (HP : plane_ok d2 d3 (nth x M [])).
  { rewrite Forall_forall in HF. apply HF. apply nth_In. lia. }
  destruct HP as [HPl HPf]. apply (list_eq_map_seq _ _ d2 _ []); [exact HPl|]. intros y Hy.
  assert (HR : length (nth y (nth x M []) []) = d3).
  { rewrite Forall_forall in HPf. apply HPf. apply nth_In. lia. }
  apply (list_eq_map_seq _ _ d3 _ vzero); [exact HR|]. intros z Hz. apply H; assumption.
Qed.

Lemma get3_new_tab : forall d1 d2 d3 x y z, get3 (new_tab d1 d2 d3) x y z = vzero.
Proof.
  intros. unfold get3, new_tab.
  assert (E1 : nth x (repeat (repeat (repeat vzero d3) d2) d1) [] = repeat (repeat vzero d3) d2 \/
               nth x (repeat (repeat (repeat vzero d3) d2) d1) [] = []).
  { destruct (nth_in_or_default x (repeat (repeat (repeat vzero d3) d2) d1) []) as [Hi|Hd];
      [left; apply repeat_spec in Hi; exact Hi| right; exact Hd]. }
  destruct E1 as [-> | ->]; [| destruct y; destruct z; reflexivity].
  assert (E2 : nth y (repeat (repeat vzero d3) d2) [] = repeat vzero d3 \/ nth y (repeat (repeat vzero d3) d2) [] = []).
  { destruct (nth_in_or_default y (repeat (repeat vzero d3) d2) []) as [Hi|Hd];
      [left; apply repeat_spec in Hi; exact Hi| right; exact Hd]. }
  destruct E2 as [-> | ->]; [| destruct z; reflexivity].
  destruct (nth_in_or_default z (repeat vzero d3) vzero) as [Hi|Hd]; [apply repeat_spec in Hi; exact Hi| exact Hd].
Qed.

(* ---------------------------------------------------------------- vectors *)
Lemma Forall2_len : forall A B (R : A -> B -> Prop) l l', Forall2 R l l' -> length l = length l'.
Proof. induction 1; cbn; congruence. Qed.

Lemma stod_all_sem : forall vs ts, Forall2 val_tok vs ts -> stod_all ts = Ok vs.
Proof.
  induction 1 as [|v t vs ts Hv _ IH]; cbn [stod_all]; [reflexivity|].
  unfold val_tok in Hv. rewrite Hv. cbn [bind]. rewrite IH. reflexivity.
Qed.

Lemma parseVector_sem : forall vs ts n, Forall2 val_tok vs ts -> length vs = n -> parseVector ts n = Ok vs.
Proof.
  intros vs ts n H Hn. unfold parseVector. rewrite <- (Forall2_len _ _ _ _ _ H), Hn, Nat.eqb_refl.
  apply stod_all_sem. exact H.
Qed.
