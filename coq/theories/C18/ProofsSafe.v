(* C18/ProofsSafe.v — parser_total_no_UB: on every input (every list of lexed lines, hence every
   text) the repaired parser model returns Ok / Throw / Unsup, never UB and never NoFuel.
   Invariants: the tables keep their declared shape; every id map only holds indices below the
   size declared with it; parseIndeces only returns indices below its bound; parseVector returns
   exactly N values; every loop iteration consumes a line. *)
From Coq Require Import List Arith Ascii NArith ZArith QArith Bool Lia.
From AIT Require Import C18.Model C18.Spec C18.Proofs.
Import ListNotations.
Local Close Scope Q_scope.

(* ---------------------------------------------------------------- "no UB, no NoFuel, and P on success" *)
Definition good {A : Type} (P : A -> Prop) (r : res A) : Prop :=
  match r with Ok a => P a | Throw _ => True | Unsup => True | UB => False | NoFuel => False end.

Lemma good_bind : forall A B (P : A -> Prop) (Q : B -> Prop) (r : res A) (f : A -> res B),
  good P r -> (forall a, P a -> good Q (f a)) -> good Q (bind r f).
Proof. intros A B P Q [a|e| | |] f H1 H2; cbn in *; auto. Qed.

Lemma good_weaken : forall A (P Q : A -> Prop) (r : res A),
  (forall a, P a -> Q a) -> good P r -> good Q r.
Proof. intros A P Q [a|e| | |] H G; cbn in *; auto. Qed.

Definition any {A : Type} (_ : A) : Prop := True.

(* ---------------------------------------------------------------- leaf functions *)
Lemma stoul_good : forall t, good any (stoul t).
Proof. intros t. destruct (stoul_cases t) as [[n ->]| ->]; exact I. Qed.

Lemma stod_good : forall t, good any (stod t).
Proof.
  intros t. unfold stod.
  repeat match goal with
         | |- good _ (match ?x with _ => _ end) => destruct x
         | |- good _ (if ?x then _ else _) => destruct x
         | |- good _ (let '(_, _) := ?x in _) => destruct x
         end; exact I.
Qed.

Lemma at_good : forall l i, good any (at_ l i).
Proof. intros l i. destruct (at_cases l i) as [[x ->]| ->]; exact I. Qed.

Lemma stod_all_good : forall ts, good (fun vs => length vs = length ts) (stod_all ts).
Proof.
  induction ts as [|t ts IH]; cbn [stod_all]; [reflexivity|].
  apply good_bind with (P := any); [apply stod_good|]. intros v _.
  apply good_bind with (P := fun vs => length vs = length ts); [exact IH|].
  intros vs H. cbn. rewrite H. reflexivity.
Qed.

Lemma parseVector_good : forall ts n, good (fun vs => length vs = n) (parseVector ts n).
Proof.
  intros ts n. unfold parseVector. destruct (Nat.eqb (length ts) n) eqn:E; [|exact I].
  apply Nat.eqb_eq in E. subst n. apply stod_all_good.
Qed.

(* ---------------------------------------------------------------- id maps *)
Definition map_ok (m : idmap) (n : nat) : Prop := forall k i, lookup m k = Some i -> i < n.

Lemma map_ok_nil : forall n, map_ok [] n.
Proof. intros n k i H. discriminate. Qed.

Lemma lookup_index_pairs : forall ids s k i,
  lookup (index_pairs ids s) k = Some i -> s <= i < s + length ids.
Proof.
  induction ids as [|x ids IH]; intros s k i H; cbn [index_pairs lookup] in H; [discriminate|].
  cbn [length]. destruct (lookup (index_pairs ids (S s)) k) eqn:E.
  - inversion H; subst. apply IH in E. lia.
  - destruct (str_eqb x k); [|discriminate]. inversion H; subst. lia.
Qed.

Lemma extractIDs_good : forall l, good (fun r => map_ok (snd r) (N.to_nat (fst r))) (extractIDs l).
Proof.
  intros l. unfold extractIDs. destruct (l_seg1 l); [|exact I].
  destruct (l_ids l) as [|t [|t' ids]].
  - cbn. apply map_ok_nil.
  - destruct (stoul t); cbn; try apply map_ok_nil;
      intros k i H; cbn in H; destruct (str_eqb t k); inversion H; subst; cbn; lia.
  - cbn [good fst snd]. rewrite Nnat.Nat2N.id. intros k i H. apply lookup_index_pairs in H. lia.
Qed.

Definition pre_ok (p : pre) : Prop :=
  map_ok (mS p) (N.to_nat (pS p)) /\ map_ok (mA p) (N.to_nat (pA p)) /\ map_ok (mO p) (N.to_nat (pO p)).

Lemma pre_step_good : forall p l, pre_ok p -> good (fun r => pre_ok (fst r)) (pre_step p l).
Proof.
  intros p l (HS & HA & HO). unfold pre_step.
  destruct (l_kind l); try (cbn; repeat split; assumption).
  - apply good_bind with (P := fun r => map_ok (snd r) (N.to_nat (fst r))); [apply extractIDs_good|].
    intros r Hr. cbn. repeat split; assumption.
  - apply good_bind with (P := fun r => map_ok (snd r) (N.to_nat (fst r))); [apply extractIDs_good|].
    intros r Hr. cbn. repeat split; assumption.
  - apply good_bind with (P := fun r => map_ok (snd r) (N.to_nat (fst r))); [apply extractIDs_good|].
    intros r Hr. cbn. repeat split; assumption.
  - destruct (l_seg1 l); [|exact I].
    apply good_bind with (P := any); [apply stod_good|]. intros v _. cbn. repeat split; assumption.
Qed.

Lemma parseModelInfo_good : forall ls p, pre_ok p -> good (fun r => pre_ok (fst r)) (parseModelInfo ls p).
Proof.
  induction ls as [|l ls IH]; intros p Hp; cbn [parseModelInfo]; [exact Hp|].
  apply good_bind with (P := fun r => pre_ok (fst r)); [apply pre_step_good; exact Hp|].
  intros r Hr. apply good_bind with (P := fun q => pre_ok (fst q)); [apply IH; exact Hr|].
  intros q Hq. exact Hq.
Qed.

Lemma pre0_ok : pre_ok pre0.
Proof. repeat split; apply map_ok_nil. Qed.

(* ---------------------------------------------------------------- parseIndeces stays below its bound *)
Lemma parseIndeces_good : forall t m max, map_ok m max ->
  good (Forall (fun i => i < max)) (parseIndeces t m max).
Proof.
  intros t m max Hm. unfold parseIndeces. destruct (str_eqb t star).
  - cbn. apply Forall_forall. intros i Hi. apply in_seq in Hi. lia.
  - destruct (lookup m t) eqn:E.
    + cbn. constructor; [eapply Hm; exact E| constructor].
    + apply good_bind with (P := any); [apply stoul_good|]. intros v _.
      destruct (N.of_nat max <=? v)%N eqn:Ev; [exact I|].
      cbn. constructor; [|constructor]. apply N.leb_gt in Ev. lia.
Qed.

(* ---------------------------------------------------------------- tables keep their shape *)
Definition plane_ok (d2 d3 : nat) (P : list (list val)) : Prop := length P = d2 /\ Forall (fun R => length R = d3) P.
Definition shape (d1 d2 d3 : nat) (M : tab) : Prop := length M = d1 /\ Forall (plane_ok d2 d3) M.

Lemma set_nth_Some : forall A (l : list A) i x, i < length l -> exists l', set_nth l i x = Some l'.
Proof.
  induction l as [|y l IH]; intros i x H; cbn in H; [lia|]. destruct i; cbn [set_nth]; [eexists; reflexivity|].
  destruct (IH i x) as [l' ->]; [lia| eexists; reflexivity].
Qed.

Lemma set_nth_length : forall A (l : list A) i x l', set_nth l i x = Some l' -> length l' = length l.
Proof.
  induction l as [|y l IH]; intros i x l' H; cbn [set_nth] in H; [discriminate|]. destruct i.
  - inversion H; subst; reflexivity.
  - destruct (set_nth l i x) eqn:E; [|discriminate]. inversion H; subst. cbn. f_equal. eapply IH; exact E.
Qed.

Lemma set_nth_Forall : forall A (P : A -> Prop) (l : list A) i x l',
  Forall P l -> P x -> set_nth l i x = Some l' -> Forall P l'.
Proof.
  induction l as [|y l IH]; intros i x l' HF Hx H; cbn [set_nth] in H; [discriminate|].
  inversion HF as [|? ? Hy HF']; subst. destruct i.
  - inversion H; subst; constructor; assumption.
  - destruct (set_nth l i x) eqn:E; [|discriminate]. inversion H; subst. constructor; [assumption|].
    eapply IH; [exact HF'| exact Hx| exact E].
Qed.

Lemma Forall_nth_error : forall A (P : A -> Prop) l i x, Forall P l -> nth_error l i = Some x -> P x.
Proof. intros A P l i x HF H. apply nth_error_In in H. rewrite Forall_forall in HF. auto. Qed.

Lemma nth_error_lt_Some : forall A (l : list A) i, i < length l -> exists x, nth_error l i = Some x.
Proof. intros A l i H. destruct (nth_error l i) eqn:E; [eexists; reflexivity|]. apply nth_error_None in E. lia. Qed.

Lemma set3_ok : forall d1 d2 d3 M x y z v, shape d1 d2 d3 M -> x < d1 -> y < d2 -> z < d3 ->
  exists M', set3 M x y z v = Some M' /\ shape d1 d2 d3 M'.
Proof.
  intros d1 d2 d3 M x y z v [HL HF] Hx Hy Hz. unfold set3.
  destruct (nth_error_lt_Some _ M x) as [P EP]; [lia|]. rewrite EP.
  pose proof (Forall_nth_error _ _ _ _ _ HF EP) as [HPl HPf].
  destruct (nth_error_lt_Some _ P y) as [R ER]; [lia|]. rewrite ER.
  pose proof (Forall_nth_error _ _ _ _ _ HPf ER) as HR. cbn beta in HR.
  destruct (set_nth_Some _ R z v) as [R' ER']; [lia|]. rewrite ER'.
  destruct (set_nth_Some _ P y R') as [P' EP']; [lia|]. rewrite EP'.
  destruct (set_nth_Some _ M x P') as [M' EM']; [lia|]. rewrite EM'.
  exists M'. split; [reflexivity|]. split.
  - rewrite (set_nth_length _ _ _ _ _ EM'). exact HL.
  - eapply set_nth_Forall; [exact HF| |exact EM']. split.
    + rewrite (set_nth_length _ _ _ _ _ EP'). exact HPl.
    + eapply set_nth_Forall; [exact HPf| |exact EP']. cbn beta.
      rewrite (set_nth_length _ _ _ _ _ ER'). exact HR.
Qed.

Definition cell_in (d1 d2 d3 : nat) (c : cell) : Prop :=
  fst (fst (fst c)) < d1 /\ snd (fst (fst c)) < d2 /\ snd (fst c) < d3.

Lemma write_cells_good : forall d1 d2 d3 cs M, shape d1 d2 d3 M -> Forall (cell_in d1 d2 d3) cs ->
  good (shape d1 d2 d3) (write_cells M cs).
Proof.
  induction cs as [|[[[x y] z] v] cs IH]; intros M HM HF; cbn [write_cells]; [exact HM|].
  inversion HF as [|? ? Hc HF']; subst. destruct Hc as (Hx & Hy & Hz). cbn in Hx, Hy, Hz.
  destruct (set3_ok d1 d2 d3 M x y z v HM Hx Hy Hz) as [M' [-> HM']]. apply IH; assumption.
Qed.

Lemma cells_entry_in : forall d1 d2 d3 d1v av d3v v,
  Forall (fun i => i < d1) d1v -> Forall (fun i => i < d2) av -> Forall (fun i => i < d3) d3v ->
  Forall (cell_in d1 d2 d3) (cells_entry d1v av d3v v).
Proof.
  intros d1 d2 d3 d1v av d3v v H1 H2 H3. rewrite Forall_forall in *. intros c Hc. unfold cells_entry in Hc.
  apply in_flat_map in Hc. destruct Hc as [x [Hx Hc]]. apply in_flat_map in Hc. destruct Hc as [y [Hy Hc]].
  apply in_map_iff in Hc. destruct Hc as [z [<- Hz]]. unfold cell_in; cbn. auto.
Qed.

Lemma cells_row_in : forall d1 d2 d3 d1v av vs,
  Forall (fun i => i < d1) d1v -> Forall (fun i => i < d2) av -> length vs = d3 ->
  Forall (cell_in d1 d2 d3) (cells_row d1v av vs).
Proof.
  intros d1 d2 d3 d1v av vs H1 H2 H3. rewrite Forall_forall in *. intros c Hc. unfold cells_row in Hc.
  apply in_flat_map in Hc. destruct Hc as [x [Hx Hc]]. apply in_flat_map in Hc. destruct Hc as [y [Hy Hc]].
  apply in_map_iff in Hc. destruct Hc as [[i w] [<- Hz]]. apply in_combine_l in Hz. apply in_seq in Hz.
  unfold cell_in; cbn. repeat split; auto. lia.
Qed.

Lemma new_tab_shape : forall d1 d2 d3, shape d1 d2 d3 (new_tab d1 d2 d3).
Proof.
  intros d1 d2 d3. unfold new_tab, shape. split; [apply repeat_length|].
  apply Forall_forall. intros P HP. apply repeat_spec in HP. subst P. split; [apply repeat_length|].
  apply Forall_forall. intros R HR. apply repeat_spec in HR. subst R. apply repeat_length.
Qed.

(* ---------------------------------------------------------------- processMatrix / processReward *)
Definition pm_post (d1 d2 d3 : nat) (rest : list lline) (r : tab * list lline) : Prop :=
  shape d1 d2 d3 (fst r) /\ length (snd r) <= length rest.

Lemma read_rows_good : forall D1 D2 D3 av n d1 M rest,
  Forall (fun i => i < D2) av -> d1 + n = D1 -> shape D1 D2 D3 M ->
  good (pm_post D1 D2 D3 rest) (read_rows n d1 av D3 M rest).
Proof.
  intros D1 D2 D3 av. induction n as [|n IH]; intros d1 M rest Hav Hd HM; cbn [read_rows].
  - split; [exact HM| cbn; lia].
  - destruct rest as [|nl rest']; [exact I|].
    apply good_bind with (P := fun vs => length vs = D3); [apply parseVector_good|]. intros vs Hvs.
    apply good_bind with (P := shape D1 D2 D3).
    + apply write_cells_good; [exact HM|]. apply cells_row_in; [|exact Hav|exact Hvs].
      constructor; [lia|constructor].
    + intros M' HM'. eapply good_weaken; [| apply IH; [exact Hav| lia| exact HM']].
      intros r [Hs Hl]. split; [exact Hs| cbn [length]; lia].
Qed.

Lemma processMatrix_good : forall fixed M D1 D2 D3 ma d1m d3m l rest,
  shape D1 D2 D3 M -> map_ok ma D2 -> map_ok d1m D1 -> map_ok d3m D3 ->
  good (pm_post D1 D2 D3 rest) (processMatrix fixed M D1 D2 D3 ma d1m d3m l rest).
Proof.
  intros fixed M D1 D2 D3 ma d1m d3m l rest HM Ha H1 H3. unfold processMatrix.
  destruct (l_colons l) as [|[|[|[|c]]]]; try exact I.
  - (* one colon: matrix *)
    apply good_bind with (P := any); [apply at_good|]. intros t1 _.
    apply good_bind with (P := Forall (fun i => i < D2)); [apply parseIndeces_good; exact Ha|]. intros av Hav.
    apply read_rows_good; [exact Hav| lia| exact HM].
  - (* two colons: row *)
    apply good_bind with (P := any); [apply at_good|]. intros t1 _.
    apply good_bind with (P := Forall (fun i => i < D2)); [apply parseIndeces_good; exact Ha|]. intros av Hav.
    apply good_bind with (P := any); [apply at_good|]. intros t2 _.
    apply good_bind with (P := Forall (fun i => i < D1)); [apply parseIndeces_good; exact H1|]. intros d1v Hd1v.
    destruct (Nat.eqb (length (l_toks l)) (3 + D3)).
    + apply good_bind with (P := fun vs => length vs = D3); [apply parseVector_good|]. intros vs Hvs.
      apply good_bind with (P := shape D1 D2 D3).
      * apply write_cells_good; [exact HM|]. apply cells_row_in; assumption.
      * intros M' HM'. split; [exact HM'| cbn; lia].
    + destruct (Nat.eqb (length (l_toks l)) 3).
      * destruct rest as [|nl rest']; [exact I|].
        apply good_bind with (P := fun vs => length vs = D3); [apply parseVector_good|]. intros vs Hvs.
        apply good_bind with (P := shape D1 D2 D3).
        -- apply write_cells_good; [exact HM|]. apply cells_row_in; assumption.
        -- intros M' HM'. split; [exact HM'| cbn; lia].
      * destruct fixed; [exact I|]. split; [exact HM| cbn; lia].
  - (* three colons: entry *)
    apply good_bind with (P := any); [apply at_good|]. intros t1 _.
    apply good_bind with (P := Forall (fun i => i < D2)); [apply parseIndeces_good; exact Ha|]. intros av Hav.
    apply good_bind with (P := any); [apply at_good|]. intros t2 _.
    apply good_bind with (P := Forall (fun i => i < D1)); [apply parseIndeces_good; exact H1|]. intros d1v Hd1v.
    apply good_bind with (P := any); [apply at_good|]. intros t3 _.
    apply good_bind with (P := Forall (fun i => i < D3)); [apply parseIndeces_good; exact H3|]. intros d3v Hd3v.
    apply good_bind with (P := any); [apply at_good|]. intros t4 _.
    apply good_bind with (P := any); [apply stod_good|]. intros v _.
    apply good_bind with (P := shape D1 D2 D3).
    + apply write_cells_good; [exact HM|]. apply cells_entry_in; assumption.
    + intros M' HM'. split; [exact HM'| cbn; lia].
Qed.

Lemma processReward_good : forall R nS nA ma ms l,
  shape nS nA nS R -> map_ok ma nA -> map_ok ms nS ->
  good (shape nS nA nS) (processReward R nS nA ma ms l).
Proof.
  intros R nS nA ma ms l HR Ha Hs. unfold processReward.
  destruct (l_colons l) as [|[|[|[|[|c]]]]]; try exact I.
  apply good_bind with (P := any); [apply at_good|]. intros t1 _.
  apply good_bind with (P := Forall (fun i => i < nA)); [apply parseIndeces_good; exact Ha|]. intros av Hav.
  apply good_bind with (P := any); [apply at_good|]. intros t2 _.
  apply good_bind with (P := Forall (fun i => i < nS)); [apply parseIndeces_good; exact Hs|]. intros sv Hsv.
  apply good_bind with (P := any); [apply at_good|]. intros t3 _.
  apply good_bind with (P := Forall (fun i => i < nS)); [apply parseIndeces_good; exact Hs|]. intros s1v Hs1v.
  apply good_bind with (P := any); [apply at_good|]. intros t5 _.
  apply good_bind with (P := any); [apply stod_good|]. intros v _.
  apply write_cells_good; [exact HR|]. apply cells_entry_in; assumption.
Qed.

(* ---------------------------------------------------------------- the line loop *)
Lemma main_loop_good : forall fuel fixed pomdp nS nA nO p ls t,
  length ls <= fuel ->
  map_ok (mS p) nS -> map_ok (mA p) nA -> (pomdp = true -> map_ok (mO p) nO) ->
  shape nS nA nS (tT t) -> shape nS nA nS (tR t) -> (pomdp = true -> shape nS nA nO (tW t)) ->
  good any (main_loop fuel fixed pomdp nS nA nO p ls t).
Proof.
  induction fuel as [|f IH]; intros fixed pomdp nS nA nO p ls t Hlen HmS HmA HmO HT HR HW.
  - destruct ls; [exact I| cbn in Hlen; lia].
  - cbn [main_loop]. destruct ls as [|l rest]; [exact I|]. cbn [length] in Hlen.
    destruct (l_kind l); try (apply IH; try assumption; lia).
    + (* T *)
      apply good_bind with (P := pm_post nS nA nS rest); [apply processMatrix_good; assumption|].
      intros [M' rest'] [HM' Hl]. cbn [fst snd] in *. apply IH; cbn [tT tR tW]; try assumption; lia.
    + (* O *)
      destruct pomdp eqn:Ep.
      * apply good_bind with (P := pm_post nS nA nO rest); [apply processMatrix_good; auto|].
        intros [M' rest'] [HM' Hl]. cbn [fst snd] in *. apply IH; cbn [tT tR tW]; auto; lia.
      * apply IH; try assumption; lia.
    + (* R *)
      apply good_bind with (P := shape nS nA nS); [apply processReward_good; assumption|].
      intros R' HR'. apply IH; cbn [tT tR tW]; try assumption; lia.
Qed.

(* ---------------------------------------------------------------- the whole parser *)
Lemma parse_lines_good : forall pomdp ls, good any (parse_lines true pomdp ls).
Proof.
  intros pomdp ls. unfold parse_lines, parse_lines_from.
  apply good_bind with (P := fun r => pre_ok (fst r)); [apply parseModelInfo_good; apply pre0_ok|].
  intros [p body] (HS & HA & HO). cbn [fst snd] in *.
  destruct ((pS p =? 0)%N || (pA p =? 0)%N || (pomdp && (pO p =? 0)%N)); [exact I|].
  destruct ((max_elems <? pS p * pA p * pS p)%N || (pomdp && (max_elems <? pS p * pA p * pO p)%N)); [exact I|].
  apply good_bind with (P := any); [| intros t _; exact I].
  apply main_loop_good; cbn [tT tR tW]; try assumption; try apply new_tab_shape; try lia.
  - intros ->. exact HO.
  - intros ->. apply new_tab_shape.
Qed.

Lemma parser_total_no_UB_lines_lemma : forall pomdp ls,
  parse_lines true pomdp ls <> UB /\ parse_lines true pomdp ls <> NoFuel.
Proof.
  intros pomdp ls. pose proof (parse_lines_good pomdp ls) as G.
  destruct (parse_lines true pomdp ls); cbn in G; split; try discriminate; contradiction.
Qed.

Lemma parser_total_no_UB_lemma : forall pomdp text,
  parse_text true pomdp text <> UB /\ parse_text true pomdp text <> NoFuel.
Proof. intros pomdp text. apply parser_total_no_UB_lines_lemma. Qed.

(* every outcome is one of: a model, an exception, or a numeric token outside the modelled syntax *)
Lemma parser_outcomes_lemma : forall pomdp text,
  (exists m, parse_text true pomdp text = Ok m) \/ (exists e, parse_text true pomdp text = Throw e) \/
  parse_text true pomdp text = Unsup.
Proof.
  intros pomdp text. destruct (parser_total_no_UB_lemma pomdp text) as [H1 H2].
  destruct (parse_text true pomdp text) as [m|e| | |]; try contradiction; eauto.
Qed.
