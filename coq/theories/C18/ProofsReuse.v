(* C18/ProofsReuse.v — a CassandraParser object may be re-used: whatever id maps an earlier call
   (finished or aborted) left in the object, the next call returns what a fresh parser returns.
   Reason: a map is only consulted for a dimension whose size is non-zero, a size is non-zero only
   after its declaration line, and extractIDs rebuilds the map at every declaration line. *)
From Coq Require Import List Arith Ascii NArith ZArith QArith Bool Lia.
From AIT Require Import C18.Model C18.Spec C18.Proofs.
Import ListNotations.
Local Close Scope Q_scope.

Definition pre_sim (p q : pre) : Prop :=
  pS p = pS q /\ pA p = pA q /\ pO p = pO q /\ pD p = pD q /\
  (mS p = mS q \/ pS p = 0%N) /\ (mA p = mA q \/ pA p = 0%N) /\ (mO p = mO q \/ pO p = 0%N).

Definition res_sim {A : Type} (R : A -> A -> Prop) (r1 r2 : res A) : Prop :=
  match r1, r2 with
  | Ok a, Ok b => R a b
  | Throw e, Throw e' => e = e'
  | UB, UB | Unsup, Unsup | NoFuel, NoFuel => True
  | _, _ => False
  end.

Lemma res_sim_bind : forall A B (R : A -> A -> Prop) (Q : B -> B -> Prop) r1 r2 (f g : A -> res B),
  res_sim R r1 r2 -> (forall a b, R a b -> res_sim Q (f a) (g b)) -> res_sim Q (bind r1 f) (bind r2 g).
Proof. intros A B R Q [a|e| | |] [b|e'| | |] f g H1 H2; cbn in *; try contradiction; auto. Qed.

Lemma res_sim_refl : forall A (r : res A), res_sim eq r r.
Proof. intros A [a|e| | |]; cbn; auto. Qed.

Lemma res_sim_eq : forall A (r1 r2 : res A), res_sim eq r1 r2 -> r1 = r2.
Proof. intros A [a|e| | |] [b|e'| | |] H; cbn in H; try contradiction; subst; reflexivity. Qed.

Definition step_sim (r1 r2 : pre * bool) : Prop := pre_sim (fst r1) (fst r2) /\ snd r1 = snd r2.

Lemma pre_step_sim : forall p q l, pre_sim p q -> res_sim step_sim (pre_step p l) (pre_step q l).
Proof.
  intros p q l (ES & EA & EO & ED & MS & MA & MO). unfold pre_step.
  destruct (l_kind l); try (cbn; split; [repeat split; assumption| reflexivity]).
  - apply res_sim_bind with (R := eq); [apply res_sim_refl|]. intros r ? <-. cbn. split; [| reflexivity].
    repeat split; cbn; auto.
  - apply res_sim_bind with (R := eq); [apply res_sim_refl|]. intros r ? <-. cbn. split; [| reflexivity].
    repeat split; cbn; auto.
  - apply res_sim_bind with (R := eq); [apply res_sim_refl|]. intros r ? <-. cbn. split; [| reflexivity].
    repeat split; cbn; auto.
  - destruct (l_seg1 l); [| cbn; reflexivity].
    apply res_sim_bind with (R := eq); [apply res_sim_refl|]. intros v ? <-. cbn. split; [| reflexivity].
    repeat split; cbn; auto.
Qed.

Definition info_sim (r1 r2 : pre * list lline) : Prop := pre_sim (fst r1) (fst r2) /\ snd r1 = snd r2.

Lemma parseModelInfo_sim : forall ls p q, pre_sim p q ->
  res_sim info_sim (parseModelInfo ls p) (parseModelInfo ls q).
Proof.
  induction ls as [|l ls IH]; intros p q H; cbn [parseModelInfo]; [cbn; split; [exact H| reflexivity]|].
  apply res_sim_bind with (R := step_sim); [apply pre_step_sim; exact H|]. intros [p1 c1] [q1 c2] [H1 H2].
  cbn [fst snd] in *. subst c2.
  apply res_sim_bind with (R := info_sim); [apply IH; exact H1|]. intros [p2 b1] [q2 b2] [H3 H4].
  cbn [fst snd] in *. subst b2. cbn. split; [exact H3| reflexivity].
Qed.

(* the line loop reads the preamble state only through the maps it is entitled to *)
Lemma main_loop_maps : forall fuel fixed pomdp nS nA nO p q ls t,
  mS p = mS q -> mA p = mA q -> (pomdp = true -> mO p = mO q) ->
  main_loop fuel fixed pomdp nS nA nO p ls t = main_loop fuel fixed pomdp nS nA nO q ls t.
Proof.
  induction fuel as [|f IH]; intros fixed pomdp nS nA nO p q ls t HS HA HO; cbn [main_loop]; [reflexivity|].
  destruct ls as [|l rest]; [reflexivity|]. destruct (l_kind l); try (apply IH; assumption).
  - rewrite HS, HA. destruct (processMatrix fixed (tT t) nS nA nS (mA q) (mS q) (mS q) l rest); cbn [bind]; try reflexivity.
    apply IH; assumption.
  - destruct pomdp eqn:Ep; [| apply IH; assumption]. rewrite HS, HA, (HO eq_refl).
    destruct (processMatrix fixed (tW t) nS nA nO (mA q) (mS q) (mO q) l rest); cbn [bind]; try reflexivity.
    apply IH; assumption.
  - rewrite HS, HA. destruct (processReward (tR t) nS nA (mA q) (mS q) l); cbn [bind]; try reflexivity.
    apply IH; assumption.
Qed.

Lemma parse_lines_from_sim : forall fixed pomdp p q ls, pre_sim p q ->
  parse_lines_from fixed pomdp p ls = parse_lines_from fixed pomdp q ls.
Proof.
  intros fixed pomdp p q ls H. unfold parse_lines_from.
  pose proof (parseModelInfo_sim ls p q H) as Hs.
  destruct (parseModelInfo ls p) as [[p1 b1]|e| | |]; destruct (parseModelInfo ls q) as [[q1 b2]|e'| | |];
    cbn in Hs; try contradiction; try reflexivity; [| subst; reflexivity].
  destruct Hs as [(ES & EA & EO & ED & MS & MA & MO) Hb]. cbn [fst snd] in *. subst b2. cbn [bind fst snd].
  rewrite <- ES, <- EA, <- EO, <- ED.
  destruct (pS p1 =? 0)%N eqn:ZS; [reflexivity|]. destruct (pA p1 =? 0)%N eqn:ZA; [reflexivity|]. cbn [orb].
  destruct (pomdp && (pO p1 =? 0)%N) eqn:ZO; [reflexivity|].
  destruct ((max_elems <? pS p1 * pA p1 * pS p1)%N || pomdp && (max_elems <? pS p1 * pA p1 * pO p1)%N); [reflexivity|].
  apply N.eqb_neq in ZS, ZA.
  destruct MS as [MS|MS]; [| contradiction]. destruct MA as [MA|MA]; [| contradiction].
  rewrite (main_loop_maps _ fixed pomdp _ _ _ p1 q1 b1 _ MS MA); [reflexivity|].
  intros ->. cbn [andb] in ZO. apply N.eqb_neq in ZO. destruct MO as [MO|MO]; [exact MO| contradiction].
Qed.

Lemma pre_of_sim : forall st, pre_sim (pre_of st) pre0.
Proof. intros st. unfold pre_of, pre0, pre_sim. cbn. repeat split; auto. Qed.

Lemma reuse_independent_lemma : forall fixed pomdp st ls,
  parse_lines_st fixed pomdp st ls = parse_lines fixed pomdp ls.
Proof. intros. unfold parse_lines_st, parse_lines. apply parse_lines_from_sim. apply pre_of_sim. Qed.

(* two files through one object: the second result does not depend on the first file at all *)
Lemma reuse_two_files_lemma : forall fixed pomdp2 st0 text1 text2,
  parse_text_st fixed pomdp2 (state_after st0 (lex_text text1)) text2 = parse_text fixed pomdp2 text2.
Proof. intros. unfold parse_text_st, parse_text. apply reuse_independent_lemma. Qed.
