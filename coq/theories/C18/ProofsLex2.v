(* C18/ProofsLex2.v — lexing a printed text gives back its lines; views of a printed line. *)
From Coq Require Import List Arith Ascii NArith ZArith QArith Bool Lia.
From AIT Require Import C18.Model C18.Spec C18.ProofsSem C18.ProofsLex.
Import ListNotations.
Local Close Scope Q_scope.

Definition lexl (l : fline) : lline := lex_line (render_core l).
Definition line_ok (l : fline) : Prop := clean (fl_head l) /\ items_clean (fl_rest l).

(* ---------------------------------------------------------------- getline *)
Lemma tokchar_nonnl : forall c, tokchar c = true -> is_newline c = false.
Proof.
  intros c H. apply tokchar_nonspace in H. unfold is_newline. destruct (code c =? 10)%N eqn:E; [| reflexivity].
  apply N.eqb_eq in E. unfold is_space in H. rewrite E in H. discriminate.
Qed.

Definition nonl (s : str) : Prop := forallb (fun c => negb (is_newline c)) s = true.

Lemma lines_tok : forall s r cur, nonl s -> lines_of (s ++ r) cur = lines_of r (rev s ++ cur).
Proof.
  induction s as [|c s IH]; intros r cur H; [reflexivity|]. unfold nonl in H. cbn [forallb] in H.
  apply andb_true_iff in H. destruct H as [Hc Hs]. apply negb_true_iff in Hc.
  cbn [app lines_of rev]. rewrite Hc. rewrite (IH r (c :: cur) Hs). rewrite <- app_assoc. reflexivity.
Qed.

Lemma nonl_sp : forall n, nonl (sp n).
Proof. intros n. apply forallb_sp. reflexivity. Qed.

Lemma nonl_app : forall a b, nonl a -> nonl b -> nonl (a ++ b).
Proof. intros a b Ha Hb. unfold nonl in *. rewrite forallb_app, Ha, Hb. reflexivity. Qed.

Lemma nonl_clean : forall t, forallb tokchar t = true -> nonl t.
Proof.
  intros t H. unfold nonl. rewrite forallb_forall in *. intros c Hc. rewrite (tokchar_nonnl c (H c Hc)). reflexivity.
Qed.

Lemma nonl_sep : forall s, nonl (render_sep s).
Proof.
  intros [n|a b]; cbn [render_sep]; [apply nonl_sp|]. apply nonl_app; [apply nonl_sp|].
  unfold nonl. cbn [forallb]. change (is_newline colon) with false. cbn [negb andb]. apply nonl_sp.
Qed.

Lemma nonl_core : forall l, line_ok l -> nonl (render_core l).
Proof.
  intros l [[_ Hh] Hr]. unfold render_core. apply nonl_app; [apply nonl_clean; exact Hh|].
  induction Hr as [|[s t] rest [_ Ht] _ IH]; [reflexivity|]. cbn [flat_map fst snd] in *.
  apply nonl_app; [apply nonl_app; [apply nonl_sep| apply nonl_clean; exact Ht]| exact IH].
Qed.

Lemma lines_render : forall ls, Forall line_ok ls -> lines_of (render_text ls) [] = map render_line ls ++ [[]].
Proof.
  induction 1 as [|l ls Hl _ IH]; [reflexivity|]. cbn [render_text flat_map map app]. rewrite <- app_assoc.
  rewrite lines_tok.
  - cbn [app lines_of]. change (is_newline newline) with true. cbn iota. rewrite app_nil_r, rev_involutive. f_equal. exact IH.
  - unfold render_line. apply nonl_app; [apply nonl_sp|]. apply nonl_app; [apply nonl_core; exact Hl| apply nonl_sp].
Qed.

(* ---------------------------------------------------------------- trim of a printed line *)
Lemma core_ends : forall l, line_ok l -> ends_nonspace (render_core l).
Proof.
  intros l [Hh Hr]. unfold render_core. destruct (fl_rest l) as [|p rest] eqn:E.
  - cbn [flat_map]. rewrite app_nil_r. apply clean_ends; exact Hh.
  - apply ends_app. clear E Hh. revert p Hr. induction rest as [|q rest IH]; intros p Hr.
    + cbn [flat_map]. rewrite app_nil_r. apply ends_app. apply clean_ends. inversion Hr; assumption.
    + cbn [flat_map]. apply ends_app. apply IH. inversion Hr; assumption.
Qed.

Lemma trim_line : forall l, line_ok l -> trim (render_line l) = render_core l.
Proof.
  intros l Hl. unfold render_line. apply trim_core; [| apply core_ends; exact Hl].
  unfold render_core. apply starts_app. apply clean_starts. apply Hl.
Qed.

Lemma core_nonempty : forall l, line_ok l -> render_core l <> [].
Proof. intros l [[Hne _] _] E. unfold render_core in E. apply app_eq_nil in E. destruct E as [E _]. contradiction. Qed.

Lemma lex_render : forall ls, Forall line_ok ls -> lex_text (render_text ls) = map lexl ls.
Proof.
  intros ls H. unfold lex_text. rewrite (lines_render ls H). rewrite map_app. cbn [map].
  change (trim []) with (@nil ascii). rewrite filter_app. cbn [filter]. rewrite app_nil_r.
  induction H as [|l ls Hl _ IH]; [reflexivity|]. cbn [map filter]. rewrite (trim_line l Hl).
  destruct (render_core l) eqn:E; [exfalso; apply (core_nonempty l Hl); exact E|]. cbn [map]. rewrite <- E.
  f_equal. exact IH.
Qed.

(* ---------------------------------------------------------------- views of a printed line *)
Lemma lexl_toks : forall l, line_ok l -> l_toks (lexl l) = fl_head l :: map snd (fl_rest l).
Proof. intros l [Hh Hr]. unfold lexl, lex_line. cbn [l_toks]. apply toks_core; assumption. Qed.

Lemma lexl_colons : forall l, line_ok l -> l_colons (lexl l) = ncolons (fl_rest l).
Proof. intros l [Hh Hr]. unfold lexl, lex_line. cbn [l_colons]. apply colons_core; assumption. Qed.

Lemma lexl_stoks : forall l, line_ok l -> all_blank_seps (fl_rest l) -> l_stoks (lexl l) = fl_head l :: map snd (fl_rest l).
Proof. intros l [Hh Hr] Hb. unfold lexl, lex_line. cbn [l_stoks]. apply stoks_core_gen; assumption. Qed.

Lemma lexl_kind : forall l, l_kind (lexl l) = kind_of (render_core l).
Proof. reflexivity. Qed.

(* declaration-shaped lines: kw : t1 t2 ... *)
Lemma noncolon_clean : forall t, forallb tokchar t = true -> nonsep is_colon t.
Proof.
  intros t H. unfold nonsep. rewrite forallb_forall in *. intros c Hc. rewrite (tokchar_noncolon c (H c Hc)). reflexivity.
Qed.
Lemma noncolon_sp : forall n, nonsep is_colon (sp n).
Proof. intros n. apply forallb_sp. reflexivity. Qed.
Lemma nonsep_app : forall f a b, nonsep f a -> nonsep f b -> nonsep f (a ++ b).
Proof. intros f a b Ha Hb. unfold nonsep in *. rewrite forallb_app, Ha, Hb. reflexivity. Qed.

Definition blank_items (r : list str) : list (sep * str) := map (fun u => (SepB 0, u)) r.
Definition body_of_toks (t1 : str) (r : list str) : str :=
  t1 ++ flat_map (fun p : sep * str => render_sep (fst p) ++ snd p) (blank_items r).

Lemma blank_items_clean : forall r, Forall clean r -> items_clean (blank_items r).
Proof. intros r H. unfold items_clean, blank_items. rewrite Forall_map. cbn [snd]. exact H. Qed.
Lemma blank_items_blank : forall r, all_blank_seps (blank_items r).
Proof. intros r. unfold all_blank_seps, blank_items. rewrite Forall_map. cbn [fst]. apply Forall_forall. intros; exact I. Qed.
Lemma blank_items_snd : forall r, map snd (blank_items r) = r.
Proof. intros r. unfold blank_items. rewrite map_map. cbn [snd]. apply map_id. Qed.

Lemma body_noncolon : forall t1 r, clean t1 -> Forall clean r -> nonsep is_colon (body_of_toks t1 r).
Proof.
  intros t1 r [_ H1] Hr. unfold body_of_toks. apply nonsep_app; [apply noncolon_clean; exact H1|].
  induction Hr as [|u r [_ Hu] _ IH]; [reflexivity|]. cbn [blank_items map flat_map fst snd render_sep].
  apply nonsep_app; [apply nonsep_app; [apply (noncolon_sp 1)| apply noncolon_clean; exact Hu]| exact IH].
Qed.

Lemma body_edges : forall t1 r, clean t1 -> Forall clean r ->
  starts_nonspace (body_of_toks t1 r) /\ ends_nonspace (body_of_toks t1 r).
Proof.
  intros t1 r H1 Hr. split.
  - unfold body_of_toks. apply starts_app. apply clean_starts; exact H1.
  - apply (core_ends (mkFline 0 t1 (blank_items r) 0)). split; [exact H1| apply blank_items_clean; exact Hr].
Qed.

Lemma lex_decl : forall f kw t1 r, clean kw -> clean t1 -> Forall clean r ->
  l_seg1 (lexl (decl_fline f kw (t1 :: r))) = Some (body_of_toks t1 r) /\
  l_ids (lexl (decl_fline f kw (t1 :: r))) = t1 :: r.
Proof.
  intros f kw t1 r Hk H1 Hr.
  assert (Ecore : render_core (decl_fline f kw (t1 :: r)) =
                  (kw ++ sp (fst (f_colon f 0))) ++
                  flat_map (fun p : str * str => fst p ++ snd p) [([colon], sp (snd (f_colon f 0)) ++ body_of_toks t1 r)] ++ []).
  { unfold render_core, decl_fline, body_of_toks, blank_items, sepc. cbn [fl_head fl_rest flat_map fst snd render_sep].
    rewrite !app_nil_r. rewrite <- !app_assoc. cbn [app]. reflexivity. }
  assert (Etok : tokenize (render_core (decl_fline f kw (t1 :: r))) is_colon =
                 [trim (kw ++ sp (fst (f_colon f 0))); trim (sp (snd (f_colon f 0)) ++ body_of_toks t1 r)]).
  { unfold tokenize. rewrite Ecore.
    rewrite (split_chunks is_colon (str * str) fst snd).
    - reflexivity.
    - destruct Hk as [Hk _]. intros E. apply app_eq_nil in E. destruct E; contradiction.
    - apply nonsep_app; [apply noncolon_clean; apply Hk| apply noncolon_sp].
    - constructor; [| constructor]. unfold chunk_ok. cbn [fst snd]. repeat split.
      + discriminate.
      + apply nonsep_app; [apply noncolon_sp| apply body_noncolon; assumption].
      + intros E. apply app_eq_nil in E. destruct E as [_ E]. unfold body_of_toks in E.
        apply app_eq_nil in E. destruct E as [E _]. destruct H1; contradiction.
    - reflexivity. }
  destruct (body_edges t1 r H1 Hr) as [Bs Be].
  assert (Etrim : trim (sp (snd (f_colon f 0)) ++ body_of_toks t1 r) = body_of_toks t1 r).
  { pose proof (trim_core (snd (f_colon f 0)) 0 _ Bs Be) as E. cbn [sp repeat] in E. rewrite app_nil_r in E. exact E. }
  unfold lexl, lex_line. cbn [l_seg1 l_ids]. rewrite Etok. cbn [nth_error]. rewrite Etrim. split; [reflexivity|].
  unfold body_of_toks.
  etransitivity; [apply (stoks_core_gen t1 (blank_items r) H1 (blank_items_clean r Hr) (blank_items_blank r))|].
  rewrite blank_items_snd. reflexivity.
Qed.
