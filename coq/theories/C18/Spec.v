(* C18/Spec.v — what a Cassandra-format file *means*, independently of the parser:
   an AST [stmt] for the supported grammar, a denotational semantics [denote] (the value of a table
   cell is given by the LAST statement that covers it, `*` covers every index, a name covers the
   index at which it was declared, matrix = rows = entries), well-formedness [wf], and the relation
   [renders] saying which lexed lines are a printing of a statement (free choice of spacing,
   of name-vs-number, of number spelling, of extra ignored tokens).  Boolean checkers for the driver. *)
From Coq Require Import List Arith Ascii NArith ZArith QArith Bool.
From AIT Require Import C18.Model.
Import ListNotations.
Local Close Scope Q_scope.

(* ---------------------------------------------------------------- AST *)
Inductive idx := IStar | INum (n : nat) | IName (s : str).
Inductive decl := DNum (n : nat) | DNames (l : list str).
Inductive tbl := TT | TO.

Inductive stmt :=
  | SStates (d : decl) | SActions (d : decl) | SObs (d : decl)
  | SDiscount (v : val)
  | SValues                                      (* "values: reward" — ignored *)
  | SOther                                       (* any line that is no keyword and does not start with T, O, R *)
  | SEntry (t : tbl) (a s e : idx) (v : val)     (* T: a : s : e  v *)
  | SRowIn (t : tbl) (a s : idx) (vs : list val) (* T: a : s  v1 … vn *)
  | SRowNext (t : tbl) (a s : idx) (vs : list val)   (* T: a : s  ⏎ v1 … vn *)
  | SMat (t : tbl) (a : idx) (rows : list (list val))  (* T: a ⏎ row ⏎ … ⏎ row *)
  | SRew (a s e : idx) (v : val).                (* R: a : s : e : o  v *)

(* ---------------------------------------------------------------- header: the last declaration wins *)
Fixpoint last_some {A : Type} (l : list (option A)) : option A :=
  match l with
  | [] => None
  | x :: t => match last_some t with Some y => Some y | None => x end
  end.

Definition sel_states (st : stmt) := match st with SStates d => Some d | _ => None end.
Definition sel_actions (st : stmt) := match st with SActions d => Some d | _ => None end.
Definition sel_obs (st : stmt) := match st with SObs d => Some d | _ => None end.
Definition sel_disc (st : stmt) := match st with SDiscount v => Some v | _ => None end.

Definition decl_size (od : option decl) : nat :=
  match od with Some (DNum n) => n | Some (DNames l) => length l | None => 0 end.
Definition decl_names (od : option decl) : list str :=
  match od with Some (DNames l) => l | _ => [] end.

Record hdr := mkHdr { hS : nat; hA : nat; hO : nat; nmS : list str; nmA : list str; nmO : list str; hD : val }.

Definition hdr_of (prog : list stmt) : hdr :=
  let s := last_some (map sel_states prog) in
  let a := last_some (map sel_actions prog) in
  let o := last_some (map sel_obs prog) in
  mkHdr (decl_size s) (decl_size a) (decl_size o) (decl_names s) (decl_names a) (decl_names o)
        (match last_some (map sel_disc prog) with Some v => v | None => VQ 1%Q end).

(* ---------------------------------------------------------------- which cells a statement covers *)
Fixpoint index_of (nm : str) (names : list str) : option nat :=
  match names with
  | [] => None
  | x :: t => if str_eqb x nm then Some 0 else match index_of nm t with Some k => Some (S k) | None => None end
  end.

Definition cov (names : list str) (size : nat) (ix : idx) (n : nat) : bool :=
  match ix with
  | IStar => n <? size
  | INum k => n =? k
  | IName nm => match index_of nm names with Some k => n =? k | None => false end
  end.

Inductive which := WT | WR | WW.

Definition tbl_is (w : which) (t : tbl) : bool :=
  match w, t with WT, TT => true | WW, TO => true | _, _ => false end.

(* names and size of the third dimension of table w *)
Definition d3names (H : hdr) (w : which) := match w with WW => nmO H | _ => nmS H end.
Definition d3size (H : hdr) (w : which) := match w with WW => hO H | _ => hS H end.

(* the value statement [st] gives to cell [x][y][z] of table [w], if it covers that cell *)
Definition stmt_cell (H : hdr) (w : which) (st : stmt) (x y z : nat) : option val :=
  match st with
  | SEntry t a s e v =>
      if tbl_is w t && cov (nmA H) (hA H) a y && cov (nmS H) (hS H) s x && cov (d3names H w) (d3size H w) e z
      then Some v else None
  | SRowIn t a s vs | SRowNext t a s vs =>
      if tbl_is w t && cov (nmA H) (hA H) a y && cov (nmS H) (hS H) s x then nth_error vs z else None
  | SMat t a rows =>
      if tbl_is w t && cov (nmA H) (hA H) a y then nth_error (nth x rows []) z else None
  | SRew a s e v =>
      match w with
      | WR => if cov (nmA H) (hA H) a y && cov (nmS H) (hS H) s x && cov (nmS H) (hS H) e z then Some v else None
      | _ => None
      end
  | _ => None
  end.

(* later statements override earlier ones; cells nobody covers are 0 *)
Definition cell_val (H : hdr) (w : which) (prog : list stmt) (x y z : nat) : val :=
  match last_some (map (fun st => stmt_cell H w st x y z) prog) with Some v => v | None => vzero end.

Definition tab3 (d1 d2 d3 : nat) (f : nat -> nat -> nat -> val) : tab :=
  map (fun x => map (fun y => map (fun z => f x y z) (seq 0 d3)) (seq 0 d2)) (seq 0 d1).

(* the model a program defines, read as an MDP ([pomdp = false]: O-statements and the
   observations declaration play no role) or as a POMDP *)
Definition denote (pomdp : bool) (prog : list stmt) : model :=
  let H := hdr_of prog in
  mkModel (hS H) (hA H) (if pomdp then hO H else 0) (hD H)
          (tab3 (hS H) (hA H) (hS H) (cell_val H WT prog))
          (tab3 (hS H) (hA H) (hS H) (cell_val H WR prog))
          (if pomdp then tab3 (hS H) (hA H) (hO H) (cell_val H WW prog) else []).

(* ---------------------------------------------------------------- the three forms of the same data *)
(* a row written as single entries, a matrix written as rows *)
Definition entries_of_row (t : tbl) (a s : idx) (vs : list val) : list stmt :=
  map (fun kv => SEntry t a s (INum (fst kv)) (snd kv)) (combine (seq 0 (length vs)) vs).
Definition rows_of_mat (t : tbl) (a : idx) (rows : list (list val)) : list stmt :=
  map (fun kr => SRowIn t a (INum (fst kr)) (snd kr)) (combine (seq 0 (length rows)) rows).

(* ---------------------------------------------------------------- well-formed programs *)
Definition idx_wf (names : list str) (size : nat) (ix : idx) : Prop :=
  match ix with
  | IStar => True
  | INum n => n < size
  | IName nm => In nm names /\ nm <> star
  end.

Definition d3n (H : hdr) (t : tbl) := match t with TT => nmS H | TO => nmO H end.
Definition d3s (H : hdr) (t : tbl) := match t with TT => hS H | TO => hO H end.

(* O-statements are not looked at when the text is read as an MDP *)
Definition live (pomdp : bool) (t : tbl) : bool := match t with TT => true | TO => pomdp end.

Definition stmt_wf (pomdp : bool) (H : hdr) (st : stmt) : Prop :=
  match st with
  | SEntry t a s e _ =>
      live pomdp t = true -> idx_wf (nmA H) (hA H) a /\ idx_wf (nmS H) (hS H) s /\ idx_wf (d3n H t) (d3s H t) e
  | SRowIn t a s vs | SRowNext t a s vs =>
      live pomdp t = true -> idx_wf (nmA H) (hA H) a /\ idx_wf (nmS H) (hS H) s /\ length vs = d3s H t
  | SMat t a rows =>
      live pomdp t = true ->
      idx_wf (nmA H) (hA H) a /\ length rows = hS H /\ Forall (fun r => length r = d3s H t) rows
  | SRew a s e _ => idx_wf (nmA H) (hA H) a /\ idx_wf (nmS H) (hS H) s /\ idx_wf (nmS H) (hS H) e
  | _ => True
  end.

Definition fits (a b c : nat) : Prop := (N.of_nat a * N.of_nat b * N.of_nat c <= max_elems)%N.

Definition wf (pomdp : bool) (prog : list stmt) : Prop :=
  let H := hdr_of prog in
  0 < hS H /\ 0 < hA H /\ (pomdp = true -> 0 < hO H) /\
  fits (hS H) (hA H) (hS H) /\ (pomdp = true -> fits (hS H) (hA H) (hO H)) /\
  NoDup (nmS H) /\ NoDup (nmA H) /\ NoDup (nmO H) /\
  Forall (stmt_wf pomdp H) prog.

(* ---------------------------------------------------------------- printing, as a relation on lexed lines *)
(* token [t] spells index [ix] (names take precedence over numbers in parseIndeces, so a number
   must not be shadowed by a declared name) *)
Definition idx_tok (names : list str) (ix : idx) (t : str) : Prop :=
  match ix with
  | IStar => t = star
  | INum n => stoul t = Ok (N.of_nat n) /\ t <> star /\ ~ In t names
  | IName nm => t = nm
  end.
Definition val_tok (v : val) (t : str) : Prop := stod t = Ok v.

Definition kind_of_tbl (t : tbl) : lkind := match t with TT => KT | TO => KO end.

(* a declaration line *)
Definition decl_line (k : lkind) (d : decl) (l : lline) : Prop :=
  l_kind l = k /\ l_seg1 l <> None /\
  match d with
  | DNum n => exists t, l_ids l = [t] /\ stoul t = Ok (N.of_nat n)
  | DNames names => l_ids l = names /\ (forall t, names = [t] -> forall n, stoul t <> Ok n)
  end.

(* a line holding a vector, read by parseVector(lines_.at(++i_), N) *)
Definition vec_line (vs : list val) (l : lline) : Prop :=
  l_kind l = KOther /\ Forall2 val_tok vs (l_stoks l).

(* [ls] is a printing of [st] (names of the final header [H]) *)
Definition renders_stmt (H : hdr) (st : stmt) (ls : list lline) : Prop :=
  match st with
  | SStates d => exists l, ls = [l] /\ decl_line KStates d l
  | SActions d => exists l, ls = [l] /\ decl_line KActions d l
  | SObs d => exists l, ls = [l] /\ decl_line KObs d l
  | SDiscount v => exists l t, ls = [l] /\ l_kind l = KDiscount /\ l_seg1 l = Some t /\ val_tok v t
  | SValues => exists l, ls = [l] /\ l_kind l = KValues
  | SOther => exists l, ls = [l] /\ l_kind l = KOther
  | SEntry t a s e v =>
      exists l t0 ta ts te tv more, ls = [l] /\ l_kind l = kind_of_tbl t /\ l_colons l = 3 /\
        l_toks l = t0 :: ta :: ts :: te :: tv :: more /\
        idx_tok (nmA H) a ta /\ idx_tok (nmS H) s ts /\ idx_tok (d3n H t) e te /\ val_tok v tv
  | SRowIn t a s vs =>
      exists l t0 ta ts tvs, ls = [l] /\ l_kind l = kind_of_tbl t /\ l_colons l = 2 /\
        l_toks l = t0 :: ta :: ts :: tvs /\
        idx_tok (nmA H) a ta /\ idx_tok (nmS H) s ts /\ Forall2 val_tok vs tvs
  | SRowNext t a s vs =>
      exists l nl t0 ta ts, ls = [l; nl] /\ l_kind l = kind_of_tbl t /\ l_colons l = 2 /\
        l_toks l = [t0; ta; ts] /\
        idx_tok (nmA H) a ta /\ idx_tok (nmS H) s ts /\ vec_line vs nl
  | SMat t a rows =>
      exists l t0 ta more rls, ls = l :: rls /\ l_kind l = kind_of_tbl t /\ l_colons l = 1 /\
        l_toks l = t0 :: ta :: more /\ idx_tok (nmA H) a ta /\ Forall2 vec_line rows rls
  | SRew a s e v =>
      exists l t0 ta ts te tobs tv more, ls = [l] /\ l_kind l = KR /\ l_colons l = 4 /\
        l_toks l = t0 :: ta :: ts :: te :: tobs :: tv :: more /\
        idx_tok (nmA H) a ta /\ idx_tok (nmS H) s ts /\ idx_tok (nmS H) e te /\ val_tok v tv
  end.

Definition renders (prog : list stmt) (ls : list lline) : Prop :=
  exists lss, Forall2 (renders_stmt (hdr_of prog)) prog lss /\ ls = concat lss.

(* ---------------------------------------------------------------- boolean checkers (driver) *)
Definition q_eqb (a b : Q) : bool := Z.eqb (Qnum a) (Qnum b) && Pos.eqb (Qden a) (Qden b).
Definition val_eqb (a b : val) : bool :=
  match a, b with
  | VQ x, VQ y => q_eqb x y
  | VInf s, VInf t => Bool.eqb s t
  | VNaN, VNaN => true
  | _, _ => false
  end.
Fixpoint mem (x : str) (l : list str) : bool :=
  match l with [] => false | y :: t => str_eqb y x || mem x t end.
Fixpoint nodupb (l : list str) : bool :=
  match l with [] => true | x :: t => negb (mem x t) && nodupb t end.

Definition idx_wfb (names : list str) (size : nat) (ix : idx) : bool :=
  match ix with IStar => true | INum n => n <? size | IName nm => mem nm names && negb (str_eqb nm star) end.

Definition stmt_wfb (pomdp : bool) (H : hdr) (st : stmt) : bool :=
  match st with
  | SEntry t a s e _ =>
      negb (live pomdp t) || (idx_wfb (nmA H) (hA H) a && idx_wfb (nmS H) (hS H) s && idx_wfb (d3n H t) (d3s H t) e)
  | SRowIn t a s vs | SRowNext t a s vs =>
      negb (live pomdp t) || (idx_wfb (nmA H) (hA H) a && idx_wfb (nmS H) (hS H) s && (length vs =? d3s H t))
  | SMat t a rows =>
      negb (live pomdp t) ||
      (idx_wfb (nmA H) (hA H) a && (length rows =? hS H) && forallb (fun r => length r =? d3s H t) rows)
  | SRew a s e _ => idx_wfb (nmA H) (hA H) a && idx_wfb (nmS H) (hS H) s && idx_wfb (nmS H) (hS H) e
  | _ => true
  end.

Definition fitsb (a b c : nat) : bool := (N.of_nat a * N.of_nat b * N.of_nat c <=? max_elems)%N.

Definition wfb (pomdp : bool) (prog : list stmt) : bool :=
  let H := hdr_of prog in
  (0 <? hS H) && (0 <? hA H) && (negb pomdp || (0 <? hO H)) &&
  fitsb (hS H) (hA H) (hS H) && (negb pomdp || fitsb (hS H) (hA H) (hO H)) &&
  nodupb (nmS H) && nodupb (nmA H) && nodupb (nmO H) &&
  forallb (stmt_wfb pomdp H) prog.

(* boolean [renders]: each statement takes a fixed number of lines *)
Definition res_val_is (r : res val) (v : val) : bool := match r with Ok w => val_eqb w v | _ => false end.
Definition res_N_is (r : res N) (n : nat) : bool := match r with Ok w => (w =? N.of_nat n)%N | _ => false end.
Definition idx_tokb (names : list str) (ix : idx) (t : str) : bool :=
  match ix with
  | IStar => str_eqb t star
  | INum n => res_N_is (stoul t) n && negb (str_eqb t star) && negb (mem t names)
  | IName nm => str_eqb t nm
  end.
Fixpoint vals_tokb (vs : list val) (ts : list str) : bool :=
  match vs, ts with
  | [], [] => true
  | v :: vs', t :: ts' => res_val_is (stod t) v && vals_tokb vs' ts'
  | _, _ => false
  end.
Definition kind_eqb (a b : lkind) : bool :=
  match a, b with
  | KValues, KValues | KStates, KStates | KActions, KActions | KObs, KObs | KDiscount, KDiscount
  | KT, KT | KO, KO | KR, KR | KOther, KOther => true
  | _, _ => false
  end.
Fixpoint strs_eqb (a b : list str) : bool :=
  match a, b with [], [] => true | x :: a', y :: b' => str_eqb x y && strs_eqb a' b' | _, _ => false end.

Definition decl_lineb (k : lkind) (d : decl) (l : lline) : bool :=
  kind_eqb (l_kind l) k && (match l_seg1 l with Some _ => true | None => false end) &&
  match d with
  | DNum n => match l_ids l with [t] => res_N_is (stoul t) n | _ => false end
  | DNames names => strs_eqb (l_ids l) names &&
                    match names with [t] => match stoul t with Ok _ => false | _ => true end | _ => true end
  end.
Definition vec_lineb (vs : list val) (l : lline) : bool := kind_eqb (l_kind l) KOther && vals_tokb vs (l_stoks l).
Fixpoint vec_linesb (rows : list (list val)) (ls : list lline) : bool :=
  match rows, ls with
  | [], [] => true
  | r :: rows', l :: ls' => vec_lineb r l && vec_linesb rows' ls'
  | _, _ => false
  end.

Definition nlines (st : stmt) : nat :=
  match st with SRowNext _ _ _ _ => 2 | SMat _ _ rows => S (length rows) | _ => 1 end.

Definition renders_stmtb (H : hdr) (st : stmt) (ls : list lline) : bool :=
  match st, ls with
  | SStates d, [l] => decl_lineb KStates d l
  | SActions d, [l] => decl_lineb KActions d l
  | SObs d, [l] => decl_lineb KObs d l
  | SDiscount v, [l] => kind_eqb (l_kind l) KDiscount &&
                        match l_seg1 l with Some t => res_val_is (stod t) v | None => false end
  | SValues, [l] => kind_eqb (l_kind l) KValues
  | SOther, [l] => kind_eqb (l_kind l) KOther
  | SEntry t a s e v, [l] =>
      kind_eqb (l_kind l) (kind_of_tbl t) && (l_colons l =? 3) &&
      match l_toks l with
      | _ :: ta :: ts :: te :: tv :: _ =>
          idx_tokb (nmA H) a ta && idx_tokb (nmS H) s ts && idx_tokb (d3n H t) e te && res_val_is (stod tv) v
      | _ => false end
  | SRowIn t a s vs, [l] =>
      kind_eqb (l_kind l) (kind_of_tbl t) && (l_colons l =? 2) &&
      match l_toks l with
      | _ :: ta :: ts :: tvs => idx_tokb (nmA H) a ta && idx_tokb (nmS H) s ts && vals_tokb vs tvs
      | _ => false end
  | SRowNext t a s vs, [l; nl] =>
      kind_eqb (l_kind l) (kind_of_tbl t) && (l_colons l =? 2) &&
      match l_toks l with
      | [_; ta; ts] => idx_tokb (nmA H) a ta && idx_tokb (nmS H) s ts && vec_lineb vs nl
      | _ => false end
  | SMat t a rows, l :: rls =>
      kind_eqb (l_kind l) (kind_of_tbl t) && (l_colons l =? 1) &&
      match l_toks l with
      | _ :: ta :: _ => idx_tokb (nmA H) a ta && vec_linesb rows rls
      | _ => false end
  | SRew a s e v, [l] =>
      kind_eqb (l_kind l) KR && (l_colons l =? 4) &&
      match l_toks l with
      | _ :: ta :: ts :: te :: _ :: tv :: _ =>
          idx_tokb (nmA H) a ta && idx_tokb (nmS H) s ts && idx_tokb (nmS H) e te && res_val_is (stod tv) v
      | _ => false end
  | _, _ => false
  end.

Fixpoint rendersb_go (H : hdr) (prog : list stmt) (ls : list lline) : bool :=
  match prog with
  | [] => match ls with [] => true | _ => false end
  | st :: rest => renders_stmtb H st (firstn (nlines st) ls) && rendersb_go H rest (skipn (nlines st) ls)
  end.
Definition rendersb (prog : list stmt) (ls : list lline) : bool := rendersb_go (hdr_of prog) prog ls.

(* ================================================================ the printer (character level) *)
(* A text is a list of formatted lines; a formatted line is: leading blanks, a first token, then
   (separator, token) pairs, trailing blanks.  A separator is a run of blanks or a colon with blanks
   around it.  All the freedom the format leaves (spacing, which spelling for a number, which first
   word after the letter T/O/R, extra ignored tokens) is a parameter [sfmt] of the printer. *)
Definition blank : ascii := " "%char.
Definition colon : ascii := ":"%char.
Definition newline : ascii := "010"%char.
Definition sp (n : nat) : str := repeat blank n.

Inductive sep := SepB (n : nat) | SepC (a b : nat).
Definition render_sep (s : sep) : str :=
  match s with SepB n => sp (S n) | SepC a b => sp a ++ colon :: sp b end.

Record fline := mkFline { fl_lead : nat; fl_head : str; fl_rest : list (sep * str); fl_trail : nat }.
Definition render_core (l : fline) : str :=
  fl_head l ++ flat_map (fun p => render_sep (fst p) ++ snd p) (fl_rest l).
Definition render_line (l : fline) : str := sp (fl_lead l) ++ render_core l ++ sp (fl_trail l).
Definition render_text (ls : list fline) : str := flat_map (fun l => render_line l ++ [newline]) ls.

Record sfmt := mkSfmt {
  f_lead : nat -> nat;            (* blanks before line k of the statement *)
  f_trail : nat -> nat;           (* blanks after line k *)
  f_colon : nat -> nat * nat;     (* blanks before / after the k-th colon *)
  f_gap : nat -> nat -> nat;      (* extra blanks before value c of line r *)
  f_head : str;                   (* the first word: "T", "Trans", "O", "R", "#", ... *)
  f_num : nat -> str;             (* spelling of the k-th numeric index (or of a size declared by number) *)
  f_val : nat -> nat -> str;      (* spelling of value c of row r *)
  f_word : str;                   (* the word after "values:", the observation field of an R line *)
  f_extra : list str              (* extra tokens, ignored by the parser *)
}.

Definition sepc (f : sfmt) (k : nat) : sep := SepC (fst (f_colon f k)) (snd (f_colon f k)).

(* the token for index [ix] at slot [k] *)
Definition idx_spelling (f : sfmt) (k : nat) (ix : idx) : str :=
  match ix with IStar => star | INum _ => f_num f k | IName nm => nm end.

(* value tokens of row r, each preceded by at least one blank *)
Definition val_items (f : sfmt) (r : nat) (start : nat) (n : nat) : list (sep * str) :=
  map (fun c => (SepB (f_gap f r c), f_val f r c)) (seq start n).
Definition extra_items (f : sfmt) : list (sep * str) := map (fun t => (SepB 0, t)) (f_extra f).

(* a line holding a vector of n >= 1 values (row r of the statement, printed as line [ln]) *)
Definition vec_fline (f : sfmt) (ln r n : nat) : fline :=
  mkFline (f_lead f ln) (f_val f r 0) (val_items f r 1 (n - 1)) (f_trail f ln).

Definition kw_states : str := ["s"; "t"; "a"; "t"; "e"; "s"]%char.
Definition kw_actions : str := ["a"; "c"; "t"; "i"; "o"; "n"; "s"]%char.
Definition kw_observations : str := ["o"; "b"; "s"; "e"; "r"; "v"; "a"; "t"; "i"; "o"; "n"; "s"]%char.
Definition kw_discount : str := ["d"; "i"; "s"; "c"; "o"; "u"; "n"; "t"]%char.
Definition kw_values : str := ["v"; "a"; "l"; "u"; "e"; "s"]%char.

Definition decl_toks (f : sfmt) (d : decl) : list str :=
  match d with DNum _ => [f_num f 0] | DNames l => l end.

Definition decl_fline (f : sfmt) (kw : str) (toks : list str) : fline :=
  match toks with
  | [] => mkFline (f_lead f 0) kw [] (f_trail f 0)
  | t :: r => mkFline (f_lead f 0) kw ((sepc f 0, t) :: map (fun u => (SepB 0, u)) r) (f_trail f 0)
  end.

Definition print_stmt (f : sfmt) (st : stmt) : list fline :=
  match st with
  | SStates d => [decl_fline f kw_states (decl_toks f d)]
  | SActions d => [decl_fline f kw_actions (decl_toks f d)]
  | SObs d => [decl_fline f kw_observations (decl_toks f d)]
  | SDiscount _ => [decl_fline f kw_discount [f_val f 0 0]]
  | SValues => [decl_fline f kw_values [f_word f]]
  | SOther => [mkFline (f_lead f 0) (f_head f) (extra_items f) (f_trail f 0)]
  | SEntry _ a s e _ =>
      [mkFline (f_lead f 0) (f_head f)
               ((sepc f 0, idx_spelling f 0 a) :: (sepc f 1, idx_spelling f 1 s) :: (sepc f 2, idx_spelling f 2 e)
                :: (SepB (f_gap f 0 0), f_val f 0 0) :: extra_items f) (f_trail f 0)]
  | SRowIn _ a s vs =>
      [mkFline (f_lead f 0) (f_head f)
               ((sepc f 0, idx_spelling f 0 a) :: (sepc f 1, idx_spelling f 1 s) :: val_items f 0 0 (length vs)) (f_trail f 0)]
  | SRowNext _ a s vs =>
      [mkFline (f_lead f 0) (f_head f) [(sepc f 0, idx_spelling f 0 a); (sepc f 1, idx_spelling f 1 s)] (f_trail f 0);
       vec_fline f 1 0 (length vs)]
  | SMat _ a rows =>
      mkFline (f_lead f 0) (f_head f) ((sepc f 0, idx_spelling f 0 a) :: extra_items f) (f_trail f 0)
      :: map (fun r => vec_fline f (S r) r (length (nth r rows []))) (seq 0 (length rows))
  | SRew a s e _ =>
      [mkFline (f_lead f 0) (f_head f)
               ((sepc f 0, idx_spelling f 0 a) :: (sepc f 1, idx_spelling f 1 s) :: (sepc f 2, idx_spelling f 2 e)
                :: (sepc f 3, f_word f) :: (SepB (f_gap f 0 0), f_val f 0 0) :: extra_items f) (f_trail f 0)]
  end.

(* statement i is printed with format [fmt i] *)
Fixpoint print_lines (fmt : nat -> sfmt) (i : nat) (prog : list stmt) : list (list fline) :=
  match prog with [] => [] | st :: r => print_stmt (fmt i) st :: print_lines fmt (S i) r end.
Definition print (fmt : nat -> sfmt) (prog : list stmt) : str := render_text (concat (print_lines fmt 0 prog)).

(* ---- when a format is admissible for a statement *)
Definition tokchar (c : ascii) : bool := negb (is_space c) && negb (is_colon c).
Definition clean (t : str) : Prop := t <> [] /\ forallb tokchar t = true.
(* first character that cannot start a keyword or a T / O / R line *)
Definition safe_char (c : ascii) : bool :=
  negb (Ascii.eqb "v" c || Ascii.eqb "s" c || Ascii.eqb "a" c || Ascii.eqb "o" c || Ascii.eqb "d" c
        || Ascii.eqb "T" c || Ascii.eqb "O" c || Ascii.eqb "R" c).
Definition safe_first (t : str) : Prop := match t with c :: _ => safe_char c = true | [] => False end.

Definition idx_ok (names : list str) (f : sfmt) (k : nat) (ix : idx) : Prop :=
  match ix with
  | IStar => True
  | INum n => clean (f_num f k) /\ stoul (f_num f k) = Ok (N.of_nat n) /\ f_num f k <> star /\ ~ In (f_num f k) names
  | IName nm => clean nm
  end.
Definition val_ok (f : sfmt) (r c : nat) (v : val) : Prop :=
  clean (f_val f r c) /\ safe_first (f_val f r c) /\ stod (f_val f r c) = Ok v.
Definition vals_ok (f : sfmt) (r : nat) (vs : list val) : Prop :=
  forall c v, nth_error vs c = Some v -> val_ok f r c v.
Definition head_ok (f : sfmt) (letter : ascii) : Prop :=
  exists more, f_head f = letter :: more /\ forallb tokchar more = true.
Definition letter_of (t : tbl) : ascii := match t with TT => "T"%char | TO => "O"%char end.
Definition decl_ok (f : sfmt) (d : decl) : Prop :=
  match d with
  | DNum n => clean (f_num f 0) /\ stoul (f_num f 0) = Ok (N.of_nat n)
  | DNames l => l <> [] /\ Forall clean l /\ (forall t, l = [t] -> forall n, stoul t <> Ok n)
  end.

Definition fmt_ok (H : hdr) (f : sfmt) (st : stmt) : Prop :=
  Forall clean (f_extra f) /\
  match st with
  | SStates d | SActions d | SObs d => decl_ok f d
  | SDiscount v => clean (f_val f 0 0) /\ stod (f_val f 0 0) = Ok v
  | SValues => clean (f_word f)
  | SOther => clean (f_head f) /\ safe_first (f_head f)
  | SEntry t a s e v =>
      head_ok f (letter_of t) /\ idx_ok (nmA H) f 0 a /\ idx_ok (nmS H) f 1 s /\ idx_ok (d3n H t) f 2 e /\ val_ok f 0 0 v
  | SRowIn t a s vs =>
      head_ok f (letter_of t) /\ idx_ok (nmA H) f 0 a /\ idx_ok (nmS H) f 1 s /\ vals_ok f 0 vs
  | SRowNext t a s vs =>
      head_ok f (letter_of t) /\ idx_ok (nmA H) f 0 a /\ idx_ok (nmS H) f 1 s /\ vs <> [] /\ vals_ok f 0 vs
  | SMat t a rows =>
      head_ok f (letter_of t) /\ idx_ok (nmA H) f 0 a /\
      (forall r row, nth_error rows r = Some row -> row <> [] /\ vals_ok f r row)
  | SRew a s e v =>
      head_ok f "R"%char /\ idx_ok (nmA H) f 0 a /\ idx_ok (nmS H) f 1 s /\ idx_ok (nmS H) f 2 e /\
      clean (f_word f) /\ val_ok f 0 0 v
  end.

Fixpoint fmts_ok (H : hdr) (fmt : nat -> sfmt) (i : nat) (prog : list stmt) : Prop :=
  match prog with [] => True | st :: r => fmt_ok H (fmt i) st /\ fmts_ok H fmt (S i) r end.

(* ================================================================ texts that do not define a complete valid model *)
(* [t] is neither `*`, nor a declared name, nor a number below the bound: an unknown name or an
   out-of-range index *)
Definition bad_tok (names : list str) (size : nat) (t : str) : Prop :=
  t <> star /\ ~ In t names /\
  (stoul t = Throw E_stoul \/ exists v, stoul t = Ok v /\ (N.of_nat size <= v)%N).

(* the dimension the k-th token of a "T:"/"O:" line indexes: 1 = action, 2 = state, 3 = end state / observation *)
Definition slot_names (H : hdr) (t : tbl) (k : nat) : list str :=
  match k with 1 => nmA H | 2 => nmS H | _ => d3n H t end.
Definition slot_size (H : hdr) (t : tbl) (k : nat) : nat :=
  match k with 1 => hA H | 2 => hS H | _ => d3s H t end.

(* a block of lines, standing where a statement is expected, that makes the file malformed *)
Inductive defect (pomdp : bool) (H : hdr) : list lline -> Prop :=
  | D_index : forall l t k tok more,          (* unknown name / index out of range in a T or O line *)
      l_kind l = kind_of_tbl t -> live pomdp t = true -> 1 <= k -> k <= l_colons l -> l_colons l <= 3 ->
      nth_error (l_toks l) k = Some tok -> bad_tok (slot_names H t k) (slot_size H t k) tok ->
      defect pomdp H (l :: more)
  | D_index_reward : forall l k tok more,     (* the same in an R line *)
      l_kind l = KR -> l_colons l = 4 -> 1 <= k -> k <= 3 ->
      nth_error (l_toks l) k = Some tok -> bad_tok (slot_names H TT k) (slot_size H TT k) tok ->
      defect pomdp H (l :: more)
  | D_row_count : forall l t more,            (* "T: a : s v1 .. vk" with k <> 0 and k <> D3 *)
      l_kind l = kind_of_tbl t -> live pomdp t = true -> l_colons l = 2 ->
      length (l_toks l) <> 3 -> length (l_toks l) <> 3 + d3s H t ->
      defect pomdp H (l :: more)
  | D_next_count : forall l t nl more,        (* "T: a : s" followed by a vector of the wrong length *)
      l_kind l = kind_of_tbl t -> live pomdp t = true -> l_colons l = 2 -> length (l_toks l) = 3 ->
      length (l_stoks nl) <> d3s H t ->
      defect pomdp H (l :: nl :: more)
  | D_mat_count : forall l t nl more,         (* "T: a" followed by a first row of the wrong length *)
      l_kind l = kind_of_tbl t -> live pomdp t = true -> l_colons l = 1 ->
      length (l_stoks nl) <> d3s H t ->
      defect pomdp H (l :: nl :: more)
  | D_colons : forall l t more,               (* a T or O line without colon or with more than three *)
      l_kind l = kind_of_tbl t -> live pomdp t = true -> (l_colons l = 0 \/ 3 < l_colons l) ->
      defect pomdp H (l :: more)
  | D_colons_reward : forall l more,          (* an R line that does not have exactly four colons *)
      l_kind l = KR -> l_colons l <> 4 ->
      defect pomdp H (l :: more).

(* ---- valid models (what the Model constructors accept) *)
Fixpoint qsum (l : list Q) : Q := match l with [] => 0%Q | x :: t => (x + qsum t)%Q end.
Definition row_dist (r : list val) : Prop :=
  exists qs, r = map VQ qs /\ Forall (fun q => (0 <= q)%Q) qs /\
             (qsum qs - 1 <= epsSmall)%Q /\ (1 - qsum qs <= epsSmall)%Q.
Definition tab_dist (t : tab) : Prop := Forall (Forall row_dist) t.
Definition disc_valid (d : val) : Prop := exists q, d = VQ q /\ (0 < q)%Q /\ (q <= 1)%Q.
Definition model_ok (pomdp : bool) (m : model) : Prop :=
  disc_valid (mDisc m) /\ tab_dist (mT m) /\ (pomdp = true -> tab_dist (mW m)).

(* the ways in which the lexed lines [ls] fail to define a complete valid model *)
Inductive incomplete (pomdp : bool) (ls : list lline) : Prop :=
  | Inc_missing : forall prog lss,            (* a size is not declared (or declared as 0) *)
      Forall2 (renders_stmt (hdr_of prog)) prog lss -> ls = concat lss ->
      (hS (hdr_of prog) = 0 \/ hA (hdr_of prog) = 0 \/ (pomdp = true /\ hO (hdr_of prog) = 0)) ->
      incomplete pomdp ls
  | Inc_defect : forall pre_prog post_prog lss_pre lss_post bad,   (* a malformed statement after well-formed ones *)
      let H := hdr_of (pre_prog ++ post_prog) in
      wf pomdp (pre_prog ++ post_prog) ->
      Forall2 (renders_stmt H) pre_prog lss_pre -> Forall2 (renders_stmt H) post_prog lss_post ->
      defect pomdp H bad ->
      Forall (fun l => match l_kind l with KT | KO | KR | KOther => True | _ => False end) bad ->
      ls = concat lss_pre ++ bad ++ concat lss_post ->
      incomplete pomdp ls
  | Inc_invalid : forall prog,                (* well-formed, but the tables are not probabilities / bad discount *)
      wf pomdp prog -> renders prog ls -> ~ model_ok pomdp (denote pomdp prog) ->
      incomplete pomdp ls.
