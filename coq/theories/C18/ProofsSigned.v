(* C18/ProofsSigned.v — signed index tokens.  std::stoul accepts a leading '+' or '-'; a negative
   value is negated in unsigned arithmetic.  So "+k" is k, "-0" is 0, and "-k" (0 < k) is 2^64 - k,
   which parseIndeces' range check rejects as long as k + max <= 2^64: negative indices are rejected. *)
From Coq Require Import List Arith Ascii NArith ZArith QArith Bool Lia.
From AIT Require Import C18.Model C18.Spec C18.Proofs C18.ProofsSem.
Import ListNotations.
Local Close Scope Q_scope.

Definition is_digit (c : ascii) : bool := match digit_of c with Some _ => true | None => false end.
Fixpoint dec_from (acc : N) (ds : str) : N :=
  match ds with
  | [] => acc
  | c :: t => match digit_of c with Some d => dec_from (acc * 10 + d)%N t | None => acc end
  end.
(* the value of a digit string *)
Definition dec_value (ds : str) : N := dec_from 0%N ds.
Definition digits (ds : str) : Prop := ds <> [] /\ forallb is_digit ds = true.

Lemma take_digits_all : forall ds acc cnt, forallb is_digit ds = true ->
  take_digits ds acc cnt = (dec_from acc ds, cnt + length ds, []).
Proof.
  induction ds as [|c ds IH]; intros acc cnt H; cbn [take_digits dec_from length].
  - rewrite Nat.add_0_r. reflexivity.
  - cbn [forallb] in H. apply andb_true_iff in H. destruct H as [Hc Hd]. unfold is_digit in Hc.
    destruct (digit_of c) as [d|]; [| discriminate]. rewrite (IH _ _ Hd). f_equal. f_equal. lia.
Qed.

Lemma digit_not_space : forall c, is_digit c = true -> is_space c = false.
Proof.
  intros c H. unfold is_digit, digit_of in H. destruct ((48 <=? code c) && (code c <=? 57))%N eqn:E; [| discriminate].
  apply andb_true_iff in E. destruct E as [E1 E2]. apply N.leb_le in E1, E2. unfold is_space.
  apply orb_false_iff. split; [apply andb_false_iff; right; apply N.leb_gt; lia| apply N.eqb_neq; lia].
Qed.

Lemma digit_not_sign : forall c, is_digit c = true -> (code c =? 45)%N = false /\ (code c =? 43)%N = false.
Proof.
  intros c H. unfold is_digit, digit_of in H. destruct ((48 <=? code c) && (code c <=? 57))%N eqn:E; [| discriminate].
  apply andb_true_iff in E. destruct E as [E1 E2]. apply N.leb_le in E1, E2. split; apply N.eqb_neq; lia.
Qed.

Definition minus : ascii := "-"%char.
Definition plus : ascii := "+"%char.

(* the index-token grammar of the original code *)
Lemma stoul_plain : forall ds, digits ds ->
  stoul ds = if (two64 <=? dec_value ds)%N then Throw E_stoul else Ok (dec_value ds).
Proof.
  intros ds [Hne Hall]. destruct ds as [|c ds']; [contradiction|]. pose proof Hall as Hall'.
  cbn [forallb] in Hall. apply andb_true_iff in Hall. destruct Hall as [Hc _].
  unfold stoul. cbn [drop_space]. rewrite (digit_not_space c Hc). unfold take_sign.
  destruct (digit_not_sign c Hc) as [-> ->]. cbv beta iota. rewrite (take_digits_all (c :: ds') 0%N 0 Hall'). cbn [Nat.add length]. reflexivity.
Qed.

Lemma stoul_plus : forall ds, digits ds ->
  stoul (plus :: ds) = if (two64 <=? dec_value ds)%N then Throw E_stoul else Ok (dec_value ds).
Proof.
  intros ds [Hne Hall]. unfold stoul. cbn [drop_space]. change (is_space plus) with false. cbv iota.
  change (take_sign (plus :: ds)) with (false, ds). cbv beta iota. rewrite (take_digits_all ds 0%N 0 Hall).
  destruct ds; [contradiction|]. cbn [Nat.add length]. reflexivity.
Qed.

Lemma stoul_minus : forall ds, digits ds ->
  stoul (minus :: ds) = if (two64 <=? dec_value ds)%N then Throw E_stoul else Ok ((two64 - dec_value ds) mod two64)%N.
Proof.
  intros ds [Hne Hall]. unfold stoul. cbn [drop_space]. change (is_space minus) with false. cbv iota.
  change (take_sign (minus :: ds)) with (true, ds). cbv beta iota. rewrite (take_digits_all ds 0%N 0 Hall).
  destruct ds; [contradiction|]. cbn [Nat.add length]. reflexivity.
Qed.

Lemma lookup_names_In : forall names s t i, lookup (index_pairs names s) t = Some i -> In t names.
Proof.
  induction names as [|x names IH]; intros s t i H; cbn [index_pairs lookup] in H; [discriminate|].
  destruct (lookup (index_pairs names (S s)) t) eqn:E; [right; eapply IH; exact E|].
  destruct (str_eqb x t) eqn:Ex; [| discriminate]. apply str_eqb_eq in Ex. left; exact Ex.
Qed.

(* "-k" with 0 < k and k + max <= 2^64 is never an index below max *)
Lemma negative_index_rejected_lemma : forall names max ds,
  digits ds -> 0 < max -> (0 < dec_value ds)%N -> (dec_value ds + N.of_nat max <= two64)%N -> ~ In (minus :: ds) names ->
  parseIndeces (minus :: ds) (index_pairs names 0) max = Throw E_index_high.
Proof.
  intros names max ds Hd Hmax Hpos Hle Hn. unfold parseIndeces.
  assert (Es : str_eqb (minus :: ds) star = false).
  { apply str_eqb_neq. intros E. inversion E. }
  rewrite Es.
  assert (El : lookup (index_pairs names 0) (minus :: ds) = None).
  { destruct (lookup (index_pairs names 0) (minus :: ds)) eqn:E; [| reflexivity]. exfalso. apply Hn. eapply lookup_names_In; exact E. }
  rewrite El, (stoul_minus ds Hd).
  assert (E1 : (two64 <=? dec_value ds)%N = false) by (apply N.leb_gt; unfold two64 in *; lia).
  rewrite E1. cbn [bind].
  assert (E2 : ((two64 - dec_value ds) mod two64 = two64 - dec_value ds)%N) by (apply N.mod_small; unfold two64 in *; lia).
  rewrite E2.
  assert (E3 : (N.of_nat max <=? two64 - dec_value ds)%N = true) by (apply N.leb_le; unfold two64 in *; lia).
  rewrite E3. reflexivity.
Qed.

(* ... and is a [bad_tok], so incomplete_rejected (D_index / D_index_reward) covers negative indices *)
Lemma negative_bad_tok_lemma : forall names size ds,
  digits ds -> 0 < size -> (0 < dec_value ds)%N -> (dec_value ds + N.of_nat size <= two64)%N -> ~ In (minus :: ds) names ->
  bad_tok names size (minus :: ds).
Proof.
  intros names size ds Hd Hsz Hpos Hle Hn. split; [intros E; inversion E|]. split; [exact Hn|].
  right. exists (two64 - dec_value ds)%N. rewrite (stoul_minus ds Hd).
  assert (E1 : (two64 <=? dec_value ds)%N = false) by (apply N.leb_gt; unfold two64 in *; lia).
  rewrite E1. rewrite N.mod_small by (unfold two64 in *; lia). split; [reflexivity| unfold two64 in *; lia].
Qed.

(* "+k" and "-0": accepted exactly like k and 0 *)
Lemma plus_index_lemma : forall ds m max, digits ds ->
  str_eqb (plus :: ds) star = false -> lookup m (plus :: ds) = None ->
  parseIndeces (plus :: ds) m max =
  if (two64 <=? dec_value ds)%N then Throw E_stoul
  else if (N.of_nat max <=? dec_value ds)%N then Throw E_index_high else Ok [N.to_nat (dec_value ds)].
Proof.
  intros ds m max Hd Es El. unfold parseIndeces. rewrite Es, El, (stoul_plus ds Hd).
  destruct (two64 <=? dec_value ds)%N; reflexivity.
Qed.

Lemma minus_zero_index_lemma : forall ds m max, digits ds -> dec_value ds = 0%N -> 0 < max ->
  lookup m (minus :: ds) = None -> parseIndeces (minus :: ds) m max = Ok [0].
Proof.
  intros ds m max Hd Hz Hmax El.
  assert (Est : stoul (minus :: ds) = Ok 0%N) by (rewrite (stoul_minus ds Hd), Hz; reflexivity).
  assert (Es : str_eqb (minus :: ds) star = false) by (apply str_eqb_neq; intros E; inversion E).
  unfold parseIndeces. rewrite Es, El, Est. cbn [bind].
  assert (E : (N.of_nat max <=? 0)%N = false) by (apply N.leb_gt; lia). rewrite E. reflexivity.
Qed.
