(* C18/ProofsPrint.v — parse_print at the token/line level: for every well-formed program and
   every list of lexed lines that renders it, the repaired parser returns exactly the denotation. *)
From Coq Require Import List Arith Ascii NArith ZArith QArith Bool Lia.
From AIT Require Import C18.Model C18.Spec C18.Proofs C18.ProofsSafe C18.ProofsSem.
Import ListNotations.
Local Close Scope Q_scope.

Definition ip (names : list str) : idmap := index_pairs names 0.
Definition ov (o : option val) (d : val) : val := match o with Some v => v | None => d end.

(* M' is M overwritten by f *)
Definition upd_by (f : nat -> nat -> nat -> option val) (M M' : tab) : Prop :=
  forall x y z, get3 M' x y z = ov (f x y z) (get3 M x y z).

Lemma write_cells_cases : forall cs M, (exists M', write_cells M cs = Ok M') \/ write_cells M cs = UB.
Proof.
  induction cs as [|[[[x y] z] v] cs IH]; intros M; cbn [write_cells]; [left; eexists; reflexivity|].
  destruct (set3 M x y z v); [apply IH| right; reflexivity].
Qed.

Lemma write_cells_total : forall d1 d2 d3 cs M, shape d1 d2 d3 M -> Forall (cell_in d1 d2 d3) cs ->
  exists M', write_cells M cs = Ok M' /\ shape d1 d2 d3 M'.
Proof.
  intros d1 d2 d3 cs M HM HF. pose proof (write_cells_good d1 d2 d3 cs M HM HF) as G.
  destruct (write_cells_cases cs M) as [[M' E]|E]; rewrite E in G; cbn in G; [| contradiction].
  exists M'. split; [exact E| exact G].
Qed.

Lemma good_Ok : forall A (P : A -> Prop) r a, good P r -> r = Ok a -> P a.
Proof. intros A P r a G ->. exact G. Qed.

(* ---------------------------------------------------------------- writing an entry / a row *)
Lemma write_entry_effect : forall d1 d2 d3 M d1v av d3v v (c1 c2 c3 : nat -> bool),
  shape d1 d2 d3 M ->
  Forall (fun i => i < d1) d1v -> Forall (fun i => i < d2) av -> Forall (fun i => i < d3) d3v ->
  (forall n, In n d1v <-> c1 n = true) -> (forall n, In n av <-> c2 n = true) -> (forall n, In n d3v <-> c3 n = true) ->
  exists M', write_cells M (cells_entry d1v av d3v v) = Ok M' /\ shape d1 d2 d3 M' /\
             upd_by (fun x y z => if c2 y && c1 x && c3 z then Some v else None) M M'.
Proof.
  intros d1 d2 d3 M d1v av d3v v c1 c2 c3 HM F1 F2 F3 I1 I2 I3.
  destruct (write_cells_total d1 d2 d3 (cells_entry d1v av d3v v) M HM) as [M' [E HM']];
    [apply cells_entry_in; assumption|].
  exists M'. split; [exact E|]. split; [exact HM'|]. intros x y z.
  destruct (write_cells_spec _ _ _ E x y z) as [[w [Hin Hg]]|[Hn Hg]].
  - apply in_cells_entry in Hin. destruct Hin as (H1 & H2 & H3 & ->).
    apply I1 in H1. apply I2 in H2. apply I3 in H3. rewrite H1, H2, H3. exact Hg.
  - destruct (c2 y && c1 x && c3 z) eqn:Ec; cbn [ov]; [| exact Hg]. exfalso.
    apply andb_true_iff in Ec. destruct Ec as [Ec E3]. apply andb_true_iff in Ec. destruct Ec as [E2 E1].
    apply (Hn v). apply in_cells_entry. repeat split; [apply I1|apply I2|apply I3]; assumption.
Qed.

Lemma write_row_effect : forall d1 d2 d3 M d1v av vs (c1 c2 : nat -> bool),
  shape d1 d2 d3 M ->
  Forall (fun i => i < d1) d1v -> Forall (fun i => i < d2) av -> length vs = d3 ->
  (forall n, In n d1v <-> c1 n = true) -> (forall n, In n av <-> c2 n = true) ->
  exists M', write_cells M (cells_row d1v av vs) = Ok M' /\ shape d1 d2 d3 M' /\
             upd_by (fun x y z => if c2 y && c1 x then nth_error vs z else None) M M'.
Proof.
  intros d1 d2 d3 M d1v av vs c1 c2 HM F1 F2 Hl I1 I2.
  destruct (write_cells_total d1 d2 d3 (cells_row d1v av vs) M HM) as [M' [E HM']];
    [apply cells_row_in; assumption|].
  exists M'. split; [exact E|]. split; [exact HM'|]. intros x y z.
  destruct (write_cells_spec _ _ _ E x y z) as [[w [Hin Hg]]|[Hn Hg]].
  - apply in_cells_row in Hin. destruct Hin as (H1 & H2 & H3).
    apply I1 in H1. apply I2 in H2. rewrite H1, H2, H3. exact Hg.
  - destruct (c2 y && c1 x) eqn:Ec; cbn [ov]; [| exact Hg].
    destruct (nth_error vs z) as [w|] eqn:En; cbn [ov]; [| exact Hg]. exfalso.
    apply andb_true_iff in Ec. destruct Ec as [E2 E1].
    apply (Hn w). apply in_cells_row. repeat split; [apply I1|apply I2|]; assumption.
Qed.

(* ---------------------------------------------------------------- headers *)
Definition hdr_ok (H : hdr) : Prop :=
  NoDup (nmS H) /\ NoDup (nmA H) /\ NoDup (nmO H) /\
  length (nmS H) <= hS H /\ length (nmA H) <= hA H /\ length (nmO H) <= hO H.

Definition pre_matches (H : hdr) (p : pre) : Prop :=
  pS p = N.of_nat (hS H) /\ pA p = N.of_nat (hA H) /\ pO p = N.of_nat (hO H) /\ pD p = hD H /\
  mS p = ip (nmS H) /\ mA p = ip (nmA H) /\ mO p = ip (nmO H).

(* parseIndeces on a rendered, well-formed index: the covered indices, all below the bound *)
Lemma pidx : forall names size ix t, NoDup names -> length names <= size ->
  idx_wf names size ix -> idx_tok names ix t ->
  exists l, parseIndeces t (ip names) size = Ok l /\ Forall (fun i => i < size) l /\
            (forall n, In n l <-> cov names size ix n = true).
Proof.
  intros names size ix t Hnd Hlen Hwf Htok.
  destruct (parseIndeces_sem names size ix t Hnd Hwf Htok) as [l [E Hl]].
  exists l. split; [exact E|]. split; [| exact Hl].
  eapply good_Ok; [| exact E]. apply parseIndeces_good. apply map_ok_index_pairs. exact Hlen.
Qed.

(* ---------------------------------------------------------------- processMatrix on each statement form *)
Section Matrix.
  Variable H : hdr.
  Variable t : tbl.
  Hypothesis HOK : hdr_ok H.
  Let D3 := d3s H t.
  Let n3 := d3n H t.

  Lemma d3_names_ok : NoDup n3 /\ length n3 <= D3.
  Proof. unfold n3, D3. destruct HOK as (H1 & H2 & H3 & H4 & H5 & H6). destruct t; cbn; auto. Qed.

  Lemma pm_entry : forall M l rest a s e v t0 ta ts te tv more,
    shape (hS H) (hA H) D3 M ->
    l_colons l = 3 -> l_toks l = t0 :: ta :: ts :: te :: tv :: more ->
    idx_wf (nmA H) (hA H) a -> idx_wf (nmS H) (hS H) s -> idx_wf n3 D3 e ->
    idx_tok (nmA H) a ta -> idx_tok (nmS H) s ts -> idx_tok n3 e te -> val_tok v tv ->
    exists M', processMatrix true M (hS H) (hA H) D3 (ip (nmA H)) (ip (nmS H)) (ip n3) l rest = Ok (M', rest) /\
               shape (hS H) (hA H) D3 M' /\
               upd_by (fun x y z => if cov (nmA H) (hA H) a y && cov (nmS H) (hS H) s x && cov n3 D3 e z
                                    then Some v else None) M M'.
  Proof.
    intros M l rest a s e v t0 ta ts te tv more HM Hc Ht Wa Ws We Ka Ks Ke Kv.
    destruct HOK as (NS & NA & NO & LS & LA & LO). destruct d3_names_ok as [N3 L3].
    destruct (pidx _ _ _ _ NA LA Wa Ka) as [av [Ea [Fa Ia]]].
    destruct (pidx _ _ _ _ NS LS Ws Ks) as [sv [Es [Fs Is]]].
    destruct (pidx _ _ _ _ N3 L3 We Ke) as [ev [Ee [Fe Ie]]].
    destruct (write_entry_effect _ _ _ M sv av ev v _ _ _ HM Fs Fa Fe Is Ia Ie) as [M' [Ew [HM' Hu]]].
    exists M'. split; [| split; [exact HM'| exact Hu]].
    unfold processMatrix. rewrite Hc, Ht. cbn [at_ nth_error bind].
    rewrite Ea. cbn [bind]. rewrite Es. cbn [bind]. rewrite Ee. cbn [bind].
    unfold val_tok in Kv. rewrite Kv. cbn [bind]. rewrite Ew. reflexivity.
  Qed.

  Lemma pm_row_in : forall M l rest a s vs t0 ta ts tvs,
    shape (hS H) (hA H) D3 M ->
    l_colons l = 2 -> l_toks l = t0 :: ta :: ts :: tvs ->
    idx_wf (nmA H) (hA H) a -> idx_wf (nmS H) (hS H) s -> length vs = D3 -> 0 < D3 ->
    idx_tok (nmA H) a ta -> idx_tok (nmS H) s ts -> Forall2 val_tok vs tvs ->
    exists M', processMatrix true M (hS H) (hA H) D3 (ip (nmA H)) (ip (nmS H)) (ip n3) l rest = Ok (M', rest) /\
               shape (hS H) (hA H) D3 M' /\
               upd_by (fun x y z => if cov (nmA H) (hA H) a y && cov (nmS H) (hS H) s x
                                    then nth_error vs z else None) M M'.
  Proof.
    intros M l rest a s vs t0 ta ts tvs HM Hc Ht Wa Ws Hl Hpos Ka Ks Kv.
    destruct HOK as (NS & NA & NO & LS & LA & LO).
    destruct (pidx _ _ _ _ NA LA Wa Ka) as [av [Ea [Fa Ia]]].
    destruct (pidx _ _ _ _ NS LS Ws Ks) as [sv [Es [Fs Is]]].
    destruct (write_row_effect _ _ _ M sv av vs _ _ HM Fs Fa Hl Is Ia) as [M' [Ew [HM' Hu]]].
    exists M'. split; [| split; [exact HM'| exact Hu]].
    unfold processMatrix. rewrite Hc, Ht. cbn [at_ nth_error bind].
    rewrite Ea. cbn [bind]. rewrite Es. cbn [bind].
    pose proof (Forall2_len _ _ _ _ _ Kv) as Hlen.
    assert (E1 : Nat.eqb (length (t0 :: ta :: ts :: tvs)) (3 + D3) = true).
    { apply Nat.eqb_eq. cbn [length]. lia. }
    rewrite E1. cbn [skipn]. rewrite (parseVector_sem vs tvs D3 Kv Hl). cbn [bind]. rewrite Ew. reflexivity.
  Qed.

  Lemma pm_row_next : forall M l nl rest a s vs t0 ta ts,
    shape (hS H) (hA H) D3 M ->
    l_colons l = 2 -> l_toks l = [t0; ta; ts] ->
    idx_wf (nmA H) (hA H) a -> idx_wf (nmS H) (hS H) s -> length vs = D3 -> 0 < D3 ->
    idx_tok (nmA H) a ta -> idx_tok (nmS H) s ts -> vec_line vs nl ->
    exists M', processMatrix true M (hS H) (hA H) D3 (ip (nmA H)) (ip (nmS H)) (ip n3) l (nl :: rest) = Ok (M', rest) /\
               shape (hS H) (hA H) D3 M' /\
               upd_by (fun x y z => if cov (nmA H) (hA H) a y && cov (nmS H) (hS H) s x
                                    then nth_error vs z else None) M M'.
  Proof.
    intros M l nl rest a s vs t0 ta ts HM Hc Ht Wa Ws Hl Hpos Ka Ks [_ Kv].
    destruct HOK as (NS & NA & NO & LS & LA & LO).
    destruct (pidx _ _ _ _ NA LA Wa Ka) as [av [Ea [Fa Ia]]].
    destruct (pidx _ _ _ _ NS LS Ws Ks) as [sv [Es [Fs Is]]].
    destruct (write_row_effect _ _ _ M sv av vs _ _ HM Fs Fa Hl Is Ia) as [M' [Ew [HM' Hu]]].
    exists M'. split; [| split; [exact HM'| exact Hu]].
    unfold processMatrix. rewrite Hc, Ht. cbn [at_ nth_error bind].
    rewrite Ea. cbn [bind]. rewrite Es. cbn [bind].
    assert (E1 : Nat.eqb (length [t0; ta; ts]) (3 + D3) = false) by (apply Nat.eqb_neq; cbn [length]; lia).
    rewrite E1. cbn [length Nat.eqb].
    rewrite (parseVector_sem vs (l_stoks nl) D3 Kv Hl). cbn [bind]. rewrite Ew. reflexivity.
  Qed.

  (* the row loop of the matrix form *)
  Lemma read_rows_sem : forall av (c2 : nat -> bool) rest,
    Forall (fun i => i < hA H) av -> (forall n, In n av <-> c2 n = true) ->
    forall rows rls, Forall2 vec_line rows rls -> Forall (fun r => length r = D3) rows ->
    forall d1 M, d1 + length rows = hS H -> shape (hS H) (hA H) D3 M ->
    exists M', read_rows (length rows) d1 av D3 M (rls ++ rest) = Ok (M', rest) /\ shape (hS H) (hA H) D3 M' /\
               upd_by (fun x y z => if (d1 <=? x) && c2 y then nth_error (nth (x - d1) rows []) z else None) M M'.
  Proof.
    intros av c2 rest Fa Ia. induction 1 as [|r nl rows rls [_ Kr] _ IH]; intros HF d1 M Hd HM.
    - exists M. cbn [length read_rows app]. split; [reflexivity|]. split; [exact HM|].
      intros x y z. destruct ((d1 <=? x) && c2 y); [| reflexivity].
      destruct (x - d1); cbn [nth]; destruct z; reflexivity.
    - inversion HF as [|? ? Hr HF']; subst. cbn [length] in Hd.
      cbn [length read_rows app]. rewrite (parseVector_sem r (l_stoks nl) D3 Kr Hr). cbn [bind].
      destruct (write_row_effect (hS H) (hA H) D3 M [d1] av r (fun n => Nat.eqb n d1) c2 HM) as [M1 [Ew [HM1 Hu1]]];
        [constructor; [lia| constructor]| exact Fa| exact Hr| | exact Ia|].
      { intros n. cbn [In]. rewrite Nat.eqb_eq. intuition. }
      rewrite Ew. cbn [bind].
      destruct (IH HF' (S d1) M1) as [M' [Er [HM' Hu]]]; [lia| exact HM1|].
      exists M'. split; [exact Er|]. split; [exact HM'|].
      intros x y z. rewrite (Hu x y z), (Hu1 x y z).
      destruct (c2 y) eqn:Ey; cbn [andb]; rewrite ?andb_false_r; cbn [ov]; [| reflexivity].
      rewrite !andb_true_r.
      destruct (Nat.eqb x d1) eqn:Ex.
      + apply Nat.eqb_eq in Ex. subst x.
        assert ((S d1 <=? d1) = false) as -> by (apply Nat.leb_gt; lia).
        rewrite Nat.leb_refl, Nat.sub_diag. cbn [nth ov]. reflexivity.
      + apply Nat.eqb_neq in Ex. cbn [ov]. destruct (d1 <=? x) eqn:El.
        * apply Nat.leb_le in El. assert ((S d1 <=? x) = true) as -> by (apply Nat.leb_le; lia).
          replace (x - d1) with (S (x - S d1)) by lia. cbn [nth]. reflexivity.
        * apply Nat.leb_gt in El. assert ((S d1 <=? x) = false) as -> by (apply Nat.leb_gt; lia). reflexivity.
  Qed.

  Lemma pm_mat : forall M l rls rest a rows t0 ta more,
    shape (hS H) (hA H) D3 M ->
    l_colons l = 1 -> l_toks l = t0 :: ta :: more ->
    idx_wf (nmA H) (hA H) a -> length rows = hS H -> Forall (fun r => length r = D3) rows ->
    idx_tok (nmA H) a ta -> Forall2 vec_line rows rls ->
    exists M', processMatrix true M (hS H) (hA H) D3 (ip (nmA H)) (ip (nmS H)) (ip n3) l (rls ++ rest) = Ok (M', rest) /\
               shape (hS H) (hA H) D3 M' /\
               upd_by (fun x y z => if cov (nmA H) (hA H) a y then nth_error (nth x rows []) z else None) M M'.
  Proof.
    intros M l rls rest a rows t0 ta more HM Hc Ht Wa Hl HF Ka Kr.
    destruct HOK as (NS & NA & NO & LS & LA & LO).
    destruct (pidx _ _ _ _ NA LA Wa Ka) as [av [Ea [Fa Ia]]].
    destruct (read_rows_sem av _ rest Fa Ia rows rls Kr HF 0 M) as [M' [Er [HM' Hu]]]; [lia| exact HM|].
    exists M'. split; [| split; [exact HM'|]].
    - unfold processMatrix. rewrite Hc, Ht. cbn [at_ nth_error bind]. rewrite Ea. cbn [bind].
      rewrite <- Hl. exact Er.
    - intros x y z. rewrite (Hu x y z). cbn [Nat.leb andb]. rewrite Nat.sub_0_r. reflexivity.
  Qed.
End Matrix.

Lemma pr_rew : forall H R l a s e v t0 ta ts te tobs tv more, hdr_ok H ->
  shape (hS H) (hA H) (hS H) R ->
  l_colons l = 4 -> l_toks l = t0 :: ta :: ts :: te :: tobs :: tv :: more ->
  idx_wf (nmA H) (hA H) a -> idx_wf (nmS H) (hS H) s -> idx_wf (nmS H) (hS H) e ->
  idx_tok (nmA H) a ta -> idx_tok (nmS H) s ts -> idx_tok (nmS H) e te -> val_tok v tv ->
  exists R', processReward R (hS H) (hA H) (ip (nmA H)) (ip (nmS H)) l = Ok R' /\
             shape (hS H) (hA H) (hS H) R' /\
             upd_by (fun x y z => if cov (nmA H) (hA H) a y && cov (nmS H) (hS H) s x && cov (nmS H) (hS H) e z
                                  then Some v else None) R R'.
Proof.
  intros H R l a s e v t0 ta ts te tobs tv more (NS & NA & NO & LS & LA & LO) HR Hc Ht Wa Ws We Ka Ks Ke Kv.
  destruct (pidx _ _ _ _ NA LA Wa Ka) as [av [Ea [Fa Ia]]].
  destruct (pidx _ _ _ _ NS LS Ws Ks) as [sv [Es [Fs Is]]].
  destruct (pidx _ _ _ _ NS LS We Ke) as [ev [Ee [Fe Ie]]].
  destruct (write_entry_effect _ _ _ R sv av ev v _ _ _ HR Fs Fa Fe Is Ia Ie) as [R' [Ew [HR' Hu]]].
  exists R'. split; [| split; [exact HR'| exact Hu]].
  unfold processReward. rewrite Hc, Ht. cbn [at_ nth_error bind].
  rewrite Ea. cbn [bind]. rewrite Es. cbn [bind]. rewrite Ee. cbn [bind].
  unfold val_tok in Kv. rewrite Kv. cbn [bind]. exact Ew.
Qed.
