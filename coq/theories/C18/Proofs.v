(* C18/Proofs.v — basic facts about the parser model: result algebra, rejection lemmas. *)
From Coq Require Import String.
From Coq Require Import List Arith Ascii NArith ZArith QArith Bool Lia.
From AIT Require Import C18.Model C18.Spec.
Import ListNotations.
Local Close Scope Q_scope.
Local Close Scope string_scope.

(* ---------------------------------------------------------------- the result monad *)
Lemma bind_Ok : forall A B (r : res A) (f : A -> res B) b,
  bind r f = Ok b -> exists a, r = Ok a /\ f a = Ok b.
Proof. intros A B [a|e| | |] f b H; cbn in H; try discriminate. exists a; auto. Qed.

Lemma bind_UB : forall A B (r : res A) (f : A -> res B),
  bind r f = UB -> r = UB \/ exists a, r = Ok a /\ f a = UB.
Proof. intros A B [a|e| | |] f H; cbn in H; try discriminate; [right; exists a; auto | left; auto]. Qed.

Lemma bind_NoFuel : forall A B (r : res A) (f : A -> res B),
  bind r f = NoFuel -> r = NoFuel \/ exists a, r = Ok a /\ f a = NoFuel.
Proof. intros A B [a|e| | |] f H; cbn in H; try discriminate; [right; exists a; auto | left; auto]. Qed.

(* stoul never yields UB / Unsup / NoFuel *)
Lemma stoul_cases : forall t, (exists n, stoul t = Ok n) \/ stoul t = Throw E_stoul.
Proof.
  intros t. unfold stoul. destruct (take_sign (drop_space t)) as [neg s1].
  destruct (take_digits s1 0%N 0) as [[v cnt] r]. destruct cnt; [right; reflexivity|].
  destruct (two64 <=? v)%N; [right; reflexivity| left; eexists; reflexivity].
Qed.

Lemma at_cases : forall l i, (exists x, at_ l i = Ok x) \/ at_ l i = Throw E_at.
Proof. intros l i; unfold at_; destruct (nth_error l i); [left; eexists; reflexivity| right; reflexivity]. Qed.

Lemma parseIndeces_cases : forall t m max,
  (exists l, parseIndeces t m max = Ok l) \/ (exists e, parseIndeces t m max = Throw e).
Proof.
  intros t m max. unfold parseIndeces. destruct (str_eqb t star); [left; eexists; reflexivity|].
  destruct (lookup m t); [left; eexists; reflexivity|].
  destruct (stoul_cases t) as [[n ->]| ->]; cbn [bind]; [| right; eexists; reflexivity].
  destruct (N.of_nat max <=? n)%N; [right|left]; eexists; reflexivity.
Qed.

(* ---------------------------------------------------------------- wrong-length rows *)
(* repaired code: a two-colon line whose token count is neither 3 (vector on the next line) nor
   3 + D3 (vector on the same line) is rejected, whatever else it contains *)
Lemma wrong_length_row_rejected_lemma : forall M D1 D2 D3 ma d1m d3m l rest,
  l_colons l = 2 -> length (l_toks l) <> 3 + D3 -> length (l_toks l) <> 3 ->
  exists e, processMatrix true M D1 D2 D3 ma d1m d3m l rest = Throw e.
Proof.
  intros M D1 D2 D3 ma d1m d3m l rest Hc H1 H2. unfold processMatrix. rewrite Hc.
  destruct (at_cases (l_toks l) 1) as [[t1 ->]| ->]; cbn [bind]; [| eexists; reflexivity].
  destruct (parseIndeces_cases t1 ma D2) as [[av ->]|[e ->]]; cbn [bind]; [| eexists; reflexivity].
  destruct (at_cases (l_toks l) 2) as [[t2 ->]| ->]; cbn [bind]; [| eexists; reflexivity].
  destruct (parseIndeces_cases t2 d1m D1) as [[d1v ->]|[e ->]]; cbn [bind]; [| eexists; reflexivity].
  apply Nat.eqb_neq in H1. apply Nat.eqb_neq in H2. rewrite H1, H2. eexists; reflexivity.
Qed.

(* today's code: the same line is silently skipped when its indices are fine *)
Lemma wrong_length_row_today_lemma : forall M D1 D2 D3 ma d1m d3m l rest t1 t2 av d1v,
  l_colons l = 2 -> length (l_toks l) <> 3 + D3 -> length (l_toks l) <> 3 ->
  at_ (l_toks l) 1 = Ok t1 -> parseIndeces t1 ma D2 = Ok av ->
  at_ (l_toks l) 2 = Ok t2 -> parseIndeces t2 d1m D1 = Ok d1v ->
  processMatrix false M D1 D2 D3 ma d1m d3m l rest = Ok (M, rest).
Proof.
  intros M D1 D2 D3 ma d1m d3m l rest t1 t2 av d1v Hc H1 H2 A1 P1 A2 P2. unfold processMatrix.
  rewrite Hc, A1. cbn [bind]. rewrite P1. cbn [bind]. rewrite A2. cbn [bind]. rewrite P2. cbn [bind].
  apply Nat.eqb_neq in H1. apply Nat.eqb_neq in H2. rewrite H1, H2. reflexivity.
Qed.

(* ---------------------------------------------------------------- missing sizes *)
Lemma missing_sizes_rejected_lemma : forall fixed pomdp ls p body,
  parseModelInfo ls pre0 = Ok (p, body) ->
  (pS p = 0%N \/ pA p = 0%N \/ (pomdp = true /\ pO p = 0%N)) ->
  parse_lines fixed pomdp ls = Throw E_incomplete.
Proof.
  intros fixed pomdp ls p body Hp H. unfold parse_lines, parse_lines_from. rewrite Hp. cbn [bind fst snd].
  destruct H as [H|[H|[H1 H2]]].
  - rewrite H. reflexivity.
  - rewrite H. cbn [N.eqb]. rewrite orb_true_r. reflexivity.
  - rewrite H1, H2. cbn [N.eqb andb]. rewrite !orb_true_r. reflexivity.
Qed.

(* ---------------------------------------------------------------- refutation witnesses (today's code) *)
Definition txt (ls : list String.string) : str :=
  flat_map (fun l => String.list_ascii_of_string l ++ ["010"%char]) ls.

(* "T: 0 : 0 0.5 0.5 0.5" with two states: today's code accepts the file and ignores the line;
   the repaired code rejects it *)
Lemma wrong_length_row_refuted_lemma :
  exists text m, parse_text false false text = Ok m /\ mT m = new_tab 2 1 2 /\
                 parse_text true false text = Throw E_row_args.
Proof.
  exists (txt ["states: 2"; "actions: 1"; "T: 0 : 0 0.5 0.5 0.5"]%string).
  eexists. split; [vm_compute; reflexivity|]. split; vm_compute; reflexivity.
Qed.

(* "states: 4294967296": S*A*S = 2^64 wraps to 0 elements; today's code then writes out of bounds *)
Lemma size_overflow_refuted_lemma :
  exists text, parse_text false false text = UB /\ parse_text true false text = Throw E_too_large.
Proof.
  exists (txt ["states: 4294967296"; "actions: 1"; "T: 0 : 0 : 0 1"]%string).
  split; vm_compute; reflexivity.
Qed.
