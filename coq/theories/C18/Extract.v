From Coq Require Extraction.
From Coq Require Import ExtrOcamlBasic.
From AIT Require Import Base.Vio C18.Model C18.Spec.
Extraction "model.ml" vio_kit parse_text parse_lines lex_text parse_sizes size_class denote wfb rendersb hdr_of parse_text_st state_after load_model.
