(* C18/ProofsWhole.v — incomplete_rejected as one whole-file statement: a text with a missing size
   declaration, an unknown name / out-of-range index / wrong element count / wrong number of colons
   after well-formed statements, or invalid probabilities / discount, is rejected with an exception
   by the loader (parser + Model constructor). *)
From Coq Require Import List Arith Ascii NArith ZArith QArith Bool Lia Lqa.
From AIT Require Import C18.Model C18.Spec C18.Proofs C18.ProofsSafe C18.ProofsSem C18.ProofsPrint C18.ProofsPrint2 C18.ProofsReject.
Import ListNotations.
Local Close Scope Q_scope.

(* ================================================================ isProbability = row_dist *)
Lemma prob_loop_nonfin : forall r acc, (acc = VInf false \/ acc = VNaN) -> forall q, prob_loop acc r <> Some (VQ q).
Proof.
  induction r as [|v r IH]; intros acc Ha q; cbn [prob_loop].
  - destruct Ha as [-> | ->]; discriminate.
  - destruct (vlt0 v) eqn:E; [discriminate|]. apply IH.
    destruct Ha as [-> | ->]; destruct v as [x|[|]|]; cbn in *; try discriminate; auto.
Qed.

Lemma prob_loop_fin : forall qs p, Forall (fun q => (0 <= q)%Q) qs ->
  exists p', prob_loop (VQ p) (map VQ qs) = Some (VQ p') /\ (p' == p + qsum qs)%Q.
Proof.
  induction qs as [|q qs IH]; intros p H; cbn [map prob_loop qsum].
  - exists p. split; [reflexivity| lra].
  - inversion H as [|? ? Hq H']; subst. cbn [vlt0]. apply Qle_bool_iff in Hq. rewrite Hq. cbn [negb vadd].
    destruct (IH (p + q)%Q H') as [p' [E Hp]]. exists p'. split; [exact E| lra].
Qed.

Lemma prob_loop_inv : forall r p p', prob_loop (VQ p) r = Some (VQ p') ->
  exists qs, r = map VQ qs /\ Forall (fun q => (0 <= q)%Q) qs /\ (p' == p + qsum qs)%Q.
Proof.
  induction r as [|v r IH]; intros p p' H; cbn [prob_loop] in H.
  - inversion H; subst. exists []. split; [reflexivity|]. split; [constructor| cbn; lra].
  - destruct (vlt0 v) eqn:E; [discriminate|]. destruct v as [x|neg|].
    + cbn [vadd] in H. destruct (IH _ _ H) as [qs [-> [HF Hp]]]. exists (x :: qs). split; [reflexivity|].
      cbn [vlt0] in E. apply negb_false_iff in E. apply Qle_bool_iff in E.
      split; [constructor; assumption| cbn [qsum]; lra].
    + cbn [vlt0] in E. subst neg. cbn [vadd] in H. exfalso. eapply prob_loop_nonfin; [left; reflexivity| exact H].
    + cbn [vadd] in H. exfalso. eapply prob_loop_nonfin; [right; reflexivity| exact H].
Qed.

Lemma isProbability1_iff : forall r, isProbability1 r = true <-> row_dist r.
Proof.
  intros r. unfold isProbability1, row_dist. split.
  - destruct (prob_loop (VQ 0%Q) r) as [[p'|?|]|] eqn:E; try discriminate. intros H.
    destruct (prob_loop_inv r _ _ E) as [qs [-> [HF Hp]]]. exists qs. split; [reflexivity|]. split; [exact HF|].
    cbn [eq_small_1] in H. apply andb_true_iff in H. destruct H as [H1 H2]. apply Qle_bool_iff in H1, H2. split; lra.
  - intros [qs [-> [HF [H1 H2]]]]. destruct (prob_loop_fin qs 0%Q HF) as [p' [E Hp]]. rewrite E. cbn [eq_small_1].
    apply andb_true_iff. split; apply Qle_bool_iff; lra.
Qed.

Lemma forallb_Forall_iff : forall A (f : A -> bool) (P : A -> Prop) l,
  (forall x, f x = true <-> P x) -> (forallb f l = true <-> Forall P l).
Proof.
  intros A f P l H. induction l as [|x l IH]; cbn [forallb]; [split; [constructor| reflexivity]|].
  rewrite andb_true_iff, IH, H. split; [intros [? ?]; constructor; assumption| intros HF; inversion HF; auto].
Qed.

Lemma isProbability3_iff : forall t, isProbability3 t = true <-> tab_dist t.
Proof.
  intros t. unfold isProbability3, tab_dist. apply forallb_Forall_iff. intros P.
  apply forallb_Forall_iff. apply isProbability1_iff.
Qed.

Lemma discount_ok_iff : forall d, discount_ok d = true <-> disc_valid d.
Proof.
  intros d. unfold discount_ok, disc_valid. split.
  - destruct d as [q| |]; try discriminate. intros H. apply andb_true_iff in H. destruct H as [H1 H2].
    apply negb_true_iff in H1. apply Qle_bool_iff in H2. exists q. split; [reflexivity|]. split; [| exact H2].
    destruct (Qlt_le_dec 0 q) as [L|L]; [exact L|]. apply Qle_bool_iff in L. rewrite L in H1. discriminate.
  - intros [q [-> [H1 H2]]]. apply andb_true_iff. split; [| apply Qle_bool_iff; exact H2].
    apply negb_true_iff. destruct (Qle_bool q 0) eqn:E; [| reflexivity]. apply Qle_bool_iff in E. lra.
Qed.

(* the constructors accept exactly the valid models *)
Lemma validate_ok : forall pomdp m, model_ok pomdp m -> validate pomdp m = Ok m.
Proof.
  intros pomdp m (HD & HT & HW). unfold validate.
  apply discount_ok_iff in HD. rewrite HD. cbn [negb]. apply isProbability3_iff in HT. rewrite HT. cbn [negb].
  destruct pomdp; [| reflexivity]. specialize (HW eq_refl). apply isProbability3_iff in HW. rewrite HW. reflexivity.
Qed.

Lemma validate_bad : forall pomdp m, ~ model_ok pomdp m -> exists e, validate pomdp m = Throw e.
Proof.
  intros pomdp m Hn. unfold validate.
  destruct (discount_ok (mDisc m)) eqn:ED; cbn [negb]; [| eexists; reflexivity].
  destruct (isProbability3 (mT m)) eqn:ET; cbn [negb]; [| eexists; reflexivity].
  destruct pomdp; cbn [andb].
  - destruct (isProbability3 (mW m)) eqn:EW; cbn [negb]; [| eexists; reflexivity].
    exfalso. apply Hn. split; [apply discount_ok_iff; exact ED|]. split; [apply isProbability3_iff; exact ET|].
    intros _. apply isProbability3_iff; exact EW.
  - exfalso. apply Hn. split; [apply discount_ok_iff; exact ED|]. split; [apply isProbability3_iff; exact ET|].
    intros Hf; discriminate.
Qed.

(* ================================================================ (A) a size is missing *)
Lemma missing_declaration_lemma : forall pomdp prog lss,
  Forall2 (renders_stmt (hdr_of prog)) prog lss ->
  (hS (hdr_of prog) = 0 \/ hA (hdr_of prog) = 0 \/ (pomdp = true /\ hO (hdr_of prog) = 0)) ->
  parse_lines true pomdp (concat lss) = Throw E_incomplete.
Proof.
  intros pomdp prog lss HF Hz.
  apply (missing_sizes_rejected_lemma true pomdp (concat lss) (pre_after pre0 prog) (body_of prog lss)).
  - apply (phase1 (hdr_of prog)). exact HF.
  - destruct (pre_matches_hdr prog) as (PS & PA & PO & _).
    destruct Hz as [Hz|[Hz|[Hp Hz]]]; [left; rewrite PS, Hz| right; left; rewrite PA, Hz| right; right; split; [exact Hp| rewrite PO, Hz]]; reflexivity.
Qed.

(* ================================================================ (B) a malformed statement *)
Lemma pre_after_app : forall a b p, pre_after p (a ++ b) = pre_after (pre_after p a) b.
Proof. induction a as [|st a IH]; intros b p; [reflexivity|]. cbn [app pre_after]. apply IH. Qed.

Lemma phase1_gen : forall H prog lss, Forall2 (renders_stmt H) prog lss ->
  forall p tail p' b', parseModelInfo tail (pre_after p prog) = Ok (p', b') ->
  parseModelInfo (concat lss ++ tail) p = Ok (p', body_of prog lss ++ b').
Proof.
  intros H prog lss HF. induction HF as [|st ls prog lss Hr _ IH]; intros p tail p' b' Ht; [exact Ht|].
  cbn [concat pre_after body_of] in *. rewrite <- app_assoc. destruct (is_pre st) eqn:Ep.
  - destruct st; cbn in Ep; try discriminate; cbn [renders_stmt] in Hr.
    + destruct Hr as (l & -> & Hd). cbn [app parseModelInfo]. unfold pre_step. destruct Hd as (Hk & Hd').
      rewrite Hk. rewrite (extractIDs_decl KStates d l (conj Hk Hd')). cbn [bind fst snd]. erewrite IH; [reflexivity| exact Ht].
    + destruct Hr as (l & -> & Hd). cbn [app parseModelInfo]. unfold pre_step. destruct Hd as (Hk & Hd').
      rewrite Hk. rewrite (extractIDs_decl KActions d l (conj Hk Hd')). cbn [bind fst snd]. erewrite IH; [reflexivity| exact Ht].
    + destruct Hr as (l & -> & Hd). cbn [app parseModelInfo]. unfold pre_step. destruct Hd as (Hk & Hd').
      rewrite Hk. rewrite (extractIDs_decl KObs d l (conj Hk Hd')). cbn [bind fst snd]. erewrite IH; [reflexivity| exact Ht].
    + destruct Hr as (l & t & -> & Hk & Hs & Hv). cbn [app parseModelInfo]. unfold pre_step.
      rewrite Hk, Hs. unfold val_tok in Hv. rewrite Hv. cbn [bind fst snd]. erewrite IH; [reflexivity| exact Ht].
    + destruct Hr as (l & -> & Hk). cbn [app parseModelInfo]. unfold pre_step. rewrite Hk. cbn [bind fst snd].
      erewrite IH; [reflexivity| exact Ht].
  - rewrite (parseModelInfo_app ls _ p (lines_nonpre H st ls Ep Hr)).
    assert (Ep' : pre_upd p st = p) by (destruct st; cbn in Ep; try discriminate; reflexivity).
    rewrite Ep' in Ht. rewrite (IH _ _ _ _ Ht). cbn [bind fst snd]. rewrite app_assoc. reflexivity.
Qed.

(* the loop walks through well-formed statements, keeping the tables in shape *)
Lemma prefix_steps : forall pomdp H p, hdr_ok H -> pre_matches H p -> 0 < hS H -> (pomdp = true -> 0 < hO H) ->
  forall prog lss, Forall2 (renders_stmt H) prog lss -> Forall (stmt_wf pomdp H) prog ->
  forall rest fuel t, shapes pomdp H t -> length (body_of prog lss ++ rest) <= fuel ->
  exists t1 fuel', loop pomdp H p fuel (body_of prog lss ++ rest) t = loop pomdp H p fuel' rest t1 /\
                   length rest <= fuel' /\ shapes pomdp H t1.
Proof.
  intros pomdp H p HOK HP PS PO prog lss HF. induction HF as [|st ls prog lss Hr _ IH]; intros Hwf rest fuel t Hs Hlen.
  - exists t, fuel. split; [reflexivity| split; assumption].
  - inversion Hwf as [|? ? Hw Hwf']; subst. cbn [body_of] in *. destruct (is_pre st) eqn:Ep.
    + apply IH; assumption.
    + rewrite <- app_assoc in *.
      destruct (stmt_step pomdp H p HOK HP PS PO st ls Ep Hr Hw t (body_of prog lss ++ rest) fuel Hs Hlen)
        as [t1 [f1 [E1 [Hf1 [Hs1 _]]]]].
      destruct (IH Hwf' rest f1 t1 Hs1 Hf1) as [t2 [f2 [E2 [Hf2 Hs2]]]].
      exists t2, f2. split; [rewrite E1; exact E2| split; assumption].
Qed.

Lemma lookup_In : forall names s t i, lookup (index_pairs names s) t = Some i -> In t names.
Proof.
  induction names as [|x names IH]; intros s t i H; cbn [index_pairs lookup] in H; [discriminate|].
  destruct (lookup (index_pairs names (S s)) t) eqn:E; [right; eapply IH; exact E|].
  destruct (str_eqb x t) eqn:Ex; [| discriminate]. apply str_eqb_eq in Ex. left; exact Ex.
Qed.

Lemma bad_tok_throws : forall names size t, bad_tok names size t -> exists e, parseIndeces t (ip names) size = Throw e.
Proof.
  intros names size t (Hs & Hn & Hb). apply bad_index_rejected_lemma.
  - apply str_eqb_neq; exact Hs.
  - unfold ip. destruct (lookup (index_pairs names 0) t) eqn:E; [| reflexivity]. exfalso. apply Hn. eapply lookup_In; exact E.
  - exact Hb.
Qed.

Ltac pi_cases t m max := destruct (parseIndeces_cases t m max) as [[?l ->]|[?e ->]]; cbn [bind]; [| eexists; reflexivity].
Ltac at_cases' l i := destruct (at_cases l i) as [[?x ?E]| ->]; cbn [bind]; [| eexists; reflexivity].

(* a T/O line with a bad token at slot k is rejected by processMatrix *)
Lemma pm_bad_index : forall H t M l rest k tok,
  1 <= k -> k <= l_colons l -> l_colons l <= 3 ->
  nth_error (l_toks l) k = Some tok -> bad_tok (slot_names H t k) (slot_size H t k) tok ->
  exists e, processMatrix true M (hS H) (hA H) (d3s H t) (ip (nmA H)) (ip (nmS H)) (ip (d3n H t)) l rest = Throw e.
Proof.
  intros H t M l rest k tok K1 K2 K3 Hn Hb. destruct (bad_tok_throws _ _ _ Hb) as [eb Eb].
  unfold processMatrix. destruct (l_colons l) as [|[|[|[|c]]]]; try lia.
  - (* one colon: k = 1 *)
    assert (k = 1) by lia. subst k. cbn [slot_names slot_size] in Eb. unfold at_. rewrite Hn. cbn [bind]. rewrite Eb. eexists; reflexivity.
  - (* two colons *)
    destruct k as [|[|[|k]]]; try lia; cbn [slot_names slot_size] in Eb.
    + unfold at_ at 1. rewrite Hn. cbn [bind]. rewrite Eb. eexists; reflexivity.
    + at_cases' (l_toks l) 1. rewrite E. cbn [bind]. pi_cases x (ip (nmA H)) (hA H).
      unfold at_ at 1. rewrite Hn. cbn [bind]. rewrite Eb. eexists; reflexivity.
  - (* three colons *)
    destruct k as [|[|[|[|k]]]]; try lia; cbn [slot_names slot_size] in Eb.
    + unfold at_ at 1. rewrite Hn. cbn [bind]. rewrite Eb. eexists; reflexivity.
    + at_cases' (l_toks l) 1. rewrite E. cbn [bind]. pi_cases x (ip (nmA H)) (hA H).
      unfold at_ at 1. rewrite Hn. cbn [bind]. rewrite Eb. eexists; reflexivity.
    + at_cases' (l_toks l) 1. rewrite E. cbn [bind]. pi_cases x (ip (nmA H)) (hA H).
      at_cases' (l_toks l) 2. rewrite E0. cbn [bind]. pi_cases x0 (ip (nmS H)) (hS H).
      unfold at_ at 1. rewrite Hn. cbn [bind]. rewrite Eb. eexists; reflexivity.
Qed.

Lemma pr_bad_index : forall H R l k tok,
  l_colons l = 4 -> 1 <= k -> k <= 3 ->
  nth_error (l_toks l) k = Some tok -> bad_tok (slot_names H TT k) (slot_size H TT k) tok ->
  exists e, processReward R (hS H) (hA H) (ip (nmA H)) (ip (nmS H)) l = Throw e.
Proof.
  intros H R l k tok Hc K1 K2 Hn Hb. destruct (bad_tok_throws _ _ _ Hb) as [eb Eb].
  unfold processReward. rewrite Hc. destruct k as [|[|[|[|k]]]]; try lia; cbn [slot_names slot_size d3n d3s] in Eb.
  - unfold at_ at 1. rewrite Hn. cbn [bind]. rewrite Eb. eexists; reflexivity.
  - at_cases' (l_toks l) 1. rewrite E. cbn [bind]. pi_cases x (ip (nmA H)) (hA H).
    unfold at_ at 1. rewrite Hn. cbn [bind]. rewrite Eb. eexists; reflexivity.
  - at_cases' (l_toks l) 1. rewrite E. cbn [bind]. pi_cases x (ip (nmA H)) (hA H).
    at_cases' (l_toks l) 2. rewrite E0. cbn [bind]. pi_cases x0 (ip (nmS H)) (hS H).
    unfold at_ at 1. rewrite Hn. cbn [bind]. rewrite Eb. eexists; reflexivity.
Qed.

Lemma live_d3_pos : forall pomdp H t, 0 < hS H -> (pomdp = true -> 0 < hO H) -> live pomdp t = true -> 0 < d3s H t.
Proof. intros pomdp H [|] PS PO Hl; cbn in *; auto. Qed.

(* every defect makes the statement reader throw *)
Lemma pm_defect : forall pomdp H bad, 0 < hS H -> (pomdp = true -> 0 < hO H) -> defect pomdp H bad ->
  match bad with
  | [] => False
  | l :: rest =>
      (exists t, l_kind l = kind_of_tbl t /\ live pomdp t = true /\
                 forall M more, exists e, processMatrix true M (hS H) (hA H) (d3s H t) (ip (nmA H)) (ip (nmS H)) (ip (d3n H t)) l (rest ++ more) = Throw e)
      \/ (l_kind l = KR /\ forall R, exists e, processReward R (hS H) (hA H) (ip (nmA H)) (ip (nmS H)) l = Throw e)
  end.
Proof.
  intros pomdp H bad PS PO Hd. destruct Hd as [l t k tok more Hk Hl K1 K2 K3 Hn Hb | l k tok more Hk Hc K1 K2 Hn Hb
                                             | l t more Hk Hl Hc L1 L2 | l t nl more Hk Hl Hc L1 L2
                                             | l t nl more Hk Hl Hc L2 | l t more Hk Hl Hc | l more Hk Hc].
  - left. exists t. split; [assumption|]. split; [assumption|]. intros M more'. eapply pm_bad_index; eassumption.
  - right. split; [assumption|]. intros R. eapply pr_bad_index; eassumption.
  - left. exists t. split; [assumption|]. split; [assumption|]. intros M more'.
    apply wrong_length_row_rejected_lemma; assumption.
  - left. exists t. split; [assumption|]. split; [assumption|]. intros M more'.
    pose proof (live_d3_pos pomdp H t PS PO Hl) as D3pos.
    unfold processMatrix. rewrite Hc.
    at_cases' (l_toks l) 1. rewrite E. cbn [bind]. pi_cases x (ip (nmA H)) (hA H).
    at_cases' (l_toks l) 2. rewrite E0. cbn [bind]. pi_cases x0 (ip (nmS H)) (hS H).
    rewrite L1. assert (E3 : Nat.eqb 3 (3 + d3s H t) = false) by (apply Nat.eqb_neq; lia).
    rewrite E3. cbn [Nat.eqb app]. unfold parseVector. apply Nat.eqb_neq in L2. rewrite L2. eexists; reflexivity.
  - left. exists t. split; [assumption|]. split; [assumption|]. intros M more'.
    unfold processMatrix. rewrite Hc.
    at_cases' (l_toks l) 1. rewrite E. cbn [bind]. pi_cases x (ip (nmA H)) (hA H).
    destruct (hS H) as [|n]; [lia|]. cbn [read_rows app]. unfold parseVector. apply Nat.eqb_neq in L2. rewrite L2.
    eexists; reflexivity.
  - left. exists t. split; [assumption|]. split; [assumption|]. intros M more'.
    rewrite wrong_colons_rejected_lemma by assumption. eexists; reflexivity.
  - right. split; [assumption|]. intros R. rewrite reward_colons_rejected_lemma by assumption. eexists; reflexivity.
Qed.

Lemma defect_step : forall pomdp H p, pre_matches H p -> 0 < hS H -> (pomdp = true -> 0 < hO H) ->
  forall bad rest fuel t, defect pomdp H bad ->
  exists e, loop pomdp H p (S fuel) (bad ++ rest) t = Throw e.
Proof.
  intros pomdp H p (PS' & PA' & PO' & PD' & MS & MA & MO) PS PO bad rest fuel t Hd.
  pose proof (pm_defect pomdp H bad PS PO Hd) as Hp. destruct bad as [|l bad']; [contradiction|].
  unfold loop. cbn [app main_loop]. destruct Hp as [[tb [Hk [Hl Hpm]]]|[Hk Hpr]].
  - rewrite Hk. destruct tb; cbn [kind_of_tbl live d3s d3n] in *.
    + rewrite MA, MS. destruct (Hpm (tT t) rest) as [e ->]. eexists; reflexivity.
    + rewrite (if_true_eq _ pomdp _ _ Hl). rewrite (if_true_eq _ pomdp _ _ Hl). rewrite MA, MS, MO.
      destruct (Hpm (tW t) rest) as [e ->]. eexists; reflexivity.
  - rewrite Hk. rewrite MA, MS. destruct (Hpr (tR t)) as [e ->]. eexists; reflexivity.
Qed.

Lemma wf_header : forall pomdp prog, wf pomdp prog ->
  0 < hS (hdr_of prog) /\ 0 < hA (hdr_of prog) /\ (pomdp = true -> 0 < hO (hdr_of prog)).
Proof. intros pomdp prog (A & B & C & _). auto. Qed.

Lemma defect_rejected_lemma : forall pomdp pre_prog post_prog lss_pre lss_post bad,
  let H := hdr_of (pre_prog ++ post_prog) in
  wf pomdp (pre_prog ++ post_prog) ->
  Forall2 (renders_stmt H) pre_prog lss_pre -> Forall2 (renders_stmt H) post_prog lss_post ->
  defect pomdp H bad -> Forall nonpre bad ->
  exists e, parse_lines true pomdp (concat lss_pre ++ bad ++ concat lss_post) = Throw e.
Proof.
  intros pomdp pre_prog post_prog lss_pre lss_post bad H Hwf HF1 HF2 Hd Hnp.
  pose proof (hdr_ok_of pomdp _ Hwf) as HOK. fold H in HOK.
  pose proof (pre_matches_hdr (pre_prog ++ post_prog)) as HP. fold H in HP.
  destruct Hwf as (PosS & PosA & PosO & FitS & FitO & _ & _ & _ & Hst). fold H in PosS, PosA, PosO, FitS, FitO, Hst.
  apply Forall_app in Hst. destruct Hst as [Hst1 _].
  set (pfin := pre_after pre0 (pre_prog ++ post_prog)) in *.
  assert (E1 : parseModelInfo (concat lss_pre ++ bad ++ concat lss_post) pre0 =
               Ok (pfin, body_of pre_prog lss_pre ++ bad ++ body_of post_prog lss_post)).
  { apply (phase1_gen H pre_prog lss_pre HF1). rewrite (parseModelInfo_app bad _ _ Hnp).
    rewrite (phase1 H post_prog lss_post HF2). cbn [bind fst snd]. unfold pfin. rewrite pre_after_app. reflexivity. }
  unfold parse_lines, parse_lines_from. rewrite E1. cbn [bind fst snd].
  destruct HP as (PS & PA & PO & PD & MS & MA & MO). rewrite PS, PA, PO.
  assert (C1 : ((N.of_nat (hS H) =? 0)%N || (N.of_nat (hA H) =? 0)%N || (pomdp && (N.of_nat (hO H) =? 0)%N)) = false).
  { rewrite (N_of_nat_pos _ PosS), (N_of_nat_pos _ PosA). cbn [orb].
    destruct pomdp; [| reflexivity]. cbn [andb]. apply N_of_nat_pos. apply PosO. reflexivity. }
  rewrite C1.
  assert (C2 : ((max_elems <? N.of_nat (hS H) * N.of_nat (hA H) * N.of_nat (hS H))%N
                || (pomdp && (max_elems <? N.of_nat (hS H) * N.of_nat (hA H) * N.of_nat (hO H))%N)) = false).
  { unfold fits in FitS, FitO.
    assert ((max_elems <? N.of_nat (hS H) * N.of_nat (hA H) * N.of_nat (hS H))%N = false) as -> by (apply N.ltb_ge; exact FitS).
    cbn [orb]. destruct pomdp; [| reflexivity]. cbn [andb]. apply N.ltb_ge. apply FitO. reflexivity. }
  rewrite C2. rewrite !Nnat.Nat2N.id.
  assert (HP' : pre_matches H pfin) by (repeat split; assumption).
  set (t0 := mkTabs (new_tab (hS H) (hA H) (hS H)) (new_tab (hS H) (hA H) (hS H))
                    (if pomdp then new_tab (hS H) (hA H) (if pomdp then hO H else 0) else [])).
  assert (Hs0 : shapes pomdp H t0).
  { split; [apply new_tab_shape| split; [apply new_tab_shape|]]. intros ->. apply new_tab_shape. }
  set (rest := bad ++ body_of post_prog lss_post).
  destruct (prefix_steps pomdp H pfin HOK HP' PosS PosO pre_prog lss_pre HF1 Hst1 rest
              (length (body_of pre_prog lss_pre ++ rest)) t0 Hs0 (le_n _)) as [t1 [f1 [E2 [Hf1 _]]]].
  unfold loop in E2. rewrite E2.
  assert (Hne : bad <> []) by (destruct Hd; discriminate).
  destruct f1 as [|f1]; [unfold rest in Hf1; destruct bad; [contradiction| cbn in Hf1; lia]|].
  destruct (defect_step pomdp H pfin HP' PosS PosO bad (body_of post_prog lss_post) f1 t1 Hd) as [e Ee].
  unfold loop, rest in *. rewrite Ee. exists e. reflexivity.
Qed.

(* ================================================================ (C) invalid probabilities / discount *)
Lemma invalid_model_rejected_lemma : forall pomdp prog ls,
  wf pomdp prog -> renders prog ls -> ~ model_ok pomdp (denote pomdp prog) ->
  exists e, load_lines true pomdp ls = Throw e.
Proof.
  intros pomdp prog ls Hwf Hr Hn. unfold load_lines. rewrite (parse_print_lemma pomdp prog ls Hwf Hr). cbn [bind].
  apply validate_bad. exact Hn.
Qed.

(* and the positive side: a well-formed text of a valid model is loaded as that model *)
Lemma load_print_lemma : forall pomdp prog ls,
  wf pomdp prog -> renders prog ls -> model_ok pomdp (denote pomdp prog) ->
  load_lines true pomdp ls = Ok (denote pomdp prog).
Proof.
  intros pomdp prog ls Hwf Hr Hok. unfold load_lines. rewrite (parse_print_lemma pomdp prog ls Hwf Hr). cbn [bind].
  apply validate_ok. exact Hok.
Qed.

(* ================================================================ the whole-file statement *)
Lemma incomplete_rejected_lemma : forall pomdp ls, incomplete pomdp ls -> exists e, load_lines true pomdp ls = Throw e.
Proof.
  intros pomdp ls Hi. destruct Hi as [prog lss HF -> Hz | pre_prog post_prog lss_pre lss_post bad H Hwf HF1 HF2 Hd Hnp -> | prog Hwf Hr Hn].
  - unfold load_lines. rewrite (missing_declaration_lemma pomdp prog lss HF Hz). eexists; reflexivity.
  - destruct (defect_rejected_lemma pomdp pre_prog post_prog lss_pre lss_post bad Hwf HF1 HF2 Hd Hnp) as [e E].
    unfold load_lines. rewrite E. eexists; reflexivity.
  - eapply invalid_model_rejected_lemma; eassumption.
Qed.

Lemma incomplete_rejected_text_lemma : forall pomdp text,
  incomplete pomdp (lex_text text) -> exists e, load_model true pomdp text = Throw e.
Proof. intros pomdp text H. apply incomplete_rejected_lemma. exact H. Qed.
