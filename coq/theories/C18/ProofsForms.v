(* C18/ProofsForms.v — forms_equivalent: programs that differ only in the FORM in which a piece of
   data is written (matrix / rows / single entries; vector on the same or on the next line) denote
   the same model. *)
From Coq Require Import List Arith Ascii NArith ZArith QArith Bool Lia.
From AIT Require Import C18.Model C18.Spec.
Import ListNotations.
Local Close Scope Q_scope.

Lemma last_some_app : forall A (a b : list (option A)),
  last_some (a ++ b) = match last_some b with Some y => Some y | None => last_some a end.
Proof.
  induction a as [|x a IH]; intros b; cbn [app last_some]; [destruct (last_some b); reflexivity|].
  rewrite IH. destruct (last_some b); reflexivity.
Qed.

Lemma last_some_all_none : forall A B (f : B -> option A) l, (forall b, In b l -> f b = None) -> last_some (map f l) = None.
Proof.
  induction l as [|b l IH]; intros H; cbn [map last_some]; [reflexivity|].
  rewrite IH by (intros; apply H; right; assumption). apply H. left; reflexivity.
Qed.

(* among indexed items, the one whose index is x decides *)
Lemma last_some_indexed : forall A B (h : B -> option A) (items : list B) s x,
  last_some (map (fun ki => if Nat.eqb x (fst ki) then h (snd ki) else None) (combine (seq s (length items)) items))
  = if s <=? x then match nth_error items (x - s) with Some it => h it | None => None end else None.
Proof.
  induction items as [|it items IH]; intros s x; cbn [length seq combine map last_some].
  - destruct (s <=? x); [destruct (x - s); reflexivity| reflexivity].
  - rewrite IH. cbn [fst snd]. destruct (Nat.eqb x s) eqn:E.
    + apply Nat.eqb_eq in E. subst x. rewrite Nat.leb_refl, Nat.sub_diag.
      assert ((S s <=? s) = false) as -> by (apply Nat.leb_gt; lia). reflexivity.
    + apply Nat.eqb_neq in E. destruct (s <=? x) eqn:L.
      * apply Nat.leb_le in L. assert ((S s <=? x) = true) as -> by (apply Nat.leb_le; lia).
        replace (x - s) with (S (x - S s)) by lia. cbn [nth_error].
        destruct (nth_error items (x - S s)) as [it'|]; [destruct (h it'); reflexivity| reflexivity].
      * apply Nat.leb_gt in L. assert ((S s <=? x) = false) as -> by (apply Nat.leb_gt; lia). reflexivity.
Qed.

Lemma map_map_ext : forall A B C (f : A -> B) (g : B -> C) (k : A -> C) l,
  (forall a, g (f a) = k a) -> map g (map f l) = map k l.
Proof. intros. rewrite map_map. apply map_ext. assumption. Qed.

(* ---------------------------------------------------------------- cell level *)
Lemma row_as_entries_cell : forall H w t a s vs x y z,
  last_some (map (fun st => stmt_cell H w st x y z) (entries_of_row t a s vs)) = stmt_cell H w (SRowIn t a s vs) x y z.
Proof.
  intros. unfold entries_of_row. cbn [stmt_cell].
  destruct (tbl_is w t && cov (nmA H) (hA H) a y && cov (nmS H) (hS H) s x) eqn:C.
  - rewrite (map_map_ext _ _ _ _ _ (fun kv => if Nat.eqb z (fst kv) then Some (snd kv) else None)).
    + rewrite (last_some_indexed _ _ (fun v => Some v) vs 0 z). cbn [Nat.leb]. rewrite Nat.sub_0_r.
      destruct (nth_error vs z); reflexivity.
    + intros kv. cbn [stmt_cell cov]. rewrite C. reflexivity.
  - rewrite map_map. apply last_some_all_none. intros kv _. cbn [stmt_cell]. rewrite C. reflexivity.
Qed.

Lemma mat_as_rows_cell : forall H w t a rows x y z,
  last_some (map (fun st => stmt_cell H w st x y z) (rows_of_mat t a rows)) = stmt_cell H w (SMat t a rows) x y z.
Proof.
  intros. unfold rows_of_mat. cbn [stmt_cell].
  destruct (tbl_is w t && cov (nmA H) (hA H) a y) eqn:C.
  - rewrite (map_map_ext _ _ _ _ _ (fun kr => if Nat.eqb x (fst kr) then nth_error (snd kr) z else None)).
    + rewrite (last_some_indexed _ _ (fun r => nth_error r z) rows 0 x). cbn [Nat.leb]. rewrite Nat.sub_0_r.
      destruct (nth_error rows x) as [r|] eqn:E.
      * rewrite (nth_error_nth rows x [] E). reflexivity.
      * apply nth_error_None in E. rewrite (nth_overflow rows [] E). destruct z; reflexivity.
    + intros kr. cbn [stmt_cell cov]. rewrite C. cbn [andb]. reflexivity.
  - rewrite map_map. apply last_some_all_none. intros kr _. cbn [stmt_cell]. rewrite C. reflexivity.
Qed.

(* ---------------------------------------------------------------- program level *)
Definition no_decl (B : list stmt) : Prop :=
  forall st, In st B -> sel_states st = None /\ sel_actions st = None /\ sel_obs st = None /\ sel_disc st = None.

Lemma last_some_block : forall A (sel : stmt -> option A) l1 B1 B2 l3,
  last_some (map sel B1) = last_some (map sel B2) ->
  last_some (map sel (l1 ++ B1 ++ l3)) = last_some (map sel (l1 ++ B2 ++ l3)).
Proof. intros. rewrite !map_app, !last_some_app, H. reflexivity. Qed.

Lemma hdr_of_block : forall l1 B1 B2 l3, no_decl B1 -> no_decl B2 -> hdr_of (l1 ++ B1 ++ l3) = hdr_of (l1 ++ B2 ++ l3).
Proof.
  intros l1 B1 B2 l3 H1 H2. unfold hdr_of.
  rewrite (last_some_block _ sel_states l1 B1 B2 l3), (last_some_block _ sel_actions l1 B1 B2 l3),
          (last_some_block _ sel_obs l1 B1 B2 l3), (last_some_block _ sel_disc l1 B1 B2 l3); try reflexivity;
    rewrite !last_some_all_none; try reflexivity; intros st Hst;
    try (apply (H1 st Hst)); try (apply (H2 st Hst)).
Qed.

Lemma tab3_ext : forall d1 d2 d3 f g, (forall x y z, f x y z = g x y z) -> tab3 d1 d2 d3 f = tab3 d1 d2 d3 g.
Proof.
  intros. unfold tab3. apply map_ext. intros x. apply map_ext. intros y. apply map_ext. intros z. apply H.
Qed.

Lemma denote_block : forall pomdp l1 B1 B2 l3, no_decl B1 -> no_decl B2 ->
  (forall H w x y z, last_some (map (fun st => stmt_cell H w st x y z) B1) = last_some (map (fun st => stmt_cell H w st x y z) B2)) ->
  denote pomdp (l1 ++ B1 ++ l3) = denote pomdp (l1 ++ B2 ++ l3).
Proof.
  intros pomdp l1 B1 B2 l3 N1 N2 HC. unfold denote. rewrite (hdr_of_block l1 B1 B2 l3 N1 N2).
  set (H := hdr_of (l1 ++ B2 ++ l3)).
  assert (E : forall w x y z, cell_val H w (l1 ++ B1 ++ l3) x y z = cell_val H w (l1 ++ B2 ++ l3) x y z).
  { intros. unfold cell_val. rewrite (last_some_block _ (fun st => stmt_cell H w st x y z) l1 B1 B2 l3 (HC H w x y z)). reflexivity. }
  f_equal; try (apply tab3_ext; intros; apply E). destruct pomdp; [apply tab3_ext; intros; apply E| reflexivity].
Qed.

Lemma no_decl_entries : forall t a s vs, no_decl (entries_of_row t a s vs).
Proof. intros t a s vs st H. unfold entries_of_row in H. apply in_map_iff in H. destruct H as [kv [<- _]]. cbn. auto. Qed.
Lemma no_decl_rows : forall t a rows, no_decl (rows_of_mat t a rows).
Proof. intros t a rows st H. unfold rows_of_mat in H. apply in_map_iff in H. destruct H as [kv [<- _]]. cbn. auto. Qed.
Lemma no_decl_single : forall st, sel_states st = None -> sel_actions st = None -> sel_obs st = None -> sel_disc st = None -> no_decl [st].
Proof. intros st H1 H2 H3 H4 st' [<-|[]]. auto. Qed.

Lemma forms_equivalent_lemma : forall pomdp before after t a s vs rows,
  denote pomdp (before ++ [SRowNext t a s vs] ++ after) = denote pomdp (before ++ [SRowIn t a s vs] ++ after) /\
  denote pomdp (before ++ entries_of_row t a s vs ++ after) = denote pomdp (before ++ [SRowIn t a s vs] ++ after) /\
  denote pomdp (before ++ rows_of_mat t a rows ++ after) = denote pomdp (before ++ [SMat t a rows] ++ after).
Proof.
  intros. split; [| split].
  - apply denote_block; try (apply no_decl_single; reflexivity). intros. reflexivity.
  - apply denote_block; [apply no_decl_entries| apply no_decl_single; reflexivity|].
    intros. rewrite row_as_entries_cell. cbn [map last_some]. reflexivity.
  - apply denote_block; [apply no_decl_rows| apply no_decl_single; reflexivity|].
    intros. rewrite mat_as_rows_cell. cbn [map last_some]. reflexivity.
Qed.
