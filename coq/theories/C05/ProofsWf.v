(* C05/ProofsWf.v — the boolean well-formedness checkers are sound, and a concrete asymmetric
   3-state POMDP (used by the ex_ examples) satisfies the hypotheses of the theorems. *)
From Coq Require Import List Arith QArith Qminmax Lqa Lia Bool.
From AIT Require Import Base.Qx Base.Mdp C05.Model C05.Spec.
Import ListNotations.
Local Open Scope Q_scope.

Lemma nonnegb_sound : forall p, nonnegb p = true -> nonneg p.
Proof.
  intros p H. unfold nonnegb in H. rewrite forallb_forall in H. apply Forall_forall.
  intros x Hx. apply Qle_bool_iff. apply H; exact Hx.
Qed.

Lemma is_distb_sound : forall p, is_distb p = true -> is_dist p.
Proof.
  intros p H. unfold is_distb in H. apply andb_prop in H. destruct H as [H1 H2].
  split; [apply nonnegb_sound; exact H1| apply Qeq_bool_iff; exact H2].
Qed.

Lemma rows_distb_sound : forall n k M, rows_distb n k M = true ->
  forall a, (a < length M)%nat ->
    length (nth a M []) = n /\ forall s, (s < n)%nat -> simplex k (row (nth a M []) s).
Proof.
  intros n k M H a Ha. unfold rows_distb in H. rewrite forallb_forall in H.
  specialize (H (nth a M []) (nth_In M [] Ha)). apply andb_prop in H. destruct H as [H1 H2].
  apply Nat.eqb_eq in H1. split; [exact H1|]. intros s Hs. rewrite forallb_forall in H2.
  assert (Hin : In (row (nth a M []) s) (nth a M [])) . { unfold row. apply nth_In. apply Nat.lt_le_trans with n; [exact Hs|]. apply Nat.eq_le_incl. symmetry. exact H1. }
  specialize (H2 _ Hin). apply andb_prop in H2. destruct H2 as [H3 H4]. apply Nat.eqb_eq in H3.
  split; [exact H3| apply is_distb_sound; exact H4].
Qed.

Lemma wf_mdpb_sound : forall m, wf_mdpb m = true -> wf_mdp m.
Proof.
  intros m H. unfold wf_mdpb in H.
  repeat (apply andb_prop in H; let H' := fresh "C" in destruct H as [H H']).
  apply Nat.ltb_lt in H. apply Nat.ltb_lt in C5. apply Nat.eqb_eq in C2. apply Nat.eqb_eq in C1.
  apply negb_true_iff in C4. apply negb_true_iff in C3.
  assert (G0 : 0 < gam m). { destruct (Qlt_le_dec 0 (gam m)) as [L|L]; [exact L|]. apply Qle_bool_iff in L. congruence. }
  assert (G1 : gam m < 1). { destruct (Qlt_le_dec (gam m) 1) as [L|L]; [exact L|]. apply Qle_bool_iff in L. congruence. }
  pose proof (rows_distb_sound (nS m) (nS m) (P m) C0) as HP.
  repeat split; try assumption.
  - intros a Ha. apply HP. lia.
  - apply (proj2 (HP a ltac:(lia))). assumption.
  - apply (proj2 (HP a ltac:(lia))). assumption.
  - apply (proj2 (HP a ltac:(lia))). assumption.
  - intros s Hs. rewrite forallb_forall in C. apply Nat.eqb_eq. apply C. unfold row. apply nth_In. lia.
Qed.

Lemma wf_pomdpb_sound : forall m, wf_pomdpb m = true -> wf_pomdp m.
Proof.
  intros m H. unfold wf_pomdpb in H.
  apply andb_prop in H. destruct H as [H C]. apply andb_prop in H. destruct H as [H C0].
  apply andb_prop in H. destruct H as [H C1].
  apply wf_mdpb_sound in H. apply Nat.ltb_lt in C1. apply Nat.eqb_eq in C0.
  pose proof (rows_distb_sound _ _ _ C) as HO.
  split; [exact H|]. split; [exact C1|]. split; [exact C0|]. split.
  - intros a Ha. apply HO. lia.
  - intros a s Ha Hs. apply (proj2 (HO a ltac:(lia))). exact Hs.
Qed.

(* ------------------------------------------------------------------ a concrete asymmetric example *)
(* 3 states, 2 actions, 2 observations; no state permutation leaves T and O invariant, T_a is not
   symmetric; observation 1 has probability zero from the corner belief e_0 under action 0. *)
Definition ex_T : list mat :=
  [ [[1#2; 1#2; 0]; [0; 1#4; 3#4]; [1#8; 0; 7#8]];
    [[0; 1; 0]; [1#4; 1#4; 1#2]; [3#4; 1#8; 1#8]] ].
Definition ex_O : list mat :=
  [ [[1; 0]; [1; 0]; [1#4; 3#4]];
    [[1#2; 1#2]; [1#8; 7#8]; [1; 0]] ].
Definition ex_R3 : list mat :=
  [ [[1; 2; 0]; [0; 0; 4]]; [[0; -1; 3]; [2; 2; 2]]; [[8; 0; 0]; [1; 0; -2]] ].
Definition ex_m : pomdp := mk_pomdp 3 2 2 ex_T ex_O ex_R3 (1#2).
Definition ex_g : qmodel := table_model 3 2 2 ex_T ex_O ex_R3.
Definition ex_b : vec := [1#4; 1#2; 1#4].
Definition ex_corner : vec := [1; 0; 0].

Lemma ex_m_wf : wf_pomdp ex_m.
Proof. apply wf_pomdpb_sound. vm_compute. reflexivity. Qed.

Lemma ex_b_simplex : simplex (nS (pm ex_m)) ex_b /\ simplex (nS (pm ex_m)) ex_corner.
Proof.
  split; (split; [reflexivity|]; split; [repeat constructor; unfold Qle; cbn; lia| reflexivity]).
Qed.

Lemma ex_obs_pos : 0 < obs_prob ex_m ex_b 0 1 /\ obs_prob ex_m ex_corner 0 1 == 0.
Proof. split; vm_compute; reflexivity. Qed.

From AIT Require Import C05.ProofsLib C05.Proofs.
Lemma table_model_repr_ex : repr ex_g ex_m.
Proof. apply table_model_repr. Qed.
Lemma table_model_repr_rew_ex : repr_rew ex_g ex_m.
Proof. apply table_model_repr_rew. Qed.
