From Coq Require Extraction.
From Coq Require Import ExtrOcamlBasic.
From AIT Require Import Base.Vio Base.Qx Base.Mdp C05.Model C05.Spec.
Extraction "model.ml" vio_kit tau_step rew_at
  unnormE updateE partialE punnormE pnormE sosaE rewE vecmat
  unnormQ updateQ partialQ punnormQ pnormQ sosaQ rewQ
  queries_of table_model mk_pomdp sparse_of
  tau_step_r obs_prob_r predict_r exp_reward3_r sosa_at vsum
  updateE_hist updateQ_hist tau_hist_r step run prob_tableb exact_tableb check_unnorm check_nonneg check_sum check_obs_total wf_pomdpb.
