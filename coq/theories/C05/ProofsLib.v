(* C05/ProofsLib.v — list/sum lemmas used by the belief-update proofs: index views of vectors,
   dot products and loops as sums over index ranges, exchange of finite sums. *)
From Coq Require Import List Arith QArith Qminmax Lqa Lia Bool Setoid Morphisms.
From AIT Require Import Base.Qx Base.Mdp C05.Model C05.Spec.
Import ListNotations.
Local Open Scope Q_scope.

(* ------------------------------------------------------------------ index views *)
Lemma nthq_nil : forall i, nthq [] i = 0.
Proof. destruct i; reflexivity. Qed.

Lemma nthq_map_seq : forall (f : nat -> Q) n i, (i < n)%nat -> nthq (map f (seq 0 n)) i = f i.
Proof.
  intros f n i Hi. unfold nthq.
  rewrite (nth_indep _ 0 (f 0%nat)) by (rewrite map_length, seq_length; exact Hi).
  rewrite map_nth. rewrite seq_nth by exact Hi. reflexivity.
Qed.

Lemma nthq_overflow : forall l i, (length l <= i)%nat -> nthq l i = 0.
Proof. intros l i H. unfold nthq. apply nth_overflow. exact H. Qed.

Lemma map_nthq_seq : forall l, map (nthq l) (seq 0 (length l)) = l.
Proof.
  induction l as [|x l IH]; [reflexivity|].
  cbn [length]. rewrite <- cons_seq. cbn [map]. f_equal.
  rewrite <- seq_shift, map_map. exact IH.
Qed.

Lemma qsum_as_index : forall l, qsum l == qsum (map (nthq l) (seq 0 (length l))).
Proof. intros l. rewrite map_nthq_seq. reflexivity. Qed.

Lemma veq_nth : forall v w, length v = length w ->
  (forall i, (i < length v)%nat -> nthq v i == nthq w i) -> veq v w.
Proof.
  induction v as [|x v IH]; intros [|y w] Hl H; cbn in Hl; try discriminate; constructor.
  - apply (H 0%nat). cbn; lia.
  - apply IH; [lia|]. intros i Hi. apply (H (S i)). cbn; lia.
Qed.

Lemma veq_nthq : forall v w i, veq v w -> nthq v i == nthq w i.
Proof.
  intros v w i H. revert i. induction H as [|x y v w E H IH]; intros i; [reflexivity|].
  destruct i; unfold nthq; cbn [nth]; [exact E| apply IH].
Qed.

Lemma veq_length : forall v w, veq v w -> length v = length w.
Proof. intros v w H; induction H; cbn; congruence. Qed.

Lemma veq_sym : forall v w, veq v w -> veq w v.
Proof. intros v w H; induction H; constructor; [symmetry; assumption| assumption]. Qed.

Lemma veq_trans : forall u v w, veq u v -> veq v w -> veq u w.
Proof.
  intros u v w H. revert w. induction H as [|x y u v E H IH]; intros w Hw; inversion Hw; subst; constructor.
  - etransitivity; eassumption.
  - apply IH; assumption.
Qed.

Lemma veq_qsum : forall v w, veq v w -> qsum v == qsum w.
Proof. intros v w H; induction H as [|x y v w E H IH]; cbn [qsum]; [reflexivity| rewrite E, IH; reflexivity]. Qed.

Lemma veq_map_seq : forall (f g : nat -> Q) n, (forall i, (i < n)%nat -> f i == g i) ->
  veq (map f (seq 0 n)) (map g (seq 0 n)).
Proof.
  intros f g n H. apply veq_nth; [rewrite !map_length; reflexivity|].
  intros i Hi. rewrite map_length, seq_length in Hi. rewrite !nthq_map_seq by exact Hi. apply H; exact Hi.
Qed.

Lemma nonneg_nthq : forall p i, nonneg p -> 0 <= nthq p i.
Proof.
  intros p i H. revert i. induction H as [|x p Hx H IH]; intros i; [rewrite nthq_nil; lra|].
  destruct i; unfold nthq; cbn [nth]; [exact Hx| apply IH].
Qed.

Lemma nonneg_map_seq : forall (f : nat -> Q) n, (forall i, (i < n)%nat -> 0 <= f i) -> nonneg (map f (seq 0 n)).
Proof.
  intros f n H. apply Forall_forall. intros x Hx. apply in_map_iff in Hx. destruct Hx as [i [<- Hi]].
  apply in_seq in Hi. apply H; lia.
Qed.

Lemma nonneg_veq : forall v w, veq v w -> nonneg v -> nonneg w.
Proof.
  intros v w H. induction H as [|x y v w E H IH]; intros Hn; [constructor|].
  inversion Hn; subst. constructor; [rewrite <- E; assumption| apply IH; assumption].
Qed.

(* ------------------------------------------------------------------ sums *)
Lemma qsum_map_zero : forall (A : Type) (l : list A), qsum (map (fun _ => 0) l) == 0.
Proof. induction l as [|x l IH]; cbn [qsum map]; [reflexivity| rewrite IH; lra]. Qed.

Lemma qsum_map_scale_r : forall (A : Type) (f : A -> Q) c l, qsum (map (fun x => f x * c) l) == qsum (map f l) * c.
Proof. induction l as [|x l IH]; cbn [qsum map]; [lra| rewrite IH; lra]. Qed.

Lemma qsum_map_scale_l : forall (A : Type) (f : A -> Q) c l, qsum (map (fun x => c * f x) l) == c * qsum (map f l).
Proof. induction l as [|x l IH]; cbn [qsum map]; [lra| rewrite IH; lra]. Qed.

Lemma qsum_map_nonneg : forall (A : Type) (f : A -> Q) l, (forall x, In x l -> 0 <= f x) -> 0 <= qsum (map f l).
Proof.
  induction l as [|x l IH]; intros H; cbn [qsum map]; [lra|].
  pose proof (H x (or_introl eq_refl)). assert (0 <= qsum (map f l)) by (apply IH; intros y Hy; apply H; right; exact Hy). lra.
Qed.

(* exchange of two finite sums *)
Lemma qsum_swap : forall (A B : Type) (f : A -> B -> Q) (l1 : list A) (l2 : list B),
  qsum (map (fun i => qsum (map (fun j => f i j) l2)) l1) == qsum (map (fun j => qsum (map (fun i => f i j) l1)) l2).
Proof.
  intros A B f l1 l2. induction l1 as [|x l1 IH]; cbn [qsum map].
  - rewrite qsum_map_zero. reflexivity.
  - rewrite IH. rewrite (qsum_map_add B (fun j => f x j) (fun j => qsum (map (fun i => f i j) l1)) l2). reflexivity.
Qed.

(* the accumulator loop is the sum *)
Lemma fold_acc : forall (f : nat -> Q) l a0, fold_left (fun acc s => Qred (acc + f s)) l a0 == a0 + qsum (map f l).
Proof. intros f l. induction l as [|x l IH]; intros a0; cbn [fold_left qsum map]; [lra| rewrite IH, Qred_correct; lra]. Qed.

Lemma loop_sum_eq : forall f n, loop_sum f n == qsum (map f (seq 0 n)).
Proof. intros f n. unfold loop_sum. rewrite fold_acc. lra. Qed.

(* dot product as a sum over an index range covering the first vector *)
Lemma dot_as_index : forall u v n, (length u <= n)%nat ->
  dot u v == qsum (map (fun i => nthq u i * nthq v i) (seq 0 n)).
Proof.
  induction u as [|x u IH]; intros v n Hn.
  - cbn [dot]. rewrite (qsum_map_ext nat _ (fun _ => 0)); [rewrite qsum_map_zero; reflexivity|].
    intros i _. rewrite nthq_nil. lra.
  - destruct n as [|n]; [cbn in Hn; lia|]. cbn [length] in Hn.
    rewrite <- cons_seq, <- seq_shift. cbn [map qsum]. rewrite map_map.
    destruct v as [|y v].
    + cbn [dot]. rewrite (qsum_map_ext nat _ (fun _ => 0)); [rewrite qsum_map_zero, nthq_nil; lra|].
      intros i _. rewrite nthq_nil. lra.
    + cbn [dot]. rewrite (IH v n) by lia. unfold nthq; cbn [nth]. reflexivity.
Qed.

(* ------------------------------------------------------------------ Eigen kernels, index view *)
Lemma nthq_col : forall M j i, nthq (col M j) i = nthq (row M i) j.
Proof.
  induction M as [|r M IH]; intros j i.
  - unfold col, row. cbn [map]. destruct i; cbn [nth]; rewrite !nthq_nil; reflexivity.
  - destruct i; unfold col, row, nthq in *; cbn [map nth]; [reflexivity| apply IH].
Qed.

Lemma length_col : forall M j, length (col M j) = length M.
Proof. intros; unfold col; apply map_length. Qed.

Lemma nthq_cwise : forall u v i, nthq (cwise u v) i == nthq u i * nthq v i.
Proof.
  induction u as [|x u IH]; intros v i.
  - cbn [cwise]. rewrite !nthq_nil. lra.
  - destruct v as [|y v]; cbn [cwise].
    + rewrite !nthq_nil. lra.
    + destruct i; unfold nthq; cbn [nth]; [reflexivity| apply IH].
Qed.

Lemma length_cwise : forall u v, length (cwise u v) = Nat.min (length u) (length v).
Proof. induction u as [|x u IH]; intros [|y v]; cbn [cwise length Nat.min]; try reflexivity. rewrite IH; reflexivity. Qed.

Lemma length_vecmat : forall b M n, length (vecmat b M n) = n.
Proof. intros; unfold vecmat; rewrite map_length, seq_length; reflexivity. Qed.

Lemma nthq_vecmat : forall b M n j, (j < n)%nat -> (length b <= length M)%nat ->
  nthq (vecmat b M n) j == qsum (map (fun s => nthq b s * nthq (row M s) j) (seq 0 (length M))).
Proof.
  intros b M n j Hj Hb. unfold vecmat. rewrite nthq_map_seq by exact Hj.
  rewrite (dot_as_index b (col M j) (length M)) by exact Hb.
  apply qsum_map_ext. intros s _. rewrite nthq_col. reflexivity.
Qed.

(* ------------------------------------------------------------------ normalisation *)
Lemma qsum_map_div : forall v s, qsum (map (fun x => x / s) v) == qsum v / s.
Proof.
  intros v s. unfold Qdiv. rewrite (qsum_map_scale_r Q (fun x => x) (/ s) v). rewrite map_id. reflexivity.
Qed.

Lemma vred_veq : forall v, veq (vred v) v.
Proof. induction v as [|x v IH]; constructor; [apply Qred_correct| exact IH]. Qed.

Lemma vred_length : forall v, length (vred v) = length v.
Proof. intros; unfold vred; apply map_length. Qed.

Lemma normalise_sum : forall v, Qred (qsum (vred v)) == qsum v.
Proof. intros v. rewrite Qred_correct. apply veq_qsum. apply vred_veq. Qed.

Lemma normalise_pos : forall v, 0 < qsum v ->
  normalise v = map XFin (map (fun x => x / Qred (qsum (vred v))) (vred v)).
Proof.
  intros v H. unfold normalise. cbn zeta. rewrite map_map. apply map_ext. intros x. unfold xdiv.
  destruct (Qeq_bool (Qred (qsum (vred v))) 0) eqn:E; [apply Qeq_bool_iff in E; rewrite normalise_sum in E; lra| reflexivity].
Qed.

Lemma nonneg_sum_zero : forall v, nonneg v -> qsum v == 0 -> Forall (fun x => x == 0) v.
Proof.
  intros v H. induction H as [|x v Hx H IH]; intros Hs; [constructor|]. cbn [qsum] in Hs.
  pose proof (qsum_nonneg v H). constructor; [lra| apply IH; lra].
Qed.

(* 0/0: every entry of a zero vector becomes NaN *)
Lemma normalise_zero : forall v, nonneg v -> qsum v == 0 -> normalise v = map (fun _ => XNaN) v.
Proof.
  intros v Hn H. unfold normalise. cbn zeta.
  pose proof (nonneg_sum_zero v Hn H) as Hz. rewrite Forall_forall in Hz.
  unfold vred. rewrite map_map. apply map_ext_in. intros x Hx. specialize (Hz x Hx). unfold xdiv.
  fold (vred v). destruct (Qeq_bool (Qred (qsum (vred v))) 0) eqn:E.
  - pose proof (Qred_correct x) as Ex.
    destruct (Qlt_le_dec 0 (Qred x)); [lra|]. destruct (Qlt_le_dec (Qred x) 0); [lra| reflexivity].
  - apply Qeq_bool_neq in E. rewrite normalise_sum in E. contradiction.
Qed.

(* ------------------------------------------------------------------ Qred twins *)
Lemma qsum_r_eq : forall l, qsum_r l == qsum l.
Proof. induction l as [|x l IH]; cbn [qsum_r fold_right qsum]; [reflexivity|]. rewrite Qred_correct. fold (qsum_r l). rewrite IH. reflexivity. Qed.

Lemma qsum_r_map_ext : forall (A : Type) (f g : A -> Q) l, (forall x, In x l -> f x == g x) -> qsum_r (map f l) == qsum (map g l).
Proof. intros A f g l H. rewrite qsum_r_eq. apply qsum_map_ext. exact H. Qed.

Lemma pred_at_r_eq : forall m b a s', pred_at_r m b a s' == pred_at m b a s'.
Proof. intros. unfold pred_at_r, pred_at. apply qsum_r_map_ext. intros s _. apply Qred_correct. Qed.

Lemma predict_r_veq : forall m b a, veq (predict_r m b a) (predict m b a).
Proof. intros. unfold predict_r, predict, states. apply veq_map_seq. intros i _. apply pred_at_r_eq. Qed.

Lemma tau_step_r_veq : forall m b a o, veq (tau_step_r m b a o) (tau_step m b a o).
Proof.
  intros. change (tau_step m b a o) with (map (bayes_unnorm m b a o) (states m)).
  unfold tau_step_r, states. apply veq_map_seq. intros i _. rewrite Qred_correct, pred_at_r_eq. reflexivity.
Qed.

Lemma obs_prob_r_eq : forall m b a o, obs_prob_r m b a o == obs_prob m b a o.
Proof.
  intros. unfold obs_prob_r. rewrite qsum_r_eq, (veq_qsum _ _ (tau_step_r_veq m b a o)). reflexivity.
Qed.

Lemma exp_reward3_r_eq : forall m r3 b a, exp_reward3_r m r3 b a == exp_reward3 m r3 b a.
Proof.
  intros. unfold exp_reward3_r, exp_reward3. apply qsum_r_map_ext. intros s _. rewrite Qred_correct.
  rewrite (qsum_r_map_ext nat _ (fun s' => Tp m s a s' * r3 s a s')); [reflexivity|]. intros s' _. apply Qred_correct.
Qed.
