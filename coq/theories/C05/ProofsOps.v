(* C05/ProofsOps.v — invariant of the model-object state machine: every state reachable from a
   well-formed POMDP through the public setters is a well-formed POMDP, hence every belief update on
   it is the Bayes filter of the tables it holds. *)
From Coq Require Import List Arith QArith Qminmax Lqa Lia Bool.
From AIT Require Import Base.Qx Base.Mdp C05.Model C05.Spec C05.ProofsLib C05.Proofs C05.ProofsMain C05.ProofsWf.
Import ListNotations.
Local Open Scope Q_scope.

(* the validator, characterised *)
Lemma prob_rowb_spec : forall r,
  prob_rowb r = true <-> nonneg r /\ - epsS <= qsum r - 1 /\ qsum r - 1 <= epsS.
Proof.
  intros r. unfold prob_rowb. rewrite andb_true_iff. split.
  - intros [H1 H2]. split; [apply nonnegb_sound; exact H1|]. apply Qle_bool_iff in H2. unfold qabs in H2.
    pose proof (Q.le_max_l (qsum r - 1) (- (qsum r - 1))). pose proof (Q.le_max_r (qsum r - 1) (- (qsum r - 1))). split; lra.
  - intros [Hn [L U]]. split.
    + unfold nonneg in Hn. rewrite Forall_forall in Hn. apply forallb_forall. intros x Hx. apply Qle_bool_iff. apply Hn; exact Hx.
    + apply Qle_bool_iff. unfold qabs. apply Q.max_lub; lra.
Qed.

Lemma step_rejected : forall st t,
  prob_tableb t = false -> step st (OpSetObs t) = (st, false) /\ step st (OpSetT t) = (st, false).
Proof. intros st t H. cbn [step]. rewrite H. split; reflexivity. Qed.

Lemma step_accepted : forall st t, prob_tableb t = true ->
  step st (OpSetObs t) = (with_obs st t, true) /\ step st (OpSetT t) = (with_T st t, true).
Proof. intros st t H. cbn [step]. rewrite H. split; reflexivity. Qed.

Lemma step_dims : forall st o,
  nS (pm (fst (step st o))) = nS (pm st) /\ nA (pm (fst (step st o))) = nA (pm st) /\ nO (fst (step st o)) = nO st.
Proof. intros st [t|t|r3|r]; cbn [step]; try destruct (prob_tableb t); cbn; repeat split; reflexivity. Qed.

Lemma exact_table_sound : forall A S K t, exact_tableb A S K t = true ->
  length t = A /\ forall a, (a < A)%nat -> length (nth a t []) = S /\ forall s, (s < S)%nat -> simplex K (row (nth a t []) s).
Proof.
  intros A S K t H. unfold exact_tableb in H. apply andb_prop in H. destruct H as [HL HR]. apply Nat.eqb_eq in HL.
  split; [exact HL|]. intros a Ha. apply (rows_distb_sound S K t HR a). lia.
Qed.

Lemma fold_rewards_shape : forall S A T R3,
  length (fold_rewards S A T R3) = S /\ forall s, (s < S)%nat -> length (row (fold_rewards S A T R3) s) = A.
Proof.
  intros S A T R3. unfold fold_rewards. split; [rewrite map_length, seq_length; reflexivity|].
  intros s Hs. unfold row.
  rewrite (nth_indep _ [] (map (fun a0 => loop_sum (fun s1 => nthq (row (nth 0%nat R3 []) a0) s1 * nthq (row (nth a0 T []) 0%nat) s1) S) (seq 0 A)))
    by (rewrite map_length, seq_length; exact Hs).
  rewrite (map_nth (fun s0 => map (fun a0 => loop_sum (fun s1 => nthq (row (nth s0 R3 []) a0) s1 * nthq (row (nth a0 T []) s0) s1) S) (seq 0 A))).
  rewrite map_length, seq_length. reflexivity.
Qed.

Lemma step_wf : forall st o, wf_pomdp st -> op_ok (nS (pm st)) (nA (pm st)) (nO st) o -> wf_pomdp (fst (step st o)).
Proof.
  intros st o W Hok. pose proof W as W0.
  destruct W as [[HS [HA [G0 [G1 [HLP [HLR [HLa [HPr HRr]]]]]]]] [HO [HLO [HLOa HOr]]]].
  destruct o as [t|t|r3|r]; cbn [step op_ok] in *.
  - destruct (prob_tableb t) eqn:E; [| exact W0]. cbn [fst].
    destruct (exact_table_sound _ _ _ _ (Hok eq_refl)) as [EL ER].
    split; [exact (proj1 W0)|]. cbn [with_obs pm nO Ob].
    split; [exact HO|]. split; [exact EL|]. split.
    + intros a Ha. apply (ER a Ha).
    + intros a s Ha Hs. apply (proj2 (ER a Ha)). exact Hs.
  - destruct (prob_tableb t) eqn:E; [| exact W0]. cbn [fst].
    destruct (exact_table_sound _ _ _ _ (Hok eq_refl)) as [EL ER].
    split; [| exact (proj2 W0)].
    cbn [with_T pm]. unfold wf_mdp. cbn [nS nA P R gam].
    split; [exact HS|]. split; [exact HA|]. split; [exact G0|]. split; [exact G1|]. split; [exact EL|]. split; [exact HLR|].
    split; [intros a Ha; apply (ER a Ha)|]. split; [intros a s Ha Hs; apply (proj2 (ER a Ha)); exact Hs| exact HRr].
  - cbn [fst]. destruct (fold_rewards_shape (nS (pm st)) (nA (pm st)) (P (pm st)) r3) as [FL FR].
    split; [| exact (proj2 W0)].
    cbn [with_R pm]. unfold wf_mdp. cbn [nS nA P R gam].
    split; [exact HS|]. split; [exact HA|]. split; [exact G0|]. split; [exact G1|]. split; [exact HLP|].
    split; [exact FL|]. split; [exact HLa|]. split; [exact HPr| exact FR].
  - cbn [fst]. destruct Hok as [RL RF].
    split; [| exact (proj2 W0)].
    cbn [with_R pm]. unfold wf_mdp. cbn [nS nA P R gam].
    split; [exact HS|]. split; [exact HA|]. split; [exact G0|]. split; [exact G1|]. split; [exact HLP|].
    split; [exact RL|]. split; [exact HLa|]. split; [exact HPr|].
    intros s Hs. rewrite Forall_forall in RF. apply RF. unfold row. apply nth_In. rewrite RL. exact Hs.
Qed.

Lemma run_wf : forall ops st, wf_pomdp st -> Forall (op_ok (nS (pm st)) (nA (pm st)) (nO st)) ops ->
  wf_pomdp (run st ops) /\ nS (pm (run st ops)) = nS (pm st) /\ nA (pm (run st ops)) = nA (pm st) /\ nO (run st ops) = nO st.
Proof.
  induction ops as [|o ops IH]; intros st W H; cbn [run]; [split; [exact W| repeat split; reflexivity]|].
  inversion H as [|? ? Ho Hops]; subst.
  destruct (step_dims st o) as [D1 [D2 D3]].
  destruct (IH (fst (step st o)) (step_wf st o W Ho)) as [W' [E1 [E2 E3]]].
  - rewrite D1, D2, D3. exact Hops.
  - split; [exact W'|]. rewrite E1, E2, E3, D1, D2, D3. repeat split; reflexivity.
Qed.

(* every belief update on a reachable model state is the Bayes filter / posterior of the tables it holds *)
Lemma history_bayes_lemma : forall st0 ops,
  wf_pomdp st0 -> Forall (op_ok (nS (pm st0)) (nA (pm st0)) (nO st0)) ops ->
  let st := run st0 ops in
  wf_pomdp st /\
  forall b a o, simplex (nS (pm st)) b -> (a < nA (pm st))%nat -> (o < nO st)%nat ->
    veq (unnormE st b a o) (tau_step st b a o) /\
    veq (unnormQ (queries_of st) b a o) (tau_step st b a o) /\
    nonneg (unnormE st b a o) /\ qsum (unnormE st b a o) == obs_prob st b a o /\
    (0 < obs_prob st b a o ->
       (exists p, updateE st b a o = map XFin p /\ is_posterior st b a o p) /\
       (exists p, pnormE st (partialE st b a) a o = map XFin p /\ is_posterior st b a o p)).
Proof.
  intros st0 ops W H st. destruct (run_wf ops st0 W H) as [Wst _]. fold st in Wst. split; [exact Wst|].
  intros b a o Hb Ha Ho. pose proof (queries_of_repr st) as G. pose proof Hb as [Hl [Hn _]].
  destruct (unnorm_is_bayes_lemma st _ b a o Wst G Hl Ha Ho) as [VE VQ].
  destruct (unnorm_nonneg_lemma st _ b a o Wst G Hl Hn Ha Ho) as [NE _].
  destruct (unnorm_sums_lemma st _ b a o Wst G Hl Ha Ho) as [SE _].
  split; [exact VE|]. split; [exact VQ|]. split; [exact NE|]. split; [exact SE|].
  intros Hp. destruct (normalised_is_posterior_lemma st _ b a o Wst G Hb Ha Ho Hp) as [P1 [_ [P3 _]]].
  split; assumption.
Qed.
