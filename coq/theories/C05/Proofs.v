(* C05/Proofs.v — the belief-update models compute the Bayes filter (Base.Mdp.tau_step). *)
From Coq Require Import List Arith QArith Qminmax Lqa Lia Bool Setoid Morphisms.
From AIT Require Import Base.Qx Base.Mdp C05.Model C05.Spec C05.ProofsLib.
Import ListNotations.
Local Open Scope Q_scope.

(* ------------------------------------------------------------------ well-formedness, unpacked *)
Lemma wf_T : forall m a, wf_pomdp m -> (a < nA (pm m))%nat ->
  length (tmat m a) = nS (pm m) /\ forall s, (s < nS (pm m))%nat -> simplex (nS (pm m)) (row (tmat m a) s).
Proof.
  intros m a [[_ [_ [_ [_ [_ [_ [HL [HR _]]]]]]]] _] Ha. split; [apply HL; exact Ha|].
  intros s Hs. apply HR; assumption.
Qed.

Lemma wf_O : forall m a, wf_pomdp m -> (a < nA (pm m))%nat ->
  length (omat m a) = nS (pm m) /\ forall s, (s < nS (pm m))%nat -> simplex (nO m) (row (omat m a) s).
Proof.
  intros m a [_ [_ [_ [HL HR]]]] Ha. split; [apply HL; exact Ha|].
  intros s Hs. apply HR; assumption.
Qed.

Lemma wf_R : forall m, wf_pomdp m -> length (rmat m) = nS (pm m).
Proof. intros m [[_ [_ [_ [_ [_ [HR _]]]]]] _]. exact HR. Qed.

Lemma Tp_nonneg : forall m s a s', wf_pomdp m -> (a < nA (pm m))%nat -> (s < nS (pm m))%nat -> 0 <= Tp m s a s'.
Proof.
  intros m s a s' W Ha Hs. destruct (wf_T m a W Ha) as [_ H]. destruct (H s Hs) as [_ [Hn _]].
  apply nonneg_nthq. exact Hn.
Qed.

Lemma Op_nonneg : forall m s' a o, wf_pomdp m -> (a < nA (pm m))%nat -> (s' < nS (pm m))%nat -> 0 <= Op m s' a o.
Proof.
  intros m s' a o W Ha Hs. destruct (wf_O m a W Ha) as [_ H]. destruct (H s' Hs) as [_ [Hn _]].
  apply nonneg_nthq. exact Hn.
Qed.

(* rows of T and O sum to one, as sums over the index range *)
Lemma Tp_row_sum : forall m s a, wf_pomdp m -> (a < nA (pm m))%nat -> (s < nS (pm m))%nat ->
  qsum (map (fun s' => Tp m s a s') (states m)) == 1.
Proof.
  intros m s a W Ha Hs. destruct (wf_T m a W Ha) as [_ H]. destruct (H s Hs) as [HL [_ Hsum]].
  rewrite <- Hsum. rewrite (qsum_as_index (row (tmat m a) s)). rewrite HL. reflexivity.
Qed.

Lemma Op_row_sum : forall m s' a, wf_pomdp m -> (a < nA (pm m))%nat -> (s' < nS (pm m))%nat ->
  qsum (map (fun o => Op m s' a o) (obss m)) == 1.
Proof.
  intros m s' a W Ha Hs. destruct (wf_O m a W Ha) as [_ H]. destruct (H s' Hs) as [HL [_ Hsum]].
  rewrite <- Hsum. rewrite (qsum_as_index (row (omat m a) s')). rewrite HL. reflexivity.
Qed.

Lemma tau_step_eq : forall m b a o, tau_step m b a o = map (bayes_unnorm m b a o) (states m).
Proof. reflexivity. Qed.

Lemma tau_step_nth : forall m b a o s', (s' < nS (pm m))%nat -> nthq (tau_step m b a o) s' = bayes_unnorm m b a o s'.
Proof. intros. rewrite tau_step_eq. unfold states. apply nthq_map_seq. assumption. Qed.

Lemma tau_step_length : forall m b a o, length (tau_step m b a o) = nS (pm m).
Proof. intros. unfold tau_step. rewrite map_length, seq_length. reflexivity. Qed.

Lemma rew_at_eq : forall m b a, rew_at m b a = qsum (map (fun s => nthq b s * Rp m s a) (states m)).
Proof. reflexivity. Qed.

(* ------------------------------------------------------------------ spec-level facts *)
Lemma pred_nonneg : forall m b a s', wf_pomdp m -> (a < nA (pm m))%nat -> nonneg b -> 0 <= pred_at m b a s'.
Proof.
  intros m b a s' W Ha Hb. unfold pred_at. apply qsum_map_nonneg. intros s Hs.
  apply in_seq in Hs. pose proof (nonneg_nthq b s Hb). pose proof (Tp_nonneg m s a s' W Ha ltac:(lia)). nra.
Qed.

Lemma bayes_nonneg : forall m b a o s', wf_pomdp m -> (a < nA (pm m))%nat -> (s' < nS (pm m))%nat -> nonneg b ->
  0 <= bayes_unnorm m b a o s'.
Proof.
  intros m b a o s' W Ha Hs Hb. unfold bayes_unnorm.
  pose proof (pred_nonneg m b a s' W Ha Hb). pose proof (Op_nonneg m s' a o W Ha Hs). nra.
Qed.

(* the prediction of a belief on the simplex is on the simplex *)
Lemma predict_sum : forall m b a, wf_pomdp m -> (a < nA (pm m))%nat -> length b = nS (pm m) ->
  qsum (predict m b a) == qsum b.
Proof.
  intros m b a W Ha Hb. unfold predict, pred_at.
  rewrite (qsum_swap nat nat (fun s' s => nthq b s * Tp m s a s') (states m) (states m)).
  rewrite (qsum_as_index b), Hb. apply qsum_map_ext. intros s Hs. apply in_seq in Hs.
  rewrite (qsum_map_scale_l nat (fun s' => Tp m s a s') (nthq b s) (states m)).
  rewrite Tp_row_sum by (try assumption; lia). lra.
Qed.

Lemma predict_simplex : forall m b a, wf_pomdp m -> (a < nA (pm m))%nat -> simplex (nS (pm m)) b ->
  simplex (nS (pm m)) (predict m b a).
Proof.
  intros m b a W Ha [Hl [Hn Hs]]. split; [unfold predict, states; rewrite map_length, seq_length; reflexivity|].
  split.
  - unfold predict, states. apply nonneg_map_seq. intros i _. apply pred_nonneg; assumption.
  - rewrite predict_sum by assumption. exact Hs.
Qed.

(* sum over observations of the filter is the prediction *)
Lemma bayes_obs_total : forall m b a s', wf_pomdp m -> (a < nA (pm m))%nat -> (s' < nS (pm m))%nat ->
  qsum (map (fun o => bayes_unnorm m b a o s') (obss m)) == pred_at m b a s'.
Proof.
  intros m b a s' W Ha Hs. unfold bayes_unnorm.
  rewrite (qsum_map_scale_r nat (fun o => Op m s' a o) (pred_at m b a s') (obss m)).
  rewrite Op_row_sum by assumption. lra.
Qed.

(* total probability: the observation probabilities of a belief on the simplex sum to one *)
Lemma obs_prob_total : forall m b a, wf_pomdp m -> (a < nA (pm m))%nat -> length b = nS (pm m) ->
  qsum (map (fun o => obs_prob m b a o) (obss m)) == qsum b.
Proof.
  intros m b a W Ha Hb. unfold obs_prob.
  rewrite (qsum_swap nat nat (fun o s' => bayes_unnorm m b a o s') (obss m) (states m)).
  rewrite <- (predict_sum m b a W Ha Hb). unfold predict. apply qsum_map_ext. intros s' Hs. apply in_seq in Hs.
  apply bayes_obs_total; try assumption; lia.
Qed.

Lemma obs_prob_nonneg : forall m b a o, wf_pomdp m -> (a < nA (pm m))%nat -> nonneg b -> 0 <= obs_prob m b a o.
Proof.
  intros m b a o W Ha Hb. unfold obs_prob. apply qsum_map_nonneg. intros s' Hs. apply in_seq in Hs.
  apply bayes_nonneg; try assumption; lia.
Qed.

(* ------------------------------------------------------------------ Eigen branch *)
Section Eigen.
  Variable m : pomdp.
  Hypothesis W : wf_pomdp m.
  Variables (b : vec) (a : nat).
  Hypothesis Ha : (a < nA (pm m))%nat.
  Hypothesis Hb : length b = nS (pm m).

  Lemma partialE_length : length (partialE m b a) = nS (pm m).
  Proof. apply length_vecmat. Qed.

  Lemma partialE_nth : forall s', (s' < nS (pm m))%nat -> nthq (partialE m b a) s' == pred_at m b a s'.
  Proof.
    intros s' Hs. destruct (wf_T m a W Ha) as [HL _]. unfold partialE.
    rewrite nthq_vecmat by (try assumption; lia). rewrite HL. reflexivity.
  Qed.

  Lemma partialE_is_predict : veq (partialE m b a) (predict m b a).
  Proof.
    apply veq_nth; [rewrite partialE_length; unfold predict, states; rewrite map_length, seq_length; reflexivity|].
    intros i Hi. rewrite partialE_length in Hi. rewrite partialE_nth by assumption.
    unfold predict, states. rewrite nthq_map_seq by assumption. reflexivity.
  Qed.

  (* the correction step on any intermediate vector of the right length *)
  Lemma punnormE_length : forall v o, length v = nS (pm m) -> length (punnormE m v a o) = nS (pm m).
  Proof.
    intros v o Hv. destruct (wf_O m a W Ha) as [HL _]. unfold punnormE.
    rewrite length_cwise, length_col, HL, Hv. apply Nat.min_id.
  Qed.

  Lemma punnormE_nth : forall v o s', nthq (punnormE m v a o) s' == Op m s' a o * nthq v s'.
  Proof. intros v o s'. unfold punnormE. rewrite nthq_cwise, nthq_col. reflexivity. Qed.

  Lemma unnormE_two_stage : forall o, unnormE m b a o = punnormE m (partialE m b a) a o.
  Proof. reflexivity. Qed.

  Lemma unnormE_length : forall o, length (unnormE m b a o) = nS (pm m).
  Proof. intros o. rewrite unnormE_two_stage. apply punnormE_length. apply partialE_length. Qed.

  Lemma unnormE_nth : forall o s', (s' < nS (pm m))%nat -> nthq (unnormE m b a o) s' == bayes_unnorm m b a o s'.
  Proof.
    intros o s' Hs. rewrite unnormE_two_stage, punnormE_nth, partialE_nth by assumption. reflexivity.
  Qed.

  Lemma unnormE_is_bayes : forall o, veq (unnormE m b a o) (tau_step m b a o).
  Proof.
    intros o. apply veq_nth; [rewrite unnormE_length, tau_step_length; reflexivity|].
    intros i Hi. rewrite unnormE_length in Hi. rewrite unnormE_nth, tau_step_nth by assumption. reflexivity.
  Qed.

  (* makeSOSA *)
  Lemma row_mat_diag : forall M d s, row (mat_diag M d) s = cwise (row M s) d.
  Proof. intros M d s. unfold row, mat_diag. exact (map_nth (fun r => cwise r d) M [] s). Qed.

  Lemma sosaE_entry : forall o s s', nthq (row (sosaE m a o) s) s' == sosa_at m a o s s'.
  Proof. intros o s s'. unfold sosaE. rewrite row_mat_diag, nthq_cwise, nthq_col. reflexivity. Qed.

  Lemma sosaE_row : forall o, veq (vecmat b (sosaE m a o) (nS (pm m))) (unnormE m b a o).
  Proof.
    intros o. destruct (wf_T m a W Ha) as [HL _].
    assert (HLs : length (sosaE m a o) = nS (pm m)) by (unfold sosaE, mat_diag; rewrite map_length; exact HL).
    apply veq_nth; [rewrite length_vecmat, unnormE_length; reflexivity|].
    intros i Hi. rewrite length_vecmat in Hi.
    rewrite nthq_vecmat by (try assumption; lia). rewrite HLs, unnormE_nth by assumption.
    unfold bayes_unnorm, pred_at.
    rewrite <- (qsum_map_scale_l nat (fun s => nthq b s * Tp m s a i) (Op m i a o) (states m)).
    apply qsum_map_ext. intros s _. rewrite sosaE_entry. unfold sosa_at. lra.
  Qed.

  (* beliefExpectedReward *)
  Lemma rewE_eq : rewE m b a == rew_at m b a.
  Proof.
    unfold rewE. rewrite (dot_as_index (col (rmat m) a) b (nS (pm m))) by (rewrite length_col, (wf_R m W); lia).
    rewrite rew_at_eq. apply qsum_map_ext. intros s _. rewrite nthq_col. unfold Rp, rmat. lra.
  Qed.
End Eigen.

(* ------------------------------------------------------------------ query-loop branch *)
Section Query.
  Variable m : pomdp.
  Variable g : qmodel.
  Hypothesis G : repr g m.
  Variables (b : vec) (a : nat).
  Hypothesis Ha : (a < nA (pm m))%nat.

  Let GS : qS g = nS (pm m) := proj1 G.

  Lemma loop_pred : forall s', (s' < nS (pm m))%nat ->
    loop_sum (fun s => qT g s a s' * nthq b s) (qS g) == pred_at m b a s'.
  Proof.
    intros s' Hs. pose proof G as [_ [_ [_ [HT _]]]]. rewrite loop_sum_eq, GS. unfold pred_at.
    apply qsum_map_ext. intros s Hin. apply in_seq in Hin. rewrite HT by (try assumption; lia). lra.
  Qed.

  Lemma partialQ_length : length (partialQ g b a) = nS (pm m).
  Proof. unfold partialQ. rewrite map_length, seq_length. exact GS. Qed.

  Lemma partialQ_nth : forall s', (s' < nS (pm m))%nat -> nthq (partialQ g b a) s' == pred_at m b a s'.
  Proof.
    intros s' Hs. unfold partialQ. rewrite nthq_map_seq by (rewrite GS; exact Hs). apply loop_pred; exact Hs.
  Qed.

  Lemma unnormQ_length : forall o, length (unnormQ g b a o) = nS (pm m).
  Proof. intros o. unfold unnormQ. rewrite map_length, seq_length. exact GS. Qed.

  Lemma unnormQ_nth : forall o s', (o < nO m)%nat -> (s' < nS (pm m))%nat ->
    nthq (unnormQ g b a o) s' == bayes_unnorm m b a o s'.
  Proof.
    intros o s' Ho Hs. unfold unnormQ. rewrite nthq_map_seq by (rewrite GS; exact Hs).
    rewrite loop_pred by exact Hs. pose proof G as [_ [_ [_ [_ HO]]]]. rewrite HO by assumption. reflexivity.
  Qed.

  Lemma unnormQ_is_bayes : forall o, (o < nO m)%nat -> veq (unnormQ g b a o) (tau_step m b a o).
  Proof.
    intros o Ho. apply veq_nth; [rewrite unnormQ_length, tau_step_length; reflexivity|].
    intros i Hi. rewrite unnormQ_length in Hi. rewrite unnormQ_nth, tau_step_nth by assumption. reflexivity.
  Qed.

  Lemma punnormQ_length : forall v o, length (punnormQ g v a o) = nS (pm m).
  Proof. intros v o. unfold punnormQ. rewrite map_length, seq_length. exact GS. Qed.

  Lemma punnormQ_nth : forall v o s', (o < nO m)%nat -> (s' < nS (pm m))%nat ->
    nthq (punnormQ g v a o) s' == Op m s' a o * nthq v s'.
  Proof.
    intros v o s' Ho Hs. unfold punnormQ. rewrite nthq_map_seq by (rewrite GS; exact Hs).
    pose proof G as [_ [_ [_ [_ HO]]]]. rewrite HO by assumption. reflexivity.
  Qed.

  (* two stages = one stage; needs nothing about the tables *)
  Lemma unnormQ_two_stage : forall o, veq (punnormQ g (partialQ g b a) a o) (unnormQ g b a o).
  Proof.
    intros o. unfold punnormQ, unnormQ. apply veq_map_seq. intros i Hi.
    unfold partialQ. rewrite nthq_map_seq by exact Hi. reflexivity.
  Qed.

  (* makeSOSA *)
  Lemma sosaQ_entry : forall o s s', (o < nO m)%nat -> (s < nS (pm m))%nat -> (s' < nS (pm m))%nat ->
    nthq (row (sosaQ g a o) s) s' == sosa_at m a o s s'.
  Proof.
    intros o s s' Ho Hs Hs'. unfold sosaQ, row.
    rewrite (nth_indep _ [] (map (fun s1 => qT g 0%nat a s1 * qOb g s1 a o) (seq 0 (qS g))))
      by (rewrite map_length, seq_length, GS; exact Hs).
    rewrite (map_nth (fun s0 => map (fun s1 => qT g s0 a s1 * qOb g s1 a o) (seq 0 (qS g)))).
    rewrite seq_nth by (rewrite GS; exact Hs). cbn [plus].
    rewrite nthq_map_seq by (rewrite GS; exact Hs').
    pose proof G as [_ [_ [_ [HT HO]]]]. rewrite HT, HO by assumption. reflexivity.
  Qed.

  Lemma sosaQ_row : forall o, (o < nO m)%nat -> length b = nS (pm m) ->
    veq (vecmat b (sosaQ g a o) (qS g)) (unnormQ g b a o).
  Proof.
    intros o Ho Hb.
    assert (HLs : length (sosaQ g a o) = nS (pm m)) by (unfold sosaQ; rewrite map_length, seq_length; exact GS).
    apply veq_nth; [rewrite length_vecmat, unnormQ_length; exact GS|].
    intros i Hi. rewrite length_vecmat, GS in Hi.
    rewrite nthq_vecmat by (rewrite ?GS; try assumption; lia). rewrite HLs, unnormQ_nth by assumption.
    unfold bayes_unnorm, pred_at.
    rewrite <- (qsum_map_scale_l nat (fun s => nthq b s * Tp m s a i) (Op m i a o) (states m)).
    apply qsum_map_ext. intros s Hin. apply in_seq in Hin.
    rewrite sosaQ_entry by (try assumption; lia). unfold sosa_at. lra.
  Qed.

  (* beliefExpectedReward: the flat double loop with one accumulator *)
  Lemma fold2_acc : forall (h : nat -> nat -> Q) l1 l2 a0,
    fold_left (fun rew s => fold_left (fun rew' s1 => Qred (rew' + h s s1)) l2 rew) l1 a0
    == a0 + qsum (map (fun s => qsum (map (h s) l2)) l1).
  Proof.
    intros h l1 l2. induction l1 as [|x l1 IH]; intros a0; cbn [fold_left map qsum]; [lra|].
    rewrite IH. rewrite (fold_acc (h x) l2 a0). lra.
  Qed.

  Lemma rewQ_eq3 : rewQ g b a == exp_reward3 m (qR g) b a.
  Proof.
    unfold rewQ. rewrite (fold2_acc (fun s s1 => qT g s a s1 * qR g s a s1 * nthq b s)). rewrite GS.
    unfold exp_reward3. rewrite Qplus_0_l. apply qsum_map_ext. intros s Hs. apply in_seq in Hs.
    rewrite <- (qsum_map_scale_l nat (fun s' => Tp m s a s' * qR g s a s') (nthq b s) (states m)).
    apply qsum_map_ext. intros s' Hs'. apply in_seq in Hs'.
    pose proof G as [_ [_ [_ [HT _]]]]. rewrite HT by (try assumption; lia). lra.
  Qed.

  Lemma rewQ_eq : repr_rew g m -> rewQ g b a == rew_at m b a.
  Proof.
    intros GR. rewrite rewQ_eq3, rew_at_eq. unfold exp_reward3. apply qsum_map_ext. intros s Hs. apply in_seq in Hs.
    rewrite (GR s a) by (try assumption; lia). reflexivity.
  Qed.
End Query.

(* ------------------------------------------------------------------ the library's own models as query models *)
Lemma queries_of_repr : forall m, repr (queries_of m) m.
Proof. intros m. repeat split; intros; reflexivity. Qed.

Lemma queries_of_repr_rew : forall m, wf_pomdp m -> repr_rew (queries_of m) m.
Proof.
  intros m W s a Hs Ha. cbn [queries_of qR].
  rewrite (qsum_map_scale_r nat (fun s' => Tp m s a s') (nthq (row (rmat m) s) a) (states m)).
  rewrite Tp_row_sum by assumption. unfold Rp, rmat. lra.
Qed.

Lemma table_model_repr : forall S A O T Obs R3 g, repr (table_model S A O T Obs R3) (mk_pomdp S A O T Obs R3 g).
Proof. intros. repeat split; intros; reflexivity. Qed.

Lemma table_model_repr_rew : forall S A O T Obs R3 g, repr_rew (table_model S A O T Obs R3) (mk_pomdp S A O T Obs R3 g).
Proof.
  intros S A O T Obs R3 g s a Hs Ha. cbn [mk_pomdp pm nS nA] in Hs, Ha.
  unfold Rp, states. cbn [mk_pomdp pm R nS]. unfold fold_rewards, row.
  rewrite (nth_indep _ [] (map (fun a0 => loop_sum (fun s1 => nthq (row (nth 0%nat R3 []) a0) s1 * nthq (row (nth a0 T []) 0%nat) s1) S) (seq 0 A)))
    by (rewrite map_length, seq_length; exact Hs).
  rewrite (map_nth (fun s0 => map (fun a0 => loop_sum (fun s1 => nthq (row (nth s0 R3 []) a0) s1 * nthq (row (nth a0 T []) s0) s1) S) (seq 0 A))).
  rewrite seq_nth by exact Hs. cbn [plus]. rewrite nthq_map_seq by exact Ha.
  rewrite loop_sum_eq. apply qsum_map_ext. intros s' _. cbn [table_model qR]. unfold Tp, trow, row. cbn [mk_pomdp pm P]. lra.
Qed.

(* ------------------------------------------------------------------ normalisation = posterior *)
Lemma nthq_map_div : forall v s i, nthq (map (fun x => x / s) v) i == nthq v i / s.
Proof.
  intros v s i. destruct (Nat.lt_ge_cases i (length v)) as [Hi|Hi].
  - unfold nthq. rewrite (nth_indep _ 0 (0 / s)) by (rewrite map_length; exact Hi).
    rewrite (map_nth (fun x => x / s)). reflexivity.
  - rewrite !nthq_overflow by (rewrite ?map_length; exact Hi). unfold Qdiv. lra.
Qed.

Lemma posterior_of_unnorm : forall m b a o u,
  veq u (tau_step m b a o) -> nonneg u -> 0 < obs_prob m b a o ->
  exists p, normalise u = map XFin p /\ is_posterior m b a o p.
Proof.
  intros m b a o u Hu Hn Hp.
  assert (Hs : qsum u == obs_prob m b a o) by (rewrite (veq_qsum _ _ Hu), tau_step_eq; reflexivity).
  assert (Hpos : 0 < qsum u) by (rewrite Hs; exact Hp).
  set (s := Qred (qsum (vred u))).
  assert (Es : s == qsum u) by apply normalise_sum.
  exists (map (fun x => x / s) (vred u)). split; [apply normalise_pos; exact Hpos|].
  assert (Hspos : 0 < s) by (rewrite Es; exact Hpos).
  assert (Hinv : 0 < / s) by (apply Qinv_lt_0_compat; exact Hspos).
  pose proof (vred_veq u) as Vr.
  split; [rewrite map_length, vred_length, (veq_length _ _ Hu), tau_step_length; reflexivity|]. split; [|split].
  - apply Forall_forall. intros y Hy. apply in_map_iff in Hy. destruct Hy as [x [<- Hx]].
    assert (Hnr : nonneg (vred u)) by (eapply nonneg_veq; [apply veq_sym; exact Vr| exact Hn]).
    unfold nonneg in Hnr. rewrite Forall_forall in Hnr. specialize (Hnr x Hx). unfold Qdiv. nra.
  - rewrite qsum_map_div. rewrite (veq_qsum _ _ Vr), <- Es. field. lra.
  - intros s' Hs'. rewrite nthq_map_div. rewrite <- Hs, <- Es.
    rewrite (veq_nthq _ _ s' Vr), (veq_nthq _ _ s' Hu), tau_step_nth by exact Hs'. field. lra.
Qed.

Lemma zero_prob_of_unnorm : forall m b a o u,
  veq u (tau_step m b a o) -> nonneg u -> obs_prob m b a o == 0 ->
  normalise u = map (fun _ => XNaN) u.
Proof.
  intros m b a o u Hu Hn Hp. apply normalise_zero; [exact Hn|].
  rewrite (veq_qsum _ _ Hu), tau_step_eq. exact Hp.
Qed.

Lemma tau_step_nonneg : forall m b a o, wf_pomdp m -> (a < nA (pm m))%nat -> nonneg b -> nonneg (tau_step m b a o).
Proof.
  intros m b a o W Ha Hb. rewrite tau_step_eq. unfold states. apply nonneg_map_seq. intros i Hi.
  apply bayes_nonneg; assumption.
Qed.

(* ------------------------------------------------------------------ normalise respects entrywise equality *)
Lemma xdiv_proper : forall x y s t, x == y -> s == t -> xeq (xdiv x s) (xdiv y t).
Proof.
  intros x y s t Exy Est. unfold xdiv.
  destruct (Qeq_bool s 0) eqn:Es; destruct (Qeq_bool t 0) eqn:Et.
  - destruct (Qlt_le_dec 0 x); destruct (Qlt_le_dec 0 y); try lra; cbn; auto.
    destruct (Qlt_le_dec x 0); destruct (Qlt_le_dec y 0); try lra; cbn; auto.
  - apply Qeq_bool_iff in Es. apply Qeq_bool_neq in Et. exfalso; apply Et; rewrite <- Est; exact Es.
  - apply Qeq_bool_iff in Et. apply Qeq_bool_neq in Es. exfalso; apply Es; rewrite Est; exact Et.
  - cbn. rewrite Exy, Est. reflexivity.
Qed.

Lemma normalise_proper : forall u v, veq u v -> xveq (normalise u) (normalise v).
Proof.
  intros u v H. unfold normalise. cbn zeta.
  assert (Es : Qred (qsum (vred u)) == Qred (qsum (vred v))) by (rewrite !normalise_sum; apply veq_qsum; exact H).
  revert Es. generalize (Qred (qsum (vred u))) (Qred (qsum (vred v))). intros s t Es.
  induction H as [|x y u v E H IH]; cbn [map vred]; constructor; [| exact IH].
  apply xdiv_proper; [rewrite !Qred_correct; exact E| exact Es].
Qed.
