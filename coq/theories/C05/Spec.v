(* C05/Spec.v — the mathematics of Bayes filtering, written pointwise over the model's tables
   (no matrix kernels, no loops with accumulators), plus the boolean checkers the driver's oracle runs
   on the implementation's outputs.  The unnormalised filter itself is Base.Mdp.tau_step. *)
From Coq Require Import List Arith QArith Bool.
From AIT Require Import Base.Qx Base.Mdp.
Import ListNotations.
Local Open Scope Q_scope.

Definition states (m : pomdp) : list nat := seq 0 (nS (pm m)).
Definition obss (m : pomdp) : list nat := seq 0 (nO m).

(* T(s,a,s'), O(s',a,o), R(s,a) *)
Definition Tp (m : pomdp) (s a s' : nat) : Q := nthq (trow (pm m) s a) s'.
Definition Op (m : pomdp) (s' a o : nat) : Q := nthq (orow m s' a) o.
Definition Rp (m : pomdp) (s a : nat) : Q := nthq (row (R (pm m)) s) a.

(* prediction: P(s' | b, a) = sum_s b(s) T(s,a,s') *)
Definition pred_at (m : pomdp) (b : vec) (a s' : nat) : Q :=
  qsum (map (fun s => nthq b s * Tp m s a s') (states m)).
Definition predict (m : pomdp) (b : vec) (a : nat) : vec := map (pred_at m b a) (states m).

(* unnormalised Bayes filter: O(s',a,o) * sum_s T(s,a,s') b(s) *)
Definition bayes_unnorm (m : pomdp) (b : vec) (a o s' : nat) : Q := Op m s' a o * pred_at m b a s'.

(* P(o | b, a) = sum_s' O(s',a,o) sum_s T(s,a,s') b(s) *)
Definition obs_prob (m : pomdp) (b : vec) (a o : nat) : Q :=
  qsum (map (bayes_unnorm m b a o) (states m)).

(* the Bayes posterior: a distribution proportional to the unnormalised filter *)
Definition is_posterior (m : pomdp) (b : vec) (a o : nat) (p : vec) : Prop :=
  length p = nS (pm m) /\ nonneg p /\ qsum p == 1 /\
  forall s', (s' < nS (pm m))%nat -> nthq p s' * obs_prob m b a o == bayes_unnorm m b a o s'.

(* SOSA(s, s') = T(s,a,s') O(s',a,o) *)
Definition sosa_at (m : pomdp) (a o s s' : nat) : Q := Tp m s a s' * Op m s' a o.

(* expected immediate reward of a belief, for a 3-argument reward r(s,a,s') *)
Definition exp_reward3 (m : pomdp) (r3 : nat -> nat -> nat -> Q) (b : vec) (a : nat) : Q :=
  qsum (map (fun s => nthq b s * qsum (map (fun s' => Tp m s a s' * r3 s a s') (states m))) (states m)).

(* ------------------------------------------------------------------ query models vs. tables *)
From AIT Require Import C05.Model.
(* a query model [g] answers exactly the tables of [m] (on in-range indices) *)
Definition repr (g : qmodel) (m : pomdp) : Prop :=
  qS g = nS (pm m) /\ qA g = nA (pm m) /\ qO g = nO m /\
  (forall s a s', (s < nS (pm m))%nat -> (a < nA (pm m))%nat -> (s' < nS (pm m))%nat -> qT g s a s' == Tp m s a s') /\
  (forall s' a o, (s' < nS (pm m))%nat -> (a < nA (pm m))%nat -> (o < nO m)%nat -> qOb g s' a o == Op m s' a o).
(* the 2-argument reward table of [m] is the T-expectation of [g]'s 3-argument reward *)
Definition repr_rew (g : qmodel) (m : pomdp) : Prop :=
  forall s a, (s < nS (pm m))%nat -> (a < nA (pm m))%nat ->
    Rp m s a == qsum (map (fun s' => Tp m s a s' * qR g s a s') (states m)).

(* entrywise equality of IEEE-division results *)
Definition xeq (x y : xq) : Prop :=
  match x, y with
  | XFin p, XFin q => p == q
  | XPInf, XPInf | XNInf, XNInf | XNaN, XNaN => True
  | _, _ => False
  end.
Definition xveq (v w : list xq) : Prop := Forall2 xeq v w.

(* boolean well-formedness of a POMDP (twin of Base.Mdp.wf_pomdp; soundness in ProofsWf.v) *)
Definition rows_distb (n k : nat) (M : list mat) : bool :=
  forallb (fun pa => (length pa =? n)%nat && forallb (fun r => (length r =? k)%nat && is_distb r) pa) M.
Definition wf_pomdpb (m : pomdp) : bool :=
  wf_mdpb (pm m) && (0 <? nO m)%nat && (length (Ob m) =? nA (pm m))%nat &&
  rows_distb (nS (pm m)) (nO m) (Ob m).

(* ------------------------------------------------------------------ Qred twins of the spec, for the driver's oracle
   (exact Q arithmetic never reduces fractions; these compute the same numbers with reduced fractions;
   equality with the definitions above is proved in ProofsLib.v / Proofs.v) *)
Definition qsum_r (l : vec) : Q := fold_right (fun x acc => Qred (x + acc)) 0 l.
Definition pred_at_r (m : pomdp) (b : vec) (a s' : nat) : Q :=
  qsum_r (map (fun s => Qred (nthq b s * Tp m s a s')) (states m)).
Definition predict_r (m : pomdp) (b : vec) (a : nat) : vec := map (pred_at_r m b a) (states m).
Definition tau_step_r (m : pomdp) (b : vec) (a o : nat) : vec :=
  map (fun s' => Qred (Op m s' a o * pred_at_r m b a s')) (states m).
Definition obs_prob_r (m : pomdp) (b : vec) (a o : nat) : Q := qsum_r (tau_step_r m b a o).
Definition exp_reward3_r (m : pomdp) (r3 : nat -> nat -> nat -> Q) (b : vec) (a : nat) : Q :=
  qsum_r (map (fun s => Qred (nthq b s * qsum_r (map (fun s' => Qred (Tp m s a s' * r3 s a s')) (states m)))) (states m)).

(* ------------------------------------------------------------------ checkers (extracted; soundness in ProofsMain.v) *)
(* output vector equals the spec filter exactly (dyadic regime) *)
Definition check_unnorm (m : pomdp) (b : vec) (a o : nat) (out : vec) : bool :=
  veqb out (tau_step_r m b a o).
Definition check_nonneg (out : vec) : bool := nonnegb out.
Definition check_sum (m : pomdp) (b : vec) (a o : nat) (out : vec) : bool :=
  Qeq_bool (qsum out) (obs_prob_r m b a o).
(* sum over observations of the outputs (one vector per observation) equals the prediction *)
Definition vsum (n : nat) (vs : list vec) : vec :=
  map (fun i => qsum (map (fun v => nthq v i) vs)) (seq 0 n).
Definition check_obs_total (m : pomdp) (b : vec) (a : nat) (outs : list vec) : bool :=
  veqb (vsum (nS (pm m)) outs) (predict_r m b a).

(* ------------------------------------------------------------------ operation histories *)
(* a table of exact distributions with the model's dimensions *)
Definition exact_tableb (A S K : nat) (t : list mat) : bool := (length t =? A)%nat && rows_distb S K t.
(* what a history may offer to the setters: a table that the library's (tolerant) validator accepts is an
   exact set of distributions of the right shape — i.e. every table is either exactly valid or rejected —
   and directly stored reward matrices have the model's shape *)
Definition op_ok (S A O : nat) (o : op) : Prop :=
  match o with
  | OpSetObs t => prob_tableb t = true -> exact_tableb A S O t = true
  | OpSetT t => prob_tableb t = true -> exact_tableb A S S t = true
  | OpSetR3 _ => True
  | OpSetR2 r => length r = S /\ Forall (fun row => length row = A) r
  end.

(* ------------------------------------------------------------------ filtering along a history *)
(* unnormalised filter composed along a history; its sum is the probability of the observation sequence *)
Fixpoint tau_hist (m : pomdp) (tau : vec) (h : list (nat * nat)) : vec :=
  match h with [] => tau | (a, o) :: t => tau_hist m (tau_step m tau a o) t end.
Definition hist_prob (m : pomdp) (b : vec) (h : list (nat * nat)) : Q := qsum (tau_hist m b h).
Definition hist_ok (m : pomdp) (h : list (nat * nat)) : Prop :=
  Forall (fun ao => (fst ao < nA (pm m))%nat /\ (snd ao < nO m)%nat) h.
(* reduced-fraction twin for the driver *)
Fixpoint tau_hist_r (m : pomdp) (tau : vec) (h : list (nat * nat)) : vec :=
  match h with [] => tau | (a, o) :: t => tau_hist_r m (tau_step_r m tau a o) t end.
