(* C05/ProofsMain.v — the property-level statements of C05, assembled from Proofs.v. *)
From Coq Require Import List Arith QArith Qminmax Lqa Lia Bool.
From AIT Require Import Base.Qx Base.Mdp C05.Model C05.Spec C05.ProofsLib C05.Proofs.
Import ListNotations.
Local Open Scope Q_scope.

Lemma unnorm_is_bayes_lemma : forall m g b a o,
  wf_pomdp m -> repr g m -> length b = nS (pm m) -> (a < nA (pm m))%nat -> (o < nO m)%nat ->
  veq (unnormE m b a o) (tau_step m b a o) /\ veq (unnormQ g b a o) (tau_step m b a o).
Proof.
  intros m g b a o W G Hb Ha Ho. split; [apply unnormE_is_bayes; assumption| apply unnormQ_is_bayes; assumption].
Qed.

Lemma unnorm_nonneg_lemma : forall m g b a o,
  wf_pomdp m -> repr g m -> length b = nS (pm m) -> nonneg b -> (a < nA (pm m))%nat -> (o < nO m)%nat ->
  nonneg (unnormE m b a o) /\ nonneg (unnormQ g b a o).
Proof.
  intros m g b a o W G Hb Hn Ha Ho.
  pose proof (tau_step_nonneg m b a o W Ha Hn) as Ht.
  split; (eapply nonneg_veq; [apply veq_sym| exact Ht]);
    [apply unnormE_is_bayes; assumption| apply unnormQ_is_bayes; assumption].
Qed.

(* P(o|b,a) written out as in the property's statement *)
Lemma obs_prob_formula : forall m b a o,
  obs_prob m b a o ==
  qsum (map (fun s' => Op m s' a o * qsum (map (fun s => Tp m s a s' * nthq b s) (states m))) (states m)).
Proof.
  intros m b a o. unfold obs_prob, bayes_unnorm, pred_at. apply qsum_map_ext. intros s' _.
  rewrite (qsum_map_ext nat (fun s => nthq b s * Tp m s a s') (fun s => Tp m s a s' * nthq b s)); [reflexivity|].
  intros s _. lra.
Qed.

Lemma unnorm_sums_lemma : forall m g b a o,
  wf_pomdp m -> repr g m -> length b = nS (pm m) -> (a < nA (pm m))%nat -> (o < nO m)%nat ->
  qsum (unnormE m b a o) == obs_prob m b a o /\ qsum (unnormQ g b a o) == obs_prob m b a o /\
  obs_prob m b a o ==
    qsum (map (fun s' => Op m s' a o * qsum (map (fun s => Tp m s a s' * nthq b s) (states m))) (states m)).
Proof.
  intros m g b a o W G Hb Ha Ho. split; [|split].
  - rewrite (veq_qsum _ _ (unnormE_is_bayes m W b a Ha Hb o)). reflexivity.
  - rewrite (veq_qsum _ _ (unnormQ_is_bayes m g G b a Ha o Ho)). reflexivity.
  - apply obs_prob_formula.
Qed.

Lemma sum_over_obs_lemma : forall m g b a,
  wf_pomdp m -> repr g m -> length b = nS (pm m) -> (a < nA (pm m))%nat ->
  (forall s', (s' < nS (pm m))%nat ->
     qsum (map (fun o => nthq (unnormE m b a o) s') (obss m)) == pred_at m b a s' /\
     qsum (map (fun o => nthq (unnormQ g b a o) s') (obss m)) == pred_at m b a s' /\
     nthq (partialE m b a) s' == pred_at m b a s' /\ nthq (partialQ g b a) s' == pred_at m b a s') /\
  qsum (map (fun o => obs_prob m b a o) (obss m)) == qsum b.
Proof.
  intros m g b a W G Hb Ha. split; [| apply obs_prob_total; assumption].
  intros s' Hs. split; [|split; [|split]].
  - rewrite <- (bayes_obs_total m b a s' W Ha Hs). apply qsum_map_ext. intros o Ho. apply in_seq in Ho.
    apply unnormE_nth; assumption.
  - rewrite <- (bayes_obs_total m b a s' W Ha Hs). apply qsum_map_ext. intros o Ho. apply in_seq in Ho.
    apply unnormQ_nth; try assumption; lia.
  - apply partialE_nth; assumption.
  - apply partialQ_nth; assumption.
Qed.

Lemma predict_simplex_lemma : forall m g b a,
  wf_pomdp m -> repr g m -> simplex (nS (pm m)) b -> (a < nA (pm m))%nat ->
  simplex (nS (pm m)) (predict m b a) /\ veq (partialE m b a) (predict m b a) /\ veq (partialQ g b a) (predict m b a).
Proof.
  intros m g b a W G Hb Ha. destruct Hb as [Hl Hd]. split; [apply predict_simplex; [assumption..| split; assumption]|].
  split; [apply partialE_is_predict; assumption|].
  apply veq_nth; [rewrite (partialQ_length m g G); unfold predict, states; rewrite map_length, seq_length; reflexivity|].
  intros i Hi. rewrite (partialQ_length m g G) in Hi. rewrite (partialQ_nth m g G) by assumption.
  unfold predict, states. rewrite nthq_map_seq by assumption. reflexivity.
Qed.

(* the second stage, applied to the first stage's output, in either branch *)
Lemma two_stage_lemma : forall m g b a o,
  wf_pomdp m -> repr g m -> length b = nS (pm m) -> (a < nA (pm m))%nat -> (o < nO m)%nat ->
  veq (punnormE m (partialE m b a) a o) (unnormE m b a o) /\
  veq (punnormQ g (partialQ g b a) a o) (unnormQ g b a o) /\
  xveq (pnormE m (partialE m b a) a o) (updateE m b a o) /\
  xveq (pnormQ g (partialQ g b a) a o) (updateQ g b a o).
Proof.
  intros m g b a o W G Hb Ha Ho. split; [|split; [|split]].
  - rewrite <- unnormE_two_stage. apply veq_refl.
  - apply unnormQ_two_stage.
  - unfold pnormE, updateE. rewrite <- unnormE_two_stage. apply normalise_proper. apply veq_refl.
  - unfold pnormQ, updateQ. apply normalise_proper. apply unnormQ_two_stage.
Qed.

Lemma normalised_is_posterior_lemma : forall m g b a o,
  wf_pomdp m -> repr g m -> simplex (nS (pm m)) b -> (a < nA (pm m))%nat -> (o < nO m)%nat ->
  0 < obs_prob m b a o ->
  (exists p, updateE m b a o = map XFin p /\ is_posterior m b a o p) /\
  (exists p, updateQ g b a o = map XFin p /\ is_posterior m b a o p) /\
  (exists p, pnormE m (partialE m b a) a o = map XFin p /\ is_posterior m b a o p) /\
  (exists p, pnormQ g (partialQ g b a) a o = map XFin p /\ is_posterior m b a o p).
Proof.
  intros m g b a o W G [Hb [Hn _]] Ha Ho Hp.
  destruct (unnorm_nonneg_lemma m g b a o W G Hb Hn Ha Ho) as [NE NQ].
  pose proof (unnormE_is_bayes m W b a Ha Hb o) as VE. pose proof (unnormQ_is_bayes m g G b a Ha o Ho) as VQ.
  split; [|split; [|split]].
  - apply posterior_of_unnorm; assumption.
  - apply posterior_of_unnorm; assumption.
  - unfold pnormE. rewrite <- unnormE_two_stage. apply posterior_of_unnorm; assumption.
  - pose proof (unnormQ_two_stage g b a o) as V2. unfold pnormQ. apply posterior_of_unnorm.
    + eapply veq_trans; eassumption.
    + eapply nonneg_veq; [apply veq_sym; exact V2| exact NQ].
    + exact Hp.
Qed.

(* zero-probability observation: 0/0 in every entry *)
Lemma normalised_zero_prob_lemma : forall m g b a o,
  wf_pomdp m -> repr g m -> simplex (nS (pm m)) b -> (a < nA (pm m))%nat -> (o < nO m)%nat ->
  obs_prob m b a o == 0 ->
  updateE m b a o = repeat XNaN (nS (pm m)) /\ updateQ g b a o = repeat XNaN (nS (pm m)).
Proof.
  intros m g b a o W G [Hb [Hn _]] Ha Ho Hp.
  destruct (unnorm_nonneg_lemma m g b a o W G Hb Hn Ha Ho) as [NE NQ].
  pose proof (unnormE_is_bayes m W b a Ha Hb o) as VE. pose proof (unnormQ_is_bayes m g G b a Ha o Ho) as VQ.
  assert (Hrep : forall (u : vec) n, length u = n -> map (fun _ => XNaN) u = repeat XNaN n).
  { induction u as [|x u IH]; intros n Hl; subst n; [reflexivity|]. cbn [map length repeat]. f_equal. apply IH; reflexivity. }
  split.
  - unfold updateE. rewrite (zero_prob_of_unnorm m b a o _ VE NE Hp). apply Hrep. exact (unnormE_length m W b a Ha o).
  - unfold updateQ. rewrite (zero_prob_of_unnorm m b a o _ VQ NQ Hp). apply Hrep. apply (unnormQ_length m g G).
Qed.

Lemma sosa_row_lemma : forall m g b a o,
  wf_pomdp m -> repr g m -> length b = nS (pm m) -> (a < nA (pm m))%nat -> (o < nO m)%nat ->
  veq (vecmat b (sosaE m a o) (nS (pm m))) (unnormE m b a o) /\
  veq (vecmat b (sosaQ g a o) (qS g)) (unnormQ g b a o) /\
  (forall s s', (s < nS (pm m))%nat -> (s' < nS (pm m))%nat ->
     nthq (row (sosaE m a o) s) s' == sosa_at m a o s s' /\ nthq (row (sosaQ g a o) s) s' == sosa_at m a o s s').
Proof.
  intros m g b a o W G Hb Ha Ho. split; [|split].
  - apply sosaE_row; assumption.
  - apply (sosaQ_row m g G); assumption.
  - intros s s' Hs Hs'. split; [apply sosaE_entry| apply (sosaQ_entry m g G); assumption].
Qed.

Lemma expected_reward_lemma : forall m g b a,
  wf_pomdp m -> repr g m -> length b = nS (pm m) -> (a < nA (pm m))%nat ->
  rewE m b a == rew_at m b a /\
  rewQ g b a == exp_reward3 m (qR g) b a /\
  (repr_rew g m -> rewQ g b a == rewE m b a) /\
  rewQ (queries_of m) b a == rewE m b a.
Proof.
  intros m g b a W G Hb Ha. split; [|split; [|split]].
  - exact (rewE_eq m W b a Ha Hb).
  - apply (rewQ_eq3 m g G); assumption.
  - intros GR. rewrite (rewQ_eq m g G b a Ha GR). symmetry. exact (rewE_eq m W b a Ha Hb).
  - rewrite (rewQ_eq m (queries_of m) (queries_of_repr m) b a Ha (queries_of_repr_rew m W)).
    symmetry. exact (rewE_eq m W b a Ha Hb).
Qed.

(* Eigen branch and query branch give the same results *)
Lemma paths_agree_lemma : forall m g b a o,
  wf_pomdp m -> repr g m -> length b = nS (pm m) -> (a < nA (pm m))%nat -> (o < nO m)%nat ->
  veq (unnormE m b a o) (unnormQ g b a o) /\
  xveq (updateE m b a o) (updateQ g b a o) /\
  veq (partialE m b a) (partialQ g b a) /\
  (forall v, length v = nS (pm m) -> veq (punnormE m v a o) (punnormQ g v a o) /\
                                      xveq (pnormE m v a o) (pnormQ g v a o)) /\
  (forall s s', (s < nS (pm m))%nat -> (s' < nS (pm m))%nat ->
     nthq (row (sosaE m a o) s) s' == nthq (row (sosaQ g a o) s) s').
Proof.
  intros m g b a o W G Hb Ha Ho.
  assert (V : veq (unnormE m b a o) (unnormQ g b a o)).
  { eapply veq_trans; [apply unnormE_is_bayes; assumption| apply veq_sym; apply unnormQ_is_bayes; assumption]. }
  split; [exact V|]. split; [apply normalise_proper; exact V|]. split; [|split].
  - apply veq_nth; [rewrite partialE_length, (partialQ_length m g G); reflexivity|].
    intros i Hi. rewrite partialE_length in Hi.
    rewrite partialE_nth, (partialQ_nth m g G) by assumption. reflexivity.
  - intros v Hv.
    assert (V2 : veq (punnormE m v a o) (punnormQ g v a o)).
    { apply veq_nth; [rewrite punnormE_length, (punnormQ_length m g G); try assumption; reflexivity|].
      intros i Hi. rewrite punnormE_length in Hi by assumption.
      rewrite punnormE_nth, (punnormQ_nth m g G) by assumption. reflexivity. }
    split; [exact V2| apply normalise_proper; exact V2].
  - intros s s' Hs Hs'. rewrite sosaE_entry, (sosaQ_entry m g G) by assumption. reflexivity.
Qed.

(* the library's own models, and table-backed user models, are covered by [repr] *)
Lemma repr_instances_lemma :
  (forall m, repr (queries_of m) m) /\
  (forall m, wf_pomdp m -> repr_rew (queries_of m) m) /\
  (forall S A O T Obs R3 g, repr (table_model S A O T Obs R3) (mk_pomdp S A O T Obs R3 g) /\
                             repr_rew (table_model S A O T Obs R3) (mk_pomdp S A O T Obs R3 g)).
Proof.
  split; [exact queries_of_repr|]. split; [exact queries_of_repr_rew|].
  intros. split; [apply table_model_repr| apply table_model_repr_rew].
Qed.

(* ------------------------------------------------------------------ oracle side: twins and checkers *)
Lemma spec_twins_lemma : forall m b a o r3,
  veq (tau_step_r m b a o) (tau_step m b a o) /\ obs_prob_r m b a o == obs_prob m b a o /\
  veq (predict_r m b a) (predict m b a) /\ exp_reward3_r m r3 b a == exp_reward3 m r3 b a.
Proof.
  intros. split; [apply tau_step_r_veq|]. split; [apply obs_prob_r_eq|]. split; [apply predict_r_veq| apply exp_reward3_r_eq].
Qed.

Lemma veqb_sound : forall v w, veqb v w = true -> veq v w.
Proof.
  intros v w H. unfold veqb in H. apply andb_prop in H. destruct H as [Hl H]. apply Nat.eqb_eq in Hl.
  revert w Hl H. induction v as [|x v IH]; intros [|y w] Hl H; cbn in Hl; try discriminate; constructor.
  - cbn [combine forallb fst snd] in H. apply andb_prop in H. destruct H as [H _]. apply Qeq_bool_iff. exact H.
  - apply IH; [lia|]. cbn [combine forallb] in H. apply andb_prop in H. destruct H as [_ H]. exact H.
Qed.

Lemma checkers_sound_lemma : forall m b a o out outs,
  (check_unnorm m b a o out = true -> veq out (tau_step m b a o)) /\
  (check_nonneg out = true -> nonneg out) /\
  (check_sum m b a o out = true -> qsum out == obs_prob m b a o) /\
  (check_obs_total m b a outs = true -> veq (vsum (nS (pm m)) outs) (predict m b a)).
Proof.
  intros. split; [|split; [|split]].
  - intros H. eapply veq_trans; [apply veqb_sound; exact H| apply tau_step_r_veq].
  - intros H. unfold check_nonneg, nonnegb in H. rewrite forallb_forall in H. apply Forall_forall.
    intros x Hx. apply Qle_bool_iff. apply H; exact Hx.
  - intros H. unfold check_sum in H. apply Qeq_bool_iff in H. rewrite H. apply obs_prob_r_eq.
  - intros H. eapply veq_trans; [apply veqb_sound; exact H| apply predict_r_veq].
Qed.

(* ------------------------------------------------------------------ boundary case: uninformative observation *)
(* if the observation column is constant (O(s',a,o) = c > 0 for every s'), observing o carries no
   information: P(o|b,a) = c and the posterior is the prediction b*T_a *)
Lemma uninformative_lemma : forall m b a o c p,
  wf_pomdp m -> simplex (nS (pm m)) b -> (a < nA (pm m))%nat -> (o < nO m)%nat ->
  (forall s', (s' < nS (pm m))%nat -> Op m s' a o == c) -> 0 < c ->
  is_posterior m b a o p ->
  obs_prob m b a o == c /\ veq p (predict m b a).
Proof.
  intros m b a o c p W [Hb [Hn Hsum]] Ha Ho Hc Hpos [Hl [_ [_ Hprop]]].
  assert (HP : obs_prob m b a o == c).
  { unfold obs_prob, bayes_unnorm.
    rewrite (qsum_map_ext nat (fun s' => Op m s' a o * pred_at m b a s') (fun s' => c * pred_at m b a s')).
    - rewrite (qsum_map_scale_l nat (pred_at m b a) c (states m)). fold (predict m b a).
      rewrite (predict_sum m b a W Ha Hb), Hsum. lra.
    - intros s' Hin. apply in_seq in Hin. rewrite Hc by lia. reflexivity. }
  split; [exact HP|].
  apply veq_nth; [rewrite Hl; unfold predict, states; rewrite map_length, seq_length; reflexivity|].
  intros i Hi. rewrite Hl in Hi. unfold predict, states. rewrite nthq_map_seq by exact Hi.
  specialize (Hprop i Hi). rewrite HP in Hprop. unfold bayes_unnorm in Hprop. rewrite (Hc i Hi) in Hprop.
  apply (Qmult_inj_r _ _ c); [lra|]. rewrite Hprop. ring.
Qed.

(* ------------------------------------------------------------------ without the row-sum hypothesis *)
(* for ANY tables: the unnormalised filter summed over the observations is the prediction times the row
   sum of O; so a model whose observation rows sum to 1 - d (a sparse model that dropped mass d) loses
   exactly the fraction d of the predicted mass, and nothing else *)
Lemma obs_total_general_lemma : forall m b a s',
  qsum (map (fun o => bayes_unnorm m b a o s') (obss m)) == pred_at m b a s' * qsum (map (fun o => Op m s' a o) (obss m)).
Proof.
  intros m b a s'. unfold bayes_unnorm.
  rewrite (qsum_map_scale_r nat (fun o => Op m s' a o) (pred_at m b a s') (obss m)). ring.
Qed.
