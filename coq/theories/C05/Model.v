(* C05/Model.v — executable models of the belief-update helpers of
   include/AIToolbox/POMDP/Utils.hpp, each in its two code paths:
     *E  — the `if constexpr (IsModelEigen<M>)` branch (matrix expressions; used by POMDP::Model<MDP::Model>
           and POMDP::SparseModel<MDP::SparseModel>), Eigen kernels modelled by their documented meaning;
     *Q  — the query-loop branch (any model answering getTransitionProbability / getObservationProbability /
           getExpectedReward), same loop order and accumulators as the code.
   No proofs here. *)
From Coq Require Import List Arith QArith Bool.
From AIT Require Import Base.Qx Base.Mdp.
Import ListNotations.
Local Open Scope Q_scope.

(* result of an IEEE division: finite quotient, or what x/0 gives *)
Inductive xq := XFin (q : Q) | XPInf | XNInf | XNaN.

(* ------------------------------------------------------------------ Eigen kernels *)
(* M.col(j) *)
Definition col (M : mat) (j : nat) : vec := map (fun r => nthq r j) M.
(* (b.transpose() * M).transpose() for M with n columns *)
Definition vecmat (b : vec) (M : mat) (n : nat) : vec := map (fun j => dot b (col M j)) (seq 0 n).
(* u.cwiseProduct(v) *)
Fixpoint cwise (u v : vec) : vec :=
  match u, v with x :: u', y :: v' => x * y :: cwise u' v' | _, _ => [] end.
(* M * d.asDiagonal() : scales column j by d[j] *)
Definition mat_diag (M : mat) (d : vec) : mat := map (fun r => cwise r d) M.
(* x / s in IEEE arithmetic (finite x, s) *)
Definition xdiv (x s : Q) : xq :=
  if Qeq_bool s 0
  then (if Qlt_le_dec 0 x then XPInf else if Qlt_le_dec x 0 then XNInf else XNaN)
  else XFin (x / s).
(* Fractions are reduced (Qred) at step boundaries so that the extracted model stays fast; Qred q == q,
   so this changes no value (exact Q arithmetic never normalises by itself). *)
Definition vred (v : vec) : vec := map Qred v.
(* br /= br.sum() *)
Definition normalise (v : vec) : list xq :=
  let w := vred v in let s := Qred (qsum w) in map (fun x => xdiv x s) w.

(* accessors of the Eigen models *)
Definition tmat (m : pomdp) (a : nat) : mat := nth a (P (pm m)) [].   (* src: MDP/Model.hpp:getTransitionFunction(a), S x S' *)
Definition omat (m : pomdp) (a : nat) : mat := nth a (Ob m) [].       (* src: POMDP/Model.hpp:getObservationFunction(a), S' x O *)
Definition rmat (m : pomdp) : mat := R (pm m).                        (* src: MDP/Model.hpp:getRewardFunction(), S x A *)

(* ------------------------------------------------------------------ Eigen branch *)
(* src: POMDP/Utils.hpp:updateBeliefPartial  —  br = (b.transpose() * T_a).transpose() *)
Definition partialE (m : pomdp) (b : vec) (a : nat) : vec := vecmat b (tmat m a) (nS (pm m)).
(* src: POMDP/Utils.hpp:updateBeliefUnnormalized — br = O_a.col(o).cwiseProduct((b.transpose() * T_a).transpose()) *)
Definition unnormE (m : pomdp) (b : vec) (a o : nat) : vec :=
  cwise (col (omat m a) o) (vecmat b (tmat m a) (nS (pm m))).
(* src: POMDP/Utils.hpp:updateBelief — updateBeliefUnnormalized; br /= br.sum() *)
Definition updateE (m : pomdp) (b : vec) (a o : nat) : list xq := normalise (unnormE m b a o).
(* src: POMDP/Utils.hpp:updateBeliefPartialUnnormalized — br = O_a.col(o).cwiseProduct(b) *)
Definition punnormE (m : pomdp) (b : vec) (a o : nat) : vec := cwise (col (omat m a) o) b.
(* src: POMDP/Utils.hpp:updateBeliefPartialNormalized *)
Definition pnormE (m : pomdp) (b : vec) (a o : nat) : list xq := normalise (punnormE m b a o).
(* src: POMDP/Utils.hpp:makeSOSA — retval[a][o] = T_a * Vector(O_a.col(o)).asDiagonal() *)
Definition sosaE (m : pomdp) (a o : nat) : mat := mat_diag (tmat m a) (col (omat m a) o).
(* src: POMDP/Utils.hpp:beliefExpectedReward — R.col(a).dot(b) *)
Definition rewE (m : pomdp) (b : vec) (a : nat) : Q := dot (col (rmat m) a) b.

(* ------------------------------------------------------------------ query-loop branch *)
(* what the generic branch may ask a model *)
Record qmodel := {
  qS : nat; qA : nat; qO : nat;
  qT : nat -> nat -> nat -> Q;     (* getTransitionProbability(s, a, s1) *)
  qR : nat -> nat -> nat -> Q;     (* getExpectedReward(s, a, s1) *)
  qOb : nat -> nat -> nat -> Q     (* getObservationProbability(s1, a, o) *)
}.

(* double sum = 0.0; for (s = 0; s < n; ++s) sum += f(s); *)
Definition loop_sum (f : nat -> Q) (n : nat) : Q := fold_left (fun acc s => Qred (acc + f s)) (seq 0 n) 0.

(* src: POMDP/Utils.hpp:updateBeliefPartial (else branch) *)
Definition partialQ (g : qmodel) (b : vec) (a : nat) : vec :=
  map (fun s1 => loop_sum (fun s => qT g s a s1 * nthq b s) (qS g)) (seq 0 (qS g)).
(* src: POMDP/Utils.hpp:updateBeliefUnnormalized (else branch) *)
Definition unnormQ (g : qmodel) (b : vec) (a o : nat) : vec :=
  map (fun s1 => qOb g s1 a o * loop_sum (fun s => qT g s a s1 * nthq b s) (qS g)) (seq 0 (qS g)).
Definition updateQ (g : qmodel) (b : vec) (a o : nat) : list xq := normalise (unnormQ g b a o).
(* src: POMDP/Utils.hpp:updateBeliefPartialUnnormalized (else branch) *)
Definition punnormQ (g : qmodel) (b : vec) (a o : nat) : vec :=
  map (fun s => qOb g s a o * nthq b s) (seq 0 (qS g)).
Definition pnormQ (g : qmodel) (b : vec) (a o : nat) : list xq := normalise (punnormQ g b a o).
(* src: POMDP/Utils.hpp:makeSOSA (else branch) — retval[a][o](s, s1) = T(s,a,s1) * O(s1,a,o) *)
Definition sosaQ (g : qmodel) (a o : nat) : mat :=
  map (fun s => map (fun s1 => qT g s a s1 * qOb g s1 a o) (seq 0 (qS g))) (seq 0 (qS g)).
(* src: POMDP/Utils.hpp:beliefExpectedReward (else branch) — one accumulator over the double loop *)
Definition rewQ (g : qmodel) (b : vec) (a : nat) : Q :=
  fold_left (fun rew s =>
      fold_left (fun rew' s1 => Qred (rew' + qT g s a s1 * qR g s a s1 * nthq b s)) (seq 0 (qS g)) rew)
    (seq 0 (qS g)) 0.

(* ------------------------------------------------------------------ the queries of the library's own models *)
(* src: MDP/Model.hpp:getTransitionProbability = transitions_[a](s,s1); getExpectedReward(s,a,s1) = rewards_(s,a);
        POMDP/Model.hpp:getObservationProbability = observations_[a](s1,o) *)
Definition queries_of (m : pomdp) : qmodel :=
  {| qS := nS (pm m); qA := nA (pm m); qO := nO m;
     qT := fun s a s1 => nthq (row (tmat m a) s) s1;
     qR := fun s a _ => nthq (row (rmat m) s) a;
     qOb := fun s1 a o => nthq (row (omat m a) s1) o |}.

(* a user-defined model answering from tables: T[a][s][s1], Ob[a][s1][o], R3[s][a][s1] *)
Definition table_model (S A O : nat) (T Obs : list mat) (R3 : list mat) : qmodel :=
  {| qS := S; qA := A; qO := O;
     qT := fun s a s1 => nthq (row (nth a T []) s) s1;
     qR := fun s a s1 => nthq (row (nth s R3 []) a) s1;
     qOb := fun s1 a o => nthq (row (nth a Obs []) s1) o |}.

(* src: MDP/Model.hpp:setRewardFunction — rewards_(s,a) = sum_s1 r[s][a][s1] * transitions_[a](s,s1)
   (what the 5-argument constructor of the dense/sparse model stores for a 3-D reward table) *)
Definition fold_rewards (S A : nat) (T : list mat) (R3 : list mat) : mat :=
  map (fun s => map (fun a =>
        loop_sum (fun s1 => nthq (row (nth s R3 []) a) s1 * nthq (row (nth a T []) s) s1) S)
      (seq 0 A)) (seq 0 S).
Definition mk_pomdp (S A O : nat) (T Obs : list mat) (R3 : list mat) (g : Q) : pomdp :=
  {| pm := {| nS := S; nA := A; P := T; R := fold_rewards S A T R3; gam := g |}; nO := O; Ob := Obs |}.

(* src: MDP/SparseModel.hpp:setTransitionFunction / POMDP/SparseModel.hpp:setObservationFunction —
   an entry is stored only if checkDifferentSmall(0.0, p), i.e. |p| > 1e-6; others read back as 0 *)
Definition sparsify (x : Q) : Q := if Qle_bool (qabs x) epsS then 0 else x.
Definition sparsify_mat (M : mat) : mat := map (map sparsify) M.
Definition sparse_of (m : pomdp) : pomdp :=
  {| pm := {| nS := nS (pm m); nA := nA (pm m); P := map sparsify_mat (P (pm m));
              R := sparsify_mat (R (pm m)); gam := gam (pm m) |};
     nO := nO m; Ob := map sparsify_mat (Ob m) |}.

(* ------------------------------------------------------------------ a model object over its life *)
(* The belief-update helpers read whatever the model object holds at the time of the call, so the
   property has to hold after any history of public mutators.  State = the tables held (a [pomdp]);
   operations = the setters of POMDP::Model / MDP::Model (POMDP::SparseModel / MDP::SparseModel have the
   same logic on sparsified tables).  Both overloads of a validating setter (3-D container / Eigen
   matrices) apply the same test and are one operation here. *)

(* src: Utils/Probability.hpp:isProbability(size, in) and Probability.cpp:isProbability(Matrix2D) —
   a row is accepted iff no entry is negative and checkEqualSmall(sum, 1.0) *)
Definition prob_rowb (r : vec) : bool :=
  forallb (fun x => Qle_bool 0 x) r && Qle_bool (qabs (qsum r - 1)) epsS.
Definition prob_tableb (t : list mat) : bool := forallb (forallb prob_rowb) t.

Inductive op :=
| OpSetObs (t : list mat)      (* setObservationFunction: t[a][s1][o] *)
| OpSetT (t : list mat)        (* setTransitionFunction:  t[a][s][s1] *)
| OpSetR3 (r3 : list mat)      (* setRewardFunction(3-D container): r3[s][a][s1], folded with the current T *)
| OpSetR2 (r : mat).           (* setRewardFunction(Matrix2D): r[s][a], stored as is *)

Definition with_obs (st : pomdp) (t : list mat) : pomdp := {| pm := pm st; nO := nO st; Ob := t |}.
Definition with_T (st : pomdp) (t : list mat) : pomdp :=
  {| pm := {| nS := nS (pm st); nA := nA (pm st); P := t; R := R (pm st); gam := gam (pm st) |};
     nO := nO st; Ob := Ob st |}.
Definition with_R (st : pomdp) (r : mat) : pomdp :=
  {| pm := {| nS := nS (pm st); nA := nA (pm st); P := P (pm st); R := r; gam := gam (pm st) |};
     nO := nO st; Ob := Ob st |}.

(* one public mutator call: (new state, accepted?).  A rejected call (the C++ throws
   std::invalid_argument) leaves the object as it was: validate first, commit afterwards.
   src: POMDP/Model.hpp:setObservationFunction (both overloads), MDP/Model.hpp + src/MDP/Model.cpp:
   setTransitionFunction (both overloads), setRewardFunction (both overloads; never rejects) *)
Definition step (st : pomdp) (o : op) : pomdp * bool :=
  match o with
  | OpSetObs t => if prob_tableb t then (with_obs st t, true) else (st, false)
  | OpSetT t => if prob_tableb t then (with_T st t, true) else (st, false)
  | OpSetR3 r3 => (with_R st (fold_rewards (nS (pm st)) (nA (pm st)) (P (pm st)) r3), true)
  | OpSetR2 r => (with_R st r, true)
  end.
Fixpoint run (st : pomdp) (ops : list op) : pomdp :=
  match ops with [] => st | o :: t => run (fst (step st o)) t end.

(* ------------------------------------------------------------------ filtering along a history *)
(* all entries finite? *)
Fixpoint xfins (l : list xq) : option vec :=
  match l with
  | [] => Some []
  | XFin q :: t => match xfins t with Some v => Some (q :: v) | None => None end
  | _ :: _ => None
  end.
(* b = updateBelief(model, b, a, o) repeated along a list of (action, observation) pairs; None as soon as a
   result is not finite (zero-probability observation) *)
Fixpoint iter_hist (upd : vec -> nat -> nat -> list xq) (b : vec) (h : list (nat * nat)) : option vec :=
  match h with
  | [] => Some b
  | (a, o) :: t => match xfins (upd b a o) with Some b' => iter_hist upd b' t | None => None end
  end.
Definition updateE_hist (m : pomdp) : vec -> list (nat * nat) -> option vec := iter_hist (updateE m).
Definition updateQ_hist (g : qmodel) : vec -> list (nat * nat) -> option vec := iter_hist (updateQ g).
