(* C05/ProofsHist.v — filtering along a history: normalising after every step (what repeated calls of
   updateBelief do) gives the same belief as composing the unnormalised filter and normalising once; the
   normaliser is the probability of the observation sequence. *)
From Coq Require Import List Arith QArith Qminmax Lqa Lia Bool.
From AIT Require Import Base.Qx Base.Mdp C05.Model C05.Spec C05.ProofsLib C05.Proofs C05.ProofsMain.
Import ListNotations.
Local Open Scope Q_scope.

Lemma xfins_map : forall p, xfins (map XFin p) = Some p.
Proof. induction p as [|x p IH]; cbn [map xfins]; [reflexivity| rewrite IH; reflexivity]. Qed.

(* the unnormalised filter depends only on the entries, and is linear *)
Lemma tau_step_proper : forall m v w a o, veq v w -> veq (tau_step m v a o) (tau_step m w a o).
Proof.
  intros m v w a o H. unfold tau_step. apply veq_map_seq. intros i _.
  rewrite (qsum_map_ext nat (fun s => nthq v s * nthq (trow (pm m) s a) i) (fun s => nthq w s * nthq (trow (pm m) s a) i)); [reflexivity|].
  intros s _. rewrite (veq_nthq _ _ s H). reflexivity.
Qed.

(* v is entrywise c times w *)
Definition scaled (c : Q) (v w : vec) : Prop := length v = length w /\ forall i, nthq v i == c * nthq w i.

Lemma tau_step_scaled : forall m c v w a o, scaled c v w -> scaled c (tau_step m v a o) (tau_step m w a o).
Proof.
  intros m c v w a o [_ H]. split; [rewrite !tau_step_length; reflexivity|]. intros i.
  destruct (Nat.lt_ge_cases i (nS (pm m))) as [Hi|Hi].
  - rewrite !tau_step_nth by exact Hi. unfold bayes_unnorm, pred_at.
    rewrite (qsum_map_ext nat (fun s => nthq v s * Tp m s a i) (fun s => c * (nthq w s * Tp m s a i))).
    + rewrite (qsum_map_scale_l nat (fun s => nthq w s * Tp m s a i) c (states m)). ring.
    + intros s _. rewrite (H s). ring.
  - rewrite !nthq_overflow by (rewrite tau_step_length; exact Hi). ring.
Qed.

Lemma tau_hist_scaled : forall m h c v w, scaled c v w -> scaled c (tau_hist m v h) (tau_hist m w h).
Proof.
  intros m h. induction h as [|[a o] h IH]; intros c v w H; cbn [tau_hist]; [exact H|].
  apply IH. apply tau_step_scaled. exact H.
Qed.

Lemma scaled_qsum : forall c v w, scaled c v w -> qsum v == c * qsum w.
Proof.
  intros c v w [Hl H]. rewrite (qsum_as_index v), (qsum_as_index w), Hl.
  rewrite <- (qsum_map_scale_l nat (nthq w) c (seq 0 (length w))). apply qsum_map_ext. intros i _. apply H.
Qed.

Lemma tau_hist_nonneg : forall m h v, wf_pomdp m -> hist_ok m h -> nonneg v -> nonneg (tau_hist m v h).
Proof.
  intros m h. induction h as [|[a o] h IH]; intros v W Hh Hn; cbn [tau_hist]; [exact Hn|].
  inversion Hh as [|? ? [Ha Ho] Hh']; subst. cbn [fst snd] in *.
  apply IH; try assumption. apply tau_step_nonneg; assumption.
Qed.

Lemma tau_hist_length : forall m h v, length v = nS (pm m) -> length (tau_hist m v h) = nS (pm m).
Proof.
  intros m h. induction h as [|[a o] h IH]; intros v Hv; cbn [tau_hist]; [exact Hv|]. apply IH. apply tau_step_length.
Qed.

(* any one-step update that returns the Bayes posterior, iterated *)
Lemma hist_filter_gen : forall m (upd : vec -> nat -> nat -> list xq),
  (forall b a o, simplex (nS (pm m)) b -> (a < nA (pm m))%nat -> (o < nO m)%nat -> 0 < obs_prob m b a o ->
     exists p, upd b a o = map XFin p /\ is_posterior m b a o p) ->
  forall h b,
  wf_pomdp m -> hist_ok m h -> simplex (nS (pm m)) b -> 0 < hist_prob m b h ->
  exists p, iter_hist upd b h = Some p /\ simplex (nS (pm m)) p /\
            forall i, nthq p i * hist_prob m b h == nthq (tau_hist m b h) i.
Proof.
  intros m upd Hupd h. induction h as [|[a o] h IH]; intros b W Hh Hb Hpos.
  - exists b. split; [reflexivity|]. split; [exact Hb|]. intros i. unfold hist_prob in *. cbn [tau_hist] in *.
    destruct Hb as [_ [_ Hs]]. rewrite Hs. ring.
  - inversion Hh as [|? ? [Ha Ho] Hh']; subst. cbn [fst snd] in *.
    unfold hist_prob in Hpos. cbn [tau_hist] in Hpos.
    pose proof Hb as [Hbl [Hbn Hbs]].
    set (u := tau_step m b a o) in *.
    assert (Hun : nonneg u) by (apply tau_step_nonneg; assumption).
    (* the first observation has positive probability, otherwise the whole history has probability 0 *)
    assert (Hp1 : 0 < obs_prob m b a o).
    { destruct (Qlt_le_dec 0 (obs_prob m b a o)) as [L|L]; [exact L| exfalso].
      assert (Z : qsum u == 0).
      { pose proof (qsum_nonneg u Hun). unfold u in *. rewrite tau_step_eq in *. fold (obs_prob m b a o) in *. lra. }
      pose proof (nonneg_sum_zero u Hun Z) as Hz. rewrite Forall_forall in Hz.
      assert (Sc : scaled 0 u u).
      { split; [reflexivity|]. intros i. destruct (Nat.lt_ge_cases i (length u)) as [Hi|Hi].
        - rewrite (Hz (nthq u i)) by (unfold nthq; apply nth_In; exact Hi). ring.
        - rewrite nthq_overflow by exact Hi. ring. }
      pose proof (scaled_qsum _ _ _ (tau_hist_scaled m h 0 u u Sc)). lra. }
    destruct (Hupd b a o Hb Ha Ho Hp1) as [p1 [E1 [Pl [Pn [Ps Pp]]]]].
    assert (Hb1 : simplex (nS (pm m)) p1) by (split; [exact Pl| split; assumption]).
    (* p1 = u / P1 entrywise *)
    assert (Sc : scaled (/ obs_prob m b a o) p1 u).
    { split; [rewrite Pl; unfold u; rewrite tau_step_length; reflexivity|]. intros i.
      destruct (Nat.lt_ge_cases i (nS (pm m))) as [Hi|Hi].
      - unfold u. rewrite tau_step_nth by exact Hi. rewrite <- (Pp i Hi). field. lra.
      - rewrite !nthq_overflow by (rewrite ?Pl; unfold u; rewrite ?tau_step_length; exact Hi). ring. }
    pose proof (tau_hist_scaled m h _ _ _ Sc) as Sch.
    pose proof (scaled_qsum _ _ _ Sch) as Eq.
    assert (Hinv : 0 < / obs_prob m b a o) by (apply Qinv_lt_0_compat; exact Hp1).
    assert (Hpos1 : 0 < hist_prob m p1 h).
    { unfold hist_prob. rewrite Eq. apply Qmult_lt_0_compat; assumption. }
    destruct (IH p1 W Hh' Hb1 Hpos1) as [p [E [Hsimp Hprop]]].
    exists p. split; [cbn [iter_hist]; rewrite E1, xfins_map; exact E|]. split; [exact Hsimp|].
    intros i. unfold hist_prob. cbn [tau_hist]. fold u.
    specialize (Hprop i). unfold hist_prob in Hprop. rewrite Eq in Hprop. destruct Sch as [_ Sn]. rewrite (Sn i) in Hprop.
    (* p_i * (c * Q) == c * t_i with c > 0  =>  p_i * Q == t_i *)
    apply (Qmult_inj_r _ _ (/ obs_prob m b a o)); [lra|].
    setoid_replace (nthq p i * qsum (tau_hist m u h) * / obs_prob m b a o)
      with (nthq p i * (/ obs_prob m b a o * qsum (tau_hist m u h))) by ring.
    rewrite Hprop. ring.
Qed.

(* the query-loop branch follows the same trajectory up to == *)
Lemma tau_hist_r_veq : forall m h v, veq (tau_hist_r m v h) (tau_hist m v h).
Proof.
  intros m h. induction h as [|[a o] h IH]; intros v; cbn [tau_hist_r tau_hist]; [apply veq_refl|].
  eapply veq_trans; [apply IH|]. clear IH.
  assert (H : veq (tau_step_r m v a o) (tau_step m v a o)) by apply tau_step_r_veq.
  revert H. generalize (tau_step_r m v a o) (tau_step m v a o). intros x y H. revert x y H.
  induction h as [|[a' o'] h IH]; intros x y H; cbn [tau_hist]; [exact H|]. apply IH. apply tau_step_proper. exact H.
Qed.

Lemma hist_filter_lemma : forall m g h b,
  wf_pomdp m -> repr g m -> hist_ok m h -> simplex (nS (pm m)) b -> 0 < hist_prob m b h ->
  (exists p, updateE_hist m b h = Some p /\ simplex (nS (pm m)) p /\
             forall i, nthq p i * hist_prob m b h == nthq (tau_hist m b h) i) /\
  (exists p, updateQ_hist g b h = Some p /\ simplex (nS (pm m)) p /\
             forall i, nthq p i * hist_prob m b h == nthq (tau_hist m b h) i).
Proof.
  intros m g h b W G Hh Hb Hp. split.
  - apply (hist_filter_gen m (updateE m)); try assumption. intros b0 a o Hb0 Ha Ho Hp0.
    exact (proj1 (normalised_is_posterior_lemma m g b0 a o W G Hb0 Ha Ho Hp0)).
  - apply (hist_filter_gen m (updateQ g)); try assumption. intros b0 a o Hb0 Ha Ho Hp0.
    exact (proj1 (proj2 (normalised_is_posterior_lemma m g b0 a o W G Hb0 Ha Ho Hp0))).
Qed.

(* a history of probability zero cannot be filtered through: some step divides 0/0 *)
Lemma hist_prob_nonneg : forall m h b, wf_pomdp m -> hist_ok m h -> nonneg b -> 0 <= hist_prob m b h.
Proof. intros. unfold hist_prob. apply qsum_nonneg. apply tau_hist_nonneg; assumption. Qed.
