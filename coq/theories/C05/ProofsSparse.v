(* C05/ProofsSparse.v — the sparse library models store sparsified tables (entries with |p| <= 1e-6 are
   dropped).  When no entry is dropped-but-nonzero ([sparse_safe]), the sparse model's tables are entrywise
   equal to the dense ones and every Eigen-branch function returns the same result. *)
From Coq Require Import List Arith QArith Qminmax Lqa Lia Bool.
From AIT Require Import Base.Qx Base.Mdp C05.Model C05.Spec C05.ProofsLib C05.Proofs.
Import ListNotations.
Local Open Scope Q_scope.

Definition meq (M N : mat) : Prop := Forall2 veq M N.
Definition safe_entry (x : Q) : Prop := sparsify x == x.
Definition safe_mat (M : mat) : Prop := Forall (Forall safe_entry) M.
Definition sparse_safe (m : pomdp) : Prop :=
  Forall safe_mat (P (pm m)) /\ Forall safe_mat (Ob m) /\ safe_mat (R (pm m)).

(* an entry is safe iff it is zero or clearly above the threshold *)
Lemma safe_entry_iff : forall x, safe_entry x <-> (x == 0 \/ epsS < qabs x).
Proof.
  intros x. unfold safe_entry, sparsify. destruct (Qle_bool (qabs x) epsS) eqn:E.
  - apply Qle_bool_iff in E. split; [intros H; left; symmetry; exact H| intros [H|H]; [symmetry; exact H| lra]].
  - split; [intros _; right| reflexivity].
    destruct (Qlt_le_dec epsS (qabs x)) as [L|L]; [exact L|]. apply Qle_bool_iff in L. congruence.
Qed.

Lemma sparsify_mat_meq : forall M, safe_mat M -> meq (sparsify_mat M) M.
Proof.
  intros M H. induction H as [|r M Hr H IH]; cbn [sparsify_mat map]; constructor; [| exact IH].
  induction Hr as [|x r Hx Hr IHr]; cbn [map]; constructor; [exact Hx| exact IHr].
Qed.

Lemma nth_sparsify : forall a (L : list mat), nth a (map sparsify_mat L) [] = sparsify_mat (nth a L []).
Proof. intros a L. exact (map_nth sparsify_mat L [] a). Qed.

Lemma safe_nth : forall a (L : list mat), Forall safe_mat L -> safe_mat (nth a L []).
Proof.
  intros a L H. destruct (Nat.lt_ge_cases a (length L)) as [Ha|Ha].
  - rewrite Forall_forall in H. apply H. apply nth_In. exact Ha.
  - rewrite nth_overflow by exact Ha. constructor.
Qed.

(* the kernels respect entrywise equality *)
Lemma dot_proper : forall u u' v v', veq u u' -> veq v v' -> dot u v == dot u' v'.
Proof.
  intros u u' v v' Hu. revert v v'. induction Hu as [|x x' u u' Ex Hu IH]; intros v v' Hv; [reflexivity|].
  destruct Hv as [|y y' v v' Ey Hv]; cbn [dot]; [reflexivity|]. rewrite Ex, Ey, (IH v v' Hv). reflexivity.
Qed.

Lemma col_proper : forall M N j, meq M N -> veq (col M j) (col N j).
Proof. intros M N j H. induction H as [|r r' M N Er H IH]; cbn [col map]; constructor; [apply veq_nthq; exact Er| exact IH]. Qed.

Lemma cwise_proper : forall u u' v v', veq u u' -> veq v v' -> veq (cwise u v) (cwise u' v').
Proof.
  intros u u' v v' Hu. revert v v'. induction Hu as [|x x' u u' Ex Hu IH]; intros v v' Hv; [constructor|].
  destruct Hv as [|y y' v v' Ey Hv]; cbn [cwise]; constructor; [rewrite Ex, Ey; reflexivity| apply IH; exact Hv].
Qed.

Lemma vecmat_proper : forall b M N n, meq M N -> veq (vecmat b M n) (vecmat b N n).
Proof. intros b M N n H. unfold vecmat. apply veq_map_seq. intros j _. apply dot_proper; [apply veq_refl| apply col_proper; exact H]. Qed.

Lemma tmat_sparse : forall m a, sparse_safe m -> meq (tmat (sparse_of m) a) (tmat m a).
Proof.
  intros m a [H _]. unfold tmat. cbn [sparse_of pm P]. rewrite nth_sparsify. apply sparsify_mat_meq. apply safe_nth. exact H.
Qed.

Lemma omat_sparse : forall m a, sparse_safe m -> meq (omat (sparse_of m) a) (omat m a).
Proof.
  intros m a [_ [H _]]. unfold omat. cbn [sparse_of Ob]. rewrite nth_sparsify. apply sparsify_mat_meq. apply safe_nth. exact H.
Qed.

Lemma sparse_exact_lemma : forall m b v a o, sparse_safe m ->
  veq (partialE (sparse_of m) b a) (partialE m b a) /\
  veq (unnormE (sparse_of m) b a o) (unnormE m b a o) /\
  xveq (updateE (sparse_of m) b a o) (updateE m b a o) /\
  veq (punnormE (sparse_of m) v a o) (punnormE m v a o) /\
  xveq (pnormE (sparse_of m) v a o) (pnormE m v a o) /\
  meq (sosaE (sparse_of m) a o) (sosaE m a o) /\
  rewE (sparse_of m) b a == rewE m b a.
Proof.
  intros m b v a o S.
  pose proof (tmat_sparse m a S) as HT. pose proof (omat_sparse m a S) as HO.
  assert (HP : veq (partialE (sparse_of m) b a) (partialE m b a)) by (apply vecmat_proper; exact HT).
  assert (HU : veq (unnormE (sparse_of m) b a o) (unnormE m b a o)).
  { unfold unnormE. apply cwise_proper; [apply col_proper; exact HO| apply vecmat_proper; exact HT]. }
  assert (HV : veq (punnormE (sparse_of m) v a o) (punnormE m v a o)).
  { unfold punnormE. apply cwise_proper; [apply col_proper; exact HO| apply veq_refl]. }
  split; [exact HP|]. split; [exact HU|]. split; [apply normalise_proper; exact HU|].
  split; [exact HV|]. split; [apply normalise_proper; exact HV|]. split.
  - unfold sosaE, mat_diag.
    assert (HC : veq (col (omat (sparse_of m) a) o) (col (omat m a) o)) by (apply col_proper; exact HO).
    revert HC. generalize (col (omat (sparse_of m) a) o) (col (omat m a) o). intros d d' HC.
    induction HT as [|r r' M N Er HT IH]; cbn [map]; constructor; [apply cwise_proper; assumption| exact IH].
  - unfold rewE. apply dot_proper; [| apply veq_refl]. apply col_proper.
    destruct S as [_ [_ HR]]. unfold rmat. cbn [sparse_of pm R]. apply sparsify_mat_meq. exact HR.
Qed.

(* dyadic entries k/2^j with j <= 19 are safe: anything that is zero or at least 1/2^19 *)
Lemma safe_entry_big : forall x, x == 0 \/ (1 # 524288) <= x -> safe_entry x.
Proof.
  intros x H. apply safe_entry_iff. destruct H as [H|H]; [left; exact H| right].
  unfold qabs, epsS. apply Qlt_le_trans with x; [| apply Q.le_max_l].
  apply Qlt_le_trans with (1 # 524288); [reflexivity| exact H].
Qed.
