(* C05/ProofsSparse.v — the sparse library models store sparsified tables (entries with |p| <= 1e-6 are
   dropped).  When no entry is dropped-but-nonzero ([sparse_safe]), the sparse model's tables are entrywise
   equal to the dense ones and every Eigen-branch function returns the same result. *)
From Coq Require Import List Arith QArith Qminmax Lqa Lia Bool.
From AIT Require Import Base.Qx Base.Mdp C05.Model C05.Spec C05.ProofsLib C05.Proofs.
Import ListNotations.
Local Open Scope Q_scope.

Definition meq (M N : mat) : Prop := Forall2 veq M N.
Definition safe_entry (x : Q) : Prop := sparsify x == x.
Definition safe_mat (M : mat) : Prop := Forall (Forall safe_entry) M.
Definition sparse_safe (m : pomdp) : Prop :=
  Forall safe_mat (P (pm m)) /\ Forall safe_mat (Ob m) /\ safe_mat (R (pm m)).

(* an entry is safe iff it is zero or clearly above the threshold *)
Lemma safe_entry_iff : forall x, safe_entry x <-> (x == 0 \/ epsS < qabs x).
Proof.
  intros x. unfold safe_entry, sparsify. destruct (Qle_bool (qabs x) epsS) eqn:E.
  - apply Qle_bool_iff in E. split; [intros H; left; symmetry; exact H| intros [H|H]; [symmetry; exact H| lra]].
  - split; [intros _; right| reflexivity].
    destruct (Qlt_le_dec epsS (qabs x)) as [L|L]; [exact L|]. apply Qle_bool_iff in L. congruence.
Qed.

Lemma sparsify_mat_meq : forall M, safe_mat M -> meq (sparsify_mat M) M.
Proof.
  intros M H. induction H as [|r M Hr H IH]; cbn [sparsify_mat map]; constructor; [| exact IH].
  induction Hr as [|x r Hx Hr IHr]; cbn [map]; constructor; [exact Hx| exact IHr].
Qed.

Lemma nth_sparsify : forall a (L : list mat), nth a (map sparsify_mat L) [] = sparsify_mat (nth a L []).
Proof. intros a L. exact (map_nth sparsify_mat L [] a). Qed.

Lemma safe_nth : forall a (L : list mat), Forall safe_mat L -> safe_mat (nth a L []).
Proof.
  intros a L H. destruct (Nat.lt_ge_cases a (length L)) as [Ha|Ha].
  - rewrite Forall_forall in H. apply H. apply nth_In. exact Ha.
  - rewrite nth_overflow by exact Ha. constructor.
Qed.

(* the kernels respect entrywise equality *)
Lemma dot_proper : forall u u' v v', veq u u' -> veq v v' -> dot u v == dot u' v'.
Proof.
  intros u u' v v' Hu. revert v v'. induction Hu as [|x x' u u' Ex Hu IH]; intros v v' Hv; [reflexivity|].
  destruct Hv as [|y y' v v' Ey Hv]; cbn [dot]; [reflexivity|]. rewrite Ex, Ey, (IH v v' Hv). reflexivity.
Qed.

Lemma col_proper : forall M N j, meq M N -> veq (col M j) (col N j).
Proof. intros M N j H. induction H as [|r r' M N Er H IH]; cbn [col map]; constructor; [apply veq_nthq; exact Er| exact IH]. Qed.

Lemma cwise_proper : forall u u' v v', veq u u' -> veq v v' -> veq (cwise u v) (cwise u' v').
Proof.
  intros u u' v v' Hu. revert v v'. induction Hu as [|x x' u u' Ex Hu IH]; intros v v' Hv; [constructor|].
  destruct Hv as [|y y' v v' Ey Hv]; cbn [cwise]; constructor; [rewrite Ex, Ey; reflexivity| apply IH; exact Hv].
Qed.

Lemma vecmat_proper : forall b M N n, meq M N -> veq (vecmat b M n) (vecmat b N n).
Proof. intros b M N n H. unfold vecmat. apply veq_map_seq. intros j _. apply dot_proper; [apply veq_refl| apply col_proper; exact H]. Qed.

Lemma tmat_sparse : forall m a, sparse_safe m -> meq (tmat (sparse_of m) a) (tmat m a).
Proof.
  intros m a [H _]. unfold tmat. cbn [sparse_of pm P]. rewrite nth_sparsify. apply sparsify_mat_meq. apply safe_nth. exact H.
Qed.

Lemma omat_sparse : forall m a, sparse_safe m -> meq (omat (sparse_of m) a) (omat m a).
Proof.
  intros m a [_ [H _]]. unfold omat. cbn [sparse_of Ob]. rewrite nth_sparsify. apply sparsify_mat_meq. apply safe_nth. exact H.
Qed.

Lemma sparse_exact_lemma : forall m b v a o, sparse_safe m ->
  veq (partialE (sparse_of m) b a) (partialE m b a) /\
  veq (unnormE (sparse_of m) b a o) (unnormE m b a o) /\
  xveq (updateE (sparse_of m) b a o) (updateE m b a o) /\
  veq (punnormE (sparse_of m) v a o) (punnormE m v a o) /\
  xveq (pnormE (sparse_of m) v a o) (pnormE m v a o) /\
  meq (sosaE (sparse_of m) a o) (sosaE m a o) /\
  rewE (sparse_of m) b a == rewE m b a.
Proof.
  intros m b v a o S.
  pose proof (tmat_sparse m a S) as HT. pose proof (omat_sparse m a S) as HO.
  assert (HP : veq (partialE (sparse_of m) b a) (partialE m b a)) by (apply vecmat_proper; exact HT).
  assert (HU : veq (unnormE (sparse_of m) b a o) (unnormE m b a o)).
  { unfold unnormE. apply cwise_proper; [apply col_proper; exact HO| apply vecmat_proper; exact HT]. }
  assert (HV : veq (punnormE (sparse_of m) v a o) (punnormE m v a o)).
  { unfold punnormE. apply cwise_proper; [apply col_proper; exact HO| apply veq_refl]. }
  split; [exact HP|]. split; [exact HU|]. split; [apply normalise_proper; exact HU|].
  split; [exact HV|]. split; [apply normalise_proper; exact HV|]. split.
  - unfold sosaE, mat_diag.
    assert (HC : veq (col (omat (sparse_of m) a) o) (col (omat m a) o)) by (apply col_proper; exact HO).
    revert HC. generalize (col (omat (sparse_of m) a) o) (col (omat m a) o). intros d d' HC.
    induction HT as [|r r' M N Er HT IH]; cbn [map]; constructor; [apply cwise_proper; assumption| exact IH].
  - unfold rewE. apply dot_proper; [| apply veq_refl]. apply col_proper.
    destruct S as [_ [_ HR]]. unfold rmat. cbn [sparse_of pm R]. apply sparsify_mat_meq. exact HR.
Qed.

(* dyadic entries k/2^j with j <= 19 are safe: anything that is zero or at least 1/2^19 *)
Lemma safe_entry_big : forall x, x == 0 \/ (1 # 524288) <= x -> safe_entry x.
Proof.
  intros x H. apply safe_entry_iff. destruct H as [H|H]; [left; exact H| right].
  unfold qabs, epsS. apply Qlt_le_trans with x; [| apply Q.le_max_l].
  apply Qlt_le_trans with (1 # 524288); [reflexivity| exact H].
Qed.

(* ------------------------------------------------------------------ the general case: error term *)
(* Entries in (0, 1e-6] are dropped by the sparse models.  For any well-formed POMDP and any belief on the
   simplex every entry of the sparse unnormalised update lies below the dense one by at most 2 * 1e-6. *)
Lemma sparsify_bounds : forall x, 0 <= x -> 0 <= sparsify x /\ sparsify x <= x /\ x - sparsify x <= epsS.
Proof.
  intros x Hx. unfold sparsify. destruct (Qle_bool (qabs x) epsS) eqn:E.
  - apply Qle_bool_iff in E. unfold qabs in E. pose proof (Q.le_max_l x (- x)). repeat split; lra.
  - repeat split; try lra. unfold epsS. assert (0 <= 1 # 1000000) by (unfold Qle; cbn; lia). lra.
Qed.

Lemma nthq_map_sparsify : forall r j, nthq (map sparsify r) j == sparsify (nthq r j).
Proof.
  intros r j. destruct (Nat.lt_ge_cases j (length r)) as [Hj|Hj].
  - unfold nthq. rewrite (nth_indep _ 0 (sparsify 0)) by (rewrite map_length; exact Hj).
    rewrite (map_nth sparsify). reflexivity.
  - rewrite !nthq_overflow by (rewrite ?map_length; exact Hj). reflexivity.
Qed.

Lemma row_sparsify_mat : forall M s, row (sparsify_mat M) s = map sparsify (row M s).
Proof. intros M s. unfold row, sparsify_mat. exact (map_nth (map sparsify) M [] s). Qed.

Lemma Tp_sparse : forall m s a s', Tp (sparse_of m) s a s' == sparsify (Tp m s a s').
Proof.
  intros. unfold Tp, trow. cbn [sparse_of pm P]. rewrite nth_sparsify, row_sparsify_mat. apply nthq_map_sparsify.
Qed.

Lemma Op_sparse : forall m s' a o, Op (sparse_of m) s' a o == sparsify (Op m s' a o).
Proof.
  intros. unfold Op, orow. cbn [sparse_of Ob]. rewrite nth_sparsify, row_sparsify_mat. apply nthq_map_sparsify.
Qed.

Lemma nthq_le_qsum : forall p i, nonneg p -> nthq p i <= qsum p.
Proof.
  intros p i H. revert i. induction H as [|x p Hx H IH]; intros i; [rewrite nthq_nil; cbn [qsum]; lra|].
  pose proof (qsum_nonneg p H). destruct i; unfold nthq; cbn [nth qsum]; [lra|].
  specialize (IH i). unfold nthq in IH. lra.
Qed.

Lemma Tp_le_1 : forall m s a s', wf_pomdp m -> (a < nA (pm m))%nat -> (s < nS (pm m))%nat -> Tp m s a s' <= 1.
Proof.
  intros m s a s' W Ha Hs. destruct (wf_T m a W Ha) as [_ H]. destruct (H s Hs) as [_ [Hn Hsum]].
  rewrite <- Hsum. apply nthq_le_qsum. exact Hn.
Qed.

Lemma Op_le_1 : forall m s' a o, wf_pomdp m -> (a < nA (pm m))%nat -> (s' < nS (pm m))%nat -> Op m s' a o <= 1.
Proof.
  intros m s' a o W Ha Hs. destruct (wf_O m a W Ha) as [_ H]. destruct (H s' Hs) as [_ [Hn Hsum]].
  rewrite <- Hsum. apply nthq_le_qsum. exact Hn.
Qed.

(* pointwise form of the sparse model's unnormalised update; needs only the shapes *)
Lemma unnormE_sparse_nth : forall m b a o s', wf_pomdp m -> length b = nS (pm m) ->
  (a < nA (pm m))%nat -> (s' < nS (pm m))%nat ->
  nthq (unnormE (sparse_of m) b a o) s' == bayes_unnorm (sparse_of m) b a o s'.
Proof.
  intros m b a o s' W Hb Ha Hs. destruct (wf_T m a W Ha) as [HL _].
  unfold unnormE. rewrite nthq_cwise, nthq_col.
  assert (HLs : length (tmat (sparse_of m) a) = nS (pm m)).
  { unfold tmat. cbn [sparse_of pm P]. rewrite nth_sparsify. unfold sparsify_mat. rewrite map_length. exact HL. }
  cbn [sparse_of pm nS]. rewrite nthq_vecmat by (rewrite ?HLs; try assumption; lia). rewrite HLs. reflexivity.
Qed.

Ltac prod_nonneg u v := let H := fresh "PN" in assert (H : 0 <= u * v) by (apply Qmult_le_0_compat; lra).

Lemma sparse_error_lemma : forall m b a o s',
  wf_pomdp m -> simplex (nS (pm m)) b -> (a < nA (pm m))%nat -> (o < nO m)%nat -> (s' < nS (pm m))%nat ->
  0 <= nthq (unnormE m b a o) s' - nthq (unnormE (sparse_of m) b a o) s' /\
  nthq (unnormE m b a o) s' - nthq (unnormE (sparse_of m) b a o) s' <= 2 * epsS.
Proof.
  intros m b a o s' W [Hb [Hn Hsum]] Ha Ho Hs.
  rewrite (unnormE_nth m W b a Ha Hb o s' Hs), (unnormE_sparse_nth m b a o s' W Hb Ha Hs).
  unfold bayes_unnorm. rewrite Op_sparse.
  set (P := pred_at m b a s'). set (P' := pred_at (sparse_of m) b a s').
  pose proof (Op_nonneg m s' a o W Ha Hs) as O0. pose proof (Op_le_1 m s' a o W Ha Hs) as O1.
  destruct (sparsify_bounds _ O0) as [S0 [S1 S2]].
  assert (E0 : 0 <= epsS) by (unfold epsS, Qle; cbn; lia).
  assert (Hsb : qsum (map (fun s => nthq b s) (states m)) == 1).
  { rewrite <- Hsum. rewrite (qsum_as_index b), Hb. reflexivity. }
  assert (TB : forall s, (s < nS (pm m))%nat ->
             0 <= nthq b s /\ 0 <= sparsify (Tp m s a s') /\ sparsify (Tp m s a s') <= Tp m s a s' /\
             Tp m s a s' - sparsify (Tp m s a s') <= epsS /\ Tp m s a s' <= 1).
  { intros s Hlt. pose proof (nonneg_nthq b s Hn).
    destruct (sparsify_bounds _ (Tp_nonneg m s a s' W Ha Hlt)) as [X0 [X1 X2]].
    pose proof (Tp_le_1 m s a s' W Ha Hlt). repeat split; assumption. }
  assert (L1 : P' <= P).
  { unfold P, P', pred_at. change (states (sparse_of m)) with (states m). apply qsum_map_le. intros s Hin. apply in_seq in Hin.
    rewrite Tp_sparse. destruct (TB s ltac:(lia)) as [B0 [X0 [X1 [X2 X3]]]].
    prod_nonneg (nthq b s) (Tp m s a s' - sparsify (Tp m s a s')). lra. }
  assert (L0 : 0 <= P').
  { unfold P', pred_at. change (states (sparse_of m)) with (states m). apply qsum_map_nonneg. intros s Hin. apply in_seq in Hin.
    rewrite Tp_sparse. destruct (TB s ltac:(lia)) as [B0 [X0 [X1 [X2 X3]]]].
    apply Qmult_le_0_compat; assumption. }
  assert (L2 : P <= P' + epsS).
  { unfold P, P', pred_at. change (states (sparse_of m)) with (states m).
    apply Qle_trans with (qsum (map (fun s => nthq b s * Tp (sparse_of m) s a s' + epsS * nthq b s) (states m))).
    - apply qsum_map_le. intros s Hin. apply in_seq in Hin. rewrite Tp_sparse.
      destruct (TB s ltac:(lia)) as [B0 [X0 [X1 [X2 X3]]]].
      prod_nonneg (nthq b s) (epsS - (Tp m s a s' - sparsify (Tp m s a s'))). lra.
    - rewrite (qsum_map_add nat (fun s => nthq b s * Tp (sparse_of m) s a s') (fun s => epsS * nthq b s) (states m)).
      rewrite (qsum_map_scale_l nat (fun s => nthq b s) epsS (states m)), Hsb. lra. }
  assert (L3 : P <= 1).
  { unfold P, pred_at. rewrite <- Hsb. apply qsum_map_le. intros s Hin. apply in_seq in Hin.
    destruct (TB s ltac:(lia)) as [B0 [X0 [X1 [X2 X3]]]].
    prod_nonneg (nthq b s) (1 - Tp m s a s'). lra. }
  set (x := Op m s' a o) in *. set (y := sparsify x) in *.
  prod_nonneg (x - y) P'. prod_nonneg (x - y) (P - P'). prod_nonneg y (P - P').
  prod_nonneg (epsS - (x - y)) P. prod_nonneg (x - y) (1 - P). prod_nonneg (1 - y) (P - P').
  prod_nonneg y (epsS - (P - P')). prod_nonneg (1 - y) (epsS - (P - P')). prod_nonneg (epsS - (x - y)) (1 - P).
  split; lra.
Qed.
