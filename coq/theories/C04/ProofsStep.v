(* C04/ProofsStep.v — one solver step over a previous surface, without the chain down to horizon 0:
   (1) if the previous surface is nowhere above expectimax of horizon n, every list of plans over it
       is nowhere above expectimax of horizon n+1 (whatever produced or selected the plans);
   (2) if the previous surface is exact and the list contains the best-action backup of every
       belief of a set B (LinearSupport's vertices, PBVI's / PERSEUS's belief set), the new surface
       is below EV(n+1) everywhere and EQUAL to it at every belief of B. *)
From Coq Require Import List Arith ZArith QArith Qminmax Lqa Lia Bool Setoid.
From AIT Require Import Base.Qx Base.Mdp Base.MdpExec C02.Model C02.Spec C02.ProofsVec C02.ProofsCross
  C02.ProofsSched C02.ProofsProj C02.ProofsIP C04.Model C04.Spec C04.ProofsPlan C04.ProofsExec C04.ProofsPoint
  C04.ProofsPointExact.
Import ListNotations.
Local Open Scope Q_scope.

Theorem plan_step_le_EV_lemma : forall m, wf_pomdp1 m ->
  forall n w, wfl (nS (pm m)) w ->
  (forall tau, nonneg tau -> length tau = nS (pm m) -> vbest w tau <= EV m n tau) ->
  forall e tau, entry_is_plan m w e -> nonneg tau -> length tau = nS (pm m) ->
  dot (vals e) tau <= EV m (S n) tau.
Proof.
  intros m Hwf n w Ww Hub e tau [Ha [[Ll Lr] Hv]] Hn Ht.
  assert (Hg : 0 <= gam (pm m)) by (destruct Hwf as [[_ [_ [H _]]] _]; lra).
  rewrite (dot_veq_l _ _ tau Hv).
  assert (Hlk : forall o, (o < nO m)%nat -> (nth o (obs e) 0 < length w)%nat).
  { intros o Ho. rewrite Forall_forall in Lr. apply Lr. apply nth_In. rewrite Ll. exact Ho. }
  rewrite (dot_plan_vals m); [| exact Ht |].
  2:{ intros o Ho. unfold linked. unfold wfl in Ww. rewrite Forall_forall in Ww. apply Ww. apply nth_In. apply Hlk; exact Ho. }
  cbn [EV].
  apply Qle_trans with (rew_at m tau (act e) + gam (pm m) * qsum (map (fun o => EV m n (tau_step m tau (act e) o)) (seq 0 (nO m)))).
  - assert (Hs : qsum (map (fun o => dot (linked w e o) (tau_step m tau (act e) o)) (seq 0 (nO m))) <=
                 qsum (map (fun o => EV m n (tau_step m tau (act e) o)) (seq 0 (nO m)))).
    { apply qsum_map_le. intros o Ho. apply in_seq in Ho. unfold linked.
      apply Qle_trans with (vbest w (tau_step m tau (act e) o)).
      - apply vbest_ub. apply nth_In. apply Hlk; lia.
      - apply Hub; [apply (tau_step_nonneg m Hwf); assumption| unfold tau_step; rewrite map_length, seq_length; reflexivity]. }
    nra.
  - apply maxl_ub. apply (in_map (fun a => rew_at m tau a + gam (pm m) * qsum (map (fun o => EV m n (tau_step m tau a o)) (seq 0 (nO m))))).
    apply in_seq. lia.
Qed.

Theorem backup_step_sandwich_lemma : forall m, wf_pomdp1 m -> obs_clean m ->
  forall n w, w <> [] -> wfl (nS (pm m)) w ->
  (forall tau, nonneg tau -> length tau = nS (pm m) -> vbest w tau == EV m n tau) ->
  forall (B : list vec) (L : vlist), L <> [] ->
  (forall e, In e L -> entry_is_plan m w e) ->
  (forall b, In b B -> nonneg b /\ length b = nS (pm m) /\ In (fst (csbb_all m w b)) L) ->
  (forall tau, nonneg tau -> length tau = nS (pm m) -> vbest L tau <= EV m (S n) tau) /\
  (forall b, In b B -> vbest L b == EV m (S n) b).
Proof.
  intros m Hwf Hclean n w Hne Ww Hex B L HL Hplans HB.
  assert (Hub : forall tau, nonneg tau -> length tau = nS (pm m) -> vbest w tau <= EV m n tau).
  { intros tau Hn Ht. rewrite (Hex tau Hn Ht). lra. }
  assert (P1 : forall tau, nonneg tau -> length tau = nS (pm m) -> vbest L tau <= EV m (S n) tau).
  { intros tau Hn Ht. destruct (vbest_attained L tau HL) as [e [He E]]. rewrite E.
    apply (plan_step_le_EV_lemma m Hwf n w Ww Hub e tau (Hplans e He) Hn Ht). }
  split; [exact P1|].
  intros b Hb. destruct (HB b Hb) as [Hn [Hl Hin]].
  destruct (best_action_backup_exact_lemma m Hwf Hclean n w b Hne Ww Hl Hn Hex) as [_ E].
  apply Qle_antisym; [apply P1; assumption|].
  rewrite <- E. apply vbest_ub. exact Hin.
Qed.
