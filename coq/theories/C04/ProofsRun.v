(* C04/ProofsRun.v — the whole Incremental-Pruning run yields a chain of plans. *)
From Coq Require Import List Arith ZArith QArith Qminmax Lqa Lia Bool Setoid.
From AIT Require Import Base.Qx Base.Mdp Base.MdpExec C02.Model C02.Spec C02.ProofsVec C02.ProofsCross
  C02.ProofsSched C02.ProofsProj C02.ProofsIP C04.Model C04.ProofsPlan C04.ProofsExec.
Import ListNotations.
Local Open Scope Q_scope.

Section Run.
  Variable prune : vlist -> vlist.
  Hypothesis prune_sub : forall l e, In e (prune l) -> In e l.
  Hypothesis prune_ne : forall l, l <> [] -> prune l <> [].
  Variable m : pomdp.
  Let S := nS (pm m).
  Hypothesis HO : (0 < nO m)%nat.
  Hypothesis HA : (0 < nA (pm m))%nat.
  Hypothesis Hclean : obs_clean m.
  Hypothesis Hsched : ops_ok (nO m) = true.

  Lemma ip_step_shape : forall w, w <> [] -> wfl S w -> ip_step prune m w <> [] /\ wfl S (ip_step prune m w).
  Proof.
    intros w Hne Hw.
    assert (Henv0 : forall l, l <> [] -> wfl S l -> vbest (prune l) (vzero S) == vbest l (vzero S)).
    { intros l N W. rewrite !(vbest_zero S); [reflexivity| exact N| exact W| apply prune_ne; exact N|].
      unfold wfl in *. apply Forall_forall. intros x Hx. apply prune_sub in Hx. rewrite Forall_forall in W. apply W; exact Hx. }
    assert (Hper : forall a, per_action prune m w a <> [] /\ wfl S (per_action prune m w a)).
    { intros a.
      assert (Hlen : length (obs_lists prune m w a) = nO m) by (unfold obs_lists; rewrite map_length, seq_length; reflexivity).
      pose proof (merge_all_ok prune S a (vzero S) prune_sub prune_ne Henv0 (obs_lists prune m w a)
                    (obs_lists_good prune prune_sub prune_ne m w a Hne)) as H.
      rewrite Hlen in H. destruct (H Hsched) as [_ [N [W _]]]. split; assumption. }
    set (pers := map (fun a => per_action prune m w a) (seq 0 (nA (pm m)))).
    assert (Eg : ip_step prune m w = prune (concat pers)) by reflexivity. rewrite Eg.
    assert (Hcat_ne : concat pers <> []).
    { unfold pers. destruct (nA (pm m)) as [|n] eqn:En; [lia|]. cbn [seq map concat].
      destruct (Hper 0%nat) as [N _]. destruct (per_action prune m w 0); [congruence| discriminate]. }
    assert (Hcat_wf : wfl S (concat pers)).
    { unfold wfl. apply Forall_forall. intros e He. apply in_concat in He. destruct He as [l [Hl He]].
      unfold pers in Hl. apply in_map_iff in Hl. destruct Hl as [a [<- _]]. destruct (Hper a) as [_ W].
      unfold wfl in W. rewrite Forall_forall in W. apply W; exact He. }
    split; [apply prune_ne; exact Hcat_ne|].
    unfold wfl in *. apply Forall_forall. intros e He. apply prune_sub in He. rewrite Forall_forall in Hcat_wf. apply Hcat_wf; exact He.
  Qed.

  (* the run, newest first: (older horizons, current list) *)
  Fixpoint ip_chain (h : nat) : list vlist * vlist :=
    match h with
    | O => ([], [ {| vals := vzero S; act := 0%nat; obs := [] |} ])
    | Datatypes.S h' => let '(older, cur) := ip_chain h' in (cur :: older, ip_step prune m cur)
    end.

  Lemma ip_run_chain : forall h, ip_run prune m h = rev (fst (ip_chain h)) ++ [snd (ip_chain h)].
  Proof.
    induction h as [|h IH]; cbn [ip_run ip_chain]; [reflexivity|].
    destruct (ip_chain h) as [older cur] eqn:E. cbn [fst snd] in *. rewrite IH, last_last. cbn [rev]. reflexivity.
  Qed.

  Theorem ip_chain_ok : forall h,
    let '(older, cur) := ip_chain h in chain_ok m older cur /\ cur <> [] /\ wfl S cur.
  Proof.
    induction h as [|h IH]; cbn [ip_chain].
    - cbn [chain_ok]. split; [exact I| split; [discriminate| constructor; [cbn [vals]; apply repeat_length| constructor]]].
    - destruct (ip_chain h) as [older cur]. destruct IH as [Hc [N W]].
      destruct (ip_step_shape cur N W) as [N' W'].
      split; [| split; assumption]. cbn [chain_ok]. split; [| split; assumption].
      apply (ip_step_entries_are_plans prune prune_sub prune_ne m HO Hclean Hsched cur N W).
  Qed.
End Run.
