(* C04/ProofsExec.v — executing a plan earns exactly the value its vector promises; the entry
   chosen by findBestAtPoint attains the maximum; Policy's unchecked accesses stay in range. *)
From Coq Require Import List Arith ZArith QArith Qminmax Lqa Lia Bool Setoid.
From AIT Require Import Base.Qx Base.Mdp Base.MdpExec C02.Model C02.Spec C02.ProofsVec C02.ProofsCross
  C02.ProofsSched C02.ProofsProj C02.ProofsIP C04.Model C04.ProofsPlan.
Import ListNotations.
Local Open Scope Q_scope.

Section Exec.
  Variable m : pomdp.
  Let S := nS (pm m).

  Lemma backup_o_length : forall a o v, length (backup_o m a o v) = S.
  Proof. intros. unfold backup_o. rewrite map_length, seq_length. reflexivity. Qed.

  Lemma dot_backup_o : forall a o v tau, length tau = S ->
    dot (backup_o m a o v) tau == fut m v tau a o.
  Proof.
    intros a o v tau Ht. unfold backup_o. fold S. rewrite dot_map_seq by exact Ht.
    transitivity (qsum (map (fun s => qsum (map (fun s1 => nthq tau s * (Tp m s a s1 * Op m s1 a o * nthq v s1)) (seq 0 S))) (seq 0 S))).
    { apply qsum_map_ext. intros s _. rewrite <- qsum_map_mul_r. apply qsum_map_ext. intros s1 _. ring. }
    rewrite qsum_swap. unfold fut. fold S. apply qsum_map_ext. intros s1 Hs1. apply in_seq in Hs1.
    rewrite (nthq_tau_step m) by (fold S; lia). fold S.
    transitivity (nthq v s1 * Op m s1 a o * qsum (map (fun s => nthq tau s * Tp m s a s1) (seq 0 S))); [| ring].
    rewrite <- qsum_map_mul_l. apply qsum_map_ext. intros s _. ring.
  Qed.

  Lemma dot_plan_vals : forall prev e tau, length tau = S ->
    (forall o, (o < nO m)%nat -> length (linked prev e o) = S) ->
    dot (plan_vals m prev e) tau ==
    rew_at m tau (act e) + gam (pm m) * qsum (map (fun o => dot (linked prev e o) (tau_step m tau (act e) o)) (seq 0 (nO m))).
  Proof.
    intros prev e tau Ht Hl. unfold plan_vals. fold S. rewrite dot_map_seq by exact Ht.
    transitivity (qsum (map (fun s => nthq tau s * Rw m s (act e) +
       gam (pm m) * qsum (map (fun o => nthq (backup_o m (act e) o (linked prev e o)) s * nthq tau s) (seq 0 (nO m)))) (seq 0 S))).
    { apply qsum_map_ext. intros s _. rewrite qsum_map_mul_r. ring. }
    rewrite qsum_map_add. apply Qplus_comp; [unfold rew_at, Rw; fold S; reflexivity|].
    rewrite qsum_map_mul_l. apply Qmult_comp; [reflexivity|]. rewrite qsum_swap.
    apply qsum_map_ext. intros o Ho. apply in_seq in Ho.
    rewrite <- (dot_as_sum (backup_o m (act e) o (linked prev e o)) tau S); [| apply backup_o_length | exact Ht].
    rewrite dot_backup_o by exact Ht. apply (fut_is_dot m). apply Hl; lia.
  Qed.

  (* chain of horizons, newest first: cur is a list of plans over the head of older, and so on;
     the oldest list (horizon 0) promises nothing *)
  Fixpoint chain_ok (older : list vlist) (cur : vlist) : Prop :=
    match older with
    | [] => True
    | prev :: older' => Forall (entry_is_plan m prev) cur /\ wfl S prev /\ chain_ok older' prev
    end.

  Theorem exec_is_promise_lemma : forall older cur i tau, chain_ok older cur -> (i < length cur)%nat -> length tau = S ->
    exec_return m older cur i tau == dot (vals (nth i cur dummy_entry)) tau.
  Proof.
    unfold exec_return.
    induction older as [|prev older IH]; intros cur i tau Hc Hi Ht; cbn [exec_gen chain_ok] in *.
    - reflexivity.
    - destruct Hc as [Hp [Wp Hc]]. rewrite Forall_forall in Hp.
      destruct (Hp _ (nth_In cur dummy_entry Hi)) as [Ha [[Ll Lr] Hv]].
      set (e := nth i cur dummy_entry) in *.
      rewrite (dot_veq_l _ _ tau Hv).
      assert (Hlk : forall o, (o < nO m)%nat -> (nth o (obs e) 0 < length prev)%nat).
      { intros o Ho. rewrite Forall_forall in Lr. apply Lr. apply nth_In. rewrite Ll. exact Ho. }
      rewrite dot_plan_vals; [| exact Ht |].
      + apply Qplus_comp; [reflexivity|]. apply Qmult_comp; [reflexivity|].
        apply qsum_map_ext. intros o Ho. apply in_seq in Ho.
        apply IH; [exact Hc| apply Hlk; lia| apply tau_step_length].
      + intros o Ho. unfold linked. unfold wfl in Wp. rewrite Forall_forall in Wp. apply Wp. apply nth_In. apply Hlk; exact Ho.
  Qed.

  (* when the initial entries promise nothing (the solvers that start from the zero vector), the
     return of the h steps alone is the promise *)
  Theorem exec_steps_eq_return : forall older cur i tau, chain_ok older cur ->
    (forall e tau', In e (last (cur :: older) []) -> dot (vals e) tau' == 0) ->
    (i < length cur)%nat ->
    exec_steps m older cur i tau == exec_return m older cur i tau.
  Proof.
    unfold exec_steps, exec_return.
    induction older as [|prev older IH]; intros cur i tau Hc Hz Hi; cbn [exec_gen chain_ok] in *.
    - symmetry. apply Hz. cbn [last]. apply nth_In; exact Hi.
    - destruct Hc as [Hp [Wp Hc]]. rewrite Forall_forall in Hp.
      destruct (Hp _ (nth_In cur dummy_entry Hi)) as [Ha [[Ll Lr] Hv]].
      apply Qplus_comp; [reflexivity|]. apply Qmult_comp; [reflexivity|].
      apply qsum_map_ext. intros o Ho. apply in_seq in Ho.
      apply IH; [exact Hc| | ].
      + intros e tau' He. apply Hz. destruct older; exact He.
      + rewrite Forall_forall in Lr. apply Lr. apply nth_In. rewrite Ll. lia.
  Qed.

  (* Policy::sampleAction(id, o, h) never indexes out of range on a value function of plans *)
  Theorem policy_step_in_range_lemma : forall (vf : list vlist) h id o prev cur,
    nth_error vf h = Some prev -> nth_error vf (Datatypes.S h) = Some cur ->
    Forall (entry_is_plan m prev) cur -> (id < length cur)%nat -> (o < nO m)%nat ->
    exists a newId, policy_step vf h id o = Some (a, newId) /\ (newId < length prev)%nat.
  Proof.
    intros vf h id o prev cur Hp Hc Hplan Hid Ho. unfold policy_step. rewrite Hc.
    destruct (nth_error cur id) as [e|] eqn:Ee; [| apply nth_error_None in Ee; lia].
    rewrite Forall_forall in Hplan. destruct (Hplan e (nth_error_In _ _ Ee)) as [_ [[Ll Lr] _]].
    destruct (nth_error (obs e) o) as [newId|] eqn:En; [| apply nth_error_None in En; lia].
    rewrite Hp. rewrite Forall_forall in Lr. pose proof (Lr newId (nth_error_In _ _ En)) as Hlt.
    destruct (nth_error prev newId) as [e'|] eqn:E2; [| apply nth_error_None in E2; lia].
    exists (act e'), newId. split; [reflexivity| exact Hlt].
  Qed.
End Exec.

  (* findBestAtPoint returns an in-range index whose entry attains the envelope *)
  Lemma best_go_spec : forall b l bi bv bval i, bval == dot bv b ->
    let '(j, v, x) := best_go b bi bv bval i l in
    x == dot v b /\ bval <= x /\ (forall e, In e l -> dot (vals e) b <= x) /\
    ((j = bi /\ v = bv) \/ ((i <= j < i + length l)%nat /\ v = vals (nth (j - i) l dummy_entry))).
  Proof.
    intros b l. induction l as [|e l IH]; intros bi bv bval i Hb; cbn [best_go length].
    - split; [exact Hb|]. split; [lra|]. split; [intros e []| left; split; reflexivity].
    - assert (Hupd : bval <= dot (vals e) b ->
                let '(j, v, x) := best_go b i (vals e) (dot (vals e) b) (Datatypes.S i) l in
                x == dot v b /\ bval <= x /\ (forall e0, In e0 (e :: l) -> dot (vals e0) b <= x) /\
                ((j = bi /\ v = bv) \/ ((i <= j < i + Datatypes.S (length l))%nat /\ v = vals (nth (j - i) (e :: l) dummy_entry)))).
      { intros Hle. specialize (IH i (vals e) (dot (vals e) b) (Datatypes.S i) ltac:(reflexivity)).
        destruct (best_go b i (vals e) (dot (vals e) b) (Datatypes.S i) l) as [[j v] x].
        destruct IH as [Ex [Hge [Hub Hw]]]. split; [exact Ex|]. split; [lra|]. split.
        - intros e0 [<-|H0]; [exact Hge| apply Hub; exact H0].
        - right. destruct Hw as [[-> ->]|[Hr ->]].
          + split; [lia|]. rewrite Nat.sub_diag. reflexivity.
          + split; [lia|]. replace (j - i)%nat with (Datatypes.S (j - Datatypes.S i)) by lia. reflexivity. }
      destruct (Qlt_le_dec bval (dot (vals e) b)) as [Hlt|Hge]; [apply Hupd; lra|].
      destruct (Qeq_bool (dot (vals e) b) bval && veccmp_gt (vals e) bv) eqn:Et.
      + apply andb_prop in Et. destruct Et as [Eq _]. apply Qeq_bool_iff in Eq. apply Hupd. lra.
      + specialize (IH bi bv bval (Datatypes.S i) Hb).
        destruct (best_go b bi bv bval (Datatypes.S i) l) as [[j v] x].
        destruct IH as [Ex [Hge' [Hub Hw]]]. split; [exact Ex|]. split; [exact Hge'|]. split.
        * intros e0 [<-|H0]; [lra| apply Hub; exact H0].
        * destruct Hw as [[-> ->]|[Hr ->]]; [left; split; reflexivity|]. right. split; [lia|].
          replace (j - i)%nat with (Datatypes.S (j - Datatypes.S i)) by lia. reflexivity.
  Qed.

  Theorem best_index_attains_lemma : forall l b, l <> [] ->
    (best_index l b < length l)%nat /\ dot (vals (nth (best_index l b) l dummy_entry)) b == vbest l b.
  Proof.
    intros [|e l] b Hne; [congruence|]. unfold best_index.
    pose proof (best_go_spec b l O (vals e) (dot (vals e) b) 1%nat ltac:(reflexivity)) as H.
    destruct (best_go b O (vals e) (dot (vals e) b) 1%nat l) as [[j v] x]. cbn [fst].
    destruct H as [Ex [Hge [Hub Hw]]].
    assert (Hv : v = vals (nth j (e :: l) dummy_entry) /\ (j < length (e :: l))%nat).
    { destruct Hw as [[-> ->]|[Hr ->]]; [split; [reflexivity| cbn; lia]|]. split; [| cbn [length]; lia].
      replace j with (Datatypes.S (j - 1)) at 2 by lia. reflexivity. }
    destruct Hv as [Hv Hj]. split; [exact Hj|]. symmetry. apply vbest_char; [discriminate| |].
    - intros e0 [<-|H0]; rewrite <- Hv, <- Ex; [exact Hge| apply Hub; exact H0].
    - exists (nth j (e :: l) dummy_entry). split; [apply nth_In; exact Hj| reflexivity].
  Qed.



(* soundness of the boolean plan checker at tolerance 0 *)
Lemma closeb0_veq : forall v w, closeb 0 v w = true -> veq v w.
Proof.
  induction v as [|x v IH]; intros [|y w] H; unfold closeb in H; cbn [length combine forallb] in H;
    try (apply andb_prop in H; destruct H as [H _]; cbn in H; discriminate); [constructor|].
  apply andb_prop in H. destruct H as [Hl H]. cbn [fst snd] in H. apply andb_prop in H. destruct H as [Hxy H].
  apply andb_prop in Hxy. destruct Hxy as [H1 H2]. apply Qle_bool_iff in H1, H2.
  constructor; [lra|]. apply IH. unfold closeb. cbn in Hl. rewrite Hl. exact H.
Qed.

Lemma check_entry_sound_lemma : forall m prev e, check_entry 0 m prev e = true -> entry_is_plan m prev e.
Proof.
  intros m prev e H. unfold check_entry in H.
  apply andb_prop in H. destruct H as [H Hc]. apply andb_prop in H. destruct H as [H Hl].
  apply andb_prop in H. destruct H as [Ha Hn].
  apply Nat.ltb_lt in Ha. apply Nat.eqb_eq in Hn.
  unfold entry_is_plan, links_ok. split; [exact Ha|]. split; [split; [exact Hn|]|].
  - apply Forall_forall. intros l Hin. rewrite forallb_forall in Hl. apply Nat.ltb_lt. apply Hl; exact Hin.
  - apply closeb0_veq; exact Hc.
Qed.

(* ---- POMDP::Policy as a distribution over actions: getActionProbability is the indicator of the sampled
   action, so over an action space containing it the probabilities sum to one *)
Lemma qsum_map_seq_ind : forall (f : nat -> Q) n o, (o < n)%nat ->
  (forall k, (k < n)%nat -> k <> o -> f k == 0) -> qsum (map f (seq 0 n)) == f o.
Proof.
  intros f n o Ho Hz.
  replace n with (o + Datatypes.S (n - o - 1))%nat by lia.
  rewrite seq_app, map_app, qsum_app. change (0 + o)%nat with o. cbn [seq map qsum].
  rewrite (qsum_map_zero _ f (seq 0 o)) by (intros k Hk; apply in_seq in Hk; apply Hz; lia).
  rewrite (qsum_map_zero _ f (seq (Datatypes.S o) (n - o - 1))) by (intros k Hk; apply in_seq in Hk; apply Hz; lia).
  ring.
Qed.

Lemma indicator_sum : forall A a', (a' < A)%nat ->
  qsum (map (fun a => if Nat.eqb a a' then 1 else 0) (seq 0 A)) == 1.
Proof.
  intros A a' H.
  rewrite (qsum_map_seq_ind (fun a => if Nat.eqb a a' then 1 else 0) A a' H); [rewrite Nat.eqb_refl; reflexivity|].
  intros k _ Hk. destruct (Nat.eqb_spec k a'); [congruence| reflexivity].
Qed.

Theorem policy_prob_is_distribution_lemma : forall vf h b A a' id,
  policy_first vf h b = Some (a', id) -> (a' < A)%nat ->
  (forall a, policy_prob vf h b a == 1 \/ policy_prob vf h b a == 0) /\
  policy_prob vf h b a' == 1 /\
  qsum (map (policy_prob vf h b) (seq 0 A)) == 1.
Proof.
  intros vf h b A a' id Hf Ha. unfold policy_prob. rewrite Hf. split; [| split].
  - intros a. destruct (Nat.eqb a a'); [left| right]; reflexivity.
  - rewrite Nat.eqb_refl. reflexivity.
  - apply indicator_sum. exact Ha.
Qed.
