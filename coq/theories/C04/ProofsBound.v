(* C04/ProofsBound.v — a value function made of plans is a sound LOWER bound: no conditional plan
   can promise more than the optimal expectimax value (when the horizon-0 entries promise nothing).
   Together with the plan checker this certifies the output of ANY solver (IP, Witness,
   LinearSupport, PBVI, …) as a lower bound without modelling the solver. *)
From Coq Require Import List Arith ZArith QArith Qminmax Lqa Lia Bool Setoid.
From AIT Require Import Base.Qx Base.Mdp Base.MdpExec C02.Model C02.Spec C02.ProofsVec C02.ProofsCross
  C02.ProofsSched C02.ProofsProj C02.ProofsIP C04.Model C04.ProofsPlan C04.ProofsExec.
Import ListNotations.
Local Open Scope Q_scope.

Section Bound.
  Variable m : pomdp.
  Hypothesis Hwf : wf_pomdp1 m.
  Let S := nS (pm m).

  Theorem plan_le_EV_lemma : forall older cur i tau, chain_ok m older cur ->
    (forall e tau', In e (last (cur :: older) []) -> dot (vals e) tau' == 0) ->
    (i < length cur)%nat -> nonneg tau -> length tau = S ->
    dot (vals (nth i cur dummy_entry)) tau <= EV m (length older) tau.
  Proof.
    induction older as [|prev older IH]; intros cur i tau Hc Hz Hi Hn Ht; cbn [length EV chain_ok] in *.
    - rewrite (Hz (nth i cur dummy_entry) tau); [lra| cbn [last]; apply nth_In; exact Hi].
    - destruct Hc as [Hp [Wp Hc]]. rewrite Forall_forall in Hp.
      destruct (Hp _ (nth_In cur dummy_entry Hi)) as [Ha [[Ll Lr] Hv]].
      set (e := nth i cur dummy_entry) in *.
      rewrite (dot_veq_l _ _ tau Hv).
      assert (Hlk : forall o, (o < nO m)%nat -> (nth o (obs e) 0 < length prev)%nat).
      { intros o Ho. rewrite Forall_forall in Lr. apply Lr. apply nth_In. rewrite Ll. exact Ho. }
      rewrite (dot_plan_vals m); [| exact Ht |].
      2:{ intros o Ho. unfold linked. unfold wfl in Wp. rewrite Forall_forall in Wp. apply Wp. apply nth_In. apply Hlk; exact Ho. }
      assert (Hg : 0 <= gam (pm m)) by apply (Hg0 m Hwf).
      apply Qle_trans with (rew_at m tau (act e) + gam (pm m) * qsum (map (fun o => EV m (length older) (tau_step m tau (act e) o)) (seq 0 (nO m)))).
      + assert (Hs : qsum (map (fun o => dot (linked prev e o) (tau_step m tau (act e) o)) (seq 0 (nO m))) <=
                     qsum (map (fun o => EV m (length older) (tau_step m tau (act e) o)) (seq 0 (nO m)))).
        { apply qsum_map_le. intros o Ho. apply in_seq in Ho. unfold linked.
          apply IH; [exact Hc| | apply Hlk; lia | apply (tau_step_nonneg m Hwf); assumption | apply tau_step_length].
          intros e' tau' He'. apply Hz. destruct older; exact He'. }
        nra.
      + apply maxl_ub. apply (in_map (fun a => rew_at m tau a + gam (pm m) * qsum (map (fun o => EV m (length older) (tau_step m tau a o)) (seq 0 (nO m))))).
        apply in_seq. lia.
  Qed.

  (* the whole surface of the newest horizon is below the optimum *)
  Corollary plan_surface_le_EV_lemma : forall older cur tau, chain_ok m older cur -> cur <> [] ->
    (forall e tau', In e (last (cur :: older) []) -> dot (vals e) tau' == 0) ->
    nonneg tau -> length tau = S -> vbest cur tau <= EV m (length older) tau.
  Proof.
    intros older cur tau Hc Hne Hz Hn Ht.
    destruct (vbest_attained cur tau Hne) as [e [He E]]. rewrite E.
    destruct (In_nth cur e dummy_entry He) as [i [Hi <-]].
    apply plan_le_EV_lemma; assumption.
  Qed.
End Bound.

(* from the oldest-first representation the checker walks to the newest-first chain *)
Fixpoint to_chain (older : list vlist) (cur : vlist) (rest : list vlist) : list vlist * vlist :=
  match rest with
  | [] => (older, cur)
  | l :: t => to_chain (cur :: older) l t
  end.

Lemma check_vf_chain_lemma : forall m rest older cur, chain_ok m older cur -> wfl (nS (pm m)) cur ->
  check_vf 0 m cur rest = true ->
  let '(o', c') := to_chain older cur rest in chain_ok m o' c' /\ wfl (nS (pm m)) c'.
Proof.
  intros m rest; induction rest as [|l t IH]; intros older cur Hc Hw Hk; cbn [to_chain check_vf] in *.
  - split; assumption.
  - apply andb_prop in Hk. destruct Hk as [Hl Ht]. rewrite forallb_forall in Hl.
    assert (Hplans : Forall (entry_is_plan m cur) l).
    { apply Forall_forall. intros e He. apply check_entry_sound_lemma. apply Hl; exact He. }
    apply IH; [| | exact Ht].
    + cbn [chain_ok]. split; [exact Hplans| split; assumption].
    + unfold wfl. apply Forall_forall. intros e He. rewrite Forall_forall in Hplans.
      destruct (Hplans e He) as [_ [_ Hv]]. rewrite (veq_length _ _ Hv). unfold plan_vals. rewrite map_length, seq_length. reflexivity.
Qed.
