(* C04/Model.v — POMDP::Policy's use of a value function (src/POMDP/Policies/Policy.cpp).
   The solvers' value-function construction is modelled in C02/Model.v.  No proofs here. *)
From Coq Require Import List Arith QArith Bool.
From AIT Require Import Base.Qx Base.Mdp Base.MdpExec C02.Model C02.Spec.
Import ListNotations.

(* src: Policy::sampleAction(id, o, horizon):  vlist = policy_[horizon+1];
        newId = vlist[id].observations[o];  action = policy_[horizon][newId].action
   Both operator[] accesses are unchecked in C++; here they are checked: None = out of bounds. *)
Definition policy_step (vf : list vlist) (h id o : nat) : option (nat * nat) :=
  match nth_error vf (S h) with
  | None => None
  | Some vl =>
    match nth_error vl id with
    | None => None
    | Some e =>
      match nth_error (obs e) o with
      | None => None
      | Some newId =>
        match nth_error vf h with
        | None => None
        | Some prev =>
          match nth_error prev newId with
          | None => None
          | Some e' => Some (act e', newId)
          end
        end
      end
    end
  end.

(* src: Utils/Core.hpp:veccmp(lhs, rhs) > 0 — lexicographic: first differing entry is larger *)
Fixpoint veccmp_gt (v w : vec) : bool :=
  match v, w with
  | x :: v', y :: w' => if Qlt_le_dec y x then true else if Qlt_le_dec x y then false else veccmp_gt v' w'
  | _, _ => false
  end.

(* src: Polytope.hpp:findBestAtPoint — update when strictly better, or equal and lexicographically
   greater; returns the index of bestMatch *)
Fixpoint best_go (b : vec) (bi : nat) (bv : vec) (bval : Q) (i : nat) (l : vlist) : nat * vec * Q :=
  match l with
  | [] => (bi, bv, bval)
  | e :: t =>
    let cv := dot (vals e) b in
    if Qlt_le_dec bval cv then best_go b i (vals e) cv (S i) t
    else if Qeq_bool cv bval && veccmp_gt (vals e) bv then best_go b i (vals e) cv (S i) t
    else best_go b bi bv bval (S i) t
  end.
Definition best_index (l : vlist) (b : vec) : nat :=
  match l with
  | [] => O
  | e :: t => fst (fst (best_go b O (vals e) (dot (vals e) b) 1 t))
  end.

(* src: Policy::sampleAction(b, horizon) *)
Definition policy_first (vf : list vlist) (h : nat) (b : vec) : option (nat * nat) :=
  match nth_error vf h with
  | None => None
  | Some vl => match nth_error vl (best_index vl b) with
               | None => None
               | Some e => Some (act e, best_index vl b)
               end
  end.

(* src: Policy::getActionProbability(b, a, horizon): 1 for the action sampleAction(b, horizon) returns, else 0
   (getActionProbability(b, a) is the same at the last horizon) *)
Definition policy_prob (vf : list vlist) (h : nat) (b : vec) (a : nat) : Q :=
  match policy_first vf h b with
  | Some (a', _) => if Nat.eqb a a' then 1 else 0
  | None => 0
  end.

(* src: POMDP/Utils.hpp:crossSumBestAtBelief(b, row, &out, &value) for one action row: per
   observation take findBestAtPoint of the projection list at b, add its vector, link to ITS parent
   id (observations[0]).  [row] is the list of projection lists, one per observation. *)
Definition csbb_row (b : vec) (row : list vlist) (a : nat) (S : nat) : ventry * Q :=
  let picks := map (fun r => nth (best_index r b) r dummy_entry) row in
  ({| vals := fold_left (fun acc e => vred (vadd acc (vals e))) picks (vzero S);
      act := a;
      obs := map (fun e => hd O (obs e)) picks |},
   Qred (qsum (map (fun e => dot (vals e) b) picks))).

(* the projections of one action, unpruned, as PBVI / Witness / LinearSupport / PERSEUS use them *)
Definition proj_row (m : pomdp) (w : vlist) (a : nat) : list vlist :=
  map (fun o => project m w a o) (seq 0 (nO m)).

(* src: crossSumBestAtBelief(b, projs, &value): best action's entry, strict > update from action 0 *)
Fixpoint csbb_all_go (m : pomdp) (w : vlist) (b : vec) (best : ventry * Q) (acts : list nat) : ventry * Q :=
  match acts with
  | [] => best
  | a :: t =>
    let cand := csbb_row b (proj_row m w a) a (nS (pm m)) in
    if Qlt_le_dec (snd best) (snd cand) then csbb_all_go m w b cand t else csbb_all_go m w b best t
  end.
Definition csbb_all (m : pomdp) (w : vlist) (b : vec) : ventry * Q :=
  csbb_all_go m w b (csbb_row b (proj_row m w 0) 0 (nS (pm m))) (seq 1 (nA (pm m) - 1)).
