(* C04/ProofsPointExact.v — the best-action point backup (crossSumBestAtBelief over all actions),
   as LinearSupport runs it at every vertex and PBVI / PERSEUS at every belief: its value at the
   belief is the full one-step look-ahead (maximum over ALL actions) of the previous surface, and
   when the previous surface is exact (equal to expectimax of horizon n at every unnormalised belief)
   the new entry ATTAINS expectimax of horizon n+1 at that belief.  Together with plan_surface_le_EV
   (a surface of plans never exceeds expectimax) this is the partial correctness of every solver
   that assembles its surface from best-action backups at chosen beliefs: the surface is below EV
   everywhere and touches it at each belief that was backed up. *)
From Coq Require Import List Arith ZArith QArith Qminmax Lqa Lia Bool Setoid.
From AIT Require Import Base.Qx Base.Mdp Base.MdpExec C02.Model C02.Spec C02.ProofsVec C02.ProofsCross
  C02.ProofsSched C02.ProofsProj C02.ProofsIP C04.Model C04.Spec C04.ProofsPlan C04.ProofsExec C04.ProofsPoint.
Import ListNotations.
Local Open Scope Q_scope.

Section PointExact.
  Variable m : pomdp.
  Let S := nS (pm m).
  Hypothesis HO : (0 < nO m)%nat.
  Hypothesis Hg : 0 <= gam (pm m).
  Hypothesis Hclean : obs_clean m.

  Lemma csbb_row_snd : forall b w a, w <> [] -> wfl S w -> length b = S -> (a < nA (pm m))%nat ->
    snd (csbb_row b (proj_row m w a) a S) == lookahead m w b a.
  Proof.
    intros b w a Hne Hw Hb Ha.
    pose proof (point_backup_value_lemma m HO Hg Hclean b w a Hne Hw Hb Ha) as H. fold S in H.
    destruct (csbb_row b (proj_row m w a) a S) as [e v]. cbn [snd]. destruct H as [_ H]. exact H.
  Qed.

  (* the strict-improvement scan keeps a running maximum *)
  Lemma csbb_all_go_max : forall w b, w <> [] -> wfl S w -> length b = S ->
    forall acts best M, Forall (fun a => (a < nA (pm m))%nat) acts ->
    snd best == M ->
    snd (csbb_all_go m w b best acts) == qmax_from M (map (lookahead m w b) acts).
  Proof.
    intros w b Hne Hw Hb acts. induction acts as [|a acts IH]; intros best M Ha Eb; cbn [csbb_all_go map qmax_from]; [exact Eb|].
    inversion Ha as [|? ? Ha0 Ha']; subst.
    pose proof (csbb_row_snd b w a Hne Hw Hb Ha0) as Ea. fold S.
    destruct (Qlt_le_dec (snd best) (snd (csbb_row b (proj_row m w a) a S))) as [Hlt|Hle].
    - rewrite (IH _ (Qmax M (lookahead m w b a)) Ha'); [reflexivity|].
      rewrite Ea. rewrite Ea, Eb in Hlt. symmetry. apply Q.max_r. lra.
    - rewrite (IH _ (Qmax M (lookahead m w b a)) Ha'); [reflexivity|].
      rewrite Eb. rewrite Ea, Eb in Hle. symmetry. apply Q.max_l. exact Hle.
  Qed.

  Theorem best_action_backup_value_lemma : forall w b, w <> [] -> wfl S w -> length b = S -> (0 < nA (pm m))%nat ->
    snd (csbb_all m w b) == dot (vals (fst (csbb_all m w b))) b /\
    snd (csbb_all m w b) == maxl (map (lookahead m w b) (seq 0 (nA (pm m)))).
  Proof.
    intros w b Hne Hw Hb HA. split.
    - unfold csbb_all.
      destruct (csbb_all_go_in m w b (seq 1 (nA (pm m) - 1)) (csbb_row b (proj_row m w 0) 0%nat (nS (pm m)))) as [a [E Ha]].
      + exists 0%nat; split; [reflexivity| exact HA].
      + apply Forall_forall. intros a Ha. apply in_seq in Ha. lia.
      + rewrite E. pose proof (point_backup_value_lemma m HO Hg Hclean b w a Hne Hw Hb Ha) as H. fold S in H. fold S.
        destruct (csbb_row b (proj_row m w a) a S) as [e v]. cbn [fst snd]. destruct H as [H _]. exact H.
    - unfold csbb_all. fold S.
      replace (seq 0 (nA (pm m))) with (0%nat :: seq 1 (nA (pm m) - 1)).
      2:{ destruct (nA (pm m)) as [|k]; [lia|]. cbn [seq]. rewrite Nat.sub_succ, Nat.sub_0_r. reflexivity. }
      cbn [map maxl].
      apply (csbb_all_go_max w b Hne Hw Hb).
      + apply Forall_forall. intros a Ha. apply in_seq in Ha. lia.
      + apply csbb_row_snd; assumption.
  Qed.
End PointExact.

(* When the previous surface is exact, the best-action backup attains expectimax at its belief. *)
Theorem best_action_backup_exact_lemma : forall m, wf_pomdp1 m -> obs_clean m ->
  forall n w b, w <> [] -> wfl (nS (pm m)) w -> length b = nS (pm m) -> nonneg b ->
  (forall tau, nonneg tau -> length tau = nS (pm m) -> vbest w tau == EV m n tau) ->
  snd (csbb_all m w b) == EV m (S n) b /\ dot (vals (fst (csbb_all m w b))) b == EV m (S n) b.
Proof.
  intros m Hwf Hclean n w b Hne Hw Hb Hnb Hex.
  assert (HO : (0 < nO m)%nat) by (destruct Hwf as [_ [H _]]; exact H).
  assert (HA : (0 < nA (pm m))%nat) by (destruct Hwf as [[_ [H _]] _]; exact H).
  assert (Hg : 0 <= gam (pm m)) by (destruct Hwf as [[_ [_ [H _]]] _]; lra).
  destruct (best_action_backup_value_lemma m HO Hg Hclean w b Hne Hw Hb HA) as [E1 E2].
  assert (E : snd (csbb_all m w b) == EV m (S n) b).
  { rewrite E2. cbn [EV]. apply maxl_map_ext.
    - destruct (nA (pm m)); [lia| cbn [seq]; discriminate].
    - intros a Ha. apply in_seq in Ha. unfold lookahead.
      assert (Q : qsum (map (fun o => vbest w (tau_step m b a o)) (seq 0 (nO m))) ==
                  qsum (map (fun o => EV m n (tau_step m b a o)) (seq 0 (nO m)))).
      { apply qsum_map_ext. intros o _. apply Hex.
        - apply (tau_step_nonneg m Hwf); [exact Hnb| lia].
        - unfold tau_step. rewrite map_length, seq_length. reflexivity. }
      rewrite Q. reflexivity. }
  split; [exact E|]. rewrite <- E1. exact E.
Qed.
