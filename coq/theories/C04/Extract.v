From Coq Require Extraction.
From Coq Require Import ExtrOcamlBasic.
From AIT Require Import Base.Vio Base.Qx Base.Mdp Base.MdpExec C02.Model C02.Spec C04.Model C04.Spec.
Extraction "model.ml" vio_kit wf_mdpb wf_mdp1b EV_r vbest check_vf check_entry obs_cleanb ops_ok policy_first policy_step policy_prob best_index
  csbb_row proj_row csbb_all tree_return ip_run prune_pw exec_return exec_steps lookahead_best.
