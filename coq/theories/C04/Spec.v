(* C04/Spec.v — expected return of an explicit decision tree (what POMDP::Policy actually did). *)
From Coq Require Import List Arith QArith.
From AIT Require Import Base.Qx Base.Mdp Base.MdpExec C02.Model C02.Spec.
Import ListNotations.
Local Open Scope Q_scope.

Inductive ptree := PT : nat -> nat -> list ptree -> ptree.   (* action, entry id, one child per observation *)

(* expected discounted return of following the tree from the unnormalised belief tau; a node
   without children is a horizon-0 entry: it contributes what that entry of [v0] promises *)
Fixpoint tree_return (m : pomdp) (v0 : vlist) (t : ptree) (tau : vec) : Q :=
  match t with
  | PT a id kids =>
    match kids with
    | [] => Qred (dot (vals (nth id v0 dummy_entry)) tau)
    | _ =>
      let fix go (ks : list ptree) (o : nat) : Q :=
        match ks with
        | [] => 0
        | k :: ks' => tree_return m v0 k (tau_step_r m tau a o) + go ks' (S o)
        end in
      Qred (rew_at m tau a + gam (pm m) * go kids O)
    end
  end.

(* one-step look-ahead of a surface w at the unnormalised belief b for action a (the defining
   mathematics of a point-based backup's value; best_action_backup_value / _exact in Properties_C04) *)
Definition lookahead (m : pomdp) (w : vlist) (b : vec) (a : nat) : Q :=
  rew_at m b a + gam (pm m) * qsum (map (fun o => vbest w (tau_step m b a o)) (seq 0 (nO m))).
Definition lookahead_best (m : pomdp) (w : vlist) (b : vec) : Q :=
  maxl (map (lookahead m w b) (seq 0 (nA (pm m)))).
