(* C04/ProofsPoint.v — the point-based backup (crossSumBestAtBelief), shared by PBVI, PERSEUS,
   Witness and LinearSupport: its entry is a plan over the previous list, and its value at the
   belief is the one-step look-ahead of the previous list's surface. *)
From Coq Require Import List Arith ZArith QArith Qminmax Lqa Lia Bool Setoid.
From AIT Require Import Base.Qx Base.Mdp Base.MdpExec C02.Model C02.Spec C02.ProofsVec C02.ProofsCross
  C02.ProofsSched C02.ProofsProj C02.ProofsIP C04.Model C04.ProofsPlan C04.ProofsExec.
Import ListNotations.
Local Open Scope Q_scope.

Lemma fold_vadd_spec : forall S picks acc, length acc = S -> Forall (fun e => length (vals e) = S) picks ->
  let r := fold_left (fun acc e => vred (vadd acc (vals e))) picks acc in
  length r = S /\ forall s, nthq r s == nthq acc s + qsum (map (fun c => nthq (vals c) s) picks).
Proof.
  intros S picks; induction picks as [|e picks IH]; intros acc Ha Hp; cbn [fold_left map qsum].
  - split; [exact Ha| intros; lra].
  - inversion Hp as [|? ? He Hp']; subst.
    assert (Hl : length (vred (vadd acc (vals e))) = length acc) by (rewrite vred_length, vadd_length; congruence).
    destruct (IH (vred (vadd acc (vals e))) ltac:(congruence) Hp') as [L V]. split; [exact L|].
    intros s. rewrite V. rewrite (nthq_veq _ _ s (vred_veq _)). rewrite nthq_vadd by congruence. lra.
Qed.

Lemma nthq_vzero : forall S s, nthq (vzero S) s == 0.
Proof.
  intros S s. unfold nthq, vzero. destruct (Nat.lt_ge_cases s S) as [H|H].
  - rewrite nth_repeat. reflexivity.
  - rewrite nth_overflow by (rewrite repeat_length; exact H). reflexivity.
Qed.

Section Point.
  Variable m : pomdp.
  Let S := nS (pm m).
  Hypothesis HO : (0 < nO m)%nat.
  Hypothesis Hg : 0 <= gam (pm m).
  Hypothesis Hclean : obs_clean m.

  Definition picks_of (b : vec) (w : vlist) (a : nat) : list ventry :=
    map (fun r => nth (best_index r b) r dummy_entry) (proj_row m w a).

  Lemma picks_facts : forall b w a, w <> [] -> (a < nA (pm m))%nat ->
    Forall2 (fun c o => proj_fact m w a o c) (picks_of b w a) (seq 0 (nO m)) /\
    Forall (fun e => length (vals e) = S) (picks_of b w a).
  Proof.
    intros b w a Hne Ha. unfold picks_of, proj_row. rewrite map_map.
    assert (G : forall l, (forall o, In o l -> (o < nO m)%nat) ->
              Forall2 (fun c o => proj_fact m w a o c) (map (fun o => nth (best_index (project m w a o) b) (project m w a o) dummy_entry) l) l /\
              Forall (fun e => length (vals e) = S) (map (fun o => nth (best_index (project m w a o) b) (project m w a o) dummy_entry) l)).
    { induction l as [|o l IH]; intros Hl; cbn [map]; [split; constructor|].
      destruct (IH (fun o' H => Hl o' (or_intror H))) as [F W].
      assert (Ho : (o < nO m)%nat) by (apply Hl; left; reflexivity).
      destruct (best_index_attains_lemma (project m w a o) b (project_nonempty m w a o Hne)) as [Hi _].
      pose proof (project_entry_fact m HO Hclean w a o _ Hne Ha Ho (nth_In _ dummy_entry Hi)) as PF.
      split; constructor; try assumption. destruct PF as [_ [_ [L _]]]. exact L. }
    apply G. intros o Ho. apply in_seq in Ho. lia.
  Qed.

  Theorem point_backup_is_plan_lemma : forall b w a, w <> [] -> (a < nA (pm m))%nat ->
    entry_is_plan m w (fst (csbb_row b (proj_row m w a) a S)).
  Proof.
    intros b w a Hne Ha. unfold csbb_row. cbn [fst]. fold (picks_of b w a).
    destruct (picks_facts b w a Hne Ha) as [F W].
    destruct (choice_struct m HO w a (nO m) (picks_of b w a) 0%nat F) as [_ [Lc Rc]].
    destruct (fold_vadd_spec S (picks_of b w a) (vzero S) (repeat_length _ _) W) as [L V].
    unfold entry_is_plan, links_ok. cbn [act obs vals]. split; [exact Ha|]. split.
    - split; [rewrite map_length; exact Lc| exact Rc].
    - apply (veq_pointwise _ _ S); [exact L| unfold plan_vals; rewrite map_length, seq_length; reflexivity|].
      intros s Hs. rewrite V, nthq_vzero, Qplus_0_l.
      rewrite (choice_vals m HO w a s (nO m) (picks_of b w a) 0%nat Hs F).
      unfold plan_vals. fold S. rewrite nthq_map_seq by exact Hs. cbn [act obs].
      rewrite <- (sum_shares' m HO). apply qsum_map_ext. intros o _. unfold linked. cbn [obs]. rewrite Nat.sub_0_r. reflexivity.
  Qed.

  (* its reported value is the dot product of its vector with b, and equals the one-step
     look-ahead of the previous surface at b *)
  Theorem point_backup_value_lemma : forall b w a, w <> [] -> wfl S w -> length b = S -> (a < nA (pm m))%nat ->
    let '(e, v) := csbb_row b (proj_row m w a) a S in
    v == dot (vals e) b /\
    v == rew_at m b a + gam (pm m) * qsum (map (fun o => vbest w (tau_step m b a o)) (seq 0 (nO m))).
  Proof.
    intros b w a Hne Hw Hb Ha. unfold csbb_row. fold (picks_of b w a).
    destruct (picks_facts b w a Hne Ha) as [F W].
    destruct (fold_vadd_spec S (picks_of b w a) (vzero S) (repeat_length _ _) W) as [L V].
    set (e := fold_left (fun acc e => vred (vadd acc (vals e))) (picks_of b w a) (vzero S)) in *.
    cbn [vals].
    assert (E1 : Qred (qsum (map (fun c => dot (vals c) b) (picks_of b w a))) == dot e b).
    { rewrite Qred_correct. rewrite (dot_as_sum e b S L Hb).
      transitivity (qsum (map (fun s => qsum (map (fun c => nthq (vals c) s * nthq b s) (picks_of b w a))) (seq 0 S))).
      - rewrite qsum_swap. apply qsum_map_ext. intros c Hc. rewrite Forall_forall in W. apply (dot_as_sum _ b S (W c Hc) Hb).
      - apply qsum_map_ext. intros s _. rewrite V, nthq_vzero, Qplus_0_l. rewrite qsum_map_mul_r. reflexivity. }
    split; [exact E1|].
    rewrite Qred_correct. unfold picks_of, proj_row. rewrite !map_map.
    rewrite <- (sum_shares' m HO). apply qsum_map_ext. intros o Ho. apply in_seq in Ho.
    destruct (best_index_attains_lemma (project m w a o) b (project_nonempty m w a o Hne)) as [_ Ev]. rewrite Ev.
    apply (vbest_project m HO Hg Hclean); try assumption. lia.
  Qed.
End Point.

(* ---- any solver step built from point-based backups and sub-list selections yields plans:
   PBVI (one backup per belief and action, then extractDominated / extractBestAtPoint),
   Witness (one backup per witness point found by the LP, then Pruner), PERSEUS and
   LinearSupport (best-action backup at chosen beliefs / vertices). *)
Section PointStep.
  Variable m : pomdp.
  Hypothesis HO : (0 < nO m)%nat.
  Hypothesis Hclean : obs_clean m.
  Variable select : vlist -> vlist.
  Hypothesis select_sub : forall l e, In e (select l) -> In e l.

  (* all candidate entries for a list of (belief, action) requests *)
  Definition point_candidates (w : vlist) (reqs : list (vec * nat)) : vlist :=
    map (fun ba => fst (csbb_row (fst ba) (proj_row m w (snd ba)) (snd ba) (nS (pm m)))) reqs.

  Theorem point_step_entries_are_plans_lemma : forall w reqs, w <> [] ->
    Forall (fun ba => (snd ba < nA (pm m))%nat) reqs ->
    Forall (entry_is_plan m w) (select (point_candidates w reqs)).
  Proof.
    intros w reqs Hne Hr. apply Forall_forall. intros e He. apply select_sub in He.
    unfold point_candidates in He. apply in_map_iff in He. destruct He as [[b a] [<- Hin]].
    rewrite Forall_forall in Hr. specialize (Hr (b, a) Hin). cbn [fst snd] in *.
    apply point_backup_is_plan_lemma; assumption.
  Qed.

  (* the best-action backup (crossSumBestAtBelief over all actions) is one of the candidates *)
  Lemma csbb_all_go_in : forall w b acts best,
    (exists a, best = csbb_row b (proj_row m w a) a (nS (pm m)) /\ (a < nA (pm m))%nat) ->
    Forall (fun a => (a < nA (pm m))%nat) acts ->
    exists a, csbb_all_go m w b best acts = csbb_row b (proj_row m w a) a (nS (pm m)) /\ (a < nA (pm m))%nat.
  Proof.
    intros w b acts; induction acts as [|a acts IH]; intros best Hb Ha; cbn [csbb_all_go]; [exact Hb|].
    inversion Ha as [|? ? Ha0 Ha']; subst.
    destruct (Qlt_le_dec (snd best) (snd (csbb_row b (proj_row m w a) a (nS (pm m))))); apply IH; try assumption.
    exists a; split; [reflexivity| exact Ha0].
  Qed.

  Theorem best_action_backup_is_plan_lemma : forall w b, w <> [] -> (0 < nA (pm m))%nat ->
    entry_is_plan m w (fst (csbb_all m w b)).
  Proof.
    intros w b Hne HA. unfold csbb_all.
    destruct (csbb_all_go_in w b (seq 1 (nA (pm m) - 1)) (csbb_row b (proj_row m w 0) 0%nat (nS (pm m)))) as [a [E Ha]].
    - exists 0%nat; split; [reflexivity| exact HA].
    - apply Forall_forall. intros a Ha. apply in_seq in Ha. lia.
    - rewrite E. apply point_backup_is_plan_lemma; assumption.
  Qed.
End PointStep.
