(* C04/ProofsPlan.v — every entry produced by one Incremental-Pruning step is a plan over the
   previous horizon's list: action in range, one in-range link per observation, and its vector is
   the immediate reward plus the discounted back-up of the linked vectors. *)
From Coq Require Import List Arith ZArith QArith Qminmax Lqa Lia Bool Setoid.
From AIT Require Import Base.Qx Base.Mdp Base.MdpExec C02.Model C02.Spec C02.ProofsVec C02.ProofsCross
  C02.ProofsSched C02.ProofsProj C02.ProofsIP.
Import ListNotations.
Local Open Scope Q_scope.

Lemma Forall2_map_r : forall (A B C : Type) (P : A -> C -> Prop) (f : B -> C) l1 l2,
  Forall2 P l1 (map f l2) <-> Forall2 (fun a b => P a (f b)) l1 l2.
Proof.
  intros A B C P f l1 l2; revert l1; induction l2 as [|y l2 IH]; intros l1; cbn [map]; split; intros H; inversion H; subst; constructor; auto; apply IH; auto.
Qed.

Lemma Forall2_impl : forall (A B : Type) (P Q : A -> B -> Prop) l1 l2,
  (forall a b, P a b -> Q a b) -> Forall2 P l1 l2 -> Forall2 Q l1 l2.
Proof. intros A B P Q l1 l2 H F; induction F; constructor; auto. Qed.

Lemma vbest_zero : forall S l, l <> [] -> wfl S l -> vbest l (vzero S) == 0.
Proof.
  intros S l N W. apply vbest_char; [exact N| |].
  - intros e _. unfold vzero. rewrite dot_repeat0_r. lra.
  - destruct l as [|e l]; [congruence|]. exists e. split; [left; reflexivity| unfold vzero; apply dot_repeat0_r].
Qed.

Section Plan.
  Variable prune : vlist -> vlist.
  Hypothesis prune_sub : forall l e, In e (prune l) -> In e l.
  Hypothesis prune_ne : forall l, l <> [] -> prune l <> [].
  Variable m : pomdp.
  Let S := nS (pm m).
  Hypothesis HO : (0 < nO m)%nat.
  Hypothesis Hclean : obs_clean m.
  Hypothesis Hsched : ops_ok (nO m) = true.

  Definition lk (c : ventry) : nat := hd O (obs c).

  (* what every entry of a projection list looks like *)
  Definition proj_fact (w : vlist) (a o : nat) (c : ventry) : Prop :=
    obs c = [lk c] /\ (lk c < length w)%nat /\ length (vals c) = S /\
    forall s, (s < S)%nat ->
      nthq (vals c) s == gam (pm m) * nthq (backup_o m a o (vals (nth (lk c) w dummy_entry))) s + Rw m s a / Oq m.

  Lemma nthq_backup_o : forall a o v s, (s < S)%nat ->
    nthq (backup_o m a o v) s == qsum (map (fun s1 => Tp m s a s1 * Op m s1 a o * nthq v s1) (seq 0 S)).
  Proof. intros. unfold backup_o. fold S. rewrite nthq_map_seq by assumption. reflexivity. Qed.

  Lemma project_entry_fact : forall w a o c, w <> [] -> (a < nA (pm m))%nat -> (o < nO m)%nat ->
    In c (project m w a o) -> proj_fact w a o c.
  Proof.
    intros w a o c Hne Ha Ho Hc. unfold project in Hc. destruct (possible m a o) eqn:Ep.
    - apply (in_mapi_from _ _ _ w 0%nat dummy_entry) in Hc. destruct Hc as [i [Hi ->]]. cbn [Nat.add].
      unfold proj_fact, lk. cbn [obs vals hd]. split; [reflexivity|]. split; [exact Hi|]. split; [apply proj_vals_length|].
      intros s Hs. unfold proj_vals. fold S. rewrite nthq_map_seq by exact Hs. rewrite Qred_correct.
      rewrite nthq_backup_o by exact Hs. reflexivity.
    - destruct Hc as [<-|[]]. unfold proj_fact, lk. cbn [obs vals hd]. split; [reflexivity|]. split.
      + destruct w; [congruence| cbn; lia].
      + split; [apply imm_share_length|]. intros s Hs. unfold imm_share. fold S. rewrite nthq_map_seq by exact Hs.
        rewrite Qred_correct. rewrite nthq_backup_o by exact Hs.
        rewrite qsum_map_zero; [ring|]. intros s1 Hs1. apply in_seq in Hs1.
        rewrite (Hclean a o Ha Ho Ep s1) by lia. ring.
  Qed.

  (* a choice of one projected entry per observation: structure of the links *)
  Lemma choice_struct : forall w a n ch k,
    Forall2 (fun c o => proj_fact w a o c) ch (seq k n) ->
    concat (map obs ch) = map lk ch /\ length ch = n /\ Forall (fun l => (l < length w)%nat) (map lk ch).
  Proof.
    intros w a n. induction n as [|n IH]; intros ch k HF; cbn [seq] in HF; inversion HF as [|c o ch' os' Hc HF' E1 E2]; subst.
    - cbn. repeat split; constructor.
    - destruct (IH ch' (Datatypes.S k) HF') as [E [L R]]. destruct Hc as [Ho [Hl _]].
      cbn [map concat length]. rewrite Ho, E. cbn [app]. split; [reflexivity|]. split; [lia| constructor; assumption].
  Qed.

  (* ... and the sum of their values at state s *)
  Lemma choice_vals : forall w a s n ch k, (s < S)%nat ->
    Forall2 (fun c o => proj_fact w a o c) ch (seq k n) ->
    qsum (map (fun c => nthq (vals c) s) ch) ==
    qsum (map (fun o => Rw m s a / Oq m + gam (pm m) *
                        nthq (backup_o m a o (vals (nth (nth (o - k) (map lk ch) O) w dummy_entry))) s)
              (seq k n)).
  Proof.
    intros w a s n. induction n as [|n IH]; intros ch k Hs HF; cbn [seq] in HF; inversion HF as [|c o ch' os' Hc HF' E1 E2]; subst.
    - cbn. reflexivity.
    - pose proof (IH ch' (Datatypes.S k) Hs HF') as V. destruct Hc as [_ [_ [_ Hv]]].
      cbn [map seq qsum]. rewrite V, (Hv s Hs). rewrite Nat.sub_diag. cbn [nth].
      apply Qplus_comp; [ring|].
      apply qsum_map_ext. intros o' Ho'. apply in_seq in Ho'.
      replace (o' - k)%nat with (Datatypes.S (o' - Datatypes.S k)) by lia. cbn [nth]. reflexivity.
  Qed.

  Lemma sum_shares' : forall (X : nat -> Q) r,
    qsum (map (fun o => r / Oq m + gam (pm m) * X o) (seq 0 (nO m))) ==
    r + gam (pm m) * qsum (map X (seq 0 (nO m))).
  Proof.
    intros X r. rewrite qsum_map_add, qsum_map_const, qsum_map_mul_l, seq_length.
    fold (Oq m). pose proof (Oq_pos m HO). field. lra.
  Qed.

  Theorem per_action_entries_are_plans : forall w a e, w <> [] -> wfl S w -> (a < nA (pm m))%nat ->
    In e (per_action prune m w a) -> entry_is_plan m w e.
  Proof.
    intros w a e Hne Hw Ha He.
    assert (Hlen : length (obs_lists prune m w a) = nO m) by (unfold obs_lists; rewrite map_length, seq_length; reflexivity).
    (* instantiate the schedule lemma at the zero belief: there the envelope condition is trivial *)
    assert (Henv0 : forall l, l <> [] -> wfl S l -> vbest (prune l) (vzero S) == vbest l (vzero S)).
    { intros l N W. rewrite !(vbest_zero S); [reflexivity| exact N| exact W| apply prune_ne; exact N|].
      unfold wfl in *. apply Forall_forall. intros x Hx. apply prune_sub in Hx. rewrite Forall_forall in W. apply W; exact Hx. }
    pose proof (merge_all_ok prune S a (vzero S) prune_sub prune_ne Henv0 (obs_lists prune m w a)
                  (obs_lists_good prune prune_sub prune_ne m w a Hne)) as H.
    rewrite Hlen in H. specialize (H Hsched). destruct H as [_ [_ [Wp [_ C]]]].
    rewrite Forall_forall in C. destruct (C e He) as [Hact [ch [F [V Ob]]]].
    unfold slice in F. rewrite Nat.sub_0_r in F.
    pose proof (map_nth_seq_id _ (obs_lists prune m w a) []) as E. rewrite Hlen in E. rewrite E in F. clear E.
    unfold obs_lists in F.
    pose proof (proj1 (Forall2_map_r _ _ _ (fun (c : ventry) (L : vlist) => In c L) (fun o => prune (project m w a o)) ch (seq 0 (nO m))) F) as F2.
    cbv beta in F2.
    assert (F' : Forall2 (fun c o => proj_fact w a o c) ch (seq 0 (nO m))).
    { assert (G : forall chx l, (forall o, In o l -> (o < nO m)%nat) ->
                  Forall2 (fun c o => In c (prune (project m w a o))) chx l -> Forall2 (fun c o => proj_fact w a o c) chx l).
      { intros chx l Hl FF. induction FF as [|c o ch0 l0 Hc FF IHF]; constructor.
        - apply project_entry_fact; [exact Hne| exact Ha| apply Hl; left; reflexivity| apply prune_sub; exact Hc].
        - apply IHF. intros o' Ho'. apply Hl; right; exact Ho'. }
      apply G; [| exact F2]. intros o Ho. apply in_seq in Ho. lia. }
    destruct (choice_struct w a (nO m) ch 0%nat F') as [Ec [Lc Rc]].
    assert (Eobs : obs e = map lk ch) by (rewrite Ob; exact Ec).
    unfold entry_is_plan, links_ok. rewrite Hact. split; [exact Ha|]. split.
    - rewrite Eobs. split; [rewrite map_length; exact Lc| exact Rc].
    - unfold wfl in Wp. rewrite Forall_forall in Wp.
      apply (veq_pointwise _ _ S); [apply Wp; exact He| unfold plan_vals; rewrite map_length, seq_length; reflexivity|].
      intros s Hs. rewrite V. rewrite (choice_vals w a s (nO m) ch 0%nat Hs F').
      unfold plan_vals. fold S. rewrite nthq_map_seq by exact Hs. rewrite Hact.
      rewrite <- sum_shares'. apply qsum_map_ext. intros o _. unfold linked. rewrite Eobs, Nat.sub_0_r. reflexivity.
  Qed.

  (* the whole step: every entry of ip_step is a plan over w *)
  Theorem ip_step_entries_are_plans : forall w, w <> [] -> wfl S w ->
    Forall (entry_is_plan m w) (ip_step prune m w).
  Proof.
    intros w Hne Hw. apply Forall_forall. intros e He. unfold ip_step in He. apply prune_sub in He.
    apply in_concat in He. destruct He as [l [Hl He]]. apply in_map_iff in Hl. destruct Hl as [a [<- Ha]].
    apply in_seq in Ha. apply (per_action_entries_are_plans w a e Hne Hw); [lia| exact He].
  Qed.
End Plan.
