(* C20/ProofsCopy.v — copies are values: a copy satisfies the same representation invariant (same
   store, same id counter, which stays above every stored id), so every history continued on the
   copy and every history continued on the original get the spec's outputs, independently. *)
From Coq Require Import List Arith Bool Sorted Lia Permutation.
From AIT Require Import C20.Model C20.Spec C20.ProofsLists C20.ProofsTrie C20.ProofsQuery C20.Proofs C20.ProofsFaster.
Import ListNotations.

Lemma trie_copy_inv : forall t s, Inv t s -> Inv (trie_copy t) s /\ tF (trie_copy t) = tF t.
Proof. intros [F c ids] s H. split; [exact H|reflexivity]. Qed.

Lemma ft_copy_inv : forall t s, FInv2 t s -> FInv2 (ft_copy t) s /\ fF (ft_copy t) = fF t.
Proof. intros [F c keys] s H. split; [exact H|reflexivity]. Qed.

(* the counter of a valid state is above every stored id: a copy never hands out a stored id *)
Lemma inv_counter_fresh : forall t c st, Inv t (c, st) -> tcounter t = c /\ forall e, In e st -> fst e < tcounter t.
Proof.
  intros t c st (Hc & _ & [_ Hf]). cbn [fst snd] in *. split; auto. intros e He. rewrite Forall_forall in Hf.
  rewrite Hc. apply Hf. auto.
Qed.

Lemma finv_counter_fresh : forall t c st, FInv2 t (c, st) -> fcounter t = c /\ forall e, In e st -> fst e < fcounter t.
Proof.
  intros t c st [(Hc & _ & _ & [_ Hf] & _) _]. cbn [fst snd] in *. split; auto. intros e He. rewrite Forall_forall in Hf.
  rewrite Hc. apply Hf. auto.
Qed.

(* fork: any history, then a copy; any continuation on the copy gets the spec's outputs from the
   spec state reached so far (and so does any continuation on the original: take ops2 on t itself) *)
Theorem trie_fork_lemma : forall F ops1 ops2, history_ok F ops1 -> hist_okb F (spec_state ops1) ops2 = true ->
  exists t t2, trie_history true F ops1 = Ok (t, spec_outs ops1) /\
    trie_run true (trie_copy t) ops2 = Ok (t2, snd (spec_run (spec_state ops1) ops2)) /\
    (exists t3, trie_run true t ops2 = Ok (t3, snd (spec_run (spec_state ops1) ops2))).
Proof.
  intros F ops1 ops2 H1 H2. destruct (history_sim F ops1 H1) as [t [E [HF HI]]]. destruct H1 as [Hlen _].
  destruct (trie_copy_inv t _ HI) as [HIc HFc].
  exists t. subst F.
  destruct (run_sim ops2 (trie_copy t) (spec_state ops1) HIc) as [t2 [E2 _]]; [rewrite HFc; auto|rewrite HFc; auto|].
  destruct (run_sim ops2 t (spec_state ops1) HI Hlen H2) as [t3 [E3 _]].
  exists t2. split; auto. split; eauto.
Qed.

Theorem ft_fork_lemma : forall F ops1 ops2, ft_history_ok F ops1 -> ft_hist_okb F (spec_state ops1) ops2 = true ->
  exists t outs1, ft_history F ops1 = Ok (t, outs1) /\
    (exists t2 outs2, ft_run (ft_copy t) ops2 = Ok (t2, outs2) /\ Forall2 out_sim (snd (spec_run (spec_state ops1) ops2)) outs2 /\
                      FInv2 t2 (fst (spec_run (spec_state ops1) ops2))) /\
    (exists t3 outs3, ft_run t ops2 = Ok (t3, outs3) /\ Forall2 out_sim (snd (spec_run (spec_state ops1) ops2)) outs3).
Proof.
  intros F ops1 ops2 H1 H2. unfold ft_history.
  destruct (ft_run_sim2 ops1 (ft_new F) (0, []) (ft_new_inv2 F) H1) as [t [outs1 [E [HF [HI _]]]]].
  cbn [ft_new fF] in HF. fold (spec_state ops1) in HI.
  destruct (ft_copy_inv t _ HI) as [HIc HFc]. exists t, outs1. split; auto. split.
  - destruct (ft_run_sim2 ops2 (ft_copy t) (spec_state ops1) HIc) as [t2 [outs2 [E2 [_ [HI2 Ho2]]]]]; [rewrite HFc, HF; auto|eauto].
  - destruct (ft_run_sim2 ops2 t (spec_state ops1) HI) as [t3 [outs3 [E3 [_ [_ Ho3]]]]]; [rewrite HF; auto|eauto].
Qed.
