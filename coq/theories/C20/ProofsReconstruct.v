(* C20/ProofsReconstruct.v — FasterTrie::reconstruct, for ANY outcome of its three shuffles:
   the returned entries are stored, compatible with the query and pairwise compatible, the
   returned factors carry the query's and the entries' values, and the buckets together with the
   returned entries (remove = true) / alone (remove = false) still hold exactly the store. *)
From Coq Require Import List Arith Bool Sorted Lia Permutation.
From AIT Require Import C20.Model C20.Spec C20.ProofsLists C20.ProofsTrie C20.ProofsQuery C20.Proofs C20.ProofsFaster.
Import ListNotations.

Definition rm (remove : bool) (l : list fentry) : list fentry := if remove then l else [].

Lemma rm_app : forall r a b, rm r (a ++ b) = rm r a ++ rm r b.
Proof. intros [|] a b; reflexivity. Qed.

Lemma pairs_pf_get : forall F keys vals lo k v, keys_ok F lo keys vals = true -> In (k, v) (combine keys vals) ->
  lo <= k /\ pf_get_go keys vals k = Some v.
Proof.
  induction keys as [|k0 ks IH]; intros vals lo k v H Hin; [destruct Hin|].
  destruct vals as [|v0 vs]; [destruct Hin|]. cbn [keys_ok] in H. rewrite !andb_true_iff in H. destruct H as [[H1 _] H3].
  apply Nat.leb_le in H1. cbn [combine In pf_get_go] in *. destruct Hin as [Hin|Hin].
  - inversion Hin; subst. rewrite Nat.eqb_refl. auto.
  - destruct (IH _ _ _ _ H3 Hin) as [Hge Hg]. split; [lia|]. destruct (k0 =? k) eqn:E; auto. apply Nat.eqb_eq in E. lia.
Qed.

Lemma pf_get_pairs : forall keys vals k v, pf_get_go keys vals k = Some v -> In (k, v) (combine keys vals).
Proof.
  induction keys as [|k0 ks IH]; intros vals k v H; cbn [pf_get_go] in H; [discriminate|].
  destruct vals as [|v0 vs]; [discriminate|]. cbn [combine In]. destruct (k0 =? k) eqn:E.
  - apply Nat.eqb_eq in E. inversion H; subst. left; auto.
  - right. auto.
Qed.

Lemma rc_assign_spec : forall F keys vals lo f, keys_ok F lo keys vals = true -> length f = length F ->
  exists f', rc_assign f keys vals = Ok f' /\ length f' = length F /\
             forall k, nth_error f' k = match pf_get_go keys vals k with Some v => Some v | None => nth_error f k end.
Proof.
  induction keys as [|k0 ks IH]; intros vals lo f H Hl.
  - destruct vals; [|discriminate]. exists f. cbn. auto.
  - destruct vals as [|v0 vs]; [discriminate|]. cbn [keys_ok] in H. rewrite !andb_true_iff in H. destruct H as [[H1 H2] H3].
    destruct (nth_error F k0) as [s|] eqn:Es; [|discriminate].
    assert (Hk0 : k0 < length f) by (rewrite Hl; apply nth_error_Some; congruence).
    destruct (nth_error f k0) as [x|] eqn:Ex; [|apply nth_error_None in Ex; lia].
    destruct (upd_some f k0 (fun _ => v0) x Ex) as [f1 Eu]. cbn [rc_assign]. rewrite Eu.
    destruct (IH vs (S k0) f1 H3) as [f' [E [Hl' Hn]]]; [rewrite (upd_length _ _ _ _ Eu); auto|].
    exists f'. split; auto. split; auto. intros k. rewrite Hn. cbn [pf_get_go]. rewrite (upd_nth _ _ _ _ Eu).
    destruct (k0 =? k) eqn:E1.
    + apply Nat.eqb_eq in E1. subst k. rewrite (pf_get_go_none F ks vs (S k0) k0 H3) by lia.
      rewrite Nat.eqb_refl, Ex. reflexivity.
    + destruct (pf_get_go ks vs k); auto. rewrite Nat.eqb_sym, E1. reflexivity.
Qed.

Definition matches (F f : list nat) (keys vals : list nat) : Prop :=
  forall k v fk Fk, pf_get_go keys vals k = Some v -> nth_error f k = Some fk -> nth_error F k = Some Fk -> fk < Fk -> v = fk.

Lemma rc_match_spec : forall F keys vals lo f, keys_ok F lo keys vals = true -> length f = length F ->
  exists b, rc_match F f keys vals = Ok b /\ (b = true <-> matches F f keys vals).
Proof.
  induction keys as [|k0 ks IH]; intros vals lo f H Hl.
  - exists true. split; auto. split; auto. intros _ k v fk Fk Hg. discriminate.
  - destruct vals as [|v0 vs]; [discriminate|]. pose proof H as H'. cbn [keys_ok] in H'. rewrite !andb_true_iff in H'. destruct H' as [[H1 H2] H3].
    destruct (nth_error F k0) as [s|] eqn:Es; [|discriminate].
    assert (Hk0 : k0 < length f) by (rewrite Hl; apply nth_error_Some; congruence).
    destruct (nth_error f k0) as [x|] eqn:Ex; [|apply nth_error_None in Ex; lia].
    destruct (IH vs (S k0) f H3 Hl) as [b [Eb Hb]].
    assert (Hrest : matches F f ks vs -> (x < s -> v0 = x) -> matches F f (k0 :: ks) (v0 :: vs)).
    { intros Hm Hx k v fk Fk Hg Hf HF Hlt. cbn [pf_get_go] in Hg. destruct (k0 =? k) eqn:E.
      - apply Nat.eqb_eq in E. subst k. inversion Hg; subst. rewrite Ex in Hf. rewrite Es in HF. inversion Hf; inversion HF; subst. auto.
      - eapply Hm; eauto. }
    assert (Htail : matches F f (k0 :: ks) (v0 :: vs) -> matches F f ks vs).
    { intros Hm k v fk Fk Hg. apply Hm. cbn [pf_get_go]. destruct (k0 =? k) eqn:E; auto.
      apply Nat.eqb_eq in E. subst k. rewrite (pf_get_go_none F ks vs (S k0) k0 H3) in Hg by lia. discriminate. }
    cbn [rc_match]. rewrite Ex, Es. destruct (x <? s) eqn:Elt.
    + apply Nat.ltb_lt in Elt. destruct (v0 =? x) eqn:Ev.
      * apply Nat.eqb_eq in Ev. exists b. split; auto. rewrite Hb. split; [intros Hm; apply Hrest; auto|apply Htail].
      * apply Nat.eqb_neq in Ev. exists false. split; auto. split; [discriminate|]. intros Hm. exfalso. apply Ev.
        apply (Hm k0 v0 x s); auto. cbn [pf_get_go]. rewrite Nat.eqb_refl. reflexivity.
    + apply Nat.ltb_ge in Elt. cbn [tl]. exists b. split; auto. rewrite Hb. split; [intros Hm; apply Hrest; auto; lia|apply Htail].
Qed.

Section RC.
Variables (F : list nat) (q : pfactors) (st : store).
Hypothesis Hq : pf_okb F q = true.
Hypothesis Hst : forall e, In e st -> pf_okb F (snd e) = true.

(* invariant of the run: f carries the query's values and those of the entries taken so far *)
Definition Jinv (f : list nat) (acc : list fentry) : Prop :=
  length f = length F /\
  (forall k v, pf_get q k = Some v -> nth_error f k = Some v) /\
  (forall e k v, In e acc -> pf_get (snd e) k = Some v -> nth_error f k = Some v) /\
  (forall e, In e acc -> In e st /\ compatible q (snd e)) /\
  (forall e1 e2, In e1 acc -> In e2 acc -> compatible (snd e1) (snd e2)) /\
  (forall k, pf_get q k = None -> (forall e, In e acc -> pf_get (snd e) k = None) -> nth_error f k = nth_error F k).

Lemma named_lt : forall pf k v, pf_okb F pf = true -> pf_get pf k = Some v -> exists s, nth_error F k = Some s /\ v < s.
Proof. intros pf k v H Hg. unfold pf_okb in H. unfold pf_get in Hg. eapply pf_get_range; eauto. Qed.

Lemma pairs_get : forall pf k v, pf_okb F pf = true -> In (k, v) (pairs pf) -> pf_get pf k = Some v.
Proof. intros pf k v H Hin. unfold pf_okb in H. unfold pairs in Hin. unfold pf_get. eapply pairs_pf_get; eauto. Qed.

Lemma entry_step : forall f acc e, Jinv f acc -> In e st ->
  exists b, rc_match F f (fst (snd e)) (snd (snd e)) = Ok b /\
    (b = true -> exists f', rc_assign f (fst (snd e)) (snd (snd e)) = Ok f' /\ Jinv f' (acc ++ [e])).
Proof.
  intros f acc e (Hl & Jq & Ja & Js & Jp & Ju) He. pose proof (Hst e He) as Hpf. unfold pf_okb in Hpf.
  destruct (rc_match_spec F _ _ 0 f Hpf Hl) as [b [Eb Hb]]. exists b. split; auto. intros ->.
  pose proof (proj1 Hb eq_refl) as Hm. clear Hb.
  destruct (rc_assign_spec F _ _ 0 f Hpf Hl) as [f' [Ef [Hl' Hn]]]. exists f'. split; auto.
  (* a factor named by e and already fixed in f has the same value *)
  assert (Hagree : forall k w v, pf_get (snd e) k = Some w -> nth_error f k = Some v ->
                                 (exists s, nth_error F k = Some s /\ v < s) -> w = v).
  { intros k w v Hw Hv [s [Hs Hlt]]. eapply Hm; eauto. }
  assert (Hkeep : forall k v, nth_error f k = Some v -> (exists s, nth_error F k = Some s /\ v < s) -> nth_error f' k = Some v).
  { intros k v Hv Hs. rewrite Hn. fold (pf_get (snd e) k). destruct (pf_get (snd e) k) as [w|] eqn:Ew; auto.
    f_equal. eapply Hagree; eauto. }
  split; auto. split; [|split; [|split; [|split]]].
  - intros k v Hg. apply Hkeep; [apply Jq; auto|]. apply (named_lt q k v Hq Hg).
  - intros e' k v He' Hg. apply in_app_or in He'. destruct He' as [He'|[<-|[]]].
    + apply Hkeep; [eapply Ja; eauto|]. apply (named_lt (snd e') k v); auto. apply Hst. apply Js. auto.
    + rewrite Hn. fold (pf_get (snd e) k). rewrite Hg. reflexivity.
  - intros e' He'. apply in_app_or in He'. destruct He' as [He'|[<-|[]]]; auto. split; auto.
    intros k v Hin w Hw. pose proof (pairs_get q k v Hq Hin) as Hgq.
    apply (Hagree k w v Hw (Jq k v Hgq)). apply (named_lt q k v Hq Hgq).
  - intros e1 e2 H1 H2 k v Hin w Hw.
    apply in_app_or in H1. apply in_app_or in H2.
    destruct H1 as [H1|[<-|[]]]; destruct H2 as [H2|[<-|[]]].
    + exact (Jp e1 e2 H1 H2 k v Hin w Hw).
    + pose proof (pairs_get (snd e1) k v (Hst _ (proj1 (Js _ H1))) Hin) as Hg1.
      apply (Hagree k w v Hw (Ja e1 k v H1 Hg1)). apply (named_lt (snd e1) k v); auto. apply Hst. apply Js. auto.
    + pose proof (pairs_get (snd e) k v (Hst _ He) Hin) as Hg.
      symmetry. apply (Hagree k v w Hg (Ja e2 k w H2 Hw)). apply (named_lt (snd e2) k w); auto. apply Hst. apply Js. auto.
    + pose proof (pairs_get (snd e) k v (Hst _ He) Hin) as Hg. congruence.
  - intros k Hqn Hall. rewrite Hn. fold (pf_get (snd e) k).
    assert (He1 : In e (acc ++ [e])) by (apply in_or_app; right; left; reflexivity).
    rewrite (Hall e He1). apply Ju; auto.
    intros e' He'. apply Hall. apply in_or_app; auto.
Qed.

Variable remove : bool.

Lemma rotate_perm : forall (rest : list fentry) e, Permutation (match rest with [] => [] | _ :: _ => last rest e :: removelast rest end) rest.
Proof.
  intros [|x t] e; auto. assert (Hne : x :: t <> []) by discriminate.
  rewrite (app_removelast_last e Hne) at 3. apply Permutation_cons_append.
Qed.

Lemma rc_bucket_spec : forall n todo kept f acc done, Jinv f acc -> (forall e, In e todo -> In e st) ->
  exists b' f' new done', rc_bucket n F remove todo kept f acc done = Ok (b', f', acc ++ new, done') /\
    Jinv f' (acc ++ new) /\ Permutation (b' ++ rm remove new) (kept ++ todo).
Proof.
  induction n as [|n IH]; intros todo kept f acc done HJ Hin.
  - destruct todo as [|e rest]; cbn [rc_bucket].
    + exists kept, f, [], done. rewrite !app_nil_r. destruct remove; cbn [rm]; rewrite ?app_nil_r; auto.
    + exists (kept ++ e :: rest), f, [], done. rewrite !app_nil_r. destruct remove; cbn [rm]; rewrite ?app_nil_r; auto.
  - destruct todo as [|e rest]; cbn [rc_bucket].
    + exists kept, f, [], done. rewrite !app_nil_r. destruct remove; cbn [rm]; rewrite ?app_nil_r; auto.
    + destruct (entry_step f acc e HJ (Hin e (or_introl eq_refl))) as [b [Eb Hb]]. rewrite Eb. cbn [bind].
      destruct b.
      * destruct (Hb eq_refl) as [f1 [Ef HJ1]]. rewrite Ef. cbn [bind]. destruct remove eqn:Er.
        -- destruct (IH (match rest with [] => [] | _ :: _ => last rest e :: removelast rest end) kept f1 (acc ++ [e]) true HJ1)
             as (b' & f' & new & done' & E & HJ' & Hp).
           { intros x Hx. apply Hin. right. eapply Permutation_in; [apply rotate_perm|exact Hx]. }
           exists b', f', (e :: new), done'. rewrite <- app_assoc in E, HJ'. cbn [app] in E, HJ'. split; auto. split; auto.
           cbn [rm] in *. eapply perm_trans; [apply Permutation_sym, Permutation_middle|].
           eapply perm_trans; [|apply Permutation_middle]. constructor.
           eapply perm_trans; [exact Hp|]. apply Permutation_app_head. apply rotate_perm.
        -- destruct (IH rest (kept ++ [e]) f1 (acc ++ [e]) true HJ1) as (b' & f' & new & done' & E & HJ' & Hp).
           { intros x Hx. apply Hin. right; auto. }
           exists b', f', (e :: new), done'. rewrite <- app_assoc in E, HJ'. cbn [app] in E, HJ'. split; auto. split; auto.
           cbn [rm] in *. rewrite <- app_assoc in Hp. exact Hp.
      * destruct (IH rest (kept ++ [e]) f acc done HJ) as (b' & f' & new & done' & E & HJ' & Hp).
        { intros x Hx. apply Hin. right; auto. }
        exists b', f', new, done'. split; auto. split; auto. rewrite <- app_assoc in Hp. exact Hp.
Qed.

Lemma upd_concat_perm : forall (row : list (list fentry)) v b b' row' extra,
  nth_error row v = Some b -> upd row v (fun _ => b') = Some row' -> Permutation (b' ++ extra) b ->
  Permutation (concat row' ++ extra) (concat row).
Proof.
  intros row v b b' row' extra Hn Hu Hp. destruct (upd_split _ _ _ _ _ Hu Hn) as [r1 [r2 [-> ->]]].
  rewrite !concat_app. cbn [concat]. rewrite <- !app_assoc. apply Permutation_app_head.
  eapply perm_trans; [|apply Permutation_app_tail; exact Hp]. rewrite <- !app_assoc. apply Permutation_app_head.
  apply Permutation_app_comm.
Qed.

Lemma rc_values_spec : forall vorder row f acc row' f' acc',
  rc_values vorder F remove row f acc = Ok (row', f', acc') -> Jinv f acc -> (forall e, In e (concat row) -> In e st) ->
  exists new, acc' = acc ++ new /\ Jinv f' acc' /\ Permutation (concat row' ++ rm remove new) (concat row).
Proof.
  induction vorder as [|v vs IH]; intros row f acc row' f' acc' H HJ Hin; cbn [rc_values] in H.
  - inversion H; subst. exists []. rewrite !app_nil_r. destruct remove; cbn [rm]; rewrite ?app_nil_r; auto.
  - destruct (nth_error row v) as [b|] eqn:Eb; [|discriminate].
    destruct (rc_bucket_spec (length b) b [] f acc false HJ) as (b1 & f1 & new1 & done1 & E & HJ1 & Hp1).
    { intros e He. apply Hin. apply in_concat. exists b. split; auto. eapply nth_error_In; eauto. }
    rewrite E in H. cbn [bind] in H. destruct (upd row v (fun _ => b1)) as [row1|] eqn:Eu; [|discriminate].
    cbn [app] in Hp1. pose proof (upd_concat_perm row v b b1 row1 (rm remove new1) Eb Eu Hp1) as Hrow.
    destruct done1.
    + inversion H; subst. exists new1. auto.
    + destruct (IH row1 f1 (acc ++ new1) row' f' acc' H HJ1) as [new2 [-> [HJ2 Hp2]]].
      { intros e He. apply Hin. eapply Permutation_in; [exact Hrow|]. apply in_or_app; auto. }
      exists (new1 ++ new2). rewrite app_assoc. split; auto. split; auto.
      rewrite rm_app. eapply perm_trans; [|exact Hrow].
      eapply perm_trans; [apply Permutation_app_head; apply Permutation_app_comm|].
      rewrite app_assoc. apply Permutation_app_tail. exact Hp2.
Qed.

Lemma rc_factor_spec : forall ordv keys o f acc keys' f' acc',
  rc_factor F remove ordv keys o f acc = Ok (keys', f', acc') -> Jinv f acc -> (forall e, In e (flat keys) -> In e st) ->
  exists new, acc' = acc ++ new /\ Jinv f' acc' /\ Permutation (flat keys' ++ rm remove new) (flat keys).
Proof.
  intros ordv keys o f acc keys' f' acc' H HJ Hin. unfold rc_factor in H.
  destruct (nth_error keys o) as [row|] eqn:Er; [|discriminate].
  destruct (nth_error f o) as [fo|]; [|discriminate]. destruct (nth_error F o) as [Fo|]; [|discriminate].
  match type of H with bind ?X _ = _ => destruct X as [[[row1 f1] acc1]| |] eqn:Ev end; cbn [bind] in H; try discriminate.
  destruct (upd keys o (fun _ => row1)) as [keys1|] eqn:Eu; [|discriminate]. inversion H; subst.
  assert (Hrow : forall e, In e (concat row) -> In e st).
  { intros e He. apply Hin. unfold flat. apply in_concat in He. destruct He as [b [Hb He]]. apply in_concat. exists b. split; auto.
    apply in_concat. exists row. split; auto. eapply nth_error_In; eauto. }
  assert (Hvals : exists vorder, rc_values vorder F remove row f acc = Ok (row1, f', acc')).
  { destruct (fo <? Fo); [eauto|]. destruct (nth_error ordv o) as [[|v0 vs]|]; try discriminate. eauto. }
  destruct Hvals as [vorder Hv]. destruct (rc_values_spec _ _ _ _ _ _ _ Hv HJ Hrow) as [new [-> [HJ' Hp]]].
  exists new. split; auto. split; auto.
  destruct (upd_split _ _ _ _ _ Eu Er) as [L1 [L2 [-> ->]]]. unfold flat. rewrite !concat_app. cbn [concat]. rewrite !concat_app.
  rewrite <- !app_assoc. apply Permutation_app_head.
  eapply perm_trans; [|apply Permutation_app_tail; exact Hp]. rewrite <- !app_assoc. apply Permutation_app_head.
  apply Permutation_app_comm.
Qed.

Lemma rc_factors_spec : forall ordv ord0 keys f acc keys' f' acc',
  rc_factors ord0 F remove ordv keys f acc = Ok (keys', f', acc') -> Jinv f acc -> (forall e, In e (flat keys) -> In e st) ->
  exists new, acc' = acc ++ new /\ Jinv f' acc' /\ Permutation (flat keys' ++ rm remove new) (flat keys).
Proof.
  intros ordv. induction ord0 as [|o os IH]; intros keys f acc keys' f' acc' H HJ Hin; cbn [rc_factors] in H.
  - inversion H; subst. exists []. rewrite !app_nil_r. destruct remove; cbn [rm]; rewrite ?app_nil_r; auto.
  - destruct (rc_factor F remove ordv keys o f acc) as [[[keys1 f1] acc1]| |] eqn:E1; cbn [bind] in H; try discriminate.
    destruct (rc_factor_spec _ _ _ _ _ _ _ _ E1 HJ Hin) as [new1 [-> [HJ1 Hp1]]].
    destruct (IH keys1 f1 (acc ++ new1) keys' f' acc' H HJ1) as [new2 [-> [HJ2 Hp2]]].
    { intros e He. apply Hin. eapply Permutation_in; [exact Hp1|]. apply in_or_app; auto. }
    exists (new1 ++ new2). rewrite app_assoc. split; auto. split; auto.
    rewrite rm_app. eapply perm_trans; [|exact Hp1].
    eapply perm_trans; [apply Permutation_app_head; apply Permutation_app_comm|].
    rewrite app_assoc. apply Permutation_app_tail. exact Hp2.
Qed.

End RC.

(* keysS is keys_ after the in-place shuffles: bucket by bucket a permutation *)
Definition shuffle_of (keys keysS : list (list (list fentry))) : Prop :=
  Forall2 (Forall2 (@Permutation fentry)) keys keysS.

Lemma shuffle_flat : forall keys keysS, shuffle_of keys keysS -> Permutation (flat keys) (flat keysS).
Proof.
  intros keys keysS H. unfold flat. induction H as [|row rowS keys keysS Hrow Hrest IH]; cbn [concat]; auto.
  rewrite !concat_app. apply Permutation_app; auto. clear - Hrow.
  induction Hrow; cbn [concat]; auto. apply Permutation_app; auto.
Qed.

Theorem reconstruct_compatible_lemma : forall t c st q remove ord0 ordv keysS t' entries f',
  FInv2 t (c, st) -> pf_okb (fF t) q = true -> shuffle_of (fkeys t) keysS ->
  ft_reconstruct t q remove ord0 ordv keysS = Ok (t', entries, f') ->
  (forall e, In e entries -> In e st /\ compatible q (snd e)) /\
  (forall e1 e2, In e1 entries -> In e2 entries -> compatible (snd e1) (snd e2)) /\
  length f' = length (fF t) /\
  (forall k v, pf_get q k = Some v -> nth_error f' k = Some v) /\
  (forall e k v, In e entries -> pf_get (snd e) k = Some v -> nth_error f' k = Some v) /\
  fF t' = fF t /\
  Permutation (flat (fkeys t') ++ (if remove then entries else [])) st.
Proof.
  intros t c st q remove ord0 ordv keysS t' entries f' [HInv Hperm] Hq Hsh H. cbn [snd] in Hperm.
  destruct HInv as (_ & _ & _ & Hok & _). cbn [fst snd] in Hok.
  assert (Hst : forall e, In e st -> pf_okb (fF t) (snd e) = true).
  { intros e He. destruct Hok as [_ Hf]. rewrite Forall_forall in Hf. apply Hf; auto. }
  unfold ft_reconstruct in H.
  pose proof Hq as Hq'. unfold pf_okb in Hq'.
  destruct (rc_assign_spec (fF t) _ _ 0 (fF t) Hq' eq_refl) as [f0 [E0 [Hl0 Hn0]]]. rewrite E0 in H. cbn [bind] in H.
  destruct (rc_factors ord0 (fF t) remove ordv keysS f0 []) as [[[keys1 f1] acc1]| |] eqn:E1; cbn [bind] in H; try discriminate.
  inversion H; subst t' entries f'. cbn [fkeys fF].
  assert (HJ0 : Jinv (fF t) q st f0 []).
  { split; auto. split; [|split; [|split; [|split]]].
    - intros k v Hg. rewrite Hn0. unfold pf_get in Hg. rewrite Hg. reflexivity.
    - intros e k v [].
    - intros e [].
    - intros e1 e2 [].
    - intros k Hk _. rewrite Hn0. unfold pf_get in Hk. rewrite Hk. reflexivity. }
  pose proof (shuffle_flat _ _ Hsh) as Hfl.
  assert (Hin : forall e, In e (flat keysS) -> In e st).
  { intros e He. eapply Permutation_in; [exact Hperm|]. eapply Permutation_in; [apply Permutation_sym; exact Hfl|exact He]. }
  destruct (rc_factors_spec (fF t) q st Hq Hst remove ordv ord0 keysS f0 [] keys1 f1 acc1 E1 HJ0 Hin) as [new [-> [HJ Hp]]].
  cbn [app] in *. destruct HJ as (Hl & Jq & Ja & Js & Jp & Ju).
  split; auto. split; auto. split; auto. split; auto. split; auto. split; auto.
  eapply perm_trans; [exact Hp|]. eapply perm_trans; [apply Permutation_sym; exact Hfl|exact Hperm].
Qed.

(* the whole invariant at the end of the call (used for the exact value of the returned factors) *)
Lemma reconstruct_J : forall t c st q remove ord0 ordv keysS t' entries f',
  FInv2 t (c, st) -> pf_okb (fF t) q = true -> shuffle_of (fkeys t) keysS ->
  ft_reconstruct t q remove ord0 ordv keysS = Ok (t', entries, f') -> Jinv (fF t) q st f' entries.
Proof.
  intros t c st q remove ord0 ordv keysS t' entries f' [HInv Hperm] Hq Hsh H. cbn [snd] in Hperm.
  destruct HInv as (_ & _ & _ & Hok & _). cbn [fst snd] in Hok.
  assert (Hst : forall e, In e st -> pf_okb (fF t) (snd e) = true).
  { intros e He. destruct Hok as [_ Hf]. rewrite Forall_forall in Hf. apply Hf; auto. }
  unfold ft_reconstruct in H. pose proof Hq as Hq'. unfold pf_okb in Hq'.
  destruct (rc_assign_spec (fF t) _ _ 0 (fF t) Hq' eq_refl) as [f0 [E0 [Hl0 Hn0]]]. rewrite E0 in H. cbn [bind] in H.
  destruct (rc_factors ord0 (fF t) remove ordv keysS f0 []) as [[[keys1 f1] acc1]| |] eqn:E1; cbn [bind] in H; try discriminate.
  inversion H; subst t' entries f'.
  assert (HJ0 : Jinv (fF t) q st f0 []).
  { split; auto. split; [|split; [|split; [|split]]].
    - intros k v Hg. rewrite Hn0. unfold pf_get in Hg. rewrite Hg. reflexivity.
    - intros e k v [].
    - intros e [].
    - intros e1 e2 [].
    - intros k Hk _. rewrite Hn0. unfold pf_get in Hk. rewrite Hk. reflexivity. }
  pose proof (shuffle_flat _ _ Hsh) as Hfl.
  assert (Hin : forall e, In e (flat keysS) -> In e st).
  { intros e He. eapply Permutation_in; [exact Hperm|]. eapply Permutation_in; [apply Permutation_sym; exact Hfl|exact He]. }
  destruct (rc_factors_spec (fF t) q st Hq Hst remove ordv ord0 keysS f0 [] keys1 f1 acc1 E1 HJ0 Hin) as [new [-> [HJ _]]].
  exact HJ.
Qed.

(* with remove = true the returned entries are gone from the buckets and no id is returned twice *)
Corollary reconstruct_removed_lemma : forall t c st q ord0 ordv keysS t' entries f',
  FInv2 t (c, st) -> pf_okb (fF t) q = true -> shuffle_of (fkeys t) keysS ->
  ft_reconstruct t q true ord0 ordv keysS = Ok (t', entries, f') ->
  NoDup (map fst entries) /\
  (forall e, In e entries -> ~ In (fst e) (map fst (flat (fkeys t')))) /\
  ft_size t' + length entries = length st.
Proof.
  intros t c st q ord0 ordv keysS t' entries f' HInv Hq Hsh H.
  destruct (reconstruct_compatible_lemma _ _ _ _ _ _ _ _ _ _ _ HInv Hq Hsh H) as (_ & _ & _ & _ & _ & _ & Hp).
  destruct HInv as [(_ & _ & _ & Hok & _) _]. cbn [fst snd] in Hok. destruct (store_nodup _ _ _ Hok) as [_ Hnd].
  assert (Hnd' : NoDup (map fst (flat (fkeys t')) ++ map fst entries)).
  { rewrite <- map_app. eapply Permutation_NoDup; [apply Permutation_map; apply Permutation_sym; exact Hp|exact Hnd]. }
  split; [eapply NoDup_app_r; eauto|]. split.
  - intros e He Hin. eapply NoDup_app_disj; eauto. apply in_map. auto.
  - unfold ft_size. fold (flat (fkeys t')). rewrite <- app_length. apply Permutation_length. exact Hp.
Qed.

(* the iteration bound of rc_bucket is irrelevant once it covers the bucket *)
Lemma rot_length : forall (rest : list fentry) e,
  length (match rest with [] => [] | _ :: _ => last rest e :: removelast rest end) = length rest.
Proof. intros rest e. apply Permutation_length. apply rotate_perm. Qed.

Lemma rc_bucket_bound_irrelevant : forall F remove n m todo kept f acc done,
  length todo <= n -> length todo <= m ->
  rc_bucket n F remove todo kept f acc done = rc_bucket m F remove todo kept f acc done.
Proof.
  intros F remove. induction n as [|n IH]; intros m todo kept f acc done Hn Hm.
  - destruct todo; [|cbn in Hn; lia]. destruct m; reflexivity.
  - destruct todo as [|e rest]; [destruct m; reflexivity|]. destruct m as [|m]; [cbn in Hm; lia|].
    cbn [length] in Hn, Hm. cbn [rc_bucket].
    destruct (rc_match F f (fst (snd e)) (snd (snd e))) as [[|]| |]; cbn [bind]; auto.
    + destruct (rc_assign f (fst (snd e)) (snd (snd e))) as [f1| |]; cbn [bind]; auto.
      destruct remove; apply IH; rewrite ?rot_length; lia.
    + apply IH; lia.
Qed.
