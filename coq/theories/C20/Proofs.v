(* C20/Proofs.v — the lemmas exported to Properties_C20.v. *)
From Coq Require Import List Arith Bool Sorted Lia.
From AIT Require Import C20.Model C20.Spec C20.ProofsLists C20.ProofsApply C20.ProofsTrie C20.ProofsQuery.
Import ListNotations.

(* ---------- spec side: the boolean checker is the Prop ---------- *)

Lemma compatibleb_iff : forall q e, compatibleb q e = true <-> compatible q e.
Proof.
  intros q e. unfold compatibleb, compatible. rewrite forallb_forall. split.
  - intros H k v Hin w Hw. specialize (H (k, v) Hin). unfold agrees in H. cbn [fst snd] in H. rewrite Hw in H.
    apply Nat.eqb_eq in H. auto.
  - intros H [k v] Hin. unfold agrees. cbn [fst snd]. destruct (pf_get e k) as [w|] eqn:E; auto.
    apply Nat.eqb_eq. eapply H; eauto.
Qed.

Lemma filter_spec_char : forall st q id,
  In id (filter_spec st q) <-> exists pf, In (id, pf) st /\ compatible q pf.
Proof.
  intros st q id. unfold filter_spec. rewrite in_map_iff. split.
  - intros [[i pf] [E H]]. cbn in E. subst i. apply filter_In in H. destruct H as [H1 H2]. cbn [snd] in H2.
    exists pf. split; auto. apply compatibleb_iff. auto.
  - intros [pf [H1 H2]]. exists (id, pf). split; auto. apply filter_In. split; auto. cbn [snd]. apply compatibleb_iff. auto.
Qed.

Lemma erased_not_stored : forall ops id, ~ In id (map fst (spec_store (ops ++ [OErase id]))).
Proof.
  intros ops id. unfold spec_store, spec_state.
  assert (H : forall s, snd (fst (spec_run s (ops ++ [OErase id]))) = remove_id id (snd (fst (spec_run s ops)))).
  { induction ops as [|o ops IH]; intros [c st].
    - reflexivity.
    - cbn [app spec_run]. destruct (spec_step (c, st) o) as [s1 r1]. specialize (IH s1).
      destruct (spec_run s1 (ops ++ [OErase id])) as [s2 rs2]. destruct (spec_run s1 ops) as [s3 rs3]. exact IH. }
  rewrite H. intros Hin. apply in_map_iff in Hin. destruct Hin as [e [E He]]. unfold remove_id in He.
  apply filter_In in He. destruct He as [_ He]. rewrite E, Nat.eqb_refl in He. discriminate.
Qed.

(* ---------- applyFilters ---------- *)

Lemma applyFilters_is_intersection_lemma : forall fs : list (list nat * list nat),
  fs <> [] ->
  (forall f, In f fs ->
     StronglySorted lt (fst f) /\ StronglySorted lt (snd f) /\ (forall x, In x (fst f) -> In x (snd f) -> False) /\
     (fst f <> [] \/ snd f <> [])) ->
  exists m, applyFilters fs = ADone m /\ StronglySorted lt m /\
            forall x, In x m <-> (forall f, In f fs -> In x (fst f) \/ In x (snd f)).
Proof.
  intros fs Hne H.
  destruct (applyFilters_spec fs Hne) as [m [E [Hs Hm]]].
  - apply Forall_forall. intros f Hf. destruct (H f Hf) as (A & B & C & _). unfold fwf. auto.
  - apply Forall_forall. intros f Hf. destruct (H f Hf) as (_ & _ & _ & D). destruct f as [[|a n] [|b u]]; cbn in *; auto.
    destruct D; congruence.
  - exists m. split; auto. split; auto. intros x. rewrite Hm. unfold inall, content. split.
    + intros Hx f Hf. apply in_app_or. auto.
    + intros Hx f Hf. apply in_or_app. auto.
Qed.

(* ---------- histories ---------- *)

Lemma outputs_exact_lemma : forall F ops, history_ok F ops ->
  exists t, trie_history true F ops = Ok (t, spec_outs ops).
Proof. intros F ops H. destruct (history_sim F ops H) as [t [E _]]. eauto. Qed.

Lemma filter_exact_lemma : forall F ops, history_ok F ops ->
  exists t, trie_history true F ops = Ok (t, spec_outs ops) /\
    (forall q, pf_okb F q = true -> trie_filterPf true t q = Ok (filter_spec (spec_store ops) q)) /\
    (forall f off, pf_okb F (query_of_factors f off) = true ->
       trie_filterF true t f off = Ok (filter_spec (spec_store ops) (query_of_factors f off))).
Proof.
  intros F ops H. destruct (history_sim F ops H) as [t [E [HF HI]]]. destruct H as [Hlen _].
  exists t. split; auto. unfold spec_store. destruct (spec_state ops) as [c st]. cbn [snd]. subst F. split.
  - intros q Hq. eapply trie_filterPf_sim; eauto.
  - intros f off Hq. eapply trie_filterF_sim; eauto.
Qed.

Lemma refine_exact_lemma : forall F ops ids q, history_ok F ops -> pf_okb F q = true -> sortedb ids = true ->
  exists t, trie_history true F ops = Ok (t, spec_outs ops) /\
    trie_refine t ids q = Ok (match fst q with
                              | [] => ids
                              | _ => List.filter (fun id => memb id (filter_spec (spec_store ops) q)) ids
                              end).
Proof.
  intros F ops ids q H Hq Hs. destruct (history_sim F ops H) as [t [E [HF HI]]]. destruct H as [Hlen _].
  exists t. split; auto. unfold spec_store. destruct (spec_state ops) as [c st]. cbn [snd]. subst F.
  eapply trie_refine_sim; eauto.
Qed.

Lemma size_eq_card_lemma : forall F ops, history_ok F ops ->
  exists t, trie_history true F ops = Ok (t, spec_outs ops) /\ trie_size true t = Ok (length (spec_store ops)).
Proof.
  intros F ops H. destruct (history_sim F ops H) as [t [E [HF HI]]]. destruct H as [Hlen _].
  exists t. split; auto. unfold spec_store. destruct (spec_state ops) as [c st]. cbn [snd]. subst F.
  eapply trie_size_sim; eauto.
Qed.

Lemma getAllIds_eq_dom_lemma : forall F ops, history_ok F ops ->
  exists t, trie_history true F ops = Ok (t, spec_outs ops) /\ trie_getAllIds true t = Ok (map fst (spec_store ops)).
Proof.
  intros F ops H. destruct (history_sim F ops H) as [t [E [HF HI]]]. destruct H as [Hlen _].
  exists t. split; auto. unfold spec_store. destruct (spec_state ops) as [c st]. cbn [snd]. subst F.
  eapply trie_getAllIds_sim; eauto.
Qed.

(* ---------- the code as it stands in /repo (fixed = false) ---------- *)

Lemma size_orig_refuted_lemma : exists F t, trie_new F = Ok t /\ trie_size false t = UB.
Proof. exists [3;2]. eexists. split; [reflexivity| vm_compute; reflexivity]. Qed.

Lemma getAllIds_orig_refuted_lemma : exists F t, trie_new F = Ok t /\ trie_getAllIds false t = UB.
Proof. exists [3;2]. eexists. split; [reflexivity| vm_compute; reflexivity]. Qed.

Definition double_erase : list op :=
  [OInsert ([0], [1]); OErasePf 0 ([0], [1]); OErasePf 0 ([0], [1])].

Lemma erasePf_orig_refuted_lemma :
  history_ok [2;2] double_erase /\ trie_history false [2;2] double_erase = UB.
Proof. split; [split; [cbn; lia|vm_compute; reflexivity]|vm_compute; reflexivity]. Qed.
