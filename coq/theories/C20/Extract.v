From Coq Require Extraction.
From Coq Require Import ExtrOcamlBasic.
From AIT Require Import Base.Vio C20.Model C20.Spec.
Extraction "model.ml" vio_kit trie_history spec_outs spec_store hist_okb out_eqb filter_spec compatibleb
  spec_step op_okb ft_new ft_step ft_op_okb reconstruct_okb
  ft_reconstruct fkeys pf_eqb fm_new fm_emplace fm_filterF fm_filterF_const fm_filterFO fm_filterFO_const
  fm_filterPf fm_filterPf_const fm_size fm_spec pf_okb
  trie_new trie_step trie_copy ft_copy fm_copy fm_of_trie fm_ids fm_items.
