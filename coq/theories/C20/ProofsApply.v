(* C20/ProofsApply.v — the Filter cursor pair and applyFilters: the result is exactly the sorted
   intersection of the filters' contents, the loop never reaches UB and never runs out of fuel. *)
From Coq Require Import List Arith Bool Sorted Lia.
From AIT Require Import C20.Model C20.ProofsLists.
Import ListNotations.

Definition content (f : filter) : list nat := fst f ++ snd f.

(* well-formed filter: both ranges strictly increasing and disjoint *)
Definition fwf (f : filter) : Prop :=
  ssorted (fst f) /\ ssorted (snd f) /\ (forall x, In x (fst f) -> In x (snd f) -> False).

Definition is_min (f : filter) (m : nat) : Prop :=
  In m (content f) /\ forall x, In x (content f) -> m <= x.

Definition inall (fs : list filter) (x : nat) : Prop := forall f, In f fs -> In x (content f).

Lemma f_valid_false : forall f, f_valid f = false -> content f = [].
Proof. intros [[|a n] [|b u]]; cbn; intros H; try discriminate; reflexivity. Qed.

Lemma f_valid_min : forall f, f_valid f = true -> exists m, f_min f = Some m.
Proof. intros [[|a n] [|b u]]; cbn; intros H; try discriminate; eexists; reflexivity. Qed.

Lemma f_min_valid : forall f m, f_min f = Some m -> f_valid f = true.
Proof. intros [[|a n] [|b u]] m; cbn; intros H; try discriminate; reflexivity. Qed.

Lemma f_min_spec : forall f m, fwf f -> f_min f = Some m -> is_min f m.
Proof.
  intros [n u] m [Hn [Hu _]] H. unfold is_min, content. cbn [fst snd] in *.
  destruct n as [|a n]; destruct u as [|b u]; cbn in H; try discriminate; inversion H; subst; clear H.
  - apply ssorted_cons_inv in Hu. destruct Hu as [_ Hu]. cbn [app]. split; [left; auto|].
    intros x [Hx|Hx]; [lia|]. specialize (Hu _ Hx). lia.
  - apply ssorted_cons_inv in Hn. destruct Hn as [_ Hn]. rewrite app_nil_r. split; [left; auto|].
    intros x [Hx|Hx]; [lia|]. specialize (Hn _ Hx). lia.
  - apply ssorted_cons_inv in Hn. destruct Hn as [_ Hn]. apply ssorted_cons_inv in Hu. destruct Hu as [_ Hu].
    split.
    + destruct (Nat.min_spec a b) as [[_ E]|[_ E]]; rewrite E; [left; auto|]. apply in_or_app. right. left; auto.
    + intros x Hx. apply in_app_or in Hx. destruct Hx as [[Hx|Hx]|[Hx|Hx]]; subst;
        try specialize (Hn _ Hx); try specialize (Hu _ Hx); lia.
Qed.

Lemma is_min_unique : forall f m m', is_min f m -> is_min f m' -> m = m'.
Proof. intros f m m' [H1 H2] [H3 H4]. specialize (H2 _ H3). specialize (H4 _ H1). lia. Qed.

Ltac inlist := repeat match goal with
  | H : In _ (_ ++ _) |- _ => apply in_app_or in H
  | H : In _ (_ :: _) |- _ => destruct H as [H|H]
  | H : In _ [] |- _ => destruct H
  | H : _ \/ _ |- _ => destruct H
  | H : _ /\ _ |- _ => destruct H
  end.
Ltac bounds := repeat match goal with
  | Hb : (forall x, In x ?l -> _), Hx : In ?y ?l |- _ => pose proof (Hb y Hx); clear Hx
  end; subst; try lia; try congruence.
Ltac memb := subst; rewrite ?in_app_iff; cbn [In]; try tauto; try congruence.
Ltac disj := subst; match goal with
  | Hd : (forall x, In x ?l1 -> In x ?l2 -> False) |- False => solve [eapply Hd; cbn [In]; eauto]
  end.
Ltac lsolve := intros; inlist; first [solve [memb] | solve [disj] | solve [bounds] | idtac].

Lemma f_step_spec : forall f m, fwf f -> f_min f = Some m ->
  exists f', f_step f = Some f' /\ fwf f' /\
             (forall x, In x (content f') <-> In x (content f) /\ x <> m) /\
             (forall x, In x (content f') -> m < x) /\
             S (f_size f') = f_size f.
Proof.
  intros [n u] m [Hn [Hu Hd]] H. unfold content, fwf, f_size. cbn [fst snd] in *.
  destruct n as [|a n]; destruct u as [|b u]; cbn in H; try discriminate; inversion H; subst; clear H.
  - pose proof (ssorted_cons_inv _ _ Hu) as [Hu' Hb].
    exists ([], u). cbn [f_step fst snd app length]. repeat split; auto; lsolve.
  - pose proof (ssorted_cons_inv _ _ Hn) as [Hn' Ha].
    exists (n, []). cbn [f_step fst snd app length]. rewrite !app_nil_r. repeat split; auto; lsolve.
  - pose proof (ssorted_cons_inv _ _ Hn) as [Hn' Ha].
    pose proof (ssorted_cons_inv _ _ Hu) as [Hu' Hb].
    assert (a <> b) by (intros ->; apply (Hd b); left; auto).
    cbn [f_step fst snd]. destruct (a <? b) eqn:E.
    + apply Nat.ltb_lt in E. rewrite Nat.min_l by lia.
      exists (n, b :: u). cbn [fst snd length]. repeat split; auto; lsolve.
    + apply Nat.ltb_ge in E. rewrite Nat.min_r by lia.
      exists (a :: n, u). cbn [fst snd length]. repeat split; auto; lsolve.
Qed.

Lemma f_advance_spec : forall f v, fwf f ->
  fwf (f_advance f v) /\
  (forall x, In x (content (f_advance f v)) <-> In x (content f) /\ v <= x) /\
  f_size (f_advance f v) <= f_size f /\
  (f_size (f_advance f v) = f_size f -> f_advance f v = f).
Proof.
  intros [n u] v [Hn [Hu Hd]]. unfold f_advance, content, fwf, f_size. cbn [fst snd] in *.
  repeat split.
  - apply drop_lt_sorted; auto.
  - apply drop_lt_sorted; auto.
  - intros x Hx Hx'. apply drop_lt_in in Hx; auto. apply drop_lt_in in Hx'; auto. apply (Hd x); tauto.
  - apply in_app_or in H. apply in_or_app. destruct H as [H|H]; apply drop_lt_in in H; tauto.
  - apply in_app_or in H. destruct H as [H|H]; apply drop_lt_in in H; tauto.
  - intros [Hx Hv]. apply in_app_or in Hx. apply in_or_app. destruct Hx as [Hx|Hx]; [left|right]; apply drop_lt_in; auto.
  - pose proof (drop_lt_length v n). pose proof (drop_lt_length v u). lia.
  - intros E. pose proof (drop_lt_length v n). pose proof (drop_lt_length v u).
    rewrite (drop_lt_same_length v n) by lia. rewrite (drop_lt_same_length v u) by lia. reflexivity.
Qed.

(* ---------- single filter: drain = sorted merge of the two ranges ---------- *)

Lemma drain_spec : forall fuel f, fwf f -> f_size f < fuel ->
  exists m, drain fuel f = ADone m /\ ssorted m /\ (forall x, In x m <-> In x (content f)).
Proof.
  induction fuel as [|k IH]; intros f Hw Hf; [lia|].
  cbn [drain]. destruct (f_valid f) eqn:Ev.
  - destruct (f_valid_min _ Ev) as [m0 Em]. rewrite Em.
    destruct (f_step_spec _ _ Hw Em) as [f' [Es [Hw' [Hc [Hgt Hsz]]]]]. rewrite Es.
    destruct (IH f' Hw') as [m [Ed [Hs Hm]]]; [lia|]. rewrite Ed. cbn [acons].
    exists (m0 :: m). split; auto. split.
    + apply ssorted_cons; auto. intros x Hx. apply Hgt. apply Hm; auto.
    + intros x. cbn [In]. rewrite Hm, Hc. destruct (f_min_spec _ _ Hw Em) as [Hin _].
      destruct (Nat.eq_dec m0 x); [subst; tauto|]. split; [intros [?|?]; [congruence|tauto]|]. intros; right; split; auto.
  - exists []. split; auto. split; [constructor|]. rewrite (f_valid_false _ Ev). tauto.
Qed.

(* ---------- the while(true) loop ---------- *)

Definition pinned (fs : list filter) (c L M : nat) : Prop :=
  forall j f, nth_error fs j = Some f -> (j < c \/ j = L) -> is_min f M.

(* invariant at the top of the loop *)
Definition ainv (st : astate) : Prop :=
  let '(fs, c, L, M) := st in
  2 <= length fs /\ c <= length fs /\ L < length fs /\ Forall fwf fs /\ pinned fs c L M.

(* invariant before the second half of the body *)
Definition ainv2 (st : astate) : Prop :=
  let '(fs, c, L, M) := st in
  2 <= length fs /\ c < length fs /\ L < length fs /\ Forall fwf fs /\ pinned fs c L M.

Definition st_fs (st : astate) : list filter := let '(fs, _, _, _) := st in fs.
Definition st_max (st : astate) : nat := let '(_, _, _, M) := st in M.
Definition st_counter (st : astate) : nat := let '(_, c, _, _) := st in c.

Lemma inall_upd : forall fs c fc fc' fs', nth_error fs c = Some fc -> upd fs c (fun _ => fc') = Some fs' ->
  forall x, inall fs' x <-> (In x (content fc') /\ forall j f, j <> c -> nth_error fs j = Some f -> In x (content f)).
Proof.
  intros fs c fc fc' fs' Hn Hu x. pose proof (upd_nth _ _ _ _ Hu) as Hnth. unfold inall. split.
  - intros H. split.
    + apply H. apply (nth_error_In fs' c). rewrite Hnth, Nat.eqb_refl, Hn. reflexivity.
    + intros j f Hj Hf. apply H. apply (nth_error_In fs' j). rewrite Hnth. apply Nat.eqb_neq in Hj. rewrite Hj. auto.
  - intros [H1 H2] f Hf. apply In_nth_error in Hf. destruct Hf as [j Hj]. rewrite Hnth in Hj.
    destruct (j =? c) eqn:E.
    + rewrite Hn in Hj. cbn in Hj. inversion Hj; subst; auto.
    + apply Nat.eqb_neq in E. eapply H2; eauto.
Qed.

Lemma inall_nth : forall fs x, inall fs x <-> forall j f, nth_error fs j = Some f -> In x (content f).
Proof.
  intros. unfold inall. split.
  - intros H j f Hj. apply H. eapply nth_error_In; eauto.
  - intros H f Hf. apply In_nth_error in Hf. destruct Hf as [j Hj]. eauto.
Qed.

Lemma Forall_upd : forall {A} (P : A -> Prop) l n g l', Forall P l -> upd l n g = Some l' ->
  (forall x, nth_error l n = Some x -> P (g x)) -> Forall P l'.
Proof.
  intros A P l n g l' Hf Hu Hg. apply Forall_forall. intros y Hy. apply In_nth_error in Hy. destruct Hy as [j Hj].
  rewrite (upd_nth _ _ _ _ Hu) in Hj. rewrite Forall_forall in Hf. destruct (j =? n).
  - destruct (nth_error l n) eqn:E; cbn in Hj; inversion Hj; subst. auto.
  - apply Hf. eapply nth_error_In; eauto.
Qed.

Lemma ainv_intro : forall fs c L M, 2 <= length fs -> c <= length fs -> L < length fs -> Forall fwf fs ->
  pinned fs c L M -> ainv (fs, c, L, M).
Proof. intros. cbn [ainv]. auto. Qed.

Lemma ainv2_intro : forall fs c L M, 2 <= length fs -> c < length fs -> L < length fs -> Forall fwf fs ->
  pinned fs c L M -> ainv2 (fs, c, L, M).
Proof. intros. cbn [ainv2]. auto. Qed.

Lemma pinned_one : forall f0 rest m, is_min f0 m -> pinned (f0 :: rest) 1 0 m.
Proof. intros f0 rest m H j f Hj Hor. assert (j = 0) by lia. subst j. cbn in Hj. inversion Hj; subst; auto. Qed.

(* what one pass through the second half does *)
Lemma body_advance_spec : forall fs c L M e, ainv2 (fs, c, L, M) ->
  match body_advance (fs, c, L, M) e with
  | BodyUB => False
  | Break e' => e' = e /\ forall x, ~ inall fs x
  | Continue st' e' =>
    e' = e /\ ainv st' /\ M <= st_max st' /\ length (st_fs st') = length fs /\
    (forall x, inall (st_fs st') x <-> inall fs x) /\
    total_size (st_fs st') <= total_size fs
  end.
Proof.
  intros fs c L M e (Hlen & Hc & HL & Hwf & Hpin).
  cbn [body_advance].
  destruct (nth_error fs c) as [fc|] eqn:Efc; [|apply nth_error_None in Efc; lia].
  assert (Hwfc : fwf fc) by (rewrite Forall_forall in Hwf; apply Hwf; eapply nth_error_In; eauto).
  destruct (f_advance_spec fc M Hwfc) as (Hwf' & Hcont & Hsz & _).
  destruct (upd_some fs c (fun _ => f_advance fc M) _ Efc) as [fs' Eu]. rewrite Eu.
  pose proof (upd_length _ _ _ _ Eu) as Hlen'.
  pose proof (upd_nth _ _ _ _ Eu) as Hnth.
  (* every element of the intersection is >= M, because some filter is pinned at M *)
  assert (HgeM : forall x, inall fs x -> M <= x).
  { intros x Hx. destruct (nth_error fs L) as [fL|] eqn:EL; [|apply nth_error_None in EL; lia].
    destruct (Hpin L fL EL (or_intror eq_refl)) as [_ Hmin]. apply Hmin. apply Hx. eapply nth_error_In; eauto. }
  assert (Hsame : forall x, inall fs' x <-> inall fs x).
  { intros x. rewrite (inall_upd _ _ _ _ _ Efc Eu). rewrite Hcont. split.
    - intros [[H1 _] H2]. apply inall_nth. intros j f Hj. destruct (Nat.eq_dec j c); [subst; congruence|eauto].
    - intros H. pose proof (HgeM _ H). rewrite inall_nth in H. repeat split; eauto. }
  destruct (f_valid (f_advance fc M)) eqn:Ev; cbn [negb].
  2:{ split; auto. intros x Hx. apply Hsame in Hx. rewrite (inall_upd _ _ _ _ _ Efc Eu) in Hx.
      rewrite (f_valid_false _ Ev) in Hx. destruct Hx as [[] _]. }
  destruct (f_valid_min _ Ev) as [id Eid]. rewrite Eid.
  pose proof (f_min_spec _ _ Hwf' Eid) as Hmin.
  assert (Hwfs' : Forall fwf fs') by (eapply Forall_upd; eauto).
  assert (Hts : total_size fs' <= total_size fs).
  { clear - Eu Efc Hsz. revert c fs' Eu Efc. induction fs as [|g t IH]; intros c fs' Eu Efc; destruct c; cbn in Efc; try discriminate.
    - inversion Efc; subst. cbn [upd] in Eu. inversion Eu; subst. cbn [total_size fold_right]. lia.
    - cbn [upd] in Eu. destruct (upd t c _) eqn:E; inversion Eu; subst. cbn [total_size fold_right].
      specialize (IH _ _ E Efc). unfold total_size in IH. lia. }
  assert (HidM : M <= id). { destruct Hmin as [Hin _]. apply Hcont in Hin. tauto. }
  destruct (M <? id) eqn:Elt.
  - (* this filter raises the max *)
    assert (Hp : pinned fs' 0 c id).
    { intros j f Hj [Hlt|Heq]; [lia|]. subst j. rewrite Hnth, Nat.eqb_refl, Efc in Hj. cbn in Hj. inversion Hj; subst. auto. }
    split; auto. cbn [st_max st_fs].
    split; [apply ainv_intro; auto; lia|]. split; [lia|]. split; [auto|]. split; auto.
  - apply Nat.ltb_ge in Elt. assert (id = M) by lia. subst id.
    assert (Hpin' : forall j f, nth_error fs' j = Some f -> (j < S c \/ j = L) -> is_min f M).
    { intros j f Hj Hor. rewrite Hnth in Hj. destruct (j =? c) eqn:E.
      - rewrite Efc in Hj. cbn in Hj. inversion Hj; subst; auto.
      - apply Nat.eqb_neq in E. apply (Hpin j f Hj). lia. }
    assert (Hp : pinned fs' (if S c =? L then S (S c) else S c) L M).
    { destruct (S c =? L) eqn:EL; [apply Nat.eqb_eq in EL|]; intros j f Hj Hor; apply (Hpin' j f Hj); lia. }
    assert (Hc2 : (if S c =? L then S (S c) else S c) <= length fs).
    { destruct (S c =? L) eqn:EL; [apply Nat.eqb_eq in EL|]; lia. }
    split; auto. cbn [st_max st_fs].
    split; [apply ainv_intro; auto; lia|]. split; [lia|]. split; [auto|]. split; auto.
Qed.

Lemma body_spec : forall st, ainv st ->
  let fs := st_fs st in let M := st_max st in
  match body st with
  | BodyUB => False
  | Break None => forall x, ~ inall fs x
  | Break (Some v) => v = M /\ forall x, inall fs x <-> x = M
  | Continue st' e =>
    ainv st' /\ M <= st_max st' /\ length (st_fs st') = length fs /\
    match e with
    | None => (forall x, inall (st_fs st') x <-> inall fs x) /\ total_size (st_fs st') <= total_size fs
    | Some v => v = M /\ M < st_max st' /\ inall fs M /\
                (forall x, inall (st_fs st') x <-> inall fs x /\ x <> M) /\
                total_size (st_fs st') < total_size fs
    end
  end.
Proof.
  intros [[[fs c] L] M] Hinv. cbn [st_fs st_max]. pose proof Hinv as (Hlen & Hc & HL & Hwf & Hpin).
  cbn [body]. destruct (c =? length fs) eqn:Ec.
  - apply Nat.eqb_eq in Ec. subst c.
    destruct fs as [|f0 rest]; [cbn in Hlen; lia|].
    assert (Hall : inall (f0 :: rest) M).
    { apply inall_nth. intros j f Hj. assert (j < length (f0 :: rest)) by (apply nth_error_Some; congruence).
      destruct (Hpin j f Hj) as [Hin _]; auto. }
    assert (Hmin0 : is_min f0 M) by (apply (Hpin 0 f0 eq_refl); cbn [length]; lia).
    assert (Hwf0 : fwf f0) by (inversion Hwf; auto).
    assert (Hwfr : Forall fwf rest) by (inversion Hwf; auto).
    destruct (f_valid f0) eqn:Ev0.
    2:{ destruct Hmin0 as [Hin _]. rewrite (f_valid_false _ Ev0) in Hin. destruct Hin. }
    destruct (f_valid_min _ Ev0) as [m0 Em0].
    assert (m0 = M) by (eapply is_min_unique; eauto using f_min_spec). subst m0.
    destruct (f_step_spec _ _ Hwf0 Em0) as [f0' [Es [Hwf0' [Hc0 [Hgt Hsz]]]]]. rewrite Es.
    assert (Hrel : forall x, inall (f0' :: rest) x <-> inall (f0 :: rest) x /\ x <> M).
    { intros x. unfold inall. split.
      - intros H. assert (In x (content f0')) by (apply H; left; auto). apply Hc0 in H0. split; [|tauto].
        intros f [Hf|Hf]; [subst; tauto|]. apply H. right; auto.
      - intros [H Hne] f [Hf|Hf]; [subst; apply Hc0; split; auto; apply H; left; auto|]. apply H. right; auto. }
    destruct (f_valid f0') eqn:Ev'; cbn [negb].
    2:{ split; auto. intros x. split.
        - intros Hx. destruct (Nat.eq_dec x M); auto. exfalso.
          assert (In x (content f0')) by (apply Hc0; split; auto; apply Hx; left; auto).
          rewrite (f_valid_false _ Ev') in H. destruct H.
        - intros ->. auto. }
    destruct (f_valid_min _ Ev') as [m' Em']. rewrite Em'.
    pose proof (f_min_spec _ _ Hwf0' Em') as Hmin'.
    assert (HMm' : M < m') by (apply Hgt; apply Hmin').
    assert (Hinv2 : ainv2 (f0' :: rest, 1, 0, m')).
    { apply ainv2_intro; auto; cbn [length] in *; try lia. apply pinned_one; auto. }
    pose proof (body_advance_spec _ _ _ _ (Some M) Hinv2) as Hb.
    destruct (body_advance (f0' :: rest, 1, 0, m') (Some M)) as [st' e'|e'|]; auto.
    + destruct Hb as (-> & Hinv' & Hle & Hl' & Hsame & Hts).
      assert (Hrel' : forall x, inall (st_fs st') x <-> inall (f0 :: rest) x /\ x <> M).
      { intros x. rewrite Hsame. apply Hrel. }
      assert (Hts' : total_size (st_fs st') < total_size (f0 :: rest)).
      { cbn [total_size fold_right] in *. lia. }
      assert (Hl'' : length (st_fs st') = length (f0 :: rest)) by (cbn [length] in *; lia).
      split; [auto|]. split; [lia|]. split; [auto|]. split; [auto|]. split; [lia|]. split; [auto|]. split; auto.
    + destruct Hb as (-> & Hnone). split; auto. intros x. split.
      * intros Hx. destruct (Nat.eq_dec x M); auto. exfalso. apply (Hnone x). apply Hrel. auto.
      * intros ->. auto.
  - apply Nat.eqb_neq in Ec.
    assert (Hinv2 : ainv2 (fs, c, L, M)) by (apply ainv2_intro; auto; lia).
    pose proof (body_advance_spec _ _ _ _ None Hinv2) as Hb.
    destruct (body_advance (fs, c, L, M) None) as [st' e'|e'|]; auto.
    + destruct Hb as (-> & Hinv' & Hle & Hl' & Hsame & Hts). repeat split; auto; apply Hsame; auto.
    + destruct Hb as (-> & Hnone). auto.
Qed.

Definition result_ok (fs : list filter) (M : nat) (m : list nat) : Prop :=
  ssorted m /\ (forall x, In x m -> M <= x) /\ (forall x, In x m <-> inall fs x).

Lemma apply_loop_correct : forall fuel st, ainv st ->
  match apply_loop fuel st with
  | ADone m => result_ok (st_fs st) (st_max st) m
  | AUB => False
  | AFuel => True
  end.
Proof.
  induction fuel as [|k IH]; intros st Hinv; cbn [apply_loop]; auto.
  pose proof (body_spec st Hinv) as Hb. cbv zeta in Hb.
  destruct (body st) as [st' e|e|]; auto.
  - destruct Hb as (Hinv' & Hle & Hl' & He). specialize (IH st' Hinv').
    destruct e as [v|].
    + destruct He as (-> & Hlt & HM & Hrel & _).
      destruct (apply_loop k st') as [m| |]; cbn [acons]; auto.
      destruct IH as (Hs & Hge & Hm). repeat split.
      * apply ssorted_cons; auto. intros x Hx. specialize (Hge _ Hx). lia.
      * intros x [Hx|Hx]; [lia|]. specialize (Hge _ Hx). lia.
      * intros [Hx|Hx]; [subst; auto|]. apply Hm in Hx. apply Hrel in Hx. tauto.
      * intros Hx. cbn [In]. destruct (Nat.eq_dec (st_max st) x); auto. right. apply Hm. apply Hrel. auto.
    + destruct He as (Hsame & _).
      destruct (apply_loop k st') as [m| |]; cbn [acons]; auto.
      destruct IH as (Hs & Hge & Hm). repeat split; auto.
      * intros x Hx. specialize (Hge _ Hx). lia.
      * intros Hx. apply Hsame. apply Hm. auto.
      * intros Hx. apply Hm. apply Hsame. auto.
  - destruct e as [v|]; cbn [acons].
    + destruct Hb as (-> & Hx). repeat split.
      * apply ssorted_cons; [constructor|]. intros x [].
      * intros x [Hx'|[]]. lia.
      * intros [Hx'|[]]. subst. apply Hx. auto.
      * intros Hx'. left. symmetry. apply Hx. auto.
    + split; [constructor|]. split; [intros x []|]. intros x; split; [intros []|intros Hx; exfalso; eapply Hb; eauto].
Qed.

(* ---------- termination: a measure that decreases at every Continue ---------- *)

Definition above (M : nat) (f : filter) : bool :=
  match f_min f with Some m => M <? m | None => false end.
Definition n_above (fs : list filter) (M : nat) : nat := length (List.filter (above M) fs).

Definition mu (st : astate) : nat :=
  let '(fs, c, L, M) := st in
  let n := length fs in
  total_size fs * (S n * (n + 3)) + n_above fs M * (n + 3) + (n + 2 - c).

Lemma n_above_le : forall fs M, n_above fs M <= length fs.
Proof.
  intros. unfold n_above. induction fs as [|f t IH]; cbn [List.filter length]; auto.
  destruct (above M f); cbn [length]; lia.
Qed.

Lemma mu_drop : forall T T' n K K' D D', T' < T -> K' <= n -> D' <= n + 2 ->
  T' * (S n * (n + 3)) + K' * (n + 3) + D' < T * (S n * (n + 3)) + K * (n + 3) + D.
Proof.
  intros. assert (S T' * (S n * (n + 3)) <= T * (S n * (n + 3))) by (apply Nat.mul_le_mono_r; lia).
  assert (K' * (n + 3) <= n * (n + 3)) by (apply Nat.mul_le_mono_r; lia).
  cbn [mult] in H2. lia.
Qed.

Lemma filter_len_mono : forall {A} (p q : A -> bool) l, (forall x, p x = true -> q x = true) ->
  length (List.filter p l) <= length (List.filter q l).
Proof.
  intros A p q l H. induction l as [|x t IH]; cbn [List.filter length]; auto.
  destruct (p x) eqn:Ep.
  - rewrite (H _ Ep). cbn [length]. lia.
  - destruct (q x); cbn [length]; lia.
Qed.

Lemma filter_len_strict : forall {A} (p q : A -> bool) l c y, (forall x, p x = true -> q x = true) ->
  nth_error l c = Some y -> p y = false -> q y = true ->
  length (List.filter p l) < length (List.filter q l).
Proof.
  intros A p q l. induction l as [|x t IH]; intros c y H Hn Hp Hq; destruct c; cbn in Hn; try discriminate.
  - inversion Hn; subst. cbn [List.filter]. rewrite Hp, Hq. cbn [length]. pose proof (filter_len_mono p q t H). lia.
  - specialize (IH _ _ H Hn Hp Hq). cbn [List.filter]. destruct (p x) eqn:Ep.
    + rewrite (H _ Ep). cbn [length]. lia.
    + destruct (q x); cbn [length]; lia.
Qed.

Lemma above_mono : forall M M' f, M <= M' -> above M' f = true -> above M f = true.
Proof.
  intros M M' f H. unfold above. destruct (f_min f); auto. rewrite !Nat.ltb_lt. lia.
Qed.

Lemma n_above_mono : forall fs M M', M <= M' -> n_above fs M' <= n_above fs M.
Proof. intros. unfold n_above. apply filter_len_mono. intros x. apply above_mono; auto. Qed.

Lemma n_above_strict : forall fs c fc M M', nth_error fs c = Some fc -> M < M' -> f_min fc = Some M' ->
  n_above fs M' < n_above fs M.
Proof.
  intros fs c fc M M' Hn Hlt Hm. unfold n_above. apply (filter_len_strict _ _ fs c fc); auto.
  - intros x. apply above_mono. lia.
  - unfold above. rewrite Hm. apply Nat.ltb_irrefl.
  - unfold above. rewrite Hm. apply Nat.ltb_lt. auto.
Qed.

Lemma upd_total_same : forall fs c fc fc' fs', nth_error fs c = Some fc -> upd fs c (fun _ => fc') = Some fs' ->
  total_size fs' + f_size fc = total_size fs + f_size fc'.
Proof.
  induction fs as [|g t IH]; intros c fc fc' fs' Hn Hu; destruct c; cbn in Hn; try discriminate.
  - inversion Hn; subst. cbn [upd] in Hu. inversion Hu; subst. cbn [total_size fold_right]. lia.
  - cbn [upd] in Hu. destruct (upd t c _) eqn:E; inversion Hu; subst. cbn [total_size fold_right].
    specialize (IH _ _ _ _ Hn E). unfold total_size in IH. lia.
Qed.

Lemma body_advance_mu : forall fs c L M e st' e', ainv2 (fs, c, L, M) ->
  body_advance (fs, c, L, M) e = Continue st' e' -> mu st' < mu (fs, c, L, M).
Proof.
  intros fs c L M e st' e' (Hlen & Hc & HL & Hwf & Hpin) Hb.
  cbn [body_advance] in Hb.
  destruct (nth_error fs c) as [fc|] eqn:Efc; [|discriminate].
  assert (Hwfc : fwf fc) by (rewrite Forall_forall in Hwf; apply Hwf; eapply nth_error_In; eauto).
  destruct (f_advance_spec fc M Hwfc) as (Hwf' & Hcont & Hsz & Hsame).
  destruct (upd fs c (fun _ => f_advance fc M)) as [fs'|] eqn:Eu; [|discriminate].
  pose proof (upd_length _ _ _ _ Eu) as Hlen'.
  pose proof (upd_total_same _ _ _ _ _ Efc Eu) as Htot.
  destruct (f_valid (f_advance fc M)); cbn [negb] in Hb; [|discriminate].
  destruct (f_min (f_advance fc M)) as [id|] eqn:Eid; [|discriminate].
  assert (Hcase : total_size fs' < total_size fs \/ (fs' = fs /\ f_advance fc M = fc)).
  { destruct (Nat.eq_dec (f_size (f_advance fc M)) (f_size fc)) as [E|E].
    - right. specialize (Hsame E). split; auto. rewrite Hsame in Eu.
      rewrite (upd_id fs c (fun _ => fc) fc Efc eq_refl) in Eu. congruence.
    - left. lia. }
  destruct (M <? id) eqn:Elt; inversion Hb; subst; clear Hb; cbn [mu]; rewrite Hlen'.
  - destruct Hcase as [Hlt|[-> Heq]].
    + apply mu_drop; auto; [rewrite <- Hlen'; apply n_above_le|lia].
    + apply Nat.ltb_lt in Elt. rewrite Heq in Eid.
      pose proof (n_above_strict fs c fc M id Efc Elt Eid).
      assert (S (n_above fs id) * (length fs + 3) <= n_above fs M * (length fs + 3)) by (apply Nat.mul_le_mono_r; lia).
      cbn [mult] in H0. lia.
  - destruct Hcase as [Hlt|[-> Heq]].
    + apply mu_drop; auto; [rewrite <- Hlen'; apply n_above_le|lia].
    + match goal with |- context [if ?b then S (S c) else S c] => destruct b end; lia.
Qed.

Lemma body_mu : forall st st' e, ainv st -> body st = Continue st' e -> mu st' < mu st.
Proof.
  intros [[[fs c] L] M] st' e Hinv Hb. pose proof Hinv as (Hlen & Hc & HL & Hwf & Hpin).
  cbn [body] in Hb. destruct (c =? length fs) eqn:Ec.
  - apply Nat.eqb_eq in Ec. subst c.
    destruct fs as [|f0 rest]; [discriminate|].
    assert (Hwf0 : fwf f0) by (inversion Hwf; auto).
    assert (Hwfr : Forall fwf rest) by (inversion Hwf; auto).
    destruct (f_step f0) as [f0'|] eqn:Es; [|discriminate].
    destruct (f_valid f0') eqn:Ev'; cbn [negb] in Hb; [|discriminate].
    destruct (f_min f0') as [m'|] eqn:Em'; [|discriminate].
    assert (Hv0 : exists m0, f_min f0 = Some m0).
    { destruct f0 as [[|a n] [|b u]]; cbn in Es; try discriminate; cbn; eexists; reflexivity. }
    destruct Hv0 as [m0 Em0].
    destruct (f_step_spec _ _ Hwf0 Em0) as [f0'' [Es' [Hwf0' [Hc0 [Hgt Hsz]]]]].
    rewrite Es in Es'. inversion Es'; subst f0''.
    pose proof (f_min_spec _ _ Hwf0' Em') as Hmin'.
    assert (Hinv2 : ainv2 (f0' :: rest, 1, 0, m')).
    { apply ainv2_intro; auto; cbn [length] in *; try lia. apply pinned_one; auto. }
    pose proof (body_advance_mu _ _ _ _ _ _ _ Hinv2 Hb) as Hlt.
    eapply Nat.lt_trans; [exact Hlt|].
    cbn [mu length total_size fold_right]. apply mu_drop.
    + fold (total_size rest). lia.
    + pose proof (n_above_le (f0' :: rest) m'). cbn [length] in H. lia.
    + lia.
  - apply Nat.eqb_neq in Ec.
    assert (Hinv2 : ainv2 (fs, c, L, M)) by (apply ainv2_intro; auto; lia).
    eapply body_advance_mu; eauto.
Qed.

Lemma apply_loop_terminates : forall fuel st, ainv st -> mu st < fuel -> apply_loop fuel st <> AFuel.
Proof.
  induction fuel as [|k IH]; intros st Hinv Hmu; [lia|].
  cbn [apply_loop]. pose proof (body_spec st Hinv) as Hb. cbv zeta in Hb.
  destruct (body st) as [st' e|e|] eqn:Eb.
  - destruct Hb as (Hinv' & _). pose proof (body_mu _ _ _ Hinv Eb).
    assert (apply_loop k st' <> AFuel) by (apply IH; auto; lia).
    destruct (apply_loop k st'); destruct e; cbn [acons]; congruence.
  - destruct e; cbn [acons]; discriminate.
  - discriminate.
Qed.

Lemma mu_lt_fuel : forall fs c L M, c <= length fs -> mu (fs, c, L, M) < apply_fuel fs.
Proof.
  intros fs c L M Hc. cbn [mu]. unfold apply_fuel.
  pose proof (n_above_le fs M). set (n := length fs) in *. set (T := total_size fs).
  assert (n_above fs M * (n + 3) <= n * (n + 3)) by (apply Nat.mul_le_mono_r; lia).
  rewrite <- Nat.mul_assoc. cbn [mult]. lia.
Qed.

(* ---------- applyFilters ---------- *)

Theorem applyFilters_spec : forall fs, fs <> [] -> Forall fwf fs -> Forall (fun f => f_valid f = true) fs ->
  exists m, applyFilters fs = ADone m /\ ssorted m /\ (forall x, In x m <-> inall fs x).
Proof.
  intros fs Hne Hwf Hval. destruct fs as [|f0 [|f1 rest]]; [congruence| |].
  - cbn [applyFilters]. assert (Hw0 : fwf f0) by (inversion Hwf; auto).
    destruct (drain_spec (S (f_size f0)) f0 Hw0) as [m [Ed [Hs Hm]]]; [lia|].
    exists m. split; auto. split; auto. intros x. rewrite Hm. unfold inall. split.
    + intros H f [<-|[]]. auto.
    + intros H. apply H. left; auto.
  - cbn [applyFilters]. assert (Hw0 : fwf f0) by (inversion Hwf; auto).
    assert (Hv0 : f_valid f0 = true) by (inversion Hval; auto).
    destruct (f_valid_min _ Hv0) as [m0 Em0]. rewrite Em0.
    set (fs := f0 :: f1 :: rest) in *.
    assert (Hinv : ainv (fs, 1, 0, m0)).
    { subst fs. apply ainv_intro; auto; cbn [length]; try lia. apply pinned_one. apply f_min_spec; auto. }
    pose proof (apply_loop_correct (apply_fuel fs) _ Hinv) as Hc.
    pose proof (apply_loop_terminates (apply_fuel fs) _ Hinv) as Ht.
    destruct (apply_loop (apply_fuel fs) (fs, 1, 0, m0)) as [m| |].
    + exists m. destruct Hc as (Hs & _ & Hm). auto.
    + destruct Hc.
    + exfalso. apply Ht; auto. apply mu_lt_fuel. subst fs. cbn [length]. lia.
Qed.

(* ---------- fuel-free statements ----------
   The two loops of applyFilters are also described without any fuel, as the big-step relations
   generated by the loop bodies; the fuelled functions compute exactly these relations, every
   sufficient fuel gives the same answer, and on well-formed filters the relations are total. *)

Definition opt_list (e : option nat) : list nat := match e with Some v => [v] | None => [] end.

(* while (true) { body }  — src: Trie.cpp:applyFilters *)
Inductive loop_runs : astate -> list nat -> Prop :=
| LoopBreak : forall st e, body st = Break e -> loop_runs st (opt_list e)
| LoopStep : forall st st' e m, body st = Continue st' e -> loop_runs st' m -> loop_runs st (opt_list e ++ m).

(* while (filters[0].isValid()) { push getMin; stepAdvance } *)
Inductive drain_runs : filter -> list nat -> Prop :=
| DrainStop : forall f, f_valid f = false -> drain_runs f []
| DrainStep : forall f m f' l, f_valid f = true -> f_min f = Some m -> f_step f = Some f' -> drain_runs f' l -> drain_runs f (m :: l).

Lemma acons_opt : forall e m, acons e (ADone m) = ADone (opt_list e ++ m).
Proof. intros [v|] m; reflexivity. Qed.

Lemma apply_loop_runs : forall fuel st m, apply_loop fuel st = ADone m -> loop_runs st m.
Proof.
  induction fuel as [|k IH]; intros st m H; cbn [apply_loop] in H; [discriminate|].
  destruct (body st) as [st' e|e|] eqn:Eb; [| |discriminate].
  - destruct (apply_loop k st') as [m'| |] eqn:E; try (destruct e; discriminate).
    rewrite acons_opt in H. inversion H; subst. eapply LoopStep; eauto.
  - rewrite acons_opt in H. inversion H; subst. rewrite app_nil_r. apply LoopBreak; auto.
Qed.

Lemma runs_apply_loop : forall st m, loop_runs st m -> exists fuel, forall fuel', fuel <= fuel' -> apply_loop fuel' st = ADone m.
Proof.
  intros st m H. induction H as [st e Hb|st st' e m Hb Hr [fuel IH]].
  - exists 1. intros [|k] Hk; [lia|]. cbn [apply_loop]. rewrite Hb, acons_opt, app_nil_r. reflexivity.
  - exists (S fuel). intros [|k] Hk; [lia|]. cbn [apply_loop]. rewrite Hb, IH by lia. apply acons_opt.
Qed.

Lemma loop_runs_det : forall st m1 m2, loop_runs st m1 -> loop_runs st m2 -> m1 = m2.
Proof.
  intros st m1 m2 H1. revert m2. induction H1 as [st e Hb|st st' e m Hb Hr IH]; intros m2 H2; inversion H2; subst; try congruence.
  - rewrite Hb in H. inversion H; subst. f_equal. apply IH. auto.
Qed.

(* the answer does not depend on the fuel *)
Lemma apply_loop_fuel_irrelevant : forall fuel1 fuel2 st m1 m2,
  apply_loop fuel1 st = ADone m1 -> apply_loop fuel2 st = ADone m2 -> m1 = m2.
Proof. intros. eapply loop_runs_det; eapply apply_loop_runs; eauto. Qed.

Lemma drain_runs_iff : forall fuel f l, drain fuel f = ADone l -> drain_runs f l.
Proof.
  induction fuel as [|k IH]; intros f l H; cbn [drain] in H; [discriminate|].
  destruct (f_valid f) eqn:Ev.
  - destruct (f_min f) as [m|] eqn:Em; [|discriminate]. destruct (f_step f) as [f'|] eqn:Es; [|discriminate].
    destruct (drain k f') as [l'| |] eqn:E; try discriminate. cbn [acons] in H. inversion H; subst.
    eapply DrainStep; eauto.
  - inversion H; subst. apply DrainStop; auto.
Qed.

(* applyFilters, fuel-free: on well-formed non-empty filters the loop relation is total and its
   (unique) result is the strictly increasing intersection *)
Theorem loop_total_correct : forall fs m0, 2 <= length fs -> Forall fwf fs -> Forall (fun f => f_valid f = true) fs ->
  f_min (hd ([], []) fs) = Some m0 ->
  exists m, loop_runs (fs, 1, 0, m0) m /\ ssorted m /\ (forall x, In x m <-> inall fs x) /\
            forall fuel, apply_fuel fs <= fuel -> apply_loop fuel (fs, 1, 0, m0) = ADone m.
Proof.
  intros fs m0 Hlen Hwf Hval Hm. destruct fs as [|f0 rest]; [cbn in Hlen; lia|]. cbn [hd] in Hm.
  assert (Hinv : ainv (f0 :: rest, 1, 0, m0)).
  { apply ainv_intro; auto; cbn [length] in *; try lia. apply pinned_one. apply f_min_spec; auto. inversion Hwf; auto. }
  pose proof (apply_loop_correct (apply_fuel (f0 :: rest)) _ Hinv) as Hc.
  pose proof (apply_loop_terminates (apply_fuel (f0 :: rest)) _ Hinv) as Ht.
  destruct (apply_loop (apply_fuel (f0 :: rest)) (f0 :: rest, 1, 0, m0)) as [m| |] eqn:E.
  - exists m. destruct Hc as (Hs & _ & Hin). split; [eapply apply_loop_runs; eauto|]. split; auto. split; auto.
    intros fuel Hf. pose proof (apply_loop_terminates fuel _ Hinv) as Ht'.
    pose proof (apply_loop_correct fuel _ Hinv) as Hc'.
    destruct (apply_loop fuel (f0 :: rest, 1, 0, m0)) as [m'| |] eqn:E'.
    + f_equal. eapply apply_loop_fuel_irrelevant; eauto.
    + destruct Hc'.
    + exfalso. apply Ht'; auto. pose proof (mu_lt_fuel (f0 :: rest) 1 0 m0). cbn [length] in *. lia.
  - destruct Hc.
  - exfalso. apply Ht; auto. apply mu_lt_fuel. cbn [length] in *. lia.
Qed.

Theorem drain_total_correct : forall f, fwf f ->
  exists m, drain_runs f m /\ ssorted m /\ (forall x, In x m <-> In x (content f)) /\
            forall fuel, f_size f < fuel -> drain fuel f = ADone m.
Proof.
  intros f Hw. destruct (drain_spec (S (f_size f)) f Hw) as [m [E [Hs Hm]]]; [lia|].
  exists m. split; [eapply drain_runs_iff; eauto|]. split; auto. split; auto.
  intros fuel Hf. destruct (drain_spec fuel f Hw Hf) as [m' [E' [Hs' Hm']]]. rewrite E'. f_equal.
  apply ssorted_ext; auto. intros x. rewrite Hm, Hm'. tauto.
Qed.
