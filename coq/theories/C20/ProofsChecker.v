(* C20/ProofsChecker.v — soundness of the executable checker the driver runs on the output of the
   real FasterTrie::reconstruct:  reconstruct_okb = true  ->  reconstruct_spec (and no id twice). *)
From Coq Require Import List Arith Bool Sorted Lia Permutation.
From AIT Require Import C20.Model C20.Spec C20.ProofsLists C20.ProofsTrie C20.ProofsQuery C20.Proofs C20.ProofsFaster C20.ProofsReconstruct.
Import ListNotations.

Lemma compatible_agree : forall a b, compatible a b -> agree a b.
Proof.
  intros a b H k v w Ha Hb. symmetry. apply (H k v); auto. unfold pairs. apply pf_get_pairs. exact Ha.
Qed.

Lemma agree_compatible : forall F a b, pf_okb F a = true -> agree a b -> compatible a b.
Proof.
  intros F a b Ha H k v Hin w Hw. symmetry. apply (H k v w); auto.
  unfold pf_okb in Ha. unfold pairs in Hin. unfold pf_get. eapply pairs_pf_get; eauto.
Qed.

Lemma agree_sym : forall a b, agree a b -> agree b a.
Proof. intros a b H k v w H1 H2. symmetry. eapply H; eauto. Qed.

Lemma agree_refl : forall a, agree a a.
Proof. intros a k v w H1 H2. congruence. Qed.

Lemma entry_inb_in : forall st e, entry_inb st e = true -> In e st.
Proof.
  intros st [id pf] H. unfold entry_inb in H. apply existsb_exists in H. destruct H as [[id' pf'] [Hin H]].
  cbn [fst snd] in H. apply andb_true_iff in H. destruct H as [H1 H2]. apply Nat.eqb_eq in H1. apply pf_eqb_eq in H2. subst. exact Hin.
Qed.

Lemma pairwiseb_spec : forall {A} (r : A -> A -> bool) l, pairwiseb r l = true ->
  forall x y, In x l -> In y l -> x = y \/ r x y = true \/ r y x = true.
Proof.
  intros A r. induction l as [|a l IH]; intros H x y Hx Hy; [destruct Hx|].
  cbn [pairwiseb] in H. apply andb_true_iff in H. destruct H as [H1 H2]. rewrite forallb_forall in H1.
  destruct Hx as [<-|Hx]; destruct Hy as [<-|Hy]; auto.
Qed.

Lemma pairwiseb_nodup : forall (l : list entry) (r : entry -> entry -> bool),
  (forall a b, r a b = true -> fst a <> fst b) -> pairwiseb r l = true -> NoDup (map fst l).
Proof.
  intros l r Hr. induction l as [|a l IH]; intros H; cbn [map]; [constructor|].
  cbn [pairwiseb] in H. apply andb_true_iff in H. destruct H as [H1 H2]. rewrite forallb_forall in H1.
  constructor; auto. intros Hin. apply in_map_iff in Hin. destruct Hin as [b [E Hb]]. apply (Hr a b); auto.
Qed.

Lemma expected_nth : forall F q entries k, k < length F ->
  nth_error (expected_factors F q entries) k =
  Some (match pf_get q k with
        | Some v => v
        | None =>
          match List.filter (fun e => match pf_get (snd e) k with Some _ => true | None => false end) entries with
          | e :: _ => match pf_get (snd e) k with Some v => v | None => nth k F 0 end
          | [] => nth k F 0
          end
        end).
Proof.
  intros F q entries k Hk. unfold expected_factors. rewrite nth_error_map, nth_error_seq by auto. reflexivity.
Qed.

Theorem reconstruct_okb_sound_lemma : forall F (st : store) q entries f,
  (forall e, In e st -> pf_okb F (snd e) = true) -> pf_okb F q = true -> reconstruct_okb F st q entries f = true ->
  reconstruct_spec st q entries f /\ NoDup (map fst entries).
Proof.
  intros F st q entries f Hok Hq H. unfold reconstruct_okb in H. rewrite !andb_true_iff in H.
  destruct H as [[[H1 H2] H3] H4]. rewrite forallb_forall in H1, H2. apply list_eqb_eq in H4. subst f.
  assert (Hst : forall e, In e entries -> In e st) by (intros e He; apply entry_inb_in; auto).
  assert (Hpf : forall e, In e entries -> pf_okb F (snd e) = true).
  { intros e He. apply Hok. auto. }
  assert (Hq' : forall e, In e entries -> agree q (snd e)).
  { intros e He. apply compatible_agree. apply compatibleb_iff. auto. }
  assert (Hpw : forall e1 e2, In e1 entries -> In e2 entries -> agree (snd e1) (snd e2)).
  { intros e1 e2 He1 He2. destruct (pairwiseb_spec _ _ H3 e1 e2 He1 He2) as [->|[H|H]].
    - apply agree_refl.
    - apply andb_true_iff in H. destruct H as [H _]. apply compatible_agree. apply compatibleb_iff. exact H.
    - apply andb_true_iff in H. destruct H as [H _]. apply agree_sym. apply compatible_agree. apply compatibleb_iff. exact H. }
  assert (Hlt : forall pf k v, pf_okb F pf = true -> pf_get pf k = Some v -> k < length F).
  { intros pf k v Hp Hg. destruct (named_lt F pf k v Hp Hg) as [s [Hs _]]. apply nth_error_Some. congruence. }
  split; [split; [|split; [|split]]|].
  - intros e He. auto.
  - exact Hpw.
  - intros k v Hg. rewrite expected_nth by (eapply Hlt; eauto). rewrite Hg. reflexivity.
  - intros e k v He Hg. rewrite expected_nth by (eapply (Hlt (snd e)); eauto).
    destruct (pf_get q k) as [w|] eqn:Eq.
    + f_equal. eapply Hq'; eauto.
    + destruct (List.filter (fun e0 => match pf_get (snd e0) k with Some _ => true | None => false end) entries) as [|e0 l] eqn:Ef.
      * exfalso. assert (Hin : In e (List.filter (fun e0 => match pf_get (snd e0) k with Some _ => true | None => false end) entries)).
        { apply filter_In. split; auto. rewrite Hg. reflexivity. }
        rewrite Ef in Hin. destruct Hin.
      * assert (Hin0 : In e0 (e0 :: l)) by (left; auto). rewrite <- Ef in Hin0. apply filter_In in Hin0. destruct Hin0 as [He0 Hn0].
        destruct (pf_get (snd e0) k) as [v0|] eqn:E0; [|discriminate]. f_equal. eapply (Hpw e0 e); eauto.
  - eapply pairwiseb_nodup; [|exact H3]. intros a b Hr. apply andb_true_iff in Hr. destruct Hr as [_ Hr].
    apply negb_true_iff, Nat.eqb_neq in Hr. exact Hr.
Qed.
