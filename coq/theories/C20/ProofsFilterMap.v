(* C20/ProofsFilterMap.v — FilterMap<T, Trie> refines an abstract store of (key, item) pairs:
   every filter overload (const and non-const, with and without offset) returns exactly the items
   whose keys are compatible with the query; no item index is out of range. *)
From Coq Require Import List Arith Bool Sorted Lia.
From AIT Require Import C20.Model C20.Spec C20.ProofsLists C20.ProofsTrie C20.ProofsQuery.
Import ListNotations.

Section FM.
Variable A : Type.

Definition ins_ops (entries : list (pfactors * A)) : list op := map (fun e => OInsert (fst e)) entries.

Lemma fm_fold_run : forall (entries : list (pfactors * A)) (m : fmap A) t' outs,
  trie_run true (fm_ids m) (ins_ops entries) = Ok (t', outs) ->
  fm_fold m entries = Ok (mkFM t' (fm_items m ++ map snd entries)).
Proof.
  induction entries as [|[pf x] entries IH]; intros m t' outs H; cbn [ins_ops map trie_run fm_fold] in *.
  - inversion H; subst. rewrite app_nil_r. destruct m; reflexivity.
  - cbn [fst trie_step] in H. unfold fm_emplace. destruct (trie_insert (fm_ids m) pf) as [[t1 id]| |]; cbn [bind] in *; try discriminate.
    destruct (trie_run true t1 (map (fun e => OInsert (fst e)) entries)) as [[t2 rs]| |] eqn:E; cbn [bind] in H; try discriminate.
    inversion H; subst. rewrite (IH (mkFM t1 (fm_items m ++ [x])) t' rs E). cbn [fm_items snd]. rewrite <- app_assoc. reflexivity.
Qed.

Lemma spec_run_cons_fst : forall s o ops, fst (spec_run s (o :: ops)) = fst (spec_run (fst (spec_step s o)) ops).
Proof. intros s o ops. cbn [spec_run]. destruct (spec_step s o) as [s1 r1]. cbn [fst]. destruct (spec_run s1 ops). reflexivity. Qed.

Lemma spec_run_inserts : forall (entries : list (pfactors * A)) c st,
  fst (spec_run (c, st) (ins_ops entries)) = (c + length entries, st ++ combine (seq c (length entries)) (map fst entries)).
Proof.
  induction entries as [|[pf x] entries IH]; intros c st.
  - cbn. rewrite app_nil_r, Nat.add_0_r. reflexivity.
  - unfold ins_ops. cbn [map]. rewrite spec_run_cons_fst. cbn [spec_step fst].
    fold (ins_ops entries). rewrite IH. cbn [length seq map combine fst]. rewrite <- app_assoc. f_equal. lia.
Qed.

Lemma hist_ok_inserts : forall F (entries : list (pfactors * A)) s,
  Forall (fun e => pf_okb F (fst e) = true) entries -> hist_okb F s (ins_ops entries) = true.
Proof.
  intros F. induction entries as [|[pf x] entries IH]; intros s H; cbn [ins_ops map hist_okb]; auto.
  inversion H; subst. cbn [fst op_okb] in *. rewrite H2. cbn [andb]. apply IH. auto.
Qed.

Lemma im_items_spec : forall (entries : list (pfactors * A)) q a (pre : list A), length pre = a ->
  im_items (filter_spec (combine (seq a (length entries)) (map fst entries)) q) (pre ++ map snd entries)
  = Ok (fm_spec entries q).
Proof.
  induction entries as [|[pf x] entries IH]; intros q a pre Hl; cbn [length seq map combine fst snd].
  - reflexivity.
  - unfold filter_spec, fm_spec. cbn [List.filter fst snd]. destruct (compatibleb q pf).
    + cbn [map fst im_items]. rewrite nth_error_app2 by lia. rewrite Hl, Nat.sub_diag. cbn [nth_error].
      specialize (IH q (S a) (pre ++ [x])). rewrite <- app_assoc in IH. cbn [app] in IH.
      unfold filter_spec, fm_spec in IH. rewrite IH by (rewrite app_length; cbn; lia). reflexivity.
    + specialize (IH q (S a) (pre ++ [x])). rewrite <- app_assoc in IH. cbn [app] in IH.
      unfold filter_spec, fm_spec in IH. apply IH. rewrite app_length; cbn; lia.
Qed.

Theorem FilterMap_refines_lemma : forall F (entries : list (pfactors * A)),
  2 <= length F -> Forall (fun e => pf_okb F (fst e) = true) entries ->
  exists m, fm_build F entries = Ok m /\ fm_size m = length entries /\
    (forall q, pf_okb F q = true ->
       fm_filterPf m q = Ok (fm_spec entries q) /\ fm_filterPf_const m q = Ok (fm_spec entries q)) /\
    (forall f off, pf_okb F (query_of_factors f off) = true ->
       fm_filterFO m f off = Ok (fm_spec entries (query_of_factors f off)) /\
       fm_filterFO_const m f off = Ok (fm_spec entries (query_of_factors f off))) /\
    (forall f, pf_okb F (query_of_factors f 0) = true ->
       fm_filterF m f = Ok (fm_spec entries (query_of_factors f 0)) /\
       fm_filterF_const m f = Ok (fm_spec entries (query_of_factors f 0))).
Proof.
  intros F entries Hlen Hall.
  assert (Hh : history_ok F (ins_ops entries)) by (split; auto; apply hist_ok_inserts; auto).
  destruct (history_sim F (ins_ops entries) Hh) as [t [E [HF HI]]].
  unfold trie_history in E. unfold fm_build, fm_new.
  destruct (trie_new F) as [t0| |]; cbn [bind] in *; try discriminate.
  rewrite (fm_fold_run entries (mkFM t0 []) t (spec_outs (ins_ops entries)) E). cbn [fm_items app].
  eexists. split; [reflexivity|]. unfold fm_size. cbn [fm_items]. split; [apply map_length|].
  unfold spec_state in HI. rewrite spec_run_inserts in HI. cbn [app plus] in HI.
  set (st := combine (seq 0 (length entries)) (map fst entries)) in *.
  assert (Hitems : forall q, im_items (filter_spec st q) (map snd entries) = Ok (fm_spec entries q)).
  { intros q. apply (im_items_spec entries q 0 []). reflexivity. }
  subst F. split; [|split].
  - intros q Hq. unfold fm_filterPf, fm_filterPf_const. cbn [fm_ids fm_items].
    rewrite (trie_filterPf_sim t _ st q HI Hlen Hq). cbn [bind]. rewrite Hitems. auto.
  - intros f off Hq. unfold fm_filterFO, fm_filterFO_const. cbn [fm_ids fm_items].
    rewrite (trie_filterF_sim t _ st f off HI Hlen Hq). cbn [bind]. rewrite Hitems. auto.
  - intros f Hq. unfold fm_filterF, fm_filterF_const. cbn [fm_ids fm_items].
    rewrite (trie_filterF_sim t _ st f 0 HI Hlen Hq). cbn [bind]. rewrite Hitems. auto.
Qed.

End FM.
