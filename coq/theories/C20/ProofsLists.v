(* C20/ProofsLists.v — list facts used by the C20 proofs: strictly sorted lists, lower_bound
   splitting, merge, erase-by-lower_bound. *)
From Coq Require Import List Arith Bool Sorted Lia.
From AIT Require Import C20.Model.
Import ListNotations.

Definition ssorted : list nat -> Prop := StronglySorted lt.

Lemma ssorted_nil : ssorted []. Proof. constructor. Qed.

Lemma ssorted_cons_inv : forall a l, ssorted (a :: l) -> ssorted l /\ forall x, In x l -> a < x.
Proof.
  intros a l H. inversion H as [|? ? Hs Hf]; subst. split; auto.
  intros x Hx. rewrite Forall_forall in Hf. auto.
Qed.

Lemma ssorted_cons : forall a l, ssorted l -> (forall x, In x l -> a < x) -> ssorted (a :: l).
Proof. intros. constructor; auto. apply Forall_forall. auto. Qed.

Lemma ssorted_not_in_head : forall a l, ssorted (a :: l) -> ~ In a l.
Proof. intros a l H Hin. apply ssorted_cons_inv in H. destruct H as [_ H]. specialize (H a Hin). lia. Qed.

Lemma ssorted_NoDup : forall l, ssorted l -> NoDup l.
Proof.
  induction l; intros H; constructor.
  - apply ssorted_not_in_head; auto.
  - apply IHl. apply ssorted_cons_inv in H. tauto.
Qed.

(* two strictly sorted lists with the same elements are equal *)
Lemma ssorted_ext : forall l1 l2, ssorted l1 -> ssorted l2 -> (forall x, In x l1 <-> In x l2) -> l1 = l2.
Proof.
  induction l1 as [|a l1 IH]; intros l2 H1 H2 Hext.
  - destruct l2 as [|b l2]; auto. exfalso. apply (proj2 (Hext b)). left; auto.
  - destruct l2 as [|b l2].
    + exfalso. apply (proj1 (Hext a)). left; auto.
    + apply ssorted_cons_inv in H1. destruct H1 as [H1 Ha].
      apply ssorted_cons_inv in H2. destruct H2 as [H2 Hb].
      assert (a = b).
      { destruct (proj1 (Hext a) (or_introl eq_refl)) as [E|E]; auto.
        destruct (proj2 (Hext b) (or_introl eq_refl)) as [E'|E']; auto.
        specialize (Ha _ E'). specialize (Hb _ E). lia. }
      subst b. f_equal. apply IH; auto.
      intros x. split; intros Hx.
      * destruct (proj1 (Hext x) (or_intror Hx)) as [E|E]; auto. subst. specialize (Ha _ Hx). lia.
      * destruct (proj2 (Hext x) (or_intror Hx)) as [E|E]; auto. subst. specialize (Hb _ Hx). lia.
Qed.

Lemma ssorted_app : forall l1 l2, ssorted l1 -> ssorted l2 ->
  (forall x y, In x l1 -> In y l2 -> x < y) -> ssorted (l1 ++ l2).
Proof.
  induction l1 as [|a l1 IH]; intros l2 H1 H2 H; cbn [app]; auto.
  apply ssorted_cons_inv in H1. destruct H1 as [H1 Ha].
  apply ssorted_cons.
  - apply IH; auto. intros. apply H; auto. right; auto.
  - intros x Hx. apply in_app_or in Hx. destruct Hx; auto. apply H; auto. left; auto.
Qed.

Lemma ssorted_map_filter : forall {A} (g : A -> nat) (p : A -> bool) (l : list A),
  ssorted (map g l) -> ssorted (map g (List.filter p l)).
Proof.
  intros A g p. induction l as [|a l IH]; intros H; cbn [List.filter map] in *; auto.
  apply ssorted_cons_inv in H. destruct H as [H Ha].
  destruct (p a); cbn [map]; auto.
  apply ssorted_cons; auto. intros x Hx. apply Ha.
  apply in_map_iff in Hx. destruct Hx as [e [E He]]. apply filter_In in He. apply in_map_iff. exists e. tauto.
Qed.

Lemma ssorted_filter : forall (p : nat -> bool) l, ssorted l -> ssorted (List.filter p l).
Proof.
  intros p l H. rewrite <- (map_id l) in H. apply (ssorted_map_filter (fun x => x) p) in H.
  rewrite map_id in H. exact H.
Qed.

(* ---------- lower_bound split ---------- *)

Lemma take_drop_lt : forall v l, take_lt v l ++ drop_lt v l = l.
Proof. induction l as [|x t IH]; cbn [take_lt drop_lt]; auto. destruct (x <? v); cbn [app]; congruence. Qed.

Lemma take_lt_lt : forall v l x, In x (take_lt v l) -> x < v.
Proof.
  induction l as [|y t IH]; cbn [take_lt]; intros x H; [contradiction|].
  destruct (y <? v) eqn:E; [|contradiction]. apply Nat.ltb_lt in E. destruct H; subst; auto.
Qed.

Lemma drop_lt_in : forall v l, ssorted l -> forall x, In x (drop_lt v l) <-> In x l /\ v <= x.
Proof.
  induction l as [|y t IH]; intros Hs x; cbn [drop_lt].
  - cbn. tauto.
  - apply ssorted_cons_inv in Hs. destruct Hs as [Hs Hy].
    destruct (y <? v) eqn:E.
    + apply Nat.ltb_lt in E. rewrite IH by auto. cbn [In]. split; [tauto|]. intros [[H|H] H']; [subst; lia|tauto].
    + apply Nat.ltb_ge in E. cbn [In]. split; [|tauto].
      intros [H|H]; [subst; split; auto|]. split; auto. specialize (Hy _ H). lia.
Qed.

Lemma drop_lt_sorted : forall v l, ssorted l -> ssorted (drop_lt v l).
Proof.
  induction l as [|y t IH]; intros Hs; cbn [drop_lt]; auto.
  destruct (y <? v); auto. apply IH. apply ssorted_cons_inv in Hs. tauto.
Qed.

Lemma drop_lt_length : forall v l, length (drop_lt v l) <= length l.
Proof. induction l as [|y t IH]; cbn [drop_lt length]; auto. destruct (y <? v); cbn [length]; lia. Qed.

Lemma drop_lt_same_length : forall v l, length (drop_lt v l) = length l -> drop_lt v l = l.
Proof.
  intros v l. destruct l as [|y t]; cbn [drop_lt]; auto.
  destruct (y <? v); auto. intros H. pose proof (drop_lt_length v t). cbn [length] in H. lia.
Qed.

(* ---------- removal of an id ---------- *)

Definition rm (id : nat) (l : list nat) : list nat := List.filter (fun x => negb (x =? id)) l.

Lemma rm_notin : forall id l, ~ In id l -> rm id l = l.
Proof.
  induction l as [|x t IH]; intros H; cbn [rm List.filter]; auto.
  destruct (x =? id) eqn:E; cbn [negb].
  - apply Nat.eqb_eq in E. exfalso. apply H. left; auto.
  - fold (rm id t). rewrite IH; auto. intros H'. apply H. right; auto.
Qed.

Lemma rm_in : forall id l x, In x (rm id l) <-> In x l /\ x <> id.
Proof.
  intros. unfold rm. rewrite filter_In. rewrite negb_true_iff, Nat.eqb_neq. tauto.
Qed.

Lemma erase_lb_cons_lt : forall id x t, x < id ->
  erase_lb id (x :: t) = match erase_lb id t with Some t' => Some (x :: t') | None => None end.
Proof.
  intros id x t H. unfold erase_lb. cbn [drop_lt take_lt]. apply Nat.ltb_lt in H. rewrite H.
  destruct (drop_lt id t) as [|y r]; auto. destruct (y =? id); auto.
Qed.

Lemma erase_lb_spec : forall id l, ssorted l ->
  match erase_lb id l with
  | Some l' => l' = rm id l /\ In id l
  | None => ~ In id l
  end.
Proof.
  induction l as [|x t IH]; intros Hs.
  - cbn. tauto.
  - apply ssorted_cons_inv in Hs. destruct Hs as [Hs Hx].
    destruct (lt_dec x id) as [Hlt|Hge].
    + rewrite erase_lb_cons_lt by auto. specialize (IH Hs).
      destruct (erase_lb id t) as [t'|].
      * destruct IH as [E Hin]. split; [|right; auto].
        cbn [rm List.filter]. destruct (x =? id) eqn:E'; [apply Nat.eqb_eq in E'; lia|]. cbn [negb]. fold (rm id t). congruence.
      * intros [H|H]; [lia|auto].
    + unfold erase_lb. cbn [drop_lt take_lt]. destruct (x <? id) eqn:E; [apply Nat.ltb_lt in E; lia|].
      destruct (x =? id) eqn:E'.
      * apply Nat.eqb_eq in E'. subst x. cbn [app]. split; [|left; auto].
        cbn [rm List.filter]. rewrite Nat.eqb_refl. cbn [negb]. fold (rm id t). symmetry. apply rm_notin.
        intros H. specialize (Hx _ H). lia.
      * apply Nat.eqb_neq in E'. intros [H|H]; [lia|]. specialize (Hx _ H). lia.
Qed.

Lemma erase_checked_rm : forall id l, ssorted l -> erase_checked id l = rm id l.
Proof.
  intros id l Hs. unfold erase_checked. pose proof (erase_lb_spec id l Hs) as H.
  destruct (erase_lb id l); [tauto|]. symmetry. apply rm_notin; auto.
Qed.

(* ---------- merge ---------- *)

Lemma merge_nil_r : forall l, merge l [] = l.
Proof. destruct l; reflexivity. Qed.

Lemma merge_in : forall l1 l2 x, In x (merge l1 l2) <-> In x l1 \/ In x l2.
Proof.
  induction l1 as [|a l1 IH1]; intros l2 x.
  - destruct l2; cbn; tauto.
  - induction l2 as [|b l2 IH2].
    + cbn [merge]. cbn [In]. tauto.
    + cbn [merge]. destruct (b <? a).
      * cbn [In]. cbn [merge] in IH2. rewrite IH2. cbn [In]. tauto.
      * cbn [In]. rewrite IH1. cbn [In]. tauto.
Qed.

Lemma merge_length : forall l1 l2, length (merge l1 l2) = length l1 + length l2.
Proof.
  induction l1 as [|a l1 IH1]; intros l2.
  - destruct l2; reflexivity.
  - induction l2 as [|b l2 IH2].
    + cbn [merge length]. lia.
    + cbn [merge]. destruct (b <? a).
      * cbn [length]. cbn [merge] in IH2. rewrite IH2. cbn [length]. lia.
      * cbn [length]. rewrite IH1. cbn [length]. lia.
Qed.

Lemma merge_sorted : forall l1 l2, ssorted l1 -> ssorted l2 ->
  (forall x, In x l1 -> In x l2 -> False) -> ssorted (merge l1 l2).
Proof.
  induction l1 as [|a l1 IH1]; intros l2 H1 H2 Hd.
  - destruct l2; auto.
  - induction l2 as [|b l2 IH2].
    + cbn [merge]. auto.
    + pose proof (ssorted_cons_inv _ _ H1) as [H1' Ha].
      pose proof (ssorted_cons_inv _ _ H2) as [H2' Hb].
      cbn [merge]. destruct (b <? a) eqn:E.
      * apply Nat.ltb_lt in E. apply ssorted_cons.
        -- cbn [merge] in IH2. apply IH2; auto. intros x Hx Hx'. apply (Hd x); auto. right; auto.
        -- intros x Hx. change (In x (merge (a :: l1) l2)) in Hx. apply merge_in in Hx.
           destruct Hx as [[Hx|Hx]|Hx]; [subst; auto| specialize (Ha _ Hx); lia | auto].
      * apply Nat.ltb_ge in E.
        assert (a <> b). { intros ->. apply (Hd b); left; auto. }
        apply ssorted_cons.
        -- apply IH1; auto. intros x Hx Hx'. apply (Hd x); auto. right; auto.
        -- intros x Hx. apply merge_in in Hx. destruct Hx as [Hx|[Hx|Hx]]; [auto | subst; lia | specialize (Hb _ Hx); lia].
Qed.

(* ---------- upd / nth_error ---------- *)

Lemma upd_length : forall {A} (l : list A) n g l', upd l n g = Some l' -> length l' = length l.
Proof.
  induction l as [|x t IH]; intros n g l' H; destruct n; cbn [upd] in H; try discriminate.
  - inversion H; reflexivity.
  - destruct (upd t n g) eqn:E; inversion H; subst. cbn [length]. f_equal. eapply IH; eauto.
Qed.

Lemma upd_some : forall {A} (l : list A) n g x, nth_error l n = Some x -> exists l', upd l n g = Some l'.
Proof.
  induction l as [|y t IH]; intros n g x H; destruct n; cbn in H; try discriminate.
  - eexists; reflexivity.
  - destruct (IH _ g _ H) as [l' E]. cbn [upd]. rewrite E. eexists; reflexivity.
Qed.

Lemma upd_nth : forall {A} (l : list A) n g l', upd l n g = Some l' ->
  forall j, nth_error l' j = if j =? n then option_map g (nth_error l n) else nth_error l j.
Proof.
  induction l as [|y t IH]; intros n g l' H j; destruct n; cbn [upd] in H; try discriminate.
  - inversion H; subst. destruct j; reflexivity.
  - destruct (upd t n g) eqn:E; inversion H; subst. destruct j; cbn [nth_error]; auto.
    rewrite (IH _ _ _ E). reflexivity.
Qed.

Lemma upd_id : forall {A} (l : list A) n g x, nth_error l n = Some x -> g x = x -> upd l n g = Some l.
Proof.
  induction l as [|y t IH]; intros n g x H Hg; destruct n; cbn in H; try discriminate.
  - inversion H; subst. cbn [upd]. congruence.
  - cbn [upd]. rewrite (IH _ _ _ H Hg). reflexivity.
Qed.

Lemma upd_app_l : forall {A} (l1 l2 : list A) n g l1', upd l1 n g = Some l1' -> upd (l1 ++ l2) n g = Some (l1' ++ l2).
Proof.
  induction l1 as [|y t IH]; intros l2 n g l1' H; destruct n; cbn [upd] in H; try discriminate.
  - inversion H; subst. reflexivity.
  - destruct (upd t n g) eqn:E; inversion H; subst. cbn [app upd]. rewrite (IH _ _ _ _ E). reflexivity.
Qed.

Lemma upd_app_r : forall {A} (l1 l2 : list A) n g, upd (l1 ++ l2) (length l1 + n) g =
  match upd l2 n g with Some l2' => Some (l1 ++ l2') | None => None end.
Proof.
  induction l1 as [|y t IH]; intros l2 n g; cbn [app length plus].
  - destruct (upd l2 n g); reflexivity.
  - cbn [upd]. rewrite IH. destruct (upd l2 n g); reflexivity.
Qed.

Lemma upd_map : forall {A B} (h : A -> B) (l : list A) n g g',
  (forall x, nth_error l n = Some x -> g' (h x) = h (g x)) ->
  upd (map h l) n g' = option_map (map h) (upd l n g).
Proof.
  induction l as [|y t IH]; intros n g g' H; destruct n; cbn [map upd option_map]; auto.
  - rewrite H; auto.
  - rewrite (IH n g g'); auto. destruct (upd t n g); reflexivity.
Qed.
