(* C20/Spec.v — independent specification of a rule index: an abstract store of
   (id, partial assignment) entries in insertion order, compatibility of a query with an entry,
   and what every operation must return.  Nothing here looks at id lists, cursors or buckets.
   (The types of operations/outputs are shared with Model.v.) *)
From Coq Require Import List Arith Bool Sorted.
From AIT Require Import C20.Model.
Import ListNotations.

Definition entry := (nat * pfactors)%type.
Definition store := list entry.

(* value a partial assignment gives to factor k, if it names k *)
Fixpoint pf_get_go (keys vals : list nat) (k : nat) : option nat :=
  match keys, vals with
  | k' :: ks, v :: vs => if k' =? k then Some v else pf_get_go ks vs k
  | _, _ => None
  end.
Definition pf_get (pf : pfactors) (k : nat) : option nat := pf_get_go (fst pf) (snd pf) k.

(* the (factor, value) pairs a query names *)
Definition pairs (q : pfactors) : list (nat * nat) := combine (fst q) (snd q).

(* q and e are compatible: wherever e names a factor the query names too, the values agree *)
Definition compatible (q e : pfactors) : Prop :=
  forall k v, In (k, v) (pairs q) -> forall w, pf_get e k = Some w -> w = v.

Definition agrees (e : pfactors) (kv : nat * nat) : bool :=
  match pf_get e (fst kv) with Some w => w =? snd kv | None => true end.
Definition compatibleb (q e : pfactors) : bool := forallb (agrees e) (pairs q).

(* ids of the stored entries compatible with q, in store (= id) order *)
Definition filter_spec (st : store) (q : pfactors) : list nat :=
  map fst (List.filter (fun e => compatibleb q (snd e)) st).

(* a Factors query f at offset: factor offset+j has value f[j] *)
Definition query_of_factors (f : list nat) (offset : nat) : pfactors := (seq offset (length f), f).

Definition remove_id (id : nat) (st : store) : store := List.filter (fun e => negb (fst e =? id)) st.

Definition memb (x : nat) (l : list nat) : bool := existsb (Nat.eqb x) l.

(* abstract state: next id, store *)
Definition sstate := (nat * store)%type.

Definition spec_step (s : sstate) (o : op) : sstate * out :=
  let '(c, st) := s in
  match o with
  | OInsert pf => ((S c, st ++ [(c, pf)]), RNat c)
  | OErase id => ((c, remove_id id st), RNone)
  | OErasePf id _ => ((c, remove_id id st), RNone)
  | OFilterF f off => (s, RIds (filter_spec st (query_of_factors f off)))
  | OFilterPf pf => (s, RIds (filter_spec st pf))
  | ORefine ids pf =>
    (s, RIds (match fst pf with
              | [] => ids                                       (* "if nothing to match, match all" *)
              | _ => List.filter (fun id => memb id (filter_spec st pf)) ids
              end))
  | OSize => (s, RNat (length st))
  | OAllIds => (s, RIds (map fst st))
  end.

Fixpoint spec_run (s : sstate) (ops : list op) : sstate * list out :=
  match ops with
  | [] => (s, [])
  | o :: rest =>
    let '(s', r) := spec_step s o in
    let '(s'', rs) := spec_run s' rest in (s'', r :: rs)
  end.

Definition spec_state (ops : list op) : sstate := fst (spec_run (0, []) ops).
Definition spec_store (ops : list op) : store := snd (spec_state ops).
Definition spec_outs (ops : list op) : list out := snd (spec_run (0, []) ops).

(* ---------------- preconditions of the operations (boolean, so that the driver can use them) *)

(* keys strictly increasing from lo, each a factor of F, each value in that factor's range,
   as many values as keys *)
Fixpoint keys_ok (F : list nat) (lo : nat) (keys vals : list nat) : bool :=
  match keys, vals with
  | [], [] => true
  | k :: ks, v :: vs =>
    (lo <=? k) && (match nth_error F k with Some s => v <? s | None => false end) && keys_ok F (S k) ks vs
  | _, _ => false
  end.
Definition pf_okb (F : list nat) (pf : pfactors) : bool := keys_ok F 0 (fst pf) (snd pf).

Fixpoint incr_from (lo : nat) (l : list nat) : bool :=
  match l with [] => true | x :: t => (lo <=? x) && incr_from (S x) t end.
Definition sortedb (l : list nat) : bool := incr_from 0 l.

Definition list_eqb (a b : list nat) : bool :=
  (length a =? length b) && forallb (fun p => fst p =? snd p) (combine a b).
Definition pf_eqb (a b : pfactors) : bool := list_eqb (fst a) (fst b) && list_eqb (snd a) (snd b).

(* erase(id, pf): pf must be the key id was inserted with — or id is not stored (any more) *)
Definition erase_okb (st : store) (id : nat) (pf : pfactors) : bool :=
  forallb (fun e => negb (fst e =? id) || pf_eqb (snd e) pf) st.

Definition op_okb (F : list nat) (s : sstate) (o : op) : bool :=
  match o with
  | OInsert pf => pf_okb F pf
  | OErase _ => true
  | OErasePf id pf => pf_okb F pf && erase_okb (snd s) id pf
  | OFilterF f off => pf_okb F (query_of_factors f off)
  | OFilterPf pf => pf_okb F pf
  | ORefine ids pf => pf_okb F pf && sortedb ids
  | OSize => true
  | OAllIds => true
  end.

Fixpoint hist_okb (F : list nat) (s : sstate) (ops : list op) : bool :=
  match ops with
  | [] => true
  | o :: rest => op_okb F s o && hist_okb F (fst (spec_step s o)) rest
  end.

Definition history_ok (F : list nat) (ops : list op) : Prop :=
  2 <= length F /\ hist_okb F (0, []) ops = true.

(* ---------------- comparing outputs (driver) *)
Definition out_eqb (a b : out) : bool :=
  match a, b with
  | RNone, RNone => true
  | RNat x, RNat y => x =? y
  | RIds x, RIds y => list_eqb x y
  | _, _ => false
  end.

(* ---------------- FasterTrie: same abstract store, fewer operations ---------------- *)

Definition ft_op_okb (F : list nat) (s : sstate) (o : op) : bool :=
  match o with
  | OInsert pf => pf_okb F pf && negb (length (fst pf) =? 0)
  | OErasePf id pf => pf_okb F pf && negb (length (fst pf) =? 0) && erase_okb (snd s) id pf
  | OFilterF f off => (off =? 0) && pf_okb F (query_of_factors f 0)
  | OSize => true
  | _ => false
  end.

Fixpoint ft_hist_okb (F : list nat) (s : sstate) (ops : list op) : bool :=
  match ops with
  | [] => true
  | o :: rest => ft_op_okb F s o && ft_hist_okb F (fst (spec_step s o)) rest
  end.

Definition ft_history_ok (F : list nat) (ops : list op) : Prop := ft_hist_okb F (0, []) ops = true.

(* FasterTrie::reconstruct(pf, remove) returns (entries, factors).  What the property demands:
   every returned entry is stored, compatible with the query and with every other returned entry,
   no id twice; the returned factors carry the query's and the entries' values and the
   "unset" marker F[k] elsewhere. *)
Definition entry_inb (st : store) (e : entry) : bool :=
  existsb (fun e' => (fst e' =? fst e) && pf_eqb (snd e') (snd e)) st.

Fixpoint pairwiseb {A} (r : A -> A -> bool) (l : list A) : bool :=
  match l with [] => true | x :: t => forallb (r x) t && pairwiseb r t end.

(* two partial assignments agree on the factors both name *)
Definition agree2 (a b : pfactors) : bool := compatibleb a b.

Definition expected_factors (F : list nat) (q : pfactors) (entries : list entry) : list nat :=
  map (fun k =>
         match pf_get q k with
         | Some v => v
         | None =>
           match List.filter (fun e => match pf_get (snd e) k with Some _ => true | None => false end) entries with
           | e :: _ => match pf_get (snd e) k with Some v => v | None => nth k F 0 end
           | [] => nth k F 0
           end
         end) (seq 0 (length F)).

Definition reconstruct_okb (F : list nat) (st : store) (q : pfactors) (entries : list entry) (f : list nat) : bool :=
  forallb (entry_inb st) entries &&
  forallb (fun e => compatibleb q (snd e)) entries &&
  pairwiseb (fun a b => agree2 (snd a) (snd b) && negb (fst a =? fst b)) entries &&
  list_eqb f (expected_factors F q entries).

(* ---------------- FilterMap: abstract store of (key, item) pairs in emplace order -------------
   a query returns exactly the items whose key is compatible with it, in emplace order *)
Definition fm_spec {A} (entries : list (pfactors * A)) (q : pfactors) : list A :=
  map snd (List.filter (fun e => compatibleb q (fst e)) entries).

(* ---------------- what FasterTrie::reconstruct must deliver (as a Prop) ------------------------
   [agree a b]: a and b give the same value to every factor both name.  The returned entries are
   stored, agree with the query and with each other; the returned factors carry the query's and the
   entries' values. *)
Definition agree (a b : pfactors) : Prop :=
  forall k v w, pf_get a k = Some v -> pf_get b k = Some w -> v = w.

Definition reconstruct_spec (st : store) (q : pfactors) (entries : list entry) (f : list nat) : Prop :=
  (forall e, In e entries -> In e st /\ agree q (snd e)) /\
  (forall e1 e2, In e1 entries -> In e2 entries -> agree (snd e1) (snd e2)) /\
  (forall k v, pf_get q k = Some v -> nth_error f k = Some v) /\
  (forall e k v, In e entries -> pf_get (snd e) k = Some v -> nth_error f k = Some v).
