(* C20/ProofsTrie.v — the Trie's id vectors are a function of the abstract store ([repr]); every
   operation of the (repaired) model preserves that and returns what the spec says. *)
From Coq Require Import List Arith Bool Sorted Lia.
From AIT Require Import C20.Model C20.Spec C20.ProofsLists C20.ProofsApply.
Import ListNotations.

(* ---------- small list facts ---------- *)

Lemma list_ext_nth : forall {A} (l1 l2 : list A), (forall j, nth_error l1 j = nth_error l2 j) -> l1 = l2.
Proof.
  induction l1 as [|a l1 IH]; intros l2 H; destruct l2 as [|b l2]; auto.
  - specialize (H 0). discriminate.
  - specialize (H 0). discriminate.
  - pose proof (H 0) as H0. cbn in H0. inversion H0; subst. f_equal. apply IH. intros j. apply (H (S j)).
Qed.

Lemma nth_error_seq : forall s a j, j < s -> nth_error (seq a s) j = Some (a + j).
Proof.
  induction s as [|s IH]; intros a j H; [lia|]. destruct j; cbn [seq nth_error]; [f_equal; lia|].
  rewrite IH by lia. f_equal. lia.
Qed.

Lemma skipn_cons : forall {A} i (F : list A) s F', skipn i F = s :: F' -> nth_error F i = Some s /\ skipn (S i) F = F'.
Proof.
  induction i as [|i IH]; intros F s F' H.
  - cbn in H. subst F. auto.
  - destruct F as [|x F]; [discriminate|]. cbn [skipn] in H. apply IH in H. cbn [nth_error]. exact H.
Qed.

Lemma nth_skipn_cons : forall {A} i (l : list A) x, nth_error l i = Some x -> skipn i l = x :: skipn (S i) l.
Proof.
  induction i as [|i IH]; intros l x H; destruct l as [|y l]; cbn in H; try discriminate.
  - inversion H; reflexivity.
  - cbn [skipn]. rewrite (IH _ _ H). reflexivity.
Qed.

Lemma skipn_nil_length : forall {A} i (F : list A), skipn i F = [] -> length F <= i.
Proof.
  induction i as [|i IH]; intros F H.
  - cbn in H. subst. auto.
  - destruct F; cbn [length]; [lia|]. cbn [skipn] in H. apply IH in H. lia.
Qed.

(* ---------- the representation function ---------- *)

Definition opt_eqb (a b : option nat) : bool :=
  match a, b with Some x, Some y => x =? y | None, None => true | _, _ => false end.

Lemma opt_eqb_eq : forall a b, opt_eqb a b = true <-> a = b.
Proof.
  intros [x|] [y|]; cbn; split; intros H; try discriminate; auto.
  - apply Nat.eqb_eq in H. congruence.
  - inversion H. apply Nat.eqb_refl.
Qed.

Lemma opt_eqb_neq : forall a b, opt_eqb a b = false <-> a <> b.
Proof.
  intros a b. split.
  - intros H E. apply opt_eqb_eq in E. congruence.
  - intros H. destruct (opt_eqb a b) eqn:E; auto. apply opt_eqb_eq in E. contradiction.
Qed.

(* ids (in store order) of the entries that give factor i the value ov (None = do not name i) *)
Definition slot (st : store) (i : nat) (ov : option nat) : list nat :=
  map fst (List.filter (fun e => opt_eqb (pf_get (snd e) i) ov) st).

Definition row_keys (s : nat) : list (option nat) := map Some (seq 0 s) ++ [None].
Definition repr_row (st : store) (i s : nat) : list (list nat) := map (slot st i) (row_keys s).
Fixpoint repr_from (i : nat) (F : list nat) (st : store) : list (list (list nat)) :=
  match F with [] => [] | s :: F' => repr_row st i s :: repr_from (S i) F' st end.
Definition repr (F : list nat) (st : store) := repr_from 0 F st.

Definition store_ok (F : list nat) (c : nat) (st : store) : Prop :=
  ssorted (map fst st) /\ Forall (fun e => fst e < c /\ pf_okb F (snd e) = true) st.

Definition Inv (t : trie) (s : sstate) : Prop :=
  tcounter t = fst s /\ tids t = repr (tF t) (snd s) /\ store_ok (tF t) (fst s) (snd s).

Lemma row_keys_nth : forall s j,
  nth_error (row_keys s) j = if j <? s then Some (Some j) else if j =? s then Some None else None.
Proof.
  intros s j. unfold row_keys. destruct (j <? s) eqn:E.
  - apply Nat.ltb_lt in E. rewrite nth_error_app1 by (rewrite map_length, seq_length; auto).
    rewrite nth_error_map, nth_error_seq by auto. reflexivity.
  - apply Nat.ltb_ge in E. rewrite nth_error_app2 by (rewrite map_length, seq_length; auto).
    rewrite map_length, seq_length. destruct (j =? s) eqn:E'.
    + apply Nat.eqb_eq in E'. subst. rewrite Nat.sub_diag. reflexivity.
    + apply Nat.eqb_neq in E'. destruct (j - s) as [|d] eqn:Ed; [lia|]. cbn. destruct d; reflexivity.
Qed.

Lemma row_keys_length : forall s, length (row_keys s) = S s.
Proof. intros. unfold row_keys. rewrite app_length, map_length, seq_length. cbn. lia. Qed.

Lemma row_keys_inj : forall s j j' ov, nth_error (row_keys s) j = Some ov -> nth_error (row_keys s) j' = Some ov -> j = j'.
Proof.
  intros s j j' ov. rewrite !row_keys_nth.
  destruct (j <? s) eqn:E1; destruct (j' <? s) eqn:E2; destruct (j =? s) eqn:E3; destruct (j' =? s) eqn:E4;
    intros H1 H2; try discriminate; try congruence;
    repeat match goal with H : (_ =? _) = true |- _ => apply Nat.eqb_eq in H end; try lia.
Qed.

Lemma row_keys_NoDup : forall s, NoDup (row_keys s).
Proof.
  intros s. apply NoDup_nth_error. intros i j Hi H.
  destruct (nth_error (row_keys s) i) as [ov|] eqn:E; [|apply nth_error_None in E; lia].
  eapply row_keys_inj; eauto.
Qed.

Lemma row_keys_in : forall s ov, In ov (row_keys s) <-> match ov with Some v => v < s | None => True end.
Proof.
  intros s ov. unfold row_keys. rewrite in_app_iff, in_map_iff. cbn [In]. destruct ov as [v|].
  - split.
    + intros [[x [E H]]|[H|[]]]; [|discriminate]. inversion E; subst. apply in_seq in H. lia.
    + intros H. left. exists v. split; auto. apply in_seq. lia.
  - tauto.
Qed.

Lemma repr_from_nth : forall F i st k, nth_error (repr_from i F st) k = option_map (repr_row st (i + k)) (nth_error F k).
Proof.
  induction F as [|s F IH]; intros i st k; destruct k; cbn [repr_from nth_error option_map]; auto.
  - rewrite Nat.add_0_r. reflexivity.
  - rewrite IH. replace (S i + k) with (i + S k) by lia. reflexivity.
Qed.

Lemma repr_row_nth : forall st i s j, nth_error (repr_row st i s) j = option_map (slot st i) (nth_error (row_keys s) j).
Proof. intros. unfold repr_row. apply nth_error_map. Qed.

Lemma repr_row_length : forall st i s, length (repr_row st i s) = S s.
Proof. intros. unfold repr_row. rewrite map_length. apply row_keys_length. Qed.

Lemma repr_row_last : forall st i s, last (repr_row st i s) [] = slot st i None.
Proof. intros. unfold repr_row, row_keys. rewrite map_app. cbn [map]. apply last_last. Qed.

(* ---------- slots ---------- *)

Lemma slot_in : forall st i ov x, In x (slot st i ov) <-> exists e, In e st /\ fst e = x /\ pf_get (snd e) i = ov.
Proof.
  intros. unfold slot. rewrite in_map_iff. split.
  - intros [e [E H]]. apply filter_In in H. destruct H as [H1 H2]. apply opt_eqb_eq in H2. eauto.
  - intros [e [H1 [H2 H3]]]. exists e. split; auto. apply filter_In. split; auto. apply opt_eqb_eq. auto.
Qed.

Lemma slot_sorted : forall st i ov, ssorted (map fst st) -> ssorted (slot st i ov).
Proof. intros. unfold slot. apply ssorted_map_filter. auto. Qed.

Lemma slot_app : forall st e i ov,
  slot (st ++ [e]) i ov = slot st i ov ++ (if opt_eqb (pf_get (snd e) i) ov then [fst e] else []).
Proof.
  intros. unfold slot. rewrite filter_app, map_app. cbn [List.filter].
  destruct (opt_eqb (pf_get (snd e) i) ov); reflexivity.
Qed.

Lemma slot_rm : forall st id i ov, slot (remove_id id st) i ov = rm id (slot st i ov).
Proof.
  intros. unfold slot, remove_id, rm. induction st as [|e st IH]; cbn [List.filter map]; auto.
  destruct (fst e =? id) eqn:E1; cbn [negb]; destruct (opt_eqb (pf_get (snd e) i) ov) eqn:E2; cbn [List.filter map];
    rewrite ?E1, ?E2; cbn [negb map]; rewrite IH; reflexivity.
Qed.

Lemma store_uniq : forall (st : store) e1 e2, ssorted (map fst st) -> In e1 st -> In e2 st -> fst e1 = fst e2 -> e1 = e2.
Proof.
  induction st as [|e st IH]; intros e1 e2 Hs H1 H2 E; [destruct H1|].
  cbn [map] in Hs. apply ssorted_cons_inv in Hs. destruct Hs as [Hs He].
  destruct H1 as [H1|H1]; destruct H2 as [H2|H2]; subst; auto.
  - assert (fst e1 < fst e2) by (apply He; apply in_map; auto). lia.
  - assert (fst e2 < fst e1) by (apply He; apply in_map; auto). lia.
Qed.

Lemma slot_disjoint : forall st i ov1 ov2 x, ssorted (map fst st) ->
  In x (slot st i ov1) -> In x (slot st i ov2) -> ov1 = ov2.
Proof.
  intros st i ov1 ov2 x Hs H1 H2. apply slot_in in H1. apply slot_in in H2.
  destruct H1 as [e1 [A1 [B1 C1]]]. destruct H2 as [e2 [A2 [B2 C2]]].
  assert (e1 = e2) by (eapply store_uniq; eauto; congruence). subst. congruence.
Qed.

(* updating one slot of a row *)
Lemma row_upd : forall st st' i s n0 ov0 (g : list nat -> list nat),
  nth_error (row_keys s) n0 = Some ov0 ->
  g (slot st i ov0) = slot st' i ov0 ->
  (forall ov, ov <> ov0 -> In ov (row_keys s) -> slot st' i ov = slot st i ov) ->
  upd (repr_row st i s) n0 g = Some (repr_row st' i s).
Proof.
  intros st st' i s n0 ov0 g Hn Hg Hother.
  assert (Hn' : nth_error (repr_row st i s) n0 = Some (slot st i ov0)) by (rewrite repr_row_nth, Hn; reflexivity).
  destruct (upd_some _ n0 g _ Hn') as [row' Eu]. rewrite Eu. f_equal.
  apply list_ext_nth. intros j. rewrite (upd_nth _ _ _ _ Eu). rewrite !repr_row_nth.
  destruct (j =? n0) eqn:E.
  - apply Nat.eqb_eq in E. subst. rewrite Hn. cbn [option_map]. congruence.
  - apply Nat.eqb_neq in E. destruct (nth_error (row_keys s) j) as [ov|] eqn:Ej; cbn [option_map]; auto.
    f_equal. symmetry. apply Hother.
    + intros ->. apply E. eapply row_keys_inj; eauto.
    + eapply nth_error_In; eauto.
Qed.

Lemma row_upd_back : forall st st' i s (g : list nat -> list nat),
  g (slot st i None) = slot st' i None ->
  (forall ov, ov <> None -> In ov (row_keys s) -> slot st' i ov = slot st i ov) ->
  upd_back (repr_row st i s) g = Some (repr_row st' i s).
Proof.
  intros. unfold upd_back. destruct (repr_row st i s) eqn:E.
  - pose proof (repr_row_length st i s) as Hl. rewrite E in Hl. discriminate.
  - rewrite <- E. rewrite repr_row_length. replace (S s - 1) with s by lia.
    apply row_upd with (ov0 := None); auto. rewrite row_keys_nth, Nat.ltb_irrefl, Nat.eqb_refl. reflexivity.
Qed.

(* ---------- partial factors ---------- *)

Lemma keys_ok_lo : forall F lo lo' k ks v vs, keys_ok F lo (k :: ks) (v :: vs) = true -> lo' <= k ->
  keys_ok F lo' (k :: ks) (v :: vs) = true.
Proof.
  intros F lo lo' k ks v vs H Hle. cbn [keys_ok] in *. rewrite !andb_true_iff in *.
  destruct H as [[_ H2] H3]. repeat split; auto. apply Nat.leb_le. auto.
Qed.

Lemma pf_get_go_none : forall F keys vals lo j, keys_ok F lo keys vals = true -> j < lo -> pf_get_go keys vals j = None.
Proof.
  induction keys as [|k ks IH]; intros vals lo j H Hj; cbn [pf_get_go]; auto.
  destruct vals as [|v vs]; auto. cbn [keys_ok] in H. rewrite !andb_true_iff in H. destruct H as [[H1 _] H3].
  apply Nat.leb_le in H1. destruct (k =? j) eqn:E; [apply Nat.eqb_eq in E; lia|]. eapply IH; eauto. lia.
Qed.

Lemma pf_get_range : forall F keys vals lo j v, keys_ok F lo keys vals = true -> pf_get_go keys vals j = Some v ->
  exists s, nth_error F j = Some s /\ v < s.
Proof.
  induction keys as [|k ks IH]; intros vals lo j v H Hg; cbn [pf_get_go] in Hg; [discriminate|].
  destruct vals as [|w vs]; [discriminate|]. cbn [keys_ok] in H. rewrite !andb_true_iff in H. destruct H as [[_ H2] H3].
  destruct (k =? j) eqn:E.
  - apply Nat.eqb_eq in E. subst. inversion Hg; subst. destruct (nth_error F j) as [s|]; [|discriminate].
    exists s. split; auto. apply Nat.ltb_lt. auto.
  - eapply IH; eauto.
Qed.

Lemma keys_ok_length : forall F keys vals lo, keys_ok F lo keys vals = true -> length keys = length vals.
Proof.
  induction keys as [|k ks IH]; intros vals lo H; destruct vals as [|v vs]; cbn [keys_ok] in H; try discriminate; auto.
  rewrite !andb_true_iff in H. destruct H as [_ H]. cbn [length]. f_equal. eapply IH; eauto.
Qed.

Lemma keys_ok_pairs : forall F keys vals lo k v, keys_ok F lo keys vals = true -> In (k, v) (combine keys vals) ->
  exists s, nth_error F k = Some s /\ v < s.
Proof.
  induction keys as [|k0 ks IH]; intros vals lo k v H Hin; [destruct Hin|].
  destruct vals as [|w vs]; [destruct Hin|]. cbn [keys_ok] in H. rewrite !andb_true_iff in H. destruct H as [[_ H2] H3].
  destruct Hin as [Hin|Hin].
  - inversion Hin; subst. destruct (nth_error F k) as [s|]; [|discriminate]. exists s. split; auto. apply Nat.ltb_lt; auto.
  - eapply IH; eauto.
Qed.

Lemma list_eqb_eq : forall a b, list_eqb a b = true -> a = b.
Proof.
  unfold list_eqb. induction a as [|x a IH]; intros b H; destruct b as [|y b]; cbn in H; try discriminate; auto.
  rewrite !andb_true_iff in H. destruct H as [H1 [H2 H3]]. apply Nat.eqb_eq in H2. subst. f_equal.
  apply IH. rewrite andb_true_iff. auto.
Qed.

Lemma pf_eqb_eq : forall a b, pf_eqb a b = true -> a = b.
Proof.
  intros [a1 a2] [b1 b2] H. unfold pf_eqb in H. cbn [fst snd] in H. apply andb_true_iff in H. destruct H as [H1 H2].
  apply list_eqb_eq in H1. apply list_eqb_eq in H2. congruence.
Qed.

(* ---------- insert ---------- *)

Lemma insert_go_repr : forall F' F i keys vals st c pf,
  skipn i F = F' -> keys_ok F i keys vals = true ->
  (forall j, i <= j -> pf_get pf j = pf_get_go keys vals j) ->
  insert_go (repr_from i F' st) i keys vals c = Ok (repr_from i F' (st ++ [(c, pf)])).
Proof.
  induction F' as [|s F' IH]; intros F i keys vals st c pf Hsk Hok Hget.
  - destruct keys as [|k ks]; cbn [insert_go repr_from]; auto.
    exfalso. destruct vals as [|v vs]; [discriminate|]. cbn [keys_ok] in Hok. rewrite !andb_true_iff in Hok.
    destruct Hok as [[H1 H2] _]. apply Nat.leb_le in H1. apply skipn_nil_length in Hsk.
    destruct (nth_error F k) eqn:E; [|discriminate]. assert (k < length F) by (apply nth_error_Some; congruence). lia.
  - destruct (skipn_cons _ _ _ _ Hsk) as [Hnth Hsk'].
    assert (Hback : pf_get pf i = None ->
                    upd_back (repr_row st i s) (fun l => l ++ [c]) = Some (repr_row (st ++ [(c, pf)]) i s)).
    { intros Hnone. apply row_upd_back.
      - rewrite slot_app. cbn [fst snd]. rewrite Hnone. reflexivity.
      - intros ov Hov _. rewrite slot_app. cbn [fst snd]. rewrite Hnone.
        destruct ov; [rewrite app_nil_r; reflexivity|congruence]. }
    destruct keys as [|k ks].
    + cbn [insert_go repr_from]. rewrite Hback by (rewrite Hget by lia; reflexivity).
      destruct vals; [|discriminate].
      rewrite (IH F (S i) [] [] st c pf); auto. intros j Hj. rewrite Hget by lia. reflexivity.
    + destruct vals as [|v vs]; [discriminate|].
      cbn [insert_go repr_from]. destruct (i <? k) eqn:E.
      * apply Nat.ltb_lt in E.
        rewrite Hback by (rewrite Hget by lia; apply (pf_get_go_none F _ _ (S i)); [eapply keys_ok_lo; eauto|lia]).
        rewrite (IH F (S i) (k :: ks) (v :: vs) st c pf); auto.
        -- eapply keys_ok_lo; eauto.
        -- intros j Hj. apply Hget. lia.
      * apply Nat.ltb_ge in E. pose proof Hok as Hok'. cbn [keys_ok] in Hok'. rewrite !andb_true_iff in Hok'.
        destruct Hok' as [[H1 H2] H3]. apply Nat.leb_le in H1. assert (k = i) by lia. subst k.
        rewrite Hnth in H2. apply Nat.ltb_lt in H2.
        assert (Hgi : pf_get pf i = Some v) by (rewrite Hget by lia; cbn [pf_get_go]; rewrite Nat.eqb_refl; reflexivity).
        rewrite (row_upd st (st ++ [(c, pf)]) i s v (Some v)).
        -- rewrite (IH F (S i) ks vs st c pf); auto.
           intros j Hj. rewrite Hget by lia. cbn [pf_get_go]. destruct (i =? j) eqn:E'; auto. apply Nat.eqb_eq in E'. lia.
        -- rewrite row_keys_nth. apply Nat.ltb_lt in H2. rewrite H2. reflexivity.
        -- rewrite slot_app. cbn [fst snd]. rewrite Hgi. cbn [opt_eqb]. rewrite Nat.eqb_refl. reflexivity.
        -- intros ov Hov _. rewrite slot_app. cbn [fst snd]. rewrite Hgi.
           destruct (opt_eqb (Some v) ov) eqn:E'; [apply opt_eqb_eq in E'; congruence|]. apply app_nil_r.
Qed.

Lemma store_ok_insert : forall F c st pf, store_ok F c st -> pf_okb F pf = true -> store_ok F (S c) (st ++ [(c, pf)]).
Proof.
  intros F c st pf [Hs Hf] Hpf. split.
  - rewrite map_app. cbn [map fst]. apply ssorted_app; auto.
    + apply ssorted_cons; [constructor|]. intros x [].
    + intros x y Hx [<-|[]]. apply in_map_iff in Hx. destruct Hx as [e [<- He]].
      rewrite Forall_forall in Hf. apply Hf in He. tauto.
  - apply Forall_app. split.
    + eapply Forall_impl; [|exact Hf]. cbn. intros e [H1 H2]. split; auto.
    + constructor; [|constructor]. cbn [fst snd]. split; auto.
Qed.

Lemma trie_insert_sim : forall t c st pf, Inv t (c, st) -> pf_okb (tF t) pf = true ->
  exists t', trie_insert t pf = Ok (t', c) /\ tF t' = tF t /\ Inv t' (S c, st ++ [(c, pf)]).
Proof.
  intros t c st pf (Hc & Hids & Hok) Hpf. cbn [fst snd] in *.
  unfold trie_insert. rewrite Hids, Hc. unfold repr.
  rewrite (insert_go_repr (tF t) (tF t) 0 (fst pf) (snd pf) st c pf); auto.
  cbn [bind]. eexists. split; [reflexivity|]. cbn [tF]. split; auto.
  unfold Inv. cbn [tcounter tids tF fst snd]. split; [reflexivity|]. split; [reflexivity|]. apply store_ok_insert; auto.
Qed.

(* ---------- erase ---------- *)

Lemma store_ok_remove : forall F c st id, store_ok F c st -> store_ok F c (remove_id id st).
Proof.
  intros F c st id [Hs Hf]. split.
  - unfold remove_id. apply ssorted_map_filter. auto.
  - apply Forall_forall. intros e He. apply filter_In in He. rewrite Forall_forall in Hf. apply Hf. tauto.
Qed.

Lemma slot_rm_notin : forall st id i ov, ~ In id (slot st i ov) -> slot (remove_id id st) i ov = slot st i ov.
Proof. intros. rewrite slot_rm. apply rm_notin. auto. Qed.

Lemma erase_first_slots : forall st id i ovs, ssorted (map fst st) -> NoDup ovs ->
  erase_first id (map (slot st i) ovs) = map (slot (remove_id id st) i) ovs.
Proof.
  intros st id i ovs Hs. induction ovs as [|ov ovs IH]; intros Hnd; cbn [map erase_first]; auto.
  inversion Hnd as [|? ? Hnotin Hnd']; subst.
  pose proof (erase_lb_spec id (slot st i ov) (slot_sorted st i ov Hs)) as He.
  destruct (erase_lb id (slot st i ov)) as [s'|].
  - destruct He as [-> Hin]. rewrite slot_rm. f_equal.
    apply map_ext_in. intros ov' Hov'. symmetry. apply slot_rm_notin. intros Hin'.
    assert (ov = ov') by (eapply slot_disjoint; eauto). subst. contradiction.
  - rewrite slot_rm_notin by auto. f_equal. apply IH. auto.
Qed.

Lemma erase_row_repr : forall st id i s, ssorted (map fst st) ->
  erase_row id (repr_row st i s) = repr_row (remove_id id st) i s.
Proof.
  intros. unfold erase_row, repr_row. rewrite <- map_rev. rewrite erase_first_slots; auto.
  - rewrite map_rev, rev_involutive. reflexivity.
  - apply NoDup_rev. apply row_keys_NoDup.
Qed.

Lemma erase_repr : forall F i st id, ssorted (map fst st) ->
  map (erase_row id) (repr_from i F st) = repr_from i F (remove_id id st).
Proof.
  induction F as [|s F IH]; intros i st id Hs; cbn [repr_from map]; auto.
  rewrite erase_row_repr by auto. rewrite IH by auto. reflexivity.
Qed.

Lemma trie_erase_sim : forall t c st id, Inv t (c, st) -> tF (trie_erase t id) = tF t /\ Inv (trie_erase t id) (c, remove_id id st).
Proof.
  intros t c st id (Hc & Hids & Hok). cbn [fst snd] in *. split; [reflexivity|].
  unfold Inv, trie_erase. cbn [tcounter tids tF fst snd]. split; [auto|]. split.
  - rewrite Hids. unfold repr. apply erase_repr. apply Hok.
  - apply store_ok_remove; auto.
Qed.

(* erase(id, pf) *)
Lemma erase_okb_spec : forall st id pf e, erase_okb st id pf = true -> In e st -> fst e = id -> snd e = pf.
Proof.
  intros st id pf e H He Hid. unfold erase_okb in H. rewrite forallb_forall in H. specialize (H e He).
  rewrite Hid, Nat.eqb_refl in H. cbn in H. apply pf_eqb_eq. auto.
Qed.

Lemma erasepf_row : forall st id pf i s n0 (g : list nat -> list nat),
  ssorted (map fst st) -> erase_okb st id pf = true ->
  nth_error (row_keys s) n0 = Some (pf_get pf i) ->
  g (slot st i (pf_get pf i)) = erase_checked id (slot st i (pf_get pf i)) ->
  upd (repr_row st i s) n0 g = Some (repr_row (remove_id id st) i s).
Proof.
  intros st id pf i s n0 g Hs Hok Hn Hg. apply row_upd with (ov0 := pf_get pf i); auto.
  - rewrite Hg. rewrite erase_checked_rm by (apply slot_sorted; auto). symmetry. apply slot_rm.
  - intros ov Hov _. apply slot_rm_notin. intros Hin. apply slot_in in Hin. destruct Hin as [e [He [Hid Hg']]].
    apply Hov. rewrite <- Hg'. f_equal. eapply erase_okb_spec; eauto.
Qed.

Lemma erasepf_go_repr : forall F' F i keys vals st id pf,
  skipn i F = F' -> keys_ok F i keys vals = true ->
  (forall j, i <= j -> pf_get pf j = pf_get_go keys vals j) ->
  ssorted (map fst st) -> erase_okb st id pf = true ->
  erasepf_go true (repr_from i F' st) i keys vals id = Ok (repr_from i F' (remove_id id st)).
Proof.
  induction F' as [|s F' IH]; intros F i keys vals st id pf Hsk Hok Hget Hs Heok.
  - destruct keys as [|k ks]; cbn [erasepf_go repr_from]; auto.
    exfalso. destruct vals as [|v vs]; [discriminate|]. cbn [keys_ok] in Hok. rewrite !andb_true_iff in Hok.
    destruct Hok as [[H1 H2] _]. apply Nat.leb_le in H1. apply skipn_nil_length in Hsk.
    destruct (nth_error F k) eqn:E; [|discriminate]. assert (k < length F) by (apply nth_error_Some; congruence). lia.
  - destruct (skipn_cons _ _ _ _ Hsk) as [Hnth Hsk'].
    assert (Hback : pf_get pf i = None ->
       upd_back_res (repr_row st i s) (fun l => Ok (erase_checked id l)) = Ok (repr_row (remove_id id st) i s)).
    { intros Hnone. unfold upd_back_res. destruct (repr_row st i s) eqn:E.
      - pose proof (repr_row_length st i s) as Hl. rewrite E in Hl. discriminate.
      - rewrite <- E. cbn [bind]. unfold upd_back. rewrite E. rewrite <- E. rewrite repr_row_length.
        replace (S s - 1) with s by lia.
        rewrite (erasepf_row st id pf i s s); auto.
        + rewrite Hnone. rewrite row_keys_nth, Nat.ltb_irrefl, Nat.eqb_refl. reflexivity.
        + rewrite repr_row_last. rewrite Hnone. reflexivity. }
    destruct keys as [|k ks].
    + cbn [erasepf_go repr_from]. rewrite Hback by (rewrite Hget by lia; reflexivity). cbn [bind].
      destruct vals; [|discriminate].
      rewrite (IH F (S i) [] [] st id pf); auto. intros j Hj. rewrite Hget by lia. reflexivity.
    + destruct vals as [|v vs]; [discriminate|].
      cbn [erasepf_go repr_from]. destruct (i <? k) eqn:E.
      * apply Nat.ltb_lt in E.
        rewrite Hback by (rewrite Hget by lia; apply (pf_get_go_none F _ _ (S i)); [eapply keys_ok_lo; eauto|lia]). cbn [bind].
        rewrite (IH F (S i) (k :: ks) (v :: vs) st id pf); auto.
        -- eapply keys_ok_lo; eauto.
        -- intros j Hj. apply Hget. lia.
      * apply Nat.ltb_ge in E. pose proof Hok as Hok'. cbn [keys_ok] in Hok'. rewrite !andb_true_iff in Hok'.
        destruct Hok' as [[H1 H2] H3]. apply Nat.leb_le in H1. assert (k = i) by lia. subst k.
        rewrite Hnth in H2. apply Nat.ltb_lt in H2.
        assert (Hgi : pf_get pf i = Some v) by (rewrite Hget by lia; cbn [pf_get_go]; rewrite Nat.eqb_refl; reflexivity).
        rewrite (erasepf_row st id pf i s v); auto.
        -- rewrite (IH F (S i) ks vs st id pf); auto.
           intros j Hj. rewrite Hget by lia. cbn [pf_get_go]. destruct (i =? j) eqn:E'; auto. apply Nat.eqb_eq in E'. lia.
        -- rewrite Hgi. rewrite row_keys_nth. apply Nat.ltb_lt in H2. rewrite H2. reflexivity.
Qed.

Lemma trie_erasePf_sim : forall t c st id pf, Inv t (c, st) -> pf_okb (tF t) pf = true -> erase_okb st id pf = true ->
  exists t', trie_erasePf true t id pf = Ok t' /\ tF t' = tF t /\ Inv t' (c, remove_id id st).
Proof.
  intros t c st id pf (Hc & Hids & Hok) Hpf Heok. cbn [fst snd] in *.
  unfold trie_erasePf. rewrite Hids. unfold repr.
  rewrite (erasepf_go_repr (tF t) (tF t) 0 (fst pf) (snd pf) st id pf); auto; [|apply Hok].
  cbn [bind]. eexists. split; [reflexivity|]. cbn [tF]. split; auto.
  unfold Inv. cbn [tcounter tids tF fst snd]. split; [auto|]. split; [reflexivity|]. apply store_ok_remove; auto.
Qed.
