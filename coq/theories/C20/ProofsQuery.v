(* C20/ProofsQuery.v — size, getAllIds, filter ×2 and refine of the (repaired) Trie model return
   what the spec says; the step/run simulation over histories. *)
From Coq Require Import List Arith Bool Sorted Lia.
From AIT Require Import C20.Model C20.Spec C20.ProofsLists C20.ProofsApply C20.ProofsTrie.
Import ListNotations.

(* ---------- min_element ---------- *)

Lemma min_index_go_lt : forall l i best besti, besti < i -> min_index_go l i best besti < i + length l.
Proof.
  induction l as [|x t IH]; intros i best besti H; cbn [min_index_go length]; [lia|].
  destruct (x <? best).
  - specialize (IH (S i) x i). lia.
  - specialize (IH (S i) best besti). lia.
Qed.

Lemma min_index_lt : forall F, F <> [] -> min_index F < length F.
Proof.
  intros [|x t] H; [congruence|]. cbn [min_index length]. pose proof (min_index_go_lt t 1 x 0). lia.
Qed.

(* ---------- size ---------- *)

Definition sumlen (row : list (list nat)) : nat := fold_right (fun l a => length l + a) 0 row.

Lemma size_loop_spec : forall n row i acc, i + n = length row ->
  size_loop row i n acc = Ok (acc + sumlen (skipn i row)).
Proof.
  induction n as [|n IH]; intros row i acc H; cbn [size_loop].
  - rewrite skipn_all2 by lia. cbn. f_equal. lia.
  - destruct (nth_error row i) as [l|] eqn:E; [|apply nth_error_None in E; lia].
    rewrite IH by lia. rewrite (nth_skipn_cons i row l E). cbn [sumlen fold_right]. f_equal. fold (sumlen (skipn (S i) row)). lia.
Qed.

Lemma slot_cons : forall e st i ov,
  slot (e :: st) i ov = (if opt_eqb (pf_get (snd e) i) ov then [fst e] else []) ++ slot st i ov.
Proof. intros. unfold slot. cbn [List.filter]. destruct (opt_eqb (pf_get (snd e) i) ov); reflexivity. Qed.

Lemma sumlen_slots_cons : forall e st i ovs,
  sumlen (map (slot (e :: st) i) ovs) =
  length (List.filter (opt_eqb (pf_get (snd e) i)) ovs) + sumlen (map (slot st i) ovs).
Proof.
  intros e st i. induction ovs as [|ov ovs IH]; cbn [map sumlen fold_right List.filter length]; auto.
  fold (sumlen (map (slot (e :: st) i) ovs)). fold (sumlen (map (slot st i) ovs)). rewrite IH. rewrite slot_cons.
  destruct (opt_eqb (pf_get (snd e) i) ov); cbn [app length]; lia.
Qed.

Lemma count_one : forall ovs o, NoDup ovs -> In o ovs -> length (List.filter (opt_eqb o) ovs) = 1.
Proof.
  induction ovs as [|ov ovs IH]; intros o Hnd Hin; [destruct Hin|].
  inversion Hnd as [|? ? Hnotin Hnd']; subst. cbn [List.filter].
  destruct (opt_eqb o ov) eqn:E.
  - apply opt_eqb_eq in E. subst ov. cbn [length]. f_equal.
    assert (List.filter (opt_eqb o) ovs = []) as ->; auto.
    clear - Hnotin. induction ovs as [|x t IH]; cbn [List.filter]; auto.
    destruct (opt_eqb o x) eqn:E; [apply opt_eqb_eq in E; subst; exfalso; apply Hnotin; left; auto|].
    apply IH. intros H. apply Hnotin. right; auto.
  - apply opt_eqb_neq in E. destruct Hin as [Hin|Hin]; [congruence|]. apply IH; auto.
Qed.

Lemma entry_in_row : forall F c st e i s, store_ok F c st -> In e st -> nth_error F i = Some s ->
  In (pf_get (snd e) i) (row_keys s).
Proof.
  intros F c st e i s [_ Hf] He Hn. rewrite Forall_forall in Hf. destruct (Hf e He) as [_ Hpf].
  apply row_keys_in. destruct (pf_get (snd e) i) as [v|] eqn:E; auto.
  unfold pf_get in E. unfold pf_okb in Hpf. destruct (pf_get_range _ _ _ _ _ _ Hpf E) as [s' [Hs' Hv]]. congruence.
Qed.

Lemma sumlen_row : forall F c st i s, store_ok F c st -> nth_error F i = Some s ->
  sumlen (repr_row st i s) = length st.
Proof.
  intros F c st i s Hok Hn. unfold repr_row.
  assert (Hall : forall e, In e st -> In (pf_get (snd e) i) (row_keys s)) by (intros; eapply entry_in_row; eauto).
  clear Hok. induction st as [|e st IH].
  - cbn [length]. clear Hall. induction (row_keys s) as [|ov ovs IHo]; cbn; auto.
  - rewrite sumlen_slots_cons. rewrite count_one; [|apply row_keys_NoDup|apply Hall; left; auto].
    rewrite IH; [reflexivity|]. intros e' He'. apply Hall. right; auto.
Qed.

Lemma row_access : forall t c st, Inv t (c, st) -> 2 <= length (tF t) ->
  exists s toCount l0 row0,
    nth_error (tF t) (min_index (tF t)) = Some s /\
    toCount = repr_row st (min_index (tF t)) s /\
    nth_error (tids t) (min_index (tF t)) = Some toCount /\
    nth_error toCount 0 = Some l0 /\ nth_error (tids t) 0 = Some row0 /\
    toCount = l0 :: skipn 1 toCount.
Proof.
  intros t c st (Hc & Hids & Hok) Hlen. cbn [fst snd] in *.
  assert (Hne : tF t <> []) by (intros E; rewrite E in Hlen; cbn in Hlen; lia).
  pose proof (min_index_lt _ Hne) as Hmi.
  destruct (nth_error (tF t) (min_index (tF t))) as [s|] eqn:Es; [|apply nth_error_None in Es; lia].
  set (toCount := repr_row st (min_index (tF t)) s).
  assert (Hl : length toCount = S s) by apply repr_row_length.
  destruct (nth_error toCount 0) as [l0|] eqn:E0; [|apply nth_error_None in E0; lia].
  destruct (nth_error (tids t) 0) as [row0|] eqn:Er.
  2:{ rewrite Hids in Er. unfold repr in Er. rewrite repr_from_nth in Er. destruct (tF t); [congruence|discriminate]. }
  exists s, toCount, l0, row0. repeat split; auto.
  - rewrite Hids. unfold repr. rewrite repr_from_nth, Es. reflexivity.
  - apply (nth_skipn_cons 0 toCount l0 E0).
Qed.

Lemma trie_size_sim : forall t c st, Inv t (c, st) -> 2 <= length (tF t) -> trie_size true t = Ok (length st).
Proof.
  intros t c st HInv Hlen. destruct (row_access t c st HInv Hlen) as (s & toCount & l0 & row0 & Hs & Htc & Hn & H0 & Hr & Hsplit).
  unfold trie_size. rewrite Hn, H0, Hr.
  assert (Hl : length toCount = S s) by (subst toCount; apply repr_row_length).
  rewrite size_loop_spec by lia.
  destruct HInv as (_ & _ & Hok). cbn [fst snd] in Hok.
  rewrite <- (sumlen_row (tF t) c st (min_index (tF t)) s Hok Hs). rewrite <- Htc.
  rewrite Hsplit at 2. cbn [sumlen fold_right]. reflexivity.
Qed.

(* ---------- getAllIds ---------- *)

Lemma allids_loop_spec : forall n row i acc, i + n = length row ->
  allids_loop row i n acc = Ok (fold_left merge (skipn i row) acc).
Proof.
  induction n as [|n IH]; intros row i acc H; cbn [allids_loop].
  - rewrite skipn_all2 by lia. reflexivity.
  - destruct (nth_error row i) as [l|] eqn:E; [|apply nth_error_None in E; lia].
    rewrite IH by lia. rewrite (nth_skipn_cons i row l E). reflexivity.
Qed.

Lemma fold_merge_slots : forall st i ovs acc, ssorted (map fst st) -> NoDup ovs -> ssorted acc ->
  (forall x ov, In x acc -> In ov ovs -> ~ In x (slot st i ov)) ->
  ssorted (fold_left merge (map (slot st i) ovs) acc) /\
  forall x, In x (fold_left merge (map (slot st i) ovs) acc) <-> In x acc \/ exists ov, In ov ovs /\ In x (slot st i ov).
Proof.
  intros st i ovs. induction ovs as [|ov ovs IH]; intros acc Hs Hnd Hacc Hdis; cbn [map fold_left].
  - split; auto. intros x. split; auto. intros [H|[ov [[] _]]]; auto.
  - inversion Hnd as [|? ? Hnotin Hnd']; subst.
    destruct (IH (merge acc (slot st i ov))) as [H1 H2]; auto.
    + apply merge_sorted; auto; [apply slot_sorted; auto|]. intros x Hx Hx'. apply (Hdis x ov); auto. left; auto.
    + intros x ov' Hx Hov' Hin. apply merge_in in Hx. destruct Hx as [Hx|Hx].
      * apply (Hdis x ov'); auto. right; auto.
      * assert (ov = ov') by (eapply slot_disjoint; eauto). subst. contradiction.
    + split; auto. intros x. rewrite H2, merge_in. split.
      * intros [[H|H]|[ov' [Ho Hx]]]; auto; right; [exists ov|exists ov']; split; auto; [left|right]; auto.
      * intros [H|[ov' [[<-|Ho] Hx]]]; auto. right. exists ov'. auto.
Qed.

Lemma trie_getAllIds_sim : forall t c st, Inv t (c, st) -> 2 <= length (tF t) ->
  trie_getAllIds true t = Ok (map fst st).
Proof.
  intros t c st HInv Hlen. destruct (row_access t c st HInv Hlen) as (s & toMerge & l0 & row0 & Hs & Htc & Hn & H0 & Hr & Hsplit).
  unfold trie_getAllIds. rewrite Hn, H0, Hr.
  assert (Hl : length toMerge = S s) by (subst toMerge; apply repr_row_length).
  rewrite allids_loop_spec by lia. f_equal.
  destruct HInv as (_ & _ & Hok). cbn [fst snd] in Hok. pose proof Hok as [Hsorted _].
  assert (E : fold_left merge (skipn 1 toMerge) l0 = fold_left merge toMerge []).
  { rewrite Hsplit at 2. cbn [fold_left]. destruct l0; reflexivity. }
  rewrite E, Htc. unfold repr_row.
  destruct (fold_merge_slots st (min_index (tF t)) (row_keys s) [] Hsorted (row_keys_NoDup s)) as [H1 H2];
    [constructor|intros x ov []|].
  apply ssorted_ext; auto. intros x. rewrite H2. split.
  - intros [[]|[ov [_ Hx]]]. apply slot_in in Hx. destruct Hx as [e [He [<- _]]]. apply in_map. auto.
  - intros Hx. right. apply in_map_iff in Hx. destruct Hx as [e [<- He]].
    exists (pf_get (snd e) (min_index (tF t))). split; [eapply entry_in_row; eauto|].
    apply slot_in. exists e. auto.
Qed.

(* ---------- filters ---------- *)

Definition flt (st : store) (kv : nat * nat) : filter :=
  (slot st (fst kv) (Some (snd kv)), slot st (fst kv) None).

Lemma mk_filter_repr : forall F st k v s, nth_error F k = Some s -> v < s ->
  mk_filter (repr F st) k v = Ok (flt st (k, v)).
Proof.
  intros F st k v s Hk Hv. unfold mk_filter, repr. rewrite repr_from_nth, Hk. cbn [option_map plus].
  rewrite repr_row_nth, row_keys_nth. apply Nat.ltb_lt in Hv. rewrite Hv. cbn [option_map].
  destruct (repr_row st k s) eqn:E.
  - pose proof (repr_row_length st k s) as Hl. rewrite E in Hl. discriminate.
  - rewrite <- E, repr_row_last. reflexivity.
Qed.

Lemma flt_wf : forall st kv, ssorted (map fst st) -> fwf (flt st kv).
Proof.
  intros st [k v] Hs. unfold fwf, flt. cbn [fst snd]. repeat split; try (apply slot_sorted; auto).
  intros x H1 H2. assert (Some v = None) by (eapply slot_disjoint; eauto). discriminate.
Qed.

Lemma flt_content : forall st kv x,
  In x (content (flt st kv)) <-> exists e, In e st /\ fst e = x /\ agrees (snd e) kv = true.
Proof.
  intros st [k v] x. unfold content, flt, agrees. cbn [fst snd]. rewrite in_app_iff, !slot_in. split.
  - intros [[e [H1 [H2 H3]]]|[e [H1 [H2 H3]]]]; exists e; rewrite H3; repeat split; auto. apply Nat.eqb_refl.
  - intros [e [H1 [H2 H3]]]. destruct (pf_get (snd e) k) as [w|] eqn:E.
    + apply Nat.eqb_eq in H3. subst w. left. exists e. auto.
    + right. exists e. auto.
Qed.

Lemma insert_sorted_in : forall f fs x, In x (insert_sorted f fs) <-> x = f \/ In x fs.
Proof.
  intros f fs x. induction fs as [|g t IH]; cbn [insert_sorted].
  - cbn. intuition.
  - destruct (f_size f <? f_size g); cbn [In]; [intuition|]. rewrite IH. intuition.
Qed.

Definition kvo (kv : nat * nat) : nat * option nat := (fst kv, Some (snd kv)).

Lemma build_filters_spec : forall F st kvs acc,
  (forall kv, In kv kvs -> exists s, nth_error F (fst kv) = Some s /\ snd kv < s) ->
  (build_filters (repr F st) (map kvo kvs) acc = Ok None /\ exists kv, In kv kvs /\ f_valid (flt st kv) = false)
  \/ (exists fs, build_filters (repr F st) (map kvo kvs) acc = Ok (Some fs) /\
                 (forall kv, In kv kvs -> f_valid (flt st kv) = true) /\
                 (forall f, In f fs <-> In f acc \/ In f (map (flt st) kvs))).
Proof.
  intros F st kvs. induction kvs as [|[k v] kvs IH]; intros acc Hr; cbn [map build_filters kvo fst snd].
  - right. exists acc. split; auto. split; [intros kv []|]. intros f. cbn. tauto.
  - destruct (Hr (k, v) (or_introl eq_refl)) as [s [Hs Hv]]. cbn [fst snd] in *.
    rewrite (mk_filter_repr F st k v s Hs Hv). cbn [bind].
    destruct (f_valid (flt st (k, v))) eqn:Ev; cbn [negb].
    + destruct (IH (insert_sorted (flt st (k, v)) acc)) as [[E [kv [Hkv Hinv]]]|[fs [E [Hval Hin]]]].
      * intros kv Hkv. apply Hr. right; auto.
      * left. split; auto. exists kv. split; auto. right; auto.
      * right. exists fs. split; auto. split.
        -- intros kv [<-|Hkv]; auto.
        -- intros f. rewrite Hin, insert_sorted_in. cbn [In]. intuition.
    + left. split; auto. exists (k, v). split; auto. left; auto.
Qed.

(* the entries that agree with every (factor, value) pair *)
Definition match_all (st : store) (kvs : list (nat * nat)) : list nat :=
  map fst (List.filter (fun e => forallb (agrees (snd e)) kvs) st).

Lemma match_all_in : forall st kvs x,
  In x (match_all st kvs) <-> exists e, In e st /\ fst e = x /\ forallb (agrees (snd e)) kvs = true.
Proof.
  intros. unfold match_all. rewrite in_map_iff. split.
  - intros [e [E H]]. apply filter_In in H. exists e. tauto.
  - intros [e [H1 [H2 H3]]]. exists e. split; auto. apply filter_In. auto.
Qed.

Lemma finish_spec : forall F st kvs acc, ssorted (map fst st) -> kvs <> [] ->
  (forall kv, In kv kvs -> exists s, nth_error F (fst kv) = Some s /\ snd kv < s) ->
  Forall fwf acc -> Forall (fun f => f_valid f = true) acc ->
  exists m, finish_filters (build_filters (repr F st) (map kvo kvs) acc) = Ok m /\ ssorted m /\
            forall x, In x m <-> (forall f, In f acc -> In x (content f)) /\ In x (match_all st kvs).
Proof.
  intros F st kvs acc Hs Hne Hr Hwf Hval.
  destruct (build_filters_spec F st kvs acc Hr) as [[E [kv [Hkv Hinv]]]|[fs [E [Hv Hin]]]]; rewrite E; cbn [finish_filters bind].
  - exists []. split; auto. split; [constructor|]. intros x. split; [intros []|]. intros [_ Hx].
    apply match_all_in in Hx. destruct Hx as [e [He [Hid Hall]]]. rewrite forallb_forall in Hall.
    assert (Hc : In x (content (flt st kv))) by (apply flt_content; exists e; auto).
    rewrite (f_valid_false _ Hinv) in Hc. destruct Hc.
  - assert (Hfs : fs <> []).
    { destruct kvs as [|kv kvs]; [congruence|]. intros ->. apply (proj2 (Hin (flt st kv))). right. left; auto. }
    assert (Hwfs : Forall fwf fs).
    { apply Forall_forall. intros f Hf. apply Hin in Hf. destruct Hf as [Hf|Hf].
      - rewrite Forall_forall in Hwf. auto.
      - apply in_map_iff in Hf. destruct Hf as [kv [<- _]]. apply flt_wf; auto. }
    assert (Hvfs : Forall (fun f => f_valid f = true) fs).
    { apply Forall_forall. intros f Hf. apply Hin in Hf. destruct Hf as [Hf|Hf].
      - rewrite Forall_forall in Hval. auto.
      - apply in_map_iff in Hf. destruct Hf as [kv [<- Hkv]]. auto. }
    destruct (applyFilters_spec fs Hfs Hwfs Hvfs) as [m [Em [Hsm Hm]]]. rewrite Em. cbn [res_of_ares].
    exists m. split; auto. split; auto. intros x. rewrite Hm. unfold inall. split.
    + intros H. split.
      * intros f Hf. apply H. apply Hin. auto.
      * destruct kvs as [|kv0 kvs]; [congruence|].
        assert (H0 : In x (content (flt st kv0))) by (apply H; apply Hin; right; left; auto).
        apply flt_content in H0. destruct H0 as [e [He [Hid Hag]]].
        apply match_all_in. exists e. split; auto. split; auto. apply forallb_forall. intros kv Hkv.
        assert (H1 : In x (content (flt st kv))) by (apply H; apply Hin; right; apply in_map; auto).
        apply flt_content in H1. destruct H1 as [e' [He' [Hid' Hag']]].
        assert (e = e') by (eapply store_uniq; eauto; congruence). subst. auto.
    + intros [Hacc Hx] f Hf. apply Hin in Hf. destruct Hf as [Hf|Hf]; auto.
      apply in_map_iff in Hf. destruct Hf as [kv [<- Hkv]].
      apply match_all_in in Hx. destruct Hx as [e [He [Hid Hall]]]. rewrite forallb_forall in Hall.
      apply flt_content. exists e. auto.
Qed.

Lemma pf_kvs_combine : forall keys vals, length keys = length vals -> pf_kvs keys vals = map kvo (combine keys vals).
Proof.
  induction keys as [|k ks IH]; intros vals H; destruct vals as [|v vs]; cbn in H; try discriminate; auto.
  cbn [pf_kvs combine map]. rewrite IH by lia. reflexivity.
Qed.

Lemma combine_map_some : forall (a b : list nat), combine a (map Some b) = map kvo (combine a b).
Proof.
  induction a as [|x a IH]; intros b; destruct b as [|y b]; cbn [combine map]; auto. rewrite IH. reflexivity.
Qed.

Lemma match_all_filter_spec : forall st q, match_all st (pairs q) = filter_spec st q.
Proof. reflexivity. Qed.

Lemma trie_filterPf_sim : forall t c st pf, Inv t (c, st) -> 2 <= length (tF t) -> pf_okb (tF t) pf = true ->
  trie_filterPf true t pf = Ok (filter_spec st pf).
Proof.
  intros t c st [keys vals] HInv Hlen Hpf. unfold trie_filterPf. cbn [fst snd].
  destruct keys as [|k ks] eqn:Ek.
  - rewrite (trie_getAllIds_sim t c st HInv Hlen). f_equal. unfold filter_spec, compatibleb, pairs. cbn.
    clear. induction st as [|e st IH]; cbn; auto. congruence.
  - rewrite <- Ek in *. unfold pf_okb in Hpf. cbn [fst snd] in Hpf.
    pose proof (keys_ok_length _ _ _ _ Hpf) as Hl.
    destruct HInv as (Hc & Hids & Hok). cbn [fst snd] in *. rewrite Hids.
    rewrite pf_kvs_combine by auto.
    destruct (finish_spec (tF t) st (combine keys vals) []) as [m [Em [Hs Hm]]]; auto.
    + apply Hok.
    + subst keys. destruct vals; [discriminate|]. cbn. congruence.
    + intros [k' v'] Hkv. cbn [fst snd]. eapply keys_ok_pairs; eauto.
    + rewrite Em. f_equal. apply ssorted_ext; auto.
      * unfold filter_spec. apply ssorted_map_filter. apply Hok.
      * intros x. rewrite Hm. rewrite <- match_all_filter_spec. unfold pairs. cbn [fst snd]. split; [tauto|].
        intros H. split; auto. intros f [].
Qed.

Lemma trie_filterF_sim : forall t c st f off, Inv t (c, st) -> 2 <= length (tF t) ->
  pf_okb (tF t) (query_of_factors f off) = true ->
  trie_filterF true t f off = Ok (filter_spec st (query_of_factors f off)).
Proof.
  intros t c st f off HInv Hlen Hpf. unfold trie_filterF.
  destruct f as [|x f'] eqn:Ef.
  - rewrite (trie_getAllIds_sim t c st HInv Hlen). f_equal. unfold filter_spec, compatibleb, pairs, query_of_factors. cbn.
    clear. induction st as [|e st IH]; cbn; auto. congruence.
  - rewrite <- Ef in *. unfold pf_okb, query_of_factors in Hpf. cbn [fst snd] in Hpf.
    destruct HInv as (Hc & Hids & Hok). cbn [fst snd] in *. rewrite Hids.
    rewrite combine_map_some.
    destruct (finish_spec (tF t) st (combine (seq off (length f)) f) []) as [m [Em [Hs Hm]]]; auto.
    + apply Hok.
    + subst f. cbn. congruence.
    + intros [k' v'] Hkv. cbn [fst snd]. eapply keys_ok_pairs; eauto.
    + rewrite Em. f_equal. apply ssorted_ext; auto.
      * unfold filter_spec. apply ssorted_map_filter. apply Hok.
      * intros y. rewrite Hm. rewrite <- match_all_filter_spec. unfold pairs, query_of_factors. cbn [fst snd]. split; [tauto|].
        intros H. split; auto. intros g [].
Qed.

Lemma incr_from_sorted : forall l lo, incr_from lo l = true -> ssorted l /\ forall x, In x l -> lo <= x.
Proof.
  induction l as [|y t IH]; intros lo H; cbn [incr_from] in H.
  - split; [constructor|intros x []].
  - apply andb_true_iff in H. destruct H as [H1 H2]. apply Nat.leb_le in H1. destruct (IH _ H2) as [Hs Hb]. split.
    + apply ssorted_cons; auto.
    + intros x [<-|Hx]; auto. specialize (Hb _ Hx). lia.
Qed.

Lemma memb_in : forall x l, memb x l = true <-> In x l.
Proof.
  intros. unfold memb. rewrite existsb_exists. split.
  - intros [y [H1 H2]]. apply Nat.eqb_eq in H2. subst; auto.
  - intros H. exists x. split; auto. apply Nat.eqb_refl.
Qed.

Lemma trie_refine_sim : forall t c st ids pf, Inv t (c, st) -> 2 <= length (tF t) -> pf_okb (tF t) pf = true ->
  sortedb ids = true ->
  trie_refine t ids pf = Ok (match fst pf with
                             | [] => ids
                             | _ => List.filter (fun id => memb id (filter_spec st pf)) ids
                             end).
Proof.
  intros t c st ids [keys vals] HInv Hlen Hpf Hsorted. unfold trie_refine. cbn [fst snd].
  destruct ids as [|i0 ids'] eqn:Ei.
  - destruct keys; reflexivity.
  - destruct keys as [|k ks] eqn:Ek; [reflexivity|].
    rewrite <- Ek, <- Ei in *. unfold pf_okb in Hpf. cbn [fst snd] in Hpf.
    pose proof (keys_ok_length _ _ _ _ Hpf) as Hl.
    destruct HInv as (Hc & Hids & Hok). cbn [fst snd] in *. rewrite Hids.
    rewrite pf_kvs_combine by auto.
    destruct (incr_from_sorted _ _ Hsorted) as [Hsi _].
    destruct (finish_spec (tF t) st (combine keys vals) [([], ids)]) as [m [Em [Hs Hm]]]; auto.
    + apply Hok.
    + subst keys. destruct vals; [discriminate|]. cbn. congruence.
    + intros [k' v'] Hkv. cbn [fst snd]. eapply keys_ok_pairs; eauto.
    + constructor; [|constructor]. unfold fwf. cbn [fst snd]. repeat split; auto. constructor.
    + constructor; [|constructor]. subst ids. reflexivity.
    + rewrite Em. f_equal. apply ssorted_ext; auto.
      * apply ssorted_filter. auto.
      * intros x. rewrite Hm. rewrite filter_In, memb_in. rewrite <- match_all_filter_spec. unfold pairs. cbn [fst snd]. split.
        -- intros [H1 H2]. split; auto. specialize (H1 ([], ids) (or_introl eq_refl)). exact H1.
        -- intros [H1 H2]. split; auto. intros f [<-|[]]. exact H1.
Qed.

(* ---------- one step, then whole histories ---------- *)

Lemma step_sim : forall t s o, Inv t s -> 2 <= length (tF t) -> op_okb (tF t) s o = true ->
  exists t', trie_step true t o = Ok (t', snd (spec_step s o)) /\ tF t' = tF t /\ Inv t' (fst (spec_step s o)).
Proof.
  intros t [c st] o HInv Hlen Hop. destruct o; cbn [op_okb] in Hop; cbn [trie_step spec_step fst snd].
  - destruct (trie_insert_sim t c st pf HInv Hop) as [t' [E [HF HI]]]. rewrite E. cbn [bind]. eauto.
  - destruct (trie_erase_sim t c st id HInv) as [HF HI]. eauto.
  - apply andb_true_iff in Hop. destruct Hop as [H1 H2]. cbn [snd] in H2.
    destruct (trie_erasePf_sim t c st id pf HInv H1 H2) as [t' [E [HF HI]]]. rewrite E. cbn [bind]. eauto.
  - rewrite (trie_filterF_sim t c st f offset HInv Hlen Hop). cbn [bind]. eauto.
  - rewrite (trie_filterPf_sim t c st pf HInv Hlen Hop). cbn [bind]. eauto.
  - apply andb_true_iff in Hop. destruct Hop as [H1 H2].
    rewrite (trie_refine_sim t c st ids pf HInv Hlen H1 H2). cbn [bind]. eauto.
  - rewrite (trie_size_sim t c st HInv Hlen). cbn [bind]. eauto.
  - rewrite (trie_getAllIds_sim t c st HInv Hlen). cbn [bind]. eauto.
Qed.

Lemma run_sim : forall ops t s, Inv t s -> 2 <= length (tF t) -> hist_okb (tF t) s ops = true ->
  exists t', trie_run true t ops = Ok (t', snd (spec_run s ops)) /\ tF t' = tF t /\ Inv t' (fst (spec_run s ops)).
Proof.
  induction ops as [|o ops IH]; intros t s HInv Hlen Hh; cbn [trie_run spec_run hist_okb] in *.
  - exists t. cbn. auto.
  - apply andb_true_iff in Hh. destruct Hh as [H1 H2].
    destruct (step_sim t s o HInv Hlen H1) as [t1 [E1 [HF1 HI1]]]. rewrite E1. cbn [bind].
    destruct (spec_step s o) as [s1 r1] eqn:Es. cbn [fst snd] in *.
    rewrite <- HF1 in H2, Hlen.
    destruct (IH t1 s1 HI1 Hlen H2) as [t2 [E2 [HF2 HI2]]]. rewrite E2. cbn [bind].
    destruct (spec_run s1 ops) as [s2 rs] eqn:Er. cbn [fst snd] in *.
    exists t2. split; [reflexivity|]. split; [congruence|exact HI2].
Qed.

Lemma repr_empty : forall F i, map (fun s => repeat [] (S s)) F = repr_from i F [].
Proof.
  induction F as [|s F IH]; intros i; cbn [map repr_from]; auto.
  rewrite <- IH. f_equal. unfold repr_row, row_keys, slot. cbn [List.filter map].
  rewrite map_app, map_map. cbn [map]. replace (S s) with (s + 1) by lia. rewrite repeat_app. f_equal.
  generalize 0. clear. induction s as [|s IH]; intros a; cbn [repeat seq map]; auto. f_equal. apply IH.
Qed.

Lemma new_inv : forall F, 2 <= length F -> exists t, trie_new F = Ok t /\ tF t = F /\ Inv t (0, []).
Proof.
  intros F H. unfold trie_new. destruct (length F <? 2) eqn:E; [apply Nat.ltb_lt in E; lia|].
  eexists. split; [reflexivity|]. cbn [tF]. split; auto. unfold Inv. cbn [tcounter tids tF fst snd].
  split; auto. split.
  - apply repr_empty.
  - split; [constructor|constructor].
Qed.

Theorem history_sim : forall F ops, history_ok F ops ->
  exists t, trie_history true F ops = Ok (t, spec_outs ops) /\ tF t = F /\ Inv t (spec_state ops).
Proof.
  intros F ops [Hlen Hh]. destruct (new_inv F Hlen) as [t0 [E0 [HF0 HI0]]].
  unfold trie_history. rewrite E0. cbn [bind]. rewrite <- HF0 in Hh, Hlen.
  destruct (run_sim ops t0 (0, []) HI0 Hlen Hh) as [t [E [HF HI]]].
  exists t. split; auto. split; auto. congruence.
Qed.
