(* C20/ProofsReconstruct2.v — FasterTrie::reconstruct, continued:
   (a) no out-of-range access: for every admissible outcome of the shuffles the checked model returns Ok;
   (b) the state afterwards represents exactly the store minus the returned entries (remove = true)
       / the same store (remove = false): nothing else changes;
   (c) the model's result satisfies the Prop [reconstruct_spec] that the driver's checker implies. *)
From Coq Require Import List Arith Bool Sorted Lia Permutation.
From AIT Require Import C20.Model C20.Spec C20.ProofsLists C20.ProofsTrie C20.ProofsQuery C20.Proofs C20.ProofsFaster
     C20.ProofsReconstruct C20.ProofsChecker.
Import ListNotations.

(* ---------- buckets only shrink ---------- *)

Lemma rc_bucket_incl : forall F remove n todo kept f acc done b' f' acc' d',
  rc_bucket n F remove todo kept f acc done = Ok (b', f', acc', d') -> incl b' (kept ++ todo).
Proof.
  intros F remove. induction n as [|n IH]; intros todo kept f acc done b' f' acc' d' H.
  - destruct todo; cbn [rc_bucket] in H; inversion H; subst; [rewrite app_nil_r|]; apply incl_refl.
  - destruct todo as [|e rest]; cbn [rc_bucket] in H.
    + inversion H; subst. rewrite app_nil_r. apply incl_refl.
    + destruct (rc_match F f (fst (snd e)) (snd (snd e))) as [[|]| |]; cbn [bind] in H; try discriminate.
      * destruct (rc_assign f (fst (snd e)) (snd (snd e))) as [f1| |]; cbn [bind] in H; try discriminate.
        destruct remove.
        -- apply IH in H. intros x Hx. apply H in Hx. apply in_app_or in Hx. apply in_or_app. destruct Hx as [Hx|Hx]; auto.
           right. right. eapply Permutation_in; [apply rotate_perm|exact Hx].
        -- apply IH in H. rewrite <- app_assoc in H. exact H.
      * apply IH in H. rewrite <- app_assoc in H. exact H.
Qed.

Definition rsub (row' row : list (list fentry)) : Prop :=
  length row' = length row /\
  forall v b', nth_error row' v = Some b' -> exists b, nth_error row v = Some b /\ incl b' b.

Definition bsub (keys' keys : list (list (list fentry))) : Prop :=
  map (@length _) keys' = map (@length _) keys /\
  forall i v b', bucket keys' i v = Some b' -> exists b, bucket keys i v = Some b /\ incl b' b.

Lemma rsub_refl : forall row, rsub row row.
Proof. intros row. split; auto. intros v b' H. exists b'. split; auto. apply incl_refl. Qed.

Lemma rsub_trans : forall r1 r2 r3, rsub r1 r2 -> rsub r2 r3 -> rsub r1 r3.
Proof.
  intros r1 r2 r3 [L1 H1] [L2 H2]. split; [congruence|]. intros v b1 Hb1.
  destruct (H1 _ _ Hb1) as [b2 [Hb2 I1]]. destruct (H2 _ _ Hb2) as [b3 [Hb3 I2]]. exists b3. split; auto.
  eapply incl_tran; eauto.
Qed.

Lemma bsub_refl : forall keys, bsub keys keys.
Proof. intros keys. split; auto. intros i v b' H. exists b'. split; auto. apply incl_refl. Qed.

Lemma bsub_trans : forall k1 k2 k3, bsub k1 k2 -> bsub k2 k3 -> bsub k1 k3.
Proof.
  intros k1 k2 k3 [L1 H1] [L2 H2]. split; [congruence|]. intros i v b1 Hb1.
  destruct (H1 _ _ _ Hb1) as [b2 [Hb2 I1]]. destruct (H2 _ _ _ Hb2) as [b3 [Hb3 I2]]. exists b3. split; auto.
  eapply incl_tran; eauto.
Qed.

Lemma rc_values_sub : forall F remove vorder row f acc row' f' acc',
  rc_values vorder F remove row f acc = Ok (row', f', acc') -> rsub row' row.
Proof.
  intros F remove. induction vorder as [|v vs IH]; intros row f acc row' f' acc' H; cbn [rc_values] in H.
  - inversion H; subst. apply rsub_refl.
  - destruct (nth_error row v) as [b|] eqn:Eb; [|discriminate].
    destruct (rc_bucket (length b) F remove b [] f acc false) as [[[[b1 f1] acc1] d1]| |] eqn:E; cbn [bind] in H; try discriminate.
    destruct (upd row v (fun _ => b1)) as [row1|] eqn:Eu; [|discriminate].
    assert (Hs : rsub row1 row).
    { split; [eapply upd_length; eauto|]. intros j b' Hj. rewrite (upd_nth _ _ _ _ Eu) in Hj. destruct (j =? v) eqn:Ej.
      - apply Nat.eqb_eq in Ej. subst j. rewrite Eb in Hj. cbn in Hj. inversion Hj; subst. exists b. split; auto.
        apply rc_bucket_incl in E. exact E.
      - exists b'. split; auto. apply incl_refl. }
    destruct d1.
    + inversion H; subst. exact Hs.
    + eapply rsub_trans; [eapply IH; eauto|exact Hs].
Qed.

Lemma rc_factor_sub : forall F remove ordv keys o f acc keys' f' acc',
  rc_factor F remove ordv keys o f acc = Ok (keys', f', acc') -> bsub keys' keys.
Proof.
  intros F remove ordv keys o f acc keys' f' acc' H. unfold rc_factor in H.
  destruct (nth_error keys o) as [row|] eqn:Er; [|discriminate].
  destruct (nth_error f o) as [fo|]; [|discriminate]. destruct (nth_error F o) as [Fo|]; [|discriminate].
  match type of H with bind ?X _ = _ => destruct X as [[[row1 f1] acc1]| |] eqn:Ev end; cbn [bind] in H; try discriminate.
  destruct (upd keys o (fun _ => row1)) as [keys1|] eqn:Eu; [|discriminate]. inversion H; subst.
  assert (Hr : rsub row1 row).
  { destruct (fo <? Fo); [eapply rc_values_sub; eauto|]. destruct (nth_error ordv o) as [[|v0 vs]|]; try discriminate.
    eapply rc_values_sub; eauto. }
  destruct Hr as [Hl Hr]. split.
  - apply list_ext_nth. intros j. rewrite !nth_error_map, (upd_nth _ _ _ _ Eu). destruct (j =? o) eqn:Ej; auto.
    apply Nat.eqb_eq in Ej. subst. rewrite Er. cbn. congruence.
  - intros i v b' Hb. unfold bucket in *. rewrite (upd_nth _ _ _ _ Eu) in Hb. destruct (i =? o) eqn:Ei.
    + apply Nat.eqb_eq in Ei. subst i. rewrite Er in *. cbn in Hb. exact (Hr _ _ Hb).
    + exists b'. split; auto. apply incl_refl.
Qed.

Lemma rc_factors_sub : forall F remove ordv ord0 keys f acc keys' f' acc',
  rc_factors ord0 F remove ordv keys f acc = Ok (keys', f', acc') -> bsub keys' keys.
Proof.
  intros F remove ordv. induction ord0 as [|o os IH]; intros keys f acc keys' f' acc' H; cbn [rc_factors] in H.
  - inversion H; subst. apply bsub_refl.
  - destruct (rc_factor F remove ordv keys o f acc) as [[[keys1 f1] acc1]| |] eqn:E1; cbn [bind] in H; try discriminate.
    eapply bsub_trans; [eapply IH; eauto|eapply rc_factor_sub; eauto].
Qed.

(* ---------- no out-of-range access ---------- *)

(* what std::shuffle can leave in orders_: factor indices inside F; per factor a non-empty list of
   values inside that factor's range *)
Definition orders_ok (F : list nat) (ord0 : list nat) (ordv : list (list nat)) : Prop :=
  (forall o, In o ord0 -> o < length F) /\
  (forall o s, nth_error F o = Some s ->
     exists v0 vs, nth_error ordv o = Some (v0 :: vs) /\ forall v, In v (v0 :: vs) -> v < s).

Section OK.
Variables (F : list nat) (q : pfactors) (st : store).
Hypothesis Hq : pf_okb F q = true.
Hypothesis Hst : forall e, In e st -> pf_okb F (snd e) = true.
Variable remove : bool.

Lemma rc_values_ok : forall vorder row f acc,
  (forall v, In v vorder -> v < length row) -> Jinv F q st f acc -> (forall e, In e (concat row) -> In e st) ->
  exists r, rc_values vorder F remove row f acc = Ok r.
Proof.
  induction vorder as [|v vs IH]; intros row f acc Hv HJ Hin; [cbn [rc_values]; eauto|].
  destruct (nth_error row v) as [b|] eqn:Eb; [|apply nth_error_None in Eb; specialize (Hv v (or_introl eq_refl)); lia].
  cbn [rc_values].
  match goal with |- context [match ?X with Some _ => _ | None => _ end] => replace X with (Some b) by (symmetry; exact Eb) end.
  destruct (rc_bucket_spec F q st Hq Hst remove (length b) b [] f acc false HJ) as (b1 & f1 & new1 & d1 & E & HJ1 & Hp1).
  { intros e He. apply Hin. apply in_concat. exists b. split; auto. eapply nth_error_In; eauto. }
  match goal with |- context [bind ?X _] => replace X with (@Ok (list fentry * list nat * list fentry * bool) (b1, f1, acc ++ new1, d1)) by (symmetry; exact E) end.
  cbn [bind]. destruct (upd_some row v (fun _ => b1) b Eb) as [row1 Eu].
  match goal with |- context [match ?X with Some _ => _ | None => _ end] => replace X with (Some row1) by (symmetry; exact Eu) end.
  destruct d1; [eauto|].
  cbn [app] in Hp1. pose proof (upd_concat_perm row v b b1 row1 (rm remove new1) Eb Eu Hp1) as Hrow.
  apply IH; auto.
  - intros v' Hv'. rewrite (upd_length _ _ _ _ Eu). apply Hv. right; auto.
  - intros e He. apply Hin. eapply Permutation_in; [exact Hrow|]. apply in_or_app; auto.
Qed.

Lemma rc_factor_ok : forall ordv keys o f acc,
  map (@length _) keys = F -> o < length F ->
  (forall o s, nth_error F o = Some s -> exists v0 vs, nth_error ordv o = Some (v0 :: vs) /\ forall v, In v (v0 :: vs) -> v < s) ->
  Jinv F q st f acc -> (forall e, In e (flat keys) -> In e st) ->
  exists r, rc_factor F remove ordv keys o f acc = Ok r.
Proof.
  intros ordv keys o f acc Hshape Ho Hordv HJ Hin. unfold rc_factor.
  destruct (nth_error F o) as [Fo|] eqn:EF; [|apply nth_error_None in EF; lia].
  assert (Hrow : exists row, nth_error keys o = Some row /\ length row = Fo).
  { rewrite <- Hshape, nth_error_map in EF. destruct (nth_error keys o) as [row|]; [|discriminate]. cbn in EF. inversion EF. eauto. }
  destruct Hrow as [row [Er Hlr]]. rewrite Er.
  pose proof HJ as (Hl & _).
  destruct (nth_error f o) as [fo|] eqn:Ef; [|apply nth_error_None in Ef; lia].
  assert (Hrin : forall e, In e (concat row) -> In e st).
  { intros e He. apply Hin. unfold flat. apply in_concat in He. destruct He as [b [Hb He]]. apply in_concat. exists b. split; auto.
    apply in_concat. exists row. split; auto. eapply nth_error_In; eauto. }
  assert (Hvals : exists r, (if fo <? Fo then rc_values [fo] F remove row f acc
                             else match nth_error ordv o with
                                  | Some (v0 :: vs) => rc_values (v0 :: vs) F remove row f acc
                                  | _ => UB end) = Ok r).
  { destruct (fo <? Fo) eqn:E.
    - apply Nat.ltb_lt in E. apply rc_values_ok; auto. intros v [<-|[]]. eapply Nat.lt_le_trans; [exact E|]. apply Nat.eq_le_incl. symmetry. exact Hlr.
    - destruct (Hordv o Fo EF) as [v0 [vs [Eo Hv]]]. rewrite Eo. apply rc_values_ok; auto. intros v Hvin. eapply Nat.lt_le_trans; [apply Hv; exact Hvin|]. apply Nat.eq_le_incl. symmetry. exact Hlr. }
  destruct Hvals as [[[row1 f1] acc1] Ev]. rewrite Ev. cbn [bind].
  destruct (upd_some keys o (fun _ => row1) row Er) as [keys1 Eu]. rewrite Eu. eauto.
Qed.

Lemma rc_factors_ok : forall ordv ord0 keys f acc,
  map (@length _) keys = F -> (forall o, In o ord0 -> o < length F) ->
  (forall o s, nth_error F o = Some s -> exists v0 vs, nth_error ordv o = Some (v0 :: vs) /\ forall v, In v (v0 :: vs) -> v < s) ->
  Jinv F q st f acc -> (forall e, In e (flat keys) -> In e st) ->
  exists r, rc_factors ord0 F remove ordv keys f acc = Ok r.
Proof.
  intros ordv. induction ord0 as [|o os IH]; intros keys f acc Hshape Ho Hordv HJ Hin; cbn [rc_factors]; [eauto|].
  destruct (rc_factor_ok ordv keys o f acc Hshape (Ho o (or_introl eq_refl)) Hordv HJ Hin) as [[[keys1 f1] acc1] E1].
  rewrite E1. cbn [bind].
  destruct (rc_factor_spec F q st Hq Hst remove _ _ _ _ _ _ _ _ E1 HJ Hin) as [new1 [-> [HJ1 Hp1]]].
  destruct (rc_factor_sub _ _ _ _ _ _ _ _ _ _ E1) as [Hl1 _].
  apply IH; auto.
  - congruence.
  - intros o' Ho'. apply Ho. right; auto.
  - intros e He. apply Hin. eapply Permutation_in; [exact Hp1|]. apply in_or_app; auto.
Qed.

End OK.

Lemma shuffle_shape : forall keys keysS, shuffle_of keys keysS -> map (@length _) keysS = map (@length _) keys.
Proof.
  intros keys keysS H. induction H as [|row rowS keys keysS Hrow Hrest IH]; cbn [map]; auto.
  f_equal; auto. clear - Hrow. induction Hrow; cbn [length]; auto.
Qed.

Lemma shuffle_bucket : forall keys keysS i v bS, shuffle_of keys keysS -> bucket keysS i v = Some bS ->
  exists b, bucket keys i v = Some b /\ Permutation b bS.
Proof.
  intros keys keysS i v bS H. revert i. induction H as [|row rowS keys keysS Hrow Hrest IH]; intros i Hb.
  - unfold bucket in Hb. destruct i; discriminate.
  - destruct i as [|i].
    + unfold bucket in *. cbn [nth_error] in *. clear - Hrow Hb. revert v Hb. induction Hrow as [|b b' r r' Hp Hr IHr]; intros v Hb.
      * destruct v; discriminate.
      * destruct v as [|v]; cbn [nth_error] in *; [inversion Hb; subst; eauto|eauto].
    + unfold bucket in *. cbn [nth_error] in *. apply IH. exact Hb.
Qed.

(* (a) no UB: for every admissible outcome of the shuffles the checked model returns Ok *)
Theorem reconstruct_no_UB_lemma : forall t c st q remove ord0 ordv keysS,
  FInv2 t (c, st) -> pf_okb (fF t) q = true -> shuffle_of (fkeys t) keysS -> orders_ok (fF t) ord0 ordv ->
  exists t' entries f', ft_reconstruct t q remove ord0 ordv keysS = Ok (t', entries, f').
Proof.
  intros t c st q remove ord0 ordv keysS [HInv Hperm] Hq Hsh [Ho Hordv]. cbn [snd] in Hperm.
  destruct HInv as (_ & Hshape & _ & Hok & _). cbn [fst snd] in Hok.
  assert (Hst : forall e, In e st -> pf_okb (fF t) (snd e) = true).
  { intros e He. destruct Hok as [_ Hf]. rewrite Forall_forall in Hf. apply Hf; auto. }
  unfold ft_reconstruct. pose proof Hq as Hq'. unfold pf_okb in Hq'.
  destruct (rc_assign_spec (fF t) _ _ 0 (fF t) Hq' eq_refl) as [f0 [E0 [Hl0 Hn0]]]. rewrite E0. cbn [bind].
  assert (HJ0 : Jinv (fF t) q st f0 []).
  { split; auto. split; [|split; [|split; [|split]]].
    - intros k v Hg. rewrite Hn0. unfold pf_get in Hg. rewrite Hg. reflexivity.
    - intros e k v [].
    - intros e [].
    - intros e1 e2 [].
    - intros k Hk _. rewrite Hn0. unfold pf_get in Hk. rewrite Hk. reflexivity. }
  pose proof (shuffle_flat _ _ Hsh) as Hfl.
  assert (Hin : forall e, In e (flat keysS) -> In e st).
  { intros e He. eapply Permutation_in; [exact Hperm|]. eapply Permutation_in; [apply Permutation_sym; exact Hfl|exact He]. }
  destruct (rc_factors_ok (fF t) q st Hq Hst remove ordv ord0 keysS f0 []) as [[[keys1 f1] acc1] E1]; auto.
  { rewrite (shuffle_shape _ _ Hsh). exact Hshape. }
  rewrite E1. cbn [bind]. eauto.
Qed.

(* ---------- (b) the state afterwards ---------- *)

Definition not_returned (entries : list fentry) (e : entry) : bool := negb (memb (fst e) (map fst entries)).

(* the store after the call *)
Definition store_after (remove : bool) (entries : list fentry) (st : store) : store :=
  if remove then List.filter (not_returned entries) st else st.

Lemma store_ok_filter : forall F c st p, store_ok F c st -> store_ok F c (List.filter p st).
Proof.
  intros F c st p [Hs Hf]. split.
  - apply ssorted_map_filter. auto.
  - apply Forall_forall. intros e He. apply filter_In in He. rewrite Forall_forall in Hf. apply Hf. tauto.
Qed.

Lemma bucket_segment : forall (keys : list (list (list fentry))) i v b, bucket keys i v = Some b ->
  exists A B, flat keys = A ++ b ++ B.
Proof.
  intros keys i v b Hb. destruct (upd2_spec keys i v (fun x => x) b Hb) as [ll' [Eu _]].
  destruct (upd2_flat _ _ _ _ _ _ Hb Eu) as [A [B [E _]]]. eauto.
Qed.

Lemma NoDup_app_l : forall {A} (l1 l2 : list A), NoDup (l1 ++ l2) -> NoDup l1.
Proof.
  induction l1 as [|x l1 IH]; intros l2 H; [constructor|]. cbn [app] in H. apply NoDup_cons_iff in H. destruct H as [Hn H].
  constructor; eauto. intros Hx. apply Hn. apply in_or_app; auto.
Qed.

Lemma NoDup_filter' : forall {A} (p : A -> bool) l, NoDup l -> NoDup (List.filter p l).
Proof.
  induction l as [|x l IH]; intros H; cbn [List.filter]; auto. apply NoDup_cons_iff in H. destruct H as [Hn H].
  destruct (p x); auto. constructor; auto. intros Hx. apply filter_In in Hx. tauto.
Qed.

Lemma NoDup_segment : forall {A} (X b Y : list A), NoDup (X ++ b ++ Y) -> NoDup b.
Proof.
  intros A X b Y H. apply NoDup_app_r in H. clear X. induction b as [|x b IH]; [constructor|].
  cbn [app] in H. apply NoDup_cons_iff in H. destruct H as [Hn H]. constructor; auto. intros Hx. apply Hn. apply in_or_app; auto.
Qed.

Theorem reconstruct_state_lemma : forall t c st q remove ord0 ordv keysS t' entries f',
  FInv2 t (c, st) -> pf_okb (fF t) q = true -> shuffle_of (fkeys t) keysS ->
  ft_reconstruct t q remove ord0 ordv keysS = Ok (t', entries, f') ->
  fF t' = fF t /\ fcounter t' = fcounter t /\ FInv2 t' (c, store_after remove entries st).
Proof.
  intros t c st q remove ord0 ordv keysS t' entries f' HInv2 Hq Hsh H.
  destruct (reconstruct_compatible_lemma _ _ _ _ _ _ _ _ _ _ _ HInv2 Hq Hsh H) as (Hent & _ & _ & _ & _ & HF & Hp).
  pose proof HInv2 as [HInv Hperm]. destruct HInv as (Hc & Hshape & Hplace & Hok & Hne). cbn [fst snd] in *.
  destruct (store_nodup _ _ _ Hok) as [Hndst Hndids].
  (* unfold the call to get at the final buckets *)
  unfold ft_reconstruct in H.
  destruct (rc_assign (fF t) (fst q) (snd q)) as [f0| |]; cbn [bind] in H; try discriminate.
  destruct (rc_factors ord0 (fF t) remove ordv keysS f0 []) as [[[keys1 f1] acc1]| |] eqn:E1; cbn [bind] in H; try discriminate.
  inversion H; subst t' entries f'. cbn [fF fcounter fkeys] in *. clear H.
  destruct (rc_factors_sub _ _ _ _ _ _ _ _ _ _ E1) as [Hlen Hsub].
  (* ids: buckets afterwards and returned entries are disjoint when remove = true *)
  set (st' := store_after remove acc1 st).
  assert (Hnd1 : NoDup (map fst (flat keys1 ++ (if remove then acc1 else [])))).
  { eapply Permutation_NoDup; [apply Permutation_map; apply Permutation_sym; exact Hp|exact Hndids]. }
  assert (Hkeep : forall e, In e (flat keys1) -> In e st').
  { intros e He. assert (Hest : In e st) by (eapply Permutation_in; [exact Hp|apply in_or_app; auto]).
    unfold st', store_after. destruct remove; auto. apply filter_In. split; auto.
    unfold not_returned. apply negb_true_iff. destruct (memb (fst e) (map fst acc1)) eqn:Em; auto. exfalso.
    apply memb_in in Em. rewrite map_app in Hnd1. eapply NoDup_app_disj; [exact Hnd1| |exact Em]. apply in_map. exact He. }
  assert (Hback : forall e, In e st' -> In e (flat keys1)).
  { intros e He. unfold st', store_after in He. destruct remove.
    - apply filter_In in He. destruct He as [Hest Hnr].
      assert (Hin : In e (flat keys1 ++ acc1)) by (eapply Permutation_in; [apply Permutation_sym; exact Hp|exact Hest]).
      apply in_app_or in Hin. destruct Hin as [Hin|Hin]; auto. exfalso.
      unfold not_returned in Hnr. apply negb_true_iff in Hnr. assert (memb (fst e) (map fst acc1) = true) by (apply memb_in; apply in_map; auto). congruence.
    - rewrite app_nil_r in Hp. eapply Permutation_in; [apply Permutation_sym; exact Hp|exact He]. }
  assert (Hst'sub : forall e, In e st' -> In e st).
  { intros e He. unfold st', store_after in He. destruct remove; auto. apply filter_In in He. tauto. }
  (* placement of every entry still in a bucket *)
  assert (Hwhere : forall i v b' e, bucket keys1 i v = Some b' -> In e b' -> In e st /\ fkey (snd e) = Some (i, v)).
  { intros i v b' e Hb He. destruct (Hsub _ _ _ Hb) as [bS [HbS Hincl]].
    destruct (shuffle_bucket _ _ _ _ _ Hsh HbS) as [b0 [Hb0 Hpb]].
    apply (proj2 (Hplace _ _ _ Hb0)). eapply Permutation_in; [apply Permutation_sym; exact Hpb|]. apply Hincl. exact He. }
  split; auto. split; auto. split.
  - unfold FInv. cbn [fcounter fkeys fF fst snd]. split; auto. split; [|split; [|split]].
    + rewrite Hlen, (shuffle_shape _ _ Hsh). exact Hshape.
    + intros i v b' Hb. split.
      * destruct (bucket_segment _ _ _ _ Hb) as [A [B E]].
        assert (Hndf : NoDup (map fst (flat keys1))) by (rewrite map_app in Hnd1; eapply NoDup_app_l; eauto).
        rewrite E, !map_app in Hndf. eapply NoDup_segment; eauto.
      * intros e. split.
        -- intros He. destruct (Hwhere _ _ _ _ Hb He) as [_ Hfk]. split; auto. apply Hkeep.
           unfold flat. apply in_rest with (i := 0). exists i, v, b'. split; [lia|auto].
        -- intros [He Hfk]. apply Hback in He. unfold flat in He. apply (in_rest keys1 0 e) in He.
           destruct He as [i' [v' [b'' [_ [Hb'' He]]]]]. destruct (Hwhere _ _ _ _ Hb'' He) as [_ Hfk'].
           rewrite Hfk in Hfk'. inversion Hfk'; subst. rewrite Hb in Hb''. inversion Hb''; subst. exact He.
    + unfold st', store_after. destruct remove; auto. apply store_ok_filter. auto.
    + apply Forall_forall. intros e He. rewrite Forall_forall in Hne. apply Hne. auto.
  - cbn [snd fkeys]. apply NoDup_Permutation.
    + eapply NoDup_map_inv. rewrite map_app in Hnd1. eapply NoDup_app_l; eauto.
    + unfold st', store_after. destruct remove; auto. apply NoDup_filter'. auto.
    + intros e. split; auto.
Qed.

(* the returned factors are EXACTLY what the checker expects: the query's value, else the value of a
   returned entry naming the factor, else the "unset" marker F[k] *)
Theorem reconstruct_factors_exact_lemma : forall t c st q remove ord0 ordv keysS t' entries f',
  FInv2 t (c, st) -> pf_okb (fF t) q = true -> shuffle_of (fkeys t) keysS ->
  ft_reconstruct t q remove ord0 ordv keysS = Ok (t', entries, f') ->
  f' = expected_factors (fF t) q entries.
Proof.
  intros t c st q remove ord0 ordv keysS t' entries f' HInv2 Hq Hsh H.
  destruct (reconstruct_J _ _ _ _ _ _ _ _ _ _ _ HInv2 Hq Hsh H) as (Hl & Jq & Ja & _ & _ & Ju).
  apply list_ext_nth. intros k. destruct (le_lt_dec (length (fF t)) k) as [Hge|Hlt].
  - rewrite (proj2 (nth_error_None f' k)) by lia. symmetry. apply nth_error_None.
    unfold expected_factors. rewrite map_length, seq_length. exact Hge.
  - rewrite expected_nth by auto. destruct (pf_get q k) as [v|] eqn:Eq; [apply Jq; auto|].
    match goal with |- context [match ?X with [] => _ | _ :: _ => _ end] => destruct X as [|e0 l] eqn:Ef end.
    + rewrite (Ju k Eq).
      * rewrite (nth_error_nth' (fF t) 0 Hlt). reflexivity.
      * intros e He. destruct (pf_get (snd e) k) eqn:Ee; auto. exfalso.
        match type of Ef with ?X = _ => assert (Hin : In e X) by (apply filter_In; split; auto; rewrite Ee; reflexivity) end.
        rewrite Ef in Hin. destruct Hin.
    + assert (Hin0 : In e0 (e0 :: l)) by (left; auto). rewrite <- Ef in Hin0. apply filter_In in Hin0. destruct Hin0 as [He0 Hn0].
      destruct (pf_get (snd e0) k) as [v0|] eqn:E0; [|discriminate]. eapply Ja; eauto.
Qed.

(* (c) the model's result satisfies the Prop the driver's checker implies *)
Theorem reconstruct_meets_spec_lemma : forall t c st q remove ord0 ordv keysS t' entries f',
  FInv2 t (c, st) -> pf_okb (fF t) q = true -> shuffle_of (fkeys t) keysS ->
  ft_reconstruct t q remove ord0 ordv keysS = Ok (t', entries, f') ->
  reconstruct_spec st q entries f'.
Proof.
  intros t c st q remove ord0 ordv keysS t' entries f' HInv2 Hq Hsh H.
  destruct (reconstruct_compatible_lemma _ _ _ _ _ _ _ _ _ _ _ HInv2 Hq Hsh H) as (Hent & Hpw & _ & Hfq & Hfe & _ & _).
  split; [|split; [|split]]; auto.
  - intros e He. destruct (Hent e He). split; auto. apply compatible_agree. auto.
  - intros e1 e2 H1 H2. apply compatible_agree. auto.
Qed.
