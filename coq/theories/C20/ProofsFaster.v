(* C20/ProofsFaster.v — FasterTrie: buckets by first (key, value); insert / erase keep the buckets
   equal (as sets without repeated ids) to the stored entries with that first pair; filter returns
   exactly the ids of the compatible stored entries. *)
From Coq Require Import List Arith Bool Sorted Lia.
From AIT Require Import C20.Model C20.Spec C20.ProofsLists C20.ProofsTrie C20.ProofsQuery.
Import ListNotations.

Definition fkey (pf : pfactors) : option (nat * nat) :=
  match fst pf, snd pf with k :: _, v :: _ => Some (k, v) | _, _ => None end.

Definition bucket (ll : list (list (list fentry))) (i j : nat) : option (list fentry) :=
  match nth_error ll i with Some row => nth_error row j | None => None end.

Definition FInv (t : ftrie) (s : sstate) : Prop :=
  fcounter t = fst s /\
  map (@length _) (fkeys t) = fF t /\
  (forall i v b, bucket (fkeys t) i v = Some b ->
     NoDup (map fst b) /\ forall e, In e b <-> In e (snd s) /\ fkey (snd e) = Some (i, v)) /\
  store_ok (fF t) (fst s) (snd s) /\
  Forall (fun e => fkey (snd e) <> None) (snd s).

Lemma upd2_spec : forall (ll : list (list (list fentry))) i j g b, bucket ll i j = Some b ->
  exists ll', upd2 ll i j g = Some ll' /\
    (forall i' j', bucket ll' i' j' = if (i' =? i) && (j' =? j) then Some (g b) else bucket ll i' j') /\
    map (@length _) ll' = map (@length _) ll.
Proof.
  intros ll i j g b Hb. unfold bucket in Hb. unfold upd2.
  destruct (nth_error ll i) as [row|] eqn:Er; [|discriminate].
  destruct (upd_some row j g b Hb) as [row' Eu]. rewrite Eu.
  destruct (upd_some ll i (fun _ => row') row Er) as [ll' Eu']. rewrite Eu'.
  exists ll'. split; auto. split.
  - intros i' j'. unfold bucket. rewrite (upd_nth _ _ _ _ Eu'). destruct (i' =? i) eqn:Ei; cbn [andb].
    + rewrite Er. cbn [option_map]. rewrite (upd_nth _ _ _ _ Eu). destruct (j' =? j) eqn:Ej.
      * rewrite Hb. reflexivity.
      * apply Nat.eqb_eq in Ei. subst. rewrite Er. reflexivity.
    + reflexivity.
  - apply list_ext_nth. intros k. rewrite !nth_error_map. rewrite (upd_nth _ _ _ _ Eu').
    destruct (k =? i) eqn:Ek; auto. apply Nat.eqb_eq in Ek. subst. rewrite Er. cbn [option_map].
    rewrite (upd_length _ _ _ _ Eu). reflexivity.
Qed.

Lemma bucket_exists : forall (keys : list (list (list fentry))) F k v s,
  map (@length _) keys = F -> nth_error F k = Some s -> v < s -> exists b, bucket keys k v = Some b.
Proof.
  intros keys F k v s Hm Hk Hv. unfold bucket. rewrite <- Hm, nth_error_map in Hk.
  destruct (nth_error keys k) as [row|]; [|discriminate]. cbn in Hk. inversion Hk; subst.
  destruct (nth_error row v) as [b|] eqn:E; [eauto|]. apply nth_error_None in E. lia.
Qed.

Lemma NoDup_snoc : forall {A} (l : list A) x, NoDup (l ++ [x]) <-> ~ In x l /\ NoDup l.
Proof.
  induction l as [|y l IH]; intros x; cbn [app].
  - split; [intros _; split; [intros []|constructor]|intros _; constructor; [intros []|constructor]].
  - rewrite !NoDup_cons_iff, IH, in_app_iff. cbn [In]. intuition.
Qed.

Lemma pf_first : forall F pf, pf_okb F pf = true -> negb (length (fst pf) =? 0) = true ->
  exists k0 ks v0 vs s, pf = (k0 :: ks, v0 :: vs) /\ nth_error F k0 = Some s /\ v0 < s.
Proof.
  intros F [[|k0 ks] vals] H Hne; [discriminate|]. unfold pf_okb in H. cbn [fst snd] in H.
  destruct vals as [|v0 vs]; [discriminate|]. cbn [keys_ok] in H. rewrite !andb_true_iff in H. destruct H as [[_ H2] _].
  destruct (nth_error F k0) as [s|] eqn:Es; [|discriminate]. apply Nat.ltb_lt in H2. exists k0, ks, v0, vs, s. split; [reflexivity|]. split; [exact Es|exact H2].
Qed.

Lemma ft_insert_sim : forall t c st pf, FInv t (c, st) -> pf_okb (fF t) pf = true -> negb (length (fst pf) =? 0) = true ->
  exists t', ft_insert t pf = Ok (t', c) /\ fF t' = fF t /\ FInv t' (S c, st ++ [(c, pf)]).
Proof.
  intros t c st pf (Hc & Hshape & Hplace & Hok & Hne) Hpf Hnz. cbn [fst snd] in *.
  destruct (pf_first _ _ Hpf Hnz) as (k0 & ks & v0 & vs & s & -> & Hk & Hv).
  destruct (bucket_exists _ _ _ _ _ Hshape Hk Hv) as [b Hb].
  destruct (upd2_spec (fkeys t) k0 v0 (fun b => b ++ [(fcounter t, (k0 :: ks, v0 :: vs))]) b Hb) as [ll' [Eu [Hbk Hlen]]].
  assert (Hins : ft_insert t (k0 :: ks, v0 :: vs) = Ok (mkFT (fF t) (S (fcounter t)) ll', c)).
  { unfold ft_insert. cbn [fst snd].
    match goal with |- match ?X with _ => _ end = _ => replace X with (Some ll') by (symmetry; exact Eu) end.
    rewrite Hc. reflexivity. }
  eexists. split; [exact Hins|]. cbn [fF]. split; auto.
  unfold FInv. cbn [fcounter fkeys fF fst snd]. split; auto. split; [congruence|]. split; [|split].
  - intros i v b' Hb'. rewrite Hbk in Hb'. destruct ((i =? k0) && (v =? v0)) eqn:E.
    + apply andb_true_iff in E. destruct E as [E1 E2]. apply Nat.eqb_eq in E1, E2. subst i v.
      inversion Hb'; subst b'. destruct (Hplace _ _ _ Hb) as [Hnd Hin]. split.
      * rewrite map_app. cbn [map fst]. apply NoDup_snoc. split; auto. rewrite Hc. intros Hx.
        apply in_map_iff in Hx. destruct Hx as [e [E He]]. apply Hin in He. destruct He as [He _].
        destruct Hok as [_ Hf]. rewrite Forall_forall in Hf. apply Hf in He. lia.
      * intros e. rewrite !in_app_iff, Hin. cbn [In]. rewrite Hc. split.
        -- intros [[H1 H2]|[<-|[]]]; auto.
        -- intros [[H1|[<-|[]]] H2]; auto.
    + destruct (Hplace _ _ _ Hb') as [Hnd Hin]. split; auto. intros e. rewrite Hin, in_app_iff. cbn [In]. split.
      * intros [H1 H2]; auto.
      * intros [[H1|[<-|[]]] H2]; auto. cbn in H2. inversion H2; subst. rewrite !Nat.eqb_refl in E. discriminate.
  - apply store_ok_insert; auto.
  - apply Forall_app. split; auto. constructor; [|constructor]. cbn. discriminate.
Qed.

Lemma rotate_spec : forall (t : list fentry) d, t <> [] ->
  (forall x, In x (last t d :: removelast t) <-> In x t) /\
  (NoDup (map fst t) -> NoDup (map fst (last t d :: removelast t))).
Proof.
  intros t d Hne. pose proof (app_removelast_last d Hne) as E. split.
  - intros x. rewrite E at 3. rewrite in_app_iff. cbn [In]. tauto.
  - intros H. rewrite E in H. rewrite map_app in H. cbn [map] in H. apply NoDup_snoc in H. cbn [map]. constructor; tauto.
Qed.

Lemma swap_remove_spec : forall id b, NoDup (map fst b) ->
  NoDup (map fst (swap_remove id b)) /\ forall e, In e (swap_remove id b) <-> In e b /\ fst e <> id.
Proof.
  induction b as [|e t IH]; intros Hnd; cbn [swap_remove].
  - split; auto. intros e. cbn. tauto.
  - cbn [map] in Hnd. apply NoDup_cons_iff in Hnd. destruct Hnd as [Hnotin Hnd].
    destruct (id =? fst e) eqn:E.
    + apply Nat.eqb_eq in E. subst id. destruct t as [|e2 t'].
      * split; [constructor|]. intros x. cbn. split; [tauto|]. intros [[<-|[]] H]. congruence.
      * assert (Hne : e2 :: t' <> []) by discriminate. destruct (rotate_spec (e2 :: t') e Hne) as [Hin Hnd'].
        split; auto. intros x. rewrite Hin. cbn [In]. split.
        -- intros H. split; auto. intros Hx. apply Hnotin. rewrite <- Hx. apply in_map. exact H.
        -- intros [[<-|H] Hx]; auto. congruence.
    + apply Nat.eqb_neq in E. destruct (IH Hnd) as [Hnd' Hin]. split.
      * cbn [map]. constructor; auto. intros Hx. apply in_map_iff in Hx. destruct Hx as [x [Ex Hx]].
        apply Hin in Hx. apply Hnotin. rewrite <- Ex. apply in_map. tauto.
      * intros x. cbn [In]. rewrite Hin. split.
        -- intros [<-|[H1 H2]]; auto.
        -- intros [[<-|H1] H2]; auto.
Qed.

Lemma ft_erase_sim : forall t c st id pf, FInv t (c, st) -> pf_okb (fF t) pf = true ->
  negb (length (fst pf) =? 0) = true -> erase_okb st id pf = true ->
  exists t', ft_erase t id pf = Ok t' /\ fF t' = fF t /\ FInv t' (c, remove_id id st).
Proof.
  intros t c st id pf (Hc & Hshape & Hplace & Hok & Hne) Hpf Hnz Heok. cbn [fst snd] in *.
  destruct (pf_first _ _ Hpf Hnz) as (k0 & ks & v0 & vs & s & -> & Hk & Hv).
  destruct (bucket_exists _ _ _ _ _ Hshape Hk Hv) as [b Hb].
  destruct (upd2_spec (fkeys t) k0 v0 (swap_remove id) b Hb) as [ll' [Eu [Hbk Hlen]]].
  assert (Hers : ft_erase t id (k0 :: ks, v0 :: vs) = Ok (mkFT (fF t) (fcounter t) ll')).
  { unfold ft_erase. cbn [fst snd].
    match goal with |- match ?X with _ => _ end = _ => replace X with (Some ll') by (symmetry; exact Eu) end.
    reflexivity. }
  eexists. split; [exact Hers|]. cbn [fF]. split; auto.
  unfold FInv. cbn [fcounter fkeys fF fst snd]. split; auto. split; [congruence|]. split; [|split].
  - intros i v b' Hb'. rewrite Hbk in Hb'. unfold remove_id. destruct ((i =? k0) && (v =? v0)) eqn:E.
    + apply andb_true_iff in E. destruct E as [E1 E2]. apply Nat.eqb_eq in E1, E2. subst i v.
      inversion Hb'; subst b'. destruct (Hplace _ _ _ Hb) as [Hnd Hin].
      destruct (swap_remove_spec id b Hnd) as [Hnd' Hin']. split; auto.
      intros e. rewrite Hin', Hin, filter_In, negb_true_iff, Nat.eqb_neq. tauto.
    + destruct (Hplace _ _ _ Hb') as [Hnd Hin]. split; auto. intros e. rewrite Hin, filter_In, negb_true_iff, Nat.eqb_neq.
      split; [|tauto]. intros [H1 H2]. split; auto. split; auto. intros Hid.
      pose proof (erase_okb_spec _ _ _ _ Heok H1 Hid) as Hpf'. rewrite Hpf' in H2. cbn in H2. inversion H2; subst.
      rewrite !Nat.eqb_refl in E. discriminate.
  - apply store_ok_remove; auto.
  - apply Forall_forall. intros e He. apply filter_In in He. rewrite Forall_forall in Hne. apply Hne. tauto.
Qed.

(* ---------- filter ---------- *)

Lemma in_combine_seq : forall (f : list nat) a k v,
  In (k, v) (combine (seq a (length f)) f) <-> exists j, k = a + j /\ nth_error f j = Some v.
Proof.
  induction f as [|x f IH]; intros a k v; cbn [length seq combine In].
  - split; [intros []|]. intros [j [_ H]]. destruct j; discriminate.
  - rewrite IH. split.
    + intros [H|[j [H1 H2]]]; [inversion H; subst; exists 0; split; [lia|reflexivity]|exists (S j); split; [lia|exact H2]].
    + intros [[|j] [H1 H2]]; [left; cbn in H2; inversion H2; subst; f_equal; lia|right; exists j; split; [lia|exact H2]].
Qed.

Lemma compat_query : forall f pf,
  compatible (query_of_factors f 0) pf <-> forall k w, pf_get pf k = Some w -> k < length f -> nth_error f k = Some w.
Proof.
  intros f pf. unfold compatible, pairs, query_of_factors. cbn [fst snd]. split.
  - intros H k w Hw Hk. destruct (nth_error f k) as [v|] eqn:E; [|apply nth_error_None in E; lia].
    f_equal. symmetry. apply (H k v); auto. apply in_combine_seq. exists k. auto.
  - intros H k v Hin w Hw. apply in_combine_seq in Hin. destruct Hin as [j [-> Hj]]. cbn in *.
    assert (j < length f) by (apply nth_error_Some; congruence). specialize (H j w Hw H0). congruence.
Qed.

Lemma pf_get_go_ge : forall F ks vs lo k w, keys_ok F lo ks vs = true -> pf_get_go ks vs k = Some w -> lo <= k.
Proof.
  intros F ks vs lo k w H Hg. destruct (le_lt_dec lo k); auto.
  rewrite (pf_get_go_none F ks vs lo k H l) in Hg. discriminate.
Qed.

Lemma mp_loop_spec : forall ks vs n lo F f, keys_ok F lo ks vs = true -> length f <= n + lo ->
  exists b, mp_loop f ks vs n = Ok b /\
            (b = true <-> forall k w, pf_get_go ks vs k = Some w -> k < length f -> nth_error f k = Some w).
Proof.
  induction ks as [|k0 ks IH]; intros vs n lo F f Hok Hn.
  - exists true. split; [destruct n; reflexivity|]. split; auto. intros _ k w H. discriminate.
  - destruct vs as [|v0 vs]; [discriminate|]. pose proof Hok as Hok'. cbn [keys_ok] in Hok'. rewrite !andb_true_iff in Hok'.
    destruct Hok' as [[H1 H2] H3]. apply Nat.leb_le in H1.
    assert (Hvac : length f <= k0 -> forall k w, pf_get_go (k0 :: ks) (v0 :: vs) k = Some w -> k < length f -> nth_error f k = Some w).
    { intros Hle k w Hg Hk. pose proof (pf_get_go_ge F _ _ k0 k w (keys_ok_lo F lo k0 k0 ks v0 vs Hok (le_n _)) Hg). lia. }
    destruct n as [|n].
    + exists true. split; auto. split; auto. intros _. apply Hvac. lia.
    + cbn [mp_loop]. destruct (length f <=? k0) eqn:E.
      * apply Nat.leb_le in E. exists true. split; auto. split; auto.
      * apply Nat.leb_gt in E. destruct (nth_error f k0) as [fv|] eqn:Ef; [|apply nth_error_None in Ef; lia].
        destruct (fv =? v0) eqn:Ev.
        -- apply Nat.eqb_eq in Ev. subst fv. destruct (IH vs n (S k0) F f H3) as [b [Eb Hb]]; [lia|].
           exists b. split; auto. rewrite Hb. split.
           ++ intros H k w Hg Hk. cbn [pf_get_go] in Hg. destruct (k0 =? k) eqn:Ek.
              ** apply Nat.eqb_eq in Ek. subst. congruence.
              ** apply H; auto.
           ++ intros H k w Hg Hk. apply H; auto. cbn [pf_get_go]. destruct (k0 =? k) eqn:Ek; auto.
              apply Nat.eqb_eq in Ek. subst. pose proof (pf_get_go_ge F _ _ _ _ _ H3 Hg). lia.
        -- apply Nat.eqb_neq in Ev. exists false. split; auto. split; [discriminate|]. intros H. exfalso.
           specialize (H k0 v0). cbn [pf_get_go] in H. rewrite Nat.eqb_refl in H. specialize (H eq_refl E). congruence.
Qed.

Lemma filter_bucket_spec : forall F f i fv b, i < length f -> nth_error f i = Some fv ->
  (forall e, In e b -> pf_okb F (snd e) = true /\ fkey (snd e) = Some (i, fv)) ->
  exists l, filter_bucket f b (length f - i) = Ok l /\
            forall id, In id l <-> exists e, In e b /\ fst e = id /\ compatible (query_of_factors f 0) (snd e).
Proof.
  intros F f i fv. induction b as [|[id pf] b IH]; intros Hi Hf Hall.
  - exists []. split; auto. intros id. split; [intros []|intros [e [[] _]]].
  - destruct IH as [l [El Hl]]; auto. { intros e He. apply Hall. right; auto. }
    destruct (Hall (id, pf) (or_introl eq_refl)) as [Hpf Hk]. cbn [snd] in *.
    destruct pf as [[|k0 ks] [|v0 vs]]; try discriminate. cbn in Hk. inversion Hk; subst k0 v0.
    unfold pf_okb in Hpf. cbn [fst snd keys_ok] in Hpf. rewrite !andb_true_iff in Hpf. destruct Hpf as [[_ _] H3].
    destruct (mp_loop_spec ks vs (length f - i - 1) (S i) F f H3) as [bm [Em Hm]]; [lia|].
    cbn [filter_bucket]. unfold matchPartial. cbn [fst snd tl]. rewrite Em. cbn [bind]. rewrite El. cbn [bind].
    assert (Hc : bm = true <-> compatible (query_of_factors f 0) (i :: ks, fv :: vs)).
    { rewrite Hm, compat_query. unfold pf_get. cbn [fst snd]. split.
      - intros H k w Hg Hk'. cbn [pf_get_go] in Hg. destruct (i =? k) eqn:Ek.
        + apply Nat.eqb_eq in Ek. subst. congruence.
        + apply H; auto.
      - intros H k w Hg Hk'. apply H; auto. cbn [pf_get_go]. destruct (i =? k) eqn:Ek; auto.
        apply Nat.eqb_eq in Ek. subst. pose proof (pf_get_go_ge F _ _ _ _ _ H3 Hg). lia. }
    eexists. split; [reflexivity|]. intros x. destruct bm.
    + cbn [In]. rewrite Hl. split.
      * intros [<-|[e [He H]]]; [exists (id, (i :: ks, fv :: vs)); split; [left; auto|split; auto; apply Hc; auto]|exists e; split; [right|]; tauto].
      * intros [e [[<-|He] [H1 H2]]]; [left; auto|right; exists e; auto].
    + rewrite Hl. split.
      * intros [e [He H]]. exists e. split; [right|]; tauto.
      * intros [e [[<-|He] [H1 H2]]]; [|exists e; auto]. cbn [snd] in H2. apply Hc in H2. discriminate.
Qed.

Lemma in_skipn_nth : forall {A} (l : list A) i x, In x (skipn i l) <-> exists j, i <= j /\ nth_error l j = Some x.
Proof.
  induction l as [|y l IH]; intros i x.
  - rewrite skipn_nil. split; [intros []|]. intros [j [_ H]]. destruct j; discriminate.
  - destruct i as [|i]; cbn [skipn].
    + split.
      * intros H. apply In_nth_error in H. destruct H as [j Hj]. exists j. split; [lia|auto].
      * intros [j [_ H]]. eapply nth_error_In; eauto.
    + rewrite IH. split.
      * intros [j [H1 H2]]. exists (S j). split; [lia|auto].
      * intros [[|j] [H1 H2]]; [lia|]. exists j. split; [lia|auto].
Qed.

Lemma in_rest : forall (keys : list (list (list fentry))) i e,
  In e (concat (concat (skipn i keys))) <-> exists i' v b, i <= i' /\ bucket keys i' v = Some b /\ In e b.
Proof.
  intros keys i e. rewrite in_concat. split.
  - intros [b [Hb He]]. apply in_concat in Hb. destruct Hb as [row [Hrow Hb]].
    apply in_skipn_nth in Hrow. destruct Hrow as [i' [Hi' Hrow]]. apply In_nth_error in Hb. destruct Hb as [v Hv].
    exists i', v, b. unfold bucket. rewrite Hrow. auto.
  - intros [i' [v [b [Hi' [Hb He]]]]]. unfold bucket in Hb. destruct (nth_error keys i') as [row|] eqn:Er; [|discriminate].
    exists b. split; auto. apply in_concat. exists row. split; [apply in_skipn_nth; eauto|eapply nth_error_In; eauto].
Qed.

Definition first_ge (i : nat) (pf : pfactors) : Prop := exists k v, fkey pf = Some (k, v) /\ i <= k.

Lemma ft_filter_go_spec : forall t c st f, FInv t (c, st) -> pf_okb (fF t) (query_of_factors f 0) = true ->
  forall frest i keys', skipn i (fkeys t) = keys' -> skipn i f = frest -> i <= length f ->
  exists l, ft_filter_go keys' f frest i = Ok l /\
    forall id, In id l <-> exists e, In e st /\ fst e = id /\ first_ge i (snd e) /\ compatible (query_of_factors f 0) (snd e).
Proof.
  intros t c st f (Hc & Hshape & Hplace & Hok & Hne) Hq. cbn [fst snd] in *.
  assert (Hstore : forall e, In e st -> exists k ks v vs s, snd e = (k :: ks, v :: vs) /\ nth_error (fF t) k = Some s /\ v < s /\
                                                   pf_okb (fF t) (snd e) = true).
  { intros e He. destruct Hok as [_ Hf]. rewrite Forall_forall in Hf, Hne. destruct (Hf e He) as [_ Hpf]. specialize (Hne e He).
    destruct (snd e) as [[|k ks] [|v vs]] eqn:E; cbn in Hne; try congruence.
    destruct (pf_first (fF t) (k :: ks, v :: vs) Hpf eq_refl) as (k0 & ks0 & v0 & vs0 & s & E' & Hk & Hv). inversion E'; subst.
      exists k0, ks0, v0, vs0, s. auto. }
  induction frest as [|fv frest IH]; intros i keys' Hk Hf Hi.
  - assert (i = length f).
    { destruct (le_lt_dec (length f) i); [lia|]. exfalso. assert (length (skipn i f) = length f - i) by apply skipn_length.
      rewrite Hf in H. cbn in H. lia. }
    subst i. exists (map fst (concat (concat keys'))). split; [destruct keys'; reflexivity|].
    intros id. rewrite in_map_iff. subst keys'. split.
    + intros [e [<- He]]. apply in_rest in He. destruct He as [i' [v [b [Hi' [Hb He]]]]].
      destruct (Hplace _ _ _ Hb) as [_ Hin]. apply Hin in He. destruct He as [He Hfk].
      exists e. split; auto. split; auto. split; [exists i', v; auto|].
      apply compat_query. intros k w Hg Hk'. exfalso.
      destruct (Hstore e He) as (k0 & ks & v0 & vs & s & E & _ & _ & Hpf). rewrite E in *. cbn in Hfk. inversion Hfk; subst.
      unfold pf_get in Hg. cbn [fst snd] in Hg. pose proof (pf_get_go_ge _ _ _ _ _ _ Hpf Hg) as _.
      unfold pf_okb in Hpf. cbn [fst snd] in Hpf.
      pose proof (pf_get_go_ge (fF t) _ _ i' k w (keys_ok_lo (fF t) 0 i' i' ks v vs Hpf (le_n _)) Hg). lia.
    + intros [e [He [<- [[k [v [Hfk Hge]]] _]]]]. exists e. split; auto. apply in_rest.
      destruct (Hstore e He) as (k0 & ks & v0 & vs & s & E & Hk0 & Hv0 & _). rewrite E in Hfk. cbn in Hfk. inversion Hfk; subst.
      destruct (bucket_exists _ _ _ _ _ Hshape Hk0 Hv0) as [b Hb]. exists k, v, b. split; auto. split; auto.
      apply (proj2 (Hplace _ _ _ Hb)). split; auto. rewrite E. reflexivity.
  - assert (Hi' : i < length f).
    { destruct (le_lt_dec (length f) i); auto. rewrite skipn_all2 in Hf by lia. discriminate. }
    destruct (skipn_cons _ _ _ _ Hf) as [Hfi Hf'].
    (* f[i] is in range *)
    unfold pf_okb, query_of_factors in Hq. cbn [fst snd] in Hq.
    destruct (keys_ok_pairs _ _ _ _ i fv Hq) as [s [Hs Hv]]. { apply in_combine_seq. exists i. auto. }
    destruct (bucket_exists _ _ _ _ _ Hshape Hs Hv) as [b Hb].
    unfold bucket in Hb. destruct (nth_error (fkeys t) i) as [row|] eqn:Er; [|discriminate].
    rewrite (nth_skipn_cons i _ _ Er) in Hk. subst keys'. cbn [ft_filter_go]. rewrite Hb.
    assert (Hb' : bucket (fkeys t) i fv = Some b) by (unfold bucket; rewrite Er; auto).
    destruct (Hplace _ _ _ Hb') as [_ Hin].
    destruct (filter_bucket_spec (fF t) f i fv b Hi' Hfi) as [l1 [E1 H1]].
    { intros e He. apply Hin in He. destruct He as [He Hfk]. split; auto. destruct (Hstore e He) as (? & ? & ? & ? & ? & _ & _ & _ & Hpf). auto. }
    rewrite E1. cbn [bind].
    destruct (IH (S i) (skipn (S i) (fkeys t)) eq_refl Hf') as [l2 [E2 H2]]; [lia|]. rewrite E2. cbn [bind].
    eexists. split; [reflexivity|]. intros id. rewrite in_app_iff, H1, H2. split.
    + intros [[e [He [Hid Hcp]]]|[e [He [Hid [[k [v [Hfk Hge]]] Hcp]]]]].
      * apply Hin in He. destruct He as [He Hfk]. exists e. repeat split; auto. exists i, fv. auto.
      * exists e. repeat split; auto. exists k, v. split; auto. lia.
    + intros [e [He [Hid [[k [v [Hfk Hge]]] Hcp]]]]. destruct (Nat.eq_dec k i) as [->|Hne'].
      * left. exists e. split; auto. apply Hin. split; auto.
        (* the first value must be f[i] *)
        rewrite compat_query in Hcp. destruct (Hstore e He) as (k0 & ks & v0 & vs & s' & E & _). rewrite E in Hfk. cbn in Hfk. inversion Hfk; subst.
        specialize (Hcp i v). rewrite E in Hcp. unfold pf_get in Hcp. cbn [fst snd pf_get_go] in Hcp. rewrite Nat.eqb_refl in Hcp.
        specialize (Hcp eq_refl Hi'). rewrite E. cbn. congruence.
      * right. exists e. repeat split; auto. exists k, v. split; auto. lia.
Qed.

Lemma ft_filter_sim : forall t c st f, FInv t (c, st) -> pf_okb (fF t) (query_of_factors f 0) = true ->
  exists l, ft_filter t f = Ok l /\
    forall id, In id l <-> exists pf, In (id, pf) st /\ compatible (query_of_factors f 0) pf.
Proof.
  intros t c st f HInv Hq. destruct (ft_filter_go_spec t c st f HInv Hq f 0 (fkeys t) eq_refl eq_refl) as [l [E H]]; [lia|].
  exists l. split; auto. intros id. rewrite H. split.
  - intros [[i pf] [He [Hid [_ Hc]]]]. cbn in Hid. subst i. exists pf. auto.
  - intros [pf [He Hc]]. exists (id, pf). repeat split; auto.
    destruct HInv as (_ & _ & _ & _ & Hne). cbn [snd] in Hne. rewrite Forall_forall in Hne. specialize (Hne _ He). cbn [snd] in Hne.
    destruct (fkey pf) as [[k v]|] eqn:Efk; [|congruence]. exists k, v. split; auto. lia.
Qed.

(* ---------- histories ---------- *)

Lemma ft_new_inv : forall F, FInv (ft_new F) (0, []).
Proof.
  intros F. unfold FInv, ft_new. cbn [fcounter fkeys fF fst snd]. split; auto. split; [|split; [|split]].
  - rewrite map_map. rewrite <- (map_id F) at 2. apply map_ext. intros s. apply repeat_length.
  - intros i v b Hb. unfold bucket in Hb. rewrite nth_error_map in Hb. destruct (nth_error F i) as [s|]; [|discriminate].
    cbn in Hb. apply nth_error_In in Hb. apply repeat_spec in Hb. subst b. split; [constructor|]. intros e. cbn. tauto.
  - split; constructor.
  - constructor.
Qed.

Lemma ft_step_sim : forall t s o, FInv t s -> ft_op_okb (fF t) s o = true ->
  exists t' r, ft_step t o = Ok (t', r) /\ fF t' = fF t /\ FInv t' (fst (spec_step s o)).
Proof.
  intros t [c st] o HInv Hop. destruct o; cbn [ft_op_okb] in Hop; try discriminate; cbn [ft_step spec_step fst snd].
  - apply andb_true_iff in Hop. destruct Hop as [H1 H2].
    destruct (ft_insert_sim t c st pf HInv H1 H2) as [t' [E [HF HI]]]. rewrite E. cbn [bind]. eauto.
  - rewrite !andb_true_iff in Hop. destruct Hop as [[H1 H2] H3]. cbn [snd] in H3.
    destruct (ft_erase_sim t c st id pf HInv H1 H2 H3) as [t' [E [HF HI]]]. rewrite E. cbn [bind]. eauto.
  - apply andb_true_iff in Hop. destruct Hop as [_ H2].
    destruct (ft_filter_sim t c st f HInv H2) as [l [E _]]. rewrite E. cbn [bind]. eauto.
  - eauto.
Qed.

Lemma ft_run_sim : forall ops t s, FInv t s -> ft_hist_okb (fF t) s ops = true ->
  exists t' outs, ft_run t ops = Ok (t', outs) /\ fF t' = fF t /\ FInv t' (fst (spec_run s ops)).
Proof.
  induction ops as [|o ops IH]; intros t s HInv Hh; cbn [ft_run spec_run ft_hist_okb] in *.
  - exists t, []. auto.
  - apply andb_true_iff in Hh. destruct Hh as [H1 H2].
    destruct (ft_step_sim t s o HInv H1) as [t1 [r1 [E1 [HF1 HI1]]]]. rewrite E1. cbn [bind].
    destruct (spec_step s o) as [s1 r1'] eqn:Es. cbn [fst snd] in *. rewrite <- HF1 in H2.
    destruct (IH t1 s1 HI1 H2) as [t2 [outs [E2 [HF2 HI2]]]]. rewrite E2. cbn [bind].
    destruct (spec_run s1 ops) as [s2 rs] eqn:Er. cbn [fst snd] in *.
    exists t2, (r1 :: outs). split; [reflexivity|]. split; [congruence|exact HI2].
Qed.

Theorem FasterTrie_filter_exact_lemma : forall F ops f, ft_history_ok F ops ->
  pf_okb F (query_of_factors f 0) = true ->
  exists t outs l, ft_history F ops = Ok (t, outs) /\ ft_filter t f = Ok l /\
    forall id, In id l <-> exists pf, In (id, pf) (spec_store ops) /\ compatible (query_of_factors f 0) pf.
Proof.
  intros F ops f Hh Hq. unfold ft_history.
  destruct (ft_run_sim ops (ft_new F) (0, []) (ft_new_inv F) Hh) as [t [outs [E [HF HI]]]].
  cbn [ft_new fF] in HF. unfold spec_store, spec_state. destruct (fst (spec_run (0, []) ops)) as [c st]. cbn [snd].
  rewrite <- HF in Hq. destruct (ft_filter_sim t c st f HI Hq) as [l [El Hl]].
  exists t, outs, l. auto.
Qed.
