(* C20/ProofsFaster.v — FasterTrie: buckets by first (key, value); insert / erase keep the buckets
   equal (as sets without repeated ids) to the stored entries with that first pair; filter returns
   exactly the ids of the compatible stored entries. *)
From Coq Require Import List Arith Bool Sorted Lia Permutation.
From AIT Require Import C20.Model C20.Spec C20.ProofsLists C20.ProofsTrie C20.ProofsQuery C20.Proofs.
Import ListNotations.

Definition fkey (pf : pfactors) : option (nat * nat) :=
  match fst pf, snd pf with k :: _, v :: _ => Some (k, v) | _, _ => None end.

Definition bucket (ll : list (list (list fentry))) (i j : nat) : option (list fentry) :=
  match nth_error ll i with Some row => nth_error row j | None => None end.

Definition FInv (t : ftrie) (s : sstate) : Prop :=
  fcounter t = fst s /\
  map (@length _) (fkeys t) = fF t /\
  (forall i v b, bucket (fkeys t) i v = Some b ->
     NoDup (map fst b) /\ forall e, In e b <-> In e (snd s) /\ fkey (snd e) = Some (i, v)) /\
  store_ok (fF t) (fst s) (snd s) /\
  Forall (fun e => fkey (snd e) <> None) (snd s).

Lemma upd2_spec : forall (ll : list (list (list fentry))) i j g b, bucket ll i j = Some b ->
  exists ll', upd2 ll i j g = Some ll' /\
    (forall i' j', bucket ll' i' j' = if (i' =? i) && (j' =? j) then Some (g b) else bucket ll i' j') /\
    map (@length _) ll' = map (@length _) ll.
Proof.
  intros ll i j g b Hb. unfold bucket in Hb. unfold upd2.
  destruct (nth_error ll i) as [row|] eqn:Er; [|discriminate].
  destruct (upd_some row j g b Hb) as [row' Eu]. rewrite Eu.
  destruct (upd_some ll i (fun _ => row') row Er) as [ll' Eu']. rewrite Eu'.
  exists ll'. split; auto. split.
  - intros i' j'. unfold bucket. rewrite (upd_nth _ _ _ _ Eu'). destruct (i' =? i) eqn:Ei; cbn [andb].
    + rewrite Er. cbn [option_map]. rewrite (upd_nth _ _ _ _ Eu). destruct (j' =? j) eqn:Ej.
      * rewrite Hb. reflexivity.
      * apply Nat.eqb_eq in Ei. subst. rewrite Er. reflexivity.
    + reflexivity.
  - apply list_ext_nth. intros k. rewrite !nth_error_map. rewrite (upd_nth _ _ _ _ Eu').
    destruct (k =? i) eqn:Ek; auto. apply Nat.eqb_eq in Ek. subst. rewrite Er. cbn [option_map].
    rewrite (upd_length _ _ _ _ Eu). reflexivity.
Qed.

Lemma bucket_exists : forall (keys : list (list (list fentry))) F k v s,
  map (@length _) keys = F -> nth_error F k = Some s -> v < s -> exists b, bucket keys k v = Some b.
Proof.
  intros keys F k v s Hm Hk Hv. unfold bucket. rewrite <- Hm, nth_error_map in Hk.
  destruct (nth_error keys k) as [row|]; [|discriminate]. cbn in Hk. inversion Hk; subst.
  destruct (nth_error row v) as [b|] eqn:E; [eauto|]. apply nth_error_None in E. lia.
Qed.

Lemma NoDup_snoc : forall {A} (l : list A) x, NoDup (l ++ [x]) <-> ~ In x l /\ NoDup l.
Proof.
  induction l as [|y l IH]; intros x; cbn [app].
  - split; [intros _; split; [intros []|constructor]|intros _; constructor; [intros []|constructor]].
  - rewrite !NoDup_cons_iff, IH, in_app_iff. cbn [In]. intuition.
Qed.

Lemma pf_first : forall F pf, pf_okb F pf = true -> negb (length (fst pf) =? 0) = true ->
  exists k0 ks v0 vs s, pf = (k0 :: ks, v0 :: vs) /\ nth_error F k0 = Some s /\ v0 < s.
Proof.
  intros F [[|k0 ks] vals] H Hne; [discriminate|]. unfold pf_okb in H. cbn [fst snd] in H.
  destruct vals as [|v0 vs]; [discriminate|]. cbn [keys_ok] in H. rewrite !andb_true_iff in H. destruct H as [[_ H2] _].
  destruct (nth_error F k0) as [s|] eqn:Es; [|discriminate]. apply Nat.ltb_lt in H2. exists k0, ks, v0, vs, s. split; [reflexivity|]. split; [exact Es|exact H2].
Qed.

Lemma ft_insert_sim : forall t c st pf, FInv t (c, st) -> pf_okb (fF t) pf = true -> negb (length (fst pf) =? 0) = true ->
  exists t', ft_insert t pf = Ok (t', c) /\ fF t' = fF t /\ FInv t' (S c, st ++ [(c, pf)]).
Proof.
  intros t c st pf (Hc & Hshape & Hplace & Hok & Hne) Hpf Hnz. cbn [fst snd] in *.
  destruct (pf_first _ _ Hpf Hnz) as (k0 & ks & v0 & vs & s & -> & Hk & Hv).
  destruct (bucket_exists _ _ _ _ _ Hshape Hk Hv) as [b Hb].
  destruct (upd2_spec (fkeys t) k0 v0 (fun b => b ++ [(fcounter t, (k0 :: ks, v0 :: vs))]) b Hb) as [ll' [Eu [Hbk Hlen]]].
  assert (Hins : ft_insert t (k0 :: ks, v0 :: vs) = Ok (mkFT (fF t) (S (fcounter t)) ll', c)).
  { unfold ft_insert. cbn [fst snd].
    match goal with |- match ?X with _ => _ end = _ => replace X with (Some ll') by (symmetry; exact Eu) end.
    rewrite Hc. reflexivity. }
  eexists. split; [exact Hins|]. cbn [fF]. split; auto.
  unfold FInv. cbn [fcounter fkeys fF fst snd]. split; auto. split; [congruence|]. split; [|split].
  - intros i v b' Hb'. rewrite Hbk in Hb'. destruct ((i =? k0) && (v =? v0)) eqn:E.
    + apply andb_true_iff in E. destruct E as [E1 E2]. apply Nat.eqb_eq in E1, E2. subst i v.
      inversion Hb'; subst b'. destruct (Hplace _ _ _ Hb) as [Hnd Hin]. split.
      * rewrite map_app. cbn [map fst]. apply NoDup_snoc. split; auto. rewrite Hc. intros Hx.
        apply in_map_iff in Hx. destruct Hx as [e [E He]]. apply Hin in He. destruct He as [He _].
        destruct Hok as [_ Hf]. rewrite Forall_forall in Hf. apply Hf in He. lia.
      * intros e. rewrite !in_app_iff, Hin. cbn [In]. rewrite Hc. split.
        -- intros [[H1 H2]|[<-|[]]]; auto.
        -- intros [[H1|[<-|[]]] H2]; auto.
    + destruct (Hplace _ _ _ Hb') as [Hnd Hin]. split; auto. intros e. rewrite Hin, in_app_iff. cbn [In]. split.
      * intros [H1 H2]; auto.
      * intros [[H1|[<-|[]]] H2]; auto. cbn in H2. inversion H2; subst. rewrite !Nat.eqb_refl in E. discriminate.
  - apply store_ok_insert; auto.
  - apply Forall_app. split; auto. constructor; [|constructor]. cbn. discriminate.
Qed.

Lemma rotate_spec : forall (t : list fentry) d, t <> [] ->
  (forall x, In x (last t d :: removelast t) <-> In x t) /\
  (NoDup (map fst t) -> NoDup (map fst (last t d :: removelast t))).
Proof.
  intros t d Hne. pose proof (app_removelast_last d Hne) as E. split.
  - intros x. rewrite E at 3. rewrite in_app_iff. cbn [In]. tauto.
  - intros H. rewrite E in H. rewrite map_app in H. cbn [map] in H. apply NoDup_snoc in H. cbn [map]. constructor; tauto.
Qed.

Lemma swap_remove_spec : forall id b, NoDup (map fst b) ->
  NoDup (map fst (swap_remove id b)) /\ forall e, In e (swap_remove id b) <-> In e b /\ fst e <> id.
Proof.
  induction b as [|e t IH]; intros Hnd; cbn [swap_remove].
  - split; auto. intros e. cbn. tauto.
  - cbn [map] in Hnd. apply NoDup_cons_iff in Hnd. destruct Hnd as [Hnotin Hnd].
    destruct (id =? fst e) eqn:E.
    + apply Nat.eqb_eq in E. subst id. destruct t as [|e2 t'].
      * split; [constructor|]. intros x. cbn. split; [tauto|]. intros [[<-|[]] H]. congruence.
      * assert (Hne : e2 :: t' <> []) by discriminate. destruct (rotate_spec (e2 :: t') e Hne) as [Hin Hnd'].
        split; auto. intros x. rewrite Hin. cbn [In]. split.
        -- intros H. split; auto. intros Hx. apply Hnotin. rewrite <- Hx. apply in_map. exact H.
        -- intros [[<-|H] Hx]; auto. congruence.
    + apply Nat.eqb_neq in E. destruct (IH Hnd) as [Hnd' Hin]. split.
      * cbn [map]. constructor; auto. intros Hx. apply in_map_iff in Hx. destruct Hx as [x [Ex Hx]].
        apply Hin in Hx. apply Hnotin. rewrite <- Ex. apply in_map. tauto.
      * intros x. cbn [In]. rewrite Hin. split.
        -- intros [<-|[H1 H2]]; auto.
        -- intros [[<-|H1] H2]; auto.
Qed.

Lemma ft_erase_sim : forall t c st id pf, FInv t (c, st) -> pf_okb (fF t) pf = true ->
  negb (length (fst pf) =? 0) = true -> erase_okb st id pf = true ->
  exists t', ft_erase t id pf = Ok t' /\ fF t' = fF t /\ FInv t' (c, remove_id id st).
Proof.
  intros t c st id pf (Hc & Hshape & Hplace & Hok & Hne) Hpf Hnz Heok. cbn [fst snd] in *.
  destruct (pf_first _ _ Hpf Hnz) as (k0 & ks & v0 & vs & s & -> & Hk & Hv).
  destruct (bucket_exists _ _ _ _ _ Hshape Hk Hv) as [b Hb].
  destruct (upd2_spec (fkeys t) k0 v0 (swap_remove id) b Hb) as [ll' [Eu [Hbk Hlen]]].
  assert (Hers : ft_erase t id (k0 :: ks, v0 :: vs) = Ok (mkFT (fF t) (fcounter t) ll')).
  { unfold ft_erase. cbn [fst snd].
    match goal with |- match ?X with _ => _ end = _ => replace X with (Some ll') by (symmetry; exact Eu) end.
    reflexivity. }
  eexists. split; [exact Hers|]. cbn [fF]. split; auto.
  unfold FInv. cbn [fcounter fkeys fF fst snd]. split; auto. split; [congruence|]. split; [|split].
  - intros i v b' Hb'. rewrite Hbk in Hb'. unfold remove_id. destruct ((i =? k0) && (v =? v0)) eqn:E.
    + apply andb_true_iff in E. destruct E as [E1 E2]. apply Nat.eqb_eq in E1, E2. subst i v.
      inversion Hb'; subst b'. destruct (Hplace _ _ _ Hb) as [Hnd Hin].
      destruct (swap_remove_spec id b Hnd) as [Hnd' Hin']. split; auto.
      intros e. rewrite Hin', Hin, filter_In, negb_true_iff, Nat.eqb_neq. tauto.
    + destruct (Hplace _ _ _ Hb') as [Hnd Hin]. split; auto. intros e. rewrite Hin, filter_In, negb_true_iff, Nat.eqb_neq.
      split; [|tauto]. intros [H1 H2]. split; auto. split; auto. intros Hid.
      pose proof (erase_okb_spec _ _ _ _ Heok H1 Hid) as Hpf'. rewrite Hpf' in H2. cbn in H2. inversion H2; subst.
      rewrite !Nat.eqb_refl in E. discriminate.
  - apply store_ok_remove; auto.
  - apply Forall_forall. intros e He. apply filter_In in He. rewrite Forall_forall in Hne. apply Hne. tauto.
Qed.

(* ---------- the buckets as one multiset: flat = concat (concat keys_) ---------- *)

Definition flat (ll : list (list (list fentry))) : list fentry := concat (concat ll).

Lemma upd_split : forall {A} (l : list A) n g l' x, upd l n g = Some l' -> nth_error l n = Some x ->
  exists l1 l2, l = l1 ++ x :: l2 /\ l' = l1 ++ g x :: l2.
Proof.
  induction l as [|y l IH]; intros n g l' x Hu Hn; destruct n; cbn in Hn; try discriminate.
  - inversion Hn; subst. cbn [upd] in Hu. inversion Hu; subst. exists [], l. auto.
  - cbn [upd] in Hu. destruct (upd l n g) as [t|] eqn:E; [|discriminate]. inversion Hu; subst.
    destruct (IH _ _ _ _ E Hn) as [l1 [l2 [-> ->]]]. exists (y :: l1), l2. auto.
Qed.

Lemma upd2_flat : forall ll i j g b ll', bucket ll i j = Some b -> upd2 ll i j g = Some ll' ->
  exists A B, flat ll = A ++ b ++ B /\ flat ll' = A ++ g b ++ B.
Proof.
  intros ll i j g b ll' Hb Hu. unfold bucket in Hb. unfold upd2 in Hu.
  destruct (nth_error ll i) as [row|] eqn:Er; [|discriminate].
  destruct (upd row j g) as [row'|] eqn:Eu; [|discriminate].
  destruct (upd_split _ _ _ _ _ Eu Hb) as [r1 [r2 [-> ->]]].
  destruct (upd_split _ _ _ _ _ Hu Er) as [L1 [L2 [-> ->]]].
  exists (concat (concat L1) ++ concat r1), (concat r2 ++ concat (concat L2)). unfold flat.
  rewrite !concat_app. cbn [concat]. rewrite !concat_app. cbn [concat]. rewrite <- !app_assoc. auto.
Qed.

Lemma NoDup_app_disj : forall {A} (l1 l2 : list A) x, NoDup (l1 ++ l2) -> In x l1 -> In x l2 -> False.
Proof.
  induction l1 as [|y l1 IH]; intros l2 x H H1 H2; [destruct H1|]. cbn [app] in H. apply NoDup_cons_iff in H. destruct H as [Hn H].
  destruct H1 as [->|H1]; [apply Hn; apply in_or_app; auto|eauto].
Qed.

Lemma NoDup_app_intro : forall {A} (l1 l2 : list A), NoDup l1 -> NoDup l2 -> (forall x, In x l1 -> In x l2 -> False) -> NoDup (l1 ++ l2).
Proof.
  induction l1 as [|y l1 IH]; intros l2 H1 H2 Hd; cbn [app]; auto. apply NoDup_cons_iff in H1. destruct H1 as [Hn H1].
  constructor.
  - intros Hin. apply in_app_or in Hin. destruct Hin; [auto|]. apply (Hd y); auto. left; auto.
  - apply IH; auto. intros x Hx. apply Hd. right; auto.
Qed.

Lemma NoDup_app_r : forall {A} (l1 l2 : list A), NoDup (l1 ++ l2) -> NoDup l2.
Proof. induction l1 as [|y l1 IH]; intros l2 H; auto. cbn [app] in H. apply NoDup_cons_iff in H. apply IH. tauto. Qed.

Lemma perm_filter : forall {A} (p : A -> bool) l l', Permutation l l' -> Permutation (List.filter p l) (List.filter p l').
Proof.
  intros A p l l' H. induction H; cbn [List.filter]; auto.
  - destruct (p x); auto.
  - destruct (p x); destruct (p y); auto. apply perm_swap.
  - eapply perm_trans; eauto.
Qed.

Lemma filter_id : forall {A} (p : A -> bool) l, (forall x, In x l -> p x = true) -> List.filter p l = l.
Proof.
  induction l as [|x l IH]; intros H; cbn [List.filter]; auto. rewrite (H x (or_introl eq_refl)). f_equal. apply IH.
  intros y Hy. apply H. right; auto.
Qed.

Lemma swap_remove_perm : forall id b, NoDup (map fst b) ->
  Permutation (swap_remove id b) (List.filter (fun e => negb (fst e =? id)) b).
Proof.
  induction b as [|e t IH]; intros Hnd; cbn [swap_remove List.filter]; auto.
  cbn [map] in Hnd. apply NoDup_cons_iff in Hnd. destruct Hnd as [Hnotin Hnd].
  destruct (id =? fst e) eqn:E.
  - apply Nat.eqb_eq in E. subst id. rewrite Nat.eqb_refl. cbn [negb].
    rewrite filter_id.
    + destruct t as [|e2 t']; auto. assert (Hne : e2 :: t' <> []) by discriminate.
      rewrite (app_removelast_last e Hne) at 3. apply Permutation_cons_append.
    + intros x Hx. apply negb_true_iff, Nat.eqb_neq. intros Hx'. apply Hnotin. rewrite <- Hx'. apply in_map. auto.
  - rewrite Nat.eqb_sym in E. rewrite E. cbn [negb]. constructor. auto.
Qed.

Lemma perm_insert_mid : forall {A} (X b Y st : list A) e,
  Permutation (X ++ b ++ Y) st -> Permutation (X ++ (b ++ [e]) ++ Y) (st ++ [e]).
Proof.
  intros A X b Y st e H. eapply perm_trans; [|apply Permutation_cons_append].
  replace (X ++ (b ++ [e]) ++ Y) with ((X ++ b) ++ e :: Y) by (rewrite <- !app_assoc; reflexivity).
  eapply perm_trans; [apply Permutation_sym, Permutation_middle|]. constructor. rewrite <- app_assoc. exact H.
Qed.

(* full invariant: the placement invariant + the buckets hold the store as a multiset *)
Definition FInv2 (t : ftrie) (s : sstate) : Prop := FInv t s /\ Permutation (flat (fkeys t)) (snd s).

Lemma store_nodup : forall F c (st : store), store_ok F c st -> NoDup st /\ NoDup (map fst st).
Proof. intros F c st [Hs _]. pose proof (ssorted_NoDup _ Hs). split; auto. eapply NoDup_map_inv; eauto. Qed.

Lemma ft_insert_sim2 : forall t c st pf, FInv2 t (c, st) -> pf_okb (fF t) pf = true -> negb (length (fst pf) =? 0) = true ->
  exists t', ft_insert t pf = Ok (t', c) /\ fF t' = fF t /\ FInv2 t' (S c, st ++ [(c, pf)]).
Proof.
  intros t c st pf [HInv Hperm] Hpf Hnz. cbn [snd] in Hperm.
  destruct (ft_insert_sim t c st pf HInv Hpf Hnz) as [t' [E [HF HI]]].
  exists t'. split; auto. split; auto. split; auto. cbn [snd].
  destruct HInv as (Hc & Hshape & _). cbn [fst] in Hc.
  destruct (pf_first _ _ Hpf Hnz) as (k0 & ks & v0 & vs & s & -> & Hk & Hv).
  destruct (bucket_exists _ _ _ _ _ Hshape Hk Hv) as [b Hb].
  unfold ft_insert in E. cbn [fst snd] in E.
  match type of E with context [match ?X with _ => _ end] => destruct X as [ll'|] eqn:Eu end; [|discriminate].
  inversion E; subst t'. cbn [fkeys].
  destruct (upd2_flat _ _ _ _ _ _ Hb Eu) as [A [B [E1 E2]]]. rewrite E2. rewrite E1 in Hperm. rewrite Hc.
  apply perm_insert_mid. exact Hperm.
Qed.

Lemma ft_erase_sim2 : forall t c st id pf, FInv2 t (c, st) -> pf_okb (fF t) pf = true ->
  negb (length (fst pf) =? 0) = true -> erase_okb st id pf = true ->
  exists t', ft_erase t id pf = Ok t' /\ fF t' = fF t /\ FInv2 t' (c, remove_id id st).
Proof.
  intros t c st id pf [HInv Hperm] Hpf Hnz Heok. cbn [snd] in Hperm.
  destruct (ft_erase_sim t c st id pf HInv Hpf Hnz Heok) as [t' [E [HF HI]]].
  exists t'. split; auto. split; auto. split; auto. cbn [snd].
  destruct HInv as (Hc & Hshape & Hplace & Hok & _). cbn [fst snd] in *.
  destruct (pf_first _ _ Hpf Hnz) as (k0 & ks & v0 & vs & s & -> & Hk & Hv).
  destruct (bucket_exists _ _ _ _ _ Hshape Hk Hv) as [b Hb].
  unfold ft_erase in E. cbn [fst snd] in E.
  match type of E with context [match ?X with _ => _ end] => destruct X as [ll'|] eqn:Eu end; [|discriminate].
  inversion E; subst t'. cbn [fkeys].
  destruct (upd2_flat _ _ _ _ _ _ Hb Eu) as [A [B [E1 E2]]]. rewrite E2. rewrite E1 in Hperm.
  destruct (Hplace _ _ _ Hb) as [Hndb Hinb].
  destruct (store_nodup _ _ _ Hok) as [Hndst _].
  assert (Hndf : NoDup (A ++ b ++ B)) by (eapply Permutation_NoDup; [apply Permutation_sym; exact Hperm|auto]).
  assert (Hout : forall e, In e (A ++ B) -> negb (fst e =? id) = true).
  { intros e He. apply negb_true_iff, Nat.eqb_neq. intros Hid.
    assert (Hst : In e st). { eapply Permutation_in; [exact Hperm|]. apply in_app_or in He. rewrite !in_app_iff. tauto. }
    assert (Hb' : In e b). { apply Hinb. split; auto. rewrite (erase_okb_spec _ _ _ _ Heok Hst Hid). reflexivity. }
    apply in_app_or in He. destruct He as [He|He].
    - eapply (NoDup_app_disj A (b ++ B)); eauto. apply in_or_app; auto.
    - apply NoDup_app_r in Hndf. eapply (NoDup_app_disj b B); eauto. }
  unfold remove_id. eapply perm_trans; [|apply perm_filter; exact Hperm].
  rewrite !filter_app.
  rewrite (filter_id _ A) by (intros; apply Hout; apply in_or_app; auto).
  rewrite (filter_id _ B) by (intros; apply Hout; apply in_or_app; auto).
  apply Permutation_app_head. apply Permutation_app_tail. apply swap_remove_perm. auto.
Qed.

Lemma FInv2_size : forall t c st, FInv2 t (c, st) -> ft_size t = length st.
Proof. intros t c st [_ H]. cbn [snd] in H. unfold ft_size. apply Permutation_length. exact H. Qed.

Lemma FInv2_nodup : forall t c st, FInv2 t (c, st) -> NoDup (map fst (flat (fkeys t))).
Proof.
  intros t c st [(_ & _ & _ & Hok & _) H]. cbn [fst snd] in *. destruct (store_nodup _ _ _ Hok) as [_ Hnd].
  eapply Permutation_NoDup; [apply Permutation_map; apply Permutation_sym; exact H|auto].
Qed.

Lemma filter_bucket_nodup : forall f b j l, filter_bucket f b j = Ok l -> NoDup (map fst b) ->
  NoDup l /\ forall id, In id l -> In id (map fst b).
Proof.
  intros f. induction b as [|[id pf] b IH]; intros j l H Hnd; cbn [filter_bucket] in H.
  - inversion H; subst. split; [constructor|intros ? []].
  - destruct (matchPartial f pf j) as [m| |]; cbn [bind] in H; try discriminate.
    destruct (filter_bucket f b j) as [r| |] eqn:Er; cbn [bind] in H; try discriminate. inversion H; subst.
    cbn [map fst] in Hnd. apply NoDup_cons_iff in Hnd. destruct Hnd as [Hn Hnd]. destruct (IH _ _ Er Hnd) as [H1 H2].
    destruct m.
    + split; [constructor; auto|]. intros x [<-|Hx]; [left; auto|right; auto].
    + split; auto. intros x Hx. right; auto.
Qed.

(* ---------- filter ---------- *)

Lemma in_combine_seq : forall (f : list nat) a k v,
  In (k, v) (combine (seq a (length f)) f) <-> exists j, k = a + j /\ nth_error f j = Some v.
Proof.
  induction f as [|x f IH]; intros a k v; cbn [length seq combine In].
  - split; [intros []|]. intros [j [_ H]]. destruct j; discriminate.
  - rewrite IH. split.
    + intros [H|[j [H1 H2]]]; [inversion H; subst; exists 0; split; [lia|reflexivity]|exists (S j); split; [lia|exact H2]].
    + intros [[|j] [H1 H2]]; [left; cbn in H2; inversion H2; subst; f_equal; lia|right; exists j; split; [lia|exact H2]].
Qed.

Lemma compat_query : forall f pf,
  compatible (query_of_factors f 0) pf <-> forall k w, pf_get pf k = Some w -> k < length f -> nth_error f k = Some w.
Proof.
  intros f pf. unfold compatible, pairs, query_of_factors. cbn [fst snd]. split.
  - intros H k w Hw Hk. destruct (nth_error f k) as [v|] eqn:E; [|apply nth_error_None in E; lia].
    f_equal. symmetry. apply (H k v); auto. apply in_combine_seq. exists k. auto.
  - intros H k v Hin w Hw. apply in_combine_seq in Hin. destruct Hin as [j [-> Hj]]. cbn in *.
    assert (j < length f) by (apply nth_error_Some; congruence). specialize (H j w Hw H0). congruence.
Qed.

Lemma pf_get_go_ge : forall F ks vs lo k w, keys_ok F lo ks vs = true -> pf_get_go ks vs k = Some w -> lo <= k.
Proof.
  intros F ks vs lo k w H Hg. destruct (le_lt_dec lo k); auto.
  rewrite (pf_get_go_none F ks vs lo k H l) in Hg. discriminate.
Qed.

Lemma mp_loop_spec : forall ks vs n lo F f, keys_ok F lo ks vs = true -> length f <= n + lo ->
  exists b, mp_loop f ks vs n = Ok b /\
            (b = true <-> forall k w, pf_get_go ks vs k = Some w -> k < length f -> nth_error f k = Some w).
Proof.
  induction ks as [|k0 ks IH]; intros vs n lo F f Hok Hn.
  - exists true. split; [destruct n; reflexivity|]. split; auto. intros _ k w H. discriminate.
  - destruct vs as [|v0 vs]; [discriminate|]. pose proof Hok as Hok'. cbn [keys_ok] in Hok'. rewrite !andb_true_iff in Hok'.
    destruct Hok' as [[H1 H2] H3]. apply Nat.leb_le in H1.
    assert (Hvac : length f <= k0 -> forall k w, pf_get_go (k0 :: ks) (v0 :: vs) k = Some w -> k < length f -> nth_error f k = Some w).
    { intros Hle k w Hg Hk. pose proof (pf_get_go_ge F _ _ k0 k w (keys_ok_lo F lo k0 k0 ks v0 vs Hok (le_n _)) Hg). lia. }
    destruct n as [|n].
    + exists true. split; auto. split; auto. intros _. apply Hvac. lia.
    + cbn [mp_loop]. destruct (length f <=? k0) eqn:E.
      * apply Nat.leb_le in E. exists true. split; auto. split; auto.
      * apply Nat.leb_gt in E. destruct (nth_error f k0) as [fv|] eqn:Ef; [|apply nth_error_None in Ef; lia].
        destruct (fv =? v0) eqn:Ev.
        -- apply Nat.eqb_eq in Ev. subst fv. destruct (IH vs n (S k0) F f H3) as [b [Eb Hb]]; [lia|].
           exists b. split; auto. rewrite Hb. split.
           ++ intros H k w Hg Hk. cbn [pf_get_go] in Hg. destruct (k0 =? k) eqn:Ek.
              ** apply Nat.eqb_eq in Ek. subst. congruence.
              ** apply H; auto.
           ++ intros H k w Hg Hk. apply H; auto. cbn [pf_get_go]. destruct (k0 =? k) eqn:Ek; auto.
              apply Nat.eqb_eq in Ek. subst. pose proof (pf_get_go_ge F _ _ _ _ _ H3 Hg). lia.
        -- apply Nat.eqb_neq in Ev. exists false. split; auto. split; [discriminate|]. intros H. exfalso.
           specialize (H k0 v0). cbn [pf_get_go] in H. rewrite Nat.eqb_refl in H. specialize (H eq_refl E). congruence.
Qed.

Lemma filter_bucket_spec : forall F f i fv b, i < length f -> nth_error f i = Some fv ->
  (forall e, In e b -> pf_okb F (snd e) = true /\ fkey (snd e) = Some (i, fv)) ->
  exists l, filter_bucket f b (length f - i) = Ok l /\
            forall id, In id l <-> exists e, In e b /\ fst e = id /\ compatible (query_of_factors f 0) (snd e).
Proof.
  intros F f i fv. induction b as [|[id pf] b IH]; intros Hi Hf Hall.
  - exists []. split; auto. intros id. split; [intros []|intros [e [[] _]]].
  - destruct IH as [l [El Hl]]; auto. { intros e He. apply Hall. right; auto. }
    destruct (Hall (id, pf) (or_introl eq_refl)) as [Hpf Hk]. cbn [snd] in *.
    destruct pf as [[|k0 ks] [|v0 vs]]; try discriminate. cbn in Hk. inversion Hk; subst k0 v0.
    unfold pf_okb in Hpf. cbn [fst snd keys_ok] in Hpf. rewrite !andb_true_iff in Hpf. destruct Hpf as [[_ _] H3].
    destruct (mp_loop_spec ks vs (length f - i - 1) (S i) F f H3) as [bm [Em Hm]]; [lia|].
    cbn [filter_bucket]. unfold matchPartial. cbn [fst snd tl]. rewrite Em. cbn [bind]. rewrite El. cbn [bind].
    assert (Hc : bm = true <-> compatible (query_of_factors f 0) (i :: ks, fv :: vs)).
    { rewrite Hm, compat_query. unfold pf_get. cbn [fst snd]. split.
      - intros H k w Hg Hk'. cbn [pf_get_go] in Hg. destruct (i =? k) eqn:Ek.
        + apply Nat.eqb_eq in Ek. subst. congruence.
        + apply H; auto.
      - intros H k w Hg Hk'. apply H; auto. cbn [pf_get_go]. destruct (i =? k) eqn:Ek; auto.
        apply Nat.eqb_eq in Ek. subst. pose proof (pf_get_go_ge F _ _ _ _ _ H3 Hg). lia. }
    eexists. split; [reflexivity|]. intros x. destruct bm.
    + cbn [In]. rewrite Hl. split.
      * intros [<-|[e [He H]]]; [exists (id, (i :: ks, fv :: vs)); split; [left; auto|split; auto; apply Hc; auto]|exists e; split; [right|]; tauto].
      * intros [e [[<-|He] [H1 H2]]]; [left; auto|right; exists e; auto].
    + rewrite Hl. split.
      * intros [e [He H]]. exists e. split; [right|]; tauto.
      * intros [e [[<-|He] [H1 H2]]]; [|exists e; auto]. cbn [snd] in H2. apply Hc in H2. discriminate.
Qed.

Lemma in_skipn_nth : forall {A} (l : list A) i x, In x (skipn i l) <-> exists j, i <= j /\ nth_error l j = Some x.
Proof.
  induction l as [|y l IH]; intros i x.
  - rewrite skipn_nil. split; [intros []|]. intros [j [_ H]]. destruct j; discriminate.
  - destruct i as [|i]; cbn [skipn].
    + split.
      * intros H. apply In_nth_error in H. destruct H as [j Hj]. exists j. split; [lia|auto].
      * intros [j [_ H]]. eapply nth_error_In; eauto.
    + rewrite IH. split.
      * intros [j [H1 H2]]. exists (S j). split; [lia|auto].
      * intros [[|j] [H1 H2]]; [lia|]. exists j. split; [lia|auto].
Qed.

Lemma in_rest : forall (keys : list (list (list fentry))) i e,
  In e (concat (concat (skipn i keys))) <-> exists i' v b, i <= i' /\ bucket keys i' v = Some b /\ In e b.
Proof.
  intros keys i e. rewrite in_concat. split.
  - intros [b [Hb He]]. apply in_concat in Hb. destruct Hb as [row [Hrow Hb]].
    apply in_skipn_nth in Hrow. destruct Hrow as [i' [Hi' Hrow]]. apply In_nth_error in Hb. destruct Hb as [v Hv].
    exists i', v, b. unfold bucket. rewrite Hrow. auto.
  - intros [i' [v [b [Hi' [Hb He]]]]]. unfold bucket in Hb. destruct (nth_error keys i') as [row|] eqn:Er; [|discriminate].
    exists b. split; auto. apply in_concat. exists row. split; [apply in_skipn_nth; eauto|eapply nth_error_In; eauto].
Qed.

Definition first_ge (i : nat) (pf : pfactors) : Prop := exists k v, fkey pf = Some (k, v) /\ i <= k.

Lemma ft_filter_go_spec : forall t c st f, FInv t (c, st) -> pf_okb (fF t) (query_of_factors f 0) = true ->
  forall frest i keys', skipn i (fkeys t) = keys' -> skipn i f = frest -> i <= length f ->
  exists l, ft_filter_go keys' f frest i = Ok l /\
    forall id, In id l <-> exists e, In e st /\ fst e = id /\ first_ge i (snd e) /\ compatible (query_of_factors f 0) (snd e).
Proof.
  intros t c st f (Hc & Hshape & Hplace & Hok & Hne) Hq. cbn [fst snd] in *.
  assert (Hstore : forall e, In e st -> exists k ks v vs s, snd e = (k :: ks, v :: vs) /\ nth_error (fF t) k = Some s /\ v < s /\
                                                   pf_okb (fF t) (snd e) = true).
  { intros e He. destruct Hok as [_ Hf]. rewrite Forall_forall in Hf, Hne. destruct (Hf e He) as [_ Hpf]. specialize (Hne e He).
    destruct (snd e) as [[|k ks] [|v vs]] eqn:E; cbn in Hne; try congruence.
    destruct (pf_first (fF t) (k :: ks, v :: vs) Hpf eq_refl) as (k0 & ks0 & v0 & vs0 & s & E' & Hk & Hv). inversion E'; subst.
      exists k0, ks0, v0, vs0, s. auto. }
  induction frest as [|fv frest IH]; intros i keys' Hk Hf Hi.
  - assert (i = length f).
    { destruct (le_lt_dec (length f) i); [lia|]. exfalso. assert (length (skipn i f) = length f - i) by apply skipn_length.
      rewrite Hf in H. cbn in H. lia. }
    subst i. exists (map fst (concat (concat keys'))). split; [destruct keys'; reflexivity|].
    intros id. rewrite in_map_iff. subst keys'. split.
    + intros [e [<- He]]. apply in_rest in He. destruct He as [i' [v [b [Hi' [Hb He]]]]].
      destruct (Hplace _ _ _ Hb) as [_ Hin]. apply Hin in He. destruct He as [He Hfk].
      exists e. split; auto. split; auto. split; [exists i', v; auto|].
      apply compat_query. intros k w Hg Hk'. exfalso.
      destruct (Hstore e He) as (k0 & ks & v0 & vs & s & E & _ & _ & Hpf). rewrite E in *. cbn in Hfk. inversion Hfk; subst.
      unfold pf_get in Hg. cbn [fst snd] in Hg. pose proof (pf_get_go_ge _ _ _ _ _ _ Hpf Hg) as _.
      unfold pf_okb in Hpf. cbn [fst snd] in Hpf.
      pose proof (pf_get_go_ge (fF t) _ _ i' k w (keys_ok_lo (fF t) 0 i' i' ks v vs Hpf (le_n _)) Hg). lia.
    + intros [e [He [<- [[k [v [Hfk Hge]]] _]]]]. exists e. split; auto. apply in_rest.
      destruct (Hstore e He) as (k0 & ks & v0 & vs & s & E & Hk0 & Hv0 & _). rewrite E in Hfk. cbn in Hfk. inversion Hfk; subst.
      destruct (bucket_exists _ _ _ _ _ Hshape Hk0 Hv0) as [b Hb]. exists k, v, b. split; auto. split; auto.
      apply (proj2 (Hplace _ _ _ Hb)). split; auto. rewrite E. reflexivity.
  - assert (Hi' : i < length f).
    { destruct (le_lt_dec (length f) i); auto. rewrite skipn_all2 in Hf by lia. discriminate. }
    destruct (skipn_cons _ _ _ _ Hf) as [Hfi Hf'].
    (* f[i] is in range *)
    unfold pf_okb, query_of_factors in Hq. cbn [fst snd] in Hq.
    destruct (keys_ok_pairs _ _ _ _ i fv Hq) as [s [Hs Hv]]. { apply in_combine_seq. exists i. auto. }
    destruct (bucket_exists _ _ _ _ _ Hshape Hs Hv) as [b Hb].
    unfold bucket in Hb. destruct (nth_error (fkeys t) i) as [row|] eqn:Er; [|discriminate].
    rewrite (nth_skipn_cons i _ _ Er) in Hk. subst keys'. cbn [ft_filter_go]. rewrite Hb.
    assert (Hb' : bucket (fkeys t) i fv = Some b) by (unfold bucket; rewrite Er; auto).
    destruct (Hplace _ _ _ Hb') as [_ Hin].
    destruct (filter_bucket_spec (fF t) f i fv b Hi' Hfi) as [l1 [E1 H1]].
    { intros e He. apply Hin in He. destruct He as [He Hfk]. split; auto. destruct (Hstore e He) as (? & ? & ? & ? & ? & _ & _ & _ & Hpf). auto. }
    rewrite E1. cbn [bind].
    destruct (IH (S i) (skipn (S i) (fkeys t)) eq_refl Hf') as [l2 [E2 H2]]; [lia|]. rewrite E2. cbn [bind].
    eexists. split; [reflexivity|]. intros id. rewrite in_app_iff, H1, H2. split.
    + intros [[e [He [Hid Hcp]]]|[e [He [Hid [[k [v [Hfk Hge]]] Hcp]]]]].
      * apply Hin in He. destruct He as [He Hfk]. exists e. repeat split; auto. exists i, fv. auto.
      * exists e. repeat split; auto. exists k, v. split; auto. lia.
    + intros [e [He [Hid [[k [v [Hfk Hge]]] Hcp]]]]. destruct (Nat.eq_dec k i) as [->|Hne'].
      * left. exists e. split; auto. apply Hin. split; auto.
        (* the first value must be f[i] *)
        rewrite compat_query in Hcp. destruct (Hstore e He) as (k0 & ks & v0 & vs & s' & E & _). rewrite E in Hfk. cbn in Hfk. inversion Hfk; subst.
        specialize (Hcp i v). rewrite E in Hcp. unfold pf_get in Hcp. cbn [fst snd pf_get_go] in Hcp. rewrite Nat.eqb_refl in Hcp.
        specialize (Hcp eq_refl Hi'). rewrite E. cbn. congruence.
      * right. exists e. repeat split; auto. exists k, v. split; auto. lia.
Qed.

Lemma ft_filter_sim : forall t c st f, FInv t (c, st) -> pf_okb (fF t) (query_of_factors f 0) = true ->
  exists l, ft_filter t f = Ok l /\
    forall id, In id l <-> exists pf, In (id, pf) st /\ compatible (query_of_factors f 0) pf.
Proof.
  intros t c st f HInv Hq. destruct (ft_filter_go_spec t c st f HInv Hq f 0 (fkeys t) eq_refl eq_refl) as [l [E H]]; [lia|].
  exists l. split; auto. intros id. rewrite H. split.
  - intros [[i pf] [He [Hid [_ Hc]]]]. cbn in Hid. subst i. exists pf. auto.
  - intros [pf [He Hc]]. exists (id, pf). repeat split; auto.
    destruct HInv as (_ & _ & _ & _ & Hne). cbn [snd] in Hne. rewrite Forall_forall in Hne. specialize (Hne _ He). cbn [snd] in Hne.
    destruct (fkey pf) as [[k v]|] eqn:Efk; [|congruence]. exists k, v. split; auto. lia.
Qed.

Lemma ft_filter_go_nodup : forall t c st f, FInv t (c, st) -> NoDup (map fst (flat (fkeys t))) ->
  pf_okb (fF t) (query_of_factors f 0) = true ->
  forall frest i keys' l, skipn i (fkeys t) = keys' -> skipn i f = frest -> i <= length f ->
  ft_filter_go keys' f frest i = Ok l -> NoDup l.
Proof.
  intros t c st f HInv Hnd Hq. pose proof HInv as (Hc & Hshape & Hplace & Hok & Hne). cbn [fst snd] in *.
  induction frest as [|fv frest IH]; intros i keys' l Hk Hf Hi H.
  - assert (l = map fst (flat keys')) by (destruct keys'; cbn in H; inversion H; reflexivity). subst l.
    rewrite <- (firstn_skipn i (fkeys t)) in Hnd. unfold flat in Hnd. rewrite !concat_app, map_app in Hnd.
    apply NoDup_app_r in Hnd. rewrite Hk in Hnd. exact Hnd.
  - destruct keys' as [|row keys'']; [discriminate|]. cbn [ft_filter_go] in H.
    destruct (nth_error row fv) as [b|] eqn:Eb; [|discriminate].
    destruct (filter_bucket f b (length f - i)) as [l1| |] eqn:E1; cbn [bind] in H; try discriminate.
    destruct (ft_filter_go keys'' f frest (S i)) as [l2| |] eqn:E2; cbn [bind] in H; try discriminate.
    inversion H; subst l. destruct (skipn_cons _ _ _ _ Hk) as [Hrow Hk']. destruct (skipn_cons _ _ _ _ Hf) as [Hfi Hf'].
    assert (Hi' : i < length f) by (apply nth_error_Some; congruence).
    assert (Hb : bucket (fkeys t) i fv = Some b) by (unfold bucket; rewrite Hrow; auto).
    destruct (Hplace _ _ _ Hb) as [Hndb Hinb].
    destruct (filter_bucket_nodup _ _ _ _ E1 Hndb) as [Hnd1 Hin1].
    apply NoDup_app_intro; auto.
    + eapply IH; eauto.
    + intros id H1 H2. apply Hin1 in H1. apply in_map_iff in H1. destruct H1 as [e [He1 He]].
      apply Hinb in He. destruct He as [Hest Hfk].
      destruct (ft_filter_go_spec t c st f HInv Hq frest (S i) keys'' Hk' Hf') as [l2' [E2' Hl2]]; [lia|].
      rewrite E2 in E2'. inversion E2'; subst l2'. apply Hl2 in H2.
      destruct H2 as [e' [He' [Hid' [[k [v [Hfk' Hge]]] _]]]].
      assert (e = e') by (eapply store_uniq; eauto; [apply Hok|congruence]). subst e'.
      rewrite Hfk in Hfk'. inversion Hfk'; subst. lia.
Qed.

(* ---------- histories ---------- *)

Lemma ft_new_inv : forall F, FInv (ft_new F) (0, []).
Proof.
  intros F. unfold FInv, ft_new. cbn [fcounter fkeys fF fst snd]. split; auto. split; [|split; [|split]].
  - rewrite map_map. rewrite <- (map_id F) at 2. apply map_ext. intros s. apply repeat_length.
  - intros i v b Hb. unfold bucket in Hb. rewrite nth_error_map in Hb. destruct (nth_error F i) as [s|]; [|discriminate].
    cbn in Hb. apply nth_error_In in Hb. apply repeat_spec in Hb. subst b. split; [constructor|]. intros e. cbn. tauto.
  - split; constructor.
  - constructor.
Qed.

Lemma ft_step_sim : forall t s o, FInv t s -> ft_op_okb (fF t) s o = true ->
  exists t' r, ft_step t o = Ok (t', r) /\ fF t' = fF t /\ FInv t' (fst (spec_step s o)).
Proof.
  intros t [c st] o HInv Hop. destruct o; cbn [ft_op_okb] in Hop; try discriminate; cbn [ft_step spec_step fst snd].
  - apply andb_true_iff in Hop. destruct Hop as [H1 H2].
    destruct (ft_insert_sim t c st pf HInv H1 H2) as [t' [E [HF HI]]]. rewrite E. cbn [bind]. eauto.
  - rewrite !andb_true_iff in Hop. destruct Hop as [[H1 H2] H3]. cbn [snd] in H3.
    destruct (ft_erase_sim t c st id pf HInv H1 H2 H3) as [t' [E [HF HI]]]. rewrite E. cbn [bind]. eauto.
  - apply andb_true_iff in Hop. destruct Hop as [_ H2].
    destruct (ft_filter_sim t c st f HInv H2) as [l [E _]]. rewrite E. cbn [bind]. eauto.
  - eauto.
Qed.

Lemma ft_run_sim : forall ops t s, FInv t s -> ft_hist_okb (fF t) s ops = true ->
  exists t' outs, ft_run t ops = Ok (t', outs) /\ fF t' = fF t /\ FInv t' (fst (spec_run s ops)).
Proof.
  induction ops as [|o ops IH]; intros t s HInv Hh; cbn [ft_run spec_run ft_hist_okb] in *.
  - exists t, []. auto.
  - apply andb_true_iff in Hh. destruct Hh as [H1 H2].
    destruct (ft_step_sim t s o HInv H1) as [t1 [r1 [E1 [HF1 HI1]]]]. rewrite E1. cbn [bind].
    destruct (spec_step s o) as [s1 r1'] eqn:Es. cbn [fst snd] in *. rewrite <- HF1 in H2.
    destruct (IH t1 s1 HI1 H2) as [t2 [outs [E2 [HF2 HI2]]]]. rewrite E2. cbn [bind].
    destruct (spec_run s1 ops) as [s2 rs] eqn:Er. cbn [fst snd] in *.
    exists t2, (r1 :: outs). split; [reflexivity|]. split; [congruence|exact HI2].
Qed.

Theorem FasterTrie_filter_exact_lemma : forall F ops f, ft_history_ok F ops ->
  pf_okb F (query_of_factors f 0) = true ->
  exists t outs l, ft_history F ops = Ok (t, outs) /\ ft_filter t f = Ok l /\
    forall id, In id l <-> exists pf, In (id, pf) (spec_store ops) /\ compatible (query_of_factors f 0) pf.
Proof.
  intros F ops f Hh Hq. unfold ft_history.
  destruct (ft_run_sim ops (ft_new F) (0, []) (ft_new_inv F) Hh) as [t [outs [E [HF HI]]]].
  cbn [ft_new fF] in HF. unfold spec_store, spec_state. destruct (fst (spec_run (0, []) ops)) as [c st]. cbn [snd].
  rewrite <- HF in Hq. destruct (ft_filter_sim t c st f HI Hq) as [l [El Hl]].
  exists t, outs, l. auto.
Qed.

(* ---------- histories, with the multiset invariant: sizes and repetition-free answers ---------- *)

(* outputs agree with the spec's, id lists up to order *)
Definition out_sim (a b : out) : Prop :=
  match a, b with
  | RIds x, RIds y => Permutation x y /\ NoDup y
  | _, _ => a = b
  end.

Lemma ft_new_inv2 : forall F, FInv2 (ft_new F) (0, []).
Proof.
  intros F. split; [apply ft_new_inv|]. cbn [snd ft_new fkeys]. unfold flat.
  assert (E : concat (concat (map (fun s => repeat (@nil fentry) s) F)) = []).
  { induction F as [|s F IH]; cbn [map concat]; auto. rewrite concat_app, IH, app_nil_r.
    clear. induction s; cbn; auto. }
  rewrite E. constructor.
Qed.

Lemma ft_filter_sim2 : forall t c st f, FInv2 t (c, st) -> pf_okb (fF t) (query_of_factors f 0) = true ->
  exists l, ft_filter t f = Ok l /\ NoDup l /\ Permutation (filter_spec st (query_of_factors f 0)) l.
Proof.
  intros t c st f HInv2 Hq. pose proof HInv2 as [HInv _].
  destruct (ft_filter_sim t c st f HInv Hq) as [l [E Hl]]. exists l. split; auto.
  assert (Hnd : NoDup l).
  { eapply (ft_filter_go_nodup t c st f HInv (FInv2_nodup _ _ _ HInv2) Hq f 0 (fkeys t)); eauto. lia. }
  split; auto. apply NoDup_Permutation; auto.
  - apply ssorted_NoDup. unfold filter_spec. apply ssorted_map_filter. destruct HInv as (_ & _ & _ & [Hs _] & _). exact Hs.
  - intros id. rewrite Hl. apply filter_spec_char.
Qed.

Lemma ft_step_sim2 : forall t s o, FInv2 t s -> ft_op_okb (fF t) s o = true ->
  exists t' r, ft_step t o = Ok (t', r) /\ fF t' = fF t /\ FInv2 t' (fst (spec_step s o)) /\ out_sim (snd (spec_step s o)) r.
Proof.
  intros t [c st] o HInv Hop. destruct o; cbn [ft_op_okb] in Hop; try discriminate; cbn [ft_step spec_step fst snd].
  - apply andb_true_iff in Hop. destruct Hop as [H1 H2].
    destruct (ft_insert_sim2 t c st pf HInv H1 H2) as [t' [E [HF HI]]]. rewrite E. cbn [bind]. exists t', (RNat c). cbn. auto.
  - rewrite !andb_true_iff in Hop. destruct Hop as [[H1 H2] H3]. cbn [snd] in H3.
    destruct (ft_erase_sim2 t c st id pf HInv H1 H2 H3) as [t' [E [HF HI]]]. rewrite E. cbn [bind]. exists t', RNone. cbn. auto.
  - apply andb_true_iff in Hop. destruct Hop as [H0 H2]. apply Nat.eqb_eq in H0. subst offset.
    destruct (ft_filter_sim2 t c st f HInv H2) as [l [E [Hnd Hp]]]. rewrite E. cbn [bind]. exists t, (RIds l). cbn. auto.
  - exists t, (RNat (ft_size t)). rewrite (FInv2_size t c st HInv). cbn. auto.
Qed.

Lemma ft_run_sim2 : forall ops t s, FInv2 t s -> ft_hist_okb (fF t) s ops = true ->
  exists t' outs, ft_run t ops = Ok (t', outs) /\ fF t' = fF t /\ FInv2 t' (fst (spec_run s ops)) /\
                  Forall2 out_sim (snd (spec_run s ops)) outs.
Proof.
  induction ops as [|o ops IH]; intros t s HInv Hh; cbn [ft_run spec_run ft_hist_okb] in *.
  - exists t, []. cbn. auto.
  - apply andb_true_iff in Hh. destruct Hh as [H1 H2].
    destruct (ft_step_sim2 t s o HInv H1) as [t1 [r1 [E1 [HF1 [HI1 Ho1]]]]]. rewrite E1. cbn [bind].
    destruct (spec_step s o) as [s1 r1'] eqn:Es. cbn [fst snd] in *. rewrite <- HF1 in H2.
    destruct (IH t1 s1 HI1 H2) as [t2 [outs [E2 [HF2 [HI2 Ho2]]]]]. rewrite E2. cbn [bind].
    destruct (spec_run s1 ops) as [s2 rs] eqn:Er. cbn [fst snd] in *.
    exists t2, (r1 :: outs). split; [reflexivity|]. split; [congruence|]. split; [exact HI2|]. constructor; auto.
Qed.

Theorem FasterTrie_history_lemma : forall F ops, ft_history_ok F ops ->
  exists t outs, ft_history F ops = Ok (t, outs) /\ Forall2 out_sim (spec_outs ops) outs /\
    ft_size t = length (spec_store ops) /\
    forall f, pf_okb F (query_of_factors f 0) = true ->
      exists l, ft_filter t f = Ok l /\ NoDup l /\ Permutation (filter_spec (spec_store ops) (query_of_factors f 0)) l.
Proof.
  intros F ops Hh. unfold ft_history.
  destruct (ft_run_sim2 ops (ft_new F) (0, []) (ft_new_inv2 F) Hh) as [t [outs [E [HF [HI Ho]]]]].
  cbn [ft_new fF] in HF. exists t, outs. split; auto. split; auto.
  unfold spec_store, spec_state. destruct (fst (spec_run (0, []) ops)) as [c st]. cbn [snd]. split.
  - eapply FInv2_size; eauto.
  - intros f Hq. rewrite <- HF in Hq. eapply ft_filter_sim2; eauto.
Qed.
