(* C20/Model.v — Gallina models of the rule indexes of AI-Toolbox:
     src/Factored/Utils/Trie.cpp        (Trie, its Filter cursor pair and applyFilters)
     src/Factored/Utils/FasterTrie.cpp  (FasterTrie)
   size_t is an unbounded nat.  Every access the C++ performs unchecked (operator[], *it,
   .back(), ++it past the end) is a checked access here and yields [UB]/[AUB] when out of range.
   Two routines are modelled in two variants selected by a boolean [fixed]:
     fixed = true   the repaired code (fixes/C20-trie-size.patch, fixes/C20-trie-erase-end.patch)
     fixed = false  the code as it stands in /repo (used only for the _refuted theorems)
   No proofs in this file. *)
From Coq Require Import List Arith Bool.
Import ListNotations.

Inductive res (A : Type) : Type :=
| Ok (a : A)
| Throw            (* std::invalid_argument *)
| UB.              (* undefined behaviour: unchecked access out of range *)
Arguments Ok {A} a.
Arguments Throw {A}.
Arguments UB {A}.

Definition bind {A B} (r : res A) (f : A -> res B) : res B :=
  match r with Ok a => f a | Throw => Throw | UB => UB end.

(* PartialFactors = std::pair<PartialKeys, PartialValues> *)
Definition pfactors := (list nat * list nat)%type.

(* ------------------------------------------------------------------------------------------ *)
(* std:: algorithms, by their documented meaning on sorted ranges                              *)

(* elements before std::lower_bound(b, e, v) / the range starting at it *)
Fixpoint take_lt (v : nat) (l : list nat) : list nat :=
  match l with [] => [] | x :: t => if x <? v then x :: take_lt v t else [] end.
Fixpoint drop_lt (v : nat) (l : list nat) : list nat :=
  match l with [] => [] | x :: t => if x <? v then drop_lt v t else l end.

(* std::inplace_merge / std::merge: stable merge of two sorted ranges *)
Fixpoint merge (l1 : list nat) : list nat -> list nat :=
  fix merge_aux (l2 : list nat) : list nat :=
    match l1, l2 with
    | [], _ => l2
    | _, [] => l1
    | a1 :: l1', a2 :: l2' => if a2 <? a1 then a2 :: merge_aux l2' else a1 :: merge l1' l2
    end.

(* index of std::min_element (first minimal element); 0 on the empty list *)
Fixpoint min_index_go (l : list nat) (i best besti : nat) : nat :=
  match l with
  | [] => besti
  | x :: t => if x <? best then min_index_go t (S i) x i else min_index_go t (S i) best besti
  end.
Definition min_index (l : list nat) : nat :=
  match l with [] => 0 | x :: t => min_index_go t 1 x 0 end.

(* l[n] := g l[n]; None when n is out of range *)
Fixpoint upd {A} (l : list A) (n : nat) (g : A -> A) : option (list A) :=
  match l, n with
  | [], _ => None
  | x :: t, 0 => Some (g x :: t)
  | x :: t, S n' => match upd t n' g with Some t' => Some (x :: t') | None => None end
  end.

(* v.back() := g v.back() *)
Definition upd_back {A} (l : list A) (g : A -> A) : option (list A) :=
  match l with [] => None | _ => upd l (length l - 1) g end.

(* ------------------------------------------------------------------------------------------ *)
(* Trie.cpp: class Filter — two cursor ranges [beginNamed,endNamed) [beginUnnamed,endUnnamed);
   the end iterators never move, so a Filter is the pair of the remaining ranges.              *)

Definition filter := (list nat * list nat)%type.

(* src: Trie.cpp:Filter::advance *)
Definition f_advance (f : filter) (v : nat) : filter := (drop_lt v (fst f), drop_lt v (snd f)).

(* src: Trie.cpp:Filter::stepAdvance — None = incrementing an iterator that is already at end *)
Definition f_step (f : filter) : option filter :=
  match fst f, snd f with
  | [], [] => None
  | [], _ :: u => Some ([], u)
  | _ :: n, [] => Some (n, [])
  | a :: n, b :: u => if a <? b then Some (n, b :: u) else Some (a :: n, u)
  end.

(* src: Trie.cpp:Filter::isValid *)
Definition f_valid (f : filter) : bool :=
  match fst f, snd f with [], [] => false | _, _ => true end.

(* src: Trie.cpp:Filter::getMin — None = dereferencing an end iterator *)
Definition f_min (f : filter) : option nat :=
  match fst f, snd f with
  | [], [] => None
  | [], b :: _ => Some b
  | a :: _, [] => Some a
  | a :: _, b :: _ => Some (Nat.min a b)
  end.

(* src: Trie.cpp:Filter::operator< compares these sizes *)
Definition f_size (f : filter) : nat := length (fst f) + length (snd f).

(* src: Trie.cpp: filters.insert(std::upper_bound(begin, end, filter), filter) *)
Fixpoint insert_sorted (f : filter) (fs : list filter) : list filter :=
  match fs with
  | [] => [f]
  | g :: t => if f_size f <? f_size g then f :: g :: t else g :: insert_sorted f t
  end.

(* result of applyFilters *)
Inductive ares : Type :=
| ADone (matches : list nat)
| AUB
| AFuel.

Definition acons (x : option nat) (r : ares) : ares :=
  match x, r with
  | Some v, ADone m => ADone (v :: m)
  | _, _ => r
  end.

(* src: Trie.cpp:applyFilters, the branch filters.size() == 1:
     while (filters[0].isValid()) { matches.push_back(getMin()); stepAdvance(); } *)
Fixpoint drain (fuel : nat) (f : filter) : ares :=
  match fuel with
  | 0 => AFuel
  | S k =>
    if f_valid f then
      match f_min f, f_step f with
      | Some m, Some f' => acons (Some m) (drain k f')
      | _, _ => AUB
      end
    else ADone []
  end.

(* loop state of applyFilters: filters, counter, lastMaxFound, currentMax *)
Definition astate := (list filter * nat * nat * nat)%type.

Inductive outcome : Type :=
| Continue (st : astate) (emit : option nat)
| Break (emit : option nat)
| BodyUB.

(* src: Trie.cpp:applyFilters, second half of the loop body ("Slowly advance all other filters") *)
Definition body_advance (st : astate) (emit : option nat) : outcome :=
  let '(fs, counter, lastMaxFound, currentMax) := st in
  match nth_error fs counter with
  | None => BodyUB                                   (* filters[counter] *)
  | Some fc =>
    let fc' := f_advance fc currentMax in
    match upd fs counter (fun _ => fc') with
    | None => BodyUB
    | Some fs' =>
      if negb (f_valid fc') then Break emit
      else match f_min fc' with
           | None => BodyUB
           | Some currentId =>
             if currentMax <? currentId
             then Continue (fs', 0, counter, currentId) emit
             else let c1 := S counter in
                  let c2 := if c1 =? lastMaxFound then S c1 else c1 in
                  Continue (fs', c2, lastMaxFound, currentMax) emit
           end
    end
  end.

(* src: Trie.cpp:applyFilters, one iteration of while (true) *)
Definition body (st : astate) : outcome :=
  let '(fs, counter, lastMaxFound, currentMax) := st in
  if counter =? length fs then
    (* matched through all filters *)
    match fs with
    | [] => BodyUB
    | f0 :: rest =>
      match f_step f0 with
      | None => BodyUB
      | Some f0' =>
        if negb (f_valid f0') then Break (Some currentMax)
        else match f_min f0' with
             | None => BodyUB
             | Some m' => body_advance (f0' :: rest, 1, 0, m') (Some currentMax)
             end
      end
    end
  else body_advance st None.

Fixpoint apply_loop (fuel : nat) (st : astate) : ares :=
  match fuel with
  | 0 => AFuel
  | S k =>
    match body st with
    | Continue st' e => acons e (apply_loop k st')
    | Break e => acons e (ADone [])
    | BodyUB => AUB
    end
  end.

Definition total_size (fs : list filter) : nat := fold_right (fun f a => f_size f + a) 0 fs.

(* enough iterations for the while(true) loop (proved sufficient in Proofs: apply_terminates) *)
Definition apply_fuel (fs : list filter) : nat :=
  let n := length fs in S (S (total_size fs)) * (S n) * (n + 3).

(* src: Trie.cpp:applyFilters *)
Definition applyFilters (fs : list filter) : ares :=
  match fs with
  | [] => AUB                                        (* filters[0] *)
  | [f] => drain (S (f_size f)) f
  | f0 :: _ =>
    match f_min f0 with
    | None => AUB
    | Some m => apply_loop (apply_fuel fs) (fs, 1, 0, m)
    end
  end.

Definition res_of_ares (a : ares) : res (list nat) :=
  match a with ADone m => Ok m | _ => UB end.

(* ------------------------------------------------------------------------------------------ *)
(* Trie *)

Record trie : Type := mkTrie {
  tF : list nat;                       (* F *)
  tcounter : nat;                      (* counter_ *)
  tids : list (list (list nat))        (* ids_[factor][value], last slot = unnamed *)
}.

(* src: Trie.cpp:Trie::Trie *)
Definition trie_new (F : list nat) : res trie :=
  if length F <? 2 then Throw
  else Ok (mkTrie F 0 (map (fun s => repeat [] (S s)) F)).

(* src: Trie.cpp:Trie::insert — the two loops, walking ids_[factor] for factor = 0,1,… *)
Fixpoint insert_go (rows : list (list (list nat))) (factor : nat) (keys vals : list nat) (c : nat)
  : res (list (list (list nat))) :=
  match keys with
  | [] =>
    (* for ( ; factor < F.size(); ++factor) ids_[factor].back().push_back(counter_) *)
    match rows with
    | [] => Ok []
    | row :: rows' =>
      match upd_back row (fun l => l ++ [c]) with
      | None => UB
      | Some row' => bind (insert_go rows' (S factor) [] vals c) (fun r => Ok (row' :: r))
      end
    end
  | k :: keys' =>
    match rows with
    | [] => UB                                       (* ids_[factor] past the end *)
    | row :: rows' =>
      if factor <? k then
        match upd_back row (fun l => l ++ [c]) with
        | None => UB
        | Some row' => bind (insert_go rows' (S factor) keys vals c) (fun r => Ok (row' :: r))
        end
      else
        match vals with
        | [] => UB                                   (* pf.second[i] *)
        | v :: vals' =>
          match upd row v (fun l => l ++ [c]) with
          | None => UB                               (* ids_[factor][value] *)
          | Some row' => bind (insert_go rows' (S factor) keys' vals' c) (fun r => Ok (row' :: r))
          end
        end
    end
  end.

Definition trie_insert (t : trie) (pf : pfactors) : res (trie * nat) :=
  bind (insert_go (tids t) 0 (fst pf) (snd pf) (tcounter t))
       (fun ids => Ok (mkTrie (tF t) (S (tcounter t)) ids, tcounter t)).

(* src: Trie.cpp:Trie::size.  In /repo the loop bound is ids_[0].size() (fixed = false);
   the repaired code uses toCount.size(). *)
Fixpoint size_loop (toCount : list (list nat)) (i n acc : nat) : res nat :=
  match n with
  | 0 => Ok acc
  | S n' => match nth_error toCount i with
            | None => UB                             (* toCount[i] *)
            | Some l => size_loop toCount (S i) n' (acc + length l)
            end
  end.

Definition trie_size (fixed : bool) (t : trie) : res nat :=
  match nth_error (tids t) (min_index (tF t)) with
  | None => UB
  | Some toCount =>
    match nth_error toCount 0, nth_error (tids t) 0 with
    | Some l0, Some row0 =>
      let bound := if fixed then length toCount else length row0 in
      size_loop toCount 1 (bound - 1) (length l0)
    | _, _ => UB
    end
  end.

(* src: Trie.cpp:Trie::getAllIds (same loop bound, same repair) *)
Fixpoint allids_loop (toMerge : list (list nat)) (i n : nat) (acc : list nat) : res (list nat) :=
  match n with
  | 0 => Ok acc
  | S n' => match nth_error toMerge i with
            | None => UB
            | Some l => allids_loop toMerge (S i) n' (merge acc l)
            end
  end.

Definition trie_getAllIds (fixed : bool) (t : trie) : res (list nat) :=
  match nth_error (tids t) (min_index (tF t)) with
  | None => UB
  | Some toMerge =>
    match nth_error toMerge 0, nth_error (tids t) 0 with
    | Some l0, Some row0 =>
      let bound := if fixed then length toMerge else length row0 in
      allids_loop toMerge 1 (bound - 1) l0
    | _, _ => UB
    end
  end.

(* Filter(begin(ids_[key][value]), end(...), begin(ids_[key].back()), end(...)) *)
Definition mk_filter (ids : list (list (list nat))) (key value : nat) : res filter :=
  match nth_error ids key with
  | None => UB
  | Some row =>
    match nth_error row value, row with
    | Some named, _ :: _ => Ok (named, last row [])
    | _, _ => UB
    end
  end.

(* the "For each factor" loop shared by filter ×2 and refine.  kvs: (key, value) per iteration,
   value = None when reading it is out of range.  Result None = the early "return {}". *)
Fixpoint build_filters (ids : list (list (list nat))) (kvs : list (nat * option nat))
         (acc : list filter) : res (option (list filter)) :=
  match kvs with
  | [] => Ok (Some acc)
  | (k, ov) :: t =>
    match ov with
    | None => UB
    | Some v =>
      bind (mk_filter ids k v) (fun f =>
        if negb (f_valid f) then Ok None
        else build_filters ids t (insert_sorted f acc))
    end
  end.

Definition finish_filters (r : res (option (list filter))) : res (list nat) :=
  bind r (fun o => match o with None => Ok [] | Some fs => res_of_ares (applyFilters fs) end).

(* (pf.first[i], pf.second[i]) for i < pf.first.size() *)
Fixpoint pf_kvs (keys vals : list nat) : list (nat * option nat) :=
  match keys with
  | [] => []
  | k :: ks => match vals with
               | [] => (k, None) :: pf_kvs ks []
               | v :: vs => (k, Some v) :: pf_kvs ks vs
               end
  end.

(* src: Trie.cpp:Trie::filter(const Factors & f, size_t offset) *)
Definition trie_filterF (fixed : bool) (t : trie) (f : list nat) (offset : nat) : res (list nat) :=
  match f with
  | [] => trie_getAllIds fixed t
  | _ => finish_filters (build_filters (tids t) (combine (seq offset (length f)) (map Some f)) [])
  end.

(* src: Trie.cpp:Trie::filter(const PartialFactors & pf) *)
Definition trie_filterPf (fixed : bool) (t : trie) (pf : pfactors) : res (list nat) :=
  match fst pf with
  | [] => trie_getAllIds fixed t
  | _ => finish_filters (build_filters (tids t) (pf_kvs (fst pf) (snd pf)) [])
  end.

(* src: Trie.cpp:Trie::refine *)
Definition trie_refine (t : trie) (ids : list nat) (pf : pfactors) : res (list nat) :=
  match ids, fst pf with
  | [], _ => Ok ids
  | _, [] => Ok ids
  | _, _ => finish_filters (build_filters (tids t) (pf_kvs (fst pf) (snd pf)) [([], ids)])
  end.

(* it = lower_bound(begin(vv), end(vv), id); if (it != end(vv) && *it == id) vv.erase(it)
   — None when nothing was erased *)
Definition erase_lb (id : nat) (l : list nat) : option (list nat) :=
  match drop_lt id l with
  | x :: r => if x =? id then Some (take_lt id l ++ r) else None
  | [] => None
  end.

(* src: Trie.cpp:Trie::erase(size_t id) — per factor, scan the value vectors in reverse and stop
   at the first one that contained the id *)
Fixpoint erase_first (id : nat) (slots : list (list nat)) : list (list nat) :=
  match slots with
  | [] => []
  | s :: t => match erase_lb id s with
              | Some s' => s' :: t
              | None => s :: erase_first id t
              end
  end.
Definition erase_row (id : nat) (row : list (list nat)) : list (list nat) :=
  rev (erase_first id (rev row)).
Definition trie_erase (t : trie) (id : nat) : trie :=
  mkTrie (tF t) (tcounter t) (map (erase_row id) (tids t)).

(* erase with the bounds check present (first loop of erase(id, pf), and the repaired second loop) *)
Definition erase_checked (id : nat) (l : list nat) : list nat :=
  match erase_lb id l with Some l' => l' | None => l end.

(* second loop of erase(id, pf) as it stands in /repo:  if ( *it == id ) v.back().erase(it);
   — the dereference is evaluated even when it == end  *)
Definition erase_unchecked (id : nat) (l : list nat) : res (list nat) :=
  match drop_lt id l with
  | [] => UB
  | x :: r => if x =? id then Ok (take_lt id l ++ r) else Ok l
  end.

Definition upd_back_res (row : list (list nat)) (g : list nat -> res (list nat)) : res (list (list nat)) :=
  match row with
  | [] => UB
  | _ => bind (g (last row [])) (fun l' => match upd_back row (fun _ => l') with Some r => Ok r | None => UB end)
  end.

(* src: Trie.cpp:Trie::erase(size_t id, const PartialFactors & pf) *)
Fixpoint erasepf_go (fixed : bool) (rows : list (list (list nat))) (factor : nat)
         (keys vals : list nat) (id : nat) : res (list (list (list nat))) :=
  match keys with
  | [] =>
    match rows with
    | [] => Ok []
    | row :: rows' =>
      bind (upd_back_res row (fun l => if fixed then Ok (erase_checked id l) else erase_unchecked id l))
           (fun row' => bind (erasepf_go fixed rows' (S factor) [] vals id) (fun r => Ok (row' :: r)))
    end
  | k :: keys' =>
    match rows with
    | [] => UB
    | row :: rows' =>
      if factor <? k then
        bind (upd_back_res row (fun l => Ok (erase_checked id l)))
             (fun row' => bind (erasepf_go fixed rows' (S factor) keys vals id) (fun r => Ok (row' :: r)))
      else
        match vals with
        | [] => UB
        | v :: vals' =>
          match upd row v (erase_checked id) with
          | None => UB
          | Some row' => bind (erasepf_go fixed rows' (S factor) keys' vals' id) (fun r => Ok (row' :: r))
          end
        end
    end
  end.

Definition trie_erasePf (fixed : bool) (t : trie) (id : nat) (pf : pfactors) : res trie :=
  bind (erasepf_go fixed (tids t) 0 (fst pf) (snd pf) id)
       (fun ids => Ok (mkTrie (tF t) (tcounter t) ids)).

(* ------------------------------------------------------------------------------------------ *)
(* operation histories *)

Inductive op : Type :=
| OInsert (pf : pfactors)
| OErase (id : nat)
| OErasePf (id : nat) (pf : pfactors)
| OFilterF (f : list nat) (offset : nat)
| OFilterPf (pf : pfactors)
| ORefine (ids : list nat) (pf : pfactors)
| OSize
| OAllIds.

Inductive out : Type :=
| RNone
| RNat (n : nat)
| RIds (l : list nat).

Definition trie_step (fixed : bool) (t : trie) (o : op) : res (trie * out) :=
  match o with
  | OInsert pf => bind (trie_insert t pf) (fun '(t', id) => Ok (t', RNat id))
  | OErase id => Ok (trie_erase t id, RNone)
  | OErasePf id pf => bind (trie_erasePf fixed t id pf) (fun t' => Ok (t', RNone))
  | OFilterF f off => bind (trie_filterF fixed t f off) (fun l => Ok (t, RIds l))
  | OFilterPf pf => bind (trie_filterPf fixed t pf) (fun l => Ok (t, RIds l))
  | ORefine ids pf => bind (trie_refine t ids pf) (fun l => Ok (t, RIds l))
  | OSize => bind (trie_size fixed t) (fun n => Ok (t, RNat n))
  | OAllIds => bind (trie_getAllIds fixed t) (fun l => Ok (t, RIds l))
  end.

(* run a history; outputs in order.  Stops at the first Throw/UB. *)
Fixpoint trie_run (fixed : bool) (t : trie) (ops : list op) : res (trie * list out) :=
  match ops with
  | [] => Ok (t, [])
  | o :: rest =>
    bind (trie_step fixed t o) (fun '(t', r) =>
      bind (trie_run fixed t' rest) (fun '(t'', rs) => Ok (t'', r :: rs)))
  end.

Definition trie_history (fixed : bool) (F : list nat) (ops : list op) : res (trie * list out) :=
  bind (trie_new F) (fun t => trie_run fixed t ops).

(* ------------------------------------------------------------------------------------------ *)
(* FasterTrie.cpp — keys_[factor][value] = bucket of (id, PartialFactors) whose FIRST key/value is
   (factor, value).  rand_/orders_ (used only by reconstruct) are not modelled.                  *)

Definition fentry := (nat * pfactors)%type.

Record ftrie : Type := mkFT {
  fF : list nat;
  fcounter : nat;
  fkeys : list (list (list fentry))
}.

(* src: FasterTrie.cpp:FasterTrie::FasterTrie *)
Definition ft_new (F : list nat) : ftrie := mkFT F 0 (map (fun s => repeat [] s) F).

(* ll[i][j] := g ll[i][j] *)
Definition upd2 {A} (ll : list (list A)) (i j : nat) (g : A -> A) : option (list (list A)) :=
  match nth_error ll i with
  | None => None
  | Some row => match upd row j g with
                | None => None
                | Some row' => upd ll i (fun _ => row')
                end
  end.

(* src: FasterTrie.cpp:FasterTrie::insert — keys_[pf.first[0]][pf.second[0]].emplace_back(counter_, pf) *)
Definition ft_insert (t : ftrie) (pf : pfactors) : res (ftrie * nat) :=
  match fst pf, snd pf with
  | k0 :: _, v0 :: _ =>
    match upd2 (fkeys t) k0 v0 (fun b => b ++ [(fcounter t, pf)]) with
    | None => UB
    | Some keys' => Ok (mkFT (fF t) (S (fcounter t)) keys', fcounter t)
    end
  | _, _ => UB                                         (* pf.first[0] / pf.second[0] *)
  end.

(* src: FasterTrie.cpp:FasterTrie::erase — first i with id == keys[i].first:
     std::swap(keys[i], keys.back()); keys.pop_back(); return *)
Fixpoint swap_remove (id : nat) (b : list fentry) : list fentry :=
  match b with
  | [] => []
  | e :: t =>
    if id =? fst e
    then match t with [] => [] | _ :: _ => last t e :: removelast t end
    else e :: swap_remove id t
  end.

Definition ft_erase (t : ftrie) (id : nat) (pf : pfactors) : res ftrie :=
  match fst pf, snd pf with
  | k0 :: _, v0 :: _ =>
    match upd2 (fkeys t) k0 v0 (swap_remove id) with
    | None => UB
    | Some keys' => Ok (mkFT (fF t) (fcounter t) keys')
    end
  | _, _ => UB
  end.

(* src: FasterTrie.cpp:FasterTrie::filter, lambda matchPartial: the loop
     for (i = 1; i < j && i < pf.first.size(); ++i)  — [n] = iterations still allowed by i < j *)
Fixpoint mp_loop (f keys vals : list nat) (n : nat) : res bool :=
  match n with
  | 0 => Ok true
  | S n' =>
    match keys with
    | [] => Ok true
    | k :: ks =>
      if length f <=? k then Ok true
      else match vals with
           | [] => UB                                   (* pf.second[i] *)
           | v :: vs =>
             match nth_error f k with
             | None => UB
             | Some fv => if fv =? v then mp_loop f ks vs n' else Ok false
             end
           end
    end
  end.

Definition matchPartial (f : list nat) (pf : pfactors) (j : nat) : res bool :=
  mp_loop f (tl (fst pf)) (tl (snd pf)) (j - 1).

Fixpoint filter_bucket (f : list nat) (b : list fentry) (j : nat) : res (list nat) :=
  match b with
  | [] => Ok []
  | (id, pf) :: rest =>
    bind (matchPartial f pf j) (fun m =>
      bind (filter_bucket f rest j) (fun r => Ok (if m then id :: r else r)))
  end.

(* src: FasterTrie.cpp:FasterTrie::filter — walks keys_[i] for i = 0,1,…; [frest] = f[i..] *)
Fixpoint ft_filter_go (keys : list (list (list fentry))) (f frest : list nat) (i : nat) : res (list nat) :=
  match frest with
  | [] => Ok (map fst (concat (concat keys)))           (* "We also match to everybody after this point" *)
  | fv :: frest' =>
    match keys with
    | [] => UB                                          (* keys_[i] *)
    | row :: keys' =>
      match nth_error row fv with
      | None => UB                                      (* keys_[i][f[i]] *)
      | Some b =>
        bind (filter_bucket f b (length f - i)) (fun ids =>
          bind (ft_filter_go keys' f frest' (S i)) (fun r => Ok (ids ++ r)))
      end
    end
  end.

Definition ft_filter (t : ftrie) (f : list nat) : res (list nat) := ft_filter_go (fkeys t) f f 0.

(* src: FasterTrie.cpp:FasterTrie::size *)
Definition ft_size (t : ftrie) : nat := length (concat (concat (fkeys t))).

(* histories: the operations FasterTrie offers, in the shared [op] vocabulary
   (OFilterF f _ = filter(f); anything else is not an operation of this class) *)
Definition ft_step (t : ftrie) (o : op) : res (ftrie * out) :=
  match o with
  | OInsert pf => bind (ft_insert t pf) (fun '(t', id) => Ok (t', RNat id))
  | OErasePf id pf => bind (ft_erase t id pf) (fun t' => Ok (t', RNone))
  | OFilterF f _ => bind (ft_filter t f) (fun l => Ok (t, RIds l))
  | OSize => Ok (t, RNat (ft_size t))
  | _ => Throw
  end.

Fixpoint ft_run (t : ftrie) (ops : list op) : res (ftrie * list out) :=
  match ops with
  | [] => Ok (t, [])
  | o :: rest =>
    bind (ft_step t o) (fun '(t', r) =>
      bind (ft_run t' rest) (fun '(t'', rs) => Ok (t'', r :: rs)))
  end.

Definition ft_history (F : list nat) (ops : list op) : res (ftrie * list out) := ft_run (ft_new F) ops.

(* ------------------------------------------------------------------------------------------ *)
(* FilterMap.hpp (TrieType = Trie) and the IndexMap it returns.  items_[id] is the item emplaced
   together with id; iterating the IndexMap dereferences items_[id] (the id under the cursor) unchecked.
   The const and the non-const overloads are separate functions in the C++ and separate
   definitions here.                                                                            *)

Record fmap (A : Type) : Type := mkFM { fm_ids : trie; fm_items : list A }.
Arguments mkFM {A} _ _.
Arguments fm_ids {A} _.
Arguments fm_items {A} _.

(* src: FilterMap.hpp:FilterMap(Factors f) *)
Definition fm_new {A} (F : list nat) : res (fmap A) := bind (trie_new F) (fun t => Ok (mkFM t [])).

(* src: FilterMap.hpp:emplace — ids_.insert(pf); items_.emplace_back(args...) *)
Definition fm_emplace {A} (m : fmap A) (pf : pfactors) (x : A) : res (fmap A) :=
  bind (trie_insert (fm_ids m) pf) (fun '(t', _) => Ok (mkFM t' (fm_items m ++ [x]))).

(* src: IndexMap.hpp: for (auto & x : indexMap) — the dereference operator returns items_[id] for the id under the cursor *)
Fixpoint im_items {A} (ids : list nat) (items : list A) : res (list A) :=
  match ids with
  | [] => Ok []
  | id :: rest =>
    match nth_error items id with
    | None => UB
    | Some x => bind (im_items rest items) (fun l => Ok (x :: l))
    end
  end.

(* src: FilterMap.hpp:filter(const Factors & f)            -> Iterable(ids_.filter(f), items_) *)
Definition fm_filterF {A} (m : fmap A) (f : list nat) : res (list A) :=
  bind (trie_filterF true (fm_ids m) f 0) (fun ids => im_items ids (fm_items m)).
(* src: FilterMap.hpp:filter(const Factors & f) const      -> ConstIterable(ids_.filter(f), items_) *)
Definition fm_filterF_const {A} (m : fmap A) (f : list nat) : res (list A) :=
  bind (trie_filterF true (fm_ids m) f 0) (fun ids => im_items ids (fm_items m)).
(* src: FilterMap.hpp:filter(const Factors & f, size_t offset) *)
Definition fm_filterFO {A} (m : fmap A) (f : list nat) (offset : nat) : res (list A) :=
  bind (trie_filterF true (fm_ids m) f offset) (fun ids => im_items ids (fm_items m)).
(* src: FilterMap.hpp:filter(const Factors & f, size_t offset) const *)
Definition fm_filterFO_const {A} (m : fmap A) (f : list nat) (offset : nat) : res (list A) :=
  bind (trie_filterF true (fm_ids m) f offset) (fun ids => im_items ids (fm_items m)).
(* src: FilterMap.hpp:filter(const PartialFactors & pf) *)
Definition fm_filterPf {A} (m : fmap A) (pf : pfactors) : res (list A) :=
  bind (trie_filterPf true (fm_ids m) pf) (fun ids => im_items ids (fm_items m)).
(* src: FilterMap.hpp:filter(const PartialFactors & pf) const *)
Definition fm_filterPf_const {A} (m : fmap A) (pf : pfactors) : res (list A) :=
  bind (trie_filterPf true (fm_ids m) pf) (fun ids => im_items ids (fm_items m)).

(* src: FilterMap.hpp:size — items_.size() *)
Definition fm_size {A} (m : fmap A) : nat := length (fm_items m).

(* a FilterMap built by a sequence of emplace calls *)
Fixpoint fm_fold {A} (m : fmap A) (entries : list (pfactors * A)) : res (fmap A) :=
  match entries with
  | [] => Ok m
  | (pf, x) :: rest => bind (fm_emplace m pf x) (fun m' => fm_fold m' rest)
  end.
Definition fm_build {A} (F : list nat) (entries : list (pfactors * A)) : res (fmap A) :=
  bind (fm_new F) (fun m => fm_fold m entries).

(* ------------------------------------------------------------------------------------------ *)
(* FasterTrie.cpp:FasterTrie::reconstruct.  The three std::shuffle calls are inputs:
     ord0   = orders_[0] after its shuffle (the order in which the factors are visited),
     ordv   = orders_[o+1] per factor o, as used (the order in which the values are tried),
     keysS  = keys_ with every bucket in the order it has after its shuffle (the shuffles are in
              place, so this is also the bucket order the object is left with when remove = false).
   Hypothesis of the theorems: keysS is, bucket by bucket, a permutation of keys_.               *)

(* f[k] = v for the (k, v) of a PartialFactors, unchecked:  f[pf.first[i]] = pf.second[i] *)
Fixpoint rc_assign (f keys vals : list nat) : res (list nat) :=
  match keys with
  | [] => Ok f
  | k :: ks =>
    match vals with
    | [] => UB
    | v :: vs => match upd f k (fun _ => v) with
                 | None => UB
                 | Some f' => rc_assign f' ks vs
                 end
    end
  end.

(* the match loop: if (f[id] < F[id] && entrypf.second[q] != f[id]) { match = false; break; } *)
Fixpoint rc_match (F f keys vals : list nat) : res bool :=
  match keys with
  | [] => Ok true
  | k :: ks =>
    match nth_error f k, nth_error F k with
    | Some fk, Some Fk =>
      if fk <? Fk
      then match vals with
           | [] => UB
           | v :: vs => if v =? fk then rc_match F f ks vs else Ok false
           end
      else rc_match F f ks (tl vals)
    | _, _ => UB
    end
  end.

(* the loop over one (already shuffled) bucket:  for (k = 0; k < keysV->size(); )
   todo = entries from position k on, kept = entries before k; with remove the matched entry is
   overwritten by the back of the vector, which is therefore examined next.
   n bounds the number of iterations (n = todo's length is exact).
   Result: bucket afterwards, f, entries, done *)
Fixpoint rc_bucket (n : nat) (F : list nat) (remove : bool) (todo kept : list fentry)
         (f : list nat) (acc : list fentry) (done : bool)
  : res (list fentry * list nat * list fentry * bool) :=
  match todo with
  | [] => Ok (kept, f, acc, done)
  | e :: rest =>
    match n with
    | 0 => Ok (kept ++ todo, f, acc, done)
    | S n' =>
      bind (rc_match F f (fst (snd e)) (snd (snd e))) (fun m =>
        if m then
          bind (rc_assign f (fst (snd e)) (snd (snd e))) (fun f' =>
            if remove
            then rc_bucket n' F remove
                           (match rest with [] => [] | _ :: _ => last rest e :: removelast rest end)
                           kept f' (acc ++ [e]) true
            else rc_bucket n' F remove rest (kept ++ [e]) f' (acc ++ [e]) true)
        else rc_bucket n' F remove rest (kept ++ [e]) f acc done)
    end
  end.

(* the do { … } while (true) over the values of one factor; stops after the first bucket in which
   something matched *)
Fixpoint rc_values (vorder : list nat) (F : list nat) (remove : bool) (row : list (list fentry))
         (f : list nat) (acc : list fentry) : res (list (list fentry) * list nat * list fentry) :=
  match vorder with
  | [] => Ok (row, f, acc)
  | v :: vs =>
    match nth_error row v with
    | None => UB                                        (* keys[orders_[o+1][j]] *)
    | Some b =>
      bind (rc_bucket (length b) F remove b [] f acc false) (fun '(b', f', acc', done) =>
        match upd row v (fun _ => b') with
        | None => UB
        | Some row' => if done then Ok (row', f', acc') else rc_values vs F remove row' f' acc'
        end)
    end
  end.

(* body of  for (auto o : orders_[0]) *)
Definition rc_factor (F : list nat) (remove : bool) (ordv : list (list nat))
           (keys : list (list (list fentry))) (o : nat) (f : list nat) (acc : list fentry)
  : res (list (list (list fentry)) * list nat * list fentry) :=
  match nth_error keys o, nth_error f o, nth_error F o with
  | Some row, Some fo, Some Fo =>
    bind (if fo <? Fo then rc_values [fo] F remove row f acc
          else match nth_error ordv o with
               | Some (v0 :: vs) => rc_values (v0 :: vs) F remove row f acc
               | _ => UB                                (* orders_[o+1][0] *)
               end)
         (fun '(row', f', acc') =>
            match upd keys o (fun _ => row') with
            | None => UB
            | Some keys' => Ok (keys', f', acc')
            end)
  | _, _, _ => UB
  end.

Fixpoint rc_factors (ord0 : list nat) (F : list nat) (remove : bool) (ordv : list (list nat))
         (keys : list (list (list fentry))) (f : list nat) (acc : list fentry)
  : res (list (list (list fentry)) * list nat * list fentry) :=
  match ord0 with
  | [] => Ok (keys, f, acc)
  | o :: os => bind (rc_factor F remove ordv keys o f acc) (fun '(keys', f', acc') =>
                 rc_factors os F remove ordv keys' f' acc')
  end.

(* src: FasterTrie.cpp:FasterTrie::reconstruct -> (object afterwards, entries, factors) *)
Definition ft_reconstruct (t : ftrie) (q : pfactors) (remove : bool)
           (ord0 : list nat) (ordv : list (list nat)) (keysS : list (list (list fentry)))
  : res (ftrie * list fentry * list nat) :=
  bind (rc_assign (fF t) (fst q) (snd q)) (fun f0 =>
    bind (rc_factors ord0 (fF t) remove ordv keysS f0 []) (fun '(keys', f', acc') =>
      Ok (mkFT (fF t) (fcounter t) keys', acc', f'))).

(* ------------------------------------------------------------------------------------------ *)
(* Copies.  Trie, FasterTrie and FilterMap are value types: the (implicit or user-written) copy
   constructor, copy assignment and move produce an object with the same F, the same id counter and
   the same id vectors / buckets / items.  (FasterTrie's rand_/orders_ only feed the shuffles, which
   are inputs of the reconstruct model.)                                                        *)
Definition trie_copy (t : trie) : trie := mkTrie (tF t) (tcounter t) (tids t).
Definition ft_copy (t : ftrie) : ftrie := mkFT (fF t) (fcounter t) (fkeys t).
Definition fm_copy {A} (m : fmap A) : fmap A := mkFM (trie_copy (fm_ids m)) (fm_items m).
(* src: FilterMap.hpp:FilterMap(TrieType t, ItemsContainer c) — throws when the sizes differ *)
Definition fm_of_trie {A} (t : trie) (items : list A) : res (fmap A) :=
  bind (trie_size true t) (fun n => if n =? length items then Ok (mkFM (trie_copy t) items) else Throw).
