(* Base/MdpExec.v — executable twins (with Qred normalisation) of the specification functions of
   Base/Mdp.v, each proved equal (==) to the un-normalised definition the theorems talk about.
   Extracted drivers call the twins; proofs keep using the plain definitions. *)
From Coq Require Import List Arith QArith Qminmax Lqa Lia Bool Setoid.
From AIT Require Import Base.Qx Base.Mdp.
Import ListNotations.
Local Open Scope Q_scope.

Definition vred (v : vec) : vec := map Qred v.

Lemma vred_veq : forall v, veq (vred v) v.
Proof. induction v as [|x v IH]; constructor; [apply Qred_correct| exact IH]. Qed.

Lemma veq_sym : forall v w, veq v w -> veq w v.
Proof. intros v w H; induction H; constructor; [symmetry; assumption| assumption]. Qed.

Lemma veq_trans : forall u v w, veq u v -> veq v w -> veq u w.
Proof.
  intros u v w H; revert w; induction H as [|x y u v E H IH]; intros w Hw; inversion Hw; subst; constructor.
  - etransitivity; eassumption.
  - apply IH; assumption.
Qed.

Lemma veq_length : forall v w, veq v w -> length v = length w.
Proof. intros v w H; induction H; cbn; congruence. Qed.

Lemma nthq_veq : forall v w i, veq v w -> nthq v i == nthq w i.
Proof.
  intros v w i H; revert i; induction H as [|x y v w E H IH]; intros i; unfold nthq.
  - reflexivity.
  - destruct i; cbn [nth]; [exact E| apply IH].
Qed.

Lemma qsum_veq : forall v w, veq v w -> qsum v == qsum w.
Proof. intros v w H; induction H as [|x y v w E H IH]; cbn [qsum]; [reflexivity| rewrite E, IH; reflexivity]. Qed.

Lemma dot_veq_r : forall a v w, veq v w -> dot a v == dot a w.
Proof.
  intros a v w H; revert a; induction H as [|x y v w E H IH]; intros [|z a]; cbn [dot]; try reflexivity.
  rewrite E, IH; reflexivity.
Qed.

Lemma veq_map_seq : forall (f g : nat -> Q) l, (forall i, In i l -> f i == g i) -> veq (map f l) (map g l).
Proof.
  induction l as [|x l IH]; intros H; constructor.
  - apply H; left; reflexivity.
  - apply IH; intros i Hi; apply H; right; exact Hi.
Qed.

Lemma maxl_map_ext' : forall (A : Type) (f g : A -> Q) (l : list A),
  (forall x, In x l -> f x == g x) -> maxl (map f l) == maxl (map g l).
Proof.
  intros A f g l H. destruct l as [|x l]; [reflexivity|].
  apply maxl_map_ext; [discriminate| exact H].
Qed.

Lemma tau_step_ext : forall m t t' a o, veq t t' -> veq (tau_step m t a o) (tau_step m t' a o).
Proof.
  intros m t t' a o H. unfold tau_step. apply veq_map_seq. intros s1 _.
  apply Qmult_comp; [reflexivity|]. apply qsum_map_ext. intros s _.
  rewrite (nthq_veq t t' s H). reflexivity.
Qed.

Lemma rew_at_ext : forall m t t' a, veq t t' -> rew_at m t a == rew_at m t' a.
Proof.
  intros m t t' a H. unfold rew_at. apply qsum_map_ext. intros s _.
  rewrite (nthq_veq t t' s H). reflexivity.
Qed.

Lemma EV_ext : forall m n t t', veq t t' -> EV m n t == EV m n t'.
Proof.
  intros m n; induction n as [|n IH]; intros t t' H; cbn [EV]; [reflexivity|].
  apply maxl_map_ext'. intros a _.
  rewrite (rew_at_ext m t t' a H). apply Qplus_comp; [reflexivity|].
  apply Qmult_comp; [reflexivity|]. apply qsum_map_ext. intros o _.
  apply IH. apply tau_step_ext; exact H.
Qed.

(* ---- executable twins *)
Definition tau_step_r (m : pomdp) (tau : vec) (a o : nat) : vec := vred (tau_step m tau a o).

Fixpoint EV_r (m : pomdp) (n : nat) (tau : vec) : Q :=
  match n with
  | O => 0
  | S n' => Qred (maxl (map (fun a => rew_at m tau a +
               gam (pm m) * qsum (map (fun o => EV_r m n' (tau_step_r m tau a o)) (seq 0 (nO m))))
             (seq 0 (nA (pm m)))))
  end.

Lemma tau_step_r_correct : forall m t a o, veq (tau_step_r m t a o) (tau_step m t a o).
Proof. intros; apply vred_veq. Qed.

Theorem EV_r_correct : forall m n t, EV_r m n t == EV m n t.
Proof.
  intros m n; induction n as [|n IH]; intros t; cbn [EV_r EV]; [reflexivity|].
  rewrite Qred_correct. apply maxl_map_ext'. intros a _.
  apply Qplus_comp; [reflexivity|]. apply Qmult_comp; [reflexivity|].
  apply qsum_map_ext. intros o _. rewrite IH. apply EV_ext. apply tau_step_r_correct.
Qed.

Definition T_op_r (m : mdp) (v : vec) : vec := vred (T_op m v).
Fixpoint dp_r (m : mdp) (h : nat) : vec :=
  match h with O => vzero (nS m) | S h' => T_op_r m (dp_r m h') end.

Lemma q_of_ext : forall m v w s a, veq v w -> q_of m v s a == q_of m w s a.
Proof. intros m v w s a H. unfold q_of. rewrite (dot_veq_r _ v w H). reflexivity. Qed.

Lemma T_op_ext : forall m v w, veq v w -> veq (T_op m v) (T_op m w).
Proof.
  intros m v w H. unfold T_op. apply veq_map_seq. intros s _.
  apply maxl_map_ext'. intros a _. apply q_of_ext; exact H.
Qed.

Theorem dp_r_correct : forall m h, veq (dp_r m h) (dp m h).
Proof.
  intros m h; induction h as [|h IH]; cbn [dp_r dp]; [apply veq_refl|].
  unfold T_op_r. eapply veq_trans; [apply vred_veq|]. apply T_op_ext; exact IH.
Qed.
