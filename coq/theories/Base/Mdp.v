(* Base/Mdp.v — shared (PO)MDP records and specification-side definitions (DESIGN.md App. A).
   Encoding: P is indexed action, state, state'; R is state, action; Ob is action, state', obs. *)
From Coq Require Import List Arith QArith Qminmax Lqa Lia Bool.
From AIT Require Import Base.Qx.
Import ListNotations.
Local Open Scope Q_scope.

Record mdp := { nS : nat; nA : nat; P : list mat; R : mat; gam : Q }.

Definition wf_mdp (m : mdp) : Prop :=
  (0 < nS m)%nat /\ (0 < nA m)%nat /\ 0 < gam m /\ gam m < 1 /\
  length (P m) = nA m /\ length (R m) = nS m /\
  (forall a, (a < nA m)%nat -> length (nth a (P m) []) = nS m) /\
  (forall a s, (a < nA m)%nat -> (s < nS m)%nat -> simplex (nS m) (row (nth a (P m) []) s)) /\
  (forall s, (s < nS m)%nat -> length (row (R m) s) = nA m).

(* boolean twin used by generators' self-check and extracted drivers *)
Definition wf_mdpb (m : mdp) : bool :=
  (0 <? nS m)%nat && (0 <? nA m)%nat && negb (Qle_bool (gam m) 0) && negb (Qle_bool 1 (gam m)) &&
  (length (P m) =? nA m)%nat && (length (R m) =? nS m)%nat &&
  forallb (fun pa => (length pa =? nS m)%nat &&
                     forallb (fun r => (length r =? nS m)%nat && is_distb r) pa) (P m) &&
  forallb (fun r => (length r =? nA m)%nat) (R m).

Definition trow (m : mdp) (s a : nat) : vec := row (nth a (P m) []) s.
Definition q_of (m : mdp) (v : vec) (s a : nat) : Q := nthq (row (R m) s) a + gam m * dot (trow m s a) v.
Definition T_op (m : mdp) (v : vec) : vec :=
  map (fun s => maxl (map (q_of m v s) (seq 0 (nA m)))) (seq 0 (nS m)).
Fixpoint dp (m : mdp) (h : nat) : vec :=
  match h with O => vzero (nS m) | S h' => T_op m (dp m h') end.
(* policy evaluation: pol s is a distribution over actions *)
Definition T_pi (m : mdp) (pol : mat) (v : vec) : vec :=
  map (fun s => dot (row pol s) (map (q_of m v s) (seq 0 (nA m)))) (seq 0 (nS m)).
Fixpoint dp_pi (m : mdp) (pol : mat) (h : nat) : vec :=
  match h with O => vzero (nS m) | S h' => T_pi m pol (dp_pi m pol h') end.
Definition residual_le (m : mdp) (v : vec) (e : Q) : Prop := close e v (T_op m v).

Record pomdp := { pm : mdp; nO : nat; Ob : list mat }.

Definition wf_pomdp (m : pomdp) : Prop :=
  wf_mdp (pm m) /\ (0 < nO m)%nat /\ length (Ob m) = nA (pm m) /\
  (forall a, (a < nA (pm m))%nat -> length (nth a (Ob m) []) = nS (pm m)) /\
  (forall a s, (a < nA (pm m))%nat -> (s < nS (pm m))%nat -> simplex (nO m) (row (nth a (Ob m) []) s)).

Definition orow (m : pomdp) (s1 a : nat) : vec := row (nth a (Ob m) []) s1.

(* unnormalised Bayes filter: tau'(s') = O(s',a,o) * sum_s tau(s) T(s,a,s') *)
Definition tau_step (m : pomdp) (tau : vec) (a o : nat) : vec :=
  map (fun s' => nthq (orow m s' a) o *
                 qsum (map (fun s => nthq tau s * nthq (trow (pm m) s a) s') (seq 0 (nS (pm m)))))
      (seq 0 (nS (pm m))).
Definition rew_at (m : pomdp) (tau : vec) (a : nat) : Q :=
  qsum (map (fun s => nthq tau s * nthq (row (R (pm m)) s) a) (seq 0 (nS (pm m)))).
(* division-free expectimax over unnormalised beliefs *)
Fixpoint EV (m : pomdp) (n : nat) (tau : vec) : Q :=
  match n with
  | O => 0
  | S n' => maxl (map (fun a => rew_at m tau a +
               gam (pm m) * qsum (map (fun o => EV m n' (tau_step m tau a o)) (seq 0 (nO m))))
             (seq 0 (nA (pm m))))
  end.
Definition best (l : list vec) (b : vec) : Q := maxl (map (fun al => dot al b) l).
