(* Base/Vio.v — the numeric kit every extracted model exports so that the hand-written
   OCaml glue (ml/common/vio.ml) can build and inspect Coq numerals.  No proofs here. *)
From Coq Require Import ZArith QArith List.
Import ListNotations.

(* Everything vio.ml needs; extracting [vio_kit] forces all of it into model.ml. *)
Definition vio_z_add := Z.add.
Definition vio_z_mul := Z.mul.
Definition vio_z_opp := Z.opp.
Definition vio_z_compare := Z.compare.
Definition vio_z_div_eucl := Z.div_eucl.
Definition vio_z_of_nat := Z.of_nat.
Definition vio_z_to_nat := Z.to_nat.
Definition vio_z_of_N := Z.of_N.
Definition vio_z_to_N := Z.to_N.
Definition vio_pos_succ := Pos.succ.
Definition vio_z_to_pos := Z.to_pos.
Definition vio_qred := Qred.
Definition vio_qplus := Qplus.
Definition vio_qminus := Qminus.
Definition vio_qmult := Qmult.
Definition vio_qdiv := Qdiv.
Definition vio_qcompare := Qcompare.
Definition vio_qmake := Qmake.
Definition vio_qnum := Qnum.
Definition vio_qden := Qden.

Definition vio_kit :=
  (vio_z_add, vio_z_mul, vio_z_opp, vio_z_compare, vio_z_div_eucl, vio_z_of_nat, vio_z_to_nat,
   vio_z_of_N, vio_z_to_N, vio_pos_succ, vio_z_to_pos,
   (vio_qred, vio_qplus, vio_qminus, vio_qmult, vio_qdiv, vio_qcompare, vio_qmake, vio_qnum, vio_qden)).
