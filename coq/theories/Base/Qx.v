(* Base/Qx.v — exact rational vectors shared by the numeric models: definitions and the small
   lemma library (sums, dot products, list maxima, closeness) the value-function proofs rest on. *)
From Coq Require Import List Arith QArith Qminmax Lqa Lia Bool.
Import ListNotations.
Local Open Scope Q_scope.

Definition vec := list Q.
Definition mat := list vec.

Fixpoint qsum (l : vec) : Q := match l with [] => 0 | x :: t => x + qsum t end.
Fixpoint dot (a b : vec) : Q := match a, b with x :: a', y :: b' => x * y + dot a' b' | _, _ => 0 end.
Definition nthq (l : vec) (i : nat) : Q := nth i l 0.
Definition row (m : mat) (i : nat) : vec := nth i m [].
Definition vadd (a b : vec) : vec := map (fun p => fst p + snd p) (combine a b).
Definition vscale (c : Q) (a : vec) : vec := map (fun x => c * x) a.
Definition vzero (n : nat) : vec := repeat 0 n.

(* running maximum exactly as Eigen's maxCoeff / a `>` scan: first maximal index wins *)
Fixpoint qmax_from (x : Q) (l : vec) : Q := match l with [] => x | y :: t => qmax_from (Qmax x y) t end.
Definition maxl (l : vec) : Q := match l with [] => 0 | x :: t => qmax_from x t end.

(* argmax with strict `>` update: returns (index of first maximum, maximum) *)
Fixpoint argmax_from (bi : nat) (bx : Q) (i : nat) (l : vec) : nat * Q :=
  match l with
  | [] => (bi, bx)
  | y :: t => if Qlt_le_dec bx y then argmax_from i y (S i) t else argmax_from bi bx (S i) t
  end.
Definition argmax (l : vec) : nat * Q :=
  match l with [] => (O, 0) | x :: t => argmax_from O x 1%nat t end.

(* tolerances of Utils/Core.hpp *)
Definition epsS : Q := 1 # 1000000.
Definition epsG : Q := 1 # 100000000000.
Definition qabs (x : Q) : Q := Qmax x (- x).
Definition eqSmall (a b : Q) : bool := Qle_bool (qabs (a - b)) epsS.
Definition eqGeneral (a b : Q) : bool :=
  eqSmall a b || Qle_bool (qabs (a - b)) (Qmin (qabs a) (qabs b) * epsG).

Definition nonneg (p : vec) : Prop := Forall (fun x => 0 <= x) p.
Definition is_dist (p : vec) : Prop := nonneg p /\ qsum p == 1.
Definition simplex (n : nat) (b : vec) : Prop := length b = n /\ is_dist b.
(* two-sided closeness, entrywise *)
Definition close (d : Q) (v w : vec) : Prop := Forall2 (fun x y => - d <= x - y /\ x - y <= d) v w.
Definition veq (v w : vec) : Prop := Forall2 Qeq v w.

(* boolean versions for extracted checkers *)
Definition nonnegb (p : vec) : bool := forallb (fun x => Qle_bool 0 x) p.
Definition is_distb (p : vec) : bool := nonnegb p && Qeq_bool (qsum p) 1.
Definition veqb (v w : vec) : bool :=
  (Nat.eqb (length v) (length w)) && forallb (fun p => Qeq_bool (fst p) (snd p)) (combine v w).

(* ---------------------------------------------------------------- sums *)
Lemma qsum_app : forall a b, qsum (a ++ b) == qsum a + qsum b.
Proof. induction a as [|x a IH]; intros b; cbn [qsum app]; [lra| rewrite IH; lra]. Qed.

Lemma qsum_nonneg : forall p, nonneg p -> 0 <= qsum p.
Proof. intros p H; induction H as [|x p Hx H IH]; cbn [qsum]; lra. Qed.

Lemma qsum_map_scale : forall c l, qsum (map (fun x => c * x) l) == c * qsum l.
Proof. induction l as [|x l IH]; cbn [qsum map]; [lra| rewrite IH; lra]. Qed.

Lemma qsum_map_add : forall (A : Type) (f g : A -> Q) l,
  qsum (map (fun x => f x + g x) l) == qsum (map f l) + qsum (map g l).
Proof. induction l as [|x l IH]; cbn [qsum map]; [lra| rewrite IH; lra]. Qed.

Lemma qsum_map_ext : forall (A : Type) (f g : A -> Q) l,
  (forall x, In x l -> f x == g x) -> qsum (map f l) == qsum (map g l).
Proof.
  induction l as [|x l IH]; intros H; cbn [qsum map]; [lra|].
  rewrite (H x (or_introl eq_refl)), IH; [lra|]. intros y Hy; apply H; right; exact Hy.
Qed.

Lemma qsum_map_le : forall (A : Type) (f g : A -> Q) l,
  (forall x, In x l -> f x <= g x) -> qsum (map f l) <= qsum (map g l).
Proof.
  induction l as [|x l IH]; intros H; cbn [qsum map]; [lra|].
  pose proof (H x (or_introl eq_refl)). assert (qsum (map f l) <= qsum (map g l)) by (apply IH; intros y Hy; apply H; right; exact Hy).
  lra.
Qed.

Lemma qsum_repeat0 : forall n, qsum (repeat 0 n) == 0.
Proof. induction n; cbn [qsum repeat]; lra. Qed.

(* ---------------------------------------------------------------- dot *)
Lemma dot_nil_r : forall a, dot a [] == 0.
Proof. destruct a; cbn [dot]; lra. Qed.

Lemma dot_comm : forall a b, dot a b == dot b a.
Proof. induction a as [|x a IH]; intros [|y b]; cbn [dot]; try lra. rewrite IH; lra. Qed.

Lemma dot_scale_r : forall c a b, dot a (vscale c b) == c * dot a b.
Proof.
  induction a as [|x a IH]; intros [|y b]; cbn [dot vscale map]; try lra.
  fold (vscale c b). rewrite IH. lra.
Qed.

Lemma dot_repeat0_r : forall a n, dot a (repeat 0 n) == 0.
Proof. induction a as [|x a IH]; intros [|n]; cbn [dot repeat]; try lra. rewrite IH; lra. Qed.

(* a sub-stochastic non-negative row moves a dot-product by at most d * (sum of the row) *)
Lemma dot_close : forall p v w d, 0 <= d -> nonneg p -> close d v w ->
  - (d * qsum p) <= dot p v - dot p w /\ dot p v - dot p w <= d * qsum p.
Proof.
  intros p v w d Hd Hp Hc. revert p Hp.
  induction Hc as [|x y v w [Hlo Hhi] Hc IH]; intros p Hp.
  - rewrite !dot_nil_r. pose proof (qsum_nonneg p Hp). split; nra.
  - destruct p as [|q p]; cbn [dot qsum]; [lra|].
    inversion Hp as [|? ? Hq Hp']; subst. destruct (IH p Hp') as [L U].
    pose proof (qsum_nonneg p Hp'). split; nra.
Qed.

(* ---------------------------------------------------------------- maxima *)
Lemma qmax_from_ge_init : forall l x, x <= qmax_from x l.
Proof.
  induction l as [|y l IH]; intros x; cbn [qmax_from]; [lra|].
  eapply Qle_trans; [apply Q.le_max_l | apply IH].
Qed.

Lemma qmax_from_ub : forall l x y, In y l -> y <= qmax_from x l.
Proof.
  induction l as [|z l IH]; intros x y Hin; [destruct Hin|]. cbn [qmax_from].
  destruct Hin as [<-|Hin]; [| apply IH; exact Hin].
  eapply Qle_trans; [apply Q.le_max_r | apply qmax_from_ge_init].
Qed.

Lemma qmax_from_attained : forall l x, qmax_from x l == x \/ exists y, In y l /\ qmax_from x l == y.
Proof.
  induction l as [|z l IH]; intros x; cbn [qmax_from]; [left; lra|].
  destruct (IH (Qmax x z)) as [H|[y [Hy H]]].
  - destruct (Q.max_spec x z) as [[_ E]|[_ E]].
    + right; exists z; split; [left; reflexivity| rewrite H; exact E].
    + left; rewrite H; exact E.
  - right; exists y; split; [right; exact Hy| exact H].
Qed.

(* characterisation of maxl on a non-empty list: upper bound + attained *)
Lemma maxl_ub : forall l y, In y l -> y <= maxl l.
Proof.
  intros [|x l] y Hin; [destruct Hin|]. cbn [maxl].
  destruct Hin as [<-|Hin]; [apply qmax_from_ge_init | apply qmax_from_ub; exact Hin].
Qed.

Lemma maxl_attained : forall l, l <> [] -> exists y, In y l /\ maxl l == y.
Proof.
  intros [|x l] Hne; [congruence|]. cbn [maxl].
  destruct (qmax_from_attained l x) as [H|[y [Hy H]]].
  - exists x; split; [left; reflexivity| exact H].
  - exists y; split; [right; exact Hy| exact H].
Qed.

Lemma maxl_char : forall l m, l <> [] -> (forall y, In y l -> y <= m) -> (exists y, In y l /\ y == m) -> maxl l == m.
Proof.
  intros l m Hne Hub [y [Hy E]].
  destruct (maxl_attained l Hne) as [z [Hz Ez]].
  apply Qle_antisym.
  - rewrite Ez. apply Hub; exact Hz.
  - rewrite <- E. apply maxl_ub; exact Hy.
Qed.

Lemma maxl_le : forall l m, l <> [] -> (forall y, In y l -> y <= m) -> maxl l <= m.
Proof. intros l m Hne H. destruct (maxl_attained l Hne) as [z [Hz Ez]]. rewrite Ez. apply H; exact Hz. Qed.

(* max over a mapped non-empty index list is 1-Lipschitz in the sup norm *)
Lemma maxl_map_close : forall (A : Type) (f g : A -> Q) (l : list A) d, l <> [] ->
  (forall x, In x l -> - d <= f x - g x /\ f x - g x <= d) ->
  - d <= maxl (map f l) - maxl (map g l) /\ maxl (map f l) - maxl (map g l) <= d.
Proof.
  intros A f g l d Hne H.
  assert (Hnf : map f l <> []) by (destruct l; [congruence| discriminate]).
  assert (Hng : map g l <> []) by (destruct l; [congruence| discriminate]).
  destruct (maxl_attained _ Hnf) as [yf [Hyf Ef]]. destruct (maxl_attained _ Hng) as [yg [Hyg Eg]].
  apply in_map_iff in Hyf. destruct Hyf as [xf [<- Hxf]].
  apply in_map_iff in Hyg. destruct Hyg as [xg [<- Hxg]].
  pose proof (maxl_ub (map g l) (g xf) (in_map g l xf Hxf)).
  pose proof (maxl_ub (map f l) (f xg) (in_map f l xg Hxg)).
  destruct (H xf Hxf). destruct (H xg Hxg). split; lra.
Qed.

Lemma maxl_map_ext : forall (A : Type) (f g : A -> Q) (l : list A), l <> [] ->
  (forall x, In x l -> f x == g x) -> maxl (map f l) == maxl (map g l).
Proof.
  intros A f g l Hne H.
  destruct (maxl_map_close A f g l 0 Hne) as [L U]; [| lra].
  intros x Hx. rewrite (H x Hx). lra.
Qed.

(* ---------------------------------------------------------------- argmax *)
Lemma argmax_from_spec : forall l bi bx i,
  let '(j, m) := argmax_from bi bx i l in
  m == qmax_from bx l /\ bx <= m /\ ((j = bi /\ m == bx) \/ (i <= j < i + length l)%nat /\ m == nth (j - i) l 0).
Proof.
  induction l as [|y l IH]; intros bi bx i; cbn [argmax_from qmax_from length].
  - split; [lra|]. split; [lra|]. left; split; [reflexivity| lra].
  - destruct (Qlt_le_dec bx y) as [Hlt|Hge].
    + specialize (IH i y (S i)). destruct (argmax_from i y (S i) l) as [j m].
      destruct IH as [E [Hle D]]. split; [| split].
      * rewrite E. assert (Qmax bx y == y) by (apply Q.max_r; lra).
        clear - H. revert H. generalize (Qmax bx y). intros q Hq.
        (* qmax_from respects == in its first argument *)
        revert q y Hq. induction l as [|z l IHl]; intros q y Hq; cbn [qmax_from]; [lra|].
        apply IHl. destruct (Q.max_spec q z) as [[? ->]|[? ->]]; destruct (Q.max_spec y z) as [[? ->]|[? ->]]; lra.
      * lra.
      * right. destruct D as [[-> Em]|[Hr Em]].
        -- split; [lia|]. rewrite Nat.sub_diag. cbn [nth]. exact Em.
        -- split; [lia|]. replace (j - i)%nat with (S (j - S i)) by lia. cbn [nth]. exact Em.
    + specialize (IH bi bx (S i)). destruct (argmax_from bi bx (S i) l) as [j m].
      destruct IH as [E [Hle D]]. split; [| split].
      * rewrite E. assert (Qmax bx y == bx) by (apply Q.max_l; lra).
        clear - H. revert H. generalize (Qmax bx y). intros q Hq.
        revert q bx Hq. induction l as [|z l IHl]; intros q bx Hq; cbn [qmax_from]; [lra|].
        apply IHl. destruct (Q.max_spec q z) as [[? ->]|[? ->]]; destruct (Q.max_spec bx z) as [[? ->]|[? ->]]; lra.
      * exact Hle.
      * destruct D as [[-> Em]|[Hr Em]]; [left; split; [reflexivity| exact Em]|].
        right. split; [lia|]. replace (j - i)%nat with (S (j - S i)) by lia. cbn [nth]. exact Em.
Qed.

Lemma argmax_spec : forall l, l <> [] ->
  let '(j, m) := argmax l in (j < length l)%nat /\ m == maxl l /\ m == nth j l 0.
Proof.
  intros [|x l] Hne; [congruence|]. cbn [argmax maxl length].
  pose proof (argmax_from_spec l O x 1%nat) as H. destruct (argmax_from O x 1%nat l) as [j m].
  destruct H as [E [Hle D]]. destruct D as [[-> Em]|[Hr Em]].
  - split; [lia|]. split; [exact E| cbn [nth]; exact Em].
  - split; [lia|]. split; [exact E|]. replace j with (S (j - 1)) at 1 by lia. cbn [nth]. exact Em.
Qed.

(* ---------------------------------------------------------------- closeness *)
Lemma close_refl : forall v d, 0 <= d -> close d v v.
Proof. induction v as [|x v IH]; intros d Hd; constructor; [split; lra| apply IH; exact Hd]. Qed.

Lemma close_length : forall d v w, close d v w -> length v = length w.
Proof. intros d v w H; induction H; cbn; congruence. Qed.

Lemma close_nth : forall d v w i, close d v w -> (i < length v)%nat ->
  - d <= nthq v i - nthq w i /\ nthq v i - nthq w i <= d.
Proof.
  intros d v w i H. revert i. induction H as [|x y v w Hxy H IH]; intros i Hi; cbn in Hi; [lia|].
  destruct i; unfold nthq; cbn [nth]; [exact Hxy| apply IH; lia].
Qed.

Lemma close_weaken : forall d d' v w, d <= d' -> close d v w -> close d' v w.
Proof. intros d d' v w Hd H; induction H as [|x y v w [L U] H IH]; constructor; [split; lra| exact IH]. Qed.

Lemma veq_refl : forall v, veq v v.
Proof. induction v; constructor; [reflexivity| assumption]. Qed.

Lemma veq_close0 : forall v w, veq v w <-> close 0 v w.
Proof.
  intros v w; split; intros H.
  - induction H as [|x y v w E H IH]; constructor; [rewrite E; split; lra| exact IH].
  - induction H as [|x y v w [L U] H IH]; constructor; [lra| exact IH].
Qed.
